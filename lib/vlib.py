"""Shared machinery for /verif/bin/check.

A check is a python module checks/<ID>.py with a function run(ctx).  It uses
ctx.tlc(...) to model-check / generate behaviours / validate traces with TLC and
ctx.go_test(...) to drive the real golang/crypto code (built from /repo's current
working tree with -tags verif), records what was covered, and returns.  ctx.finish()
applies known_findings.json, writes evidence/<ID>.json and sets the exit status:

  0  property held on everything explored (KNOWN-FINDING lines for listed open findings)
  1  VIOLATION property=<ID> replay=<path>   (only for behaviour exhibited by the real code)
  2  infrastructure trouble (TLC crash/timeout, build failure, dead driver) -- never a verdict
"""
import json, os, re, shutil, subprocess, sys, tempfile, time, hashlib

VERIF = os.path.dirname(os.path.dirname(os.path.abspath(__file__)))
REPO = os.environ.get("VERIF_REPO", "/repo")
GO = os.environ.get("VERIF_GO", "go1.26")
GOENV = {"GOFLAGS": "-mod=mod", "GOPROXY": "off", "GOSUMDB": "off", "GOTOOLCHAIN": "local"}
TLA_CP = "/opt/veriftools/tla/tla2tools.jar:/opt/veriftools/tla/CommunityModules-deps.jar"


class Infra(Exception):
    """Infrastructure failure: exit 2, never a verdict."""


class TLCResult:
    def __init__(self):
        self.ok = False            # finished without error of any kind
        self.violated = None       # name of violated invariant/property, "deadlock", or None
        self.generated = 0
        self.distinct = 0
        self.depth = 0
        self.traces = []           # decoded JSON objects from PrintT("TRACE " \o ToJson(..))
        self.lines = []            # other PrintT output lines
        self.raw = ""
        self.wall = 0.0
        self.cex = None            # counterexample text (design-level), if any
        self.coverage_zero = []    # actions with 0 count (when coverage requested)
        self.postcondition_failed = False


def _unquote_tla(s):
    # TLC prints strings as "...." with \" and \\ escapes; this is JSON compatible.
    try:
        return json.loads(s)
    except Exception:
        return s[1:-1].replace('\\"', '"').replace("\\\\", "\\")


class Ctx:
    def __init__(self, pid, tier, seed, replay=None):
        self.pid = pid
        self.tier = tier
        self.seed = seed
        self.replay = replay
        self.t0 = time.time()
        self.scratch = tempfile.mkdtemp(prefix="verif_%s_" % pid)
        self.level = "model_checking"
        self.states = 0
        self.transitions = 0
        self.traces_validated = 0
        self.evaluations = 0
        self.distinct = 0
        self.samples = []
        self.rule = ""
        self.assumptions = []
        self.violations = []       # dicts {sig, what, detail}
        self.notes = []
        self.extra = {}
        self.tlc_runs = []
        self.exhaustive = None
        self.skipped = []

    # ---------------------------------------------------------------- utilities
    @property
    def thorough(self):
        return self.tier == "thorough"

    def pick(self, quick, thorough):
        return thorough if self.thorough else quick

    def log(self, *a):
        print("[%s %s +%.0fs]" % (self.pid, self.tier, time.time() - self.t0), *a, flush=True)

    def tmp(self, name):
        p = os.path.join(self.scratch, name)
        os.makedirs(os.path.dirname(p), exist_ok=True)
        return p

    def have(self, tool):
        return shutil.which(tool) is not None

    # ---------------------------------------------------------------- TLC
    def tlc(self, module, cfg=None, workers=None, simulate=None, depth=None, timeout=600,
            files=None, coverage=False, dfs=False, expect_violation=False, defines=None,
            cfg_text=None, xss=None, note=None, count=True, heap=None):
        """Run TLC on spec/<module>.tla with spec/<cfg> (default <module>.cfg).

        files: dict name->content (or path) of extra files placed next to the spec
        (e.g. trace.ndjson for trace validation).  cfg_text: generate the cfg on the fly.
        simulate: number of behaviours for -simulate (with depth).
        Returns TLCResult.  Raises Infra on crash/timeout/parse errors.
        """
        wd = tempfile.mkdtemp(prefix="tlc_", dir=self.scratch)
        specdir = os.path.join(VERIF, "spec")
        for root, dirs, fs in os.walk(specdir):
            for f in fs:
                if f.endswith(".tla") or f.endswith(".cfg"):
                    shutil.copy(os.path.join(root, f), os.path.join(wd, f))
        for name, content in (files or {}).items():
            dst = os.path.join(wd, name)
            if isinstance(content, str) and os.path.exists(content) and "\n" not in content:
                shutil.copy(content, dst)
            else:
                with open(dst, "w") as fh:
                    fh.write(content)
        cfgname = cfg or (module + ".cfg")
        if cfg_text is not None:
            cfgname = module + "_auto.cfg"
            with open(os.path.join(wd, cfgname), "w") as fh:
                fh.write(cfg_text)
        meta = os.path.join(wd, "meta")
        if workers is None:
            workers = 16
        cmd = ["java", "-XX:+UseParallelGC"]
        cmd.append("-Xmx%s" % (heap or "8g"))
        cmd.append("-Xss%s" % (xss or "64m"))
        jtmp = os.path.join(wd, "jtmp")   # TLC leaves an empty tlc-* directory per run in java.io.tmpdir
        os.makedirs(jtmp, exist_ok=True)
        cmd.append("-Djava.io.tmpdir=%s" % jtmp)
        if dfs:
            cmd.append("-Dtlc2.tool.queue.IStateQueue=StateDeque")
        cmd += ["-cp", TLA_CP, "tlc2.TLC", "-workers", str(workers), "-metadir", meta,
                "-config", cfgname, "-noGenerateSpecTE"]
        if simulate:
            cmd += ["-simulate", "num=%d" % simulate, "-depth", str(depth or 50), "-seed", str(self.seed)]
        else:
            if depth:
                cmd += ["-depth", str(depth)]
        if coverage:
            cmd += ["-coverage", "1"]
        cmd.append(module + ".tla")
        env = dict(os.environ)
        env.pop("JAVA_TOOL_OPTIONS", None)
        t0 = time.time()
        try:
            p = subprocess.run(["timeout", str(timeout)] + cmd, cwd=wd, env=env, capture_output=True, text=True)
        except Exception as e:
            raise Infra("tlc failed to start: %r" % e)
        r = TLCResult()
        r.wall = time.time() - t0
        out = p.stdout + "\n" + p.stderr
        r.raw = out
        if p.returncode == 124:
            shutil.rmtree(wd, ignore_errors=True)
            raise Infra("TLC timeout after %ss on %s/%s" % (timeout, module, cfgname))
        for line in p.stdout.splitlines():
            if line.startswith('"TRACE '):
                s = _unquote_tla(line)
                try:
                    r.traces.append(json.loads(s[6:]))
                except Exception as e:
                    raise Infra("cannot decode TRACE line: %r (%s)" % (line[:200], e))
            elif line.startswith('"') and line.endswith('"'):
                r.lines.append(_unquote_tla(line))
        m = re.findall(r"(\d+) states generated, (\d+) distinct states found", out)
        if m:
            r.generated, r.distinct = int(m[-1][0]), int(m[-1][1])
        m = re.search(r"depth of the complete state graph search is (\d+)", out)
        if m:
            r.depth = int(m.group(1))
        if simulate:
            m = re.findall(r"Progress: (\d+) states checked, (\d+) traces generated", out)
            if m:
                r.generated = int(m[-1][0]); r.distinct = r.generated
        mv = re.search(r"Invariant (\S+) is violated", out)
        if mv:
            r.violated = mv.group(1)
        elif "Temporal properties were violated" in out or re.search(r"Temporal property \S+ was violated", out):
            m2 = re.search(r"Temporal property (\S+) was violated", out)
            r.violated = m2.group(1) if m2 else "temporal"
        elif re.search(r"Action property (\S+) is violated", out):
            r.violated = re.search(r"Action property (\S+) is violated", out).group(1)
        elif "Deadlock reached" in out:
            r.violated = "deadlock"
        if re.search(r"Postcondition \S+ .* is false", out):
            r.postcondition_failed = True
        if r.violated:
            i = out.find("Error:")
            r.cex = out[i:]
        if coverage:
            fin = out.rfind("The coverage statistics at")
            r.coverage_zero = re.findall(r"^<(\w+) line .*>: 0:0$", out[fin:] if fin >= 0 else out, re.M)
        errs = [l for l in out.splitlines() if l.startswith("Error:") or "Exception" in l]
        finished = "Model checking completed. No error has been found." in out or (simulate and "traces generated" in out and not errs)
        if simulate and p.returncode == 0:
            finished = True
        r.ok = bool(finished) and not r.violated and not r.postcondition_failed
        if not r.ok and not r.violated and not r.postcondition_failed:
            shutil.rmtree(wd, ignore_errors=True)
            raise Infra("TLC error on %s/%s (rc=%d):\n%s" % (module, cfgname, p.returncode, out[-4000:]))
        if (r.violated or r.postcondition_failed) and not expect_violation:
            # keep raw for the caller; caller decides (design-level counterexamples are not verdicts)
            pass
        if count:
            self.states += r.distinct
            self.transitions += r.generated
        self.tlc_runs.append({"module": module, "cfg": cfgname, "generated": r.generated, "distinct": r.distinct,
                              "depth": r.depth, "wall_s": round(r.wall, 1), "mode": "simulate" if simulate else "bfs",
                              "violated": r.violated, "note": note or ""})
        shutil.rmtree(wd, ignore_errors=True)
        return r

    def validate_traces(self, module, traces, cfg=None, timeout=900, max_rejects=20, sig_prefix="trace-rejected",
                        describe=None, dfs=False, files=None):
        """Binding T.  traces: list of recorded executions, each a list of event dicts (key "ev").
        All are concatenated (each preceded by {"ev":"reset","trace":i}) into trace.ndjson and
        validated by spec/<module>.tla (conventions: spec/TraceLib.tla) in one TLC run, -workers 1.
        A trace the spec cannot explain, or one that reaches a state violating an invariant of the
        trace cfg, is a violation exhibited by the real code; it is recorded (sig
        "<sig_prefix>:<event name at the rejection point>") and the remaining traces are re-validated
        without it, so one rejection does not hide the rest.  Returns number of accepted traces."""
        remaining = list(range(len(traces)))
        accepted = 0
        rejects = 0
        while remaining:
            lines = []
            start = {}
            for i in remaining:
                start[len(lines) + 1] = i
                lines.append(json.dumps({"ev": "reset", "trace": i}))
                for e in traces[i]:
                    lines.append(json.dumps(e, separators=(",", ":")))
            fl = dict(files or {})
            fl["trace.ndjson"] = "\n".join(lines) + "\n"
            r = self.tlc(module, cfg=cfg, workers=1, timeout=timeout, files=fl, expect_violation=True, dfs=dfs,
                         note="trace validation of %d recorded executions (%d events)" % (len(remaining), len(lines)))
            if r.ok:
                accepted += len(remaining)
                break
            # locate the rejected line
            bad_line = None
            why = None
            if r.violated and r.violated not in ("deadlock",):
                ls = re.findall(r"/\\ l = (\d+)", r.cex or "")
                if ls:
                    bad_line = int(ls[-1]) - 1     # the event consumed last led to the bad state
                why = "invariant %s violated by recorded execution" % r.violated
            else:
                m = [x for x in r.lines if isinstance(x, str) and x.startswith("HWM ")]
                if m:
                    bad_line = int(m[-1].split()[1])
                why = "recorded event not explained by the specification"
            if bad_line is None or bad_line < 1 or bad_line > len(lines):
                raise Infra("trace validation of %s failed but the rejection point could not be located:\n%s" % (module, r.raw[-3000:]))
            st = max(k for k in start if k <= bad_line)
            ti = start[st]
            ev = json.loads(lines[bad_line - 1])
            rejects += 1
            ctxlines = [json.loads(x) for x in lines[max(st - 1, bad_line - 6):bad_line]]
            what = "%s: %s at event #%d (%s) of recorded trace %d" % (module, why, bad_line - st, ev.get("ev"), ti)
            if describe:
                what += " " + describe(traces[ti], bad_line - st - 1)
            self.violation("%s:%s" % (sig_prefix, ev.get("ev")), what,
                           {"trace": traces[ti], "rejected_event_index": bad_line - st - 1, "context": ctxlines, "invariant": r.violated})
            # traces before the rejected one were accepted
            accepted += len([i for i in remaining if i < ti and i in remaining[:remaining.index(ti)]])
            remaining = remaining[remaining.index(ti) + 1:]
            if rejects >= max_rejects:
                break
        self.traces_validated += accepted
        return accepted

    def tlc_must_hold(self, module, **kw):
        """Model-check; a counterexample in the design model is NOT a verdict: Infra (exit 2)
        unless the caller handles it (use tlc(..., expect_violation=True) for that)."""
        r = self.tlc(module, **kw)
        if not r.ok:
            raise Infra("design model %s: %s violated (model-level counterexample, not reproduced on code):\n%s"
                        % (module, r.violated or "postcondition", (r.cex or r.raw[-3000:])[:6000]))
        return r

    # ---------------------------------------------------------------- Go harness
    def go_env(self, extra=None, repo=None):
        """repo: build the harness against this copy of the repository instead of /repo's working tree
        (used for derived variants, e.g. a scratch copy with a platform constant changed)."""
        env = dict(os.environ)
        env.update(GOENV)
        env["VERIF_SEED"] = str(self.seed)
        env["VERIF_TIER"] = self.tier
        env["VERIF_SCRATCH"] = self.scratch
        rp = repo or REPO
        env["VERIF_REPO"] = rp
        if rp != "/repo":
            # a scratch copy of the repository: alternate go.mod with the replace redirected
            tag = hashlib.sha1(rp.encode()).hexdigest()[:8]
            alt = os.path.join(self.scratch, "go.alt.%s.mod" % tag)
            if not os.path.exists(alt):
                src = open(os.path.join(VERIF, "harness", "go.mod")).read().replace("=> /repo", "=> " + rp)
                open(alt, "w").write(src)
                shutil.copy(os.path.join(VERIF, "harness", "go.sum"), os.path.join(self.scratch, "go.alt.%s.sum" % tag))
            env["GOFLAGS"] = "-mod=mod -modfile=" + alt
        if extra:
            env.update({k: str(v) for k, v in extra.items()})
        return env

    def repo_variant(self, name, edits):
        """Copy the repository under test (current working tree) into the scratch dir and apply textual edits
        [(relative_path, old, new), ...]; each old string must occur exactly once.  Returns the path, to be
        passed as go_test(..., repo=path).  Used to build platform variants (e.g. chacha20 with the 256-byte
        buffer of arm64/s390x/ppc64) on this machine."""
        dst = os.path.join(self.scratch, "repo_" + name)
        if not os.path.exists(dst):
            subprocess.run(["rsync", "-a", "--exclude", ".git", REPO + "/", dst + "/"], check=True)
            for rel, old, new in edits:
                p = os.path.join(dst, rel)
                src = open(p).read()
                if src.count(old) != 1:
                    raise Infra("repo_variant %s: %r occurs %d times in %s" % (name, old, src.count(old), rel))
                open(p, "w").write(src.replace(old, new))
        return dst

    def go_test(self, pkg, run, env=None, timeout=600, race=False, tags="verif", cases=None, cwd=None,
                allow_fail=False, extra_args=None, repo=None):
        """Run `go test -tags verif -run <run> ./<pkg>/` in /verif/harness (rebuilt against /repo's
        working tree).  cases: python list (written as ndjson to VERIF_CASES) or a path.
        Returns the decoded VERIF_OUT object (dict).  Raises Infra if the driver died."""
        outp = self.tmp("out_%d.json" % len(os.listdir(self.scratch)))
        e = {"VERIF_OUT": outp}
        if cases is not None:
            if isinstance(cases, str):
                e["VERIF_CASES"] = cases
            else:
                cp = self.tmp("cases_%d.ndjson" % len(os.listdir(self.scratch)))
                with open(cp, "w") as fh:
                    for c in cases:
                        fh.write(json.dumps(c, separators=(",", ":")) + "\n")
                e["VERIF_CASES"] = cp
        if env:
            e.update(env)
        cmd = [GO, "test", "-count=1", "-vet=off", "-timeout", "%ds" % timeout]
        if tags:
            cmd += ["-tags", tags]
        if race:
            cmd.append("-race")
        cmd += ["-run", run]
        cmd += (extra_args or [])
        cmd.append("./" + pkg + "/")
        t0 = time.time()
        p = subprocess.run(cmd, cwd=cwd or os.path.join(VERIF, "harness"), env=self.go_env(e, repo=repo),
                           capture_output=True, text=True)
        self.extra.setdefault("go_runs", []).append({"pkg": pkg, "run": run, "wall_s": round(time.time() - t0, 1),
                                                     "rc": p.returncode, "tags": tags, "race": race})
        if not os.path.exists(outp):
            raise Infra("harness %s/%s produced no result (rc=%d):\n%s\n%s" % (pkg, run, p.returncode, p.stdout[-6000:], p.stderr[-3000:]))
        with open(outp) as fh:
            res = json.load(fh)
        os.unlink(outp)
        if p.returncode != 0 and not res.get("violations") and not allow_fail:
            raise Infra("harness %s/%s failed without recording a violation (rc=%d):\n%s\n%s" % (pkg, run, p.returncode, p.stdout[-6000:], p.stderr[-3000:]))
        res["_stdout"] = p.stdout[-4000:]
        return res

    def absorb(self, res, validated=True):
        """Merge a harness result into the evidence counters."""
        self.evaluations += res.get("evaluations", 0)
        self.distinct += res.get("distinct", 0)
        if validated:
            self.traces_validated += res.get("evaluations", 0)
        for s in (res.get("samples") or []):
            if len(self.samples) < 8:
                self.samples.append(s)
        for v in (res.get("violations") or []):
            self.violations.append(v)
        for k, v in (res.get("extra") or {}).items():
            if isinstance(v, (int, float)) and isinstance(self.extra.get(k), (int, float)):
                self.extra[k] += v
            else:
                self.extra[k] = v

    def violation(self, sig, what, detail=None):
        self.violations.append({"sig": sig, "what": what, "detail": detail})

    # ---------------------------------------------------------------- finish
    def finish(self):
        kf_path = os.path.join(VERIF, "known_findings.json")
        known = []
        if os.path.exists(kf_path):
            with open(kf_path) as fh:
                known = [k for k in json.load(fh) if k.get("property") == self.pid and k.get("status") == "open"]
        known_hit = {}
        real = []
        for v in self.violations:
            k = next((k for k in known if k["signature"] == v.get("sig")), None)
            if k:
                known_hit.setdefault(k["signature"], k)
            else:
                real.append(v)
        for sig, k in known_hit.items():
            print("KNOWN-FINDING: property=%s %s [%s]" % (self.pid, k["what"], sig))
        rc = 0
        if real:
            rdir = os.path.join(VERIF, "replays", self.pid)
            os.makedirs(rdir, exist_ok=True)
            seen = set()
            for v in real:
                if v.get("sig") in seen:
                    continue
                seen.add(v.get("sig"))
                h = hashlib.sha1(json.dumps(v, sort_keys=True, default=str).encode()).hexdigest()[:10]
                path = os.path.join(rdir, "%s_%s.json" % (self.tier, h))
                with open(path, "w") as fh:
                    json.dump({"property": self.pid, "tier": self.tier, "seed": self.seed, "violation": v,
                               "replay_cmd": "bin/check %s %s --replay %s" % (self.pid, self.tier, path)}, fh, indent=1, default=str)
                print("VIOLATION property=%s replay=%s" % (self.pid, path))
                print("  what: %s" % (v.get("what"),))
            rc = 1
        cov = {
            "states": self.states, "transitions": self.transitions,
            "traces_validated_against_impl": self.traces_validated,
            "evaluations": self.evaluations, "distinct_nontrivial": self.distinct,
            "rule": self.rule, "samples": self.samples[:8] or ["(none)"],
            "tlc_runs": self.tlc_runs,
        }
        if self.exhaustive is not None:
            cov["exhaustive"] = bool(self.exhaustive)
        if self.skipped:
            cov["skipped_subchecks"] = self.skipped
        if known_hit:
            cov["known_findings_reproduced"] = sorted(known_hit)
        if self.notes:
            cov["notes"] = self.notes
        cov.update(self.extra)
        ev = {"property_id": self.pid, "tier": self.tier, "seed": self.seed, "level": self.level,
              "coverage": cov, "assumptions": self.assumptions, "wall_s": round(time.time() - self.t0, 1),
              "violations": len(real)}
        evdir = os.path.join(VERIF, "evidence") if (REPO == "/repo" and re.match(r"^[CX]\d+$", self.pid)) else os.environ.get("VERIF_EVIDENCE_DIR", "/tmp/verif_mut_evidence")
        os.makedirs(evdir, exist_ok=True)
        with open(os.path.join(evdir, self.pid + ".json"), "w") as fh:
            json.dump(ev, fh, indent=1, default=str)
        shutil.rmtree(self.scratch, ignore_errors=True)
        self.log("done rc=%d states=%d transitions=%d impl_cases=%d distinct=%d violations=%d known=%d"
                 % (rc, self.states, self.transitions, self.evaluations, self.distinct, len(real), len(known_hit)))
        return rc

    def cleanup(self):
        shutil.rmtree(self.scratch, ignore_errors=True)
