SPECIFICATION GSpec
CONSTANTS
  Configs <- ConfigsC33Thorough
  ReqAt <- MCAt
  General = {"K1", "K2", "K2n", "K3", "K4", "K5", "K5b", "K6", "K6b", "K7", "K7b", "K8", "K1ap", "K2ap", "K3ap", "K4ap", "K6bap"}
  MaxAttempts = 128
  MaxLen = 4
  ShallowLen = 4
  DeepConfigs = {}
INVARIANTS EmitCfg TypeOK SoundSuccess PermsFromFinalCallback PartialSwitch NoneOnlyBeforePartial FailureLimit AttemptLimit UserBound SrcEnforced PkOkSrc LastPkIsAuthKey
VIEW View
ACTION_CONSTRAINT CheckAC EmitAC
CHECK_DEADLOCK FALSE
