SPECIFICATION Spec
CONSTANTS
  KeyTypes <- KT
  FilePw <- FP
  Given <- GV
  Iters <- ITt
  Damage <- DM
INVARIANTS Emit
CHECK_DEADLOCK FALSE
