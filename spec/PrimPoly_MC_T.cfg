SPECIFICATION Spec
CONSTANTS
  Shapes <- MC_Shapes
  ASet <- MC_ASet
  RSet <- MC_RSet
INVARIANTS MulOK AddOK ModOK StepOK
CHECK_DEADLOCK FALSE
