SPECIFICATION Spec
CONSTANTS
  IntBits = 31
  KeyLenGuard = TRUE
  MemLog2 = 27
  WorkLog2 = 20
  NSet <- N32
  RSet <- RP32
  PSet <- RP32
  KSet <- BigK
INVARIANTS NeverPanics Conforms DivisionFormIsProductForm WrapCovered
CHECK_DEADLOCK FALSE
