SPECIFICATION GenSpec
CONSTANTS
  MaxPeer = 4
  MaxLocal = 1
  MaxDial = 2
  MaxGReq = 2
  MaxIn = 1
  MaxReg = 1
  Configs <- CfgCore
  Alpha = "lite"
  Races = TRUE
  CloseLate = TRUE
VIEW AbsView
CHECK_DEADLOCK FALSE
