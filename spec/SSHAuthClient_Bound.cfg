SPECIFICATION Spec
CONSTANTS
  Configs <- AllConfigs
  Servers <- GridServers
  SrvNames <- SrvScript
  GridCfgNames <- NoNames
  CfgNames <- NamesBound
  Pre <- PreLong
  Items <- ItemsSmall
  MaxScript = 5
  LongNames <- NoNames
  LongPre <- PreLong
  LongItems <- ItemsLong
  LongMax = 70
  FocusNames <- NoNames
  FocusPre <- PreFocus
  FocusItems <- ItemsFocus
  FocusMax = 4
  FocusDeepNames <- NoNames
  FocusDeepMax = 6
  FocusDeepItems <- ItemsFocusDeep
  FixO1 = TRUE
  FixRetry = TRUE
  FixRetryList = TRUE
  MaxTried = 2
INVARIANTS Q1 Q1b Q1r Q2 Q3 Q4 Q5 PickIsDoc ViewsAgree
VIEW MCView
CHECK_DEADLOCK FALSE
