---------------------------- MODULE Blake2Xof_Gen ----------------------------
(***************************************************************************)
(* C06, binding R: history generator at the REAL node sizes, from the      *)
(* abstract Blake2Xof (which Blake2XofImpl is model-checked to refine).    *)
(* `which` selects BLAKE2Xb (N = 64) or BLAKE2Xs (N = 32); both instances  *)
(* share the variables, so one TLC run emits both.  Every history of       *)
(* exactly Depth calls is printed as                                       *)
(*   {"w": which, "L": declared length (-1 unknown), "h": [[op, r, k, n, res, from, mlen], ...]} *)
(* op 0 = Write(k bytes) on object r, 1 = Read(k), 2 = Clone (k = new      *)
(* object), 3 = Reset; res 0 = returns, 1 = io.EOF, 2 = panics;            *)
(* for Read: n bytes are returned, they are bytes [from, from+n) of the    *)
(* BLAKE2X stream of the mlen-byte message the object absorbed.            *)
(* The unknown-length limit (2^32 nodes) is out of reach: Max = 2^30.      *)
(***************************************************************************)
EXTENDS Integers, Sequences, TLC, Json

CONSTANTS Depth, Which, Big
VARIABLES L, xs, last, hist, which
gvars == <<L, xs, last, hist, which>>

KB == {0, 1, 63, 65, 129, 200} \cup (IF Big THEN {64, 70000} ELSE {})
KS == {0, 1, 31, 33, 65, 200} \cup (IF Big THEN {32, 70000} ELSE {})
LB == {1, 63, 64, 65, 129, 1000, 70000, -1} \cup (IF Big THEN {2, 127, 128, 192, 193} ELSE {})
LS == {1, 31, 32, 33, 65, 1000, 65534, -1} \cup (IF Big THEN {2, 63, 64, 96, 97} ELSE {})
XB == INSTANCE Blake2Xof WITH N <- 64, LSet <- LB, Max <- 1073741824, KSet <- KB, WSet <- {3}, Readers <- 2, MaxW <- 6, Materialize <- FALSE
XS == INSTANCE Blake2Xof WITH N <- 32, LSet <- LS, Max <- 1073741824, KSet <- KS, WSet <- {3}, Readers <- 2, MaxW <- 6, Materialize <- FALSE

OpCode(op) == CASE op = "write" -> 0 [] op = "read" -> 1 [] op = "clone" -> 2 [] op = "reset" -> 3
ResCode(r) == CASE r = "ok" -> 0 [] r = "eof" -> 1 [] r = "panic" -> 2
Code == LET e == last' IN
        << OpCode(e.op), e.r, e.k, e.n, ResCode(e.res),
           IF e.op = "read" THEN xs'[e.r].pos - e.n ELSE 0,
           xs'[e.r].w >>

Init == /\ which \in Which /\ hist = <<>>
        /\ CASE which = "b" -> XB!Init [] which = "s" -> XS!Init
Next == /\ UNCHANGED which
        /\ Len(hist) < Depth
        /\ CASE which = "b" -> XB!Next [] which = "s" -> XS!Next
        /\ hist' = Append(hist, Code)
Spec == Init /\ [][Next]_gvars
Emit == (Len(hist) = Depth) => PrintT("TRACE " \o ToJson([w |-> which, L |-> L, h |-> hist]))
WBoth == {"b", "s"}
=============================================================================
