SPECIFICATION Spec
CONSTANTS
  Menu <- MenuCipherMacSC
  AEAD <- MCAEAD
INVARIANTS BothOrNeither Mirror RFCChoice FailIffNoCommon FindCommonIsRFC
CHECK_DEADLOCK FALSE
