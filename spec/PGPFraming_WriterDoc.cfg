SPECIFICATION MCSpec
CONSTANTS
  MinFirst = 512
  MaxPow = 30
  Families = {"writer"}
  Big = FALSE
  SweepSet <- SweepQ
  WSizes <- WMenuQ
  WNames = {0}
  WMaxLen = 2
INVARIANTS FirstChunkRFC
CHECK_DEADLOCK FALSE
