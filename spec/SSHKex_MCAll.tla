------------------------------ MODULE SSHKex_MCAll ------------------------------
(* The full product of attacker plans per method (property C29). *)
EXTENDS SSHKex_MC

AllPlans == UNION {Plans(m) : m \in Methods}
=============================================================================
