\* one authorization per order, every offer set, every fault
SPECIFICATION Spec
CONSTANTS
  HTTP01 = {TRUE, FALSE}
  NAuthz = 1
  OfferSets <- AllOffers
  MaxOrders = 4
  Faults <- AllFaults
VIEW MCView
INVARIANTS F1_Bounded F2_ProvisionedBeforeAccept F3_NoTokenLeft F4_NoPendingLeft F5_FinalizeOnlyReady F6_OnlyPendingAccepted
CHECK_DEADLOCK FALSE
