---------------------------- MODULE PGPFraming_MC ----------------------------
(* Bounded instances of PGPFraming (X03 a, b): the header codec on boundary lengths, crafted inputs with every
   truncation class, the partial-length writer on write-size sequences around the 512-octet rule (real constants), and the
   case generator for binding E+R.  One initial state = one case; the invariants are evaluated on every case. *)
EXTENDS PGPFraming, Json

CONSTANTS Families,     \* which case families this instance enumerates
          Big           \* include the large boundary lengths (2^24)

VARIABLE c

Seed == 7
NextPkt == <<H(EncNewHeader(13, 3)), D(900000, 3)>>          \* a small packet following the one under test

-----------------------------------------------------------------------------
(* family "enc": serializeHeader on boundary lengths *)
EncLens == {0, 1, 2, 100, 190, 191, 192, 193, 255, 256, 1723, 8382, 8383, 8384, 8385, 65535, 65536, 100000}
           \cup (IF Big THEN {16777215, 16777216} ELSE {})
EncTags == {0, 1, 2, 6, 11, 13, 14, 17, 18, 40, 60, 63}
EncCases == {[k |-> "enc", tag |-> t, n |-> n] : t \in EncTags, n \in {0, 191, 192, 8383, 8384}}
            \cup {[k |-> "enc", tag |-> t, n |-> n] : t \in {13, 61}, n \in EncLens}
\* sweep of the one/two-octet range (model only; the Go transcription repeats the whole sweep against the real code)
CONSTANT SweepSet
SweepQ == (0..300) \cup (8300..8500)
SweepT == 0..8500
SweepCases == {[k |-> "sweep", tag |-> 13, n |-> n] : n \in SweepSet}

(* family "read": crafted packets in every header form, read back whole and cut at every interesting offset *)
FormLens(f) == CASE f = "new1" -> {0, 1, 100, 190, 191}
                 [] f = "new2" -> {192, 193, 255, 256, 1723, 8382, 8383}
                 [] f = "new5" -> {0, 1, 191, 192, 8383, 8384, 8385, 65535, 65536, 100000} \cup (IF Big THEN {16777216} ELSE {})
                 [] f = "old0" -> {0, 1, 191, 192, 255}
                 [] f = "old1" -> {0, 255, 256, 8383, 8384, 65535}
                 [] f = "old2" -> {0, 1, 65535, 65536, 100000}
                 [] OTHER -> {0, 1, 1000}                                   \* old3: octets present
Forms == {"new1", "new2", "new5", "old0", "old1", "old2", "old3"}
Header(f, tag, n) == CASE f = "new1" -> <<NewTag(tag)>> \o EncLen1(n)
                       [] f = "new2" -> <<NewTag(tag)>> \o EncLen2(n)
                       [] f = "new5" -> <<NewTag(tag)>> \o EncLen5(n)
                       [] f = "old0" -> EncOldHeader(tag % 16, 0, n)
                       [] f = "old1" -> EncOldHeader(tag % 16, 1, n)
                       [] f = "old2" -> EncOldHeader(tag % 16, 2, n)
                       [] OTHER -> EncOldHeader(tag % 16, 3, 0)
ReadTags == {11, 13, 2, 60}
ReadCasesOK == UNION {{[k |-> "read", form |-> f, tag |-> t, n |-> n,
                         segs |-> <<H(Header(f, t, n)), D(0, n)>> \o (IF f = "old3" THEN <<>> ELSE NextPkt)]
                          : t \in ReadTags, n \in FormLens(f)} : f \in Forms}
\* declared lengths of 2^31 and 2^32-1 (nothing that long is ever present), a first octet without bit 7, reserved tag 0
OddCases == {[k |-> "read", form |-> "odd", tag |-> 0, n |-> 0, segs |-> s] : s \in {
               <<H(<<NewTag(13), 255, 128, 0, 0, 0>>), D(0, 40)>>,
               <<H(<<NewTag(13), 255, 255, 255, 255, 255>>), D(0, 40)>>,
               <<H(<<OldTag(13, 2), 128, 0, 0, 0>>), D(0, 40)>>,
               <<H(<<OldTag(13, 2), 255, 255, 255, 255>>), D(0, 40)>>,
               <<H(<<0>>)>>, <<H(<<127, 1, 2>>)>>, <<H(<<64 + 13, 1, 65>>)>>,
               <<H(EncNewHeader(13, 2)), D(0, 2), H(<<13, 2>>), D(2, 2)>>,
               <<H(EncNewHeader(0, 1)), D(0, 1)>>, <<H(EncOldHeader(0, 0, 1)), D(0, 1)>>,
               <<>> }}

(* family "partial": crafted partial-length streams (any chunk exponents, final length in any form) *)
PartKs == {<<0>>, <<1>>, <<9>>, <<0, 0>>, <<3, 1>>, <<1, 3>>, <<9, 0>>, <<0, 9>>, <<13, 9>>, <<9, 9, 9>>, <<2, 0, 1>>, <<16>>}
          \cup (IF Big THEN {<<24>>, <<20, 20>>} ELSE {})
Finals == {<<1, 0>>, <<1, 1>>, <<1, 191>>, <<2, 192>>, <<2, 8383>>, <<5, 0>>, <<5, 5>>, <<5, 8384>>}
RECURSIVE PartSegs(_, _, _)
PartSegs(ks, i, from) == IF i > Len(ks) THEN <<>>
                         ELSE <<H(EncPartial(ks[i])), D(from, Pow2(ks[i]))>> \o PartSegs(ks, i + 1, from + Pow2(ks[i]))
RECURSIVE PowSum(_)
PowSum(ks) == IF ks = <<>> THEN 0 ELSE Pow2(ks[1]) + PowSum(Tail(ks))
PartialCases == {[k |-> "read", form |-> "partial", tag |-> t, n |-> PowSum(ks) + fin[2],
                  segs |-> <<H(<<NewTag(t)>>)>> \o PartSegs(ks, 1, 0) \o <<H(EncLenForm(fin[2], fin[1])), D(PowSum(ks), fin[2])>> \o NextPkt]
                   : t \in {11, 13}, ks \in PartKs, fin \in Finals}

(* family "writer": SerializeLiteral(w, true, name, 0) then Write sizes then Close: the partial-length writer sees the
   writes <<2, Len(name), 4>> \o sizes *)
WMenu == {0, 1, 2, 3, 255, 256, 257, 500, 505, 506, 507, 511, 512, 513, 1023, 1024, 1025, 1535, 4096, 65536}
WMenuQ == {0, 1, 3, 255, 506, 507, 512, 513, 1025, 4096}
CONSTANTS WSizes, WNames, WMaxLen
WriterCases == {[k |-> "writer", L |-> L, sizes |-> s] : L \in WNames, s \in UNION {[1..m -> WSizes] : m \in 0..WMaxLen}}
WritesOf(x) == <<2, x.L, 4>> \o x.sizes

(* family "sub": signature subpackets *)
SubBody(n) == [i \in 1..n |-> (i * 11 + 5) % 256]
SubCases == {[k |-> "sub", type |-> ty, n |-> n] : ty \in {2, 16, 100, 255}, n \in {0, 1, 189, 190, 191, 192, 16317, 16318, 16319, 16320}}
SubOdd == {[k |-> "subraw", type |-> 0, n |-> 0, raw |-> r] : r \in {
             <<>>, <<0>>, <<1>>, <<1, 7>>, <<2, 7>>, <<2, 7, 8>>, <<3, 7, 8>>, <<192>>, <<192, 0>>, <<192, 0, 9>>, <<255, 0, 0, 0>>, <<255, 0, 0, 0, 1>>,
             <<255, 0, 0, 0, 1, 9>>, <<255, 0, 0, 0, 2, 9, 8>>, <<255, 128, 0, 0, 0, 9>>, <<255, 255, 255, 255, 255, 9>>, <<254, 255, 9>>,
             <<2, 7, 8, 0>>, <<2, 7, 8, 1, 9>>, <<2, 7, 8, 3, 9>> }}

AllCases == (IF "enc" \in Families THEN EncCases ELSE {})
            \cup (IF "sweep" \in Families THEN SweepCases ELSE {})
            \cup (IF "read" \in Families THEN ReadCasesOK \cup OddCases ELSE {})
            \cup (IF "partial" \in Families THEN PartialCases ELSE {})
            \cup (IF "writer" \in Families THEN WriterCases ELSE {})
            \cup (IF "sub" \in Families THEN SubCases \cup SubOdd ELSE {})
\* TLC computes initial states in one thread: the cases are spread over NB bucket states whose successors are the cases
NB == 48
Bucket(x) == CASE x.k = "writer" -> (SeqSum(x.sizes) + x.L + Len(x.sizes)) % NB
               [] x.k = "subraw" -> Len(x.raw) % NB
               [] x.k = "sub" -> (x.n + x.type) % NB
               [] OTHER -> (x.n + x.tag) % NB
Init == c \in {[k |-> "bucket", b |-> b] : b \in 0..(NB - 1)}
Next == c.k = "bucket" /\ c' \in {x \in AllCases : Bucket(x) = c.b}
MCSpec == Init /\ [][Next]_c

-----------------------------------------------------------------------------
IsEnc == c.k \in {"enc", "sweep"}
EncWire == MkWire(<<H(EncNewHeader(c.tag, c.n)), D(0, c.n)>> \o NextPkt, Seed)
HdrLen == Len(EncNewHeader(c.tag, c.n))

\* A1: shortest form
Shortest == IsEnc => LET h == EncNewHeader(c.tag, c.n) IN
               /\ h[1] = 192 + c.tag
               /\ Len(h) = (IF c.n < 192 THEN 2 ELSE IF c.n <= 8383 THEN 3 ELSE 6)
               /\ (Len(h) = 2 => h[2] = c.n)
               /\ (Len(h) = 3 => h[2] \in 192..223 /\ (h[2] - 192) * 256 + h[3] + 192 = c.n)
               /\ (Len(h) = 6 => h[2] = 255)
\* A2: round trip, exact consumption, following packet intact
EncRoundTrip == IsEnc => LET rs == ParseAll(EncWire) IN
                   /\ Len(rs) = 3 /\ rs[1].st = "ok" /\ rs[1].tag = c.tag /\ rs[1].body = Data(c.n) /\ rs[1].used = HdrLen + c.n
                   /\ IntOf(rs[1].lenw) = c.n
                   /\ rs[2].st = "ok" /\ rs[2].tag = 13 /\ rs[2].body = <<D(900000, 3)>> /\ rs[2].used = EncWire.n
                   /\ rs[3].st = "eof"
\* A4: every proper prefix of header++body is an unexpected EOF (the empty prefix: EOF)
EncCuts == {0, 1, HdrLen - 1, HdrLen, HdrLen + (c.n \div 2), HdrLen + c.n - 1} \cap 0..(HdrLen + c.n - 1)
EncPrefix == c.k = "enc" => \A m \in EncCuts : LET r == ParsePacket(Trunc(EncWire, m), 0) IN
                         /\ r.st = (IF m = 0 THEN "eof" ELSE "uneof")
                         /\ r.used = m
                         /\ (m >= HdrLen => r.body = Data(m - HdrLen))
\* A3: the five-octet form (and, where it fits, the old-format forms) of the same length decode to the same packet
Liberal == c.k = "enc" => \A hdr \in {<<NewTag(c.tag)>> \o EncLen5(c.n)}
                         \cup (IF c.tag < 16 /\ c.n < 256 THEN {EncOldHeader(c.tag, 0, c.n)} ELSE {})
                         \cup (IF c.tag < 16 /\ c.n < 65536 THEN {EncOldHeader(c.tag, 1, c.n)} ELSE {})
                         \cup (IF c.tag < 16 THEN {EncOldHeader(c.tag, 2, c.n)} ELSE {}) :
                       LET r == ParsePacket(MkWire(<<H(hdr), D(0, c.n)>> \o NextPkt, Seed), 0) IN
                       r.st = "ok" /\ r.tag = c.tag /\ r.body = Data(c.n) /\ r.used = Len(hdr) + c.n

\* crafted inputs: cuts at every segment boundary +-1
IsRead == c.k = "read"
RWire == MkWire(c.segs, Seed)
Cuts(w) == (UNION {{w.start[k] - 1, w.start[k], w.start[k] + 1} : k \in 1..Len(w.segs)} \cup {w.n - 1, w.n}) \cap 0..w.n
\* end offset of the first packet in the uncut wire (w.n if it does not end properly)
FirstEnd(w) == ParsePacket(w, 0).used
ReadRule == (IsRead /\ c.form # "odd") =>
              LET w == RWire
                  full == ParseAll(w) IN
              /\ full[1].st = "ok" /\ full[1].tag = (IF c.form \in {"old0", "old1", "old2", "old3"} THEN c.tag % 16 ELSE c.tag)
              /\ (c.form # "old3" => (full[1].body = Data(c.n) /\ Len(full) = 3 /\ full[2].st = "ok" /\ full[3].st = "eof"))
              /\ (c.form = "old3" => (full[1].body = Data(c.n) /\ Len(full) = 2 /\ full[2].st = "eof"))       \* runs to the end of input
              /\ \A m \in Cuts(w) : LET r == ParsePacket(Trunc(w, m), 0) IN
                    IF m = 0 THEN r.st = "eof"
                    ELSE IF c.form = "old3" THEN r.st = "ok" /\ r.body = Data(m - 1)                         \* indeterminate length: any cut is a packet
                    ELSE IF m < FirstEnd(w) THEN r.st = "uneof" /\ r.used = m
                    ELSE r.st = "ok" /\ r.body = Data(c.n) /\ r.used = FirstEnd(w)
OddRule == (IsRead /\ c.form = "odd") => LET rs == ParseAll(RWire) IN
              /\ rs[Len(rs)].st # "ok"
              /\ \A i \in 1..Len(rs) : rs[i].used <= RWire.n

\* writer: B2, B3
IsWriter == c.k = "writer"
WriterOK == IsWriter =>
              LET ws == WritesOf(c)
                  tot == SeqSum(ws)
                  s == WRun(ws) IN
              /\ \A fx \in {FALSE, TRUE} :
                    LET segs == WStream(11, ws, fx)
                        w == MkWire(segs \o NextPkt, Seed)
                        rs == ParseAll(w)
                        cs == ChunkSizes(segs)
                        first == cs[2] IN
                    /\ Len(rs) = 3 /\ rs[1].st = "ok" /\ rs[1].tag = 11 /\ rs[1].body = Data(tot) /\ rs[1].used = w.n - 5
                    /\ rs[2].st = "ok" /\ rs[3].st = "eof"
                    /\ \A i \in 1..Len(segs) : cs[i] > 0 => (i < Len(segs) /\ segs[i + 1].t = "d" /\ segs[i + 1].n = cs[i])
                    /\ ((fx \/ tot >= MinFirst) => (first = 0 \/ first >= MinFirst))                 \* B3 (as far as the code keeps it)
                    /\ (tot >= MinFirst => first >= MinFirst)
              /\ s.bufN < MinFirst /\ (s.sent => s.bufN = 0) /\ s.pos = tot
\* documentation of B3's gap: a stream shorter than 512 octets leaves as short partial chunks (expected counterexample)
FirstChunkRFC == IsWriter => LET first == ChunkSizes(WStream(11, WritesOf(c), FALSE))[2] IN first = 0 \/ first >= MinFirst

\* subpackets: S1
IsSub == c.k = "sub"
SubRule == IsSub => LET e == EncSub(c.type, SubBody(c.n))
                        l == EncSubLen(c.n + 1)
                        r == SubParse(e \o EncSub(3, <<1, 2>>), <<>>) IN
              /\ Len(l) = (IF c.n + 1 < 192 THEN 1 ELSE IF c.n + 1 < 16320 THEN 2 ELSE 5)
              /\ r.ok /\ Len(r.subs) = 2 /\ r.subs[1] = [type |-> c.type, body |-> SubBody(c.n)] /\ r.subs[2].type = 3
              /\ \A m \in {1, Len(l), Len(e) - 1} \cap 1..(Len(e) - 1) : ~SubParse(SubSeq(e, 1, m), <<>>).ok

-----------------------------------------------------------------------------
(* generator *)
Compact(s) == IF s.t = "h" THEN [h |-> s.v] ELSE [d |-> <<s.from, s.n>>]
CSegs(segs) == [i \in 1..Len(segs) |-> Compact(segs[i])]
CRes(r) == [st |-> r.st, tag |-> r.tag, fmt |-> r.fmt, lenw |-> r.lenw, body |-> CSegs(r.body), used |-> r.used]
CAll(rs) == [i \in 1..Len(rs) |-> CRes(rs[i])]
Record ==
  CASE c.k = "enc" -> [k |-> "enc", tag |-> c.tag, n |-> c.n, hdr |-> EncNewHeader(c.tag, c.n), seed |-> Seed]
    [] c.k = "read" -> [k |-> "read", form |-> c.form, tag |-> c.tag, n |-> c.n, seed |-> Seed, segs |-> CSegs(c.segs),
                        runs |-> {[cut |-> m, res |-> CAll(ParseAll(Trunc(RWire, m)))] : m \in Cuts(RWire)}]
    [] c.k = "writer" -> [k |-> "writer", L |-> c.L, sizes |-> c.sizes, seed |-> Seed,
                          segs |-> CSegs(WStream(11, WritesOf(c), FALSE)), fixed |-> CSegs(WStream(11, WritesOf(c), TRUE))]
    [] c.k = "sub" -> [k |-> "sub", type |-> c.type, body |-> SubBody(c.n), enc |-> EncSub(c.type, SubBody(c.n))]
    [] c.k = "subraw" -> [k |-> "subraw", raw |-> c.raw, res |-> SubParse(c.raw, <<>>)]
    [] OTHER -> [k |-> "none"]
\* the sweep is model-only (the Go transcription repeats it against the real serializeHeader)
Emit == c.k \notin {"sweep", "bucket"} => PrintT("TRACE " \o ToJson(Record))
=============================================================================
