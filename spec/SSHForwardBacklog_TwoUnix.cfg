SPECIFICATION Spec
CONSTANTS
  Listeners <- LAB
  Kind <- KUnix
  Order <- OCode
  CapIncoming = 1
  CapHandler = 1
  MaxPer = 4
  Bursts <- NoBursts
  MaxHist = 0
CHECK_DEADLOCK FALSE
INVARIANTS TypeOK StuckCloseHasRemoved
