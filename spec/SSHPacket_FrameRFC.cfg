SPECIFICATION Spec
CONSTANTS
  Modes <- ConformingModes
  MaxPacket = 262144
  SeqMod = 8
  CtrBase = 3
  CtrLimbs = 2
  Sizes <- Sizes64
  StartSeqs <- Seq0
  StartCtrs <- Ctr0Small
  MaxPkts = 1
  MaxFaults = 0
  AttackOps <- NoOps
  Phased = TRUE
  PadRule = "rfc"
INVARIANTS TypeOK FramingRFC ReaderAcceptsRFC RoundTrip DeliveredPrefix
CHECK_DEADLOCK FALSE
