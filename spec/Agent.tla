------------------------------- MODULE Agent -------------------------------
(* C43 -- the SSH agent keyring and protocol (golang.org/x/crypto/ssh/agent: keyring.go,
   server.go, client.go).

   Two descriptions of the agent step together on the same operations:

     * the ABSTRACT agent of the property: a map  akeys : key -> absent | [exp, c]  (expiry,
       comment), a locked flag and a passphrase; keys vanish at their expiry instant (eager);
     * the IMPLEMENTATION-SHAPED keyring of keyring.go: a list of entries (keyring.keys) in
       which a re-Add overwrites in place, Remove is removeLocked's swap-delete, and expired
       entries stay until expireKeysLocked runs (only inside List/Sign/Signers of an unlocked
       agent), which ranges over the ORIGINAL slice while removeLocked shrinks and reorders
       the live one.  Results of every operation are computed from the list.

   TLC checks that the two agree (Corr, ResAgree -- the only licensed difference is Remove of an
   expired entry that has not been purged yet, flagged "lazy"), and the clauses of C43 on the
   results: a signature only when unlocked, present and unexpired (SigOnlyIfUsable), a locked agent
   lists nothing and signs nothing (LockedRevealsNothing).

   Time: exp is the number of seconds left (>= 0; 0 = exactly at the expiry instant, which
   time.Now().After(expire) does not count as expired), NoExp = no lifetime, Gone = expired.

   One action per Agent method (the critical section under keyring.mu) plus Tick.  The wire path
   (agent.NewClient <-> ServeAgent) performs the same operations; its only different result is
   Signers, which the client implements by List (an empty list, not an error, when locked):
   field resWire. *)
EXTENDS Integers, Sequences, FiniteSets, TLC

CONSTANTS Keys,        \* key identities
          RSAKeys,     \* the subset whose signatures take the RSA SHA-2 flags
          Pass,        \* passphrases
          Lifetimes,   \* lifetimes offered to Add (0 = none)
          Ticks,       \* clock advances
          Comments,
          Flags,       \* signature flags tried: 0 none, 2 rsa-sha2-256, 4 rsa-sha2-512, others unsupported
          MaxLen       \* bound on recorded history (generator); 0 = do not record

NoExp == -1
Gone == -2
Absent == [p |-> FALSE, exp |-> NoExp, c |-> ""]

VARIABLES list,    \* keyring.keys: sequence of [k, exp, c]
          akeys,   \* abstract agent: [Keys -> [p, exp, c]]
          locked, pass,
          last,    \* the last operation with its results (and what the properties need of the pre-state)
          hist     \* generator only

vars == <<list, akeys, locked, pass, last, hist>>

NoRes == [t |-> "none", ks |-> {}, f |-> ""]
Res(t) == [t |-> t, ks |-> {}, f |-> ""]
NoOp == [op |-> "init", k |-> "", a |-> "", n |-> 0, res |-> NoRes, resAbs |-> NoRes, resWire |-> NoRes,
         lazy |-> FALSE, preLocked |-> FALSE, preUsable |-> FALSE]

Init == /\ list = <<>>
        /\ akeys = [k \in Keys |-> Absent]
        /\ locked = FALSE /\ pass = ""
        /\ last = NoOp
        /\ hist = <<>>

Rec == MaxLen > 0
CanStep == (~Rec) \/ Len(hist) < MaxLen
Note(e) == /\ last' = e
           /\ hist' = IF Rec THEN Append(hist, e) ELSE hist

-----------------------------------------------------------------------------
(* the implementation-shaped list *)

Idx(l, k) == {i \in 1..Len(l) : l[i].k = k}
Has(l, k) == Idx(l, k) # {}
First(S) == CHOOSE i \in S : \A j \in S : i <= j
Expired(e) == e.exp = Gone

\* removeLocked(want): scan with index i; on a match move the last element into slot i, shrink, and
\* look at slot i again.  arr is the backing array (never shrinks), n the live length.
RECURSIVE RemoveScan(_, _, _, _)
RemoveScan(arr, n, i, k) ==
  IF i > n THEN [arr |-> arr, n |-> n]
  ELSE IF arr[i].k = k THEN RemoveScan([arr EXCEPT ![i] = arr[n]], n - 1, i, k)
  ELSE RemoveScan(arr, n, i + 1, k)
RemoveLocked(l, k) == LET r == RemoveScan(l, Len(l), 1, k) IN SubSeq(r.arr, 1, r.n)

\* expireKeysLocked: "for _, k := range r.keys" reads element i of the ORIGINAL backing array
\* (length fixed at loop entry) at each iteration, while removeLocked rewrites that array.
RECURSIVE ExpireLoop(_, _, _, _)
ExpireLoop(arr, n, i, orig) ==
  IF i > orig THEN SubSeq(arr, 1, n)
  ELSE IF Expired(arr[i])
       THEN LET r == RemoveScan(arr, n, 1, arr[i].k) IN ExpireLoop(r.arr, r.n, i + 1, orig)
       ELSE ExpireLoop(arr, n, i + 1, orig)
Purge(l) == ExpireLoop(l, Len(l), 1, Len(l))

ListOf(l) == {<<l[i].k, l[i].c>> : i \in 1..Len(l)}
KeysOf(l) == {l[i].k : i \in 1..Len(l)}

(* the abstract agent *)
AList == {<<k, akeys[k].c>> : k \in {x \in Keys : akeys[x].p}}
AKeys == {k \in Keys : akeys[k].p}

ExpOf(life) == IF life = 0 THEN NoExp ELSE life

\* the result of signing with key k (present) and flags f
SigRes(k, f) ==
  IF f = 0 THEN [t |-> "sig", ks |-> {}, f |-> "default"]
  ELSE IF k \in RSAKeys
       THEN (IF f = 2 THEN [t |-> "sig", ks |-> {}, f |-> "rsa-sha2-256"]
             ELSE IF f = 4 THEN [t |-> "sig", ks |-> {}, f |-> "rsa-sha2-512"] ELSE Res("err"))
       ELSE (IF f \in {2, 4} THEN Res("sigOrErr")   \* RSA flags on a non-RSA key: not fixed by the property
             ELSE Res("err"))

-----------------------------------------------------------------------------
(* operations *)

Ev(op, k, a, n, res, resAbs, resWire, lazy, usable) ==
  [op |-> op, k |-> k, a |-> a, n |-> n, res |-> res, resAbs |-> resAbs, resWire |-> resWire,
   lazy |-> lazy, preLocked |-> locked, preUsable |-> usable]
Same(op, k, a, n, res) == Ev(op, k, a, n, res, res, res, FALSE, FALSE)

\* Add(k, lifetime, comment, bad): bad = "confirm" / "ext" are the unsupported constraints
Add(k, life, c, bad) ==
  /\ CanStep
  /\ IF locked \/ bad # "none"
     THEN /\ UNCHANGED <<list, akeys>>
          /\ Note(Same("add", k, c \o "/" \o bad, life, Res("err")))
     ELSE /\ list' = IF Has(list, k) THEN [list EXCEPT ![First(Idx(list, k))] = [k |-> k, exp |-> ExpOf(life), c |-> c]]
                     ELSE Append(list, [k |-> k, exp |-> ExpOf(life), c |-> c])
          /\ akeys' = [akeys EXCEPT ![k] = [p |-> TRUE, exp |-> ExpOf(life), c |-> c]]
          /\ Note(Same("add", k, c \o "/" \o bad, life, Res("ok")))
  /\ UNCHANGED <<locked, pass>>

Remove(k) ==
  /\ CanStep
  /\ IF locked
     THEN UNCHANGED <<list, akeys>> /\ Note(Same("remove", k, "", 0, Res("err")))
     ELSE LET ri == IF Has(list, k) THEN Res("ok") ELSE Res("err")
              ra == IF akeys[k].p THEN Res("ok") ELSE Res("err")
          IN /\ list' = RemoveLocked(list, k)
             /\ akeys' = [akeys EXCEPT ![k] = Absent]
             /\ Note(Ev("remove", k, "", 0, ri, ra, ri, ri # ra, FALSE))
  /\ UNCHANGED <<locked, pass>>

RemoveAll ==
  /\ CanStep
  /\ IF locked
     THEN UNCHANGED <<list, akeys>> /\ Note(Same("removeall", "", "", 0, Res("err")))
     ELSE list' = <<>> /\ akeys' = [k \in Keys |-> Absent] /\ Note(Same("removeall", "", "", 0, Res("ok")))
  /\ UNCHANGED <<locked, pass>>

Lock(p) ==
  /\ CanStep
  /\ IF locked
     THEN UNCHANGED <<locked, pass>> /\ Note(Same("lock", "", p, 0, Res("err")))
     ELSE locked' = TRUE /\ pass' = p /\ Note(Same("lock", "", p, 0, Res("ok")))
  /\ UNCHANGED <<list, akeys>>

Unlock(p) ==
  /\ CanStep
  /\ IF locked /\ p = pass
     THEN locked' = FALSE /\ pass' = "" /\ Note(Same("unlock", "", p, 0, Res("ok")))
     ELSE UNCHANGED <<locked, pass>> /\ Note(Same("unlock", "", p, 0, Res("err")))
  /\ UNCHANGED <<list, akeys>>

List ==
  /\ CanStep
  /\ IF locked
     THEN UNCHANGED list /\ Note(Same("list", "", "", 0, [t |-> "list", ks |-> {}, f |-> ""]))
     ELSE /\ list' = Purge(list)
          /\ Note(Ev("list", "", "", 0, [t |-> "list", ks |-> ListOf(Purge(list)), f |-> ""],
                     [t |-> "list", ks |-> AList, f |-> ""], [t |-> "list", ks |-> ListOf(Purge(list)), f |-> ""], FALSE, FALSE))
  /\ UNCHANGED <<akeys, locked, pass>>

Sign(k, f) ==
  /\ CanStep
  /\ IF locked
     THEN UNCHANGED list /\ Note(Same("sign", k, "", f, Res("err")))
     ELSE LET pl == Purge(list)
              ri == IF Has(pl, k) THEN SigRes(k, f) ELSE Res("err")
              ra == IF akeys[k].p THEN SigRes(k, f) ELSE Res("err")
          IN list' = pl /\ Note(Ev("sign", k, "", f, ri, ra, ri, FALSE, akeys[k].p))
  /\ UNCHANGED <<akeys, locked, pass>>

Signers ==
  /\ CanStep
  /\ IF locked
     THEN UNCHANGED list
          /\ Note(Ev("signers", "", "", 0, Res("err"), Res("err"), [t |-> "signers", ks |-> {}, f |-> ""], FALSE, FALSE))
     ELSE LET pl == Purge(list)
              ri == [t |-> "signers", ks |-> {<<k, "">> : k \in KeysOf(pl)}, f |-> ""]
              ra == [t |-> "signers", ks |-> {<<k, "">> : k \in AKeys}, f |-> ""]
          IN list' = pl /\ Note(Ev("signers", "", "", 0, ri, ra, ri, FALSE, FALSE))
  /\ UNCHANGED <<akeys, locked, pass>>

Extension ==
  /\ CanStep
  /\ Note(Same("extension", "", "", 0, Res("unsupported")))
  /\ UNCHANGED <<list, akeys, locked, pass>>

Age(e, d) == IF e >= 0 THEN (IF e >= d THEN e - d ELSE Gone) ELSE e
Tick(d) ==
  /\ CanStep
  /\ list' = [i \in 1..Len(list) |-> [list[i] EXCEPT !.exp = Age(@, d)]]
  /\ akeys' = [k \in Keys |-> IF akeys[k].p /\ Age(akeys[k].exp, d) = Gone THEN Absent
                               ELSE [akeys[k] EXCEPT !.exp = Age(@, d)]]
  /\ Note(Same("tick", "", "", d, Res("ok")))
  /\ UNCHANGED <<locked, pass>>

Next == \/ \E k \in Keys, life \in Lifetimes, c \in Comments : Add(k, life, c, "none")
        \/ \E k \in Keys, bad \in {"confirm", "ext"} : Add(k, 0, "a", bad)
        \/ \E k \in Keys : Remove(k)
        \/ RemoveAll
        \/ \E p \in Pass : Lock(p) \/ Unlock(p)
        \/ List
        \/ \E k \in Keys, f \in Flags : Sign(k, f)
        \/ Signers
        \/ Extension
        \/ \E d \in Ticks : Tick(d)
Spec == Init /\ [][Next]_vars

-----------------------------------------------------------------------------
(* properties *)

TypeOK == /\ locked \in BOOLEAN
          /\ \A i \in 1..Len(list) : list[i].k \in Keys /\ list[i].exp \in {NoExp, Gone} \cup (0..100)
NoDuplicates == \A i, j \in 1..Len(list) : i # j => list[i].k # list[j].k
\* the unexpired part of the list is exactly the abstract agent
Live(l) == [k \in Keys |-> IF \E i \in 1..Len(l) : l[i].k = k /\ ~Expired(l[i])
                           THEN LET i == First({j \in 1..Len(l) : l[j].k = k})
                                IN [p |-> TRUE, exp |-> l[i].exp, c |-> l[i].c]
                           ELSE Absent]
Corr == Live(list) = akeys
\* expireKeysLocked leaves no expired entry and removes nothing else
PurgeExact == (last.op \in {"list", "sign", "signers"} /\ ~last.preLocked) => (\A i \in 1..Len(list) : ~Expired(list[i])) /\ KeysOf(list) = AKeys
\* results computed from the list equal those of the abstract agent, except the licensed lazy Remove
ResAgree == last.res = last.resAbs \/ (last.lazy /\ last.op = "remove")
\* C43: signatures only by present, unexpired keys while unlocked
SigOnlyIfUsable == last.res.t \in {"sig", "sigOrErr"} => (last.op = "sign" /\ ~last.preLocked /\ last.preUsable)
\* C43: a locked agent lists nothing and signs nothing (directly and over the wire)
LockedRevealsNothing == last.preLocked => /\ last.res.ks = {} /\ last.resWire.ks = {}
                                          /\ last.res.t \notin {"sig", "sigOrErr"}
                                          /\ (last.op \in {"add", "remove", "removeall", "lock", "sign"} => last.res.t = "err")
\* the state does not change while locked, except by Unlock and the clock
LockedFrozen == [][(locked /\ locked') => (akeys' = akeys \/ last'.op = "tick")]_vars
\* the generator's clock never lands exactly on an expiry instant (the boundary is not fixed by the property)
NoBoundary == \A i \in 1..Len(list) : list[i].exp # 0
=============================================================================
