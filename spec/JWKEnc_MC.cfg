SPECIFICATION Spec
CONSTANT KeySet <- Keys
INVARIANTS K1_RsaMinimal K2_EcFixedWidth Emit
CHECK_DEADLOCK FALSE
