---------------------------- MODULE SSHSession_MC ----------------------------
(* Bounded instances of SSHSession (growth check X01): exhaustive model checking and behaviour generation. *)
EXTENDS SSHSession, Json

AllCfgs == {[stdin |-> a, outs |-> b] : a \in {"nil", "reader"}, b \in {"nil", "buf"}}
CfgNilBuf == {[stdin |-> "nil", outs |-> "buf"]}
CfgNilNil == {[stdin |-> "nil", outs |-> "nil"]}
CfgRdBuf == {[stdin |-> "reader", outs |-> "buf"]}
CfgRdNil == {[stdin |-> "reader", outs |-> "nil"]}
CfgBufs == {[stdin |-> a, outs |-> "buf"] : a \in {"nil", "reader"}}

FinalInfo(s) == LET f == Final(s) IN
  [done |-> {<<c, f.calls[c].res>> : c \in {x \in 1 .. Len(s.calls) : s.calls[x].st # "done"}},
   pending |-> {c \in 1 .. Len(f.calls) : f.calls[c].st # "done"},
   go |-> f.gotOut, ge |-> f.gotErr, ka |-> f.ka]

\* generator "one test per model transition" (see SSHMux_MC): the view hides step observables, counters and ghosts
AbsView == [S EXCEPT !.last = Ev("", "", 0), !.out = <<>>, !.done = {}, !.ka = "", !.ns = 0, !.nc = 0,
                     !.exits = <<>>, !.nStartOk = 0, !.sentOut = <<>>, !.sentErr = <<>>,
                     !.calls = [c \in 1 .. Len(S.calls) |-> IF S.calls[c].st = "done" THEN [k |-> "", st |-> "done", res |-> NoRes] ELSE S.calls[c]]]
Line(s, h) == PrintT("TRACE " \o ToJson([cfg |-> s.cfg, steps |-> h, final |-> FinalInfo(s)]))
GSrv == /\ S.ns < MaxSrv
        /\ \E e \in SrvEvents(S) : S' = SrvStep(S, e) /\ hist' = Append(hist, Obs(S')) /\ Line(S', hist')
GCli == /\ S.nc < MaxCli
        /\ \E e \in CliEvents(S) : S' = CliStep(S, e) /\ hist' = Append(hist, Obs(S')) /\ Line(S', hist')
GenSpec == Init /\ [][GSrv \/ GCli]_<<S, hist>>

\* only complete histories (simulation)
EmitLeaf == ((S.ns = MaxSrv \/ S.closed) /\ S.nc = MaxCli) =>
              PrintT("TRACE " \o ToJson([cfg |-> S.cfg, steps |-> hist, final |-> FinalInfo(S)]))
=============================================================================
