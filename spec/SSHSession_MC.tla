---------------------------- MODULE SSHSession_MC ----------------------------
(* Bounded instances of SSHSession (growth check X01): exhaustive model checking and behaviour generation. *)
EXTENDS SSHSession, Json

AllCfgs == {[stdin |-> a, outs |-> b] : a \in {"nil", "reader"}, b \in {"nil", "buf"}}
CfgNilBuf == {[stdin |-> "nil", outs |-> "buf"]}
CfgNilNil == {[stdin |-> "nil", outs |-> "nil"]}
CfgRdBuf == {[stdin |-> "reader", outs |-> "buf"]}
CfgRdNil == {[stdin |-> "reader", outs |-> "nil"]}
CfgsA == CfgNilBuf \cup CfgRdNil
CfgsB == CfgNilNil \cup CfgRdBuf
CfgBufs == {[stdin |-> a, outs |-> "buf"] : a \in {"nil", "reader"}}

FinalInfo(s) == LET f == Final(s) IN
  [done |-> {<<c, f.calls[c].res>> : c \in {x \in 1 .. Len(s.calls) : s.calls[x].st # "done"}},
   pending |-> {c \in 1 .. Len(f.calls) : f.calls[c].st # "done"},
   go |-> f.gotOut, ge |-> f.gotErr, ka |-> IF s.closed THEN "" ELSE f.ka,
   race |-> IF s.closed THEN FALSE ELSE f.ioRace, kf |-> s.early]

\* generator "one test per model transition" (see SSHMux_MC): the view hides step observables, counters and ghosts
\* Calls are replaced by what matters for the future (kind of the pending request, whether a Wait is blocked, whose buffer
\* s.Stdout is), token sequences by their lengths.
OwnerAbs(w) == IF w <= 0 THEN w ELSE IF w = S.waiter \/ w = S.reqWaiter THEN 2 ELSE 1
AbsView == [S EXCEPT !.last = Ev("", "", 0), !.out = <<>>, !.done = {}, !.ka = "", !.ioRace = FALSE, !.ns = 0, !.nc = 0,
                     !.exits = <<>>, !.nStartOk = 0, !.sentOut = <<>>, !.sentErr = <<>>, !.nTok = 0, !.unsv = 0,
                     !.calls = IF S.calls = <<>> THEN 0 ELSE 1,
                     !.reqWaiter = IF S.reqWaiter = 0 THEN "" ELSE S.calls[S.reqWaiter].k,
                     !.waiter = IF S.waiter = 0 THEN 0 ELSE 1,
                     !.outW = OwnerAbs(S.outW), !.errW = OwnerAbs(S.errW),
                     !.bufOut = Len(S.bufOut), !.bufErr = Len(S.bufErr), !.gotOut = Len(S.gotOut), !.gotErr = Len(S.gotErr),
                     !.srvIn = Len(S.srvIn), !.wres = IF S.waiter = 0 THEN NoRes ELSE S.wres]
Line(s, h) == PrintT("TRACE " \o ToJson([cfg |-> s.cfg, steps |-> h, final |-> FinalInfo(s)]))
GSrv == /\ S.ns < MaxSrv /\ ~S.stalled
        /\ \E e \in SrvEvents(S) : S' = SrvStep(S, e) /\ hist' = Append(hist, Obs(S')) /\ Line(S', hist')
GCli == /\ S.nc < MaxCli /\ ~S.stalled
        /\ \E e \in CliEvents(S) : S' = CliStep(S, e) /\ hist' = Append(hist, Obs(S')) /\ Line(S', hist')
GenSpec == Init /\ [][GSrv \/ GCli]_<<S, hist>>

\* simulation: every history that reached the server bound or the end of the channel
EmitEnd == ((S.ns = MaxSrv \/ S.closed) /\ S.last.k # "") =>
              PrintT("TRACE " \o ToJson([cfg |-> S.cfg, steps |-> hist, final |-> FinalInfo(S)]))
\* only complete histories (simulation)
EmitLeaf == ((S.ns = MaxSrv \/ S.closed) /\ S.nc = MaxCli) =>
              PrintT("TRACE " \o ToJson([cfg |-> S.cfg, steps |-> hist, final |-> FinalInfo(S)]))
=============================================================================
