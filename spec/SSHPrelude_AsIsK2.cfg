SPECIFICATION Spec
CONSTANTS
  MaxLine = 255
  MaxPre = 1024
  MaxPending = 2
  ChanSize = 1
  Roles <- BothRoles
  Owns <- OwnsOne
  StrictOpts <- OnlyT
  ExtcOpts <- Bool
  RkOpts <- OnlyF
  StartPh = "kex0"
  VerSteps <- NoVer
  MaxVer = 0
  Kinds <- KindsLite
  MaxPkt = 8
  MaxNoise = 0
  MaxPing = 0
  PingRuns <- NoRuns
  Bursts <- BurstsScaled
  AsIs = TRUE
INVARIANTS NoStall
CHECK_DEADLOCK FALSE
