SPECIFICATION Spec
CONSTANTS
  Starts <- StartA
  MaxData = 2
  FragChoices <- F1
  MaxFaults = 0
  FaultKinds <- NoFaults
  MaxAuth = 0
  Secrets <- S1
  Questions <- Q0
  AllowEnd = FALSE
  MaxRequery = 1
  FixCommitState = TRUE
  SeqSMP = FALSE
  FixSMPReset = TRUE
INVARIANTS RequeryLosesNothing
CHECK_DEADLOCK FALSE
