SPECIFICATION Spec
CONSTANTS
  Lanes = 2
  SegLen = 3
  Passes = 2
  Variant = "rfc"
INVARIANTS SomeOtherLaneFirstPos
CHECK_DEADLOCK FALSE
