---------------------------- MODULE Builder_MC ----------------------------
(* Bounded instances of Builder (C22) and the program generator for binding R. *)
EXTENDS Builder, Json

OpStr(op) == CASE op.o \in {"u", "b", "unw"} -> op.o \o ToString(op.a)
               [] op.o = "open" -> "open:" \o op.k
               [] OTHER -> op.o
EmitToks == [i \in 1..Len(st.toks) |->
               LET tk == st.toks[i] IN
               [t |-> tk.t, n |-> tk.n, id |-> tk.id, off |-> SumN(st.toks, 1, i - 1),
                b |-> IF tk.t = "pfx" /\ tk.v >= 0 THEN PfxBytes(tk) ELSE IF tk.t = "tag" THEN <<tk.v>> ELSE <<>>]]
Record == [pf |-> pf.name, ops |-> [i \in 1..Len(ops) |-> OpStr(ops[i])], cap |-> cap, err |-> st.err, errAt |-> st.errAt,
           pan |-> st.pan, total |-> st.len, peak |-> st.peak, peakKind |-> st.peakKind,
           toks |-> IF st.err = "" /\ st.pan = "" THEN EmitToks ELSE <<>>]
\* BFS generation: every complete program (balanced, or ended by a panic)
Emit == (ops # <<>> /\ (Balanced \/ st.pan # "")) => PrintT("TRACE " \o ToJson(Record))
\* simulation: only the end of each random walk
Finished == (Balanced /\ Len(ops) >= MaxOps) \/ st.pan # ""
EmitEnd == Finished => PrintT("TRACE " \o ToJson(Record))

\* ---- profiles
P(name, U, A, F, K, W, M, caps, maxOps, maxDepth, maxLen) ==
  [name |-> name, U |-> U, A |-> A, F |-> F, K |-> K, W |-> W, M |-> M, caps |-> caps,
   maxOps |-> maxOps, maxDepth |-> maxDepth, maxLen |-> maxLen]
AllK == {"u8", "u16", "u24", "u32", "asn1"}
AllM == {"vok", "verr", "seterr", "be", "pw"}
AllW == {"0", "1", "all", "more"}
AllU == {1, 2, 3, 4, 6, 8}
Sz == {1, 126, 127, 128, 129, 254, 255, 256, 65535, 65536}
Huge == {16777215, 16777216}
Growable == {-1}
CapsSmall == {-1, 1, 2, 4}
CapsGen == {1, 2, 3, 130, 131, 132, 133}

\* exhaustive model checking: every kind of call, explicit capacities, small sizes
Small(n, d)   == P("small", {1, 3}, {0, 2}, {5}, {"u8", "asn1", "asn1bad"}, AllW, AllM, CapsSmall, n, d, 100)
\* generators
Nest(n, d)    == P("nest", {2}, {1}, {127, 128, 256}, {"u8", "u16", "asn1"}, {}, {}, Growable, n, d, 100000)
Misuse(n, d)  == P("misuse", {1}, {0}, {}, {"u8", "asn1", "asn1bad"}, AllW, AllM, Growable, n, d, 100)
Sizes(n, d, U) == P("sizes", U, {}, Sz, AllK, {}, {}, Growable, n, d, 300000)
HugeP         == P("huge", {1}, {}, Huge, AllK, {}, {}, Growable, 3, 2, 40000000)
CapsP(n, d)   == P("caps", {1}, {2}, {128}, {"u8", "asn1"}, {"1"}, {"seterr"}, CapsGen, n, d, 1000)
Widths(n)     == P("widths", AllU, {}, {}, {"u24", "u32"}, {"1", "all"}, {"vok"}, Growable, n, 2, 100)
SimF == {127, 128, 129, 255, 256, 65535, 65536}
SimAll == P("sim", AllU, {0, 1}, SimF, AllK \cup {"asn1bad"}, AllW, AllM, Growable, 24, 5, 400000)
SimOk  == P("simok", AllU, {0, 1}, SimF, AllK, {"0", "1", "all"}, {"vok"}, Growable, 24, 5, 400000)

ProfSmall     == {Small(4, 2)}
ProfSmallBig  == {Small(5, 3)}
ProfGenQuick  == {Nest(4, 3), Misuse(4, 2), Sizes(3, 2, {}), HugeP, CapsP(4, 2), Widths(4)}
ProfGenBigA   == {Nest(6, 4)}
ProfGenBigB   == {Misuse(5, 3), Sizes(4, 3, {1}), HugeP}
ProfGenBigC   == {CapsP(5, 3), Widths(5)}
ProfSim       == {SimAll, SimOk}
=============================================================================
