----------------------------- MODULE PolyMac_Tags -----------------------------
(***************************************************************************)
(* C04, binding E: TLC evaluates PrimPoly!Poly1305 - the mathematical      *)
(* definition - for patterned keys/messages (key = Pat(kseed, 32), message *)
(* = Pat(mseed, n)) of every length 0..TagMax and for the                  *)
(* accumulator-boundary cases below, and prints the tags the Go harness    *)
(* compares the real implementation with.                                  *)
(***************************************************************************)
EXTENDS PrimPoly, TLC, Json

CONSTANTS TagPairs,   \* set of <<kseed, mseed>>
          TagMax, EdgeFull, CheckDef
VARIABLES c

PatByteP(seed, i) ==      \* = PrimWords!PatByte (PrimPoly does not extend PrimWords)
  IF seed = 0 THEN 0 ELSE IF seed = 1 THEN 255 ELSE
  ((seed * 131 + i * 197 + (i \div 7) * 31 + 17) ^^ (((i % 251) * (i % 241) + seed) % 256)) % 256
PatP(seed, n) == ForceP([i \in 1..n |-> PatByteP(seed, i - 1)])

\* Accumulator-boundary cases.  With r = 1 the accumulator after q full blocks is the plain sum
\* q*2^128 + m_1 + ... + m_q (mod p), so the blocks below put the value entering the final
\* reduction at p+k for k around 0 (p = 2^130-5):  3*2^128 + (2^128-16) + (11+k) + 0 = p + k.
\* s = 0 and s = 2^128-1 (carry out of the final addition).
EdgeA(k, sb) == [id |-> "A", k |-> k, key |-> R1Key(sb), msg |-> LowByte(240, 255) \o LowByte(11 + k, 0) \o Z16]
\* the same with a final 1-byte block: 3*2^128 + (2^128-512) + 0 + 0 + (2^8 + 251 + k) = p + k
EdgeB(k, sb) == [id |-> "B", k |-> k, key |-> R1Key(sb), msg |-> (<<0, 254>> \o [i \in 1..14 |-> 255]) \o Z16 \o Z16 \o <<251 + k>>]
\* r = 1, q blocks of ff: the partially reduced accumulator runs high (h2 up to its maximum)
EdgeC(q, sb) == [id |-> "C", k |-> q, key |-> R1Key(sb), msg |-> [i \in 1..(16 * q) |-> 255]]
\* r at its clamped maximum (key bytes ff), s = 2^128-1, message of q blocks of ff plus a 15-byte tail
EdgeD(q) == [id |-> "D", k |-> q, key |-> [i \in 1..32 |-> 255], msg |-> [i \in 1..(16 * q + 15) |-> 255]]
\* r = 2^124-type single high limb (0x0ffffffc at the top), two blocks
EdgeE(sb) == [id |-> "E", k |-> 0, key |-> [i \in 1..12 |-> 0] \o <<252, 255, 255, 15>> \o [i \in 1..16 |-> sb], msg |-> FF16 \o FF16 \o <<255>>]
EdgeCasesFull == {EdgeA(k, sb) : k \in (0 - 8)..12, sb \in {0, 255}} \cup {EdgeB(k, sb) : k \in (0 - 8)..4, sb \in {0, 255}}
        \cup {EdgeC(q, sb) : q \in 1..9, sb \in {0, 255}} \cup {EdgeD(q) : q \in 0..4} \cup {EdgeE(sb) : sb \in {0, 255}}
EdgeCasesQuick == {EdgeA(k, sb) : k \in (0 - 4)..6, sb \in {0, 255}} \cup {EdgeB(k, sb) : k \in (0 - 3)..4, sb \in {0, 255}}
        \cup {EdgeC(q, sb) : q \in {1, 2, 3, 4, 7}, sb \in {0, 255}} \cup {EdgeD(q) : q \in 0..2} \cup {EdgeE(sb) : sb \in {0, 255}}
EdgeCases == IF EdgeFull THEN EdgeCasesFull ELSE EdgeCasesQuick

Init == c = [t |-> "root"]
\* a two-level tree so that TLC's workers share the evaluation
Next == \/ c.t = "root" /\ c' \in ({[t |-> "grp", k |-> p[1], m |-> p[2], j |-> j] : p \in TagPairs, j \in 0..7}
                                    \cup {[t |-> "egrp", id |-> i] : i \in {"A", "B", "C", "D", "E"}})
        \/ c.t = "grp" /\ c' \in {[t |-> "pat", k |-> c.k, m |-> c.m, n |-> n] : n \in {x \in 0..TagMax : x % 8 = c.j}}
        \/ c.t = "egrp" /\ c' \in {[t |-> "edge", e |-> e] : e \in {x \in EdgeCases : x.id = c.id}}

Emit ==
  CASE c.t = "pat"  -> PrintT("TRACE " \o ToJson([t |-> "pat", kseed |-> c.k, mseed |-> c.m, len |-> c.n,
                                                  tag |-> Poly1305(PatP(c.k, 32), PatP(c.m, c.n))]))
    [] c.t = "edge" -> PrintT("TRACE " \o ToJson([t |-> "edge", id |-> c.e.id, k |-> c.e.k, key |-> ForceP(c.e.key),
                                                  msg |-> ForceP(c.e.msg), tag |-> Poly1305(c.e.key, c.e.msg)]))
    [] OTHER -> TRUE
\* the Horner form and the literal sum-of-powers form of the definition agree (model-level check)
DefAgree ==
  CASE CheckDef /\ c.t = "pat" /\ c.n % 7 = 3 -> Poly1305Def(PatP(c.k, 32), PatP(c.m, c.n)) = Poly1305(PatP(c.k, 32), PatP(c.m, c.n))
    [] CheckDef /\ c.t = "edge" -> Poly1305Def(c.e.key, c.e.msg) = Poly1305(c.e.key, c.e.msg)
    [] OTHER -> TRUE
TagPairsQ == {<<1, 1>>, <<7, 5>>}
TagPairsT == {<<0, 0>>, <<1, 1>>, <<7, 5>>, <<7, 1>>, <<23, 9>>, <<1, 9>>}
=============================================================================
