SPECIFICATION GenSpec
CONSTANTS
  Callers <- One
  MaxCalls = 3
  Ops <- OpsAll
  Inject <- InjAll
  Exclusive = TRUE
  Mut = "none"
  InitSet <- InitAll
VIEW GenView
INVARIANTS Emit
CHECK_DEADLOCK FALSE
