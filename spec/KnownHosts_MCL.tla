---------------------------- MODULE KnownHosts_MCL ----------------------------
(* Instance L of KnownHosts: one line with a rich pattern list (property C42). *)
EXTENDS KnownHosts_MC

(* ---- instance L: one line with a rich pattern list (negation x wildcard x port) ---- *)
LHosts == <<A, B, Star, AStar, QB, StarB>>
Signed == {Pat(n, LHosts[i], pt) : n \in BOOLEAN, i \in 1..Len(LHosts), pt \in Ports}
RECURSIVE PatLists(_)
PatLists(n) == IF n = 0 THEN {<<>>} ELSE LET L == PatLists(n - 1) IN L \cup {Append(l, p) : l \in L, p \in Signed}
LFiles(n) == { << [m |-> mk, hashed |-> FALSE, pats |-> ps, key |-> "k1"] >> : mk \in {"none", "ca"}, ps \in PatLists(n) \ {<<>>} }
FilesL2 == LFiles(2)
QueriesL ==
  Prod3(<<A, B, AB>>, <<P22, P2>>, <<Plain("k1"), Plain("k2"), Cert("k2", "k1")>>,
        LAMBDA h, pt, k : Q(TRUE, h, pt, B, P2, k))
  \o << Q(FALSE, A, P22, A, P22, Plain("k1")), Q(FALSE, A, P22, AB, P2, Plain("k2")),
        Q(FALSE, A, P22, A, P22, Cert("k2", "k1")) >>

=============================================================================
