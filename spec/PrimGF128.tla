----------------------------- MODULE PrimGF128 -----------------------------
(***************************************************************************)
(* Layer P (binding E): multiplication by the primitive element alpha = x  *)
(* in GF(2^128) = GF(2)[x] / (x^128 + x^7 + x^2 + x + 1) with the          *)
(* IEEE Std 1619-2007 section 5.2 byte convention: a 16-byte string        *)
(* t[0..15] is the polynomial whose coefficient of x^(8*i+b) is bit b      *)
(* (LSB = 0) of byte t[i] (little-endian bytes, little-endian bits).       *)
(*                                                                         *)
(* Two definitions:                                                        *)
(*  GFMul2     declarative: coefficient set shifted up by one, x^128        *)
(*             replaced by x^7+x^2+x+1 (this is what XTS.tla uses);        *)
(*  GFMul2Carry  the byte-serial carry chain of IEEE 1619 5.2 / of          *)
(*             /repo/xts/xts.go mul2 (shift every byte left, carry the top *)
(*             bit into the next byte, xor 0x87 into byte 0 on carry out). *)
(* PrimGF128_MC checks them equal; XTS_MC checks them equal on every tweak *)
(* it uses.                                                                *)
(***************************************************************************)
EXTENDS Integers, Sequences, Bitwise

GFForce(s) == s \o <<>>
\* coefficient of x^e (0 <= e <= 127) of the 16-byte string t
GFBit(t, e) == shiftR(t[(e \div 8) + 1], e % 8) % 2
\* coefficient of x^e of alpha * t: the coefficient of x^(e-1) of t, plus (mod 2) the coefficient
\* of x^127 of t when x^e is a term of x^128 mod the field polynomial = x^7 + x^2 + x + 1
GFMul2Bit(t, e, top) ==
  LET sh == IF e = 0 THEN 0 ELSE GFBit(t, e - 1)
  IN IF e \in {0, 1, 2, 7} THEN (sh + top) % 2 ELSE sh
GFMul2(t) ==
  LET top == GFBit(t, 127) IN
  GFForce([i \in 1..16 |->
     LET e0 == 8 * (i - 1) IN
     GFMul2Bit(t, e0, top) + 2 * GFMul2Bit(t, e0 + 1, top) + 4 * GFMul2Bit(t, e0 + 2, top) + 8 * GFMul2Bit(t, e0 + 3, top)
     + 16 * GFMul2Bit(t, e0 + 4, top) + 32 * GFMul2Bit(t, e0 + 5, top) + 64 * GFMul2Bit(t, e0 + 6, top) + 128 * GFMul2Bit(t, e0 + 7, top)])

\* byte-serial form (IEEE 1619 5.2 pseudo code; xts.go mul2)
GFMul2Carry(t) ==
  LET sh == [i \in 1..16 |-> ((t[i] * 2) % 256) + (IF i = 1 THEN 0 ELSE t[i - 1] \div 128)]
      cout == t[16] \div 128
  IN GFForce([i \in 1..16 |-> IF i = 1 /\ cout = 1 THEN sh[1] ^^ 135 ELSE sh[i]])       \* 0x87

RECURSIVE GFMulPow(_, _)
GFMulPow(t, j) == IF j = 0 THEN t ELSE GFMulPow(GFMul2(t), j - 1)

GFOne == <<1, 0, 0, 0, 0, 0, 0, 0, 0, 0, 0, 0, 0, 0, 0, 0>>
GFTop == <<0, 0, 0, 0, 0, 0, 0, 0, 0, 0, 0, 0, 0, 0, 0, 128>>

GFX120 == <<0, 0, 0, 0, 0, 0, 0, 0, 0, 0, 0, 0, 0, 0, 0, 1>>
ASSUME /\ GFMul2(GFOne) = <<2, 0, 0, 0, 0, 0, 0, 0, 0, 0, 0, 0, 0, 0, 0, 0>>
       /\ GFMul2(GFTop) = <<135, 0, 0, 0, 0, 0, 0, 0, 0, 0, 0, 0, 0, 0, 0, 0>>           \* x^128 = x^7+x^2+x+1
       /\ GFMul2(<<128, 0, 0, 0, 0, 0, 0, 0, 0, 0, 0, 0, 0, 0, 0, 0>>) = <<0, 1, 0, 0, 0, 0, 0, 0, 0, 0, 0, 0, 0, 0, 0, 0>>
       /\ GFMul2Carry(GFTop) = GFMul2(GFTop)
       \* x^120 * x^15 = x^135 = x^7 * (x^7+x^2+x+1) = x^14 + x^9 + x^8 + x^7
       /\ GFMulPow(GFX120, 15) = <<128, 67, 0, 0, 0, 0, 0, 0, 0, 0, 0, 0, 0, 0, 0, 0>>
=============================================================================
