\* thorough: 3 processes, 2 keys, 1 operation each, no cancellation (D5 PutOkImpliesStored holds then)
SPECIFICATION Spec
CONSTANTS
  Procs = {1, 2, 3}
  Keys = {"k1", "k2"}
  MaxOps = 1
  NChunks = 2
  InPlace = FALSE
  Cancels = FALSE
INVARIANTS D1_VisibleComplete D2_NoPartialRead D3_NoTempLeft D5_PutOkImpliesStored D6_CtxErrOnlyIfCancelled
PROPERTIES D4_Refinement
CHECK_DEADLOCK FALSE
