------------------------------ MODULE SSHMux_MC ------------------------------
(* Bounded instances of SSHMux: exhaustive model checking and behaviour generation (C36). *)
EXTENDS SSHMux, Json

AllConfigs == {"empty", "in", "out", "both", "reopen"}
HoldConfigs == {"in", "out", "both"}
BurstConfigs == {"empty", "in", "out"}

FinalInfo == LET f == Final(S) IN
  [objs |-> [o \in 1 .. NObj(S) |-> [held |-> S.obj[o].held, inq |-> S.obj[o].inq, closed |-> f.obj[o].closed,
                                     dir |-> S.obj[o].dir, lost |-> o \in S.lost]],
   pending |-> {c \in 1 .. Len(f.calls) : f.calls[c].st # "done"}]

\* generator "one test per model transition": the view hides the step observables and counters, so TLC
\* expands every distinct abstract mux state once (reached by a shortest history), and the emitting
\* conjunct inside the action prints the witness history of EVERY transition out of it.
AbsView == [S EXCEPT !.last = Ev("", 0, "", 0), !.out = <<>>, !.done = {}, !.np = 0, !.nl = 0, !.known = FALSE,
                      !.calls = [c \in 1 .. Len(S.calls) |-> IF S.calls[c].st = "done" THEN [k |-> "", o |-> 0, st |-> "done", res |-> ""] ELSE S.calls[c]],
                      !.obj = [o \in 1 .. NObj(S) |-> [S.obj[o] EXCEPT !.eof = FALSE]]]
Line(s, h) == PrintT("TRACE " \o ToJson([cfg |-> s.cfg, steps |-> h,
                 final |-> LET f == Final(s) IN
                   [objs |-> [o \in 1 .. NObj(s) |-> [held |-> s.obj[o].held, inq |-> s.obj[o].inq, closed |-> f.obj[o].closed,
                                                      dir |-> s.obj[o].dir, lost |-> o \in s.lost]],
                    pending |-> {c \in 1 .. Len(f.calls) : f.calls[c].st # "done"}],
                 stale |-> s.stale]))
GPeer == /\ ~S.dead /\ S.np < MaxPeer
         /\ \E e \in PeerEvents(S) : S' = PeerStep(S, e) /\ hist' = Append(hist, Obs(S')) /\ Line(S', hist')
GLocal == /\ S.nl < MaxLocal
          /\ \E e \in LocalEvents(S) : LocalOK(S, e) /\ S' = LocalStep(S, e) /\ hist' = Append(hist, Obs(S')) /\ Line(S', hist')
GenSpec == Init /\ [][GPeer \/ GLocal]_<<S, hist>>

\* generator: one witness history per distinct state (VIEW hides hist)
EmitAll == (S.np + S.nl > 0) =>
             PrintT("TRACE " \o ToJson([cfg |-> S.cfg, steps |-> hist, final |-> FinalInfo, stale |-> S.stale]))
\* only complete histories (bounds used up or loop exited)
EmitLeaf == ((S.np = MaxPeer \/ S.dead) /\ S.nl = MaxLocal) =>
             PrintT("TRACE " \o ToJson([cfg |-> S.cfg, steps |-> hist, final |-> FinalInfo, stale |-> S.stale]))
=============================================================================
