-------------------------------- MODULE OCSP --------------------------------
(***************************************************************************)
(* golang.org/x/crypto/ocsp (ocsp.go): what ParseResponseForCert(bytes,    *)
(* cert, issuer) decides for a response made by CreateResponse (or by the  *)
(* harness's own DER encoder for the forms CreateResponse cannot emit),    *)
(* possibly modified in transit; and the CreateRequest/ParseRequest round  *)
(* trip.                                                       [C48]       *)
(*                                                                         *)
(* Abstraction: keys are names; a signature is [by, over, intact] and      *)
(* verifies under key k over content version v iff intact, by = k and      *)
(* over = v (RSA/ECDSA numerics and crypto/x509 are trusted base; the      *)
(* harness materialises the names with real keys and certificates).  The   *)
(* signed region (tbsResponseData) is a record of the template fields plus *)
(* a version number `ver`: 0 = as signed, 1 = modified in transit.         *)
(*                                                                         *)
(* One behaviour = one case: Init picks a configuration, Create builds the *)
(* response, Mutate damages one region (or nothing), Parse applies the     *)
(* decision procedure transcribed from ParseResponseForCert.               *)
(***************************************************************************)
EXTENDS Integers, Sequences, FiniteSets, TLC

(* keys: I = the issuer passed to ParseResponseForCert, D = a delegated responder, O = another CA,
   W = a CA that is not the issuer ("wrong issuer"), R = the root above an intermediate issuer *)
Keys == {"I", "D", "O", "W", "R"}
NoCert == [present |-> FALSE, key |-> "-", signedBy |-> "-", eku |-> FALSE, intact |-> TRUE]
Cert(k, by, eku) == [present |-> TRUE, key |-> k, signedBy |-> by, eku |-> eku, intact |-> TRUE]

(* how the response is signed and what is embedded (Response.Certificate of the template) *)
Signers == {
  "issuer",                  \* signed by I, nothing embedded
  "issuer+owncert",          \* signed by I, I's own certificate embedded (signed by I itself iff the issuer is a self-signed root)
  "delegated",               \* signed by D; D's certificate, issued by I with id-kp-OCSPSigning, embedded
  "delegated-noeku",         \* same, but D's certificate has no OCSPSigning EKU
  "delegated-notembedded",   \* signed by D, certificate not sent
  "delegated-other",         \* signed by D; D's certificate was issued by another CA (O)
  "selfsigned",              \* signed by D; D's certificate is self-signed
  "wrongissuer",             \* signed by W, nothing embedded
  "issuersig+delegcert" }    \* signed by I, but a (good) delegated certificate is embedded

SigKey(s) == CASE s \in {"issuer", "issuer+owncert", "issuersig+delegcert"} -> "I"
               [] s = "wrongissuer" -> "W"
               [] OTHER -> "D"
Embedded(s, issuerSelfSigned) ==
  CASE s = "issuer+owncert" -> Cert("I", IF issuerSelfSigned THEN "I" ELSE "R", FALSE)
    [] s \in {"delegated", "issuersig+delegcert"} -> Cert("D", "I", TRUE)
    [] s = "delegated-noeku" -> Cert("D", "I", FALSE)
    [] s = "delegated-other" -> Cert("D", "O", TRUE)
    [] s = "selfsigned" -> Cert("D", "D", TRUE)
    [] OTHER -> NoCert

Statuses == {"good", "revoked", "unknown"}
RespIdForms == {"byName", "byKey"}
Regions == {"none", "tbs", "sig", "cert", "wrapper"}
CertArgs == {"nil", "match", "mismatch"}       \* the `cert` argument: absent, serial equal to the response's, different serial

(* Impersonation: a party that does not hold the issuer's key copies every identity attribute of the issuer short of the key:
   the subject DN (and, for a certificate issued by an impostor CA, hence the issuer DN), the subject / authority key
   identifiers, the serial number -- or all of them.  The attributes travel in `looks` (the certificate the verifier sees:
   the embedded one, or for "wrongissuer" the signer's own CA certificate, which is not even sent).  Nothing in the decision
   may depend on them: acceptance depends on the issuer's KEY only (invariant IdentityIrrelevant). *)
Impersonations == {"none", "subject", "keyids", "serial", "all"}
Impostors == {"selfsigned", "delegated-other", "wrongissuer"}        \* the signer configurations that can impersonate
BaseConfigs == [signer : Signers, respId : RespIdForms, status : Statuses, issuerGiven : BOOLEAN,
                issuerSelfSigned : BOOLEAN, certArg : CertArgs, region : Regions, imp : {"none"}]
ImpConfigs == [signer : Impostors, respId : {"byName"}, status : {"good"}, issuerGiven : BOOLEAN,
               issuerSelfSigned : BOOLEAN, certArg : CertArgs, region : {"none", "tbs"}, imp : Impersonations \ {"none"}]
Configs == BaseConfigs \cup ImpConfigs

VARIABLES cfg, resp, res, phase
vars == <<cfg, resp, res, phase>>

NoResp == [tbs |-> [ver |-> 0, status |-> "-", respId |-> "-", serial |-> 0], sig |-> [by |-> "-", over |-> 0, intact |-> TRUE],
           cert |-> NoCert, wrapperIntact |-> TRUE, looks |-> "none"]
NoRes == [d |-> "-", status |-> "-", respId |-> "-", serial |-> 0, hasCert |-> FALSE]

Init == /\ cfg \in Configs
        /\ resp = NoResp /\ res = NoRes /\ phase = "start"

(* CreateResponse: tbs from the template, signed by priv, template.Certificate appended.
   CreateResponse always writes the byName responder id (the responder certificate's subject); a byKey response
   is produced by the harness's encoder (same fields, [2] KeyHash) and signed with the same key. *)
Create == /\ phase = "start"
          /\ resp' = [tbs |-> [ver |-> 0, status |-> cfg.status, respId |-> cfg.respId, serial |-> 7],
                      sig |-> [by |-> SigKey(cfg.signer), over |-> 0, intact |-> TRUE],
                      cert |-> Embedded(cfg.signer, cfg.issuerSelfSigned), wrapperIntact |-> TRUE,
                      looks |-> cfg.imp]          \* identity attributes the signer's certificate copies from the issuer
          /\ phase' = "created"
          /\ UNCHANGED <<cfg, res>>

(* one modification in transit *)
Mutate == /\ phase = "created"
          /\ phase' = "sent"
          /\ resp' = CASE cfg.region = "tbs" -> [resp EXCEPT !.tbs.ver = 1]
                       [] cfg.region = "sig" -> [resp EXCEPT !.sig.intact = FALSE]
                       [] cfg.region = "cert" -> [resp EXCEPT !.cert.intact = FALSE]
                       [] cfg.region = "wrapper" -> [resp EXCEPT !.wrapperIntact = FALSE]
                       [] OTHER -> resp
          /\ UNCHANGED <<cfg, res>>

Verifies(k, r) == r.sig.intact /\ r.sig.by = k /\ r.sig.over = r.tbs.ver      \* Certificate.CheckSignature(alg, tbs, sig) under k
IssuedBy(c, k) == c.present /\ c.intact /\ c.signedBy = k                       \* issuer.CheckSignature(cert.alg, cert.RawTBS, cert.Signature)

SerialOf(arg) == IF arg = "mismatch" THEN 8 ELSE 7

(* ParseResponseForCert, in the order of the code.  "any": the model does not predict (a damaged wrapper byte may or may
   not matter; with issuer = nil a damaged response may or may not still show its embedded certificate).
   Regions: tbs = the tbsResponseData element, sig = the signature BIT STRING element, cert = the DER of the first embedded
   certificate (the [0] EXPLICIT and SEQUENCE OF headers around it belong to the wrapper: encoding/asn1 does not even compare
   the length of an EXPLICIT header with its content). *)
Decision(r, c) ==
  IF ~r.wrapperIntact THEN "any"
  ELSE IF ~c.issuerGiven /\ c.region # "none" THEN "any"      \* nothing anchors the check: e.g. a damaged BIT STRING header can hide the embedded
                                                             \* certificate (encoding/asn1 tolerates trailing bytes in a SEQUENCE) and then nothing is verified
  ELSE IF c.certArg # "nil" /\ SerialOf(c.certArg) # r.tbs.serial /\ r.tbs.ver = 0 THEN "reject"      \* no response matching the supplied certificate
  ELSE IF r.cert.present THEN
       IF ~r.cert.intact THEN "reject"                                       \* does not parse / key changed / issuer's signature broken
       ELSE IF ~Verifies(r.cert.key, r) THEN "reject"                             \* bad signature on embedded certificate (also with issuer = nil)
       ELSE IF c.issuerGiven /\ ~IssuedBy(r.cert, "I") THEN "reject"              \* bad OCSP signature: issuer did not sign the embedded certificate
       ELSE "accept"
  ELSE IF c.issuerGiven /\ ~Verifies("I", r) THEN "reject"
  ELSE "accept"

Parse == /\ phase = "sent"
         /\ phase' = "parsed"
         /\ LET d == Decision(resp, cfg) IN
            res' = [d |-> d,
                    status |-> IF d = "accept" THEN resp.tbs.status ELSE "-",
                    respId |-> IF d = "accept" THEN resp.tbs.respId ELSE "-",
                    serial |-> IF d = "accept" THEN resp.tbs.serial ELSE 0,
                    hasCert |-> d = "accept" /\ resp.cert.present]
         /\ UNCHANGED <<cfg, resp>>

Next == Create \/ Mutate \/ Parse
Spec == Init /\ [][Next]_vars

-----------------------------------------------------------------------------
(* properties *)
Parsed == phase = "parsed"

\* what C48 allows to be accepted when an issuer is given
Authorized(r) == Verifies("I", r) \/ (r.cert.present /\ IssuedBy(r.cert, "I") /\ Verifies(r.cert.key, r))

\* C48: with an issuer, accepted only if signed by the issuer or by an embedded certificate the issuer signed
OnlyAuthorized == (Parsed /\ cfg.issuerGiven /\ res.d = "accept") => Authorized(resp)
\* C48: any modification of the signed bytes is rejected (issuer given)
SignedBytesProtected == (Parsed /\ cfg.region = "tbs" /\ cfg.issuerGiven) => res.d = "reject"
\* ... so is a damaged signature, and with an issuer a damaged embedded certificate
SignatureProtected == (Parsed /\ cfg.region = "sig" /\ cfg.issuerGiven) => res.d = "reject"
EmbeddedCertProtected == (Parsed /\ cfg.region = "cert" /\ cfg.issuerGiven /\ resp.cert.present) => res.d = "reject"
\* exactly which authorized responses the implementation still refuses: something is embedded and the response is not signed
\* by THAT certificate's key / that certificate is not issued by the issuer (stricter than C48 demands, allowed by "only if")
AcceptExact == (Parsed /\ cfg.issuerGiven /\ cfg.region = "none" /\ cfg.certArg # "mismatch") =>
                 (res.d = "accept" <=> (Authorized(resp) /\ (resp.cert.present => (Verifies(resp.cert.key, resp) /\ IssuedBy(resp.cert, "I")))))
\* issuer = nil: the issuer's signature is not checked (documented); an embedded certificate's key still has to verify the response
NilIssuerUnchecked == (Parsed /\ ~cfg.issuerGiven /\ cfg.region = "none" /\ cfg.certArg # "mismatch") =>
                        (res.d = "accept" <=> (resp.cert.present => Verifies(resp.cert.key, resp)))
\* acceptance depends on the issuer's KEY only: erasing (or adding) copied identity attributes never changes the decision,
\* and an impostor is never accepted when an issuer is given, whatever it copies
IdentityIrrelevant == Parsed => \A l \in Impersonations : Decision([resp EXCEPT !.looks = l], cfg) = res.d
ImpostorRejected == (Parsed /\ cfg.issuerGiven /\ cfg.signer \in Impostors) => res.d # "accept"
\* serial must match when a cert is given
SerialMatch == (Parsed /\ cfg.certArg = "mismatch" /\ cfg.region \in {"none", "sig", "cert"}) => res.d # "accept"
\* round trip of the template fields on acceptance
RoundTrip == (Parsed /\ res.d = "accept") =>
               /\ res.status = cfg.status /\ res.serial = 7 /\ res.respId = cfg.respId
               /\ res.hasCert = Embedded(cfg.signer, cfg.issuerSelfSigned).present
\* every outcome class is reached (non-vacuity is checked by the coverage run of the check)

\* NOT demanded by C48 and NOT implemented: RFC 6960 4.2.2.2 requires id-kp-OCSPSigning in a delegated responder certificate.
\* TLC refutes this formula (OCSP_EKU.cfg, documentation of the difference); the harness confirms the real code accepts.
RFC6960Delegation == (Parsed /\ cfg.issuerGiven /\ res.d = "accept" /\ resp.cert.present /\ resp.cert.key # "I") => resp.cert.eku

-----------------------------------------------------------------------------
(* requests: CreateRequest(cert, issuer, opts) then ParseRequest *)
ReqHashes == {"sha1", "sha256", "sha384", "sha512"}
OtherHashes == {"md5", "sha224"}
CreateRequest(h, serial) == IF h \in ReqHashes
                            THEN [ok |-> TRUE, hash |-> h, nameHash |-> <<h, "subject">>, keyHash |-> <<h, "spk-bits">>, serial |-> serial]
                            ELSE [ok |-> FALSE, hash |-> "-", nameHash |-> <<>>, keyHash |-> <<>>, serial |-> 0]
ParseRequest(r) == r      \* unsigned, single-request, known hash OID: the fields come back as they are
ASSUME \A h \in ReqHashes \cup OtherHashes, s \in {0, 1, 255} :
         LET r == CreateRequest(h, s) IN (h \in ReqHashes <=> r.ok) /\ (r.ok => ParseRequest(r) = r /\ r.hash = h /\ r.serial = s)
=============================================================================
