SPECIFICATION Spec
CONSTANTS
  Listeners <- L_One
  Targets <- T_One
  TNet <- CTNet
  LAddr <- A_One
  PreReg <- Reg_L1
  MaxOpens = 3
  Cap = 1
  MaxHist = 0
CHECK_DEADLOCK FALSE
INVARIANTS NoCloseStuck
\* (the temporal form, PROPERTIES R2_CloseReturns, is violated as well; TLC reports it as "Temporal property R2_CloseReturns was violated")
