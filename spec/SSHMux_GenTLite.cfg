SPECIFICATION GenSpec
CONSTANTS
  MaxPeer = 3
  MaxLocal = 2
  MaxObj = 3
  Configs <- AllConfigs
  Lite = TRUE
  Hold = FALSE
  Burst = FALSE
  DecidedInLoop = TRUE
  DrainAll = TRUE
  RejectChecksSlot = TRUE
VIEW AbsView
CHECK_DEADLOCK FALSE
