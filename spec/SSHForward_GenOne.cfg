SPECIFICATION GenSpec
CONSTANTS
  Listeners <- L_One
  Targets <- T_One
  TNet <- CTNet
  LAddr <- A_One
  PreReg <- Reg_None
  MaxOpens = 4
  Cap = 1
  MaxHist = 6
CHECK_DEADLOCK FALSE
INVARIANT Emit
