-------------------------------- MODULE Asn1 --------------------------------
(* golang.org/x/crypto/cryptobyte/asn1.go: what every String reader does on a given input, as
   decided by the DER predicates of PrimDER.                               [property C23]

   One behaviour = one input: Init picks an input (an enumerated byte string, a grammar-generated
   near-valid encoding, or the DER encoding of a boundary value), the action Read applies every
   reader.  The typed readers are specified twice where the code takes a shortcut: *encoding-shaped*
   (what the code looks at: content length and leading octets) and *value-shaped* (is the decoded
   value representable in the Go type?); TLC checks that the two agree, that every accepted
   encoding is the canonical DER encoding of its value, and that every DER encoding of a
   representable boundary value is accepted with that value. *)
EXTENDS Integers, Sequences, FiniteSets, TLC, PrimDER

CONSTANTS Alphabet,      \* octets for the exhaustive enumeration
          MaxEnum,       \* every byte string over Alphabet of length <= MaxEnum is an input
          AlphabetLong,  \* ... and every string of length exactly LongLen over this smaller alphabet (LongLen = 0: none)
          LongLen,
          Inputs,        \* further (grammar-generated) inputs [b, fill]
          Values         \* set of boundary values [k, big, arcs, tm, bytes, flag] whose DER encoding is fed back

VARIABLES x,             \* the input
          src,           \* the value it encodes (k = "none" for plain inputs)
          res,           \* reader results
          phase
vars == <<x, src, res, phase>>

INTEGER == 2
BOOLEAN_ == 1
BITSTRING == 3
OCTETSTRING == 4
NULL_ == 5
OID == 6
ENUM == 10
UTCTIME == 23
GENTIME == 24
SEQUENCE == 48
CTX0 == 160

NoSrc == [k |-> "none", big |-> BigZero, arcs |-> <<>>, tm |-> NoTime, bytes |-> <<>>, flag |-> FALSE]
MaxExplicit == 48        \* contents up to this length are handled as explicit byte sequences

\* DER encoding of a boundary value (what the AddASN1* builders must emit)
EncValue(v) == CASE v.k = "int" -> EncTLV(INTEGER, DerInt(v.big))
                 [] v.k = "enum" -> EncTLV(ENUM, DerInt(v.big))
                 [] v.k = "bool" -> EncTLV(BOOLEAN_, IF v.flag THEN <<255>> ELSE <<0>>)
                 [] v.k = "oid" -> EncTLV(OID, DerOID(v.arcs))
                 [] v.k = "octet" -> EncTLV(OCTETSTRING, v.bytes)
                 [] v.k = "bits" -> EncTLV(BITSTRING, <<0>> \o v.bytes)          \* AddASN1BitString: whole octets only
                 [] v.k = "utc" -> EncTLV(UTCTIME, EncUTC(v.tm))
                 [] v.k = "gen" -> EncTLV(GENTIME, EncGen(v.tm))
                 [] OTHER -> EncTLV(NULL_, <<>>)

-----------------------------------------------------------------------------
(* readers *)
Expl(c) == IF XLen(c) <= MaxExplicit THEN Bytes(c) ELSE <<>>          \* explicit content when small
NoBig == [ok |-> FALSE, v |-> BigZero, vbig |-> FALSE]
\* INTEGER-shaped content under tag `tag`: readASN1BigInt / checkASN1Integer
RdInt(t, c, tag) ==
  IF ~t.ok \/ t.tag # tag \/ t.len = 0 THEN NoBig
  ELSE IF t.len >= 2 /\ ((XAt(c, 1) = 0 /\ XAt(c, 2) < 128) \/ (XAt(c, 1) = 255 /\ XAt(c, 2) >= 128)) THEN NoBig
  ELSE IF t.len > MaxExplicit THEN [ok |-> TRUE, v |-> BigZero, vbig |-> TRUE]
  ELSE [ok |-> TRUE, v |-> TwosVal(Bytes(c)), vbig |-> FALSE]
\* encoding-shaped representability (asn1Signed / asn1Unsigned + reflect Overflow): k = size in bytes
SignedByLen(t, k) == t.len <= k
UnsignedByLen(t, c, k) == XAt(c, 1) < 128 /\ (t.len <= k \/ (t.len = k + 1 /\ XAt(c, 1) = 0))
Fits(t, c) == [i8 |-> SignedByLen(t, 1), i16 |-> SignedByLen(t, 2), i32 |-> SignedByLen(t, 4), i64 |-> SignedByLen(t, 8),
               u8 |-> UnsignedByLen(t, c, 1), u16 |-> UnsignedByLen(t, c, 2), u32 |-> UnsignedByLen(t, c, 4), u64 |-> UnsignedByLen(t, c, 8),
               nonneg |-> XAt(c, 1) < 128]
NoFits == [i8 |-> FALSE, i16 |-> FALSE, i32 |-> FALSE, i64 |-> FALSE, u8 |-> FALSE, u16 |-> FALSE, u32 |-> FALSE, u64 |-> FALSE, nonneg |-> FALSE]

RdBool(t, c) == IF t.ok /\ t.tag = BOOLEAN_ /\ t.len = 1 /\ XAt(c, 1) \in {0, 255} THEN [ok |-> TRUE, v |-> XAt(c, 1) = 255]
                ELSE [ok |-> FALSE, v |-> FALSE]
RdOID(t, c) == IF t.ok /\ t.tag = OID /\ t.len <= MaxExplicit THEN DecOID(Bytes(c)) ELSE NoArcs
RdBits(t, c) == IF t.ok /\ t.tag = BITSTRING /\ IsDerBits(t.len, XAt(c, 1), XAt(c, t.len))
                THEN [ok |-> TRUE, pad |-> XAt(c, 1), n |-> t.len - 1] ELSE [ok |-> FALSE, pad |-> 0, n |-> 0]
RdBitsBytes(t, c) == t.ok /\ t.tag = BITSTRING /\ t.len >= 1 /\ XAt(c, 1) = 0
RdTime(t, c, tag) == IF t.ok /\ t.tag = tag /\ t.len <= MaxExplicit
                     THEN (IF tag = UTCTIME THEN DecUTC(Bytes(c)) ELSE DecGen(Bytes(c))) ELSE NoTime

\* [0] EXPLICIT wrappers: ReadOptionalASN1*, probed with tag 0xa0
Present(inp) == XLen(inp) >= 1 /\ XAt(inp, 1) = CTX0
Inner(inp, t) == LET c == Content(inp, t)
                     it == TLV(c) IN
                 [t |-> it, c |-> Content(c, it), whole |-> it.ok /\ it.hdr + it.len = XLen(c)]

Readers(inp) ==
  LET t == TLV(inp)
      c == Content(inp, t)
      int == RdInt(t, c, INTEGER)
      en == RdInt(t, c, ENUM)
      pres == Present(inp)
      inn == Inner(inp, t)
      oint == RdInt(inn.t, inn.c, INTEGER)
      obool == RdBool(inn.t, inn.c)
  IN [any |-> t,
      bigc |-> t.ok /\ t.len > MaxExplicit,       \* content too long for the explicit typed readers: only any/bits/bitsb/int.ok are meaningful
      int |-> int,
      fits |-> IF int.ok THEN Fits(t, c) ELSE NoFits,
      enum |-> [ok |-> en.ok /\ t.len <= 8, v |-> en.v],
      bool |-> RdBool(t, c),
      oid |-> RdOID(t, c),
      bits |-> RdBits(t, c),
      bitsb |-> RdBitsBytes(t, c),
      utc |-> RdTime(t, c, UTCTIME),
      gen |-> RdTime(t, c, GENTIME),
      present |-> pres,
      opt |-> (~pres \/ t.ok),
      optint |-> [ok |-> ~pres \/ (t.ok /\ oint.ok /\ inn.whole), v |-> IF pres /\ t.ok THEN oint.v ELSE BigZero],
      optoct |-> (~pres \/ (t.ok /\ inn.t.ok /\ inn.t.tag = OCTETSTRING /\ inn.whole)),
      \* DER: the wrapper holds exactly one BOOLEAN
      optbool |-> [ok |-> ~pres \/ (t.ok /\ obool.ok /\ inn.whole), v |-> obool.v,
                   lenient |-> pres /\ t.ok /\ obool.ok /\ ~inn.whole]]

Init == /\ \/ (\E k \in 0..MaxEnum : \E s \in [1..k -> Alphabet] : x = In(s, 0) /\ src = NoSrc)
           \/ (LongLen > 0 /\ \E a \in AlphabetLong : \E s \in [1..(LongLen - 1) -> AlphabetLong] : x = In(<<a>> \o s, 0) /\ src = NoSrc)
           \/ (x \in Inputs /\ src = NoSrc)
           \/ (\E v \in Values : src = v /\ x = In(EncValue(v), 0))
        /\ res = <<>> /\ phase = "init"
Read == /\ phase = "init"
        /\ res' = Readers(x)
        /\ phase' = "done" /\ UNCHANGED <<x, src>>
Next == Read
Spec == Init /\ [][Next]_vars

-----------------------------------------------------------------------------
(* properties *)
Done == phase = "done"
T == res.any
C == Content(x, T)
\* ReadAnyASN1 succeeds iff the input starts with a DER TLV (low tag number, minimal definite length)
\* -- restated independently of TLV(): the header re-encodes to itself
TLVIsDER == (Done /\ T.ok) =>
               /\ T.tag % 32 # 31
               /\ <<XAt(x, 1)>> \o [i \in 1..(T.hdr - 1) |-> XAt(x, 1 + i)] = <<T.tag>> \o LenOctets(T.len)
               /\ T.hdr + T.len <= XLen(x)
\* and conversely: an input that starts with the DER header of a length that fits is accepted
HasDerHeader(n) == XLen(x) >= 2 /\ XAt(x, 1) % 32 # 31 /\ XLen(x) >= 1 + Len(LenOctets(n)) + n /\ [i \in 1..Len(LenOctets(n)) |-> XAt(x, 1 + i)] = LenOctets(n)
DERIsTLV == Done => \A n \in {0, 1, 2, 3, 127, 128, 129, 255, 256} : HasDerHeader(n) => (T.ok /\ T.len = n)
\* accepted INTEGER / ENUMERATED contents are canonical DER encodings of their value
IntCanon == (Done /\ res.int.ok /\ ~res.int.vbig) => (IsBig(res.int.v) /\ DerInt(res.int.v) = Bytes(C) /\ IsDerIntContent(Bytes(C)))
EnumCanon == (Done /\ res.enum.ok) => (DerInt(res.enum.v) = Bytes(C) /\ FitsSigned(res.enum.v, 8))
\* the Go-type readers accept exactly the representable values
FitsByValue == (Done /\ res.int.ok /\ ~res.int.vbig) =>
   LET v == res.int.v f == res.fits IN
   /\ f.i8 = FitsSigned(v, 1) /\ f.i16 = FitsSigned(v, 2) /\ f.i32 = FitsSigned(v, 4) /\ f.i64 = FitsSigned(v, 8)
   /\ f.u8 = FitsUnsigned(v, 1) /\ f.u16 = FitsUnsigned(v, 2) /\ f.u32 = FitsUnsigned(v, 4) /\ f.u64 = FitsUnsigned(v, 8)
   /\ f.nonneg = ~v.neg
OidCanon == (Done /\ res.oid.ok) => (IsOID(res.oid.v) /\ DerOID(res.oid.v) = Bytes(C))
TimeCanon == /\ (Done /\ res.utc.ok) => (EncUTC(res.utc) = Bytes(C) \/ (res.utc.s = 0 /\ Len(Bytes(C)) \in {11, 15}))
             /\ (Done /\ res.gen.ok) => EncGen(res.gen) = Bytes(C)
\* every DER encoding of a boundary value is accepted, with that value
EncDec == Done =>
   CASE src.k = "int" -> res.int.ok /\ res.int.v = src.big
     [] src.k = "enum" -> res.enum.ok /\ res.enum.v = src.big
     [] src.k = "bool" -> res.bool.ok /\ res.bool.v = src.flag
     [] src.k = "oid" -> res.oid.ok /\ res.oid.v = src.arcs
     [] src.k = "octet" -> T.ok /\ T.tag = OCTETSTRING /\ T.len = Len(src.bytes)
     [] src.k = "bits" -> res.bits.ok /\ res.bitsb /\ res.bits.pad = 0 /\ res.bits.n = Len(src.bytes)
     [] src.k = "utc" -> res.utc.ok /\ [res.utc EXCEPT !.ok = TRUE] = [src.tm EXCEPT !.ok = TRUE]
     [] src.k = "gen" -> res.gen.ok /\ [res.gen EXCEPT !.ok = TRUE] = [src.tm EXCEPT !.ok = TRUE]
     [] src.k = "null" -> T.ok /\ T.tag = NULL_ /\ T.len = 0
     [] OTHER -> TRUE
\* typed readers never accept what ReadAnyASN1 rejects
TypedImpliesTLV == Done => ((res.int.ok \/ res.enum.ok \/ res.bool.ok \/ res.oid.ok \/ res.bits.ok \/ res.bitsb \/ res.utc.ok \/ res.gen.ok) => T.ok)
=============================================================================
