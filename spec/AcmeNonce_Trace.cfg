SPECIFICATION TraceSpec
CONSTANTS
  Ops = {1, 2, 3, 4, 5, 6, 7, 8}
  Budgets = {0}
  PhaseSet = {1}
  MaxNonces = 100
  MaxReplies = 100000000
  NonceURLs = {TRUE}
  InitPools = {0}
  StopVals = {"zero"}
INVARIANTS N1_FreshNonces N1_Discipline N2_Bounded N2_Cancel N3_LastReply N4_PoolCap
CONSTRAINT HWM
POSTCONDITION TraceAccepted
CHECK_DEADLOCK FALSE
