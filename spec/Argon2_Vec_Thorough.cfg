SPECIFICATION Spec
CONSTANTS
  Cases <- C15Thorough
  Groups = 48
  Heavy = 5
INVARIANTS Emit Published Shape
CHECK_DEADLOCK FALSE
