---------------------------- MODULE StreamCipher ----------------------------
(***************************************************************************)
(* C03 - abstract specification of chacha20.Cipher as a stream position.   *)
(*                                                                         *)
(* Models the public contract of /repo/chacha20/chacha_generic.go:         *)
(*   XORKeyStream(dst, src)  ->  XOR(n),  n = len(src)                     *)
(*   SetCounter(c)           ->  SetCounter(c)                             *)
(* The keystream is a fixed byte string KS[0 .. 64*L) of L blocks (the     *)
(* code: L = 2^32; model checking: small L; replay maps model block k to   *)
(* real counter Base + k with Base = 2^32 - L, or Base = 0 with L out of   *)
(* reach).  The only state is the byte position `pos` of the next          *)
(* keystream byte.  Bytes themselves are abstract here: an output is the   *)
(* range [from, from+n) of keystream positions; the byte oracle            *)
(* (PrimChaCha.KS) materialises it.                                        *)
(*                                                                         *)
(* A panic ends the life of the object as far as the property is           *)
(* concerned (dead): C03 says nothing about use after a recovered panic.   *)
(* On an overflow panic the code may already have consumed buffered        *)
(* keystream, so pos may have advanced, but never beyond the limit.        *)
(***************************************************************************)
EXTENDS Integers, Sequences

CONSTANTS L,      \* number of keystream blocks before the counter would wrap
          NSet,   \* lengths passed to XORKeyStream
          CSet    \* counters passed to SetCounter (block numbers 0..L-1: uint32 cannot express L)

VARIABLES pos,    \* next keystream byte position, 0..64*L
          dead,   \* a panic happened
          last    \* last event (observable): op, arg, res, out (sequence of ranges)

vars == <<pos, dead, last>>
Lim == 64 * L

Ev(op, arg, res, out) == [op |-> op, arg |-> arg, res |-> res, out |-> out]
Rng(from, n) == [from |-> from, n |-> n]

Init == /\ pos = 0 /\ dead = FALSE /\ last = Ev("new", 0, "ok", <<>>)

XOR(n) ==
  /\ ~dead
  /\ IF n = 0 THEN                       \* empty input: nothing happens, never panics
       /\ UNCHANGED <<pos, dead>>
       /\ last' = Ev("xor", 0, "ok", <<>>)
     ELSE IF pos + n > Lim THEN          \* would need a block beyond the last one: panic, no wrap
       /\ dead' = TRUE
       /\ pos' \in pos..Lim
       /\ last' = Ev("xor", n, "panic", <<>>)
     ELSE
       /\ pos' = pos + n
       /\ dead' = FALSE
       /\ last' = Ev("xor", n, "ok", <<Rng(pos, n)>>)

SetCounter(c) ==
  /\ ~dead
  /\ IF 64 * c < pos THEN                \* rollback (also: any SetCounter once the last block is in use)
       /\ dead' = TRUE
       /\ pos' = pos
       /\ last' = Ev("setctr", c, "panic", <<>>)
     ELSE
       /\ pos' = 64 * c
       /\ dead' = FALSE
       /\ last' = Ev("setctr", c, "ok", <<>>)

Next == (\E n \in NSet : XOR(n)) \/ (\E c \in CSet : SetCounter(c))
Spec == Init /\ [][Next]_vars

(******************************* properties *******************************)
TypeOK == /\ pos \in 0..Lim /\ dead \in BOOLEAN
\* the position never moves backwards: no keystream byte is ever produced twice
Monotone == [][pos' >= pos]_vars
\* every successful XOR outputs exactly the next n keystream bytes (split invariance:
\* the concatenation of outputs depends only on the positions, not on how calls are split)
Contiguous == [][(last'.op = "xor" /\ last'.res = "ok" /\ last'.arg > 0 /\ ~dead)
                   => (last'.out = <<Rng(pos, last'.arg)>> /\ pos' = pos + last'.arg)]_vars
\* XOR panics exactly when it would run past the last block; SetCounter exactly on rollback
PanicExact == [][/\ (last'.op = "xor" /\ ~dead) => ((last'.res = "panic") <=> (pos + last'.arg > Lim))
                 /\ (last'.op = "setctr" /\ ~dead) => ((last'.res = "panic") <=> (64 * last'.arg < pos))]_vars
\* seek: after a successful SetCounter(c) the position is 64*c
Seek == [][(last'.op = "setctr" /\ last'.res = "ok" /\ ~dead) => pos' = 64 * last'.arg]_vars
=============================================================================
