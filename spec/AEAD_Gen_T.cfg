INIT Init
NEXT Next
CONSTANTS
  Grid <- GridThorough
  Seeds <- SeedsThorough
  OpenMax = 65
INVARIANTS EmitAndCheck
CHECK_DEADLOCK FALSE
