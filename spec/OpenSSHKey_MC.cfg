SPECIFICATION Spec
CONSTANTS
  Menus <- MenusAll
INVARIANTS PristineParses WrongPassphrase MissingPassphrase AcceptOnlyConsistentOrGap
CHECK_DEADLOCK FALSE
