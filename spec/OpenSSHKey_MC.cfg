SPECIFICATION Spec
CONSTANTS
  Menus <- MenusAll
  FixConsistency = TRUE
INVARIANTS PristineParses WrongPassphrase MissingPassphrase AcceptOnlyConsistentOrGap AcceptOnlyConsistent
CHECK_DEADLOCK FALSE
