SPECIFICATION Spec
CONSTANTS
  RangeCheck = TRUE
  Full = FALSE
INVARIANTS AcceptImpliesShape ValidAccepted Emit
CHECK_DEADLOCK FALSE
