---------------------------- MODULE AcmeNonce_Gen ----------------------------
(* Behaviour generator for binding R: every complete behaviour of the bounded instance is
   printed with the model's predictions (requests sent, result class and the serial of the
   reply the result derives from). *)
EXTENDS AcmeNonce, Json
VARIABLE hist
GenInit == Init /\ hist = <<ev>>
GenNext == Next /\ hist' = Append(hist, ev')
GenSpec == GenInit /\ [][GenNext]_<<vars, hist>>
Emit == AllDone => PrintT("TRACE " \o ToJson([nurl |-> hasNonceURL, h |-> hist,
                                               res |-> [o \in Ops |-> res[o]]]))
=============================================================================
