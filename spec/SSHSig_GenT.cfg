SPECIFICATION Spec
CONSTANTS
  Menus <- MenusGenT
  FixSign = TRUE
INVARIANTS Emit
CHECK_DEADLOCK FALSE
