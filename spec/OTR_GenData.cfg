SPECIFICATION GSpec
CONSTANTS
  Starts <- AnyStart
  MaxData = 2
  FragChoices <- F12
  MaxFaults = 0
  FaultKinds <- NoFaults
  MaxAuth = 0
  Secrets <- S1
  Questions <- Q0
  AllowEnd = TRUE
  MaxRequery = 0
  FixCommitState = TRUE
  SeqSMP = FALSE
  FixSMPReset = TRUE
INVARIANTS EmitWitness
VIEW View
CHECK_DEADLOCK FALSE
