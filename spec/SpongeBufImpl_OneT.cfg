SPECIFICATION Spec
CONSTANTS
  Kinds = {"shake", "fixed", "legacy"}
  WSet = {0, 1, 2, 3, 4, 5, 7, 8, 9}
  RSet = {0, 1, 2, 3, 4, 5, 7, 8, 9}
  MaxLen = 13
  MaxOut = 13
  MaxObjs = 1
  ShakeResetAfterRead = FALSE
  Rate = 4
  OutLen = 3
  Prefixes = {0, 4, 8}
INVARIANTS AbsInv OutIsDefinition BookInv FlagMatchesDir SumPanicsOnlyAfterRead
PROPERTIES Refines AbsSumPure AbsIndependent AbsCloneEqual AbsReadContiguous AbsSqueezingIsFinal
CHECK_DEADLOCK FALSE
