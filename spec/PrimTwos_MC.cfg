SPECIFICATION Spec
CONSTANTS
  Lo <- LoV
  Hi = 33000
INVARIANTS Agree Padded
CHECK_DEADLOCK FALSE
