SPECIFICATION Spec
CONSTANTS
  Menus <- MenusQuick
  FixTime = FALSE
INVARIANTS TimeIsLiteral
CHECK_DEADLOCK FALSE
