SPECIFICATION Spec
CONSTANTS
  Keys <- K5
  RSAKeys <- R2
  Pass <- P3
  Lifetimes <- L3
  Ticks <- T2
  Comments <- C2
  Flags <- F5
  MaxLen = 30
INVARIANTS EmitAll NoBoundary
CHECK_DEADLOCK FALSE
