SPECIFICATION Spec
CONSTANTS
  Starts <- StartA
  MaxData = 1
  FragChoices <- F12
  MaxFaults = 1
  FaultKinds <- AllFaults
  MaxAuth = 0
  Secrets <- S1
  Questions <- Q0
  AllowEnd = FALSE
  MaxRequery = 0
  FixCommitState = TRUE
  SeqSMP = FALSE
  FixSMPReset = TRUE
INVARIANTS TypeOK InOrderNoDup SlotBound NoSplice NoNilKey
PROPERTIES TamperRejected
CHECK_DEADLOCK FALSE
