SPECIFICATION GenSpec
CONSTANTS
  Listeners <- L_Two
  Targets <- T_Two
  TNet <- CTNet
  LAddr <- A_Two
  PreReg <- Reg_L1L2
  MaxOpens = 3
  Cap = 1
  MaxHist = 5
CHECK_DEADLOCK FALSE
INVARIANT Emit
