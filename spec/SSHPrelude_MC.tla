---------------------------- MODULE SSHPrelude_MC ----------------------------
(* Bounded instances of SSHPrelude (growth check X07): exhaustive model checking and behaviour generation. *)
EXTENDS SSHPrelude, Json

BothRoles == {"client", "server"}
OnlyClient == {"client"}
OnlyServer == {"server"}
OwnsAll == {"default", "custom", "junk"}
OwnsTwo == {"default", "junk"}
OwnsOne == {"default"}
Bool == {TRUE, FALSE}
OnlyF == {FALSE}
OnlyT == {TRUE}

\* version-phase steps: single bytes over an alphabet, and runs (real constants)
Bytes(alpha) == {[c |-> x, n |-> 1] : x \in alpha}
AlphaS == {"S", "H", "D", "R", "N", "X"}
AlphaT == {"S", "H", "D", "R", "N", "X", "Z"}
AlphaAll == {"S", "H", "D", "R", "N", "X", "Z", "B"}
VerScaledS == Bytes(AlphaS)
VerScaledT == Bytes(AlphaT)
\* real constants: lengths around 255 are reached by runs of filler bytes, line counts around 1024 by runs of LF
VerReal == Bytes(AlphaAll)
           \cup {[c |-> "X", n |-> k] : k \in {2, 246, 249, 250}}
           \cup {[c |-> "B", n |-> 249], [c |-> "Z", n |-> 250], [c |-> "S", n |-> 2], [c |-> "S", n |-> 254], [c |-> "R", n |-> 2]}
           \cup {[c |-> "N", n |-> k] : k \in {2, 1021, 1022, 1023}}
\* quick tier: the boundaries 253 / 254 / 255 and 1022 / 1023 / 1024 only
VerRealQ == Bytes(AlphaT)
            \cup {[c |-> "X", n |-> 249], [c |-> "X", n |-> 250], [c |-> "S", n |-> 2], [c |-> "N", n |-> 1022], [c |-> "N", n |-> 1023]}
NoVer == {}

KindsConf == {"kexinit", "kexmsg", "newkeys"}
KindsAll == PacketKinds
\* quick generator: without the rarely distinct kinds
KindsLite == PacketKinds \ {"zero", "empty", "svcacc2", "extbad", "debug"}

KindsVerGen == {"kexinit", "kexmsg", "kexmsgbad", "newkeys"}
NoRuns == {}
RunsRealQ == {64, 81, 82}
RunsSim == {2, 5, 63, 64, 65, 81}
RunsScaled == {2, 3, 4}
RunsReal == {63, 64, 65, 80, 81, 82}
BurstsScaled == {1, 2}
BurstsReal == {16, 17}

\* one test per model transition: the view keeps what matters for the future, hides step observables and counters
AbsView == [role |-> S.role, own |-> S.own, sp |-> S.strictPeer, xc |-> S.extc, rk |-> S.rk,
            ph |-> S.ph, kx |-> S.kx, first |-> S.first, strict |-> S.strict, pre |-> (S.pre > 0), due |-> S.due,
            len |-> Len(S.buf), cr |-> (S.buf # <<>> /\ S.buf[Len(S.buf)] = "R"), pm |-> S.pm, nl |-> S.nl,
            ext |-> S.ext, svcext |-> S.svcext, authst |-> S.authst, aext |-> S.aext,
            pend |-> Pend(S), res |-> S.res, wait |-> S.wait, stuck |-> S.stuck, ovf |-> S.ovf]

FinalObs(s) == LET f == Final(s) IN [res |-> f.res, wait |-> f.wait, closed |-> f.closed, was |-> (s.ph = "dead"), weak |-> f.weak, fl |-> f.fl]
Cfg(s) == [role |-> s.role, own |-> s.own, sp |-> s.strictPeer, xc |-> s.extc, rk |-> s.rk, start |-> StartPh]
Line(s, h) == PrintT("TRACE " \o ToJson([cfg |-> Cfg(s), steps |-> h, final |-> FinalObs(s)]))

GPeer == \E e \in PeerEvents(S) : S' = Step(S, e) /\ hist' = Append(hist, Obs(S')) /\ Line(S', hist')
\* the initial observation (the own line, or the refusal, or the first KEXINIT after a plain exchange) is step 0
GenInit == S \in InitStates /\ hist = <<Obs(S)>>
GenSpec == GenInit /\ [][GPeer]_<<S, hist>>

\* the same keeping the history without printing (simulation prints complete histories with EmitEnd)
HPeer == \E e \in PeerEvents(S) : S' = Step(S, e) /\ hist' = Append(hist, Obs(S'))
HistSpec == GenInit /\ [][HPeer]_<<S, hist>>
\* random walks: the first SimMin packet events keep the connection alive, so that the walks get somewhere
SimMin == 18
HPeerLive == \E e \in PeerEvents(S) : LET n == Step(S, e) IN
                /\ (n.ph # "dead" \/ S.npk >= SimMin \/ S.ph = "ver")
                /\ S' = n /\ hist' = Append(hist, Obs(S'))
SimSpec == GenInit /\ [][HPeerLive]_<<S, hist>>
EmitEnd == (Len(hist) > 1 /\ (S.ph = "dead" \/ S.npk >= MaxPkt)) =>
              PrintT("TRACE " \o ToJson([cfg |-> Cfg(S), steps |-> hist, final |-> FinalObs(S)]))
=============================================================================
