INIT Init
NEXT Next
CONSTANTS
  TagLen = 2
  EpkLen = 3
  SigLen = 2
  Fixed = {}
  Mode = "small"
  Base = 20
  Span = 4
  MaxN = 2
  MaxP = 0
  GenClasses = {}
  GenLens = {}
  GenXtsLens = {}
  GenPrefixes = {}
  GenCaps = {}
  GenAds = {}
  DMin = 0
  DMax = 0
  Strict = TRUE
INVARIANTS PairsOK CallsOK
CHECK_DEADLOCK FALSE
