SPECIFICATION TraceSpec
INVARIANTS FirstIsKexInit KexShape KexCausal BeforeFirstNewKeys K1Out K1In ConnBeforeAuth SessionIncomplete RekeysEnough
CONSTRAINT HWM
POSTCONDITION TraceAccepted
CHECK_DEADLOCK FALSE
