SPECIFICATION FairSpec
CONSTANTS
  Starts <- StartA
  MaxData = 0
  FragChoices <- F1
  MaxFaults = 0
  FaultKinds <- NoFaults
  MaxAuth = 1
  Secrets <- S12
  Questions <- Q01
  AllowEnd = FALSE
  MaxRequery = 0
  FixCommitState = TRUE
  SeqSMP = FALSE
  FixSMPReset = TRUE
INVARIANTS TypeOK InOrderNoDup AllDelivered SlotsSuffice SlotBound SMPSound RunOutcome
PROPERTIES BothEncrypted SMPFinishes
CHECK_DEADLOCK FALSE
