SPECIFICATION Spec
CONSTANTS
  Modes <- NoneOnly
  MaxPacket = 262144
  SeqMod = 8
  CtrBase = 3
  CtrLimbs = 2
  Sizes <- SizesAttack
  StartSeqs <- Seq0
  StartCtrs <- Ctr0Small
  MaxPkts = 0
  MaxFaults = 0
  AttackOps <- NoOps
  Phased = TRUE
  PadRule = "code"
INVARIANTS EmitTable
CHECK_DEADLOCK FALSE
