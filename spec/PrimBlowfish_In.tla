--------------------------- MODULE PrimBlowfish_In ---------------------------
(***************************************************************************)
(* Input cases of PrimBlowfish_Vec.  checks/C19.py REPLACES this module in  *)
(* the scratch copy of spec/ on every run (seeded passwords and salts, their *)
(* SHA-512 digests computed with hashlib); this static version keeps the    *)
(* module tree parsable and documents the format.                           *)
(*   k = "bh" : bcrypt_hash at scale sc; a = hashed password, b = hashed     *)
(*              salt (64 bytes each in reality), c unused                    *)
(*   k = "ecb": Blowfish at scale sc: key a, salt b (<<>>: Blowfish's own    *)
(*              key schedule, else the salted expansion), block c            *)
(***************************************************************************)
BfCases == <<
  [k |-> "ecb", sc |-> [nr |-> 16, sb |-> 256, cost |-> 0, mag |-> 0], a |-> <<1, 2, 3, 4, 5, 6, 7>>, b |-> <<>>, c |-> <<0, 1, 2, 3, 4, 5, 6, 7>>],
  [k |-> "ecb", sc |-> [nr |-> 16, sb |-> 256, cost |-> 0, mag |-> 0], a |-> <<1, 2, 3>>, b |-> <<9, 8, 7, 6, 5>>, c |-> <<0, 1, 2, 3, 4, 5, 6, 7>>],
  [k |-> "bh", sc |-> [nr |-> 4, sb |-> 4, cost |-> 2, mag |-> 2], a |-> <<1, 2, 3, 4, 5, 6, 7, 8>>, b |-> <<9, 8, 7, 6, 5, 4, 3, 2>>, c |-> <<>>],
  [k |-> "bh", sc |-> [nr |-> 16, sb |-> 256, cost |-> 1, mag |-> 64], a |-> <<1, 2, 3, 4, 5, 6, 7, 8>>, b |-> <<9, 8, 7, 6, 5, 4, 3, 2>>, c |-> <<>>]
>>
=============================================================================
