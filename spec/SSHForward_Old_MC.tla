---------------------------- MODULE SSHForward_Old_MC ----------------------------
(* Model-checking instances and the behaviour generator (binding R) for SSHForward_Old (current code). *)
EXTENDS SSHForward_Old, SSHForward_Consts, Json
\* generator: print every settled history of maximal recorded length with the model's observations
Emit == (Len(hist) = MaxHist /\ Quiescent) => PrintT("TRACE " \o ToJson([model |-> "old", laddr |-> LAddr, prereg |-> PreReg, hist |-> hist, final |-> Snapshot]))
\* one witness history per (library state, last event): hide the histories
View == <<libvars, IF hist = <<>> THEN <<>> ELSE hist[Len(hist)].ev>>
EmitAny == (hist # <<>> /\ Quiescent) => PrintT("TRACE " \o ToJson([model |-> "old", laddr |-> LAddr, prereg |-> PreReg, hist |-> hist, final |-> Snapshot]))
\* counterexample schedules: settled states in which some Close is blocked on the list mutex
Stuck == \E l \in Listeners : cpc[l] = "wantLock"
EmitStuck == (hist # <<>> /\ Quiescent /\ Stuck) => PrintT("TRACE " \o ToJson([model |-> "old", laddr |-> LAddr, prereg |-> PreReg, hist |-> hist, final |-> Snapshot]))
=============================================================================
