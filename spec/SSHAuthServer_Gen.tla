-------------------------- MODULE SSHAuthServer_Gen --------------------------
(* Behaviour generator for binding R (C32, C33): SSHAuthServer plus a history variable. *)
EXTENDS SSHAuthServer_MC

\* ---------------------------------------------------------------- generator (binding R)
VARIABLE hist
gvars == <<vars, hist>>
GInit == Init /\ hist = <<>>
GNext == \E r \in ReqAt(C.alpha, attempts) : Step(r) /\ hist' = Append(hist, [req |-> r, stage |-> stage, partial |-> partial, out |-> out', cbs |-> cbs', status |-> status', perms |-> perms'.id])
GSpec == GInit /\ [][GNext]_gvars
\* Transition coverage: with VIEW View every distinct loop state is expanded once and the action constraint
\* prints, for every request offered there, the witness history ending with that request.
HistLine(h) == PrintT("TRACE " \o ToJson([kind |-> "hist", cfg |-> cfg.name, hist |-> h]))
CfgLine == PrintT("TRACE " \o ToJson([kind |-> "cfg", name |-> cfg.name, def |-> C, maxAttempts |-> MaxAttempts]))
EmitCfg == attempts = 0 => CfgLine
EmitAC == HistLine(hist')
\* Random walks (-simulate): only completed behaviours are printed.
EmitDone == IF attempts = 0 THEN CfgLine ELSE (status # "running" \/ attempts >= Bound) => HistLine(hist)
=============================================================================
