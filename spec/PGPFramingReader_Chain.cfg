SPECIFICATION Spec
CONSTANTS
  Residue = FALSE
  Streams <- Chain5
  MaxReaders = 3
  MaxUnread = 1
  MaxOps = 12
INVARIANTS DepthBound Order Complete 
PROPERTIES PushRule Lifo EofSticky
CHECK_DEADLOCK FALSE
