SPECIFICATION CSpec
CONSTANTS
  Blocks = {0}
  Pairs = 3
INVARIANTS AcceptIffDocumented ReferenceInverts EmitC
CHECK_DEADLOCK FALSE
