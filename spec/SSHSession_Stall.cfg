SPECIFICATION Spec
CONSTANTS
  MaxSrv = 5
  MaxCli = 1
  ReqBuf = 2
  Cfgs <- CfgNilBuf
  Lite = "srv"
INVARIANTS S9_NoStall
VIEW View
CHECK_DEADLOCK FALSE
