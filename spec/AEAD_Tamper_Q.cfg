INIT Init
NEXT Next
CONSTANTS
  Bases <- BasesQuick
  EvalBases <- EvalQuick
  EvalBits = {3}
  EvalMasks = {90}
  Seed <- SeedQ
INVARIANTS Rejects Emit
CHECK_DEADLOCK FALSE
