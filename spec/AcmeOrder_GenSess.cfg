\* thorough generator: two-call sessions of the issuance flow (server state carried over)
SPECIFICATION GenSpec
CONSTANTS
  OpSet <- FlowOps
  Bundles = {TRUE, FALSE}
  MaxCalls = 2
  MaxReq = 4
  MaxEnv = 2
  Shapes <- CoreShapes
  RetrySet = {0, 3}
  Budget = 1
  Malformed = FALSE
  CertKinds <- FewCerts
  AltSet = {0, 2}
  InitStates <- InitRFC
  CallOK <- AnyCall
  EnvOK <- AnyEnv
  FixNegRA = FALSE
  Mut = "none"
VIEW GenView
INVARIANTS Emit TypeOK P1_NoFalseSuccess P2_TypedFailures P3_FinalizeOnce P4_PollSpacing P5_StopOnCancel P6_CertAfterValid P7_LastObserved P8_ChainLimits P9_PollExactlyWhileNotFinal ServerSane
CHECK_DEADLOCK FALSE
