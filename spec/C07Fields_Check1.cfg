SPECIFICATION Spec
CONSTANTS
  RangeCheck = TRUE
  Full = TRUE
INVARIANTS AcceptImpliesShape ValidAccepted Emit
CHECK_DEADLOCK FALSE
