------------------------------ MODULE C07Fields ------------------------------
(***************************************************************************)
(* C07 - the decision UnmarshalBinary makes on the range-carrying bytes of *)
(* a marshaled state, at the REAL scale, for the three formats:            *)
(*   blake2b "b2b" | h 8x8 | c 2x8 | size 1 | block 128 | offset 1  (213)  *)
(*   blake2s "b2s" | h 8x4 | c 2x4 | size 1 | block 64  | offset 1  (109)  *)
(*   legacy Keccak "sha\x0b" | rate 1 | a 200 | n 1 | direction 1   (207)  *)
(* A case is [alg, f1, f2, f3]: (size, offset, -) resp. (rate, n, dir)     *)
(* byte values; all other bytes (h, c, block, a) are free: every value is  *)
(* accepted and harmless.  Accept is the acceptance test (for BLAKE2 with  *)
(* or without the range checks: RangeCheck), Shape the set of states on    *)
(* which Write, Sum and Reset evaluate only in-range slice and index       *)
(* expressions (Blake2Buf!WriteDefined/SumDefined, C07Keccak!SliceDefined/ *)
(* PadDefined at BlockSize 128/64, Size 64/32, rate 136/72, width 200).    *)
(* TLC checks Accept => Shape over ALL 65536 (size, offset) pairs per      *)
(* BLAKE2 format and all (n, direction) pairs with the right rate plus     *)
(* boundary rates for Keccak, and prints, for the boundary values          *)
(* {0, 1, max valid, max valid + 1, 0x7f, 0x80, 0xff} of every field, the  *)
(* predicted outcome of UnmarshalBinary and of the calls that follow.      *)
(***************************************************************************)
EXTENDS Integers, Sequences, TLC, Json

CONSTANTS RangeCheck,     \* BLAKE2 UnmarshalBinary tests the size and offset bytes
          Full            \* enumerate all 65536 (n, direction) pairs for Keccak too (else boundary values only)
VARIABLE c

IsBlake(a) == a \in {"b2b", "b2s"}
BlockSize(a) == IF a = "b2b" THEN 128 ELSE 64
MaxSize(a) == IF a = "b2b" THEN 64 ELSE 32
Rate(a) == IF a = "k256" THEN 136 ELSE 72
Width == 200

Bnd(maxv) == {0, 1, maxv, maxv + 1, 127, 128, 255}
F1Vals(a) == IF IsBlake(a) THEN Bnd(MaxSize(a)) ELSE Bnd(Rate(a))
F2Vals(a) == IF IsBlake(a) THEN Bnd(BlockSize(a)) ELSE Bnd(Rate(a))
F3Vals(a) == IF IsBlake(a) THEN {0} ELSE {0, 1, 2, 127, 128, 255}
Boundary(x) == x.f1 \in F1Vals(x.alg) /\ x.f2 \in F2Vals(x.alg) /\ x.f3 \in F3Vals(x.alg)

Rec(a, x, y, z) == [alg |-> a, f1 |-> x, f2 |-> y, f3 |-> z]
\* (nested quantifiers instead of one big set: TLC enumerates without building and sorting it)
Init == \/ \E a \in {"b2b", "b2s"} : \E s \in 0..255 : \E o \in 0..255 : c = Rec(a, s, o, 0)
        \/ Full /\ \E a \in {"k256", "k512"} : \E nn \in 0..255 : \E d \in 0..255 : c = Rec(a, Rate(a), nn, d)
        \/ \E a \in {"k256", "k512"} : \E r \in F1Vals(a) : \E nn \in F2Vals(a) : \E d \in F3Vals(a) : c = Rec(a, r, nn, d)
Next == FALSE /\ UNCHANGED c
Spec == Init /\ [][Next]_c

Accept(x) == IF IsBlake(x.alg)
             THEN RangeCheck => (x.f1 \in 1..MaxSize(x.alg) /\ x.f2 <= BlockSize(x.alg))
             ELSE x.f1 = Rate(x.alg) /\ x.f2 <= Rate(x.alg) /\ x.f3 \in {0, 1}

\* outcome of a call on the state loaded from an accepted case
WriteOutcome(x) == IF IsBlake(x.alg)
                   THEN (IF x.f2 <= BlockSize(x.alg) THEN "ok" ELSE "rangepanic")
                   ELSE IF x.f3 # 0 THEN "modepanic" ELSE IF x.f2 <= x.f1 /\ x.f1 <= Width THEN "ok" ELSE "rangepanic"
SumOutcome(x) == IF IsBlake(x.alg)
                 THEN (IF x.f2 <= BlockSize(x.alg) /\ x.f1 <= MaxSize(x.alg) THEN "ok" ELSE "rangepanic")
                 ELSE IF x.f3 # 0 THEN "modepanic" ELSE IF x.f2 < Width /\ x.f1 >= 1 /\ x.f1 <= Width THEN "ok" ELSE "rangepanic"
Shape(x) == WriteOutcome(x) # "rangepanic" /\ SumOutcome(x) # "rangepanic"

\* C07: UnmarshalBinary either returns an error or yields a state on which Write, Sum, Reset do not panic
AcceptImpliesShape == Accept(c) => Shape(c)
\* the range tests are not stricter than the states MarshalBinary produces
ValidAccepted == (IF IsBlake(c.alg) THEN c.f1 \in 1..MaxSize(c.alg) /\ c.f2 <= BlockSize(c.alg)
                  ELSE c.f1 = Rate(c.alg) /\ c.f2 <= Rate(c.alg) /\ c.f3 \in {0, 1}) => Accept(c)

Emit == Boundary(c) => PrintT("TRACE " \o ToJson([alg |-> c.alg, f1 |-> c.f1, f2 |-> c.f2, f3 |-> c.f3,
                                                  accept |-> Accept(c), write |-> WriteOutcome(c), sum |-> SumOutcome(c)]))
=============================================================================
