SPECIFICATION Spec
CONSTANTS
  H = 32
  NBufs = 1
  Design = "own"
  MaxBlocks = 255
  ReadSizes = {0, 1, 31, 32, 33, 65, 4067, 8128, 8158, 8159, 8160, 8161}
INVARIANTS TypeOK ImplInv ReaderOwnsItsState
PROPERTIES Refines AbsErrorConsumesNothing AbsContiguous AbsFailsExactlyBeyondLimit AbsZeroReadIsNoop AbsScribbleIsInvisible ScribbleKeepsReaderState
CHECK_DEADLOCK FALSE
