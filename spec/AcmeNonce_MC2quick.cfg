SPECIFICATION Spec
CONSTANTS
  Ops = {1, 2}
  Budgets = {0, 1}
  PhaseSet = {1}
  MaxNonces = 100
  MaxReplies = 3
  NonceURLs = {TRUE, FALSE}
  InitPools = {0, 1}
  StopVals = {"zero", "neg"}
VIEW MCView
INVARIANTS TypeOK N1_FreshNonces N1_Discipline N2_Bounded N2_Cancel N3_LastReply N4_PoolCap MutexOK
CHECK_DEADLOCK FALSE
