----------------------------- MODULE PrimSSHEnc -----------------------------
(* RFC 4251 section 5 data type representations as executable encoders and decoders over
   byte sequences (golang.org/x/crypto/ssh/messages.go: appendU32/appendU64/appendInt,
   marshalInt/intLength, parseString/parseNameList/parseInt/parseUint32/parseUint64).
                                                                        [property C24]
   Values:  uint32 = <<hi16, lo16>>, uint64 = <<l3, l2, l1, l0>> (16-bit limbs, TLC integers are
   32-bit); string = byte sequence; name-list = sequence of names (byte sequences without
   comma, RFC: non-empty); mpint = PrimTwos big integer; boolean.
   A decoder returns [ok, v, rest]. *)
EXTENDS Integers, Sequences, FiniteSets, PrimTwos

Comma == 44
Limb(l) == <<l \div 256, l % 256>>
EncU32(v) == Limb(v[1]) \o Limb(v[2])
EncU64(v) == Limb(v[1]) \o Limb(v[2]) \o Limb(v[3]) \o Limb(v[4])
\* a length / count n < 2^31 as uint32
EncLen(n) == <<(n \div 16777216) % 256, (n \div 65536) % 256, (n \div 256) % 256, n % 256>>
EncBool(b) == IF b THEN <<1>> ELSE <<0>>
EncString(s) == EncLen(Len(s)) \o s
RECURSIVE Join(_)
Join(names) == IF names = <<>> THEN <<>>
               ELSE IF Len(names) = 1 THEN names[1]
               ELSE names[1] \o <<Comma>> \o Join(Tail(names))
EncNameList(names) == EncString(Join(names))
\* "the value zero MUST be stored as a string with zero bytes of data"; "unnecessary leading
\* bytes with the value 0 or 255 MUST NOT be included"
EncMpint(v) == EncString(TwosMin(v))

Fail == [ok |-> FALSE, v |-> <<>>, rest |-> <<>>]
Ok(v, rest) == [ok |-> TRUE, v |-> v, rest |-> rest]
Drop(b, n) == SubSeq(b, n + 1, Len(b))
Take(b, n) == SubSeq(b, 1, n)

DecU32(b) == IF Len(b) < 4 THEN Fail ELSE Ok(<<b[1] * 256 + b[2], b[3] * 256 + b[4]>>, Drop(b, 4))
DecU64(b) == IF Len(b) < 8 THEN Fail
             ELSE Ok(<<b[1] * 256 + b[2], b[3] * 256 + b[4], b[5] * 256 + b[6], b[7] * 256 + b[8]>>, Drop(b, 8))
DecByte(b) == IF Len(b) < 1 THEN Fail ELSE Ok(b[1], Drop(b, 1))
DecBool(b) == IF Len(b) < 1 THEN Fail ELSE Ok(b[1] # 0, Drop(b, 1))
DecArray(b, n) == IF Len(b) < n THEN Fail ELSE Ok(Take(b, n), Drop(b, n))
\* a length >= 2^31 (first octet >= 128) exceeds any input considered here
DecString(b) ==
  IF Len(b) < 4 \/ b[1] >= 128 THEN Fail
  ELSE LET n == b[1] * 16777216 + b[2] * 65536 + b[3] * 256 + b[4] IN
       IF Len(b) - 4 < n THEN Fail ELSE Ok(SubSeq(b, 5, 4 + n), Drop(b, 4 + n))
\* split at commas (bytes.Split).  Not recursive over the bytes: TLC's recursion is quadratic in the depth.
Split(s) == LET P == {i \in 1..Len(s) : s[i] = Comma}
                n == Cardinality(P)
                Pos(j) == IF j = 0 THEN 0 ELSE IF j = n + 1 THEN Len(s) + 1
                          ELSE CHOOSE p \in P : Cardinality({q \in P : q < p}) = j - 1
            IN [j \in 1..(n + 1) |-> SubSeq(s, Pos(j - 1) + 1, Pos(j) - 1)]
DecNameList(b) == LET r == DecString(b) IN
                  IF ~r.ok THEN Fail
                  ELSE IF r.v = <<>> THEN Ok(<<>>, r.rest)
                  ELSE Ok(Split(r.v), r.rest)
\* parseInt accepts any two's-complement string (it does not insist on minimality)
DecMpint(b) == LET r == DecString(b) IN IF ~r.ok THEN Fail ELSE Ok(TwosVal(r.v), r.rest)

IsName(n) == n # <<>> /\ \A i \in 1..Len(n) : n[i] # Comma

\* RFC 4251 section 5 examples
ASSUME EncMpint(BigZero) = <<0, 0, 0, 0>>
ASSUME EncMpint(BigInt(FALSE, <<128>>)) = <<0, 0, 0, 2, 0, 128>>
ASSUME EncMpint(BigInt(TRUE, <<18, 52>>)) = <<0, 0, 0, 2, 237, 204>>
ASSUME EncMpint(BigInt(TRUE, <<222, 173, 190, 239>>)) = <<0, 0, 0, 5, 255, 33, 82, 65, 17>>
ASSUME EncNameList(<<>>) = <<0, 0, 0, 0>>
ASSUME EncNameList(<< <<122, 108, 105, 98>> >>) = <<0, 0, 0, 4, 122, 108, 105, 98>>             \* ("zlib")
ASSUME EncNameList(<< <<122, 108, 105, 98>>, <<110, 111, 110, 101>> >>)
         = <<0, 0, 0, 9, 122, 108, 105, 98, 44, 110, 111, 110, 101>>                            \* ("zlib,none")
ASSUME EncU32(<<10679, 62634>>) = <<41, 183, 244, 170>>                                          \* 699921578 = 0x29b7f4aa
=============================================================================
