SPECIFICATION Spec
CONSTANTS
  Kinds = {"shake", "fixed"}
  WSet = {0, 1, 2, 3, 4}
  RSet = {0, 1, 2, 3, 4}
  MaxLen = 4
  MaxOut = 4
  MaxObjs = 2
  ShakeResetAfterRead = FALSE
  Rate = 3
  OutLen = 2
  Prefixes = {0, 3}
INVARIANTS AbsInv OutIsDefinition BookInv FlagMatchesDir SumPanicsOnlyAfterRead
PROPERTIES Refines AbsSumPure AbsIndependent AbsCloneEqual AbsReadContiguous AbsSqueezingIsFinal
CHECK_DEADLOCK FALSE
