SPECIFICATION Spec
CONSTANTS
  KeyBytes = 72
  Templates <- TemplatesQ
  Repl <- ReplQ
  Pos2 = {}
  Repl2 = {}
INVARIANTS GrammarAccepted NeverAcceptsWrongKey Total CostIgnoresTail OnlyOwnHash EmitB
CHECK_DEADLOCK FALSE
