SPECIFICATION Spec
CONSTANTS
  Menus <- MenusGenQ
  FixSign = TRUE
INVARIANTS Emit
CHECK_DEADLOCK FALSE
