-------------------------- MODULE SSHAuthClient_Gen --------------------------
(* Behaviour generator for binding R: SSHAuthClient_MC plus two history variables, hist = the
   events of the run, script = the items the server chose; every completed run is printed with
   the monitor's verdict. *)
EXTENDS SSHAuthClient_MC

\* ---- generator (binding R)
VARIABLES hist, script
gvars == <<vars, hist, script>>
GenInit == Init /\ hist = <<>> /\ script = <<>>
\* only the fields that matter for the kind of event (the harness supplies the defaults of E0)
Compact(e) == CASE e.ev = "w" -> [ev |-> "w", k |-> e.k, m |-> e.m, sig |-> e.sig, sigok |-> e.sigok, key |-> e.key, fmt |-> e.fmt, algo |-> e.algo]
                [] e.ev = "r" -> [ev |-> "r", t |-> e.t, methods |-> e.methods, partial |-> e.partial, key |-> e.key, algo |-> e.algo, algs |-> e.algs, n |-> e.n]
                [] e.ev = "done" -> [ev |-> "done", res |-> e.res]
                [] OTHER -> [ev |-> e.ev, i |-> e.i, inner |-> e.inner, m |-> e.m, res |-> e.res, err |-> e.err]
GenNext == /\ Next
           /\ hist' = Append(hist, Compact(last'))
           /\ script' = IF chosen'.name # "-" THEN Append(script, chosen') ELSE script
GenSpec == GenInit /\ [][GenNext]_gvars
\* one witness behaviour per distinct (model state, last event, item chosen); for the focus group also per
\* distinct history of method lists received (a change that adds hidden state -- e.g. keeps using an older
\* list -- is only exposed by reaching the same model state through different pasts)
ListHist == LET F == SelectSeq(hist, LAMBDA e : e.ev = "r" /\ e.t = "failure") IN [i \in 1..Len(F) |-> F[i].methods]
GenView == IF cn \in FocusNames THEN <<vars, ListHist>> ELSE <<vars, <<>>>>
EmitCase == (Done /\ srv.name = "") => PrintT("TRACE " \o ToJson([cfg |-> cn, auth |-> Auth, script |-> script, events |-> hist,
                                                   bad |-> o.bad, res |-> c.res]))
EmitGrid == (Done /\ srv.name # "") => PrintT("TRACE " \o ToJson([cfg |-> cn, auth |-> Auth, srv |-> srv.name, server |-> SrvCfg, events |-> hist,
                                                   bad |-> o.bad, res |-> c.res, sufficient |-> Sufficient, necessary |-> Necessary]))
=============================================================================
