SPECIFICATION GenSpec
CONSTANTS
  MaxPeer = 4
  MaxLocal = 4
  MaxObj = 3
  Configs <- HoldConfigs
  Lite = TRUE
  Hold = TRUE
  DrainAll = TRUE
  RejectChecksSlot = TRUE
VIEW AbsView
CHECK_DEADLOCK FALSE
