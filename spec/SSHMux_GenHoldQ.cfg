SPECIFICATION GenSpec
CONSTANTS
  MaxPeer = 3
  MaxLocal = 3
  MaxObj = 3
  Configs <- HoldConfigs
  Lite = TRUE
  Hold = TRUE
  Burst = FALSE
  DecidedInLoop = TRUE
  DrainAll = TRUE
  RejectChecksSlot = TRUE
VIEW AbsView
CHECK_DEADLOCK FALSE
