------------------------------- MODULE Builder -------------------------------
(* golang.org/x/crypto/cryptobyte: Builder (builder.go, AddASN1 in asn1.go) and the
   mirrored String readers (string.go, readASN1 in asn1.go).                 [property C22]

   A *program* is a sequence of Builder calls.  In the Go API a child builder lives inside a
   callback, so a program is a callback tree; here it is the flattened sequence with explicit
   "open" / "close" (= the callback returns).  One action per public call:

     u(w)      AddUint8/16/24/32/48/64          w in {1,2,3,4,6,8} bytes
     b(n)      AddBytes of n bytes              n absolute, or chosen so that the content of
                                                the innermost open frame reaches a boundary
                                                class ("fill to target")
     open(k)   AddUint8/16/24/32LengthPrefixed, AddASN1(tag)   k in u8,u16,u24,u32,asn1,
               asn1bad (= high-tag-number identifier, documented as an error)
     close     the continuation returns: flushChild patches the length prefix
     unw(..)   Unwrite(n)
     vok/verr  AddValue with a MarshalingValue that writes one byte and returns nil / an error
     seterr    SetError
     be        the continuation panics with a BuildError (documented: becomes Bytes' error)
     pw        misuse through a stored reference: write to the parent while its child is
               pending (documented panic)

   State: the output as a sequence of tokens (the bytes of a u/b/v write, an ASN.1 tag, a length
   prefix, an end-of-child marker) -- byte *contents* of data tokens are abstract, only their
   lengths matter; prefix and tag bytes are concrete.  Sizes are plain integers < 2^31.
   The stack holds the open frames (kind, index of the prefix token).  err is sticky exactly as
   Builder.err is (set in the innermost builder, handed to the parent by flushChild).

   close patches the prefix (flushChild):
     fixed width w:  big-endian content length; error iff length >= 256^w
     ASN.1:          short form (< 128) or 0x81..0x84 long form, in which case the content is
                     moved right by the extra bytes, so enclosing frames see the grown child
                     (and a fixed-size builder needs the extra capacity).

   cap = -1 models NewBuilder (grows as needed); cap >= 0 models NewFixedBuilder(make([]byte,0,cap)):
   "Writes that would exceed the buffer's capacity are treated as an error."

   The mirrored reader (Rd) walks the same token structure with the String primitives
   (ReadUintN / ReadBytes / ReadUintNLengthPrefixed / ReadASN1) over the *byte layout*: it looks
   at the bytes found at absolute positions, decodes the prefixes with the reader's own rules
   (DER: minimal long form, at most 4 length octets) and checks that every child is consumed
   exactly. *)
EXTENDS Integers, Sequences, FiniteSets, TLC

CONSTANTS Profiles       \* set of bounded program alphabets; every behaviour picks one (so that one TLC run
                         \* covers several bounds).  A profile is a record:
                         \*   U     subset of {1,2,3,4,6,8}: AddUintN widths
                         \*   A     absolute AddBytes sizes
                         \*   F     AddBytes sizes chosen so that the current frame's content reaches one of these
                         \*   K     subset of {"u8","u16","u24","u32","asn1","asn1bad"}
                         \*   W     subset of {"0","1","all","more"}: Unwrite arguments
                         \*   M     subset of {"vok","verr","seterr","be","pw"}
                         \*   caps  set of capacities, -1 = growable
                         \*   maxOps   after maxOps calls only "close" is possible (every program ends balanced)
                         \*   maxDepth nesting bound
                         \*   maxLen   bound on the output length (what the harness can materialise)

VARIABLES pf,            \* the profile of this behaviour (constant along it)
          ops,           \* the program so far: sequence of [o |-> name, a |-> int, k |-> string]
          st,            \* builder state (record, see Init)
          cap            \* capacity of this run (constant along a behaviour)
UWidths == pf.U
AbsSizes == pf.A
FillTargets == pf.F
OpenKinds == pf.K
UnwKinds == pf.W
Misc == pf.M
MaxOps == pf.maxOps
MaxDepth == pf.maxDepth
MaxLen == pf.maxLen
vars == <<pf, ops, st, cap>>

-----------------------------------------------------------------------------
Max(a, b) == IF a >= b THEN a ELSE b
Last(s) == s[Len(s)]
Front(s) == SubSeq(s, 1, Len(s) - 1)

\* tokens: t in {"lit","fill","tag","pfx","end"}; n = current byte length; id = index of the
\* op that wrote it; k = frame kind (pfx) ; v = content length of a closed frame / tag byte; -1 unset
Tok(t, n, id, k, v) == [t |-> t, n |-> n, id |-> id, k |-> k, v |-> v]
TagByte == 48            \* 0x30 SEQUENCE|constructed; the harness uses the same

RECURSIVE SumN(_, _, _)
SumN(s, from, to) == IF from > to THEN 0 ELSE s[from].n + SumN(s, from + 1, to)

PrefixWidth(k) == CASE k = "u8" -> 1 [] k = "u16" -> 2 [] k = "u24" -> 3 [] k = "u32" -> 4 [] OTHER -> 1
\* content lengths that do not fit: 256^w (2^32 is beyond anything representable here)
Overflows(k, L) == CASE k = "u8" -> L >= 256 [] k = "u16" -> L >= 65536 [] k = "u24" -> L >= 16777216 [] OTHER -> FALSE

\* big-endian bytes of L in exactly w octets (w <= 4, L < 2^31)
Byte(L, i) == CASE i = 0 -> L % 256 [] i = 1 -> (L \div 256) % 256 [] i = 2 -> (L \div 65536) % 256 [] OTHER -> (L \div 16777216) % 256
BE(L, w) == [j \in 1..w |-> Byte(L, w - j)]
\* X.690 8.1.3 / 10.1: DER definite length
Asn1LenLen(L) == IF L < 128 THEN 1 ELSE IF L < 256 THEN 2 ELSE IF L < 65536 THEN 3 ELSE IF L < 16777216 THEN 4 ELSE 5
Asn1Len(L) == IF L < 128 THEN <<L>> ELSE <<128 + (Asn1LenLen(L) - 1)>> \o BE(L, Asn1LenLen(L) - 1)

PfxBytes(tk) == IF tk.k = "asn1" THEN Asn1Len(tk.v) ELSE BE(tk.v, PrefixWidth(tk.k))

-----------------------------------------------------------------------------
(* the writer *)
Live(s) == s.dead = 0 /\ s.pan = "" /\ ~s.skip
Depth(s) == Len(s.stack) + s.dead
Base(s) == IF s.stack = <<>> THEN 0 ELSE Last(s.stack).i           \* tokens after Base belong to the current frame
Content(s) == SumN(s.toks, Base(s) + 1, Len(s.toks))                \* = len(result) - pendingLenLen - offset
RECURSIVE DirectFrom(_, _, _)
DirectFrom(tk, i, base) == IF i <= base \/ tk[i].t \notin {"lit", "fill"} THEN 0 ELSE tk[i].n + DirectFrom(tk, i - 1, base)
Direct(s) == DirectFrom(s.toks, Len(s.toks), Base(s))               \* bytes written directly at the tail of the current frame

\* Builder.add
Write(s, tk, kind) ==
  IF s.err # "" THEN s
  ELSE IF cap # -1 /\ s.len + tk.n > cap THEN [s EXCEPT !.err = "capacity", !.errAt = kind]
  ELSE [s EXCEPT !.toks = Append(@, tk), !.len = @ + tk.n,
                 !.peak = Max(@, s.len + tk.n),
                 !.peakKind = IF s.len + tk.n > s.peak THEN kind ELSE @]

RECURSIVE Trunc(_, _)
Trunc(tk, n) == IF n = 0 THEN tk
                ELSE IF Last(tk).n <= n THEN Trunc(Front(tk), n - Last(tk).n)
                ELSE [tk EXCEPT ![Len(tk)].n = @ - n]

\* what a call does when the continuation it sits in is not running (frame opened after an
\* error: addLengthPrefixed returns before calling f; or the stack is being unwound by a BuildError)
Ignored(s, o) == CASE o = "open" -> [s EXCEPT !.dead = @ + 1]
                   [] o = "close" /\ s.dead > 0 -> [s EXCEPT !.dead = @ - 1]
                   [] OTHER -> s

DoU(s, w, id)  == Write(s, Tok("lit", w, id, "", -1), "write")
DoB(s, n, id)  == Write(s, Tok("fill", n, id, "", -1), "write")
DoVok(s, id)   == Write(s, Tok("lit", 1, id, "", -1), "write")
DoVerr(s, id)  == [Write(s, Tok("lit", 1, id, "", -1), "write") EXCEPT !.err = IF @ = "" THEN "valueerr" ELSE @]
DoSetErr(s)    == [s EXCEPT !.err = IF @ = "" THEN "seterror" ELSE @]

\* addLengthPrefixed / AddASN1
DoOpen(s, k, id) ==
  IF s.err # "" THEN [s EXCEPT !.dead = 1]
  ELSE IF k = "asn1bad" THEN [s EXCEPT !.err = "badtag", !.dead = 1]
  ELSE LET s1 == IF k = "asn1" THEN Write(s, Tok("tag", 1, id, "", TagByte), "write") ELSE s IN
       IF s1.err # "" THEN [s1 EXCEPT !.dead = 1]
       ELSE LET s2 == Write(s1, Tok("pfx", PrefixWidth(k), id, k, -1), "open") IN
            IF s2.err # "" THEN [s2 EXCEPT !.dead = 1]    \* fixed buffer exhausted by the placeholder: an error, child not built
            ELSE [s2 EXCEPT !.stack = Append(@, [k |-> k, i |-> Len(s2.toks)])]

\* the continuation returns: flushChild
DoClose(s) ==
  LET f == Last(s.stack)
      L == Content(s)
      p == [s EXCEPT !.stack = Front(@), !.toks = Append(@, Tok("end", 0, 0, f.k, -1)),
                     !.skip = IF Len(s.stack) = 1 THEN FALSE ELSE @]
  IN IF s.err # "" /\ ~(s.skip /\ s.err = "builderror") THEN p          \* child.err handed to the parent
     ELSE IF f.k = "asn1" THEN
          LET extra == Asn1LenLen(L) - 1 IN
          IF cap # -1 /\ s.len + extra > cap
          THEN [p EXCEPT !.err = IF @ = "" THEN "capacity" ELSE @, !.errAt = IF s.err = "" THEN "promote" ELSE @]
          ELSE [p EXCEPT !.toks[f.i].n = 1 + extra, !.toks[f.i].v = L, !.len = @ + extra,
                         !.peak = Max(@, s.len + extra),
                         !.peakKind = IF s.len + extra > s.peak THEN "promote" ELSE @]
     ELSE IF Overflows(f.k, L) THEN [p EXCEPT !.err = IF @ = "" THEN "overflow" ELSE @, !.ovf = TRUE]
     ELSE [p EXCEPT !.toks[f.i].v = L]

UnwN(s, u) == CASE u = "0" -> 0 [] u = "1" -> 1 [] u = "all" -> Direct(s) [] OTHER -> Content(s) + 1
DoUnw(s, n) ==
  IF s.err # "" THEN s
  ELSE IF n > Content(s) THEN [s EXCEPT !.pan = "unwrite"]
  ELSE [s EXCEPT !.toks = Trunc(@, n), !.len = @ - n]

\* panic(BuildError{..}) inside a continuation: recovered by the outermost callContinuation, which sets
\* err on the outermost builder; the pending children are still flushed on the way out.
DoBE(s)  == [s EXCEPT !.err = "builderror", !.skip = TRUE]
DoPW(s)  == [s EXCEPT !.pan = "write-while-child"]

-----------------------------------------------------------------------------
Op(o, a, k) == [o |-> o, a |-> a, k |-> k]
Id == Len(ops) + 1

Init == /\ pf \in Profiles
        /\ ops = <<>>
        /\ cap \in pf.caps
        /\ st = [toks |-> <<>>, stack |-> <<>>, dead |-> 0, skip |-> FALSE, err |-> "", errAt |-> "", pan |-> "",
                 len |-> 0, peak |-> 0, peakKind |-> "", ovf |-> FALSE]

Running == st.pan = "" /\ Len(ops) < MaxOps
Do(op, new) == ops' = Append(ops, op) /\ st' = new /\ UNCHANGED <<pf, cap>>

AddUint == \E w \in UWidths : Running /\ Do(Op("u", w, ""), IF Live(st) THEN DoU(st, w, Id) ELSE st)
AddBytesAbs == \E n \in AbsSizes : Running /\ st.len + n <= MaxLen
                  /\ Do(Op("b", n, ""), IF Live(st) THEN DoB(st, n, Id) ELSE st)
AddBytesFill == \E t \in FillTargets : Running /\ Live(st) /\ st.err = ""
                  /\ t > Content(st) /\ st.len + (t - Content(st)) <= MaxLen
                  /\ Do(Op("b", t - Content(st), ""), DoB(st, t - Content(st), Id))
OpenChild == \E k \in OpenKinds : Running /\ Depth(st) < MaxDepth
                  /\ Do(Op("open", 0, k), IF Live(st) THEN DoOpen(st, k, Id) ELSE Ignored(st, "open"))
CloseChild == /\ st.pan = "" /\ Depth(st) > 0
              /\ Do(Op("close", 0, ""), IF st.dead > 0 THEN Ignored(st, "close") ELSE DoClose(st))
Unwrite == \E u \in UnwKinds : Running /\ Live(st)
                  /\ (u = "1" => Direct(st) >= 1) /\ (u = "all" => Direct(st) >= 2)
                  /\ Do(Op("unw", UnwN(st, u), u), DoUnw(st, UnwN(st, u)))
AddValueOk  == "vok" \in Misc /\ Running /\ Do(Op("vok", 0, ""), IF Live(st) THEN DoVok(st, Id) ELSE st)
AddValueErr == "verr" \in Misc /\ Running /\ Do(Op("verr", 0, ""), IF Live(st) THEN DoVerr(st, Id) ELSE st)
SetError    == "seterr" \in Misc /\ Running /\ Do(Op("seterr", 0, ""), IF Live(st) THEN DoSetErr(st) ELSE st)
BuildErr    == "be" \in Misc /\ Running /\ Live(st) /\ st.stack # <<>> /\ Do(Op("be", 0, ""), DoBE(st))
ParentWrite == "pw" \in Misc /\ Running /\ Live(st) /\ st.stack # <<>> /\ Do(Op("pw", 0, ""), DoPW(st))

Next == AddUint \/ AddBytesAbs \/ AddBytesFill \/ OpenChild \/ CloseChild \/ Unwrite
        \/ AddValueOk \/ AddValueErr \/ SetError \/ BuildErr \/ ParentWrite
Spec == Init /\ [][Next]_vars

-----------------------------------------------------------------------------
(* the mirrored reader, over the byte layout *)
Balanced == st.stack = <<>> /\ st.dead = 0 /\ st.pan = ""
Total == st.len

\* byte found at absolute position pos (0-based): concrete for tags and closed prefixes, -1 for data
RECURSIVE ByteAtFrom(_, _, _)
ByteAtFrom(tk, i, pos) ==
  IF i > Len(tk) THEN -2
  ELSE IF pos < tk[i].n THEN (CASE tk[i].t = "tag" -> tk[i].v
                                [] tk[i].t = "pfx" -> PfxBytes(tk[i])[pos + 1]
                                [] OTHER -> -1)
  ELSE ByteAtFrom(tk, i + 1, pos - tk[i].n)
ByteAt(pos) == ByteAtFrom(st.toks, 1, pos)
Concrete(pos, w) == \A j \in 0..(w - 1) : ByteAt(pos + j) >= 0
Dec(pos, w) == CASE w = 1 -> ByteAt(pos)
                 [] w = 2 -> ByteAt(pos) * 256 + ByteAt(pos + 1)
                 [] w = 3 -> ByteAt(pos) * 65536 + ByteAt(pos + 1) * 256 + ByteAt(pos + 2)
                 [] OTHER -> ByteAt(pos) * 16777216 + ByteAt(pos + 1) * 65536 + ByteAt(pos + 2) * 256 + ByteAt(pos + 3)

NoHdr == [ok |-> FALSE, w |-> 0, len |-> 0]
\* String.readLengthPrefixed (u32: ReadUint32 then ReadBytes)
RdFixed(pos, lim, w) ==
  IF pos + w > lim \/ ~Concrete(pos, w) \/ (w = 4 /\ ByteAt(pos) >= 128) THEN NoHdr
  ELSE [ok |-> TRUE, w |-> w, len |-> Dec(pos, w)]
\* String.readASN1 after the identifier octet (which the "tag" token accounts for)
RdAsn1Len(pos, lim) ==
  IF pos + 1 > lim \/ ~Concrete(pos, 1) THEN NoHdr
  ELSE LET b0 == ByteAt(pos) IN
       IF b0 < 128 THEN [ok |-> TRUE, w |-> 1, len |-> b0]
       ELSE LET ll == b0 - 128 IN
            IF ll = 0 \/ ll > 4 \/ pos + 1 + ll > lim \/ ~Concrete(pos + 1, ll) THEN NoHdr
            ELSE IF ll = 4 /\ ByteAt(pos + 1) >= 128 THEN NoHdr
            ELSE LET v == Dec(pos + 1, ll) IN
                 IF v < 128 \/ ByteAt(pos + 1) = 0 THEN NoHdr        \* DER: minimal length octets
                 ELSE [ok |-> TRUE, w |-> 1 + ll, len |-> v]

RECURSIVE Rd(_, _, _)
Rd(i, pos, lims) ==
  IF i > Len(st.toks) THEN Len(lims) = 1 /\ pos = lims[1]                \* nothing left over
  ELSE LET tk == st.toks[i]
           lim == Last(lims) IN
    CASE tk.t \in {"lit", "fill"} -> pos + tk.n <= lim /\ Rd(i + 1, pos + tk.n, lims)
      [] tk.t = "tag" -> /\ pos + 2 <= lim /\ ByteAt(pos) = tk.v /\ tk.v % 32 # 31
                         /\ Rd(i + 1, pos + 1, lims)
      [] tk.t = "pfx" -> LET h == IF tk.k = "asn1" THEN RdAsn1Len(pos, lim) ELSE RdFixed(pos, lim, PrefixWidth(tk.k)) IN
                         /\ h.ok /\ pos + h.w + h.len <= lim
                         /\ Rd(i + 1, pos + h.w, Append(lims, pos + h.w + h.len))
      [] OTHER -> pos = lim /\ Len(lims) > 1 /\ Rd(i + 1, pos, Front(lims))     \* "end": child.Empty()

-----------------------------------------------------------------------------
(* properties *)
HasOp(names) == \E i \in 1..Len(ops) : ops[i].o \in names \/ (ops[i].o = "open" /\ ops[i].k \in names)

\* (i) Bytes() returns an error exactly when a prefix overflowed, the error was set (SetError, AddValue
\*     error, BuildError, unsupported tag) or -- fixed builders -- the capacity was exceeded
ErrIff == Balanced => ((st.err # "") <=> (st.ovf \/ HasOp({"verr", "seterr", "be", "asn1bad"}) \/ st.errAt # ""))
CapErrOnlyFixed == st.errAt # "" => cap # -1
\* no error => every closed prefix holds a length that fits its width
FitsAll == (Balanced /\ st.err = "") =>
              \A i \in 1..Len(st.toks) : st.toks[i].t = "pfx" => (st.toks[i].v >= 0 /\ ~Overflows(st.toks[i].k, st.toks[i].v)
                                                                   /\ st.toks[i].n = Len(PfxBytes(st.toks[i])))
\* (ii) the emitted bytes parse back under the mirrored reads with nothing left over
ParseBack == (Balanced /\ st.err = "") => Rd(1, 0, <<Total>>)
\* (iii) a fixed-size builder never exceeds its capacity (so it never needs to reallocate), and a
\*       capacity at least the peak need never produces a capacity error
CapRespected == cap # -1 => (st.len <= cap /\ st.peak <= cap)
LenIsSum == st.len = SumN(st.toks, 1, Len(st.toks)) /\ st.peak >= st.len
PanicOnlyMisuse == st.pan # "" => (Last(ops).o \in {"pw", "unw"})
=============================================================================
