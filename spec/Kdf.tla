-------------------------------- MODULE Kdf --------------------------------
(***************************************************************************)
(* C18 - executable definitions of HKDF (RFC 5869) and PBKDF2 (RFC 8018    *)
(* section 5.2) over the toy hash of PrimToy.tla (PRF = ToyHMAC), so that  *)
(* TLC evaluates the exact bytes the CONSTRUCTION must produce.  Models    *)
(* /repo/hkdf/hkdf.go (Extract, Expand, New) and /repo/pbkdf2/pbkdf2.go    *)
(* (Key) run with the Go twin of the toy hash.                             *)
(*                                                                         *)
(*  HKDF-Extract(salt, IKM) = HMAC(salt, IKM); an absent salt is HashLen   *)
(*     zero octets.                                                        *)
(*  HKDF-Expand: T(0) = empty, T(i) = HMAC(PRK, T(i-1) | info | i),        *)
(*     i = 1..255 a single octet;  OKM = T(1) | T(2) | ...                 *)
(*  PBKDF2: T_i = U_1 xor ... xor U_c, U_1 = PRF(P, S | INT(i)),           *)
(*     U_j = PRF(P, U_(j-1)), INT(i) four octets big-endian, i from 1;     *)
(*     DK = first dkLen octets of T_1 | T_2 | ...                          *)
(***************************************************************************)
EXTENDS PrimToy

HkdfExtract(h, salt, ikm) == ToyHMAC(h, IF Len(salt) = 0 THEN Zeros(h) ELSE salt, ikm)

\* the output stream T(i) | ... | T(n) appended to acc, given T(i-1) = prevT
\* (operator arguments, not LET, so that TLC evaluates each T(i) once)
RECURSIVE HkdfAcc(_, _, _, _, _, _, _)
HkdfStep(h, prk, info, i, n, t, acc) == HkdfAcc(h, prk, info, i + 1, n, t, acc \o t)
HkdfAcc(h, prk, info, i, n, prevT, acc) ==
  IF i > n THEN acc
  ELSE HkdfStep(h, prk, info, i, n, ToyHMAC(h, prk, prevT \o info \o <<i>>), acc)

RECURSIVE KFlatten(_, _)
KFlatten(ss, i) == IF i > Len(ss) THEN <<>> ELSE ss[i] \o KFlatten(ss, i + 1)

\* the whole output stream of n blocks (n <= 255; the block index is a single octet)
HkdfStream(h, prk, info, n) == Force(HkdfAcc(h, prk, info, 1, n, <<>>, <<>>))

\* ---- PBKDF2
INT4(i) == <<(i \div 16777216) % 256, (i \div 65536) % 256, (i \div 256) % 256, i % 256>>
RECURSIVE PbU(_, _, _, _, _)
\* xor of U_j .. U_c given U_(j-1) = u
PbStep(h, pw, uj, j, c) == XorBytes(uj, PbU(h, pw, uj, j + 1, c))
PbU(h, pw, u, j, c) == IF j > c THEN Zeros(h) ELSE PbStep(h, pw, ToyHMAC(h, pw, u), j, c)
PbF(h, pw, salt, c, i) == PbU(h, pw, salt \o INT4(i), 1, c)
Pbkdf2(h, pw, salt, c, dkLen) ==
  LET l == (dkLen + h - 1) \div h IN
  SubSeq(KFlatten([i \in 1..l |-> PbF(h, pw, salt, c, i)], 1), 1, dkLen)
=============================================================================
