----------------------------- MODULE SalsaStream -----------------------------
(***************************************************************************)
(* C09 - the block/counter bookkeeping of the two implementations of       *)
(* salsa.XORKeyStream, as state machines, and their refinement of the      *)
(* definition (Salsa20 specification, section 10):                         *)
(*                                                                         *)
(*   output byte i of a call with start counter c0 is                      *)
(*      in[i] xor Salsa20_k(nonce, (c0 + i div 64) mod 2^64)[i mod 64]     *)
(*                                                                         *)
(* Keystream bytes are abstract here: a pair <<block counter, offset>>     *)
(* (the bytes themselves are PrimSalsa's business).  What this module      *)
(* decides is which counter each output byte is produced with:             *)
(*                                                                         *)
(*  impl = "gen": genericXORKeyStream of /repo/salsa20/salsa/salsa20_ref.go *)
(*     - the counter lives in bytes 8..15 of a copy of the counter block   *)
(*       and is incremented by the byte-wise ripple loop                   *)
(*         u := 1; for i in 8..15 { u += ctr[i]; ctr[i] = byte(u); u >>= 8 }*)
(*       once per full block; a final partial block uses the counter       *)
(*       without incrementing it.                                          *)
(*  impl = "asm": salsa2020XORKeyStream of salsa20_amd64.s                 *)
(*     - the counter is two 32-bit words (stack slots 16(R12), 36(R12));   *)
(*       while at least 256 bytes remain (label BYTESATLEAST256) four      *)
(*       counters v, v+1, v+2, v+3 are formed in a 64-bit register         *)
(*       (v = hi<<32 + lo, ADDQ $1, split by SHRQ $32) and v+4 is stored   *)
(*       back; then (BYTESBETWEEN1AND255) single blocks, each followed by  *)
(*       lo+1 + hi<<32 split back into the two words; a final partial      *)
(*       block is processed in a stack buffer and only the remaining       *)
(*       bytes are copied out.                                             *)
(*                                                                         *)
(* Constants are scaled (explicit map): BS bytes per block (real 64),      *)
(* Wide blocks per wide iteration (real 4), the counter is ND digits in    *)
(* base DB (real: 8 digits base 256) and the assembly's two halves hold    *)
(* ND/2 digits each (real 2^32).  The carry chain and the wrap at DB^ND    *)
(* have the same shape at every scale.                                     *)
(***************************************************************************)
EXTENDS Integers, Sequences

CONSTANTS BS, Wide, DB, ND, MaxLen, Impls,
          NoCarry    \* FALSE = the code as it is; TRUE = a deliberately wrong assembly that increments only the low word
                     \* (used once, to show that the properties below are able to fail)

RECURSIVE Pow(_, _)
Pow(b, e) == IF e = 0 THEN 1 ELSE b * Pow(b, e - 1)
M == Pow(DB, ND)            \* counter modulus (real 2^64)
H == Pow(DB, ND \div 2)     \* one assembly half (real 2^32)

VARIABLES impl,    \* which implementation runs
          c0, n,   \* the call: start counter (natural < M), input length
          ctr,     \* "gen": sequence of ND digits (little-endian);  "asm": <<lo, hi>>
          rem,     \* bytes still to process
          out,     \* produced so far: sequence of <<counter value, offset in block>>
          pc
vars == <<impl, c0, n, ctr, rem, out, pc>>

\* ---- the definition
AbstractOut(c, len) == [i \in 1..len |-> <<(c + (i - 1) \div BS) % M, (i - 1) % BS>>]

\* ---- helpers
RECURSIVE Digits(_, _)
Digits(v, k) == IF k = 0 THEN <<>> ELSE <<v % DB>> \o Digits(v \div DB, k - 1)
RECURSIVE Val(_)
Val(d) == IF Len(d) = 0 THEN 0 ELSE d[1] + DB * Val(Tail(d))
BlockBytes(cv, k) == [i \in 1..k |-> <<cv, i - 1>>]
Min(a, b) == IF a < b THEN a ELSE b

\* the ripple loop of genericXORKeyStream, digit by digit: u is the running carry (starts at 1)
RECURSIVE Ripple(_, _, _)
Ripple(d, i, u) == IF i > Len(d) THEN d          \* the carry out of the last byte is dropped: wrap
                   ELSE LET t == u + d[i] IN Ripple([d EXCEPT ![i] = t % DB], i + 1, t \div DB)

Init == /\ impl \in Impls
        /\ c0 \in 0..(M - 1)
        /\ n \in 0..MaxLen
        /\ ctr = IF impl = "gen" THEN Digits(c0, ND) ELSE <<c0 % H, c0 \div H>>
        /\ rem = n
        /\ out = <<>>
        /\ pc = "start"

\* ------------------------------------------------------------ genericXORKeyStream
GenStart == /\ impl = "gen" /\ pc = "start"
            /\ pc' = IF rem >= BS THEN "full" ELSE IF rem > 0 THEN "tail" ELSE "done"
            /\ UNCHANGED <<impl, c0, n, ctr, rem, out>>
\* for len(in) >= 64 { core; xor 64 bytes; increment }
GenFull == /\ impl = "gen" /\ pc = "full"
           /\ out' = out \o BlockBytes(Val(ctr), BS)
           /\ ctr' = Ripple(ctr, 1, 1)
           /\ rem' = rem - BS
           /\ pc' = IF rem' >= BS THEN "full" ELSE IF rem' > 0 THEN "tail" ELSE "done"
           /\ UNCHANGED <<impl, c0, n>>
\* if len(in) > 0 { core; xor the remaining bytes }
GenTail == /\ impl = "gen" /\ pc = "tail"
           /\ out' = out \o BlockBytes(Val(ctr), rem)
           /\ rem' = 0
           /\ pc' = "done"
           /\ UNCHANGED <<impl, c0, n, ctr>>

\* ------------------------------------------------------------ salsa2020XORKeyStream (amd64)
Reg(lo, hi) == (hi * H + lo) % M            \* SHLQ $32 hi; ADDQ: a 64-bit register
Split(v) == <<v % H, (v \div H) % H>>       \* MOVL v -> lo slot; SHRQ $32; MOVL -> hi slot

AsmStart == /\ impl = "asm" /\ pc = "start"
            /\ pc' = IF rem = 0 THEN "done" ELSE IF rem < Wide * BS THEN "narrow" ELSE "wide"
            /\ UNCHANGED <<impl, c0, n, ctr, rem, out>>
\* BYTESATLEAST256: Wide blocks with counters v .. v+Wide-1 (each ADDQ $1 wraps in the register), v+Wide stored back
RECURSIVE WideBytes(_, _)
WideBytes(v, k) == IF k = 0 THEN <<>> ELSE BlockBytes(v, BS) \o WideBytes((v + 1) % M, k - 1)
AsmWide == /\ impl = "asm" /\ pc = "wide"
           /\ LET v == Reg(ctr[1], ctr[2]) IN
                /\ out' = out \o WideBytes(v, Wide)
                /\ ctr' = Split((v + Wide) % M)
           /\ rem' = rem - Wide * BS
           /\ pc' = IF rem' >= Wide * BS THEN "wide" ELSE IF rem' = 0 THEN "done" ELSE "narrow"
           /\ UNCHANGED <<impl, c0, n>>
\* BYTESBETWEEN1AND255: one block; fewer than BS bytes remaining go through the stack buffer and only `rem` bytes are copied out
AsmNarrow == /\ impl = "asm" /\ pc = "narrow"
             /\ out' = out \o BlockBytes(Reg(ctr[1], ctr[2]), Min(rem, BS))
             /\ ctr' = IF NoCarry THEN <<(ctr[1] + 1) % H, ctr[2]>>
                     ELSE Split((ctr[1] + 1 + ctr[2] * H) % M)     \* ADDQ $1 lo; SHLQ $32 hi; ADDQ; split
             /\ IF rem > BS THEN rem' = rem - BS /\ pc' = "narrow"       \* BYTESATLEAST65
                ELSE rem' = 0 /\ pc' = "done"
             /\ UNCHANGED <<impl, c0, n>>

Next == GenStart \/ GenFull \/ GenTail \/ AsmStart \/ AsmWide \/ AsmNarrow
Spec == Init /\ [][Next]_vars /\ WF_vars(Next)

\* ------------------------------------------------------------ properties
TypeOK == /\ rem \in 0..MaxLen
          /\ impl = "gen" => (Len(ctr) = ND /\ \A i \in 1..ND : ctr[i] \in 0..(DB - 1))
          /\ impl = "asm" => (ctr[1] \in 0..(H - 1) /\ ctr[2] \in 0..(H - 1))
\* what has been produced is always a prefix of the definition's output, and accounts for exactly n - rem bytes
PrefixOK == /\ Len(out) = n - rem
            /\ out = SubSeq(AbstractOut(c0, n), 1, Len(out))
\* the implementation's counter always denotes c0 + (number of whole blocks produced), mod 2^64
CounterOK == LET cv == IF impl = "gen" THEN Val(ctr) ELSE Reg(ctr[1], ctr[2]) IN
             pc # "done" => cv = (c0 + (n - rem) \div BS) % M
\* a finished call produced exactly the definition's output
DoneOK == pc = "done" => (rem = 0 /\ out = AbstractOut(c0, n))
Terminates == <>(pc = "done")
\* both implementations agree: implied by DoneOK for both (same AbstractOut); stated for the record
=============================================================================
