SPECIFICATION Spec
CONSTANTS
  Modes <- ModesB
  MaxPacket = 262144
  SeqMod = 16
  CtrBase = 256
  CtrLimbs = 8
  Sizes <- SizesReal
  StartSeqs <- Seq0
  StartCtrs <- Ctr0Real
  MaxPkts = 1
  MaxFaults = 0
  AttackOps <- NoOps
  Phased = TRUE
  PadRule = "code"
INVARIANTS EmitTable EmitFrame
CHECK_DEADLOCK FALSE
ACTION_CONSTRAINT NoClose
