------------------------------- MODULE PolyBuf -------------------------------
(***************************************************************************)
(* C04 - implementation-shaped specification of the Write/Sum buffering of *)
(* /repo/internal/poly1305 (macGeneric.Write/Sum in sum_generic.go and the *)
(* identical mac.Write/Sum in sum_asm.go that calls the assembly update):  *)
(*   buffer [16]byte, offset int; Write tops up a partial buffer, absorbs  *)
(*   it when full, absorbs whole multiples of 16 directly from p, buffers  *)
(*   the rest; Sum works on a copy of the state and absorbs                *)
(*   buffer[:offset] as the final short block.                             *)
(* update(msg) is modelled by what it is given: it consumes msg in 16-byte *)
(* blocks and treats a shorter remainder as the final block                *)
(* (updateGeneric: `if len(msg) >= TagSize {...} else {...}`).  Bytes are  *)
(* message positions, so a block is the sequence of positions absorbed.    *)
(* TLC checks the refinement PolyBuf => PolyMac: whatever the chunking,    *)
(* the blocks absorbed up to a Sum are exactly the definition's blocks.    *)
(***************************************************************************)
EXTENDS Integers, Sequences

CONSTANTS WSet, MaxLen
VARIABLES total,      \* ghost: bytes written so far (= PolyMac!written)
          offset,     \* h.offset
          buffer,     \* h.buffer: 16 slots holding message positions (-1: never written)
          absorbed,   \* blocks passed through update() into h.macState, in order
          finalized, last
ivars == <<total, offset, buffer, absorbed, finalized, last>>

Min(a, b) == IF a < b THEN a ELSE b

\* update(state, msg): absorb msg (a sequence of positions) block by block
RECURSIVE Update(_, _)
Update(abs, msg) == IF Len(msg) = 0 THEN abs
                    ELSE IF Len(msg) >= 16 THEN Update(Append(abs, SubSeq(msg, 1, 16)), SubSeq(msg, 17, Len(msg)))
                    ELSE Append(abs, msg)

\* copy(dst[at:], src) for the 16-slot buffer; returns the new buffer (count = Min(16 - at, Len(src)))
CopyInto(buf, at, src) == [i \in 1..16 |-> IF i > at /\ i <= at + Len(src) THEN src[i - at] ELSE buf[i]]

Init == /\ total = 0 /\ offset = 0 /\ buffer = [i \in 1..16 |-> -1] /\ absorbed = <<>>
        /\ finalized = FALSE /\ last = [op |-> "new", n |-> 0, blocks |-> <<>>]

Write(n) ==
  /\ ~finalized
  /\ total + n <= MaxLen
  /\ total' = total + n
  /\ UNCHANGED finalized
  /\ last' = [op |-> "write", n |-> n, blocks |-> <<>>]
  /\ LET p == [i \in 1..n |-> total + i - 1] IN
     IF offset > 0 /\ offset + Min(16 - offset, n) < 16 THEN
       \* n := copy(h.buffer[h.offset:], p); if h.offset+n < TagSize { h.offset += n; return }
       /\ buffer' = CopyInto(buffer, offset, p)
       /\ offset' = offset + n
       /\ UNCHANGED absorbed
     ELSE
       LET k    == IF offset > 0 THEN Min(16 - offset, n) ELSE 0
           buf1 == IF offset > 0 THEN CopyInto(buffer, offset, SubSeq(p, 1, k)) ELSE buffer
           abs1 == IF offset > 0 THEN Update(absorbed, buf1) ELSE absorbed       \* update(&h.macState, h.buffer[:])
           p1   == SubSeq(p, k + 1, n)
           nf   == Len(p1) - (Len(p1) % 16)
           abs2 == IF nf > 0 THEN Update(abs1, SubSeq(p1, 1, nf)) ELSE abs1        \* update(&h.macState, p[:n])
           p2   == SubSeq(p1, nf + 1, Len(p1))
       IN /\ absorbed' = abs2
          /\ buffer' = IF Len(p2) > 0 THEN CopyInto(buf1, 0, p2) ELSE buf1
          /\ offset' = Len(p2)                                                    \* h.offset was reset to 0 (or was 0)

Sum ==
  /\ finalized' = TRUE
  /\ UNCHANGED <<total, offset, buffer, absorbed>>                                \* state := h.macState (a copy)
  /\ last' = [op |-> "sum", n |-> total,
              blocks |-> IF offset > 0 THEN Update(absorbed, SubSeq(buffer, 1, offset)) ELSE absorbed]

Next == (\E n \in WSet : Write(n)) \/ Sum
Spec == Init /\ [][Next]_ivars

Abs == INSTANCE PolyMac WITH written <- total
Refines == Abs!Spec
AbsSumStable == Abs!SumStable

TypeOK == /\ offset \in 0..15 /\ total \in 0..MaxLen
\* the bookkeeping invariant behind the refinement
BufInv == /\ offset = total % 16
          /\ absorbed = Abs!Chunks(total - offset)
          /\ \A i \in 1..offset : buffer[i] = total - offset + i - 1
SumIsDefinition == (last.op = "sum") => last.blocks = Abs!Chunks(total)
=============================================================================
