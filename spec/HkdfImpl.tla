------------------------------ MODULE HkdfImpl ------------------------------
(***************************************************************************)
(* C18 - implementation-shaped specification of hkdfReader.Read in         *)
(* /repo/hkdf/hkdf.go, statement by statement:                             *)
(*                                                                         *)
(*   type hkdfReader struct { expander hash.Hash; size int; info []byte;   *)
(*                            counter byte; prev, buf []byte }             *)
(*   Expand: &hkdfReader{expander, size, info, 1, nil, nil}                *)
(*   Read(p): need := len(p)                                               *)
(*     remains := len(f.buf) + int(255-f.counter+1)*f.size   // BYTE arithmetic: 255-counter+1 *)
(*     if remains < need { return 0, error }                 // wraps to 0 when counter == 0   *)
(*     n := copy(p, f.buf); p = p[n:]                                      *)
(*     for len(p) > 0 {                                                    *)
(*        if f.counter > 1 { f.expander.Reset() }                          *)
(*        Write(prev); Write(info); Write([]byte{counter})                 *)
(*        f.prev = Sum(prev[:0]); f.counter++                // byte: 255+1 = 0                *)
(*        f.buf = f.prev; n = copy(p, f.buf); p = p[n:] }                  *)
(*     f.buf = f.buf[n:]                                                   *)
(*                                                                         *)
(* The byte type is modelled as arithmetic modulo M = MaxBlocks+1 (256 in  *)
(* the real code), so small MaxBlocks exercise the wrap-around exactly as  *)
(* 255 does.  Block values are symbolic: the expander computes the RFC     *)
(* block T(k) iff it was reset (or fresh), prev is T(k-1) (empty for k=1)  *)
(* and the counter octet written is k in 1..MaxBlocks; anything else is    *)
(* the junk block -1.  Byte j of block k >= 1 is stream position           *)
(* H*(k-1)+j; outputs are sequences of maximal position intervals (junk    *)
(* bytes are the interval <<-1,-1>>, never merged).  f.buf is always a     *)
(* tail of the last block: [k, off] = bytes off..H-1 of block k.           *)
(* Memory: the reader's own arrays are region 0; the caller's buffers are   *)
(* regions 1..NBufs (a Read names the region its p lives in, so the same   *)
(* buffer can be passed again).  prevAt is the region f.prev's backing     *)
(* array lives in.  Scribble(r) - the caller overwrites region r - turns   *)
(* the chaining value into junk iff prevAt = r.  Design = "own" is the     *)
(* code as it is (f.prev = Sum(f.prev[:0]): always region 0); Design =     *)
(* "caller" is the variant that lets the MAC append a whole block straight *)
(* into p (f.prev = Sum(p[:0]) when len(p) >= size, else Sum(nil)); it is  *)
(* kept as a documented counterexample (HkdfImpl_MC_Alias.cfg must fail).  *)
(* (info is also a caller slice that the code keeps; the model assumes the *)
(* caller does not modify it - recorded by an informational probe.)        *)
(* Refinement: HkdfImpl => HkdfReader under                                *)
(*   produced = H * (blocks generated) - BufLen(buf).                      *)
(***************************************************************************)
EXTENDS Integers, Sequences

CONSTANTS H, MaxBlocks, ReadSizes,
          NBufs,     \* number of caller-owned buffers (memory regions 1..NBufs)
          Design     \* "own" (the code) or "caller" (Sum appends into the caller's slice)
VARIABLES counter,   \* f.counter (a byte: 0..M-1)
          prev,      \* id of the block held in f.prev (0 = nil/empty, -1 = junk)
          prevAt,    \* memory region holding f.prev (and f.buf, which aliases it): 0 = the reader's own
          buf,       \* f.buf: [k, off] = octets off..H-1 of block k (k = 0: empty slice)
          dirty,     \* the expander has absorbed data since it was created or Reset
          last
ivars == <<counter, prev, prevAt, buf, dirty, last>>
rstate == <<counter, prev, prevAt, buf, dirty>>      \* the reader's state proper

M == MaxBlocks + 1
Min(a, b) == IF a < b THEN a ELSE b
BufLen(b) == IF b.k = 0 THEN 0 ELSE H - b.off
\* bytes off..off+n-1 of block k as a position interval (n > 0)
Piece(k, off, n) == IF k < 1 THEN <<-1, -1>> ELSE <<H * (k - 1) + off, H * (k - 1) + off + n - 1>>
\* append a piece to an output, merging adjacent intervals
Emit(out, pc) ==
  IF Len(out) > 0 /\ pc[1] >= 0 /\ out[Len(out)][2] >= 0 /\ out[Len(out)][2] + 1 = pc[1]
  THEN [out EXCEPT ![Len(out)] = <<out[Len(out)][1], pc[2]>>]
  ELSE Append(out, pc)

\* one pass of the for loop; st = [counter, prev, prevAt, buf, dirty, out, rem, n, r] (r = region of p)
RECURSIVE Loop(_)
Loop(st) ==
  IF st.rem = 0 THEN st
  ELSE LET reset == st.counter > 1                                   \* if f.counter > 1 { Reset() }
           clean == reset \/ ~st.dirty
           k == IF clean /\ st.counter \in 1..MaxBlocks /\ st.prev = st.counter - 1 THEN st.counter ELSE -1
           n == Min(st.rem, H)                                       \* f.buf = f.prev; n = copy(p, f.buf)
       IN Loop([counter |-> (st.counter + 1) % M,                    \* f.counter++ (byte)
                prev |-> k, buf |-> [k |-> k, off |-> 0], dirty |-> TRUE,
                \* f.prev = Sum(f.prev[:0]) | variant: Sum(p[:0]) if len(p) >= size else Sum(nil)
                prevAt |-> IF Design = "caller" /\ st.rem >= H THEN st.r ELSE 0,
                out |-> Emit(st.out, Piece(k, 0, n)), rem |-> st.rem - n, n |-> n, r |-> st.r])

Init == /\ counter = 1 /\ prev = 0 /\ prevAt = 0 /\ buf = [k |-> 0, off |-> 0] /\ dirty = FALSE
        /\ last = [op |-> "new", n |-> 0, err |-> FALSE, out |-> <<>>]

\* Read(p) with len(p) = need and p in caller region r
Read(need, r) ==
  LET remains == BufLen(buf) + ((MaxBlocks - counter + 1) % M) * H IN   \* int(255-f.counter+1)*f.size, byte wrap
  IF remains < need
  THEN /\ last' = [op |-> "read", n |-> need, err |-> TRUE, out |-> <<>>]
       /\ UNCHANGED rstate
  ELSE LET n0 == Min(need, BufLen(buf)) IN                          \* n := copy(p, f.buf)
       \* (a singleton \E rather than a LET: TLC then evaluates the loop once per step)
       \* copying the leftover into p would overwrite f.prev if it lived in the same region
       \E fin \in {Loop([counter |-> counter, prev |-> IF n0 > 0 /\ prevAt = r /\ r # 0 THEN -1 ELSE prev,
                        prevAt |-> prevAt, buf |-> buf, dirty |-> dirty,
                        out |-> IF n0 = 0 THEN <<>> ELSE <<Piece(buf.k, buf.off, n0)>>,
                        rem |-> need - n0, n |-> n0, r |-> r])} :
       LET nb == [k |-> fin.buf.k, off |-> fin.buf.off + fin.n]       \* f.buf = f.buf[n:]
       IN /\ counter' = fin.counter /\ prev' = fin.prev /\ prevAt' = fin.prevAt /\ dirty' = fin.dirty
          /\ buf' = IF nb.k # 0 /\ nb.off >= H THEN [k |-> 0, off |-> 0] ELSE nb    \* empty slice
          /\ last' = [op |-> "read", n |-> need, err |-> FALSE, out |-> fin.out]

\* the caller overwrites its buffer r: the reader's fields do not change, but whatever of the
\* reader's state lives in region r is now junk
Scribble(r) ==
  /\ prev' = IF prevAt = r THEN -1 ELSE prev
  /\ buf' = IF prevAt = r /\ buf.k # 0 THEN [buf EXCEPT !.k = -1] ELSE buf
  /\ UNCHANGED <<counter, prevAt, dirty>>
  /\ last' = [op |-> "scribble", n |-> 0, err |-> FALSE, out |-> <<>>]

Next == (\E n \in ReadSizes : \E r \in 1..NBufs : Read(n, r)) \/ (\E r \in 1..NBufs : Scribble(r))
Spec == Init /\ [][Next]_ivars

\* blocks generated so far: counter-1, or all MaxBlocks once the byte has wrapped to 0
Generated == IF counter = 0 THEN MaxBlocks ELSE counter - 1
Abs == INSTANCE HkdfReader WITH produced <- H * Generated - BufLen(buf)
Refines == Abs!Spec
AbsErrorConsumesNothing == Abs!ErrorConsumesNothing
AbsContiguous == Abs!Contiguous
AbsFailsExactlyBeyondLimit == Abs!FailsExactlyBeyondLimit
AbsZeroReadIsNoop == Abs!ZeroReadIsNoop
AbsScribbleIsInvisible == Abs!ScribbleIsInvisible
\* the caller's writes never touch the reader's state: nothing of it lives in caller memory
ScribbleKeepsReaderState == [][last'.op = "scribble" => UNCHANGED rstate]_ivars
ReaderOwnsItsState == prevAt = 0

TypeOK == /\ counter \in 0..MaxBlocks /\ BufLen(buf) \in 0..(H - 1) /\ Abs!TypeOK
\* the bookkeeping invariant behind the refinement: buf is the unread tail of the last block, prev
\* is the last block, never junk
ImplInv == /\ prev = Generated
           /\ buf.k \in {0, Generated}
           /\ (Generated = 0 => buf.k = 0)
=============================================================================
