-------------------------------- MODULE MDBuf --------------------------------
(***************************************************************************)
(* C14 - abstract specification of the incremental hash objects of         *)
(* /repo/md4 and /repo/ripemd160 (New, Write, Sum, Reset; both packages    *)
(* have the same front-end: a BS = 64-byte block buffer x, nx, a byte      *)
(* counter, Sum working on a copy).  The message is the byte sequence      *)
(* m[0..written); bytes are symbolic (a message byte is its position).     *)
(* Sum returns "the digest of m[0..written)", represented by what the      *)
(* definition (RFC 1320 3.1-3.4 / RIPEMD-160 paper) feeds to the           *)
(* compression function: the blocks of                                     *)
(*     m || 0x80 || 0^k || length (LF bytes),  k minimal >= 0,              *)
(* and the value of the length field; the byte oracles PrimMD4!MD4 and     *)
(* PrimRMD160!RMD160 materialise it.  Sum does not change the running      *)
(* state, so the stream can continue; Reset starts a new message.          *)
(* BS and LF are parameters: 64 and 8 in the code, scaled for model        *)
(* checking the implementation-shaped MDBufImpl against this module.       *)
(***************************************************************************)
EXTENDS Integers, Sequences

CONSTANTS BS,       \* block size in bytes
          LF,       \* bytes of the length field
          WSet,     \* lengths passed to Write
          MaxLen    \* bound on the message length
VARIABLES written, last
vars == <<written, last>>

P80 == 0 - 1                 \* the byte 0x80
ZB == 0 - 2                  \* a zero pad byte
LB(i) == 0 - 10 - i          \* byte i of the length field (its value is carried separately)
\* the definition's padded message for a message of n bytes, as symbols
Padded(n) == [k \in 1..n |-> k - 1] \o <<P80>> \o [k \in 1..((2 * BS - LF - 1 - (n % BS)) % BS) |-> ZB] \o [i \in 1..LF |-> LB(i - 1)]
Blocks(P) == [b \in 1..(Len(P) \div BS) |-> [i \in 1..BS |-> P[(b - 1) * BS + i]]]
\* what a digest of m[0..n) is: the compression chain over these blocks, length field = n bytes (8n bits)
DigestOf(n) == [blocks |-> Blocks(Padded(n)), lenval |-> n]
NoDigest == [blocks |-> <<>>, lenval |-> 0]
Ev(op, n, w, d) == [op |-> op, n |-> n, written |-> w, digest |-> d]

Init == written = 0 /\ last = Ev("new", 0, 0, NoDigest)
Write(n) == /\ written + n <= MaxLen
            /\ written' = written + n
            /\ last' = Ev("write", n, written + n, NoDigest)
Sum == /\ UNCHANGED written
       /\ last' = Ev("sum", 0, written, DigestOf(written))
Reset == /\ written' = 0
         /\ last' = Ev("reset", 0, 0, NoDigest)
Next == (\E n \in WSet : Write(n)) \/ Sum \/ Reset
Spec == Init /\ [][Next]_vars

TypeOK == written \in 0..MaxLen
\* the padded message is block aligned and its shape is the definition's
PadShape == \A n \in 0..MaxLen : LET P == Padded(n) IN
              /\ Len(P) % BS = 0 /\ Len(P) >= n + 1 + LF /\ Len(P) < n + 1 + LF + BS
              /\ P[n + 1] = P80 /\ \A i \in 1..LF : P[Len(P) - LF + i] = LB(i - 1)
SumIsDefinition == last.op = "sum" => last.digest = DigestOf(written) /\ last.written = written
\* Sum leaves the running state usable: it does not change the message so far
SumPure == [][last'.op = "sum" => written' = written]_vars
WriteAppends == [][last'.op = "write" => written' = written + last'.n]_vars
=============================================================================
