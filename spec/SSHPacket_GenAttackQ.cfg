SPECIFICATION Spec
CONSTANTS
  Modes <- AuthModes
  MaxPacket = 262144
  SeqMod = 16
  CtrBase = 256
  CtrLimbs = 8
  Sizes <- SizesTamperQ
  StartSeqs <- Seq0
  StartCtrs <- Ctr0Real
  MaxPkts = 2
  MaxFaults = 1
  AttackOps <- AllOps
  Phased = TRUE
  PadRule = "code"
INVARIANTS EmitTable EmitFinished
CHECK_DEADLOCK FALSE
