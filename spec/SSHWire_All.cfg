SPECIFICATION Spec
CONSTANTS
  Messages <- AllMessages
  Menu <- MenuQ
  Base <- BaseQ
INVARIANTS RoundTrip MpintMinimal WrongTypeRejected TrailingRejected TruncRule HugeLenRejected DecodeConsistent DecodeOwn
CHECK_DEADLOCK FALSE
