SPECIFICATION Spec
CONSTANTS
  IntBits = 63
  KeyLenGuard = TRUE
  MemLog2 = 27
  WorkLog2 = 20
  NSet <- Bnd16
  RSet <- Bnd16
  PSet <- Bnd16
  KSet <- BndK
INVARIANTS NeverPanics Conforms DivisionFormIsProductForm WrapCovered Emit
CHECK_DEADLOCK FALSE
