---------------------------- MODULE AcmeOrderFlow ----------------------------
(* GROWTH SPECIFICATION X02, part 2 -- autocert's use of the order life cycle:

     acme/autocert/autocert.go  Manager.authorizedCert, Manager.verifyRFC (AuthorizeOrderLoop:
        new order per attempt, loop over the order's authorizations, choice of the next challenge
        type through the index nextTyp SHARED by all authorizations and orders of the call),
        fulfill / putCertToken / putHTTPToken and the deferred cleanups (deleteCertToken /
        deleteHTTPToken in goroutines), deferred deactivatePendingAuthz per created order,
        supportedChallengeTypes (tls-alpn-01, then http-01 iff HTTPHandler was called).

   The client operations (AuthorizeOrder, GetAuthorization, Accept, WaitAuthorization, WaitOrder,
   CreateOrderCert, RevokeAuthorization) are atomic here -- their internals are AcmeOrder.tla.
   The CA is the environment: for every new order it picks the order's initial status and per
   authorization its initial status and the challenge types it offers; at every later request it
   decides (when the request arrives) whether fetching an authorization / accepting a challenge /
   deactivating fails, whether validation succeeds, how the order ends once all authorizations
   are valid (ready | invalid) and what finalization yields.

   PROPERTIES
     F1  bounded effort: one call tries every challenge type at most once (nextTyp only grows) and
         creates at most (number of supported challenge types + 1) orders, plus one per failed
         WaitOrder (observation: after a failed WaitOrder a new order is requested at once and
         nothing but the caller's context bounds the number of such rounds).
     F2  a challenge is accepted only while its response is provisioned (token certificate for
         tls-alpn-01 / key authorization for http-01 is being served), and only for a type the
         Manager supports and the authorization offers.
     F3  when the call and its deferred goroutines are done, no challenge response is left behind.
     F4  when the call and its deferred goroutines are done, no authorization of ANY order created by
         the call is still pending on the CA (pending ones are deactivated), unless the CA refused.
     F5  a certificate is requested (finalize) only for an order the CA reported ready (at creation
         or through WaitOrder); a failed flow returns an error and requests none.
     F6  authorizations that are not pending are left alone (no challenge accepted for them).      *)
EXTENDS Integers, Sequences, FiniteSets, TLC

CONSTANTS HTTP01,      \* subset of BOOLEAN: was Manager.HTTPHandler called
          NAuthz,      \* authorizations per order
          OfferSets,   \* sets of challenge types an authorization may offer
          MaxOrders,   \* the CA answers newOrder with an error after this many orders
          Faults       \* subset of {"newOrder", "getAuthz", "accept", "deact"}: requests the CA may refuse

Types(h) == IF h THEN <<"tls-alpn-01", "http-01">> ELSE <<"tls-alpn-01">>
NoOffer == {}

VARIABLES http,       \* configuration
          pc, k, j, nextTyp,
          ordSt,      \* status of every order created by the call (sequence)
          azSt,       \* azSt[k][j]: status of authorization j of order k
          offer,      \* offer[j]: challenge types offered by authorization j of the CURRENT order
          tokens,     \* challenge responses currently served by the Manager (set of types)
          cleanups,   \* deferred cleanups (set of types)
          tried,      \* challenge types for which an Accept was sent
          badAccept,  \* history: some Accept was sent without its response being served / for a type not offered (F2)
          badTarget,  \* history: some Accept addressed a non-pending authorization or re-used a challenge type (F1, F6)
          refused,    \* authorizations <<k, j>> whose deactivation the CA refused
          finalized,  \* orders for which finalize was requested
          readySeen,  \* orders the CA reported ready to the client
          woFails,    \* number of WaitOrder calls that failed (each starts a new order without using up a type)
          result,     \* "" | "cert" | "error"
          bgDone,     \* deferred goroutines have run
          ev

hvars == <<http, pc, k, j, nextTyp, ordSt, azSt, offer, tokens, cleanups, tried, badAccept, badTarget, refused, finalized, readySeen, woFails, result, bgDone>>
vars == <<hvars, ev>>

E(t, a, b, n, m) == [t |-> t, a |-> a, b |-> b, n |-> n, m |-> m]

Init == /\ http \in HTTP01
        /\ pc = "newOrder" /\ k = 0 /\ j = 1 /\ nextTyp = 1
        /\ ordSt = <<>> /\ azSt = <<>> /\ offer = [i \in 1..NAuthz |-> NoOffer]
        /\ tokens = {} /\ cleanups = {} /\ tried = {} /\ badAccept = FALSE /\ badTarget = FALSE /\ refused = {}
        /\ finalized = {} /\ readySeen = {} /\ woFails = 0
        /\ result = "" /\ bgDone = FALSE
        /\ ev = E("init", "", "", 0, 0)

\* client.AuthorizeOrder: the CA creates order k+1 (status ost, authorizations with statuses sts and offers ofs)
\* or refuses.  Offers of authorizations that are not pending are irrelevant and normalised to {}.
NewOrder(ost, sts, ofs) ==
  /\ pc = "newOrder"
  /\ (ost = "err") => ("newOrder" \in Faults \/ k >= MaxOrders)
  /\ (k >= MaxOrders) => ost = "err"
  /\ (ost \in {"ready", "err"}) => \A i \in 1..NAuthz : sts[i] = "valid"
  /\ \A i \in 1..NAuthz : IF sts[i] = "pending" /\ ost = "pending" THEN ofs[i] \in OfferSets ELSE ofs[i] = NoOffer
  /\ IF ost = "err"
     THEN /\ pc' = "bg" /\ result' = "error"
          /\ ev' = E("newOrder", "err", "", k + 1, 0)
          /\ UNCHANGED <<k, j, ordSt, azSt, offer, readySeen>>
     ELSE /\ k' = k + 1 /\ j' = 1
          /\ ordSt' = Append(ordSt, ost)
          /\ azSt' = Append(azSt, sts)
          /\ offer' = ofs
          /\ ev' = E("newOrder", ost, "", k + 1, 0)
          /\ CASE ost = "ready"   -> /\ pc' = "bg" /\ readySeen' = readySeen \cup {k + 1} /\ UNCHANGED result
               [] ost = "pending" -> /\ pc' = "getAuthz" /\ UNCHANGED <<readySeen, result>>
               [] OTHER           -> /\ pc' = "bg" /\ result' = "error" /\ UNCHANGED readySeen   \* "invalid new order status"
  /\ UNCHANGED <<http, nextTyp, tokens, cleanups, tried, badAccept, badTarget, refused, finalized, woFails, bgDone>>

\* first supported type from position nextTyp on that the authorization offers (0 = none)
Pick(of, from) == LET T == Types(http)
                      C == {i \in from..Len(T) : T[i] \in of}
                  IN IF C = {} THEN 0 ELSE CHOOSE i \in C : \A i2 \in C : i <= i2

\* client.GetAuthorization for authorization j of the current order (fails iff err), then the choice
\* of a challenge and fulfill: the response is provisioned before anything is sent to the CA
GetAuthz(err) ==
  /\ pc = "getAuthz"
  /\ err => (j <= NAuthz /\ "getAuthz" \in Faults)
  /\ IF j > NAuthz
     THEN /\ pc' = "waitOrder" /\ ev' = E("allAuthz", "", "", k, 0)
          /\ UNCHANGED <<j, nextTyp, tokens, cleanups, result>>
     ELSE IF err
          THEN /\ pc' = "bg" /\ result' = "error"
               /\ ev' = E("getAuthz", "err", "", k, j) /\ UNCHANGED <<j, nextTyp, tokens, cleanups>>
          ELSE IF azSt[k][j] # "pending"
          THEN /\ j' = j + 1 /\ ev' = E("getAuthz", azSt[k][j], "", k, j) /\ UNCHANGED <<pc, nextTyp, tokens, cleanups, result>>
          ELSE LET p == Pick(offer[j], nextTyp) IN
               IF p = 0
               THEN /\ pc' = "bg" /\ result' = "error" /\ nextTyp' = Len(Types(http)) + 1
                    /\ ev' = E("getAuthz", "pending", "none", k, j) /\ UNCHANGED <<j, tokens, cleanups>>
               ELSE /\ nextTyp' = p + 1
                    /\ tokens' = tokens \cup {Types(http)[p]}
                    /\ cleanups' = cleanups \cup {Types(http)[p]}
                    /\ pc' = "accept"
                    /\ ev' = E("getAuthz", "pending", Types(http)[p], k, j) /\ UNCHANGED <<j, result>>
  /\ UNCHANGED <<http, k, ordSt, azSt, offer, tried, badAccept, badTarget, refused, finalized, readySeen, woFails, bgDone>>

CurType == Types(http)[nextTyp - 1]

\* client.Accept: the CA refuses (how = "err") or validates at once (how = "valid" | "invalid")
Accept(how) ==
  /\ pc = "accept"
  /\ how = "err" => "accept" \in Faults
  /\ badAccept' = (badAccept \/ CurType \notin tokens \/ CurType \notin offer[j])
  /\ badTarget' = (badTarget \/ CurType \in tried \/ azSt[k][j] # "pending")
  /\ tried' = tried \cup {CurType}
  /\ ev' = E("accept", how, CurType, k, j)
  /\ IF how = "err"
     THEN pc' = "newOrder" /\ UNCHANGED <<azSt, ordSt>>
     ELSE /\ azSt' = [azSt EXCEPT ![k][j] = how]
          /\ ordSt' = [ordSt EXCEPT ![k] = IF how = "invalid" THEN "invalid" ELSE @]
          /\ pc' = "waitAuthz"
  /\ UNCHANGED <<http, k, j, nextTyp, offer, tokens, cleanups, refused, finalized, readySeen, woFails, result, bgDone>>

\* client.WaitAuthorization
WaitAuthz ==
  /\ pc = "waitAuthz"
  /\ ev' = E("waitAuthz", azSt[k][j], "", k, j)
  /\ IF azSt[k][j] = "valid" THEN pc' = "getAuthz" /\ j' = j + 1
     ELSE pc' = "newOrder" /\ UNCHANGED j
  /\ UNCHANGED <<http, k, nextTyp, ordSt, azSt, offer, tokens, cleanups, tried, badAccept, badTarget, refused, finalized, readySeen, woFails, result, bgDone>>

\* client.WaitOrder once every authorization has been dealt with: the CA reports the order ready or invalid
WaitOrder(st) ==
  /\ pc = "waitOrder"
  /\ st = "ready" => \A i \in 1..NAuthz : azSt[k][i] = "valid"
  /\ ordSt' = [ordSt EXCEPT ![k] = st]
  /\ ev' = E("waitOrder", st, "", k, 0)
  /\ IF st = "ready"
     THEN pc' = "bg" /\ readySeen' = readySeen \cup {k} /\ UNCHANGED woFails
     ELSE pc' = "newOrder" /\ woFails' = woFails + 1 /\ UNCHANGED readySeen
  /\ UNCHANGED <<http, k, j, nextTyp, azSt, offer, tokens, cleanups, tried, badAccept, badTarget, refused, finalized, result, bgDone>>

Pending == {p \in (1..Len(azSt)) \X (1..NAuthz) : azSt[p[1]][p[2]] = "pending"}

\* verifyRFC has returned: the deferred cleanups and deactivations run (goroutines); one step, because
\* their interleaving with the rest is not observable through the properties.  The CA refuses the
\* deactivation of the authorizations in ref.
Background(ref) ==
  /\ pc = "bg" /\ ~bgDone
  /\ ref \subseteq Pending /\ (ref # {} => "deact" \in Faults)
  /\ tokens' = tokens \ cleanups
  /\ azSt' = [kk \in 1..Len(azSt) |-> [i \in 1..NAuthz |->
                 IF azSt[kk][i] = "pending" /\ <<kk, i>> \notin ref THEN "deactivated" ELSE azSt[kk][i]]]
  /\ refused' = ref
  /\ bgDone' = TRUE
  /\ ev' = E("background", "", "", Len(azSt), Cardinality(ref))
  /\ UNCHANGED <<http, pc, k, j, nextTyp, ordSt, offer, cleanups, tried, badAccept, badTarget, finalized, readySeen, woFails, result>>

\* authorizedCert: CreateOrderCert for the order verifyRFC returned
Finalize(fin) ==
  /\ pc = "bg" /\ bgDone /\ result = ""
  /\ finalized' = finalized \cup {k}
  /\ result' = IF fin = "valid" THEN "cert" ELSE "error"
  /\ ordSt' = [ordSt EXCEPT ![k] = fin]
  /\ pc' = "end"
  /\ ev' = E("finalize", fin, "", k, 0)
  /\ UNCHANGED <<http, k, j, nextTyp, azSt, offer, tokens, cleanups, tried, badAccept, badTarget, refused, readySeen, woFails, bgDone>>

FailStep == /\ pc = "bg" /\ bgDone /\ result = "error"
            /\ pc' = "end" /\ ev' = E("fail", "", "", k, 0)
            /\ UNCHANGED <<http, k, j, nextTyp, ordSt, azSt, offer, tokens, cleanups, tried, badAccept, badTarget, refused, finalized, readySeen, woFails, result, bgDone>>

Next == \/ \E ost \in {"pending", "ready", "invalid", "err"} :
           \E sts \in [1..NAuthz -> {"pending", "valid"}] : \E ofs \in [1..NAuthz -> OfferSets \cup {NoOffer}] : NewOrder(ost, sts, ofs)
        \/ \E e \in BOOLEAN : GetAuthz(e)
        \/ \E h \in {"err", "valid", "invalid"} : Accept(h)
        \/ WaitAuthz
        \/ \E st \in {"ready", "invalid"} : WaitOrder(st)
        \/ \E ref \in SUBSET Pending : Background(ref)
        \/ \E f \in {"valid", "invalid"} : Finalize(f)
        \/ FailStep

Spec == Init /\ [][Next]_vars
FairSpec == Spec /\ WF_vars(Next)

-----------------------------------------------------------------------------
NT == Len(Types(http))

F1_Bounded == k <= NT + 1 + woFails /\ nextTyp <= NT + 1 /\ Cardinality(tried) <= NT
F2_ProvisionedBeforeAccept == ~badAccept
F3_NoTokenLeft == (pc = "end") => tokens = {}
F4_NoPendingLeft == (pc = "end") => Pending \subseteq refused
F5_FinalizeOnlyReady == /\ finalized \subseteq readySeen
                        /\ result = "cert" => finalized # {}
                        /\ (pc = "end" /\ finalized = {}) => result = "error"
F6_OnlyPendingAccepted == ~badTarget
Terminates == <>(pc = "end")
Done == pc = "end"
=============================================================================
