SPECIFICATION GenSpec
CONSTANTS
  Ops = {1}
  Budgets = {0, 1, 3}
  PhaseSet = {1, 2, 3}
  MaxNonces = 100
  MaxReplies = 6
  NonceURLs = {TRUE, FALSE}
  InitPools = {0, 1}
  StopVals = {"zero", "neg"}
INVARIANTS Emit
CHECK_DEADLOCK FALSE
