SPECIFICATION SpecCrafted
CONSTANTS
  MinFirst = 8
  MaxPow = 3
  Sizes <- SizesQ
  MaxWrites = 0
  ReadSizes <- ReadsQ
  EofStyles = {"separate", "with-data"}
  CutAll = TRUE
  FixEof = TRUE
  FixShort = FALSE
  Tag = 11
  Crafted <- CraftedSet
INVARIANTS RoundTrip NoSilentTruncation PrefixOnly AgreesWithFunction
PROPERTIES Progress
CHECK_DEADLOCK FALSE
