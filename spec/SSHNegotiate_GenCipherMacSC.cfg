SPECIFICATION Spec
CONSTANTS
  Menu <- MenuCipherMacSC
  AEAD <- MCAEAD
INVARIANTS Emit
CHECK_DEADLOCK FALSE
