------------------------------ MODULE XTS_MC ------------------------------
(***************************************************************************)
(* C13: XTS.tla instantiated with the toy block cipher (PrimToy!ToyE/ToyD) *)
(* so that TLC evaluates exact ciphertexts.                                *)
(*                                                                         *)
(* A case = (sector, number of blocks nb, tweak class tw, data-key seed,   *)
(* plaintext seed).  The tweak key k2 is chosen with ToyKeyFor so that the *)
(* initial tweak T_0 = E_k2(LE128(sector)) is the byte string the class    *)
(* names, which puts the GF(2^128) carry exactly where the case wants it:  *)
(*   top32  bytes 12..15 of T_0 = ff: the top bit is set before the        *)
(*          doubling at every block j in 0..31 (carry + 0x87 every block)  *)
(*   allff  T_0 = ff^16;   zero  T_0 = 0^16 (no carry ever, tweak stays 0) *)
(*   single T_0 = 0^15 80 (carry at block 0 only, then 0x87 walks up)      *)
(*   alt    T_0 = (aa 55)^8 (carry on alternate blocks)                    *)
(*   low    T_0 = ff^12 0^4 (carry chain through bytes, none out for 32)   *)
(*   pat    k2 = Pat(k2seed): T_0 whatever the cipher gives                *)
(* TLC checks for every case: the register/in-place form equals the        *)
(* declarative definition, Dec(Enc(P)) = P, carry-chain doubling equals    *)
(* the polynomial definition on every tweak used, the top-bit coverage     *)
(* claim of class top32; and prints the case with the ciphertext.          *)
(***************************************************************************)
EXTENDS PrimToy, TLC, Json

CONSTANTS Groups,      \* set of <<sector id, tweak class, set of block counts>>
          CheckImpl
VARIABLES c

X == INSTANCE XTS WITH E <- ToyE, D <- ToyD

Sector8(id) == CASE id = "0"     -> <<0, 0, 0, 0, 0, 0, 0, 0>>
                 [] id = "1"     -> <<1, 0, 0, 0, 0, 0, 0, 0>>
                 [] id = "2^32"  -> <<0, 0, 0, 0, 1, 0, 0, 0>>
                 [] id = "2^63"  -> <<0, 0, 0, 0, 0, 0, 0, 128>>
                 [] id = "2^64-1" -> <<255, 255, 255, 255, 255, 255, 255, 255>>
                 [] id = "2^56+5" -> <<5, 0, 0, 0, 0, 0, 0, 1>>
                 [] id = "pat"   -> Pat(29, 8)

T0Of(tw, k2seed) ==
  CASE tw = "top32"  -> Force(Pat(k2seed, 12) \o <<255, 255, 255, 255>>)
    [] tw = "allff"  -> Force([i \in 1..16 |-> 255])
    [] tw = "zero"   -> Zeros(16)
    [] tw = "single" -> X!GFTop
    [] tw = "alt"    -> Force([i \in 1..16 |-> IF i % 2 = 1 THEN 170 ELSE 85])
    [] tw = "low"    -> Force([i \in 1..16 |-> IF i <= 12 THEN 255 ELSE 0])
K2Of(tw, k2seed, sec) == IF tw = "pat" THEN Pat(k2seed, 16) ELSE ToyKeyFor(X!LE128(Sector8(sec)), T0Of(tw, k2seed))

Init == c = [t |-> "root"]
Next == \/ /\ c.t = "root"
           /\ c' \in {[t |-> "grp", sec |-> g[1], tw |-> g[2], nbs |-> g[3]] : g \in Groups}
        \/ /\ c.t = "grp"
           /\ c' \in {[t |-> "pre", sec |-> c.sec, tw |-> c.tw, nb |-> n] : n \in c.nbs}
        \* one more level so that TLC's workers share the evaluation case by case
        \/ /\ c.t = "pre"
           /\ c' = [t |-> "case", sec |-> c.sec, tw |-> c.tw, nb |-> c.nb,
                    k1seed |-> 3 + c.nb, k2seed |-> 5 + 2 * c.nb, pseed |-> 40 + c.nb]

K1(cc) == Pat(cc.k1seed, 16)
K2(cc) == K2Of(cc.tw, cc.k2seed, cc.sec)
PT(cc) == TPat(cc.pseed, 16 * cc.nb)

\* Everything about one case in one formula so that TLC evaluates the shared values once:
\*  - model-level laws: Dec(Enc(P)) = P; the register/in-place form (ImplEnc/ImplDec, separate and
\*    aliased buffers) equals the declarative definition; carry-chain doubling equals the polynomial
\*    definition on every tweak used;
\*  - non-vacuity of the carry classes: the forced tweak is what the class says, and for top32 the
\*    top bit is set in T_j for every j < nb;
\*  - emission of the case with its ciphertext.
CaseOK(cc) ==
  \* singleton \E instead of LET: TLC re-evaluates a LET definition at every use
  \E k1 \in {K1(cc)} : \E k2 \in {K2(cc)} : \E s8 \in {Sector8(cc.sec)} : \E pt \in {PT(cc)} :
  \E tw \in {Force(X!Tweaks(k2, s8, cc.nb + 1))} :
  \E ct \in {Force(X!EncWith(k1, tw, pt))} :
  \E junk \in {TPat(77, 16 * cc.nb)} :
     /\ Assert(X!DecWith(k1, tw, ct) = pt, <<"RoundTrip", cc>>)
     /\ Assert(~CheckImpl \/ X!ImplEnc(k1, k2, s8, pt, junk, FALSE) = ct, <<"ImplEnc", cc>>)
     /\ Assert(~CheckImpl \/ X!ImplEnc(k1, k2, s8, pt, pt, TRUE) = ct, <<"ImplEnc in place", cc>>)
     /\ Assert(~CheckImpl \/ X!ImplDec(k1, k2, s8, ct, junk, FALSE) = pt, <<"ImplDec", cc>>)
     /\ Assert(~CheckImpl \/ X!ImplDec(k1, k2, s8, ct, ct, TRUE) = pt, <<"ImplDec in place", cc>>)
     /\ Assert(\A j \in 1..cc.nb : X!GFMul2Carry(tw[j]) = tw[j + 1], <<"CarryAgrees", cc>>)
     /\ Assert(cc.tw = "pat" \/ tw[1] = T0Of(cc.tw, cc.k2seed), <<"TweakForced", cc>>)
     /\ Assert(cc.tw # "top32" \/ \A j \in 1..cc.nb : X!GFBit(tw[j], 127) = 1, <<"TopBit", cc>>)
     /\ PrintT("TRACE " \o ToJson([t |-> "xts", sec |-> cc.sec, sector8 |-> s8, tw |-> cc.tw, nb |-> cc.nb,
                                k1 |-> k1, k2 |-> k2, pt |-> pt, ct |-> ct, t0 |-> tw[1], tlast |-> tw[cc.nb + 1]]))
Check == c.t = "case" => CaseOK(c)

\* xts.NewCipher(aes.NewCipher, key): key[:len/2] and key[len/2:] must both be AES keys
AESKeyLens == {16, 24, 32}
KeyAccept(L) == (L \div 2) \in AESKeyLens /\ (L - (L \div 2)) \in AESKeyLens

\* toy-primitive vectors for validating the Go twin (harness/toyprim) in the same run
ToyVec ==
  c.t = "root" =>
     PrintT("TRACE " \o ToJson([t |-> "toyvec",
        e |-> [s \in 1..6 |-> [k |-> Pat(s + 1, 16), x |-> Pat(s + 20, 16), y |-> ToyE(Pat(s + 1, 16), Pat(s + 20, 16))]],
        m |-> [s \in 1..6 |-> [x |-> Pat(s + 30, 16), y |-> X!GFMul2(Pat(s + 30, 16))]],
        keyok |-> {L \in 0..80 : KeyAccept(L)}]))

SectorsProp == {"0", "1", "2^32", "2^63", "2^64-1"}        \* the property's quantifier
SectorsAll == SectorsProp \cup {"2^56+5", "pat"}
ClassesAll == {"top32", "allff", "zero", "single", "alt", "low", "pat"}
NBsQ == {1, 2, 3, 8, 17, 32}
\* quick: every sector of the property with an ordinary and an every-block-carries tweak; every tweak
\* class at the extreme sector; every length 16..512 with a carry at every block
GroupsQ == {<<s, w, NBsQ>> : s \in SectorsProp, w \in {"pat", "top32"}}
           \cup {<<"2^64-1", w, {1, 2, 5, 32}>> : w \in ClassesAll \ {"pat", "top32"}}
           \cup {<<"0", "top32", (1..32) \ NBsQ>>}
\* thorough: the full product, lengths 16..512
GroupsT == {<<s, w, 1..32>> : s \in SectorsAll, w \in ClassesAll}
=============================================================================
