SPECIFICATION GenSpec
CONSTANTS
  MaxLine = 255
  MaxPre = 1024
  MaxPending = 64
  ChanSize = 16
  Roles <- BothRoles
  Owns <- OwnsOne
  StrictOpts <- Bool
  ExtcOpts <- Bool
  RkOpts <- Bool
  StartPh = "kex0"
  VerSteps <- NoVer
  MaxVer = 0
  Kinds <- KindsAll
  MaxPkt = 16
  MaxNoise = 2
  MaxPing = 4
  PingRuns <- RunsReal
  Bursts <- BurstsReal
  AsIs = FALSE
VIEW AbsView
CHECK_DEADLOCK FALSE
