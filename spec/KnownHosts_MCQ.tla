---------------------------- MODULE KnownHosts_MCQ ----------------------------
(* Root module of the quick tier of C42: the families W (single patterns, + round trip), L (one rich line) and
   F (files of up to two simple lines) explored in one TLC run; the family tag selects the query list. *)
EXTENDS KnownHosts_MCL, KnownHosts_MCF

QOf(tag) == CASE tag = "W" -> QueriesWG [] tag = "L" -> QueriesL [] tag = "F" -> QueriesFq
              [] tag = "Ff" -> QueriesF [] OTHER -> QueriesW
CasesW == Cases("W", FilesW)
CasesL2 == Cases("L", FilesL2)
CasesF1 == Cases("F", FilesF1)
CasesF2 == Cases("F", FilesF2)
CasesQ == CasesW \cup CasesL2 \cup CasesF2
\* the same files of family F with both remote addresses per hostname (thorough tier)
CasesF2full == Cases("Ff", FilesF2)
RemoteIrrelevantF == fam = "Ff" => RemoteIrrelevant
ASSUME \A tag \in {"W", "L", "F"} : EmitQueries(tag, QOf(tag))
=============================================================================
