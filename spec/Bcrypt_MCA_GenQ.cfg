SPECIFICATION SpecG
CONSTANTS
  KeyBytes = 72
  Alphabet = {}
  MaxLen = 0
  Seeds = {2, 3}
  Lens = {0, 1, 2, 5, 36, 70, 71, 72, 73, 80}
  Costs = {}
INVARIANTS EmitA FamilyTheorems
CHECK_DEADLOCK FALSE
