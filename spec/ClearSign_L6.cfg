SPECIFICATION Spec
CONSTANTS
  Alphabet <- Alpha6
  MaxLen = 6
INVARIANTS DecodeIsCanon SigVerifies EscapeSafe Idempotent RFCAgrees WriterState Emit
CHECK_DEADLOCK FALSE
