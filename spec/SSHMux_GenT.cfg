SPECIFICATION GenSpec
CONSTANTS
  MaxPeer = 3
  MaxLocal = 1
  MaxObj = 3
  Configs <- AllConfigs
  Lite = FALSE
  Hold = FALSE
  Burst = FALSE
  DecidedInLoop = TRUE
  DrainAll = TRUE
  RejectChecksSlot = TRUE
VIEW AbsView
CHECK_DEADLOCK FALSE
