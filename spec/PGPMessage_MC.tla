--------------------------- MODULE PGPMessage_MC ---------------------------
(* Exhaustive instance of PGPMessage (C44) and the outcome table for binding R: every terminal state of the reader is
   printed; the check groups them by (kind, attack, region, signer known) into the set of outcomes the model allows. *)
EXTENDS PGPMessage, Json

Class == IF out \in {"error", "sigerror", "mdcerror"} THEN "detected"
         ELSE IF Signed(kind) /\ ~VerifiedSig THEN "unverified"
         ELSE IF bodyState = "original" THEN "silent" ELSE "altered-clean"
Emit == Done => PrintT("TRACE " \o ToJson([kind |-> kind, a |-> atk.a, r |-> atk.r, known |-> known, out |-> out, body |-> bodyState,
                                            verified |-> VerifiedSig, isSigned |-> isSigned, class |-> Class,
                                            unprotected |-> (atk.a \in {"flip", "truncate"} /\ Unprotected(kind, atk.r))]))
=============================================================================
