SPECIFICATION Spec
CONSTANTS
  KSCases <- KSThorough
  XSCases <- XSThorough
  HSCases <- HSThorough
  C208Cases <- C208Thorough
INVARIANTS Emit Laws
CHECK_DEADLOCK FALSE
