----------------------------- MODULE Argon2Area -----------------------------
(***************************************************************************)
(* RFC 9106 section 3.4.2 as arithmetic: the reference area W of the block *)
(* being computed, written as (size, start column), and the column of its  *)
(* zz-th element.  Constant-level operators only; used by the byte oracle  *)
(* spec/PrimArgon2.tla and checked against the declarative reading of the  *)
(* RFC (W listed block by block from what has actually been written) and   *)
(* against the shape of /repo/argon2/argon2.go indexAlpha/phi by the state *)
(* machine spec/Argon2Index.tla.                                           *)
(*                                                                         *)
(* A lane has q = 4 * seglen columns, cut into SL = 4 segments (slices).   *)
(* The block being computed is (pass r, slice sl, position idx in its      *)
(* segment) of the current lane; `same` says that the reference lane is    *)
(* the current lane (forced in slice 0 of pass 0).                         *)
(***************************************************************************)
EXTENDS Integers

SyncPoints == 4

\* blocks of the reference lane in finished segments: in the first pass the slices before the current one,
\* later the three other segments
AreaFinished(r, sl, seglen) == IF r = 0 THEN sl * seglen ELSE (SyncPoints - 1) * seglen

\* |W|: finished segments, plus (same lane) the idx blocks of the current segment already computed; minus
\* one: same lane - B[i][j-1] is excluded; other lane - the last index is excluded when idx = 0
AreaSize(r, sl, idx, seglen, same) ==
  AreaFinished(r, sl, seglen) + (IF same THEN idx ELSE 0) - (IF same \/ idx = 0 THEN 1 ELSE 0)

\* column where the enumeration of W starts: 0 in the first pass, later the segment after the current one
AreaStart(r, sl, seglen) == IF r = 0 THEN 0 ELSE ((sl + 1) % SyncPoints) * seglen

\* column of the zz-th element of W (0 <= zz < |W|)
AreaCol(r, sl, seglen, zz) == (AreaStart(r, sl, seglen) + zz) % (SyncPoints * seglen)
=============================================================================
