------------------------- MODULE PGPFramingStream_MC -------------------------
(* Bounded instances of PGPFramingStream (X03 b) with scaled constants: MinFirst = 8 stands for 512, MaxPow = 3 for 30
   (so that writes larger than the largest chunk occur). *)
EXTENDS PGPFramingStream

SizesQ == {0, 1, 3, 7, 8, 9, 17}
SizesT == {0, 1, 2, 3, 5, 7, 8, 9, 15, 16, 17, 20}
ReadsQ == {1, 3, 8, 64}
ReadsW == {3, 64}

\* crafted streams: any partial chunk exponents, a final length in the one-, two-(not expressible below 192)- or five-octet
\* form, definite-length packets in new and old format
RECURSIVE CPart(_, _, _)
CPart(ks, i, from) == IF i > Len(ks) THEN <<>>
                      ELSE <<H(EncPartial(ks[i])), D(from, Pow2(ks[i]))>> \o CPart(ks, i + 1, from + Pow2(ks[i]))
RECURSIVE CSum(_)
CSum(ks) == IF ks = <<>> THEN 0 ELSE Pow2(ks[1]) + CSum(Tail(ks))
CKs == {<<>>, <<0>>, <<1>>, <<2>>, <<0, 0>>, <<1, 0>>, <<0, 2>>, <<2, 2>>, <<0, 1, 0>>}
CFin(from, n, form) == <<H(EncLenForm(n, form))>> \o (IF n > 0 THEN <<D(from, n)>> ELSE <<>>)
CraftedSet == {<<H(<<NewTag(11)>>)>> \o CPart(ks, 1, 0) \o CFin(CSum(ks), n, f) : ks \in CKs, n \in {0, 1, 3}, f \in {1, 5}}
              \cup {<<H(EncOldHeader(11, lt, n))>> \o (IF n > 0 THEN <<D(0, n)>> ELSE <<>>) : lt \in {0, 1, 2}, n \in {0, 1, 4}}
=============================================================================
