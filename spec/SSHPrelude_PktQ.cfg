SPECIFICATION Spec
CONSTANTS
  MaxLine = 255
  MaxPre = 1024
  MaxPending = 1
  ChanSize = 1
  Roles <- BothRoles
  Owns <- OwnsOne
  StrictOpts <- Bool
  ExtcOpts <- Bool
  RkOpts <- Bool
  StartPh = "kex0"
  VerSteps <- NoVer
  MaxVer = 0
  Kinds <- KindsAll
  MaxPkt = 9
  MaxNoise = 1
  MaxPing = 2
  PingRuns <- NoRuns
  Bursts <- BurstsScaled
  AsIs = FALSE
INVARIANTS TypeOK P1_VerRefines P1_Accepted P1_VerFailure P1_OwnLine P1_NoWait P2_NoiseInvisible P2_Disconnect P2_DeadIsFinal P2_UnexpectedEnds NoStall P3_ServerExtInfo P3_FirstKexInitOnly P3_ClientRecords P4_PongOrder P4_PongOnlyWhenEstablished P4_Answered P4_NoPongDuringKex P4_FlushAtNewKeys P5_ServiceOnce P5_ServerRefuses P5_Established
CHECK_DEADLOCK FALSE
