-------------------------------- MODULE XTS --------------------------------
(***************************************************************************)
(* C13 - XTS mode (IEEE Std 1619-2007 section 5.3, XTS-AES without         *)
(* ciphertext stealing) over an abstract 16-byte block cipher E/D, as      *)
(* implemented by /repo/xts/xts.go: xts.NewCipher(cipherFunc, key) splits  *)
(* key into k1 (data key, first half) and k2 (tweak key, second half);     *)
(* Cipher.Encrypt(ciphertext, plaintext, sectorNum) and                    *)
(* Cipher.Decrypt(plaintext, ciphertext, sectorNum).                       *)
(*                                                                         *)
(*   T_0     = E_k2( LE128(sector) )                                       *)
(*   T_(j+1) = alpha * T_j               (PrimGF128!GFMul2)                *)
(*   C_j     = E_k1( P_j xor T_j ) xor T_j                                 *)
(*   P_j     = D_k1( C_j xor T_j ) xor T_j                                 *)
(*                                                                         *)
(* The sector number is 8 little-endian bytes (TLC integers are 32-bit).   *)
(* XTSEnc/XTSDec are the declarative definition (tweaks by the polynomial  *)
(* definition of alpha * T).              ImplEnc/ImplDec are shaped like the *)
(* Go code: one 16-byte tweak register doubled in place with the carry     *)
(* chain (GFMul2Carry), data processed block by block IN PLACE in the      *)
(* destination buffer (dst[j] = src[j] xor tweak; E in place; xor tweak).  *)
(* XTS_MC checks ImplEnc = XTSEnc, ImplDec = XTSDec, the inversion law and *)
(* evaluates XTSEnc with the toy cipher for the conformance cases.         *)
(***************************************************************************)
EXTENDS PrimWords, PrimGF128

CONSTANTS E(_, _), D(_, _)       \* block cipher: E(key, block16), D(key, block16)

LE128(sector8) == Force(sector8 \o Zeros(8))
XBlock(s, j) == SubSeq(s, 16 * j + 1, 16 * j + 16)          \* j-th block, 0-based
NBlocks(s) == Len(s) \div 16

Tweak0(k2, sector8) == E(k2, LE128(sector8))
\* the tweak sequence <<T_0, ..., T_(n-1)>>: T_(j+1) = alpha * T_j
RECURSIVE TweakSeq(_, _)
TweakSeq(t, n) == IF n = 0 THEN <<>> ELSE <<t>> \o TweakSeq(GFMul2(t), n - 1)
Tweaks(k2, sector8, n) == TweakSeq(Tweak0(k2, sector8), n)
TweakAt(k2, sector8, j) == GFMulPow(Tweak0(k2, sector8), j)       \* = Tweaks(..)[j+1]

EncBlock(k1, t, p) == XorBytes(E(k1, XorBytes(p, t)), t)
DecBlock(k1, t, c) == XorBytes(D(k1, XorBytes(c, t)), t)

RECURSIVE Concat(_, _)
Concat(f, n) == IF n = 0 THEN <<>> ELSE Concat(f, n - 1) \o f[n]

\* with the tweak sequence tw given (so that a caller can share it)
EncWith(k1, tw, pt) == Concat([j \in 1..NBlocks(pt) |-> EncBlock(k1, tw[j], XBlock(pt, j - 1))], NBlocks(pt))
DecWith(k1, tw, ct) == Concat([j \in 1..NBlocks(ct) |-> DecBlock(k1, tw[j], XBlock(ct, j - 1))], NBlocks(ct))

\* precondition of the property: Len(pt) is a positive multiple of 16
XTSEnc(k1, k2, sector8, pt) == EncWith(k1, Tweaks(k2, sector8, NBlocks(pt)), pt)
XTSDec(k1, k2, sector8, ct) == DecWith(k1, Tweaks(k2, sector8, NBlocks(ct)), ct)

\* ---- implementation-shaped: tweak register + destination buffer, as in xts.go
\* The destination buffer is kept as done \o rest (blocks already written, bytes not yet written).
\* alias = TRUE: source and destination are the same buffer (in-place call), so block j is read
\* from the buffer as it is when iteration j starts.
RECURSIVE ImplLoop(_, _, _, _, _, _, _, _)
ImplLoop(k1, tweak, src, done, rest, j, enc, alias) ==
  IF 16 * j >= Len(src) THEN done \o rest
  ELSE LET x1 == XorBytes(IF alias THEN SubSeq(rest, 1, 16) ELSE XBlock(src, j), tweak)   \* dst[j] = src[j] ^ tweak[j]
           x2 == IF enc THEN E(k1, x1) ELSE D(k1, x1)            \* c.k1.Encrypt(dst, dst)
           x3 == XorBytes(x2, tweak)                             \* dst[j] ^= tweak[j]
       IN ImplLoop(k1, GFMul2Carry(tweak), src, done \o x3, SubSeq(rest, 17, Len(rest)), j + 1, enc, alias)  \* mul2(tweak)
ImplEnc(k1, k2, sector8, pt, dst0, alias) == ImplLoop(k1, E(k2, LE128(sector8)), pt, <<>>, dst0, 0, TRUE, alias)
ImplDec(k1, k2, sector8, ct, dst0, alias) == ImplLoop(k1, E(k2, LE128(sector8)), ct, <<>>, dst0, 0, FALSE, alias)
=============================================================================
