SPECIFICATION Spec
CONSTANTS
  Lanes = 2
  SegLen = 3
  Passes = 2
  Variant = "rfc"
INVARIANTS TypeOK AreaAgrees BlockAgrees RefWritten NoRace FirstSlice Complete
CHECK_DEADLOCK FALSE
