SPECIFICATION Spec
CONSTANTS
  Menus <- MenusT
INVARIANTS VerifyIffValid FormatTable PresenceRule RefusesOutsideList NeverWidens OptOutRule
CHECK_DEADLOCK FALSE
