SPECIFICATION Spec
CONSTANTS
  Menus <- MenusT
  FixSign = TRUE
INVARIANTS VerifyIffValid FormatTable PresenceRule RefusesOutsideList SignAlsoRefuses NeverWidens OptOutRule
CHECK_DEADLOCK FALSE
