INIT Init
NEXT Next
CONSTANTS
  Seeds = {0, 1, 2, 3, 5, 8, 13, 21, 34, 55, 89, 144}
INVARIANTS Check
CHECK_DEADLOCK FALSE
