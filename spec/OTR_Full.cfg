SPECIFICATION Spec
CONSTANTS
  Starts <- StartA
  MaxData = 1
  FragChoices <- F12
  MaxFaults = 1
  FaultKinds <- AllFaults
  MaxAuth = 1
  Secrets <- S1
  Questions <- Q0
  AllowEnd = TRUE
  MaxRequery = 0
  FixCommitState = TRUE
  SeqSMP = FALSE
  FixSMPReset = TRUE
INVARIANTS TypeOK InOrderNoDup SlotBound NoSplice SMPSound NoNilKey
PROPERTIES TamperRejected
CHECK_DEADLOCK FALSE
