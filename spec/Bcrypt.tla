------------------------------- MODULE Bcrypt -------------------------------
(***************************************************************************)
(* C17 - bcrypt hashes verify exactly the right passwords and interoperate. *)
(*                                                                         *)
(* Models /repo/bcrypt/bcrypt.go (GenerateFromPassword,                    *)
(* CompareHashAndPassword, Cost, newFromHash, decodeVersion, decodeCost,   *)
(* checkCost, Hash), /repo/bcrypt/base64.go and the way                    *)
(* /repo/blowfish/block.go (ExpandKey, getNextWord) consumes key bytes.    *)
(*                                                                         *)
(* Part A - which passwords are the same key.  expensiveBlowfishSetup      *)
(* builds ckey = password || 0x00 and every ExpandKey / expandKeyWithSalt  *)
(* call XORs the P-array (KeyBytes = 18*4 = 72 bytes) with key bytes taken *)
(* cyclically (j++; if j >= len(key) { j = 0 }).  So the key schedule sees *)
(* only Expand(password || 0) = the first KeyBytes bytes of the infinite   *)
(* repetition of password || 0.  EksBlowfish itself is NOT transcribed: a  *)
(* hash is the abstract record [key, cost, salt] (assumption: distinct     *)
(* (key, cost, salt) give distinct 23-byte outputs).                       *)
(*                                                                         *)
(* Part B - the hash string "$2a$cc$" + 22 salt chars + 31 hash chars and  *)
(* what newFromHash / Cost / CompareHashAndPassword do with arbitrary      *)
(* byte strings, as a transcription of the parser over sequences of byte   *)
(* codes.                                                                  *)
(***************************************************************************)
EXTENDS Integers, Sequences, TLC

CONSTANT KeyBytes          \* 72 in the code; 4 in the exhaustively checked scaled instance

MinCost == 4
MaxCost == 31
DefaultCost == 10

(******************************** Part A ***********************************)
\* declarative: byte i (1-based) of the infinite repetition of k (k non-empty)
Expand(k) == [i \in 1..KeyBytes |-> k[((i - 1) % Len(k)) + 1]]
KeyOf(pw) == Expand(pw \o <<0>>)                      \* what the key schedule consumes for password pw
SameKey(p, q) == KeyOf(p) = KeyOf(q)

\* transcription of the consumption loop of ExpandKey / getNextWord (n bytes from position j, 0-based)
RECURSIVE Consume(_, _, _)
Consume(key, j, n) == IF n = 0 THEN <<>>
                      ELSE <<key[j + 1]>> \o Consume(key, IF j + 1 >= Len(key) THEN 0 ELSE j + 1, n - 1)
ScheduleInput(pw) == Consume(pw \o <<0>>, 0, KeyBytes)

\* GenerateFromPassword(password, cost)
EffCost(c) == IF c < MinCost THEN DefaultCost ELSE c
Generate(pw, c) == IF Len(pw) > KeyBytes THEN [t |-> "ErrPasswordTooLong"]
                   ELSE IF EffCost(c) > MaxCost THEN [t |-> "InvalidCostError"]
                   ELSE [t |-> "hash", key |-> KeyOf(pw), cost |-> EffCost(c)]
\* CompareHashAndPassword(well-formed hash h, candidate q): no length check on the candidate
Compare(h, q) == IF KeyOf(q) = h.key THEN "ok" ELSE "mismatch"

Prefix(s, n) == SubSeq(s, 1, IF Len(s) < n THEN Len(s) ELSE n)

\* properties of the relation, for a pair (p, q)
TranscriptionIsExpand(p) == ScheduleInput(p) = KeyOf(p)
RoundTrip(p) == Len(p) <= KeyBytes => /\ Generate(p, MinCost).t = "hash"
                                      /\ Compare(Generate(p, MinCost), p) = "ok"
TooLongRejected(p) == Len(p) > KeyBytes <=> Generate(p, MinCost).t = "ErrPasswordTooLong"
\* the property's wording: "the first 72 bytes of password||NUL" - exact for passwords of >= 71 bytes
LongIsPrefix(p) == Len(p) >= KeyBytes - 1 => KeyOf(p) = Prefix(p \o <<0>>, KeyBytes)
\* candidates and passwords of >= 72 bytes: only the first 72 bytes count, the NUL is never seen
Truncation(p, q) == Len(p) >= KeyBytes /\ Len(q) >= KeyBytes => (SameKey(p, q) <=> Prefix(p, KeyBytes) = Prefix(q, KeyBytes))
\* a 71-byte password and the same password followed by NUL (and then anything) are one key
NulBoundary(p, q) == Len(p) = KeyBytes - 1 /\ Len(q) >= KeyBytes /\ Prefix(q, KeyBytes) = p \o <<0>> => SameKey(p, q)
\* passwords of equal length <= 72 are the same key only if equal; a near miss never verifies
EqualLengthInjective(p, q) == Len(p) = Len(q) /\ Len(p) <= KeyBytes => (SameKey(p, q) <=> p = q)
\* the cyclic repetition: p and p || 0 || p (|| 0 || p ...) are one key
Periodic(p, q) == q = p \o <<0>> \o p => SameKey(p, q)
\* shorter than the key: appending a non-NUL byte, or changing any byte, or dropping the last byte changes the key
ShortSensitive(p, q) == /\ Len(p) < KeyBytes /\ (\E x \in 1..255 : q = Append(p, x)) => ~SameKey(p, q)

(******************************** Part B ***********************************)
(* A hash string is a sequence of codes: 0..255 = that byte; 1000+i = the i-th character of the salt the hash was   *)
(* made with (i in 1..22); 2000+i = the i-th character of its 31-character hash field; 900 = some alphabet          *)
(* character that changes the decoded value at that place; 901 = a different alphabet character with the same       *)
(* significant bits (only for the 22nd salt character, whose low 4 bits base64 decoding ignores).                   *)
Dollar == 36
IsDigit(b) == b \in 48..57
IsAlpha64(b) == b >= 900 \/ b \in {46, 47} \/ b \in 48..57 \/ b \in 65..90 \/ b \in 97..122    \* "./A-Za-z0-9" or symbolic

Canon(major, minor, c1, c2) ==      \* minor = 0: "$2$" form without a minor version
  <<Dollar, major>> \o (IF minor = 0 THEN <<>> ELSE <<minor>>) \o <<Dollar, c1, c2, Dollar>>
    \o [i \in 1..22 |-> 1000 + i] \o [i \in 1..31 |-> 2000 + i]

\* strconv.Atoi on two bytes
Atoi2(a, b) == IF IsDigit(a) /\ IsDigit(b) THEN [ok |-> TRUE, v |-> 10 * (a - 48) + (b - 48)]
               ELSE IF a = 43 /\ IsDigit(b) THEN [ok |-> TRUE, v |-> b - 48]
               ELSE IF a = 45 /\ IsDigit(b) THEN [ok |-> TRUE, v |-> 0 - (b - 48)]
               ELSE [ok |-> FALSE, v |-> 0]

\* newFromHash: error class or the parsed fields
Parse(s) ==
  IF Len(s) < 59 THEN [t |-> "too-short"]                                    \* ErrHashTooShort
  ELSE IF s[1] # Dollar THEN [t |-> "bad-prefix"]                            \* InvalidHashPrefixError
  ELSE IF s[2] > 50 THEN [t |-> "version-too-new"]                           \* HashVersionTooNewError (major > '2')
  ELSE LET n  == IF s[3] # Dollar THEN 4 ELSE 3                              \* decodeVersion: bytes consumed (s[4] is not looked at)
           at == Atoi2(s[n + 1], s[n + 2])
       IN IF ~at.ok THEN [t |-> "bad-cost"]                                  \* strconv error
          ELSE IF at.v < MinCost \/ at.v > MaxCost THEN [t |-> "bad-cost"]   \* InvalidCostError
          ELSE [t |-> "parsed", cost |-> at.v,
                salt |-> SubSeq(s, n + 4, n + 25),                           \* decodeCost consumes 3 (separator unchecked)
                hash |-> SubSeq(s, n + 26, Len(s))]

CostOutcome(s) == LET p == Parse(s) IN IF p.t = "parsed" THEN [t |-> "ok", cost |-> p.cost] ELSE [t |-> p.t, cost |-> 0]

\* the 31 bytes Hash() copies from p.hash into its 60-byte array (zero filled, extra bytes dropped)
HashField(h) == [i \in 1..31 |-> IF i <= Len(h) THEN h[i] ELSE 0]
OrigSalt == [i \in 1..22 |-> 1000 + i]
OrigHash == [i \in 1..31 |-> 2000 + i]
SameSalt(f) == \A i \in 1..22 : f[i] = 1000 + i \/ (i = 22 /\ f[i] = 901)

\* CompareHashAndPassword(s, candidate); origCost = the cost the hash was made with, same = candidate is the same key
CompareOutcome(s, origCost, same) ==
  LET p == Parse(s) IN
  IF p.t # "parsed" THEN p.t
  ELSE IF \E i \in 1..22 : ~IsAlpha64(p.salt[i]) THEN "bad-salt"             \* base64 CorruptInputError from expensiveBlowfishSetup
  ELSE IF same /\ p.cost = origCost /\ SameSalt(p.salt) /\ HashField(p.hash) = OrigHash THEN "ok"
  ELSE "mismatch"                                                            \* ErrMismatchedHashAndPassword

\* the grammar the property names: $2a$ / $2b$ / $2y$, two digits in range, 22 + 31 alphabet characters, nothing else
WellFormed(s) == /\ Len(s) = 60 /\ s[1] = Dollar /\ s[2] = 50 /\ s[3] \in {97, 98, 121} /\ s[4] = Dollar
                 /\ IsDigit(s[5]) /\ IsDigit(s[6]) /\ 10 * (s[5] - 48) + (s[6] - 48) \in MinCost..MaxCost /\ s[7] = Dollar
                 /\ \A i \in 8..60 : IsAlpha64(s[i]) /\ s[i] # 901
\* malformations for which the package has an error and the property demands one
MustFail == {"too-short", "bad-prefix", "version-too-new", "bad-cost", "bad-salt"}
=============================================================================
