SPECIFICATION Spec
CONSTANTS
  Inputs <- AllT
  Mutations = {"none", "flip", "wrongcrc", "dropcrc"}
INVARIANTS RoundTrip HeaderExact CorruptRejected PadBitsOnly MissingCrcAccepted Shape B64Inverse Emit
CHECK_DEADLOCK FALSE
