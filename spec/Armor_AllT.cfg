SPECIFICATION Spec
CONSTANTS
  Inputs <- AllT
  Mutations = {"none", "flip", "wrongcrc", "dropcrc"}
INVARIANTS RoundTrip HeaderExact CorruptRejected ShortCrcRejected PadBitsOnly MissingCrcAccepted Shape B64Inverse Emit
CHECK_DEADLOCK FALSE
