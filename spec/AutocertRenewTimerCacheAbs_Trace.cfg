SPECIFICATION TraceSpec
CONSTANTS
  AProcs = {1, 2, 3, 4, 5, 6}
  AKeys = {"a.verif.test", "a.verif.test+rsa", "xn--bcher-kva.verif.test+token", "tok_en-1+http-01"}
  AVals = {1}
  AllowOkNoStore = TRUE
CONSTRAINT HWM
POSTCONDITION TraceAccepted
CHECK_DEADLOCK FALSE
