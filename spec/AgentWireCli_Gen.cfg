SPECIFICATION CSpec
CONSTANTS
  MaxMsg = 16777216
  GenKeys = {"ed1", "ed2", "ec1", "rsa1", "dsa1", "ed1c", "ec1c", "rsa1c", "dsa1c"}
INVARIANTS ReqReadBack FrameShape NoFalseSuccess Emit EmitTable
CHECK_DEADLOCK FALSE
