SPECIFICATION SSpec
CONSTANTS
  Keys = {"ed1", "ed2", "ec1", "rsa1", "dsa1", "ed1c", "ec1c", "rsa1c", "dsa1c"}
  RSAKeys = {"rsa1", "rsa1c"}
  Pass = {"p", "q", "e"}
  Lifetimes = {0}
  Ticks = {}
  Comments = {"a", "b"}
  Flags = {0}
  MaxLen = 0
  MaxMsg = 16777216
  GenKeys = {"ed1", "rsa1c"}
  MaxFrames = 99
  AfterEnd = 1
INVARIANTS OneReplyEach RoundTrip Emit EmitTable
PROPERTIES RejectKeepsAgent
VIEW WitnessView
CHECK_DEADLOCK FALSE
