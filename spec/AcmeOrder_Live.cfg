\* liveness: a call that sent a request returns or the bounded server is exhausted
SPECIFICATION FairSpec
CONSTANTS
  OpSet <- WaitOps
  Bundles = {TRUE}
  MaxCalls = 1
  MaxReq = 3
  MaxEnv = 1
  Shapes <- CoreShapes
  RetrySet = {0, 3}
  Budget = 1
  Malformed = FALSE
  CertKinds <- FewCerts
  AltSet = {0, 2}
  InitStates <- InitReady
  CallOK <- AnyCall
  EnvOK <- AnyEnv
  FixNegRA = FALSE
  Mut = "none"
INVARIANTS TypeOK
PROPERTIES Terminates
CHECK_DEADLOCK FALSE
