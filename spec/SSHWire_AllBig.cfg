SPECIFICATION Spec
CONSTANTS
  Messages <- AllMessages
  Menu <- MenuT
  Base <- BaseQ
INVARIANTS RoundTrip MpintMinimal WrongTypeRejected TrailingRejected TruncRule HugeLenRejected DecodeConsistent DecodeOwn
CHECK_DEADLOCK FALSE
