SPECIFICATION Spec
CONSTANTS
  IntBits = 31
  KeyLenGuard = TRUE
  MemLog2 = 27
  WorkLog2 = 20
  NSet <- Bnd32
  RSet <- Bnd32
  PSet <- Bnd32
  KSet <- BndK32
INVARIANTS NeverPanics Conforms DivisionFormIsProductForm WrapCovered 
CHECK_DEADLOCK FALSE
