SPECIFICATION Spec
CONSTANTS
  Keys <- BoundaryKeys
INVARIANTS KeyWellFormed RoundTrip PointWidth MpintMinimal Coverage Emit
CHECK_DEADLOCK FALSE
