\* Documented counterexample: the design in which the MAC output is appended into the caller's
\* slice (Design = "caller").  TLC MUST report a violation of AbsContiguous: Read ending on a
\* block boundary, Scribble of that buffer, then a Read that has to generate a new block.
SPECIFICATION Spec
CONSTANTS
  H = 2
  NBufs = 2
  Design = "caller"
  MaxBlocks = 5
  ReadSizes = {0, 1, 2, 3, 4, 5}
INVARIANTS TypeOK
PROPERTIES AbsContiguous
CHECK_DEADLOCK FALSE
