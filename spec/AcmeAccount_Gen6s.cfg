SPECIFICATION GenSpec
CONSTANTS
  Callers <- One
  MaxCalls = 6
  Ops <- OpsAll
  Inject <- InjSmall
  Exclusive = TRUE
  Mut = "none"
  InitSet <- InitSmall
VIEW GenView
INVARIANTS Emit
CHECK_DEADLOCK FALSE
