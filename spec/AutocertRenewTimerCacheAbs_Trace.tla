--------------------- MODULE AutocertRenewTimerCacheAbs_Trace ---------------------
(* Binding T for X05 (c): validates histories recorded from the REAL autocert.DirCache (goroutines
   calling Put / Get / Delete on a real directory, some with contexts cancelled before or during the
   call) against the atomic map AutocertRenewTimerCacheAbs.

   Logged events (one global order: an invocation is logged before the call starts, a response after
   it returned, a cancellation just before cancel() is called):
     inv     p, op (put|get|del), k, v    v: the value a Put writes; for Get/Delete the operation's number
     cancel  p                            the context of p's current operation is about to be cancelled
     res     p, r (ok|miss|ctx|val), v    v: the value a Get returned (decoded and checked to be whole)
   Silent: the linearization points (ALin), a cancelled Put deciding not to store (ANoStore), and the
   late effects of abandoned goroutines (AOrphan).  A Get that returned bytes which are not one whole
   value is reported by the harness directly and logged as r = "partial", which nothing explains. *)
EXTENDS AutocertRenewTimerCacheAbs, TraceLib

TraceInit == AInit /\ l = 1 /\ HWMInit

TReset == /\ IsEvent("reset")
          /\ store' = [k \in AKeys |-> None]
          /\ aop' = [p \in AProcs |-> NoOp] /\ aph' = [p \in AProcs |-> "idle"]
          /\ ares' = [p \in AProcs |-> None] /\ acan' = [p \in AProcs |-> FALSE]
          /\ orphans' = {}

TInv == /\ IsEvent("inv") /\ Ev.p \in AProcs /\ Ev.k \in AKeys
        /\ AInvoke(Ev.p, [op |-> Ev.op, k |-> Ev.k, v |-> Ev.v])
TCancel == IsEvent("cancel") /\ Ev.p \in AProcs /\ ACancel(Ev.p)
Code == CASE Ev.r = "ok" -> ROk [] Ev.r = "miss" -> RMiss [] Ev.r = "ctx" -> RCtx [] Ev.r = "val" -> Ev.v [] OTHER -> 0 - 99
TRes == IsEvent("res") /\ Ev.p \in AProcs /\ AReturn(Ev.p, Code)

Silent == /\ \/ \E p \in AProcs : ALin(p) \/ ANoStore(p)
             \/ \E o \in orphans : AOrphan(o)
          /\ UNCHANGED l

TraceNext == TReset \/ TInv \/ TCancel \/ TRes \/ Silent
TraceSpec == TraceInit /\ [][TraceNext]_<<avars, l>>
=============================================================================
