------------------------------ MODULE MDBufImpl ------------------------------
(***************************************************************************)
(* C14 - implementation-shaped specification of the Write/Sum/Reset        *)
(* bookkeeping shared by /repo/md4/md4.go and /repo/ripemd160/ripemd160.go *)
(* (type digest: s, x [64]byte, nx, len/tc):                               *)
(*   Write: count the bytes; top up a partial buffer and compress it when  *)
(*          full; compress whole blocks directly from p (_Block returns    *)
(*          the number of bytes consumed); buffer the rest.                *)
(*   Sum:   on a copy d of the object: tmp = 0x80 0 0 ...; if len%64 < 56  *)
(*          Write(tmp[0 : 56-len%64]) else Write(tmp[0 : 64+56-len%64]);   *)
(*          Write the 8 length bytes; panic if d.nx != 0; output d.s.      *)
(*   Reset: initial chaining value, nx = 0, len = 0.                       *)
(* Bytes are symbolic (MDBuf); the chaining value s is represented by the  *)
(* sequence of blocks that went through _Block since the last Reset.       *)
(* TLC checks on scaled BS/LF that this refines MDBuf: whatever the        *)
(* chunking and wherever Sum is called, the blocks compressed for a digest *)
(* are exactly the definition's padded blocks, and the running state is    *)
(* untouched by Sum.                                                       *)
(***************************************************************************)
EXTENDS Integers, Sequences

CONSTANTS BS, LF, WSet, MaxLen
VARIABLES chain,    \* blocks passed through _Block (determines d.s)
          x,        \* d.x: BS slots (NONE: never written)
          nx,       \* d.nx
          cnt,      \* d.len (md4) / d.tc (ripemd160)
          last
ivars == <<chain, x, nx, cnt, last>>

\* a buffer slot whose content is dead (never written, or already compressed / discarded by Reset): the bytes are
\* still there in the code, but no correct execution reads them, so they are collapsed into one symbol that is
\* not a byte of any padded message - reading one breaks the refinement
NONE == 0 - 99
Dead == [i \in 1..BS |-> NONE]
Min(a, b) == IF a < b THEN a ELSE b
Abs == INSTANCE MDBuf WITH written <- cnt

\* _Block(d, p): compress the whole blocks of p; returns <<new chain, bytes consumed>>
BlockFn(ch, p) == LET nb == Len(p) \div BS IN
  << ch \o [b \in 1..nb |-> [i \in 1..BS |-> p[(b - 1) * BS + i]]], nb * BS >>
\* d.Write(p) on the state d = [chain, x, nx, cnt]
WriteOn(d, p) ==
  LET n0 == IF d.nx > 0 THEN Min(Len(p), BS - d.nx) ELSE 0
      x1 == [i \in 1..BS |-> IF i > d.nx /\ i <= d.nx + n0 THEN p[i - d.nx] ELSE d.x[i]]
      full == d.nx > 0 /\ d.nx + n0 = BS
      ch1 == IF full THEN BlockFn(d.chain, x1)[1] ELSE d.chain
      nx1 == IF full THEN 0 ELSE d.nx + n0
      p1 == SubSeq(p, n0 + 1, Len(p))
      bf == BlockFn(ch1, p1)
      p2 == SubSeq(p1, bf[2] + 1, Len(p1))
  IN [chain |-> bf[1],
      x |-> LET x2 == IF full THEN Dead ELSE x1 IN
            IF Len(p2) > 0 THEN [i \in 1..BS |-> IF i <= Len(p2) THEN p2[i] ELSE x2[i]] ELSE x2,
      nx |-> IF Len(p2) > 0 THEN Len(p2) ELSE nx1,
      cnt |-> d.cnt + Len(p)]
Cur == [chain |-> chain, x |-> x, nx |-> nx, cnt |-> cnt]
Tmp(n) == [i \in 1..n |-> IF i = 1 THEN Abs!P80 ELSE Abs!ZB]

Init == /\ chain = <<>> /\ x = Dead /\ nx = 0 /\ cnt = 0
        /\ last = Abs!Ev("new", 0, 0, Abs!NoDigest)

Write(n) ==
  /\ cnt + n <= MaxLen
  /\ LET d == WriteOn(Cur, [k \in 1..n |-> cnt + k - 1]) IN
     /\ chain' = d.chain /\ x' = d.x /\ nx' = d.nx /\ cnt' = d.cnt
     /\ last' = Abs!Ev("write", n, d.cnt, Abs!NoDigest)

Sum ==
  /\ UNCHANGED <<chain, x, nx, cnt>>                                 \* d := *d0
  /\ LET r  == cnt % BS
         d1 == WriteOn(Cur, IF r < BS - LF THEN Tmp(BS - LF - r) ELSE Tmp(BS + BS - LF - r))
         d2 == WriteOn(d1, [i \in 1..LF |-> Abs!LB(i - 1)])             \* the length bytes: len<<3, little endian
     IN last' = IF d2.nx # 0 THEN Abs!Ev("sum-panic", 0, cnt, Abs!NoDigest)    \* panic("d.nx != 0")
                ELSE Abs!Ev("sum", 0, cnt, [blocks |-> d2.chain, lenval |-> cnt])

Reset ==
  /\ chain' = <<>> /\ nx' = 0 /\ cnt' = 0 /\ x' = Dead
  /\ last' = Abs!Ev("reset", 0, 0, Abs!NoDigest)

Next == (\E n \in WSet : Write(n)) \/ Sum \/ Reset
Spec == Init /\ [][Next]_ivars

Refines == Abs!Spec
AbsSumPure == Abs!SumPure
AbsInv == Abs!TypeOK /\ Abs!SumIsDefinition
PadShape == Abs!PadShape
NoPanic == last.op # "sum-panic"
\* the bookkeeping invariant behind the refinement
BufInv == /\ nx = cnt % BS /\ nx \in 0..(BS - 1)
          /\ chain = Abs!Blocks([k \in 1..(cnt - nx) |-> k - 1])
          /\ \A i \in 1..nx : x[i] = cnt - nx + i - 1
=============================================================================
