--------------------------------- MODULE OTR ---------------------------------
(* Off-the-Record messaging (protocol version 2) as golang.org/x/crypto/otr implements it:
   otr.go  Conversation.Receive / Send / End / Authenticate / IsEncrypted, processFragment, encode,
           the AKE state machine (authStateNone / AwaitingDHKey / AwaitingRevealSig / AwaitingSig,
           SYN-crossing by comparing the hashed commits, a malformed commit), processData / generateData (key ids, the
           four key slots, counters, DH-key rotation), TLV dispatch;
   smp.go  processSMP / startSMP (smpState1..4, secret, saved TLV, abort handling).

   Two parties "a" and "b", one in-order channel per direction (the harness is the network).  One
   action per public call: Deliver(p) = p.Receive(head of p's channel), UserSend, UserEnd, UserAuth;
   network faults Drop / Dup / Tamper are separate actions (bounded by MaxFaults).

   Cryptography is abstracted by provenance tokens:
     - every Diffie-Hellman private value a party draws (x of a commit, y of a DH-key message, the
       keys made by rotateDHKeys) is a fresh integer token Base(p)+serial; a public value carries the
       token of its private value.  Two sides derive the same keys iff they hold the same pair of tokens;
     - a commit is identified by the token of its x (r, gx and the digest are made together);
       the order of two commit digests is decided by `hi`, the party whose digests are the greater
       ones (the harness makes that true by biasing the random source, see harness/c47);
     - an SMP run compares the secret tokens the two Authenticate calls supplied.
   A user message is an integer id (> 0); the harness materialises it as bytes (no NUL byte: the
   data format ends the human-readable part at the first NUL).

   Where the property is silent the model records what the code does (the duplicate-DH-key
   retransmission quirk, gxBytes decrypted in place by a failed reveal-signature, key slots allocated
   before the MAC check, SMP state kept after a failed run, answers to a superseded SMP run failing their proofs); only the property's clauses are stated as
   invariants/temporal formulas below. *)
EXTENDS Integers, Sequences, FiniteSets, TLC

CONSTANTS Starts,       \* set of subsets of {"a","b"}: who has put the query message on the wire initially
          MaxData,      \* user messages each party may send
          FragChoices,  \* set of fragment counts an encoder may be configured for ({1,2,3})
          MaxFaults,    \* network faults in total
          FaultKinds,   \* subset of {"drop","dup","tamper"}
          MaxAuth,      \* Authenticate calls that start an SMP run, in total
          Secrets,      \* secret tokens b's user may hold; a's user holds "s1"
          Questions,    \* subset of {0,1}: SMP started without / with a question
          AllowEnd,     \* may a user call End (once in total)
          MaxRequery,   \* query messages a user may send again while encrypted (re-keying), in total
          SeqSMP,       \* TRUE: a user starts an SMP run only when the network is quiet (sequential runs; crossing runs excluded)
          FixSMPReset,  \* TRUE: the code since otr 9e113f0 (processSMP resets the SMP state on smpFailureError);
                        \* FALSE only in OTR_DocSMPStale.cfg: the code before (after a FAILED run the SMP state and secret were kept:
                        \* state 3 at the responder until the abort arrived, state 4 at the initiator for good), whose RunOutcome
                        \* counterexample (finding C47-S1) TLC must still find
          FixCommitState \* TRUE: the code since otr b85d235 (AwaitingRevealSig entered only after the D-H commit parsed);
                         \* FALSE only in OTR_DocCommitState.cfg, whose counterexample (a state without a D-H key) TLC must find

Parties == {"a", "b"}
Peer(p) == IF p = "a" THEN "b" ELSE "a"
Base(p) == IF p = "a" THEN 100 ELSE 200

VARIABLES cv,      \* cv[p]: the Conversation object of p
          net,     \* net[p]: wire messages in flight to p (in order)
          hi,      \* party whose commit digests compare greater
          nf,      \* nf[p]: number of fragments p's encoder cuts every message into (1 = unfragmented)
          runs,    \* history of the SMP runs of the session: who started, the secrets supplied FOR THAT RUN, the events per side
          sent,    \* sent[p]: ids of the user messages p sent while encrypted (history)
          dlv,     \* dlv[p]: ids of the user messages delivered to p's user (history)
          smpev,   \* smpev[p]: SMP SecurityChange events seen by p with the secrets of the run (history)
          bud,     \* remaining budgets
          last     \* the last call and its observable result (what binding R compares)
vars == <<cv, net, hi, nf, runs, sent, dlv, smpev, bud, last>>

-----------------------------------------------------------------------------
(* Logical messages: one record shape (TLC compares records of one shape only). *)
NoMsg == [t |-> "none", c |-> 0, y |-> 0, kid |-> 0, sk |-> 0, rk |-> 0, ny |-> 0, ctr |-> 0,
          mt |-> 0, tt |-> 0, body |-> 0, tlv |-> "none", sec |-> "", q |-> 0]
QueryMsg       == [NoMsg EXCEPT !.t = "query"]
Commit(c)      == [NoMsg EXCEPT !.t = "commit", !.c = c]
DHKey(y)       == [NoMsg EXCEPT !.t = "dhkey", !.y = y]
Reveal(c, y, k) == [NoMsg EXCEPT !.t = "reveal", !.c = c, !.y = y, !.kid = k]
SigMsg(c, y, k) == [NoMsg EXCEPT !.t = "sig", !.c = c, !.y = y, !.kid = k]

(* A wire message: fragment k of n of logical message m (n = 1: sent whole); bad = bytes modified in flight. *)
Wire(k, n, m) == [k |-> k, n |-> n, m |-> m, bad |-> FALSE]
Encode(n, m) == [i \in 1..n |-> Wire(i, n, m)]
RECURSIVE EncodeAll(_, _)
EncodeAll(n, ms) == IF ms = <<>> THEN <<>> ELSE Encode(n, Head(ms)) \o EncodeAll(n, Tail(ms))

-----------------------------------------------------------------------------
(* The Conversation object. *)
NewConv(p) ==
  [id |-> p, st |-> "plain", auth |-> "none", ser |-> 0,
   x |-> 0,                   \* token of c.x (our commit)
   held |-> 0, heldDec |-> FALSE,  \* commit in c.gxBytes/c.digest; heldDec: gxBytes already decrypted in place
   gx |-> 0, gy |-> 0,        \* tokens of c.gx, c.gy (0 = nil)
   myKeyId |-> 0, myCur |-> 0, myLast |-> 0,
   theirKeyId |-> 0, theirCur |-> 0, theirLast |-> 0,
   slots |-> {}, myCtr |-> 0,
   fk |-> 0, fn |-> 0, fbuf |-> <<>>,
   smp |-> 1, ssec |-> "", saved |-> FALSE, savedQ |-> 0, savedRun |-> 0, peerSec |-> "", question |-> 0,
   smpA |-> 0,                \* token of the exponents a2,a3 we drew as initiator of the current SMP run
   smpG |-> 0, smpB |-> 0,    \* as responder: token of the initiator's g2a,g3a we answered, token of our b2,b3
   smpPB |-> 0]               \* as initiator: token of the responder's exponents taken from its SMP2

(* Result of a call: new object, logical messages to transmit, delivered user message, flags. *)
Res(c, outs, body, encf, chg, err) ==
  [c |-> c, outs |-> outs, body |-> body, encf |-> encf, chg |-> chg, err |-> err]
Nothing(c) == Res(c, <<>>, 0, FALSE, "none", FALSE)
Fail(c)    == Res(c, <<>>, 0, FALSE, "none", TRUE)

Fresh(c) == Base(c.id) + c.ser + 1

(* c.reset() *)
ResetKeys(c) == [c EXCEPT !.myKeyId = 0, !.slots = {}]

(* rotateDHKeys: evict the slots of our retired key id, current key becomes last, draw a new one. *)
Rotate(c) ==
  [c EXCEPT !.slots = {s \in c.slots : s.mk # c.myKeyId - 1},
            !.myLast = c.myCur, !.myCur = Fresh(c), !.ser = c.ser + 1, !.myKeyId = c.myKeyId + 1]

(* generateDHCommit *)
GenCommit(c) ==
  LET t == Fresh(c) IN
  [c EXCEPT !.ser = c.ser + 1, !.x = t, !.gx = t, !.gy = 0, !.held = t, !.heldDec = FALSE]

(* processDHCommit + reset + generateDHKey *)
AcceptCommit(c, m) ==
  LET t == Fresh(c) IN
  [ResetKeys(c) EXCEPT !.held = m.c, !.heldDec = FALSE, !.auth = "awaitReveal", !.ser = c.ser + 1, !.gy = t]

(* generateRevealSig: s = gy^x, myKeyId++, our gx becomes the current key, rotate, counter++ *)
GenReveal(c) ==
  LET c1 == [c EXCEPT !.myKeyId = c.myKeyId + 1]
      c2 == Rotate([c1 EXCEPT !.myCur = c.gx])
  IN [c |-> [c2 EXCEPT !.myCtr = c.myCtr + 1, !.auth = "awaitSig"],
      m |-> Reveal(c.x, c.gy, c1.myKeyId)]

(* generateSig *)
GenSig(c) ==
  LET c1 == [c EXCEPT !.myKeyId = c.myKeyId + 1]
      c2 == Rotate([c1 EXCEPT !.myCur = c.gy])
  IN [c |-> [c2 EXCEPT !.myCtr = c.myCtr + 1],
      m |-> SigMsg(c.gx, c.gy, c1.myKeyId)]

-----------------------------------------------------------------------------
(* AKE messages *)
RecvQuery(c) ==
  LET c1 == GenCommit(ResetKeys([c EXCEPT !.auth = "awaitDHKey"])) IN
  Res(c1, <<Commit(c1.held)>>, 0, FALSE, "none", FALSE)

(* A malformed D-H commit (bad: the harness sends a commit cut down to its header): processDHCommit /
   compareToDHCommit return an error.  gxBytes is assigned before the error is noticed, so the commit held is gone. *)
RecvBadCommit(c) ==
  CASE c.auth = "none" ->
         IF FixCommitState THEN Fail([c EXCEPT !.held = 0, !.heldDec = TRUE])
         ELSE Fail([c EXCEPT !.auth = "awaitReveal", !.held = 0, !.heldDec = TRUE])   \* before b85d235: no D-H key was ever made (gy = 0)
    [] c.auth = "awaitDHKey" -> Fail(c)                                                \* compareToDHCommit fails first, nothing touched
    [] c.auth = "awaitReveal" -> Fail([c EXCEPT !.held = 0, !.heldDec = TRUE])
    [] c.auth = "awaitSig" -> Fail([c EXCEPT !.held = 0, !.heldDec = TRUE])

RecvCommit(c, m) ==
  CASE c.auth = "none" ->
         LET c1 == AcceptCommit(c, m) IN Res(c1, <<DHKey(c1.gy)>>, 0, FALSE, "none", FALSE)
    [] c.auth = "awaitDHKey" ->
         IF c.id = hi       \* SYN-crossing: our digest is the greater one, we keep our commit
         THEN Res(c, <<Commit(c.held)>>, 0, FALSE, "none", FALSE)
         ELSE LET c1 == AcceptCommit(c, m) IN Res(c1, <<DHKey(c1.gy)>>, 0, FALSE, "none", FALSE)
    [] c.auth = "awaitReveal" ->
         Res([c EXCEPT !.held = m.c, !.heldDec = FALSE], <<DHKey(c.gy)>>, 0, FALSE, "none", FALSE)
    [] c.auth = "awaitSig" ->
         LET c1 == AcceptCommit(c, m) IN Res(c1, <<DHKey(c1.gy)>>, 0, FALSE, "none", FALSE)

RecvDHKey(c, m) ==
  CASE c.auth = "awaitDHKey" ->
         IF c.gy # 0 /\ c.gy = m.y THEN Fail(c)        \* "unexpected duplicate DH key" (c.gy is nil here in practice)
         ELSE LET c1 == IF c.gy = 0 THEN [c EXCEPT !.gy = m.y] ELSE c
                  g == GenReveal(c1)
              IN Res(g.c, <<g.m>>, 0, FALSE, "none", FALSE)
    [] c.auth = "awaitSig" ->
         \* quirk: a duplicate DH key is answered with a DH-key message carrying the peer's own value
         IF c.gy = m.y THEN Res(c, <<DHKey(c.gy)>>, 0, FALSE, "none", FALSE) ELSE Nothing(c)
    [] OTHER -> Nothing(c)

RecvReveal(c, m) ==
  IF c.auth # "awaitReveal" THEN Nothing(c)
  ELSE IF m.c = c.held /\ ~c.heldDec /\ m.y = c.gy
       THEN LET c1 == [c EXCEPT !.gx = m.c, !.heldDec = TRUE, !.theirKeyId = m.kid, !.theirCur = m.c, !.theirLast = 0]
                g == GenSig(c1)
            IN Res([g.c EXCEPT !.auth = "none", !.st = "enc"], <<g.m>>, 0, FALSE, "newkeys", FALSE)
       ELSE Fail([c EXCEPT !.heldDec = TRUE])    \* gxBytes were XORed in place: a retry of the genuine message fails too

RecvSig(c, m) ==
  IF c.auth # "awaitSig" THEN Nothing(c)
  ELSE IF m.c = c.x /\ m.y = c.gy
       THEN Res([c EXCEPT !.theirKeyId = m.kid, !.theirCur = c.gy, !.theirLast = 0, !.auth = "none", !.st = "enc"],
                <<>>, 0, FALSE, "newkeys", FALSE)
       ELSE Fail(c)

-----------------------------------------------------------------------------
(* Data messages.  calcDataKeys(myKeyId, theirKeyId): cache hit, or a free slot filled from the key ids. *)
SlotFor(c, mk, tk) ==
  IF \E s \in c.slots : s.mk = mk /\ s.tk = tk
  THEN [ok |-> TRUE, new |-> FALSE, s |-> CHOOSE s \in c.slots : s.mk = mk /\ s.tk = tk]
  ELSE LET mine   == IF mk = c.myKeyId THEN c.myCur ELSE IF mk = c.myKeyId - 1 THEN c.myLast ELSE 0
           theirs == IF tk = c.theirKeyId THEN c.theirCur
                     ELSE IF tk = c.theirKeyId - 1 /\ c.theirLast # 0 THEN c.theirLast ELSE 0
       IN IF Cardinality(c.slots) >= 4 \/ mine = 0 \/ theirs = 0
          THEN [ok |-> FALSE, new |-> FALSE, s |-> [mk |-> 0, tk |-> 0, mt |-> 0, tt |-> 0, ctr |-> 0]]
          ELSE [ok |-> TRUE, new |-> TRUE, s |-> [mk |-> mk, tk |-> tk, mt |-> mine, tt |-> theirs, ctr |-> 0]]

(* generateData(msg, tlv): keys (myKeyId-1, theirKeyId), our next public key, our counter. *)
Tlv(t, a, b, sc, q) == [tlv |-> t, c |-> a, y |-> b, sec |-> sc, q |-> q]
GenDataR(c, body, tv) ==
  LET sl == SlotFor(c, c.myKeyId - 1, c.theirKeyId) IN     \* never fails after a completed AKE (SlotsSuffice)
  [c |-> [c EXCEPT !.slots = c.slots \cup {sl.s}, !.myCtr = c.myCtr + 1],
   m |-> [NoMsg EXCEPT !.t = "data", !.sk = c.myKeyId - 1, !.rk = c.theirKeyId, !.ny = c.myCur, !.ctr = c.myCtr,
                       !.mt = sl.s.mt, !.tt = sl.s.tt, !.body = body, !.tlv = tv.tlv, !.sec = tv.sec, !.q = tv.q,
                       !.c = tv.c, !.y = tv.y],
   ok |-> sl.ok]
GenData(c, body, tlv, sc, q) == GenDataR(c, body, Tlv(tlv, 0, 0, sc, q))

ResetSMP(c) == [c EXCEPT !.smp = 1, !.ssec = "", !.question = 0]
Abort == Tlv("abort", 0, 0, "", 0)
NoReply == Tlv("none", 0, 0, "", 0)
SmpRes(c, reply, chg, err) == [c |-> c, reply |-> reply, chg |-> chg, err |-> err]

(* processSMP for the TLV of data message m.  An SMP message carries, in fields c and y, the tokens of the
   initiator's and the responder's exponents it was computed from: the zero-knowledge proofs of steps 2-4 only
   verify against the exponents of the same run (a run restarted by a second Authenticate invalidates answers
   to the first). *)
ProcessSMP(c, m) ==
  CASE m.tlv = "abort" ->
         SmpRes(ResetSMP(c), NoReply, IF c.smp # 1 THEN "smpfailed" ELSE "none", FALSE)
    [] m.tlv \in {"smp1", "smp1q"} ->
         LET c0 == IF m.tlv = "smp1q" THEN [c EXCEPT !.question = m.q] ELSE c IN
         IF c0.smp # 1 THEN SmpRes(ResetSMP(c0), Abort, "none", FALSE)
         ELSE IF c0.ssec = "" THEN SmpRes([c0 EXCEPT !.saved = TRUE, !.savedQ = m.q, !.savedRun = m.c], NoReply, "smpneeded", FALSE)
         ELSE LET b == Fresh(c0) IN
              SmpRes([c0 EXCEPT !.smp = 3, !.smpG = m.c, !.smpB = b, !.ser = c0.ser + 1],
                     Tlv("smp2", m.c, b, c0.ssec, 0), "none", FALSE)
    [] m.tlv = "smp2" ->
         IF c.smp # 2 THEN SmpRes(ResetSMP(c), Abort, "none", FALSE)
         ELSE IF m.c # c.smpA THEN SmpRes(c, Abort, "none", TRUE)           \* "ZKP cP failed": abort sent, state 2 kept
         ELSE SmpRes([c EXCEPT !.smp = 4, !.peerSec = m.sec, !.smpPB = m.y], Tlv("smp3", c.smpA, m.y, c.ssec, 0), "none", FALSE)
    [] m.tlv = "smp3" ->
         IF c.smp # 3 THEN SmpRes(ResetSMP(c), Abort, "none", FALSE)
         ELSE IF m.c # c.smpG \/ m.y # c.smpB THEN SmpRes(c, NoReply, "none", TRUE)   \* ZKP failed: error, nothing sent
         ELSE IF m.sec = c.ssec
              THEN SmpRes([c EXCEPT !.smp = 1, !.ssec = ""], Tlv("smp4", c.smpG, c.smpB, "", 0), "smpcomplete", FALSE)
              ELSE SmpRes(IF FixSMPReset THEN ResetSMP(c) ELSE c,                     \* before 9e113f0: state 3 and secret kept
                          Tlv("smp4", c.smpG, c.smpB, "", 0), "smpfailed", FALSE)
    [] m.tlv = "smp4" ->
         IF c.smp # 4 THEN SmpRes(ResetSMP(c), Abort, "none", FALSE)
         ELSE IF m.c # c.smpA \/ m.y # c.smpPB THEN SmpRes(c, Abort, "none", TRUE)    \* ZKP failed: abort sent, state 4 kept
         ELSE IF c.peerSec = c.ssec
              THEN SmpRes([c EXCEPT !.smp = 1, !.ssec = ""], NoReply, "smpcomplete", FALSE)
              ELSE SmpRes(IF FixSMPReset THEN ResetSMP(c) ELSE c, Abort, "smpfailed", FALSE)   \* before 9e113f0: state 4 and secret kept

(* processData and the TLV loop of Receive.  bad: the authenticated part of the message was modified. *)
RecvData(c, m, bad) ==
  IF c.st # "enc" THEN Fail(c)
  ELSE LET sl == SlotFor(c, m.rk, m.sk) IN
       IF ~sl.ok THEN Res(c, <<>>, 0, TRUE, "none", TRUE)
       ELSE LET c1 == [c EXCEPT !.slots = c.slots \cup {sl.s}] IN     \* the slot stays allocated whatever follows
            IF bad \/ sl.s.mt # m.tt \/ sl.s.tt # m.mt THEN Res(c1, <<>>, 0, TRUE, "none", TRUE)     \* bad MAC
            ELSE IF m.ctr <= sl.s.ctr THEN Res(c1, <<>>, 0, TRUE, "none", TRUE)                      \* counter regressed
            ELSE LET c2 == [c1 EXCEPT !.slots = (c1.slots \ {sl.s}) \cup {[sl.s EXCEPT !.ctr = m.ctr]}]
                     c3 == IF m.rk = c2.myKeyId THEN Rotate(c2) ELSE c2
                     c4 == IF m.sk = c3.theirKeyId
                           THEN [c3 EXCEPT !.slots = {s \in c3.slots : s.tk # m.sk - 1},
                                           !.theirLast = c3.theirCur, !.theirKeyId = c3.theirKeyId + 1, !.theirCur = m.ny]
                           ELSE c3
                 IN CASE m.tlv = "none" -> Res(c4, <<>>, m.body, TRUE, "none", FALSE)
                      [] m.tlv = "disc" -> Res([c4 EXCEPT !.st = "fin"], <<>>, 0, TRUE, "ended", FALSE)
                      [] OTHER ->
                           LET r == ProcessSMP(c4, m) IN
                           IF r.reply.tlv = "none" THEN Res(r.c, <<>>, 0, TRUE, r.chg, r.err)
                           ELSE LET g == GenDataR(r.c, 0, r.reply)
                                IN Res(g.c, <<g.m>>, 0, TRUE, r.chg, r.err)

RecvMsg(c, m, bad) ==
  CASE m.t = "query"  -> RecvQuery(c)
    [] m.t = "commit" -> IF bad THEN RecvBadCommit(c) ELSE RecvCommit(c, m)
    [] m.t = "dhkey"  -> RecvDHKey(c, m)
    [] m.t = "reveal" -> RecvReveal(c, m)
    [] m.t = "sig"    -> RecvSig(c, m)
    [] m.t = "data"   -> RecvData(c, m, bad)

(* processFragment: the k/n automaton; a completed buffer is handed to the message layer. *)
Uniform(buf) == \A i \in 1..Len(buf) : buf[i].m = buf[1].m /\ buf[i].k = i /\ buf[i].n = Len(buf)
RecvWire(c, w) ==
  IF w.n = 1 THEN RecvMsg(c, w.m, w.bad)
  ELSE LET c1 == IF w.k = 1 THEN [c EXCEPT !.fbuf = <<w>>, !.fk = 1, !.fn = w.n]
                 ELSE IF w.n = c.fn /\ w.k = c.fk + 1 THEN [c EXCEPT !.fbuf = Append(c.fbuf, w), !.fk = c.fk + 1]
                 ELSE [c EXCEPT !.fbuf = <<>>, !.fk = 0, !.fn = 0]
       IN IF c1.fn > 0 /\ c1.fk = c1.fn
          THEN LET c2 == [c1 EXCEPT !.fk = 0, !.fn = 0, !.fbuf = <<>>] IN
               IF Uniform(c1.fbuf)
               THEN RecvMsg(c2, c1.fbuf[1].m, \E i \in 1..Len(c1.fbuf) : c1.fbuf[i].bad)
               ELSE Fail(c2)     \* pieces of different messages glued together: not reachable with <= 1 fault (NoSplice)
          ELSE Nothing(c1)

-----------------------------------------------------------------------------
Call(act, p, arg, r) ==
  [act |-> act, p |-> p, arg |-> arg, s |-> "",
   body |-> r.body, encf |-> r.encf, chg |-> r.chg, err |-> r.err,
   outs |-> [i \in 1..Len(r.outs) |-> IF r.outs[i].t = "data" THEN r.outs[i].tlv ELSE r.outs[i].t],
   enc |-> [q \in Parties |-> IF q = p THEN r.c.st = "enc" ELSE cv[q].st = "enc"]]

Quiet == \A p \in Parties : net[p] = <<>>
(* SMP runs (history).  A run starts with an Authenticate call that is not the answer to a saved SMP1.  It is `clean` when it
   is started on a quiet, fault-free network, after a clean run that was answered or by the same user as the previous one
   (a user who ignores the peer's question and starts a run of its own makes the peer abort: that is the protocol). *)
Ended == (bud.end = 0 /\ AllowEnd) \/ bud.requery < MaxRequery
Undisturbed == Quiet /\ bud.faults = MaxFaults /\ ~Ended
RunStart(p, s) ==
  LET n == Len(runs)
      okprev == n = 0 \/ (runs[n].clean /\ (runs[n].rsec # "" \/ runs[n].ini = p))
  IN Append(runs, [ini |-> p, isec |-> s, rsec |-> "", asked |-> 0, q0 |-> Undisturbed, clean |-> Undisturbed /\ okprev,
                   ev |-> [x \in Parties |-> <<>>]])
RunAnswer(p, s) ==
  LET n == Len(runs) IN
  IF n = 0 THEN runs
  ELSE IF runs[n].ini = p \/ runs[n].rsec # "" \/ runs[n].asked = 0
       THEN [runs EXCEPT ![n].clean = FALSE]   \* an answer that does not belong to this run (e.g. to the SMP1 of a superseded run)
  ELSE [runs EXCEPT ![n].rsec = s]
RunEvent(p, chg) ==
  LET n == Len(runs) IN
  IF n = 0 \/ chg \notin {"smpcomplete", "smpfailed", "smpneeded"} THEN runs
  ELSE [runs EXCEPT ![n].ev[p] = Append(@, chg),
                    ![n].asked = IF chg = "smpneeded" /\ p # runs[n].ini THEN @ + 1 ELSE @]

Init ==
  /\ cv = [p \in Parties |-> NewConv(p)]
  /\ \E s \in Starts : net = [p \in Parties |-> IF Peer(p) \in s THEN <<Wire(1, 1, QueryMsg)>> ELSE <<>>]
  /\ hi \in Parties
  /\ nf \in [Parties -> FragChoices]
  /\ runs = <<>>
  /\ sent = [p \in Parties |-> <<>>]
  /\ dlv = [p \in Parties |-> <<>>]
  /\ smpev = [p \in Parties |-> <<>>]
  /\ bud = [data |-> [p \in Parties |-> MaxData], faults |-> MaxFaults, auth |-> MaxAuth, end |-> IF AllowEnd THEN 1 ELSE 0,
            requery |-> MaxRequery]
  /\ last = [act |-> "init", p |-> "a", arg |-> 0, s |-> "", body |-> 0, encf |-> FALSE, chg |-> "none", err |-> FALSE,
             outs |-> <<>>, enc |-> [q \in Parties |-> FALSE]]

Apply(act, p, arg, sc, r) ==
  /\ cv' = [cv EXCEPT ![p] = r.c]
  /\ last' = [Call(act, p, arg, r) EXCEPT !.s = sc]
  /\ dlv' = IF r.body > 0 THEN [dlv EXCEPT ![p] = Append(@, r.body)] ELSE dlv
  /\ smpev' = IF r.chg \in {"smpcomplete", "smpfailed", "smpneeded"} THEN [smpev EXCEPT ![p] = Append(@, r.chg)] ELSE smpev

(* p.Receive(next wire message) *)
Deliver(p) ==
  /\ net[p] # <<>>
  /\ LET r == RecvWire(cv[p], Head(net[p])) IN
     /\ Apply("deliver", p, 0, "", r)
     /\ net' = [net EXCEPT ![p] = Tail(@), ![Peer(p)] = @ \o EncodeAll(nf[p], r.outs)]
  /\ runs' = RunEvent(p, RecvWire(cv[p], Head(net[p])).chg)
  /\ UNCHANGED <<hi, nf, sent, bud>>

(* p.Send(message) *)
UserSend(p) ==
  /\ bud.data[p] > 0
  /\ cv[p].st \in {"enc", "fin"}
  /\ LET id == (IF p = "a" THEN 0 ELSE 10) + (MaxData - bud.data[p]) + 1 IN
     IF cv[p].st = "fin"
     THEN /\ Apply("send", p, id, "", Fail(cv[p]))          \* "cannot send message because secure conversation has finished"
          /\ UNCHANGED <<net, sent>>
     ELSE LET g == GenData(cv[p], id, "none", "", 0) IN
          /\ Apply("send", p, id, "", Res(g.c, <<g.m>>, 0, FALSE, "none", FALSE))
          /\ net' = [net EXCEPT ![Peer(p)] = @ \o Encode(nf[p], g.m)]
          /\ sent' = [sent EXCEPT ![p] = Append(@, id)]
  /\ bud' = [bud EXCEPT !.data[p] = @ - 1]
  /\ UNCHANGED <<hi, nf, runs>>

(* p.End() *)
UserEnd(p) ==
  /\ bud.end > 0
  /\ cv[p].st \in {"enc", "fin"}
  /\ IF cv[p].st = "enc"
     THEN LET g == GenData(cv[p], 0, "disc", "", 0) IN
          /\ Apply("end", p, 0, "", Res([g.c EXCEPT !.st = "plain"], <<g.m>>, 0, FALSE, "none", FALSE))
          /\ net' = [net EXCEPT ![Peer(p)] = @ \o Encode(nf[p], g.m)]
     ELSE /\ Apply("end", p, 0, "", Nothing([cv[p] EXCEPT !.st = "plain"]))
          /\ UNCHANGED net
  /\ bud' = [bud EXCEPT !.end = 0]
  /\ UNCHANGED <<hi, nf, runs, sent>>

(* p.Authenticate(question, secret): secret s is what p's user types FOR THIS RUN *)
UserAuth(p, q, s) ==
  /\ cv[p].st = "enc"
  /\ LET c == cv[p] IN
     IF c.saved
     THEN \* answer the saved SMP1 (smp state is 1 whenever a TLV is saved)
          LET c1 == [c EXCEPT !.ssec = s, !.saved = FALSE]
              r  == ProcessSMP(c1, [NoMsg EXCEPT !.t = "data", !.tlv = "smp1", !.q = c.savedQ, !.c = c.savedRun])
              g  == GenDataR(r.c, 0, r.reply)
          IN /\ q = 0
             /\ IF r.reply.tlv = "none"
                THEN Apply("auth", p, q, s, Nothing(r.c)) /\ UNCHANGED net
                ELSE /\ Apply("auth", p, q, s, Res(g.c, <<g.m>>, 0, FALSE, "none", FALSE))
                     /\ net' = [net EXCEPT ![Peer(p)] = @ \o Encode(nf[p], g.m)]
             /\ runs' = RunAnswer(p, s)
             /\ UNCHANGED bud
     ELSE /\ bud.auth > 0
          /\ q \in Questions
          /\ SeqSMP => Quiet
          /\ LET c1 == [c EXCEPT !.ssec = s]
                 g0 == GenDataR(c1, 0, Abort)
                 c2 == IF c.smp # 1 THEN g0.c ELSE c1
                 a  == Fresh(c2)
                 g1 == GenDataR([c2 EXCEPT !.smpA = a, !.ser = c2.ser + 1], 0, Tlv(IF q = 1 THEN "smp1q" ELSE "smp1", a, 0, "", q))
                 ms == IF c.smp # 1 THEN <<g0.m, g1.m>> ELSE <<g1.m>>
             IN /\ Apply("auth", p, q, s, Res([g1.c EXCEPT !.smp = 2, !.question = 0], ms, 0, FALSE, "none", FALSE))
                /\ net' = [net EXCEPT ![Peer(p)] = @ \o EncodeAll(nf[p], ms)]
          /\ runs' = RunStart(p, s)
          /\ bud' = [bud EXCEPT !.auth = @ - 1]
  /\ UNCHANGED <<hi, nf, sent>>

(* p's user sends the query message again while the conversation is encrypted (asks the peer to re-key).  The peer's
   Receive resets its key ids at once (reset()), before the new AKE has completed: outside the property's scope
   (every conversation of the property starts from plaintext), explored in the Requery configurations only. *)
UserQuery(p) ==
  /\ bud.requery > 0
  /\ cv[p].st = "enc"
  /\ net' = [net EXCEPT ![Peer(p)] = Append(@, Wire(1, 1, QueryMsg))]
  /\ bud' = [bud EXCEPT !.requery = @ - 1]
  /\ last' = [act |-> "query", p |-> p, arg |-> 0, s |-> "", body |-> 0, encf |-> FALSE, chg |-> "none", err |-> FALSE,
              outs |-> <<>>, enc |-> [q \in Parties |-> cv[q].st = "enc"]]
  /\ UNCHANGED <<cv, hi, nf, runs, sent, dlv, smpev>>

(* The network loses, repeats or modifies the message at the head of p's channel. *)
Fault(kind, p, pos) ==
  /\ bud.faults > 0 /\ kind \in FaultKinds /\ net[p] # <<>>
  /\ CASE kind = "drop"   -> pos = 0 /\ net' = [net EXCEPT ![p] = Tail(@)]
       [] kind = "dup"    -> /\ pos \in 1..Len(net[p])
                             /\ (pos = 1 \/ Head(net[p]).n = 1)   \* a fragment is repeated at once, a whole message at any later point
                             /\ net' = [net EXCEPT ![p] = SubSeq(@, 1, pos) \o <<Head(@)>> \o SubSeq(@, pos + 1, Len(@))]
       [] kind = "tamper" -> /\ pos = 0 /\ ~Head(net[p]).bad
                             /\ (Head(net[p]).m.t = "data" \/ (Head(net[p]).m.t = "commit" /\ Head(net[p]).n = 1))
                             /\ net' = [net EXCEPT ![p][1].bad = TRUE]
  /\ bud' = [bud EXCEPT !.faults = @ - 1]
  /\ last' = [act |-> kind, p |-> p, arg |-> pos, s |-> "", body |-> 0, encf |-> FALSE, chg |-> "none", err |-> FALSE,
              outs |-> <<>>, enc |-> [q \in Parties |-> cv[q].st = "enc"]]
  /\ UNCHANGED <<cv, hi, nf, runs, sent, dlv, smpev>>

Next ==
  \/ \E p \in Parties : Deliver(p) \/ UserSend(p) \/ UserEnd(p) \/ UserQuery(p)
  \/ \E p \in Parties, q \in {0, 1}, s \in Secrets : UserAuth(p, q, s)
  \/ \E p \in Parties, k \in {"drop", "dup", "tamper"}, pos \in 0..8 : Fault(k, p, pos)

Spec == Init /\ [][Next]_vars
(* fair delivery: a message in flight is eventually handed to Receive *)
FairSpec == Spec /\ \A p \in Parties : WF_vars(Deliver(p))

-----------------------------------------------------------------------------
(* Properties *)
Enc(p) == cv[p].st = "enc"
Started == \E p \in Parties : cv[p].auth # "none" \/ cv[p].st # "plain" \/ net[p] # <<>>
IsPrefix(s, t) == Len(s) <= Len(t) /\ \A i \in 1..Len(s) : s[i] = t[i]
RECURSIVE IsSubSeq(_, _)
IsSubSeq(s, t) == IF s = <<>> THEN TRUE ELSE IF t = <<>> THEN FALSE
                  ELSE IF Head(s) = Head(t) THEN IsSubSeq(Tail(s), Tail(t)) ELSE IsSubSeq(s, Tail(t))

(* O1: from a one-sided or simultaneous start both sides reach the encrypted state (no faults, no End). *)
BothEncrypted == <>[](Enc("a") /\ Enc("b"))
(* O1 as a safety statement: once the network is quiet after a start, both sides are encrypted. *)
QuietMeansEncrypted == (Quiet /\ Started /\ bud.faults = MaxFaults /\ ~Ended) => (Enc("a") /\ Enc("b") /\ \A p \in Parties : cv[p].auth = "none")

(* O2: what p's user has been handed is what the peer's user sent: unchanged, in order, at most once ... *)
InOrderNoDup == \A p \in Parties :
   IF bud.faults = MaxFaults /\ bud.requery = MaxRequery THEN IsPrefix(dlv[p], sent[Peer(p)]) ELSE IsSubSeq(dlv[p], sent[Peer(p)])
(* ... and everything, once the network is quiet (no faults, nobody ended the conversation). *)
AllDelivered == (Quiet /\ bud.faults = MaxFaults /\ ~Ended) => \A p \in Parties : dlv[p] = sent[Peer(p)]
(* re-keying (Requery configurations): once the network is quiet again both sides are encrypted ... *)
RequeryEndsEncrypted == (Quiet /\ bud.requery < MaxRequery /\ bud.faults = MaxFaults) => (Enc("a") /\ Enc("b") /\ \A p \in Parties : cv[p].auth = "none")
(* ... but this fails (documented counterexample): a message sent after the peer's query arrived and before the new AKE
   completed carries key ids the peer has already dropped and is rejected *)
RequeryLosesNothing == (Quiet /\ bud.faults = MaxFaults) => \A p \in Parties : dlv[p] = sent[Peer(p)]
(* generateData never runs out of key slots nor asks for a key it does not have *)
SlotsSuffice == \A p \in Parties : cv[p].st = "enc" => SlotFor(cv[p], cv[p].myKeyId - 1, cv[p].theirKeyId).ok
SlotBound == \A p \in Parties : Cardinality(cv[p].slots) <= 4

(* O4: a modified data message is rejected (nothing delivered, nothing sent) and changes nothing the user or the peer
   can observe: every field of the object except the key-slot cache and the reassembly buffer is unchanged. *)
Hidden(c) == [c EXCEPT !.slots = {}, !.fk = 0, !.fn = 0, !.fbuf = <<>>]
BadAtHead(p) ==
  /\ net[p] # <<>>
  /\ Head(net[p]).m.t = "data"
  /\ LET w == Head(net[p]) IN
     IF w.n = 1 THEN w.bad
     ELSE /\ w.k > 1 /\ w.k = w.n /\ w.n = cv[p].fn /\ w.k = cv[p].fk + 1
          /\ (w.bad \/ \E i \in 1..Len(cv[p].fbuf) : cv[p].fbuf[i].bad)
TamperRejected ==
  [][\A p \in Parties :
       (BadAtHead(p) /\ last'.act = "deliver" /\ last'.p = p) =>
          (Hidden(cv'[p]) = Hidden(cv[p]) /\ dlv' = dlv /\ last'.err /\ last'.body = 0 /\ last'.outs = <<>>)]_vars

(* O3: SMP, over ALL runs of a session.  For a clean run k that is over (a later run was started on an undisturbed network, or
   the network is quiet and undisturbed now): the responder was asked for its secret exactly once, and if it answered, the run
   ended Complete on both sides iff the secrets supplied FOR RUN k are equal, otherwise Failed on both sides, Complete on neither. *)
HasEv(k, p, e) == k <= Len(runs) /\ \E i \in 1..Len(runs[k].ev[p]) : runs[k].ev[p][i] = e
RunOver(k) == IF k < Len(runs) THEN runs[k + 1].q0 ELSE Undisturbed
RunVerdict(k) ==
  /\ runs[k].asked = 1
  /\ runs[k].rsec # "" =>
       IF runs[k].isec = runs[k].rsec
       THEN \A p \in Parties : HasEv(k, p, "smpcomplete") /\ ~HasEv(k, p, "smpfailed")
       ELSE \A p \in Parties : HasEv(k, p, "smpfailed") /\ ~HasEv(k, p, "smpcomplete")
RunOutcome == \A k \in 1..Len(runs) : (runs[k].clean /\ RunOver(k)) => RunVerdict(k)
(* Before otr 9e113f0 the code violated RunOutcome in one situation (finding C47-S1, FixSMPReset = FALSE): after a run that
   FAILED, its initiator was left in SMP state 4 with its secret, so the first run the OTHER side started afterwards was
   aborted unseen.  RunOutcomeKnown is RunOutcome without that situation (kept for reference; the configurations check RunOutcome). *)
StaleAfterFailure(k) == k > 1 /\ runs[k - 1].rsec # "" /\ runs[k - 1].rsec # runs[k - 1].isec /\ runs[k].ini # runs[k - 1].ini
RunOutcomeKnown == \A k \in 1..Len(runs) : (runs[k].clean /\ RunOver(k) /\ ~StaleAfterFailure(k)) => RunVerdict(k)
(* Complete is only ever signalled in a clean run when the two secrets of that run are equal *)
SMPSound == \A k \in 1..Len(runs) : \A p \in Parties : (runs[k].clean /\ HasEv(k, p, "smpcomplete")) => runs[k].rsec = runs[k].isec
(* non-vacuity helper: a second run after a successful first one exists in the state space (checked as an expected violation) *)
NoSecondRunAfterSuccess == ~(Len(runs) >= 2 /\ runs[2].clean /\ HasEv(1, "a", "smpcomplete") /\ HasEv(1, "b", "smpcomplete") /\ runs[2].rsec # "" /\ Quiet)
(* eventually, under fair delivery and a responder who answers (single-run configurations) *)
SMPFinishes == []((Len(runs) = 1 /\ runs[1].rsec # "") => <>(\A p \in Parties : HasEv(1, p, "smpcomplete") \/ HasEv(1, p, "smpfailed")))

(* whoever waits for a reveal-signature message has made its D-H key (serializeDHKey would dereference nil otherwise:
   the panic repaired by b85d235) *)
NoNilKey == \A p \in Parties : cv[p].auth = "awaitReveal" => cv[p].gy # 0

(* the abstraction of reassembly is safe: with at most one fault no buffer ever mixes two messages *)
NoSplice == \A p \in Parties : cv[p].fbuf = <<>> \/ \A i \in 1..Len(cv[p].fbuf) : cv[p].fbuf[i].m = cv[p].fbuf[1].m

TypeOK == /\ \A p \in Parties : cv[p].st \in {"plain", "enc", "fin"} /\ cv[p].auth \in {"none", "awaitDHKey", "awaitReveal", "awaitSig"}
          /\ \A p \in Parties : cv[p].smp \in 1..4 /\ cv[p].fk <= cv[p].fn
=============================================================================
