------------------------------ MODULE MDBuf_Gen ------------------------------
(***************************************************************************)
(* C14, binding R: history generator over spec/MDBuf.tla (which MDBufImpl  *)
(* is model-checked to refine) at the real constants BS = 64, LF = 8.      *)
(* Every maximal sequence of at most Depth calls Write(n) / Sum / Reset    *)
(* (n in WSet, incl. empty writes; total <= MaxLen) is printed as          *)
(*   TRACE {"h": [{"op", "n", "written"}, ...]}                            *)
(* The model's prediction for a Sum event is: the digest of the            *)
(* `written` bytes written since the last Reset, whatever the chunking and *)
(* however many Sums came before; the digest bytes come from MDBuf_Tags    *)
(* (PrimMD4 / PrimRMD160 evaluated by TLC).  The same histories are        *)
(* replayed on md4 and on ripemd160.                                       *)
(***************************************************************************)
EXTENDS MDBuf, TLC, Json

CONSTANTS Depth
VARIABLES hist
gvars == <<written, last, hist>>

Slim(e) == [op |-> e.op, n |-> e.n, written |-> e.written]
GInit == Init /\ hist = <<>>
GNext == /\ Len(hist) < Depth
         /\ Next
         \* two Resets in a row, or a Reset first, add nothing
         /\ ~(last'.op = "reset" /\ last.op \in {"reset", "new"})
         /\ hist' = Append(hist, Slim(last'))
GSpec == GInit /\ [][GNext]_gvars
Emit == (Len(hist) = Depth /\ last.op = "sum") => PrintT("TRACE " \o ToJson([h |-> hist]))
=============================================================================
