------------------------------- MODULE PrimDER -------------------------------
(* X.690 DER as executable predicates and encoders over byte sequences, restricted the way
   golang.org/x/crypto/cryptobyte documents it (asn1.go: readASN1, checkASN1Integer,
   readBase128Int, the typed String readers and the AddASN1* builders).   [property C23]

   An *input* is a record [b |-> bytes, fill |-> n]: the bytes b followed by n zero bytes
   (so that 2^16- and 2^24-byte contents need no 16-million-element sequence).

   DER TLV as accepted by the package ("low-tag-number form only", definite length, minimal
   length octets, at most 4 length octets):
     identifier  one octet, low five bits # 11111
     length      short form 0..127, or 0x81..0x84 followed by that many octets holding a value
                 >= 128 without a leading zero octet
     content     that many octets must be present. *)
EXTENDS Integers, Sequences, FiniteSets, PrimTwos

In(b, fill) == [b |-> b, fill |-> fill]
XLen(x) == Len(x.b) + x.fill
XAt(x, i) == IF i <= Len(x.b) THEN x.b[i] ELSE 0                 \* 1-based
\* n bytes of x after skipping `from`
Sub(x, from, n) == IF from + n <= Len(x.b) THEN In(SubSeq(x.b, from + 1, from + n), 0)
                   ELSE IF from >= Len(x.b) THEN In(<<>>, n)
                   ELSE In(SubSeq(x.b, from + 1, Len(x.b)), n - (Len(x.b) - from))
\* explicit bytes of a (small) input
Bytes(x) == x.b \o Zeros(x.fill)

NoTLV == [ok |-> FALSE, tag |-> 0, hdr |-> 0, len |-> 0]
\* big-endian value of octets from+1..from+n of x (n <= 4, first octet < 128 when n = 4)
BEVal(x, from, n) == CASE n = 1 -> XAt(x, from + 1)
                       [] n = 2 -> XAt(x, from + 1) * 256 + XAt(x, from + 2)
                       [] n = 3 -> XAt(x, from + 1) * 65536 + XAt(x, from + 2) * 256 + XAt(x, from + 3)
                       [] OTHER -> XAt(x, from + 1) * 16777216 + XAt(x, from + 2) * 65536 + XAt(x, from + 3) * 256 + XAt(x, from + 4)
TLV(x) ==
  IF XLen(x) < 2 THEN NoTLV
  ELSE LET tag == XAt(x, 1)
           l == XAt(x, 2) IN
       IF tag % 32 = 31 THEN NoTLV                                      \* high-tag-number form
       ELSE IF l < 128 THEN (IF XLen(x) < 2 + l THEN NoTLV ELSE [ok |-> TRUE, tag |-> tag, hdr |-> 2, len |-> l])
       ELSE LET n == l - 128 IN
            IF n = 0 \/ n > 4 \/ XLen(x) < 2 + n THEN NoTLV             \* indefinite / too long / truncated
            ELSE IF n = 4 /\ XAt(x, 3) >= 128 THEN NoTLV                \* >= 2^31: more than any input holds
            ELSE LET v == BEVal(x, 2, n) IN
                 IF v < 128 \/ XAt(x, 3) = 0 THEN NoTLV                 \* not minimal
                 ELSE IF XLen(x) < 2 + n + v THEN NoTLV
                 ELSE [ok |-> TRUE, tag |-> tag, hdr |-> 2 + n, len |-> v]
Content(x, t) == Sub(x, t.hdr, t.len)
Rest(x, t) == Sub(x, t.hdr + t.len, XLen(x) - t.hdr - t.len)

\* DER length octets and TLV encoder (len < 2^31)
LenOctets(n) == IF n < 128 THEN <<n>>
                ELSE IF n < 256 THEN <<129, n>>
                ELSE IF n < 65536 THEN <<130, n \div 256, n % 256>>
                ELSE IF n < 16777216 THEN <<131, n \div 65536, (n \div 256) % 256, n % 256>>
                ELSE <<132, n \div 16777216, (n \div 65536) % 256, (n \div 256) % 256, n % 256>>
EncTLV(tag, content) == <<tag>> \o LenOctets(Len(content)) \o content

-----------------------------------------------------------------------------
(* INTEGER / ENUMERATED: X.690 8.3 -- two's complement, at least one octet, minimal *)
DerInt(v) == IF v.mag = <<>> THEN <<0>> ELSE TwosMin(v)
IsDerIntContent(c) == Len(c) >= 1 /\ (Len(c) >= 2 => ~(c[1] = 0 /\ c[2] < 128) /\ ~(c[1] = 255 /\ c[2] >= 128))
\* representability of a value (sign/magnitude) in a k-byte signed / unsigned machine integer
IsPow2Top(m) == m[1] = 128 /\ \A i \in 2..Len(m) : m[i] = 0
FitsSigned(v, k) == IF ~v.neg THEN Len(v.mag) < k \/ (Len(v.mag) = k /\ v.mag[1] < 128)
                    ELSE Len(v.mag) < k \/ (Len(v.mag) = k /\ (v.mag[1] < 128 \/ IsPow2Top(v.mag)))
FitsUnsigned(v, k) == ~v.neg /\ Len(v.mag) <= k

(* OBJECT IDENTIFIER: X.690 8.19 -- sub-identifiers in base 128, fewest octets (no 0x80 lead);
   the package (and encoding/asn1) restrict sub-identifiers to < 2^31 *)
RECURSIVE B128Digits(_)
B128Digits(n) == IF n < 128 THEN <<n>> ELSE B128Digits(n \div 128) \o <<n % 128>>
Base128(n) == LET d == B128Digits(n) IN [i \in 1..Len(d) |-> IF i < Len(d) THEN d[i] + 128 ELSE d[i]]
RECURSIVE ConcatAll(_)
ConcatAll(ss) == IF ss = <<>> THEN <<>> ELSE ss[1] \o ConcatAll(Tail(ss))
IsOID(arcs) == Len(arcs) >= 2 /\ arcs[1] \in 0..2 /\ (arcs[1] < 2 => arcs[2] < 40) /\ \A i \in 1..Len(arcs) : arcs[i] >= 0
\* first sub-identifier = 40*arc1 + arc2 (must itself stay < 2^31)
DerOID(arcs) == Base128(arcs[1] * 40 + arcs[2]) \o ConcatAll([i \in 1..(Len(arcs) - 2) |-> Base128(arcs[i + 2])])
\* decoder: sequence of sub-identifiers, or failure
NoArcs == [ok |-> FALSE, v |-> <<>>]
RECURSIVE SubIds(_, _, _, _, _)
\* c content, i next index, acc value so far, n octets consumed in this sub-identifier, out sub-identifiers so far
SubIds(c, i, acc, n, out) ==
  IF i > Len(c) THEN (IF n = 0 THEN [ok |-> TRUE, v |-> out] ELSE NoArcs)          \* truncated
  ELSE IF n = 0 /\ c[i] = 128 THEN NoArcs                                           \* not minimal
  ELSE IF n = 5 \/ acc >= 16777216 THEN NoArcs                                      \* would reach 2^31
  ELSE LET a == acc * 128 + (c[i] % 128) IN
       IF c[i] < 128 THEN SubIds(c, i + 1, 0, 0, Append(out, a)) ELSE SubIds(c, i + 1, a, n + 1, out)
DecOID(c) == IF c = <<>> THEN NoArcs
             ELSE LET r == SubIds(c, 1, 0, 0, <<>>) IN
                  IF ~r.ok THEN NoArcs
                  ELSE LET f == r.v[1] IN
                       [ok |-> TRUE, v |-> (IF f < 80 THEN <<f \div 40, f % 40>> ELSE <<2, f - 80>>) \o Tail(r.v)]

(* BIT STRING: X.690 8.6 / 11.2 -- initial octet = number of unused bits 0..7, unused bits zero;
   empty bit string = single octet 0 *)
Pow2Small(p) == CASE p = 0 -> 1 [] p = 1 -> 2 [] p = 2 -> 4 [] p = 3 -> 8 [] p = 4 -> 16 [] p = 5 -> 32 [] p = 6 -> 64 [] OTHER -> 128
\* judged on length, first and last octet only (works for inputs with a zero fill)
IsDerBits(len, first, last) == /\ len >= 1 /\ first <= 7
                               /\ (len = 1 => first = 0)
                               /\ (len > 1 => last % Pow2Small(first) = 0)

(* BOOLEAN: X.690 11.1 *)
IsDerBool(c) == Len(c) = 1 /\ c[1] \in {0, 255}

(* UTCTime / GeneralizedTime as the package accepts them: YYMMDDhhmm[ss] / YYYYMMDDhhmmss followed
   by Z or a non-zero +-hhmm offset (X.690 11.7/11.8 would allow only the Z form with seconds; the
   package documents the extra leniency: "we shouldn't support this, but we do"). *)
IsDigit(b) == b >= 48 /\ b <= 57
D2(c, i) == (c[i] - 48) * 10 + (c[i + 1] - 48)
Digits(c, i, n) == \A j \in i..(i + n - 1) : IsDigit(c[j])
Leap(y) == (y % 4 = 0 /\ y % 100 # 0) \/ y % 400 = 0
DaysIn(mo, y) == CASE mo \in {1, 3, 5, 7, 8, 10, 12} -> 31 [] mo \in {4, 6, 9, 11} -> 30 [] OTHER -> IF Leap(y) THEN 29 ELSE 28
NoTime == [ok |-> FALSE, y |-> 0, mo |-> 0, d |-> 0, h |-> 0, mi |-> 0, s |-> 0, off |-> 0]
\* zone at c[i..]: "Z" -> 0 ; "+hhmm"/"-hhmm" non-zero, hh <= 23, mm <= 59 ; anything else -> -100000
Zone(c, i) == IF Len(c) = i /\ c[i] = 90 THEN 0
              ELSE IF Len(c) = i + 4 /\ c[i] \in {43, 45} /\ Digits(c, i + 1, 4) /\ D2(c, i + 1) <= 23 /\ D2(c, i + 3) <= 59
                      /\ D2(c, i + 1) * 60 + D2(c, i + 3) # 0
                   THEN (IF c[i] = 43 THEN 1 ELSE -1) * (D2(c, i + 1) * 60 + D2(c, i + 3))
              ELSE -100000
MkTime(y, mo, d, h, mi, s, z) ==
  IF mo \in 1..12 /\ d >= 1 /\ d <= DaysIn(mo, y) /\ h <= 23 /\ mi <= 59 /\ s <= 59 /\ z # -100000
  THEN [ok |-> TRUE, y |-> y, mo |-> mo, d |-> d, h |-> h, mi |-> mi, s |-> s, off |-> z] ELSE NoTime
UTCYear(yy) == IF yy >= 50 THEN 1900 + yy ELSE 2000 + yy
DecUTC(c) ==
  IF Len(c) >= 13 /\ Digits(c, 1, 12) /\ Zone(c, 13) # -100000          \* with seconds
  THEN MkTime(UTCYear(D2(c, 1)), D2(c, 3), D2(c, 5), D2(c, 7), D2(c, 9), D2(c, 11), Zone(c, 13))
  ELSE IF Len(c) >= 11 /\ Digits(c, 1, 10)                              \* minute precision (documented leniency)
  THEN MkTime(UTCYear(D2(c, 1)), D2(c, 3), D2(c, 5), D2(c, 7), D2(c, 9), 0, Zone(c, 11))
  ELSE NoTime
DecGen(c) ==
  IF Len(c) >= 15 /\ Digits(c, 1, 14)
  THEN MkTime(D2(c, 1) * 100 + D2(c, 3), D2(c, 5), D2(c, 7), D2(c, 9), D2(c, 11), D2(c, 13), Zone(c, 15))
  ELSE NoTime
Dig2(n) == <<48 + ((n \div 10) % 10), 48 + (n % 10)>>
ZoneStr(off) == IF off = 0 THEN <<90>>
                ELSE LET a == IF off < 0 THEN 0 - off ELSE off IN <<IF off < 0 THEN 45 ELSE 43>> \o Dig2(a \div 60) \o Dig2(a % 60)
EncUTC(t) == Dig2(t.y % 100) \o Dig2(t.mo) \o Dig2(t.d) \o Dig2(t.h) \o Dig2(t.mi) \o Dig2(t.s) \o ZoneStr(t.off)
EncGen(t) == Dig2(t.y \div 100) \o Dig2(t.y % 100) \o Dig2(t.mo) \o Dig2(t.d) \o Dig2(t.h) \o Dig2(t.mi) \o Dig2(t.s) \o ZoneStr(t.off)

\* X.690 examples
ASSUME LenOctets(38) = <<38>> /\ LenOctets(201) = <<129, 201>> /\ LenOctets(435) = <<130, 1, 179>>
ASSUME DerInt(BigZero) = <<0>> /\ DerInt(BigInt(FALSE, <<127>>)) = <<127>> /\ DerInt(BigInt(FALSE, <<128>>)) = <<0, 128>>
ASSUME DerInt(BigInt(TRUE, <<128>>)) = <<128>> /\ DerInt(BigInt(TRUE, <<129>>)) = <<255, 127>>
ASSUME DerOID(<<2, 100, 3>>) = <<129, 52, 3>>                                  \* X.690 8.19.5 example {2 100 3}
ASSUME DerOID(<<1, 2, 840, 113549>>) = <<42, 134, 72, 134, 247, 13>>
ASSUME DecOID(<<42, 134, 72, 134, 247, 13>>) = [ok |-> TRUE, v |-> <<1, 2, 840, 113549>>]
=============================================================================
