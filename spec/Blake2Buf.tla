------------------------------ MODULE Blake2Buf ------------------------------
(***************************************************************************)
(* C05 / C07 - implementation-shaped specification of type digest in       *)
(* /repo/blake2b/blake2b.go and /repo/blake2s/blake2s.go (the two files    *)
(* are the same code up to word width and BlockSize):                      *)
(*   fields h, c, size, block [BlockSize]byte, offset, key, keyLen;        *)
(*   Reset, Write (top up a partial buffer; compress it only when MORE     *)
(*   input follows; compress whole blocks straight from p but keep the     *)
(*   last full one; buffer the rest - so a full last block stays buffered  *)
(*   until Sum), Sum/finalize (work on copies of h and c; c -= BlockSize   *)
(*   - offset so that hashBlocks' += BlockSize lands on the message        *)
(*   length; zero-padded copy of block[:offset]; final flag),              *)
(*   MarshalBinary (refuses keyed hashes), UnmarshalBinary (magic and      *)
(*   length checks; with RangeCheck also the range of the size and offset  *)
(*   bytes), and the one-shot checkSum behind Sum256/Sum384/Sum512.        *)
(* hashBlocks(h, c, flag, blocks) is modelled by what it is given: for     *)
(* each block, c += BlockSize, then h := F(h, block, c, flag); h is the    *)
(* parameter block it was initialised with plus the sequence of F calls.   *)
(* Bytes are ids as in Blake2Hash.                                         *)
(*                                                                         *)
(* TLC checks: the refinement Blake2Buf => Blake2Hash (whatever the        *)
(* chunking, Sum's F calls are exactly RFC 7693's; Sum stable; Reset;      *)
(* Marshal/Unmarshal transparent), the bookkeeping invariant BufInv, the   *)
(* one-shot path, and for C07 that Write/Sum are defined (no out-of-range  *)
(* slice expression) exactly on states with size <= MaxSize and            *)
(* offset <= B, that every action preserves TypeOK, and that an            *)
(* UnmarshalBinary WITHOUT the range checks reaches states where Write     *)
(* and Sum panic (configuration Blake2Buf_Corrupt0.cfg: expected           *)
(* counterexample) while one WITH them cannot (Blake2Buf_Corrupt1.cfg).    *)
(***************************************************************************)
EXTENDS Integers, Sequences

CONSTANTS B, Size, KeyLen, NSet, MaxBytes,
          MaxSize,          \* largest digest size (64 / 32; scaled)
          RangeCheck,       \* UnmarshalBinary rejects size \notin 1..MaxSize and offset > B
          CorruptSizes,     \* values an attacker-chosen size byte takes (empty: no corruption)
          CorruptOffsets,   \* values an attacker-chosen offset byte takes
          WithMarshal       \* FALSE switches MarshalBinary/UnmarshalBinary off (smaller instances for the Write/Sum/Reset rules)

VARIABLES h,          \* [size, klen, calls]: parameter block h was initialised with, F calls since
          c,          \* d.c as one integer (bytes compressed)
          size,       \* d.size
          block,      \* d.block: B slots holding byte ids
          offset,     \* d.offset
          saved,      \* <<TRUE, [h, c, size, block, offset]>>: bytes of the last successful MarshalBinary
          panicked,   \* a call evaluated an out-of-range slice expression
          taint,      \* ghost: 0 = no corrupted bytes loaded; 1 = the state stems from a corrupted load;
                      \*        2 = so do the saved bytes (model-checking constraint: taint <= 1)
          msg, nextId, snapMsg,     \* ghosts: Blake2Hash's msg, nextId, snap[2]
          last
ivars == <<h, c, size, block, offset, saved, panicked, taint, msg, nextId, snapMsg, last>>

A == INSTANCE Blake2Hash WITH snap <- <<saved[1], snapMsg>>

Min2(a, b) == IF a < b THEN a ELSE b
\* TLC keeps [i \in 1..n |-> e] as a lazy closure; \o <<>> turns it into an explicit tuple once
Force(s) == s \o <<>>
ZeroBlock == Force([i \in 1..B |-> 0])
\* copy(dst[at:], src) for a B-slot array (0-based at)
CopyInto(buf, at, src) == LET s == Force(src) IN Force([i \in 1..B |-> IF i > at /\ i <= at + Len(s) THEN s[i - at] ELSE buf[i]])

\* hashBlocks(&h, &c, flag, blocks): blocks a sequence of k*B ids; returns <<h', c'>>
RECURSIVE HashBlocks(_, _, _, _)
HashBlocks(hh, cc, flag, blocks) ==
  IF Len(blocks) = 0 THEN <<hh, cc>>
  ELSE HashBlocks([hh EXCEPT !.calls = Append(@, [blk |-> SubSeq(blocks, 1, B), t |-> cc + B, f |-> flag])],
                  cc + B, flag, SubSeq(blocks, B + 1, Len(blocks)))

InitH(sz, kl) == [size |-> sz, klen |-> kl, calls |-> <<>>]     \* iv ^ (size | keyLen<<8 | 1<<16 | 1<<24)
NoSaved == <<FALSE, [h |-> InitH(0, 0), c |-> 0, size |-> 0, block |-> ZeroBlock, offset |-> 0]>>

\* newDigest: d.size, d.keyLen, d.key set, then Reset
Init == /\ h = InitH(Size, KeyLen) /\ c = 0 /\ size = Size
        /\ block = (IF KeyLen > 0 THEN A!KeyBlock ELSE ZeroBlock)
        /\ offset = (IF KeyLen > 0 THEN B ELSE 0)
        /\ saved = NoSaved /\ panicked = FALSE /\ taint = 0
        /\ msg = <<>> /\ nextId = 1 /\ snapMsg = <<>>
        /\ last = A!Ev("new", 0, TRUE, A!NoOut)

\* where the slice expressions of Write and finalize/Sum are in range
WriteDefined == offset <= B                       \* d.block[d.offset:], p[:BlockSize-d.offset]
SumDefined == offset <= B /\ size <= MaxSize      \* d.block[:d.offset], hash[:d.size]
Panic(op, n) == /\ panicked' = TRUE
                /\ last' = A!Ev(op, n, FALSE, A!NoOut)
                /\ UNCHANGED <<h, c, size, block, offset, saved, taint, msg, nextId, snapMsg>>

Write(n) ==
  /\ ~panicked
  /\ nextId + n - 1 <= MaxBytes
  /\ IF ~WriteDefined THEN Panic("write", n) ELSE
     /\ msg' = msg \o [i \in 1..n |-> nextId + i - 1]
     /\ nextId' = nextId + n
     /\ UNCHANGED <<size, saved, panicked, taint, snapMsg>>
     /\ last' = A!Ev("write", n, TRUE, A!NoOut)
     /\ LET p == Force([i \in 1..n |-> nextId + i - 1]) IN
        IF offset > 0 /\ n <= B - offset THEN
          \* d.offset += copy(d.block[d.offset:], p); return
          /\ block' = CopyInto(block, offset, p)
          /\ offset' = offset + n
          /\ UNCHANGED <<h, c>>
        ELSE
          LET rem  == B - offset
              blk1 == IF offset > 0 THEN CopyInto(block, offset, SubSeq(p, 1, rem)) ELSE block
              hc1  == IF offset > 0 THEN HashBlocks(h, c, FALSE, blk1) ELSE <<h, c>>     \* hashBlocks(.., d.block[:])
              p1   == IF offset > 0 THEN SubSeq(p, rem + 1, n) ELSE p
              nn0  == Len(p1) - (Len(p1) % B)
              nn   == IF Len(p1) > B THEN (IF Len(p1) = nn0 THEN nn0 - B ELSE nn0) ELSE 0  \* keep the last full block
              hc2  == HashBlocks(hc1[1], hc1[2], FALSE, SubSeq(p1, 1, nn))
              p2   == SubSeq(p1, nn + 1, Len(p1))
          IN /\ h' = hc2[1] /\ c' = hc2[2]
             /\ block' = CopyInto(blk1, 0, p2)
             /\ offset' = Len(p2)

\* finalize on copies of h and c; Sum returns hash[:d.size]
Finalize(hh, cc, blk, off) ==
  LET padded == Force([i \in 1..B |-> IF i <= off THEN blk[i] ELSE 0])
      c1 == cc - (B - off)                            \* c -= remaining (with borrow into c[1])
  IN HashBlocks(hh, c1, TRUE, padded)[1]
Sum ==
  /\ ~panicked
  /\ IF ~SumDefined THEN Panic("sum", 0) ELSE
     /\ UNCHANGED <<h, c, size, block, offset, saved, panicked, taint, msg, nextId, snapMsg>>
     /\ last' = A!Ev("sum", Len(msg), TRUE,
                     LET f == Finalize(h, c, block, offset) IN
                     [size |-> f.size, klen |-> f.klen, outlen |-> size, calls |-> f.calls])

Reset ==
  /\ ~panicked
  /\ h' = InitH(size, KeyLen) /\ c' = 0
  /\ block' = (IF KeyLen > 0 THEN A!KeyBlock ELSE block)      \* d.block = d.key only when keyed: stale bytes stay otherwise
  /\ offset' = (IF KeyLen > 0 THEN B ELSE 0)
  /\ msg' = <<>>
  /\ UNCHANGED <<size, saved, panicked, taint, nextId, snapMsg>>
  /\ last' = A!Ev("reset", 0, TRUE, A!NoOut)

Marshal ==
  /\ ~panicked
  /\ UNCHANGED <<h, c, size, block, offset, panicked, msg, nextId>>
  /\ IF KeyLen = 0
     THEN /\ saved' = <<TRUE, [h |-> h, c |-> c, size |-> size, block |-> block, offset |-> offset]>>
          /\ snapMsg' = msg
          /\ taint' = (IF taint = 0 THEN 0 ELSE 2)
          /\ last' = A!Ev("marshal", Len(msg), TRUE, A!NoOut)
     ELSE /\ UNCHANGED <<saved, snapMsg, taint>>
          /\ last' = A!Ev("marshal", Len(msg), FALSE, A!NoOut)

\* UnmarshalBinary(b) into a fresh digest of the same kind (newDigest(Size, key)); the fresh object
\* replaces the one under observation.  b: the fields of a marshaled state.
InRange(sz, off) == sz \in 1..MaxSize /\ off \in 0..B
Load(b) == /\ h' = b.h /\ c' = b.c /\ size' = b.size /\ block' = b.block /\ offset' = b.offset
Unmarshal ==
  /\ ~panicked /\ saved[1]
  /\ Load(saved[2])                    \* bytes produced by MarshalBinary are in range (TypeOK)
  /\ msg' = snapMsg
  /\ taint' = (IF taint = 2 THEN 2 ELSE 0)
  /\ UNCHANGED <<saved, panicked, nextId, snapMsg>>
  /\ last' = A!Ev("unmarshal", Len(snapMsg), TRUE, A!NoOut)

\* C07 corruption: the marshaled bytes with the size and offset bytes replaced
UnmarshalCorrupt(sz, off) ==
  /\ ~panicked /\ saved[1]
  /\ UNCHANGED <<saved, panicked, nextId, snapMsg, msg>>
  /\ IF RangeCheck /\ ~InRange(sz, off)
     THEN /\ UNCHANGED <<h, c, size, block, offset, taint>>     \* error returned before any field is written
          /\ last' = A!Ev("corrupt", 0, FALSE, A!NoOut)
     ELSE /\ Load([saved[2] EXCEPT !.size = sz, !.offset = off])
          /\ taint' = (IF taint = 2 THEN 2 ELSE 1)
          /\ last' = A!Ev("corrupt", 0, TRUE, A!NoOut)

Next == \/ \E n \in NSet : Write(n)
        \/ Sum \/ Reset
        \/ (WithMarshal /\ (Marshal \/ Unmarshal))
        \/ \E sz \in CorruptSizes, off \in CorruptOffsets : UnmarshalCorrupt(sz, off)
Spec == Init /\ [][Next]_ivars

(***************************************************************************)
(* Properties                                                              *)
(***************************************************************************)
\* C07: the shape every action must preserve, and on which Write/Sum/Reset are defined
TypeOK == /\ size \in 1..MaxSize /\ offset \in 0..B /\ c >= 0 /\ c % B = 0
          /\ saved[1] => (saved[2].size \in 1..MaxSize /\ saved[2].offset \in 0..B)
ShapeOK == size \in 0..MaxSize /\ offset \in 0..B       \* size = 0 is useless but harmless (Sum returns nothing)
DefinedIffShape == (WriteDefined /\ SumDefined) <=> ShapeOK
NoPanic == ~panicked
OneCorruption == taint <= 1       \* model-checking constraint: corrupted states are not re-marshaled

\* C05: the bookkeeping rule behind the refinement ("keep a full last block buffered until Sum")
Data == A!KeyBlock \o msg
BufInv == LET T == Len(Data) IN
  /\ offset = (IF T = 0 THEN 0 ELSE ((T - 1) % B) + 1)
  /\ c = T - offset
  /\ \A i \in 1..offset : block[i] = Data[c + i]
  /\ h = [size |-> Size, klen |-> KeyLen,
          calls |-> [i \in 1..(c \div B) |-> [blk |-> SubSeq(Data, (i - 1) * B + 1, i * B), t |-> i * B, f |-> FALSE]]]
SumIsDefinition == A!SumIsDefinition

Refines == A!Spec
AbsSumStable == A!SumStable
AbsResetRestores == A!ResetRestores
AbsTransparent == A!Transparent

\* the one-shot checkSum(sum, hashSize, data) of Sum256/Sum384/Sum512 on n bytes with ids 1..n
OneShot(n) ==
  LET data == Force([i \in 1..n |-> i])
      nn0  == n - (n % B)
      nn   == IF n > B THEN (IF n = nn0 THEN nn0 - B ELSE nn0) ELSE 0
      hc   == HashBlocks(InitH(Size, 0), 0, FALSE, SubSeq(data, 1, nn))
      rest == SubSeq(data, nn + 1, n)
      f    == Finalize(hc[1], hc[2], CopyInto(ZeroBlock, 0, rest), Len(rest))
  IN [size |-> f.size, klen |-> f.klen, outlen |-> Size, calls |-> f.calls]
OneShotIsDefinition == \A n \in 0..(3 * B + 1) : OneShot(n) = A!H(Size, 0, [i \in 1..n |-> i])
=============================================================================
