\* non-vacuity: writing the key file in place must produce a partial read (expected violation of D2)
SPECIFICATION Spec
CONSTANTS
  Procs = {1, 2}
  Keys = {"k1"}
  MaxOps = 1
  NChunks = 2
  InPlace = TRUE
  Cancels = FALSE
INVARIANTS D2_NoPartialRead
CHECK_DEADLOCK FALSE
