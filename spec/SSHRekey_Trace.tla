--------------------------- MODULE SSHRekey_Trace ---------------------------
(* Binding T for C31: executions recorded from real handshakeTransport pairs (hook
   ssh.VerifNew{Client,Server}Handshake: every packet at the keyingTransport boundary, plus
   the drivers' own call/return/delivery events, appended to one log under one lock) must be
   behaviours of SSHRekey.

   Logged events                      model action
     wstart x w i     writer calls writePacket             WCall
     wire x t w i     conn.writePacket entry               WPush | KLFlush1 | KLSendInit | KLSend...
     wend x w i       writePacket returned                 WRet
     recv x t w i     conn.readPacket returned             RLRead | KLRecv...
     deliver x t w i  application readPacket returned      AppRead
     rekey x          explicit requestKeyExchange          RequestKex
     queued x w i     packet appended to pendingPackets    WQueue      (hook under t.mu)
     kexdone x        sentInitMsg cleared after a kex      KLFinish    (hook under t.mu)
   Unlogged internal steps (KLTakeReq, KLRelease, KLFlushDone, RLDeliver, RLResume) are taken as early
   as possible ("urgent": they only free resources, so taking them early never disables a
   later event).  When a rekey request token is deposited or taken is not observable and not
   part of the property (thresholds may fire at any time): a KEXINIT from an idle kexLoop is
   explained by SendInitFromIdle.  WBlock is not needed: a blocked writer is a calling writer.
   'wire' is logged at keyingTransport.writePacket ENTRY (before conn.Write may block), so the
   model's wire here is "logged as written, not yet logged as received" and is unbounded:
   trace configs set NetCap above any trace length, also for the bounded-pipe scenario
   BothQueueBeyondPipe, whose blocking is judged at property level by the driver.
   ReleaseAfterFlush = FALSE in trace configs (the code's order). *)
EXTENDS SSHRekey, TraceLib

TraceInit == Init /\ l = 1 /\ HWMInit

IsX(e) == IsEvent(e) /\ Ev.x \in Sides

TReset == /\ IsEvent("reset")
          /\ sentInit' = [x \in Sides |-> FALSE] /\ pending' = [x \in Sides |-> <<>>]
          /\ reqKex' = [x \in Sides |-> TRUE] /\ kx' = [x \in Sides |-> "idle"]
          /\ hand' = [x \in Sides |-> "none"] /\ held' = [x \in Sides |-> <<>>]
          /\ incoming' = [x \in Sides |-> <<>>] /\ wire' = [x \in Sides |-> <<>>]
          /\ wleft' = [x \in Sides |-> Threshold] /\ rleft' = [x \in Sides |-> Threshold]
          /\ first' = [x \in Sides |-> TRUE] /\ session' = [x \in Sides |-> FALSE]
          /\ wpc' = [x \in Sides |-> [w \in Writers |-> "idle"]]
          /\ wlen' = [x \in Sides |-> [w \in Writers |-> 0]]
          /\ sent' = [x \in Sides |-> [w \in Writers |-> 0]]
          /\ rekeys' = 0
          /\ lastDel' = [x \in Sides |-> [w \in Writers |-> 0]]
          /\ nDel' = [x \in Sides |-> 0]

\* ---- urgent internal steps: taking them as early as possible never disables a later event
\* (they only free resources), so the trace spec takes them before anything else.  This keeps
\* validation linear in the trace without losing any explanation.
UrgentStep(x) == \/ RLDeliver(x) \/ RLResume(x) \/ KLRelease(x) \/ KLFlushDone(x) \/ KLTakeReq(x)
UrgentEnabled == \E x \in Sides :
   \/ (held[x] # <<>> /\ Len(incoming[x]) < ChanSize)
   \/ hand[x] = "released"
   \/ kx[x] = "release"
   \/ (kx[x] = "flushing" /\ pending[x] = <<>>)
   \/ (kx[x] \in {"idle", "sentOnly"} /\ hand[x] = "offered")
Calm == ~UrgentEnabled

TWStart == /\ Calm /\ IsX("wstart") /\ Ev.w \in Writers
           /\ WCall(Ev.x, Ev.w, 1)
           /\ sent[Ev.x][Ev.w] + 1 = Ev.i

\* the packet just appended to x's wire is the logged one
Appended(x) == /\ Len(wire'[x]) = Len(wire[x]) + 1
               /\ LET p == wire'[x][Len(wire'[x])] IN p.t = Ev.t /\ p.w = Ev.w /\ p.i = Ev.i

\* When a rekey request token was deposited and taken (thresholds, explicit requests) is not
\* observable and not part of the property: the KEXINIT of an idle kexLoop is explained as
\* "token taken, then sendKexInit" in one step.
SendInitFromIdle(x) ==
  /\ kx[x] = "idle" /\ Room(x)
  /\ wire' = [wire EXCEPT ![x] = Append(@, Ctl("KEXINIT", x))]
  /\ sentInit' = [sentInit EXCEPT ![x] = TRUE]
  /\ kx' = [kx EXCEPT ![x] = "sentOnly"]
  /\ UNCHANGED <<reqKex, hand, wleft>> /\ UNCHANGED KLUnch

TWire == /\ Calm /\ IsX("wire")
         /\ LET x == Ev.x IN
            /\ \/ (Ev.t = "APP" /\ Ev.w \in Writers /\ (WPush(x, Ev.w) \/ KLFlush1(x)))
               \/ (Ev.t = "KEXINIT" /\ (KLSendInit(x) \/ SendInitFromIdle(x)))
               \/ (Ev.t = "KEXMSG" /\ ((x = "c" /\ KLClientInit) \/ (x = "s" /\ KLServerReply)))
               \/ (Ev.t = "NEWKEYS" /\ KLSendNK(x))
               \/ (Ev.t = "EXT" /\ x = "s" /\ KLSendExt)
            /\ Appended(x)

TWEnd == /\ Calm /\ IsX("wend") /\ Ev.w \in Writers
         /\ WRet(Ev.x, Ev.w)
         /\ sent[Ev.x][Ev.w] = Ev.i

\* the packet consumed from the peer's wire is the logged one
Consumed(x) == LET p == Head(wire[Other(x)]) IN p.t = Ev.t /\ p.w = Ev.w /\ p.i = Ev.i

TRecv == /\ Calm /\ IsX("recv")
         /\ LET x == Ev.x IN
            /\ wire[Other(x)] # <<>> /\ Consumed(x)
            /\ \/ (Ev.t \in {"APP", "EXT", "KEXINIT"} /\ RLRead(x))
               \/ (Ev.t = "KEXMSG" /\ ((x = "c" /\ KLClientReply) \/ (x = "s" /\ KLServerInit)))
               \/ (Ev.t = "NEWKEYS" /\ KLRecvNK(x))

TDeliver == /\ Calm /\ IsX("deliver")
            /\ LET x == Ev.x IN
               /\ incoming[x] # <<>>
               /\ LET p == Head(incoming[x]) IN p.t = Ev.t /\ p.w = Ev.w /\ p.i = Ev.i
               /\ AppRead(x)

TRekey == /\ Calm /\ IsX("rekey")
          /\ RequestKex(Ev.x)

\* internal linearization points logged by the verif trace hooks under t.mu
TQueued == /\ Calm /\ IsX("queued") /\ Ev.w \in Writers
           /\ WQueue(Ev.x, Ev.w)
           /\ sent'[Ev.x][Ev.w] = Ev.i
TKexDone == /\ Calm /\ IsX("kexdone")
            /\ KLFinish(Ev.x)

TraceNext == \/ TReset \/ TWStart \/ TWire \/ TWEnd \/ TRecv \/ TDeliver \/ TRekey \/ TQueued \/ TKexDone
             \/ ((\E x \in Sides : UrgentStep(x)) /\ UNCHANGED l)
TraceSpec == TraceInit /\ [][TraceNext]_<<vars, l>>

\* the request-token and threshold counters do not influence what the trace spec accepts
TraceView == <<sentInit, pending, kx, hand, held, incoming, wire, first, session, wpc, sent, lastDel, nDel, l>>
=============================================================================
