SPECIFICATION Spec
CONSTANTS
  Cases <- C15Quick
  Groups = 8
  Heavy = 2
INVARIANTS Emit Published Shape
CHECK_DEADLOCK FALSE
