------------------------------ MODULE PrimTwos ------------------------------
(* Executable two's-complement arithmetic on big-endian byte sequences, shared by
   PrimSSHEnc (RFC 4251 mpint, property C24) and PrimDER (X.690 INTEGER, property C23).

   An integer of any size is a record  [neg |-> BOOLEAN, mag |-> bytes]  where mag is the
   big-endian magnitude without leading zero bytes (zero is [neg |-> FALSE, mag |-> <<>>]).
   TLC integers are 32-bit, so everything is done on byte sequences; the numeric meaning is
   pinned down by ASSUMEs that compare with integer arithmetic on a small range. *)
EXTENDS Integers, Sequences

IsByte(x) == x \in 0..255
Zeros(n) == [i \in 1..n |-> 0]
Rep(b, n) == [i \in 1..n |-> b]

RECURSIVE StripZeros(_)
StripZeros(b) == IF b = <<>> \/ b[1] # 0 THEN b ELSE StripZeros(Tail(b))

BigInt(neg, mag) == [neg |-> neg, mag |-> mag]
BigZero == BigInt(FALSE, <<>>)
IsBig(v) == v.mag = StripZeros(v.mag) /\ (v.mag = <<>> => ~v.neg)

Not(b) == [i \in 1..Len(b) |-> 255 - b[i]]

\* b - 1 for b > 0, same length (big-endian borrow propagation)
RECURSIVE Dec1(_)
Dec1(b) == LET n == Len(b) IN
           IF b[n] > 0 THEN [b EXCEPT ![n] = @ - 1]
           ELSE Dec1(SubSeq(b, 1, n - 1)) \o <<255>>
\* b + 1, may grow by one byte
RECURSIVE Inc1(_)
Inc1(b) == LET n == Len(b) IN
           IF n = 0 THEN <<1>>
           ELSE IF b[n] < 255 THEN [b EXCEPT ![n] = @ + 1]
           ELSE Inc1(SubSeq(b, 1, n - 1)) \o <<0>>

TopBit(b) == b # <<>> /\ b[1] >= 128

(* The shortest two's-complement encoding of v; zero is the empty string (the mpint
   convention; DER uses a single 00 octet instead, see PrimDER). *)
TwosMin(v) ==
  IF v.mag = <<>> THEN <<>>
  ELSE IF ~v.neg THEN (IF TopBit(v.mag) THEN <<0>> \o v.mag ELSE v.mag)
  ELSE LET m == StripZeros(Dec1(v.mag))          \* |v| - 1
           c == Not(m) IN                         \* ... inverted
       IF c = <<>> \/ ~TopBit(c) THEN <<255>> \o c ELSE c

(* The integer denoted by a two's-complement byte string of any length (empty = 0). *)
TwosVal(b) ==
  IF b = <<>> THEN BigZero
  ELSE IF ~TopBit(b) THEN BigInt(FALSE, StripZeros(b))
  ELSE BigInt(TRUE, StripZeros(Inc1(Not(b))))     \* -(~b + 1)

(* b is the *minimal* encoding of its value: no redundant leading 00 / ff octet. *)
IsMinimalTwos(b) ==
  /\ Len(b) >= 2 => ~(b[1] = 0 /\ b[2] < 128) /\ ~(b[1] = 255 /\ b[2] >= 128)
  /\ Len(b) = 1 => b[1] # 0

\* ---- numeric meaning on a small range (|v| < 2^23), used only in ASSUMEs / model checking
RECURSIVE NatOf(_)
NatOf(b) == IF b = <<>> THEN 0 ELSE NatOf(SubSeq(b, 1, Len(b) - 1)) * 256 + b[Len(b)]
IntOf(v) == IF v.neg THEN 0 - NatOf(v.mag) ELSE NatOf(v.mag)
RECURSIVE BytesOfNat(_)
BytesOfNat(n) == IF n = 0 THEN <<>> ELSE BytesOfNat(n \div 256) \o <<n % 256>>
BigOfInt(i) == IF i < 0 THEN BigInt(TRUE, BytesOfNat(0 - i)) ELSE BigInt(FALSE, BytesOfNat(i))
Pow256(n) == CASE n = 0 -> 1 [] n = 1 -> 256 [] n = 2 -> 65536 [] n = 3 -> 16777216
\* numeric two's-complement value of a string of <= 3 bytes
TwosInt(b) == IF b = <<>> THEN 0 ELSE NatOf(b) - (IF TopBit(b) THEN Pow256(Len(b)) ELSE 0)

\* ---- boundary magnitudes as byte strings: 2^k - 1, 2^k, 2^k + 1
Pow2(k) == <<CASE k % 8 = 0 -> 1 [] k % 8 = 1 -> 2 [] k % 8 = 2 -> 4 [] k % 8 = 3 -> 8
               [] k % 8 = 4 -> 16 [] k % 8 = 5 -> 32 [] k % 8 = 6 -> 64 [] OTHER -> 128>> \o Zeros(k \div 8)
Pow2m1(k) == StripZeros(Dec1(Pow2(k)))
Pow2p1(k) == IF k = 0 THEN <<2>> ELSE [Pow2(k) EXCEPT ![Len(Pow2(k))] = @ + 1]

\* RFC 4251 section 5 examples (mpint payloads) and basic sanity
ASSUME TwosMin(BigZero) = <<>>
ASSUME TwosMin(BigInt(FALSE, <<9, 163, 120, 249, 178, 227, 50, 167>>)) = <<9, 163, 120, 249, 178, 227, 50, 167>>
ASSUME TwosMin(BigInt(FALSE, <<128>>)) = <<0, 128>>
ASSUME TwosMin(BigInt(TRUE, <<18, 52>>)) = <<237, 204>>                       \* -1234
ASSUME TwosMin(BigInt(TRUE, <<222, 173, 190, 239>>)) = <<255, 33, 82, 65, 17>>  \* -deadbeef
ASSUME TwosMin(BigInt(TRUE, <<1>>)) = <<255>>
ASSUME TwosMin(BigInt(TRUE, <<128>>)) = <<128>>
ASSUME TwosMin(BigInt(TRUE, <<1, 0>>)) = <<255, 0>>
=============================================================================
