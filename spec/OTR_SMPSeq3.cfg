SPECIFICATION Spec
CONSTANTS
  Starts <- StartA
  MaxData = 0
  FragChoices <- F1
  MaxFaults = 0
  FaultKinds <- NoFaults
  MaxAuth = 3
  Secrets <- S12
  Questions <- Q0
  AllowEnd = FALSE
  MaxRequery = 0
  FixCommitState = TRUE
  SeqSMP = TRUE
  FixSMPReset = TRUE
INVARIANTS TypeOK SlotsSuffice SlotBound SMPSound RunOutcome
CHECK_DEADLOCK FALSE
