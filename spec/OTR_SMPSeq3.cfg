SPECIFICATION Spec
CONSTANTS
  Starts <- StartA
  MaxData = 0
  FragChoices <- F1
  MaxFaults = 0
  FaultKinds <- NoFaults
  MaxAuth = 3
  Secrets <- S12
  Questions <- Q0
  AllowEnd = FALSE
  MaxRequery = 0
  FixCommitState = TRUE
  SeqSMP = TRUE
  FixSMPReset = FALSE
INVARIANTS TypeOK SlotsSuffice SlotBound SMPSound RunOutcomeKnown
CHECK_DEADLOCK FALSE
