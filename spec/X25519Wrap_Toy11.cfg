SPECIFICATION Spec
CONSTANTS
  Q = 11
  UClasses = {}
  LowClasses = {}
  SmallClasses = {}
  ScalarClasses = {}
  SameAsS1 = {}
INVARIANTS X25519Exact WrongLengthIsError ScalarMultExact BaseEquivalence ZeroIffLowOrder EncodingIrrelevant ClampIrrelevant DHSymmetry
CHECK_DEADLOCK FALSE
