SPECIFICATION Spec
CONSTANTS
  B = 4
  Size = 2
  KeyLen = 2
  NSet <- MC_NSet
  MaxBytes = 14
  MaxSize = 3
  RangeCheck = TRUE
  CorruptSizes <- MC_None
  WithMarshal = TRUE
  CorruptOffsets <- MC_None
INVARIANTS TypeOK ShapeOK DefinedIffShape NoPanic BufInv SumIsDefinition
PROPERTIES Refines AbsSumStable AbsResetRestores AbsTransparent
CHECK_DEADLOCK FALSE
