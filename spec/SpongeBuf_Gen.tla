---------------------------- MODULE SpongeBuf_Gen ----------------------------
(***************************************************************************)
(* C08, binding R: history generator over spec/SpongeBuf.tla (which the    *)
(* implementation-shaped SpongeBufImpl is model-checked to refine).        *)
(* Every maximal call history of at most Depth calls (a history also ends  *)
(* when no object is left alive) is printed as                             *)
(*   TRACE {"kind": kind, "h": [event, ...]}                               *)
(* each event being the call (op, o, n), the model's prediction of its     *)
(* outcome (res = ok / panic) and, for calls that return bytes, the slice  *)
(* of the object's output stream they must equal: Z(m[0..absorbed))        *)
(* [from, from+n) (Sum: [0, OutLen)).  The Go harness replays the history  *)
(* on real sha3 objects and materialises Z with the byte oracle            *)
(* (PrimKeccak evaluated by TLC, see SpongeBuf_Tags).                      *)
(*                                                                         *)
(* Exhaustive configs use a symbolic rate: the abstract machine is linear  *)
(* in the lengths (it only adds them), so the alphabets are given as       *)
(* k*R + d for R = 10000 (SpongeBuf_GenSym*.cfg: 0, 1, R-1, R, R+1, ...)   *)
(* and the check decodes every number x of a history as k*rate + d with    *)
(* k = (x + R/2) div R, d = x - k*R for each real rate (72, 104, 136,      *)
(* 144, 168) - one enumeration serves all functions of a kind.  Simulation *)
(* configs (thorough) use real lengths 0..1000.                            *)
(***************************************************************************)
EXTENDS SpongeBuf, TLC, Json

CONSTANTS Depth
VARIABLES hist
gvars == <<kind, objs, last, hist>>

GInit == Init /\ hist = <<>>
GNext == /\ Len(hist) < Depth
         /\ Next
         /\ hist' = Append(hist, last')
GSpec == GInit /\ [][GNext]_gvars
Done == Len(hist) = Depth \/ \A o \in Ids : objs[o].st # "live"
Emit == (Done /\ Len(hist) > 0) => PrintT("TRACE " \o ToJson([kind |-> kind, h |-> hist]))
\* simulation mode: TLC evaluates the invariant on every state of a behaviour; print only at the end
EmitSim == Emit
=============================================================================
