SPECIFICATION Spec
CONSTANTS
  Keys <- K3
  RSAKeys <- R1
  Pass <- P2
  Lifetimes <- L3
  Ticks <- T2
  Comments <- C2
  Flags <- F4
  MaxLen = 0
INVARIANTS TypeOK NoDuplicates Corr PurgeExact ResAgree SigOnlyIfUsable LockedRevealsNothing
PROPERTIES LockedFrozen
