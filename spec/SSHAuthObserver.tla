--------------------------- MODULE SSHAuthObserver ---------------------------
(* Property C34 as a monitor over the events of one SSH client user-authentication run
   (golang.org/x/crypto/ssh, client_auth.go), independent of how the client is written.

   Events (records of one uniform shape, see E0):
     w      the client wrote a packet: the service request (k="service"), an authentication
            request (k="req": method m; for publickey: sig, key, fmt = key format, algo; sigok =
            the signature verifies over the session id) or a keyboard-interactive response
            (k="inforesp")
     r      the client was handed a packet by readPacket: t in {"eof","accept","ext","banner",
            "failure","success","pkok","inforeq","disconnect","unexpected"} with its fields (an
            "ext" packet carries server-sig-algs = algs when key = "", else only an unrelated
            extension)
     begin  the authentication loop entered the auth function of ClientConfig.Auth[i] (inner:
            a call made by a RetryableAuthMethod to the method it wraps)
     end    ... and left it (res in {"success","partial","failure"}, err)
     done   clientAuthenticate returned (res = "success" for a nil error)

   Obs(auth, o, e) is the monitor's transition function; o.bad collects the clauses the run
   contradicted.  SSHAuthClient.tla drives it with the events of the transcribed client (so
   TLC checks the design), SSHAuthObserver_Trace.tla with events recorded from the real
   clientAuthenticate (so TLC judges the implementation).

   Clauses (DESIGN.md section 8, C34):
     Q1   after "none" a method is attempted only if the server lists it: it is in the method
          list of the most recent USERAUTH_FAILURE that answered an authentication request
          proper (a failure answering a public-key *query* only rejects that key; its list is
          not consulted by the client).  If the server has committed a protocol error since
          that failure (a message not allowed at that point, or end of stream), or the client
          has already contradicted a clause, only "listed by the server at some point" is
          required.
     Q1r  a RetryableAuthMethod calls the wrapped method again only while the server's
          current list still contains the method.
     Q1b  a method whose attempt failed is never attempted again; a RetryableAuthMethod with
          maxTries n > 0 calls the wrapped method at most n times per attempt.
     Q2   a signed publickey request for key k, algorithm a is written only as the next packet
          after a query for (k, a) that the server answered with PK_OK for k's blob and an
          algorithm of k's key format (the name of the other family -- the plain algorithm for a
          certificate, the certificate algorithm for a plain key -- is not an acceptance); and
          the signature verifies over the session id (sigok).
     Q3   the algorithm of every publickey request is the documented choice DocChoice for that
          signer and the server-sig-algs received before SERVICE_ACCEPT; a signer for which the
          documented outcome is an error is not offered at all; a key is offered a second time
          in one attempt only as the RSA-certificate SHA-1 compatibility retry, after every
          signer has had its turn.
     Q4   nothing is written or attempted after USERAUTH_SUCCESS answered an authentication
          request proper, and the result is then success; conversely the result is success only
          then (Q4b).
     Q5   at most MaxTried attempts follow "none". *)
EXTENDS Integers, Sequences, FiniteSets, TLC

CONSTANT MaxTried

R256 == "rsa-sha2-256"
R512 == "rsa-sha2-512"
RSA  == "ssh-rsa"
ED   == "ssh-ed25519"
CR256 == "rsa-sha2-256-cert-v01@openssh.com"
CR512 == "rsa-sha2-512-cert-v01@openssh.com"
CRSA  == "ssh-rsa-cert-v01@openssh.com"
CED   == "ssh-ed25519-cert-v01@openssh.com"
DSS  == "ssh-dss"
EC256 == "ecdsa-sha2-nistp256"
EC384 == "ecdsa-sha2-nistp384"
EC521 == "ecdsa-sha2-nistp521"
CEC256 == "ecdsa-sha2-nistp256-cert-v01@openssh.com"
ERR  == "!error"

PW  == "password"
KBD == "keyboard-interactive"
PK  == "publickey"

Range(s) == {s[i] : i \in 1..Len(s)}
InSeq(x, s) == \E i \in 1..Len(s) : s[i] = x
MinOf(S) == CHOOSE x \in S : \A y \in S : x <= y

Underlying(a) == CASE a = CR256 -> R256 [] a = CR512 -> R512 [] a = CRSA -> RSA [] a = CED -> ED
                   [] a = CEC256 -> EC256 [] OTHER -> a
AlgsForFormat(f) == CASE f = RSA -> <<R256, R512, RSA>> [] f = CRSA -> <<CR256, CR512, CRSA>> [] OTHER -> <<f>>
IsRSACert(a) == a \in {CR256, CR512, CRSA}

(* The public key algorithm name of key format f whose signature algorithm is a ("" if none). *)
Proto(f, a) == LET S == {x \in Range(AlgsForFormat(f)) : Underlying(x) = a}
               IN IF S = {} THEN "" ELSE CHOOSE x \in S : TRUE

(* The documented choice (pickSignatureAlgorithm's comments, MultiAlgorithmSigner.Algorithms,
   RFC 8308 3.1, RFC 8332 3.3): the first of the signer's algorithms, in the signer's
   preference order, that is valid for the key and that the server lists in server-sig-algs
   (for a certificate: its signature algorithm or the certificate algorithm itself); without
   the extension or without overlap the key format, provided the signer can sign with it;
   otherwise an error.   s = [key, fmt, algs], e = [present, algs]. *)
DocChoice(s, e) ==
  LET under == Underlying(s.fmt)
      fb == IF InSeq(under, s.algs) THEN s.fmt ELSE ERR
      Listed(a) == /\ e.present
                   /\ Proto(s.fmt, a) # ""
                   /\ (InSeq(a, e.algs) \/ InSeq(Proto(s.fmt, a), e.algs))
      I == {i \in 1..Len(s.algs) : Listed(s.algs[i])}
  IN IF I = {} THEN fb ELSE Proto(s.fmt, s.algs[MinOf(I)])

-----------------------------------------------------------------------------
(* Events *)
E0 == [ev |-> "", k |-> "", m |-> "", sig |-> FALSE, sigok |-> TRUE, key |-> "", fmt |-> "", algo |-> "",
       t |-> "", methods |-> <<>>, partial |-> FALSE, algs |-> <<>>, n |-> 0, i |-> 0, inner |-> FALSE,
       res |-> "", err |-> FALSE]
EvW(k, m, sig, key, fmt, algo) == [E0 EXCEPT !.ev = "w", !.k = k, !.m = m, !.sig = sig, !.key = key, !.fmt = fmt, !.algo = algo]
EvR(p) == [E0 EXCEPT !.ev = "r", !.t = p.t, !.methods = p.methods, !.partial = p.partial, !.key = p.key,
                     !.algo = p.algo, !.algs = p.algs, !.n = p.n]
EvBegin(i, inner, m) == [E0 EXCEPT !.ev = "begin", !.i = i, !.inner = inner, !.m = m]
EvEnd(i, inner, m, res, err) == [E0 EXCEPT !.ev = "end", !.i = i, !.inner = inner, !.m = m, !.res = res, !.err = err]
EvDone(res) == [E0 EXCEPT !.ev = "done", !.res = res]

(* Packets (what the server sends), uniform shape. *)
P0 == [t |-> "", methods |-> <<>>, partial |-> FALSE, key |-> "", algo |-> "", algs |-> <<>>, n |-> 0]
PEof == [P0 EXCEPT !.t = "eof"]

-----------------------------------------------------------------------------
(* Monitor state *)
ObsInit == [phase |-> "pre",              \* "pre" until SERVICE_ACCEPT, then "auth", finally "done"
            ext |-> [present |-> FALSE, algs |-> <<>>],    \* server-sig-algs received in the preamble
            lastW |-> E0,                 \* last packet written
            extCnt |-> 0,                 \* EXT_INFO packets read since the last request was written
            listKnown |-> FALSE, list |-> {},   \* Q1: the server's current method list
            ever |-> {},                  \* every method the server has listed so far
            errSince |-> FALSE,           \* the server committed a protocol error since `list` was set
            acc |-> FALSE,                \* the last packet written is a query and the server accepted it
            failed |-> {},                \* methods whose attempt failed
            nattempt |-> 0, ninner |-> 0, curI |-> 0,
            q1 |-> {}, q2 |-> {}, rej |-> {},    \* this attempt: keys offered once / twice / rejected
            succ |-> FALSE,
            bad |-> {}]

Bad(o, tag) == [o EXCEPT !.bad = o.bad \cup {tag}]
Check(o, cond, tag) == IF cond THEN o ELSE Bad(o, tag)

Ctx(o) == IF o.phase = "pre" THEN "P"
          ELSE IF o.lastW.m = PK /\ ~o.lastW.sig THEN "K"
          ELSE IF o.lastW.m = KBD THEN "I"
          ELSE "H"

(* Is packet type t allowed by the protocol at this point? *)
Legal(o, t) ==
  CASE t = "disconnect" -> TRUE
    [] t = "eof" -> FALSE
    [] Ctx(o) = "P" -> (t = "accept") \/ (t = "ext" /\ o.extCnt = 0)
    [] Ctx(o) = "K" -> t \in {"banner", "pkok", "failure"}
    [] Ctx(o) = "H" -> t \in {"banner", "failure", "success"} \/ (t = "ext" /\ o.extCnt = 0)
    [] Ctx(o) = "I" -> t \in {"banner", "failure", "success", "inforeq"} \/ (t = "ext" /\ o.extCnt = 0)

ObsR(o, e) ==
  LET c == Ctx(o)
      o1 == IF Legal(o, e.t) THEN o ELSE [o EXCEPT !.errSince = TRUE]
      o2 == CASE e.t = "ext" ->
                   IF c = "P" /\ o.extCnt = 0
                   THEN [o1 EXCEPT !.ext = [present |-> e.key = "", algs |-> IF e.key = "" THEN e.algs ELSE <<>>], !.extCnt = 1]
                   ELSE [o1 EXCEPT !.extCnt = o.extCnt + 1]
              [] e.t = "accept" -> IF c = "P" THEN [o1 EXCEPT !.phase = "auth", !.extCnt = 0] ELSE o1
              [] e.t = "failure" ->
                   LET o3 == [o1 EXCEPT !.ever = o.ever \cup Range(e.methods)] IN
                   IF c = "K" THEN [o3 EXCEPT !.rej = o.rej \cup {o.lastW.key}]
                   ELSE IF c = "P" THEN o3
                   ELSE [o3 EXCEPT !.list = Range(e.methods), !.listKnown = TRUE, !.errSince = FALSE]
              [] e.t = "pkok" ->
                   IF c = "K" THEN
                      IF e.key = o.lastW.key /\ InSeq(e.algo, AlgsForFormat(o.lastW.fmt))
                      THEN [o1 EXCEPT !.acc = TRUE]
                      ELSE [o1 EXCEPT !.rej = o.rej \cup {o.lastW.key}]
                   ELSE o1
              [] e.t = "success" -> IF c \in {"H", "I"} THEN [o1 EXCEPT !.succ = TRUE] ELSE o1
              [] OTHER -> o1
  IN o2

ObsW(auth, o, e) ==
  LET o0 == Check(o, ~o.succ, "Q4")
      isPk == e.k = "req" /\ e.m = PK
      S == IF isPk /\ o.curI \in 1..Len(auth)
           THEN {s \in Range(auth[o.curI].signers) : s.key = e.key} ELSE {}
      s == CHOOSE x \in S : TRUE
      doc == DocChoice(s, o.ext)
      origs == Range(auth[o.curI].signers)
      compatOK == /\ s.fmt = CRSA /\ InSeq(RSA, s.algs) /\ e.algo = CRSA
                  /\ doc \in {CR256, CR512}
                  /\ e.key \in o.rej
                  /\ \A x \in origs : x.key \in o.q1 \/ DocChoice(x, o.ext) = ERR
      o1 == IF ~isPk THEN o0
            ELSE IF e.sig THEN
               Check(Check(o0, /\ o.acc /\ o.lastW.k = "req" /\ o.lastW.m = PK /\ ~o.lastW.sig
                               /\ o.lastW.key = e.key /\ o.lastW.algo = e.algo, "Q2"),
                     e.sigok, "Q2")
            ELSE IF S = {} THEN Bad(o0, "Q3")
            ELSE IF e.key \notin o.q1 THEN
               [Check(o0, doc # ERR /\ e.algo = doc, "Q3") EXCEPT !.q1 = o.q1 \cup {e.key}]
            ELSE IF e.key \notin o.q2 THEN
               [Check(o0, compatOK, "Q3") EXCEPT !.q2 = o.q2 \cup {e.key}, !.rej = o.rej \ {e.key}]
            ELSE Bad(o0, "Q3")
  IN [o1 EXCEPT !.lastW = e, !.acc = FALSE, !.extCnt = IF e.k = "req" THEN 0 ELSE o.extCnt]

ObsBegin(auth, o, e) ==
  IF e.inner THEN
     LET n == o.ninner + 1
         mx == auth[e.i].retry
         o1 == Check(Check(o, ~o.succ, "Q4"), mx <= 0 \/ n <= mx, "Q1b")
         o2 == Check(o1, o.ninner = 0 \/ o.errSince \/ (o.listKnown /\ e.m \in o.list), "Q1r")
     IN [o2 EXCEPT !.ninner = n, !.q1 = {}, !.q2 = {}, !.rej = {}]
  ELSE
     LET n == o.nattempt + 1
         listed == IF o.errSince \/ o.bad # {} THEN e.m \in o.ever ELSE (o.listKnown /\ e.m \in o.list)
         o1 == Check(o, ~o.succ, "Q4")
         o2 == Check(o1, listed, "Q1")
         o3 == Check(o2, e.m \notin o.failed, "Q1b")
         o4 == Check(o3, n <= MaxTried, "Q5")
     IN [o4 EXCEPT !.nattempt = n, !.ninner = 0, !.curI = e.i, !.q1 = {}, !.q2 = {}, !.rej = {}]

ObsEnd(o, e) ==
  IF e.inner THEN o
  ELSE [o EXCEPT !.failed = IF e.res = "failure" \/ e.err THEN o.failed \cup {e.m} ELSE o.failed,
                 !.curI = 0]

ObsDone(o, e) ==
  LET o1 == Check(o, o.succ => e.res = "success", "Q4")
      o2 == Check(o1, e.res = "success" => o.succ, "Q4b")
  IN [o2 EXCEPT !.phase = "done"]

Obs(auth, o, e) ==
  CASE e.ev = "w" -> ObsW(auth, o, e)
    [] e.ev = "r" -> ObsR(o, e)
    [] e.ev = "begin" -> ObsBegin(auth, o, e)
    [] e.ev = "end" -> ObsEnd(o, e)
    [] e.ev = "done" -> ObsDone(o, e)

(* The property, clause by clause, over a monitor state o. *)
HoldsQ1(o)  == "Q1"  \notin o.bad
HoldsQ1b(o) == "Q1b" \notin o.bad
HoldsQ1r(o) == "Q1r" \notin o.bad
HoldsQ2(o)  == "Q2"  \notin o.bad
HoldsQ3(o)  == "Q3"  \notin o.bad
HoldsQ4(o)  == "Q4"  \notin o.bad /\ "Q4b" \notin o.bad
HoldsQ5(o)  == "Q5"  \notin o.bad
=============================================================================
