INIT Init
NEXT Next
CONSTANTS
  SBCases <- SBQuick
  BoxCases <- BoxQuick
  OpenMax = 34
INVARIANTS EmitAndLaws
CHECK_DEADLOCK FALSE
