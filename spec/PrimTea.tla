------------------------------ MODULE PrimTea ------------------------------
(***************************************************************************)
(* Layer P (executable primitives, binding E): TEA (Wheeler & Needham,     *)
(* 1994) with any number of cycles and XTEA (Needham & Wheeler, 1997), as  *)
(* the published reference algorithms, on 32-bit words = <<hi, lo>> 16-bit *)
(* limbs (PrimWords).  Blocks and keys are big-endian byte strings (the    *)
(* convention of /repo/tea and /repo/xtea).  TLC evaluates these to obtain *)
(* expected ciphertexts (C12).  XTEA is written in the paper's form        *)
(* (sum + k[sum & 3], sum + k[(sum >> 11) & 3]); /repo/xtea precomputes a  *)
(* 64-entry table instead.                                                 *)
(***************************************************************************)
EXTENDS PrimWords, SequencesExt

Delta == <<40503, 31161>>                \* 0x9e3779b9
Shl32(w, n) == << ((w[1] * 2^n) % 65536) + (w[2] \div 2^(16 - n)), (w[2] * 2^n) % 65536 >>      \* 0 < n < 16
Shr32(w, n) == << w[1] \div 2^n, (w[2] \div 2^n) + (w[1] % 2^n) * 2^(16 - n) >>                  \* 0 < n < 16
Neg32(w) == Add32(<<65535 - w[1], 65535 - w[2]>>, <<0, 1>>)
Sub32(a, b) == Add32(a, Neg32(b))
BE32(b, i) == << b[i] * 256 + b[i + 1], b[i + 2] * 256 + b[i + 3] >>
BytesBE(w) == << w[1] \div 256, w[1] % 256, w[2] \div 256, w[2] % 256 >>
KeyWords(key) == << BE32(key, 1), BE32(key, 5), BE32(key, 9), BE32(key, 13) >>
X3(a, b, c) == Xor32(Xor32(a, b), c)

\* ---- TEA.  st = <<v0, v1, sum>>; one cycle = two Feistel rounds
TeaCycleE(k, st) ==
  LET sum == Add32(st[3], Delta)
      v0  == Add32(st[1], X3(Add32(Shl32(st[2], 4), k[1]), Add32(st[2], sum), Add32(Shr32(st[2], 5), k[2])))
      v1  == Add32(st[2], X3(Add32(Shl32(v0, 4), k[3]), Add32(v0, sum), Add32(Shr32(v0, 5), k[4])))
  IN <<v0, v1, sum>>
TeaCycleD(k, st) ==
  LET v1  == Sub32(st[2], X3(Add32(Shl32(st[1], 4), k[3]), Add32(st[1], st[3]), Add32(Shr32(st[1], 5), k[4])))
      v0  == Sub32(st[1], X3(Add32(Shl32(v1, 4), k[1]), Add32(v1, st[3]), Add32(Shr32(v1, 5), k[2])))
  IN <<v0, v1, Sub32(st[3], Delta)>>
Iter(n) == [i \in 1..n |-> i]
\* sum after n cycles = n * delta
RECURSIVE MulDelta(_)
MulDelta(n) == IF n = 0 THEN <<0, 0>> ELSE Add32(MulDelta(n - 1), Delta)

\* cycles = rounds / 2 (Go's truncating division: none for rounds <= 1)
Cycles(rounds) == IF rounds < 2 THEN 0 ELSE rounds \div 2
TeaEncrypt(key, block, rounds) ==
  LET k == KeyWords(key)
      r == FoldLeft(LAMBDA st, i : TeaCycleE(k, st), <<BE32(block, 1), BE32(block, 5), <<0, 0>> >>, Iter(Cycles(rounds)))
  IN BytesBE(r[1]) \o BytesBE(r[2])
TeaDecrypt(key, block, rounds) ==
  LET k == KeyWords(key)
      r == FoldLeft(LAMBDA st, i : TeaCycleD(k, st), <<BE32(block, 1), BE32(block, 5), MulDelta(Cycles(rounds))>>, Iter(Cycles(rounds)))
  IN BytesBE(r[1]) \o BytesBE(r[2])

\* ---- XTEA, 32 cycles
XMix(v) == Add32(Xor32(Shl32(v, 4), Shr32(v, 5)), v)
XteaCycleE(k, st) ==
  LET v0  == Add32(st[1], Xor32(XMix(st[2]), Add32(st[3], k[(st[3][2] % 4) + 1])))
      sum == Add32(st[3], Delta)
      v1  == Add32(st[2], Xor32(XMix(v0), Add32(sum, k[((sum[2] \div 2048) % 4) + 1])))
  IN <<v0, v1, sum>>
XteaCycleD(k, st) ==
  LET v1  == Sub32(st[2], Xor32(XMix(st[1]), Add32(st[3], k[((st[3][2] \div 2048) % 4) + 1])))
      sum == Sub32(st[3], Delta)
      v0  == Sub32(st[1], Xor32(XMix(v1), Add32(sum, k[(sum[2] % 4) + 1])))
  IN <<v0, v1, sum>>
XteaEncrypt(key, block) ==
  LET k == KeyWords(key)
      r == FoldLeft(LAMBDA st, i : XteaCycleE(k, st), <<BE32(block, 1), BE32(block, 5), <<0, 0>> >>, Iter(32))
  IN BytesBE(r[1]) \o BytesBE(r[2])
XteaDecrypt(key, block) ==
  LET k == KeyWords(key)
      r == FoldLeft(LAMBDA st, i : XteaCycleD(k, st), <<BE32(block, 1), BE32(block, 5), MulDelta(32)>>, Iter(32))
  IN BytesBE(r[1]) \o BytesBE(r[2])

Z(n) == [i \in 1..n |-> 0] \o <<>>
FF(n) == [i \in 1..n |-> 255] \o <<>>
\* published vectors: TEA (ironclad tea.testvec: 64 rounds zero / all-ones; 16 rounds zero), XTEA (Bouncy Castle / libtomcrypt)
ASSUME /\ TeaEncrypt(Z(16), Z(8), 64) = <<65, 234, 58, 10, 148, 186, 169, 64>>                 \* 41ea3a0a94baa940
       /\ TeaEncrypt(FF(16), FF(8), 64) = <<49, 155, 190, 251, 1, 106, 189, 178>>              \* 319bbefb016abdb2
       /\ TeaEncrypt(Z(16), Z(8), 16) = <<237, 40, 93, 161, 69, 91, 51, 193>>                  \* ed285da1455b33c1
       /\ TeaDecrypt(Z(16), <<65, 234, 58, 10, 148, 186, 169, 64>>, 64) = Z(8)
       /\ XteaEncrypt(Z(16), Z(8)) = <<222, 233, 212, 216, 247, 19, 30, 217>>                  \* dee9d4d8f7131ed9
       /\ XteaEncrypt([i \in 1..16 |-> i - 1], <<65, 66, 67, 68, 69, 70, 71, 72>>) = <<73, 125, 243, 208, 114, 97, 44, 181>>   \* 497df3d072612cb5
       /\ XteaEncrypt(<<1, 35, 69, 103, 18, 52, 86, 120, 35, 69, 103, 137, 52, 86, 120, 154>>, <<1, 2, 3, 4, 5, 6, 7, 8>>)
            = <<140, 103, 21, 91, 46, 249, 30, 173>>                                          \* 8c67155b2ef91ead
       /\ XteaDecrypt(Z(16), <<222, 233, 212, 216, 247, 19, 30, 217>>) = Z(8)
=============================================================================
