SPECIFICATION Spec
CONSTANTS
  CaseSet <- CasesF2
  QueriesOf <- QOf
  StarFix = TRUE
  SubjectFix = FALSE
  CAListsPlain = TRUE
  RevokedSubject = TRUE
INVARIANTS Agree
CHECK_DEADLOCK FALSE
