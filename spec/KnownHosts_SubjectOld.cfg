SPECIFICATION Spec
CONSTANTS
  FileSet <- FilesF2
  QuerySeq <- QueriesFq
  StarFix = TRUE
  SubjectFix = FALSE
  CAListsPlain = TRUE
  RevokedSubject = TRUE
INVARIANTS Agree
CHECK_DEADLOCK FALSE
