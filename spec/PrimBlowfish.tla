---------------------------- MODULE PrimBlowfish ----------------------------
(***************************************************************************)
(* Layer P (executable primitives, binding E): Blowfish (Schneier, FSE     *)
(* 1993) and the "expensive key schedule" use of it by bcrypt / OpenBSD's   *)
(* bcrypt_pbkdf(3): Blowfish_initstate, Blowfish_expandstate (key + salt),  *)
(* Blowfish_expand0state (key only), the block encryption, and the          *)
(* bcrypt_hash of bcrypt_pbkdf.c (the 32-byte "OxychromaticBlowfishSwat-    *)
(* Dynamite" block encrypted 64 times under a state that was expanded       *)
(* 1 + 2*64 times).  Words are <<hi, lo>> 16-bit limbs (PrimWords); the     *)
(* initial tables are the hexadecimal digits of pi (PrimBlowfishPi,         *)
(* computed, not copied from the implementation).                           *)
(*                                                                         *)
(* The algorithm is written in the textbook form (loop of 16 rounds with a  *)
(* swap, F(x) = ((S1[a] + S2[b]) XOR S3[c]) + S4[d]); /repo/blowfish        *)
(* unrolls the rounds and keeps four separate S-box arrays.                 *)
(*                                                                         *)
(* Scale parameters (a record sc): nr = number of Feistel rounds (16),      *)
(* sb = entries per S-box (256; a power of two dividing 256: the S-box      *)
(* index is the input byte mod sb), cost = number of (salt, key) expansion  *)
(* pairs in bcrypt_hash (64), mag = number of encryptions of each magic     *)
(* block (64).  BfFull is Blowfish/bcrypt_pbkdf itself; smaller scales are  *)
(* the same construction with smaller constants ("toy" scale) that TLC      *)
(* evaluates quickly; the Go transcription (harness/c19ref) takes the same  *)
(* parameters and is validated against TLC at the scales TLC evaluates.     *)
(*                                                                         *)
(* A cipher state is <<P, S>>: P a tuple of nr+2 words, S a tuple of 4*sb   *)
(* words (S-box k entry i at S[k*sb + i + 1]).                              *)
(*                                                                         *)
(* Models: /repo/blowfish (NewCipher, NewSaltedCipher, ExpandKey, Encrypt)  *)
(* and bcryptHash of /repo/ssh/internal/bcrypt_pbkdf/bcrypt_pbkdf.go.       *)
(***************************************************************************)
EXTENDS PrimWords, PrimBlowfishPi, SequencesExt

BfFull == [nr |-> 16, sb |-> 256, cost |-> 64, mag |-> 64]

BfBE32(b, i) == << b[i] * 256 + b[i + 1], b[i + 2] * 256 + b[i + 3] >>            \* big-endian bytes -> word
BfBytesBE(w) == << w[1] \div 256, w[1] % 256, w[2] \div 256, w[2] % 256 >>
BfBytesLE(w) == << w[2] % 256, w[2] \div 256, w[1] % 256, w[1] \div 256 >>
BfIota(n) == Force([i \in 1..n |-> i])

\* Blowfish_initstate: the digits of pi (first nr+2 words, then the first sb words of each S-box)
BfInit(sc) == << SubSeq(BfPiP, 1, sc.nr + 2),
                 Force([j \in 1..(4 * sc.sb) |-> BfPiS[256 * ((j - 1) \div sc.sb) + ((j - 1) % sc.sb) + 1]]) >>

\* F.  x = <<hi, lo>>; bytes a b c d from the most significant
BfF(sc, S, x) ==
  LET sb == sc.sb IN
  Add32(Xor32(Add32(S[((x[1] \div 256) % sb) + 1], S[sb + ((x[1] % 256) % sb) + 1]),
              S[2 * sb + ((x[2] \div 256) % sb) + 1]),
        S[3 * sb + ((x[2] % 256) % sb) + 1])

\* one round on st = <<xl, xr>>: xl ^= P[i]; xr ^= F(xl); swap
BfRound(sc, P, S, st, i) ==
  LET xl == Xor32(st[1], P[i]) IN << Xor32(st[2], BfF(sc, S, xl)), xl >>

\* Blowfish_encipher of the pair lr = <<l, r>>
BfEncLR(sc, P, S, lr) ==
  LET st == FoldLeft(LAMBDA s, i : BfRound(sc, P, S, s, i), lr, BfIota(sc.nr))
  IN << Xor32(st[2], P[sc.nr + 2]), Xor32(st[1], P[sc.nr + 1]) >>      \* undo the last swap, whiten

\* Blowfish_stream2word: 4 bytes of the cyclic stream of `data` starting at 0-based stream offset `off`
BfStreamWord(data, off) ==
  LET n == Len(data) B(k) == data[((off + k) % n) + 1]
  IN << B(0) * 256 + B(1), B(2) * 256 + B(3) >>

\* P XOR the key stream
BfKeyXor(sc, P, key) == Force([i \in 1..(sc.nr + 2) |-> Xor32(P[i], BfStreamWord(key, 4 * (i - 1)))])

\* The table refill shared by both expansions.  acc = <<P, S, lr>>; step t (1-based) first XORs the two next words
\* of the cyclic salt stream into lr (salt = <<>>: nothing), encrypts, and stores the pair at positions 2t-1, 2t of
\* the concatenation P \o S.
BfRefillStep(sc, salt, acc, t) ==
  LET lr0 == IF salt = <<>> THEN acc[3]
             ELSE << Xor32(acc[3][1], BfStreamWord(salt, 8 * (t - 1))), Xor32(acc[3][2], BfStreamWord(salt, 8 * (t - 1) + 4)) >>
      lr  == BfEncLR(sc, acc[1], acc[2], lr0)
      np  == sc.nr + 2
  IN IF 2 * t <= np
     THEN << [acc[1] EXCEPT ![2 * t - 1] = lr[1], ![2 * t] = lr[2]], acc[2], lr >>
     ELSE << acc[1], [acc[2] EXCEPT ![2 * t - 1 - np] = lr[1], ![2 * t - np] = lr[2]], lr >>
BfRefill(sc, salt, P, S) ==
  LET r == FoldLeft(LAMBDA acc, t : BfRefillStep(sc, salt, acc, t), << P, S, << <<0, 0>>, <<0, 0>> >> >>,
                    BfIota((sc.nr + 2) \div 2 + 2 * sc.sb))
  IN << r[1], r[2] >>

\* Blowfish_expand0state (Go: ExpandKey) and Blowfish_expandstate (Go: expandKeyWithSalt); cs = <<P, S>>
BfExpand0(sc, cs, key)       == BfRefill(sc, <<>>, BfKeyXor(sc, cs[1], key), cs[2])
BfExpand(sc, cs, key, salt)  == BfRefill(sc, salt, BfKeyXor(sc, cs[1], key), cs[2])

\* plain Blowfish: key schedule and ECB encryption of an 8-byte big-endian block
BfNewCipher(sc, key) == BfExpand0(sc, BfInit(sc), key)
BfEncryptBlock(sc, cs, block) ==
  LET lr == BfEncLR(sc, cs[1], cs[2], << BfBE32(block, 1), BfBE32(block, 5) >>) IN BfBytesBE(lr[1]) \o BfBytesBE(lr[2])

(***************************************************************************)
(* bcrypt_hash of bcrypt_pbkdf.c, staged so that a TLC behaviour can carry  *)
(* the cipher state from one expansion pair to the next (one TLC state per  *)
(* stage keeps every intermediate value fully evaluated):                   *)
(*   BcStart  = expandstate(initstate, salt = sha2salt, key = sha2pass)     *)
(*   BcPair   = expand0state(salt); expand0state(pass)      (cost times)    *)
(*   BcFinish = encrypt the magic 4 x mag times, words out little-endian    *)
(***************************************************************************)
BcMagic == << 79, 120, 121, 99, 104, 114, 111, 109, 97, 116, 105, 99, 66, 108, 111, 119,
              102, 105, 115, 104, 83, 119, 97, 116, 68, 121, 110, 97, 109, 105, 116, 101 >>   \* "OxychromaticBlowfishSwatDynamite"
BcStart(sc, pass, salt) == BfExpand(sc, BfInit(sc), pass, salt)
BcPair(sc, cs, pass, salt) == BfExpand0(sc, BfExpand0(sc, cs, salt), pass)
BcFinish(sc, cs) ==
  LET blk(k) == FoldLeft(LAMBDA lr, i : BfEncLR(sc, cs[1], cs[2], lr),
                         << BfBE32(BcMagic, 8 * k + 1), BfBE32(BcMagic, 8 * k + 5) >>, BfIota(sc.mag))
      b0 == blk(0) b1 == blk(1) b2 == blk(2) b3 == blk(3)
  IN BfBytesLE(b0[1]) \o BfBytesLE(b0[2]) \o BfBytesLE(b1[1]) \o BfBytesLE(b1[2])
     \o BfBytesLE(b2[1]) \o BfBytesLE(b2[2]) \o BfBytesLE(b3[1]) \o BfBytesLE(b3[2])
\* the whole function (constant-level; used at small scales)
BcryptHash(sc, pass, salt) ==
  BcFinish(sc, FoldLeft(LAMBDA cs, i : BcPair(sc, cs, pass, salt), BcStart(sc, pass, salt), BfIota(sc.cost)))

(***************************************************************************)
(* Anchors.  (1) limb checksums of the pi tables (the same sums are printed *)
(* by checks/c19_gen_pi.py from its own computation of pi);  (2) Eric       *)
(* Young's published Blowfish ECB vectors (vectors.txt distributed with     *)
(* Schneier's reference code): every key schedule reads all 1042 table      *)
(* words and rewrites them through 521 encryptions.                         *)
(***************************************************************************)
BfXorAll(t) == FoldLeft(LAMBDA a, w : Xor32(a, w), <<0, 0>>, t)
BfSumAll(t) == FoldLeft(LAMBDA a, i : (a + i * (t[i][1] + t[i][2])) % 1000003, 0, BfIota(Len(t)))
ASSUME /\ Len(BfPiP) = 18 /\ Len(BfPiS) = 1024
       /\ BfPiP[1] = <<9279, 27272>>                 \* pi = 3.243F6A88...
       /\ BfXorAll(BfPiP) = <<46906, 55274>> /\ BfSumAll(BfPiP) = 396145
       /\ BfXorAll(BfPiS) = <<55488, 34272>> /\ BfSumAll(BfPiS) = 35311
BfZ8 == <<0, 0, 0, 0, 0, 0, 0, 0>>
BfF8 == <<255, 255, 255, 255, 255, 255, 255, 255>>
ASSUME /\ BfEncryptBlock(BfFull, BfNewCipher(BfFull, BfZ8), BfZ8) = <<78, 249, 151, 69, 97, 152, 221, 120>>      \* 4EF997456198DD78
       /\ BfEncryptBlock(BfFull, BfNewCipher(BfFull, BfF8), BfF8) = <<81, 134, 111, 213, 184, 94, 203, 138>>      \* 51866FD5B85ECB8A
       \* key 0123456789ABCDEF, plaintext 1111111111111111 -> 61F9C3802281B096
       /\ BfEncryptBlock(BfFull, BfNewCipher(BfFull, <<1, 35, 69, 103, 137, 171, 205, 239>>), <<17, 17, 17, 17, 17, 17, 17, 17>>)
            = <<97, 249, 195, 128, 34, 129, 176, 150>>
=============================================================================
