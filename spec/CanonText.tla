------------------------------ MODULE CanonText ------------------------------
(***************************************************************************)
(* /repo/openpgp/canonical_text.go: the hash wrapper used for text-mode    *)
(* signatures (SigTypeText: DetachSignText, CheckDetachedSignature,        *)
(* ReadMessage's signatureCheckReader, clearsign verification), as a state *)
(* machine over CHUNKED input.                               [C44, C46]    *)
(*                                                                         *)
(* One action per call of Write(chunk): the caller (io.Copy with a 32 KiB  *)
(* buffer, a reader that returns short reads, the application's read size  *)
(* on UnverifiedBody) decides how the text is cut into chunks.  The only   *)
(* state carried from one Write to the next is `s` ("the previous byte was *)
(* a CR").  Property: what reaches the underlying hash is the canonical    *)
(* text (every LF that does not follow a CR becomes CR LF) however the     *)
(* text is cut -- in particular between a CR and its LF.                   *)
(***************************************************************************)
EXTENDS Integers, Sequences, TLC

CONSTANTS Alphabet, MaxLen

\* Does the wrapper keep `s` between Write calls?  TRUE = the code (pointer receiver).  A cfg can override this with FALSE to
\* document what a value receiver would do (CanonText_ValueReceiver.cfg: ChunkInvariant is refuted).  Never expected of the code.
StateKept == TRUE

VARIABLES txt,        \* the whole text (chosen initially)
          pos,        \* bytes already written
          cuts,       \* lengths of the chunks written so far (history)
          s,          \* canonicalTextHash.s
          out         \* bytes handed to the underlying hash
vars == <<txt, pos, cuts, s, out>>

CR == 13
LF == 10

RECURSIVE Texts(_)
Texts(n) == IF n = 0 THEN {<<>>} ELSE LET T == Texts(n - 1) IN T \cup {Append(t, a) : t \in T, a \in Alphabet}

(* canonicalTextHash.Write(buf), byte by byte:  case 0: CR -> s = 1; LF -> flush what precedes, write CR LF;  case 1: s = 0.
   Bytes other than a converted LF pass through unchanged (the code writes them in runs; the hash sees the same sequence). *)
RECURSIVE WriteFrom(_, _, _, _)
WriteFrom(buf, i, st, acc) ==
  IF i > Len(buf) THEN [s |-> st, out |-> acc]
  ELSE IF st = 1 THEN WriteFrom(buf, i + 1, 0, Append(acc, buf[i]))
  ELSE IF buf[i] = CR THEN WriteFrom(buf, i + 1, 1, Append(acc, CR))
  ELSE IF buf[i] = LF THEN WriteFrom(buf, i + 1, 0, acc \o <<CR, LF>>)
  ELSE WriteFrom(buf, i + 1, 0, Append(acc, buf[i]))

Init == /\ txt \in Texts(MaxLen) /\ pos = 0 /\ cuts = <<>> /\ s = 0 /\ out = <<>>

Write(n) == /\ pos + n <= Len(txt)
            /\ LET r == WriteFrom(SubSeq(txt, pos + 1, pos + n), 1, IF StateKept THEN s ELSE 0, out)
               IN /\ out' = r.out
                  /\ s' = (IF StateKept THEN r.s ELSE 0)
            /\ pos' = pos + n
            /\ cuts' = Append(cuts, n)
            /\ UNCHANGED txt

Next == \E n \in 1..MaxLen : Write(n)
Spec == Init /\ [][Next]_vars

-----------------------------------------------------------------------------
(* declarative canonical form (RFC 4880 5.2.1 as this package reads it): an LF becomes CR LF unless the byte before it is a CR
   that is not itself "consumed" -- i.e. exactly the one-Write result; stated independently as: scan left to right, a CR
   protects the byte that follows it *)
RECURSIVE Canon(_, _, _)
Canon(t, i, protected) ==
  IF i > Len(t) THEN <<>>
  ELSE IF protected THEN <<t[i]>> \o Canon(t, i + 1, FALSE)
  ELSE IF t[i] = CR THEN <<CR>> \o Canon(t, i + 1, TRUE)
  ELSE IF t[i] = LF THEN <<CR, LF>> \o Canon(t, i + 1, FALSE)
  ELSE <<t[i]>> \o Canon(t, i + 1, FALSE)

Finished == pos = Len(txt)
\* chunking invariance: after the last chunk the hash has seen the canonical text, for every way of cutting the text
ChunkInvariant == Finished => out = Canon(txt, 1, FALSE)
\* ... and at every moment it has seen the canonical form of the prefix written so far (so the cut points never matter)
RECURSIVE LiveCR(_, _, _)
LiveCR(t, i, protected) ==        \* does the scan end right after a CR that still protects the next byte?
  IF i > Len(t) THEN protected
  ELSE IF protected THEN LiveCR(t, i + 1, FALSE)
  ELSE LiveCR(t, i + 1, t[i] = CR)
PrefixInvariant == LET p == SubSeq(txt, 1, pos) IN out = Canon(p, 1, FALSE) /\ s = (IF LiveCR(p, 1, FALSE) THEN 1 ELSE 0)
\* a text whose line ends are all CR LF (no bare LF, no bare CR) is hashed unchanged
RECURSIVE WellFormedCRLF(_, _)
WellFormedCRLF(t, i) == IF i > Len(t) THEN TRUE
                        ELSE IF t[i] = CR THEN i < Len(t) /\ t[i + 1] = LF /\ WellFormedCRLF(t, i + 2)
                        ELSE IF t[i] = LF THEN FALSE ELSE WellFormedCRLF(t, i + 1)
CRLFUnchanged == (Finished /\ WellFormedCRLF(txt, 1)) => out = txt
=============================================================================
