\* the real constants of md4 / ripemd160 (64-byte blocks, 8 length bytes) over symbolic bytes
SPECIFICATION Spec
CONSTANTS
  BS = 64
  LF = 8
  WSet = {0, 1, 7, 8, 9, 55, 56, 57, 63, 64, 65, 119, 120, 121, 127, 128, 129}
  MaxLen = 200
INVARIANTS AbsInv BufInv NoPanic
PROPERTIES Refines AbsSumPure
CHECK_DEADLOCK FALSE
