---------------------------- MODULE SSHStrictKex ----------------------------
(* The first key exchange of golang.org/x/crypto/ssh as seen by a network attacker, with the
   strict-KEX countermeasure to prefix truncation (Terrapin), modelling

     transport.readPacket            drops IGNORE/DEBUG unless (strictMode /\ ~initialKEXDone);
                                     every packet read (dropped or not) increments the read seqNum
     connectionState.read/write      NEWKEYS switches keys; in strict mode resets seqNum to 0;
                                     a NEWKEYS read when no key change is pending is an error
     handshakeTransport.readLoop     the first packet must be KEXINIT
     enterKeyExchange                strict mode iff the PEER's KEXINIT carries the marker (and this is
                                     the first exchange): a client looks for kex-strict-s in the server's
                                     KEXINIT, a server for kex-strict-c in the client's; a side's own marker
                                     plays no part in its own decision.  setStrictMode fails unless exactly
                                     one packet has been read so far
     kex Client/Server               expect exactly ECDH_INIT / ECDH_REPLY, then NEWKEYS
     setInitialKEXDone               after NEWKEYS has been received

   Each side x sends the cleartext script  KEXINIT, KEXMSG, NEWKEYS  (then encrypted packets),
   gated by protocol progress.  The attacker fixes, per direction, a *plan*: the sequence of
   items the receiver will see before the first encrypted packet -- original packets by index
   (0 KEXINIT, 1 KEXMSG, 2 NEWKEYS), possibly deleted or reordered, and injected cleartext
   packets (IGNORE, DEBUG, UNIMPL, OTHER).  An original packet can be delivered only after its
   sender has sent it.  Separately the *sender itself* may emit noise (IGNORE/DEBUG) before its
   own packets (its send sequence number advances): that is the legitimate use RFC 4253 allows
   and that must stay transparent without strict mode.

   Each side is either `real` (golang.org/x/crypto/ssh: the rule above) or `legacy` (a pre-Terrapin
   implementation: it never offers the marker, never enters strict mode whatever the peer offers, keeps
   counting its sequence numbers through NEWKEYS and may send IGNORE/DEBUG anywhere).  Strict mode is in
   force only when negotiated, i.e. when both sides offered; with a one-sided offer the real side has to
   behave as a non-strict peer (S5, S6).  ServerStrictRule is "peer" for the code as written; "own" documents
   a server that looks at its own KEXINIT's marker as well (used only to show that S5/S6 can fail).

   After NEWKEYS in a direction packets are encrypted and authenticated with the sequence number
   as implicit input: an encrypted packet is accepted iff the receiver's read seqNum equals the
   seqNum the sender used (that is the property of the MAC/AEAD, taken as an axiom here). *)
EXTENDS Integers, Sequences, FiniteSets, TLC

CONSTANTS Scenarios,  \* set of records [kind: [Sides -> {"real", "legacy"}], offer: [Sides -> BOOLEAN], plan: [Sides -> Seq(item)],
                      \*                 noise: [Sides -> Seq(number of own IGNORE/DEBUG packets per own packet slot)]]
          ServerStrictRule   \* "peer": a real server is strict iff the client offered (the code); "own": ... or it offered itself

ASSUME ServerStrictRule \in {"peer", "own"}

Sides == {"c", "s"}
Other(x) == IF x = "c" THEN "s" ELSE "c"

Orig(i) == [t |-> "orig", i |-> i, k |-> "-"]
Inj(k)  == [t |-> "inj", i |-> -1, k |-> k]
Kinds == <<"KEXINIT", "KEXMSG", "NEWKEYS">>
Honest == <<Orig(0), Orig(1), Orig(2)>>

VARIABLES sc,        \* the scenario (constant during a behaviour)
          sentN,     \* [Sides -> 0..4] how many of its script packets x has sent (3 = NEWKEYS sent, 4 = ping sent)
          cur,       \* [Sides -> Nat] next item of plan[x] (items sent BY x, delivered to Other(x))
          st,        \* receiver/protocol state of x
          rseq, wseq,\* read / write sequence numbers of x
          strict,    \* [Sides -> BOOLEAN] strict mode set on x
          kexdone,   \* [Sides -> BOOLEAN] initialKEXDone
          encSeq,    \* [Sides -> Seq(Nat)] write seqNums used by x for encrypted packets not yet delivered
          noiseN,    \* [Sides -> Nat] own noise packets of x not yet delivered, in front of the next original
          gotPing    \* [Sides -> BOOLEAN] x received the peer's first encrypted application packet
vars == <<sc, sentN, cur, st, rseq, wseq, strict, kexdone, encSeq, noiseN, gotPing>>

(* protocol states of side x  (client / server):
   "init"    nothing sent yet                      -> send KEXINIT                  -> "wInit"
   "wInit"   readLoop waits for the first packet   -> peer KEXINIT accepted         -> "kex0" (client) / "wMsg" (server)
   "kex0"    client entered kex                    -> send ECDH_INIT                -> "wMsg"
   "wMsg"    kex code waits for the peer's kex message (server: ECDH_INIT, client: ECDH_REPLY) -> "got1"
   "got1"    server: send ECDH_REPLY -> "got2";   client: send NEWKEYS -> "wNK"
   "got2"    server: send NEWKEYS -> "wNK"
   "wNK"     waits for the peer's NEWKEYS          -> "estab"   (waitSession returns nil)
   "failed"  handshake error *)

Init == /\ sc \in Scenarios
        /\ sentN = [x \in Sides |-> 0] /\ cur = [x \in Sides |-> 1]
        /\ st = [x \in Sides |-> "init"]
        /\ rseq = [x \in Sides |-> 0] /\ wseq = [x \in Sides |-> 0]
        /\ strict = [x \in Sides |-> FALSE] /\ kexdone = [x \in Sides |-> FALSE]
        /\ encSeq = [x \in Sides |-> <<>>] /\ noiseN = [x \in Sides |-> 0]
        /\ gotPing = [x \in Sides |-> FALSE]

\* enterKeyExchange's decision of side x on receipt of the peer's KEXINIT
WantStrict(x) ==
  CASE sc.kind[x] = "legacy" -> FALSE
    [] x = "c" -> sc.offer["s"]
    [] OTHER   -> IF ServerStrictRule = "peer" THEN sc.offer["c"] ELSE (sc.offer["s"] \/ sc.offer["c"])

NoiseBefore(x, slot) == sc.noise[x][slot + 1]     \* own IGNORE/DEBUG packets x emits before its script packet `slot`

CanSend(x) == \/ st[x] = "init" \/ (x = "c" /\ st[x] = "kex0") \/ st[x] = "got1" \/ (x = "s" /\ st[x] = "got2")

Send(x) ==
  /\ CanSend(x)
  /\ LET n == NoiseBefore(x, sentN[x])
         isNK == sentN[x] = 2 IN
     /\ sentN' = [sentN EXCEPT ![x] = @ + 1]
     /\ noiseN' = [noiseN EXCEPT ![x] = @ + n]     \* noise before NEWKEYS is cleartext
     /\ wseq' = [wseq EXCEPT ![x] = IF isNK /\ strict[x] THEN 0 ELSE @ + n + 1]
     /\ st' = [st EXCEPT ![x] = CASE st[x] = "init" -> "wInit"
                                  [] st[x] = "kex0" -> "wMsg"
                                  [] st[x] = "got1" /\ x = "s" -> "got2"
                                  [] OTHER -> "wNK"]
  /\ UNCHANGED <<sc, cur, rseq, strict, kexdone, encSeq, gotPing>>

\* after establishment x sends one encrypted application packet (preceded by encrypted noise)
SendPing(x) ==
  /\ st[x] = "estab" /\ sentN[x] = 3
  /\ LET n == NoiseBefore(x, 3) IN
     /\ encSeq' = [encSeq EXCEPT ![x] = @ \o [j \in 1..n |-> [seq |-> wseq[x] + j - 1, noise |-> TRUE]]
                                          \o << [seq |-> wseq[x] + n, noise |-> FALSE] >>]
     /\ wseq' = [wseq EXCEPT ![x] = @ + n + 1]
  /\ sentN' = [sentN EXCEPT ![x] = 4]
  /\ UNCHANGED <<sc, cur, st, rseq, strict, kexdone, noiseN, gotPing>>

Fail(x) == st' = [st EXCEPT ![x] = "failed"]

\* x is blocked in a read of the connection, so a delivered cleartext packet is consumed now.  An established
\* side keeps reading: leftover cleartext items then hit the new keys and fail authentication.
Reading(x) == st[x] \in {"wInit", "wMsg", "wNK", "estab"}

\* what the receiving side x does with a cleartext packet of kind k
Receive(x, k) ==
  LET dropped == k \in {"IGNORE", "DEBUG"} /\ ~(strict[x] /\ ~kexdone[x]) IN
  /\ IF st[x] = "estab" THEN Fail(x) /\ UNCHANGED <<rseq, strict, kexdone>>      \* cleartext under the new keys
     ELSE
     /\ rseq' = [rseq EXCEPT ![x] = IF k = "NEWKEYS" /\ st[x] = "wNK" /\ strict[x] THEN 0 ELSE @ + 1]
     /\ IF dropped THEN UNCHANGED <<st, strict, kexdone>>
        ELSE CASE st[x] = "wInit" ->
                 \* readLoop: the first packet must be KEXINIT; enterKeyExchange: setStrictMode needs seqNum = 1
                 IF k # "KEXINIT" THEN Fail(x) /\ UNCHANGED <<strict, kexdone>>
                 ELSE LET wantStrict == WantStrict(x) IN
                      IF wantStrict /\ rseq[x] # 0
                      THEN Fail(x) /\ UNCHANGED <<strict, kexdone>>
                      ELSE /\ strict' = [strict EXCEPT ![x] = wantStrict]
                           /\ st' = [st EXCEPT ![x] = IF x = "c" THEN "kex0" ELSE "wMsg"]
                           /\ UNCHANGED kexdone
               [] st[x] = "wMsg" ->
                 IF k = "KEXMSG" THEN st' = [st EXCEPT ![x] = "got1"] /\ UNCHANGED <<strict, kexdone>>
                 ELSE Fail(x) /\ UNCHANGED <<strict, kexdone>>
               [] OTHER ->   \* "wNK"
                 IF k = "NEWKEYS" THEN /\ st' = [st EXCEPT ![x] = "estab"]
                                       /\ kexdone' = [kexdone EXCEPT ![x] = TRUE] /\ UNCHANGED strict
                 ELSE Fail(x) /\ UNCHANGED <<strict, kexdone>>
  /\ UNCHANGED <<sc, sentN, wseq, encSeq, gotPing>>

\* own noise of the sender y arrives at x first (it was written before y's next original packet)
DeliverNoise(x) ==
  LET y == Other(x) IN
  /\ Reading(x) /\ noiseN[y] > 0
  /\ cur[y] <= Len(sc.plan[y]) => sc.plan[y][cur[y]].t = "orig"      \* injected items ahead of it go first
  /\ noiseN' = [noiseN EXCEPT ![y] = @ - 1]
  /\ Receive(x, "IGNORE")
  /\ UNCHANGED cur

\* the attacker's plan for the packets sent by y, delivered to x
Deliver(x) ==
  LET y == Other(x) IN
  /\ Reading(x) /\ cur[y] <= Len(sc.plan[y])
  /\ LET it == sc.plan[y][cur[y]] IN
     /\ \/ it.t = "inj"
        \/ (it.t = "orig" /\ it.i < sentN[y] /\ noiseN[y] = 0)
     /\ cur' = [cur EXCEPT ![y] = @ + 1]
     /\ Receive(x, IF it.t = "inj" THEN it.k ELSE Kinds[it.i + 1])
  /\ UNCHANGED noiseN

\* encrypted packets from y (once the cleartext plan is exhausted): authenticated with the sequence number
DeliverEnc(x) ==
  LET y == Other(x) IN
  /\ st[x] = "estab" /\ cur[y] > Len(sc.plan[y]) /\ noiseN[y] = 0 /\ encSeq[y] # <<>>
  /\ LET p == Head(encSeq[y]) IN
     /\ encSeq' = [encSeq EXCEPT ![y] = Tail(@)]
     /\ IF p.seq = rseq[x]
        THEN /\ rseq' = [rseq EXCEPT ![x] = @ + 1]
             /\ gotPing' = [gotPing EXCEPT ![x] = @ \/ ~p.noise]
             /\ UNCHANGED st
        ELSE /\ Fail(x) /\ UNCHANGED <<rseq, gotPing>>
  /\ UNCHANGED <<sc, sentN, cur, wseq, strict, kexdone, noiseN>>

Next == \E x \in Sides : Send(x) \/ SendPing(x) \/ DeliverNoise(x) \/ Deliver(x) \/ DeliverEnc(x)
Spec == Init /\ [][Next]_vars

-----------------------------------------------------------------------------
BothStrict == sc.offer["c"] /\ sc.offer["s"]
Attacked == \E x \in Sides : sc.plan[x] # Honest
Noisy == \E x \in Sides : \E j \in 1..4 : sc.noise[x][j] > 0
NoisyBeforeNK == \E x \in Sides : \E j \in 1..3 : sc.noise[x][j] > 0
Success == \A x \in Sides : st[x] = "estab" /\ gotPing[x]

\* S1 (Terrapin): with strict KEX on both sides, whatever the attacker does to the cleartext prefix, the two
\* sides never end up with a working connection.
S1 == (BothStrict /\ Attacked) => ~Success

\* S2: in strict mode both directions' sequence numbers restart at zero at NEWKEYS and stay in step afterwards
S2 == \A x \in Sides : (strict[x] /\ strict[Other(x)] /\ st[x] = "estab" /\ st[Other(x)] \in {"estab", "wNK"}
                           /\ sentN[Other(x)] >= 3 /\ encSeq[Other(x)] = <<>> /\ cur[Other(x)] > Len(sc.plan[Other(x)]))
                         => (rseq[x] = wseq[Other(x)] /\ rseq[x] <= 1 + sc.noise[Other(x)][4])

\* S3: without strict mode, IGNORE/DEBUG sent by the peer itself anywhere is transparent: the honest run with
\* noise still succeeds (stated as: it cannot fail)
S3 == (~BothStrict /\ ~Attacked) => \A x \in Sides : st[x] # "failed"
\* and with strict mode, noise after the first key exchange is transparent as well
S3b == (BothStrict /\ ~Attacked /\ ~NoisyBeforeNK) => \A x \in Sides : st[x] # "failed"

Terminal == ~ENABLED Next

\* ---- one-sided offers: strict mode is in force only when negotiated
OneSided == \E x \in Sides : sc.kind[x] = "legacy"
WellFormed == \A x \in Sides : sc.kind[x] = "legacy" => ~sc.offer[x]       \* a legacy side never offers
Written(x) == sentN[x]                                                      \* packets x has written so far, its own noise included
              + (IF sentN[x] >= 1 THEN sc.noise[x][1] ELSE 0) + (IF sentN[x] >= 2 THEN sc.noise[x][2] ELSE 0)
              + (IF sentN[x] >= 3 THEN sc.noise[x][3] ELSE 0) + (IF sentN[x] >= 4 THEN sc.noise[x][4] ELSE 0)

\* S5: a real side is in strict mode only if the peer offered it (and a legacy side never is)
S5 == \A x \in Sides : strict[x] => (sc.kind[x] = "real" /\ sc.offer[Other(x)])

\* S6: against a legacy peer the honest run -- with or without IGNORE/DEBUG sent by that peer, before or after
\* NEWKEYS -- cannot fail and does end in a working connection, and no sequence number is reset at NEWKEYS: every
\* side's write counter equals the number of packets it has written, and an established side has read at least
\* the three cleartext packets of its peer
S6 == (OneSided /\ WellFormed /\ ~Attacked) =>
        /\ \A x \in Sides : st[x] # "failed"
        /\ \A x \in Sides : wseq[x] = Written(x)
        /\ \A x \in Sides : st[x] = "estab" => rseq[x] >= 3
        /\ Terminal => Success
\* the honest executions do reach success (non-vacuity of S3/S3b)
HonestSucceeds == (Terminal /\ ~Attacked /\ (~BothStrict \/ ~NoisyBeforeNK)) => Success
=============================================================================
