INIT Init
NEXT Next
CONSTANTS
  Bases <- BasesThorough
  EvalBases <- EvalThorough
  EvalBits = {0, 1, 2, 3, 4, 5, 6, 7}
  EvalMasks = {1, 90, 128, 255}
  Seed <- SeedT2
INVARIANTS Rejects Emit
CHECK_DEADLOCK FALSE
