INIT Init
NEXT Next
CONSTANTS
  PassLens = {0, 1, 2, 3, 4, 5, 6, 7, 8, 9, 10}
  ToyCounts = {0, 1, 7, 8, 9, 13, 14, 16, 17, 18, 19, 20, 36, 37, 100, 255, 256, 1000}
  KeyMax = 13
  PreLens = {0, 1, 10, 47, 48, 55, 56, 63, 64, 100}
INVARIANTS Check
CHECK_DEADLOCK FALSE
