------------------------ MODULE SSHAuthObserver_Trace ------------------------
(* Binding T for C34: events recorded from the real clientAuthenticate (packets written and
   read on the scripted transport, entries to / exits from the AuthMethods, the result) are fed
   to SSHAuthObserver's monitor.  trace.ndjson is a concatenation of recorded runs, each
   starting with {"ev":"reset","trace":i} and {"ev":"cfg","auth":[...]} (the client
   configuration the monitor needs for Q1b and Q3).

   An event that makes the monitor record a contradicted clause ends the judgement of that run:
   the step prints  C34BAD <line> <json: trace, clauses>  and skips to the next run, so one TLC
   run judges every recorded run.  Acceptance of the whole file is TraceLib's high-water mark
   (every line consumed); the check turns each C34BAD line into a violation. *)
EXTENDS SSHAuthObserver, TraceLib

VARIABLES o, auth, cur
tvars == <<o, auth, cur, l>>

TraceInit == o = ObsInit /\ auth = <<>> /\ cur = -1 /\ l = 1 /\ HWMInit
TReset == IsEvent("reset") /\ o' = ObsInit /\ auth' = <<>> /\ cur' = Ev.trace
TCfg   == IsEvent("cfg") /\ auth' = Ev.auth /\ o' = o /\ cur' = cur
NextRun(k) == LET S == {j \in (k + 1)..Len(Trace) : Trace[j].ev = "reset"}
              IN IF S = {} THEN Len(Trace) + 1 ELSE CHOOSE j \in S : \A i \in S : j <= i
TEvent == /\ l <= Len(Trace)
          /\ Trace[l].ev \in {"w", "r", "begin", "end", "done"}
          /\ LET o2 == Obs(auth, o, Ev) IN
             IF o2.bad = {}
             THEN l' = l + 1 /\ o' = o2
             ELSE /\ PrintT("C34BAD " \o ToString(l) \o " " \o ToJson([trace |-> cur, clauses |-> o2.bad]))
                  /\ l' = NextRun(l) /\ o' = ObsInit
          /\ auth' = auth /\ cur' = cur
TraceNext == TReset \/ TCfg \/ TEvent
TraceSpec == TraceInit /\ [][TraceNext]_tvars
=============================================================================
