------------------------------- MODULE PolyMac -------------------------------
(***************************************************************************)
(* C04 - abstract specification of the incremental Poly1305 MAC            *)
(* (/repo/internal/poly1305: New, MAC.Write, MAC.Sum; /repo/poly1305       *)
(* re-exports it).  The message is a fixed byte string m[0..MaxLen); the   *)
(* only state is how many bytes have been written.  A tag is abstract      *)
(* here: Sum returns "Poly1305 over the 16-byte blocks of m[0..written)",  *)
(* represented by that block decomposition (a sequence of blocks, each a   *)
(* sequence of message positions; only the last may be shorter than 16);   *)
(* the byte oracle PrimPoly!Poly1305 materialises it.  Sum does not change *)
(* the state (it may be repeated); Write after Sum panics in the code and  *)
(* is not part of the property, so it is not modelled.                     *)
(***************************************************************************)
EXTENDS Integers, Sequences

CONSTANTS WSet,     \* lengths passed to Write
          MaxLen    \* total message length bound
VARIABLES written, finalized, last
vars == <<written, finalized, last>>

Min(a, b) == IF a < b THEN a ELSE b
\* the definition's decomposition of m[0..n) into 16-byte blocks
Chunks(n) == [i \in 1..((n + 15) \div 16) |-> [j \in 1..Min(16, n - 16 * (i - 1)) |-> 16 * (i - 1) + j - 1]]

Init == written = 0 /\ finalized = FALSE /\ last = [op |-> "new", n |-> 0, blocks |-> <<>>]

Write(n) == /\ ~finalized
            /\ written + n <= MaxLen
            /\ written' = written + n
            /\ UNCHANGED finalized
            /\ last' = [op |-> "write", n |-> n, blocks |-> <<>>]

Sum == /\ finalized' = TRUE
       /\ UNCHANGED written
       /\ last' = [op |-> "sum", n |-> written, blocks |-> Chunks(written)]

Next == (\E n \in WSet : Write(n)) \/ Sum
Spec == Init /\ [][Next]_vars

TypeOK == written \in 0..MaxLen
\* any sequence of Writes gives the tag of the concatenation: Sum depends on `written` only
SumIsDefinition == (last.op = "sum") => (last.blocks = Chunks(written) /\ last.n = written)
SumStable == [][(last.op = "sum" /\ last'.op = "sum") => last' = last]_vars
=============================================================================
