SPECIFICATION Spec
CONSTANTS
  NData = 2
  MaxRekeyS = 1
  MaxRekeyC = 1
  Methods = {"one", "two"}
  ExtInfo = TRUE
  GoQueues = TRUE
INVARIANTS PTypeOK NoRuleBroken Counts DoneAgrees
CHECK_DEADLOCK TRUE
