SPECIFICATION Spec
CONSTANTS
  MaxCerts = 3
INVARIANTS OnlyAuthorized ReturnedIsTheSigner NothingReturnedMeansIssuer NoBorrowedTrust SignedBytesProtected FirstOnly Emit
CHECK_DEADLOCK FALSE
