SPECIFICATION Spec
CONSTANTS
  Modes <- AttackReps
  MaxPacket = 262144
  SeqMod = 8
  CtrBase = 3
  CtrLimbs = 2
  Sizes <- SizesAttack
  StartSeqs <- SeqWrap8
  StartCtrs <- Ctr0Small
  MaxPkts = 2
  MaxFaults = 2
  AttackOps <- AllOps
  Phased = FALSE
  PadRule = "code"
INVARIANTS TypeOK DeliveredPrefix SeqCounts OnlyIntactAccepted ErrorHasCause PredictionRight
PROPERTIES NothingAfterError
CHECK_DEADLOCK FALSE
