SPECIFICATION GSpec
CONSTANTS
  Starts <- AnyStart
  MaxData = 1
  FragChoices <- F1
  MaxFaults = 1
  FaultKinds <- TamperOnly
  MaxAuth = 0
  Secrets <- S1
  Questions <- Q0
  AllowEnd = FALSE
  MaxRequery = 0
  FixCommitState = TRUE
  SeqSMP = FALSE
  FixSMPReset = TRUE
INVARIANTS EmitWitness
VIEW View
CHECK_DEADLOCK FALSE
