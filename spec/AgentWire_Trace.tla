--------------------------- MODULE AgentWire_Trace ---------------------------
(* X06 (growth), binding T -- recorded executions of the real agent.NewClient / ServeAgent / NewKeyring
   (and of agent forwarding over a real ssh connection) are validated against the agent of C43.

   A recorded execution is the global, mutex-ordered log of

     call     c p op k s n bad      a caller goroutine p of connection c is about to invoke the API
                                    (or a raw peer is about to write a frame)
     ret      c p t ks dup f        the call returned: t = ok | err | list | sig | signers | v1ids | connerr
     srvread  c op k s n bad        (wired connections) ServeAgent has been handed the last octet of a
                                    request frame -- or a header declaring 0 / more than the maximum
     srvwrite c t ks f              (wired connections) ServeAgent is writing the reply frame
     close    c                     the harness closed the client's end of connection c
     conn     c wired               (at the start) connection c exists; wired or opaque

   Connections are wired (in-memory transports owned by the harness: octets observed on the server
   side), or opaque (forwarded auth-agent@openssh.com channels inside a real ssh connection; direct calls
   of the keyring): only call / ret are seen.

   The specification accepts a log iff there is a way to place ONE atomic Serve step of the shared agent
   (AgentWireServe!Serve, a silent step) for each request such that

     W3  the step lies between srvread and srvwrite of that request on a wired connection, and between
         call and ret on every connection (linearizability w.r.t. the agent of C43); the one licence: a call
         that returned a CONNECTION ERROR has an unknown outcome -- its request may take effect later, or never;
     W2  on a wired connection the server reads a request, writes exactly one reply -- the one computed
         by the step -- and only then reads the next;
     W1  ret carries the client-side reading of the reply to the caller's OWN request (requests are
         matched to callers by content; data to sign and comments are unique per call), after it was written;
     W4  unknown / malformed requests get failure and change nothing;
     W5  nothing is read or written on a connection after a 0 / oversized header; ret = connerr only on a
         connection that was ended that way or closed by the harness, and a bad frame is never answered. *)
EXTENDS AgentWireServe, TraceLib

CONSTANTS TConns, TCallers

VARIABLES tc,      \* [TConns -> [TCallers -> [st, req, rep]]]   st: idle | called | read | lin | answered
          ts,      \* [TConns -> [st, p, req, rep]]              st: idle | got | served | ended   (wired connections)
          wired,   \* [TConns -> BOOLEAN]   the octets of the connection are observed at the server
          over,    \* [TConns -> BOOLEAN]   connection errors are legitimate from now on (bad frame sent, or closed)
          orph     \* [TConns -> Seq(request)]  requests whose caller has returned with a connection error before the
                   \*                          server read them: they may still be served later, or never
tvars == <<agentVars, tc, ts, wired, over, orph>>

FrameErr == {"zero", "oversize"}
NoReq == AReq("none", "", "", 0, "none")
NoRep == Rp("none")
CIdle == [st |-> "idle", req |-> NoReq, rep |-> NoRep]
SIdle == [st |-> "idle", p |-> 0, req |-> NoReq, rep |-> NoRep]

TInitVars == /\ tc = [c \in TConns |-> [p \in TCallers |-> CIdle]]
             /\ ts = [c \in TConns |-> SIdle]
             /\ wired = [c \in TConns |-> FALSE]
             /\ over = [c \in TConns |-> FALSE]
             /\ orph = [c \in TConns |-> <<>>]
TraceInit == A!Init /\ TInitVars /\ l = 1 /\ HWMInit

EvReq == AReq(Ev.op, Ev.k, Ev.s, Ev.n, Ev.bad)
KS(seq) == {<<seq[i][1], seq[i][2]>> : i \in 1..Len(seq)}

TReset == /\ IsEvent("reset")
          /\ list' = <<>> /\ akeys' = [k \in Keys |-> A!Absent] /\ locked' = FALSE /\ pass' = ""
          /\ last' = A!NoOp /\ hist' = <<>>
          /\ tc' = [c \in TConns |-> [p \in TCallers |-> CIdle]]
          /\ ts' = [c \in TConns |-> SIdle]
          /\ wired' = [c \in TConns |-> FALSE]
          /\ over' = [c \in TConns |-> FALSE]
          /\ orph' = [c \in TConns |-> <<>>]

TCall == /\ IsEvent("call")
         /\ tc[Ev.c][Ev.p].st = "idle"
         /\ tc' = [tc EXCEPT ![Ev.c][Ev.p] = [st |-> "called", req |-> EvReq, rep |-> NoRep]]
         /\ over' = IF Ev.op \in FrameErr THEN [over EXCEPT ![Ev.c] = TRUE] ELSE over
         /\ UNCHANGED <<agentVars, ts, wired, orph>>

\* the harness announces each connection: wired (octets observed at the server) or opaque
TConn == /\ IsEvent("conn")
         /\ wired' = [wired EXCEPT ![Ev.c] = Ev.wired]
         /\ UNCHANGED <<agentVars, tc, ts, over, orph>>

TClose == /\ IsEvent("close")
          /\ over' = [over EXCEPT ![Ev.c] = TRUE]
          /\ UNCHANGED <<agentVars, tc, ts, wired, orph>>

RemoveAt(q, i) == SubSeq(q, 1, i - 1) \o SubSeq(q, i + 1, Len(q))

\* ServeAgent got a frame: it belongs to a caller of this connection that has called and not been read yet
TSrvRead == /\ IsEvent("srvread")
            /\ ts[Ev.c].st = "idle" /\ wired[Ev.c]
            /\ IF Ev.op \in FrameErr
               THEN /\ ts' = [ts EXCEPT ![Ev.c] = [SIdle EXCEPT !.st = "ended"]]
                    /\ \E p \in TCallers : tc[Ev.c][p].st = "called" /\ tc[Ev.c][p].req.op = Ev.op
                    /\ UNCHANGED <<tc, orph>>
               ELSE \/ \E p \in TCallers :
                         /\ tc[Ev.c][p].st = "called" /\ tc[Ev.c][p].req = EvReq
                         /\ tc' = [tc EXCEPT ![Ev.c][p].st = "read"]
                         /\ ts' = [ts EXCEPT ![Ev.c] = [st |-> "got", p |-> p, req |-> EvReq, rep |-> NoRep]]
                         /\ UNCHANGED orph
                    \/ \E i \in 1..Len(orph[Ev.c]) :          \* written by a caller that has given up since
                         /\ orph[Ev.c][i] = EvReq
                         /\ orph' = [orph EXCEPT ![Ev.c] = RemoveAt(@, i)]
                         /\ ts' = [ts EXCEPT ![Ev.c] = [st |-> "got", p |-> 0, req |-> EvReq, rep |-> NoRep]]
                         /\ UNCHANGED tc
            /\ UNCHANGED <<agentVars, over, wired>>

\* the silent step: the request takes effect.  Without loss of generality it is taken just before an event that
\* needs it (a srvwrite or a ret): moving an atomic step later past calls, reads and announcements changes nothing.
Observing == l <= Len(Trace) /\ Trace[l].ev \in {"srvwrite", "ret"}
TServeWired(c) == /\ Observing /\ ts[c].st = "got"
                  /\ Serve(ts[c].req)
                  /\ ts' = [ts EXCEPT ![c].st = "served", ![c].rep = ReplyFor(ts[c].req, last')]
                  /\ tc' = IF ts[c].p = 0 THEN tc
                            ELSE [tc EXCEPT ![c][ts[c].p].st = "lin", ![c][ts[c].p].rep = ReplyFor(ts[c].req, last')]
                  /\ UNCHANGED <<wired, over, orph, l>>
TServeOpaque(c, p) == /\ Observing /\ ~wired[c] /\ tc[c][p].st = "called" /\ tc[c][p].req.op \notin FrameErr
                      /\ Serve(tc[c][p].req)
                      /\ tc' = [tc EXCEPT ![c][p].st = "answered", ![c][p].rep = ReplyFor(tc[c][p].req, last')]
                      /\ UNCHANGED <<ts, wired, over, orph, l>>
\* a request abandoned by its caller on an opaque connection takes effect after all
TServeOrphan(c) == /\ Observing /\ ~wired[c]
                   /\ \E i \in 1..Len(orph[c]) : Serve(orph[c][i]) /\ orph' = [orph EXCEPT ![c] = RemoveAt(@, i)]
                   /\ UNCHANGED <<tc, ts, wired, over, l>>

TSrvWrite == /\ IsEvent("srvwrite")
             /\ ts[Ev.c].st = "served"
             /\ ts[Ev.c].rep = [t |-> Ev.t, ks |-> KS(Ev.ks), f |-> Ev.f]
             /\ ts' = [ts EXCEPT ![Ev.c] = SIdle]
             /\ tc' = IF ts[Ev.c].p = 0 THEN tc ELSE [tc EXCEPT ![Ev.c][ts[Ev.c].p].st = "answered"]
             /\ UNCHANGED <<agentVars, wired, over, orph>>

\* what the client API makes of a reply
Seen(req, rep) ==
  CASE req.op \in {"add", "remove", "removeall", "lock", "unlock", "v1removeall"} ->
         IF rep.t = "success" THEN [t |-> "ok", ks |-> {}, f |-> ""] ELSE [t |-> "err", ks |-> {}, f |-> ""]
    [] req.op = "list" -> IF rep.t = "ids" THEN [t |-> "list", ks |-> rep.ks, f |-> ""] ELSE [t |-> "err", ks |-> {}, f |-> ""]
    [] req.op = "signers" -> IF rep.t = "signers" THEN [t |-> "signers", ks |-> rep.ks, f |-> ""] ELSE [t |-> "err", ks |-> {}, f |-> ""]
    [] req.op = "sign" -> IF rep.t = "sig" THEN [t |-> "sig", ks |-> {}, f |-> rep.f] ELSE [t |-> "err", ks |-> {}, f |-> ""]
    [] req.op = "v1list" -> IF rep.t = "v1ids" THEN [t |-> "v1ids", ks |-> {}, f |-> ""] ELSE [t |-> "err", ks |-> {}, f |-> ""]
    [] OTHER -> [t |-> "err", ks |-> {}, f |-> ""]           \* ext (unsupported by the keyring), unknown, malformed, foreign

TRet == /\ IsEvent("ret")
        /\ LET me == tc[Ev.c][Ev.p] IN
           IF Ev.t = "connerr"
           THEN /\ over[Ev.c] /\ me.st # "idle"
                \* the outcome of the call is unknown: its request may not have been read yet (it may be served later,
                \* or never), or it is being served right now
                /\ orph' = IF me.st = "called" /\ me.req.op \notin FrameErr THEN [orph EXCEPT ![Ev.c] = Append(@, me.req)] ELSE orph
                /\ ts' = IF me.st \in {"read", "lin"} /\ ts[Ev.c].p = Ev.p THEN [ts EXCEPT ![Ev.c].p = 0] ELSE ts
           ELSE /\ me.st = "answered" /\ me.req.op \notin FrameErr
                /\ ~Ev.dup
                /\ Seen(me.req, me.rep) = [t |-> Ev.t, ks |-> KS(Ev.ks), f |-> Ev.f]
                /\ UNCHANGED <<orph, ts>>
        /\ tc' = [tc EXCEPT ![Ev.c][Ev.p] = CIdle]
        /\ UNCHANGED <<agentVars, wired, over>>

TraceNext == \/ TReset \/ TConn \/ TCall \/ TClose \/ TSrvRead \/ TSrvWrite \/ TRet
             \/ \E c \in TConns : TServeWired(c) \/ TServeOrphan(c) \/ \E p \in TCallers : TServeOpaque(c, p)
TraceSpec == TraceInit /\ [][TraceNext]_<<tvars, l>>

\* the specification's own sanity on recorded executions: the agent of C43 keeps its invariants
TAgentOK == A!Corr /\ A!NoDuplicates
TView == <<list, akeys, locked, pass, tc, ts, wired, over, orph, l>>
=============================================================================
