\* the repaired client (non-positive delay -> 1 s default) satisfies P4
SPECIFICATION Spec
CONSTANTS
  OpSet <- WaitOps
  Bundles = {TRUE, FALSE}
  MaxCalls = 1
  MaxReq = 3
  MaxEnv = 1
  Shapes <- CoreShapes
  RetrySet <- NegRetry
  Budget = 1
  Malformed = TRUE
  CertKinds <- FewCerts
  AltSet = {0, 2}
  InitStates <- InitRFC
  CallOK <- AnyCall
  EnvOK <- AnyEnv
  FixNegRA = TRUE
  Mut = "none"
VIEW MCView
INVARIANTS TypeOK P1_NoFalseSuccess P2_TypedFailures P3_FinalizeOnce P4_PollSpacing P5_StopOnCancel P6_CertAfterValid P7_LastObserved P8_ChainLimits P9_PollExactlyWhileNotFinal ServerSane
CHECK_DEADLOCK FALSE
