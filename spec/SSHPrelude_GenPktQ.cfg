SPECIFICATION GenSpec
CONSTANTS
  MaxLine = 255
  MaxPre = 1024
  MaxPending = 64
  ChanSize = 16
  Roles <- BothRoles
  Owns <- OwnsOne
  StrictOpts <- Bool
  ExtcOpts <- Bool
  RkOpts <- Bool
  StartPh = "kex0"
  VerSteps <- NoVer
  MaxVer = 0
  Kinds <- KindsAll
  MaxPkt = 14
  MaxNoise = 1
  MaxPing = 3
  PingRuns <- RunsRealQ
  Bursts <- BurstsReal
  AsIs = FALSE
VIEW AbsView
CHECK_DEADLOCK FALSE
