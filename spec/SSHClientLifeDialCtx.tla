------------------------- MODULE SSHClientLifeDialCtx -------------------------
(* Small-step model of Client.DialContext of package ssh (tcpip.go), the one place of growth check X04 where the
   outcome of a step depends on the scheduler.  It justifies the outcome set of the RACE events of
   SSHClientLife.tla and checks, with real interleavings and fairness, that no confirmed channel is leaked.

       func (c *Client) DialContext(ctx, n, addr) (net.Conn, error) {
           if err := ctx.Err(); err != nil { return nil, err }          \* MStart
           ch := make(chan connErr)
           go func() {                                                  \* goroutine G
               conn, err := c.Dial(n, addr)                             \* GDial: returns when the peer answered or the connection ended
               select {                                                 \* GSelect
               case ch <- connErr{conn, err}:
               case <-ctx.Done(): if conn != nil { conn.Close() }
               }
           }()
           select {                                                     \* MSelect
           case res := <-ch: return res.conn, res.err
           case <-ctx.Done(): return nil, ctx.Err()
           }
       }

   Go's select: a goroutine that reaches a select picks at random among the cases that are ready at that moment
   (a send on the unbuffered ch is ready iff the partner is parked in its select, and vice versa); if none is
   ready it parks, and the first event that makes a case ready (the partner arriving, close(done)) claims it
   atomically.  At most one of M and G is ever parked.

   CloseLate = TRUE is the code as it is; FALSE is the design that forgets conn.Close() (it must violate NoLeak). *)
EXTENDS Integers, TLC

CONSTANT CloseLate

VARIABLES pcM,        \* "start" | "toSelect" | "parked" | "ret"
          retM,       \* "none" | "conn" | "rej" | "err" | "ctxerr"
          pcG,        \* "idle" | "dial" | "toSelect" | "parked" | "done"
          resG,       \* "none" | "conn" | "rej" | "err": what c.Dial returned
          ctx,        \* the context has ended
          ans,        \* "none" | "confirm" | "fail" | "dead": the peer's answer / the end of the connection
          openSent, closeSent,
          nret        \* ghost: number of times DialContext returned
vars == <<pcM, retM, pcG, resG, ctx, ans, openSent, closeSent, nret>>

Init == /\ pcM = "start" /\ retM = "none" /\ pcG = "idle" /\ resG = "none"
        /\ ctx \in BOOLEAN /\ ans = "none" /\ openSent = FALSE /\ closeSent = FALSE /\ nret = 0

Return(r) == retM' = r /\ pcM' = "ret" /\ nret' = nret + 1
GEnd(byCtx) == /\ pcG' = "done"
               /\ closeSent' = (closeSent \/ (byCtx /\ resG = "conn" /\ CloseLate))

\* environment
CtxEnd == /\ ~ctx /\ ctx' = TRUE
          /\ IF pcM = "parked" THEN Return("ctxerr") /\ UNCHANGED <<pcG, closeSent>>           \* claims a parked M ...
             ELSE IF pcG = "parked" THEN GEnd(TRUE) /\ UNCHANGED <<pcM, retM, nret>>           \* ... or a parked G
             ELSE UNCHANGED <<pcM, retM, nret, pcG, closeSent>>
          /\ UNCHANGED <<resG, ans, openSent>>
PeerAnswer == /\ openSent /\ ans = "none" /\ ans' \in {"confirm", "fail", "dead"}
              /\ UNCHANGED <<pcM, retM, pcG, resG, ctx, openSent, closeSent, nret>>

\* M, the caller
MStart == /\ pcM = "start"
          /\ IF ctx THEN Return("ctxerr") /\ UNCHANGED <<pcG, openSent>>
             ELSE pcM' = "toSelect" /\ pcG' = "dial" /\ openSent' = TRUE /\ UNCHANGED <<retM, nret>>
          /\ UNCHANGED <<resG, ctx, ans, closeSent>>
MSelect == /\ pcM = "toSelect"
           /\ \/ /\ pcG = "parked"                                  \* case res := <-ch
                 /\ Return(IF resG = "conn" THEN "conn" ELSE resG) /\ GEnd(FALSE)
              \/ /\ ctx                                             \* case <-ctx.Done()
                 /\ Return("ctxerr") /\ UNCHANGED <<pcG, closeSent>>
              \/ /\ pcG # "parked" /\ ~ctx                          \* nothing ready: park
                 /\ pcM' = "parked" /\ UNCHANGED <<retM, nret, pcG, closeSent>>
           /\ UNCHANGED <<resG, ctx, ans, openSent>>

\* G, the goroutine
GDial == /\ pcG = "dial" /\ ans # "none"
         /\ resG' = (CASE ans = "confirm" -> "conn" [] ans = "fail" -> "rej" [] ans = "dead" -> "err")
         /\ pcG' = "toSelect"
         /\ UNCHANGED <<pcM, retM, ctx, ans, openSent, closeSent, nret>>
GSelect == /\ pcG = "toSelect"
           /\ \/ /\ pcM = "parked"                                  \* case ch <- connErr{conn, err}
                 /\ Return(resG) /\ GEnd(FALSE)
              \/ /\ ctx                                             \* case <-ctx.Done()
                 /\ GEnd(TRUE) /\ UNCHANGED <<pcM, retM, nret>>
              \/ /\ pcM # "parked" /\ ~ctx
                 /\ pcG' = "parked" /\ UNCHANGED <<pcM, retM, nret, closeSent>>
           /\ UNCHANGED <<resG, ctx, ans, openSent>>

Code == MStart \/ MSelect \/ GDial \/ GSelect
Next == Code \/ CtxEnd \/ PeerAnswer
Spec == Init /\ [][Next]_vars /\ WF_vars(MStart) /\ WF_vars(MSelect) /\ WF_vars(GDial) /\ WF_vars(GSelect)

-----------------------------------------------------------------------------
TypeOK == /\ pcM \in {"start", "toSelect", "parked", "ret"} /\ retM \in {"none", "conn", "rej", "err", "ctxerr"}
          /\ pcG \in {"idle", "dial", "toSelect", "parked", "done"} /\ resG \in {"none", "conn", "rej", "err"}
          /\ ~(pcM = "parked" /\ pcG = "parked")
\* DialContext returns once, with a connection XOR an error
Once == nret <= 1 /\ (nret = 1 <=> pcM = "ret") /\ (pcM = "ret" <=> retM # "none")
\* an ended context is honoured before anything is sent
NothingSentForDeadCtx == (~openSent /\ pcM = "ret") => retM = "ctxerr" /\ pcG = "idle"
\* a connection handed to the caller is never closed behind its back
NotBoth == ~(retM = "conn" /\ closeSent)
\* when both are finished, a confirmed channel is with the caller or CHANNEL_CLOSE went out for it
NoLeak == (pcG = "done" /\ pcM = "ret" /\ resG = "conn") => (retM = "conn" \/ closeSent)
\* the outcomes the big-step model (SSHClientLife!RaceOutcomes) allows: the answer's result without a close, or the context's error
\* (with the close iff the answer was a confirmation)
BigStepOutcomes == (pcG = "done" /\ pcM = "ret") =>
                     \/ retM = resG /\ ~closeSent
                     \/ retM = "ctxerr" /\ ctx /\ (closeSent <=> resG = "conn")
\* the context's error only if the context ended; the answer's result only if there was one
Honest == /\ retM = "ctxerr" => ctx
          /\ retM \in {"conn", "rej", "err"} => ans # "none"

\* liveness (weak fairness of the code's steps; the environment is free)
MReturns == (ctx \/ ans # "none") ~> (pcM = "ret")
GEnds == (ans # "none") ~> (pcG \in {"done", "idle"})
ClosedOrReturned == (ans = "confirm") ~> (retM = "conn" \/ closeSent)
=============================================================================
