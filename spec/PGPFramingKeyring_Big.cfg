SPECIFICATION Spec
CONSTANTS
  SignCapable <- Signers
  Alphabet <- Core13
  MaxLen = 6
INVARIANTS Sound Ordered ErrShape Complete 
PROPERTIES UnknownInvisible

CHECK_DEADLOCK FALSE
