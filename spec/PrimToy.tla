------------------------------ MODULE PrimToy ------------------------------
(***************************************************************************)
(* Layer P (binding E), "toy primitive" trick of DESIGN section 2.          *)
(*                                                                         *)
(* golang.org/x/crypto/xts, hkdf, pbkdf2 and openpgp/s2k are CONSTRUCTIONS *)
(* over a primitive the caller supplies (cipher.Block / hash.Hash).  This  *)
(* module defines primitives small enough for TLC to evaluate exactly:     *)
(*                                                                         *)
(*  ToyE/ToyD   a 16-byte-block "cipher" with a 16-byte key: a keyed,      *)
(*              position-dependent byte substitution (affine over Z_256,   *)
(*              hence NOT linear over xor) followed by a rotation of the   *)
(*              block by 3 bytes.  A permutation; ToyD is its inverse.     *)
(*              ToyKeyFor(x, y) is the key under which x encrypts to y     *)
(*              (lets a case choose the XTS tweak freely).                 *)
(*  ToyHash     an h-byte hash (h >= 2) with block size 2h: byte-serial    *)
(*              absorption (a bijection of the state for every input       *)
(*              byte, sensitive to order, to zero bytes and to length),    *)
(*              finalised with the message length.                         *)
(*  ToyHMAC     HMAC over ToyHash exactly as RFC 2104 section 2.           *)
(*                                                                         *)
(* They have no cryptographic value; they only make the construction logic *)
(* (tweak chaining, counters, block indices, zero prefixes, truncation)    *)
(* observable byte by byte.  The Go twin is verif/harness/toyprim; every   *)
(* run first checks it against vectors TLC evaluated from this module.     *)
(***************************************************************************)
EXTENDS PrimWords

\* cheap input pattern (Go twin: toyprim.TPat): byte i (0-based) of pattern `seed`
TPatByte(seed, i) == (seed * 73 + i * 151 + (i \div 16) * 29 + 7) % 256
TPat(seed, n) == Force([i \in 1..n |-> TPatByte(seed, i - 1)])

\* ---------------------------------------------------------------- block cipher
ToyBlock == 16
\* substitution at (0-based) position j:  b |-> (5*b + 17 + j) mod 256, inverse via 205 = 5^-1 mod 256
TSub(j, b)    == (b * 5 + 17 + j) % 256
TSubInv(j, b) == ((b + 512 - 17 - j) * 205) % 256
\* output byte i (0-based) is the substituted input byte (i+3) mod 16
ToyE(k, x) == Force([i \in 1..16 |-> LET j == (i - 1 + 3) % 16 IN TSub(j, x[j + 1] ^^ k[j + 1])])
ToyD(k, y) == Force([jj \in 1..16 |-> LET j == jj - 1  i == (j + 13) % 16 IN TSubInv(j, y[i + 1]) ^^ k[jj]])
\* the key k with ToyE(k, x) = y
ToyKeyFor(x, y) == Force([jj \in 1..16 |-> LET j == jj - 1  i == (j + 13) % 16 IN TSubInv(j, y[i + 1]) ^^ x[jj]])

\* ---------------------------------------------------------------- hash
ToyBlockSize(h) == 2 * h
ToyIV(h) == Force([i \in 1..h |-> (103 + 34 * (i - 1) + (i - 1) * (i - 1)) % 256])
\* absorb one byte: shift the state left by one byte, append a non-linear mix
TAbsorb(s, b) == Append(Tail(s), ((((s[1] ^^ b) * 167) + s[2] + 13) % 256) ^^ (s[Len(s)] \div 4))
RECURSIVE TAbsorbAll(_, _, _)
TAbsorbAll(s, m, i) == IF i > Len(m) THEN s ELSE TAbsorbAll(TAbsorb(s, m[i]), m, i + 1)
\* finalisation: absorb the length (3 bytes little-endian) and h+2 constant bytes
TFinal(s, n) == TAbsorbAll(s, <<n % 256, (n \div 256) % 256, (n \div 65536) % 256>> \o [i \in 1..(Len(s) + 2) |-> 165], 1)
ToyHash(h, m) == LET mm == Force(m) IN TFinal(TAbsorbAll(ToyIV(h), mm, 1), Len(mm))

\* ---------------------------------------------------------------- HMAC (RFC 2104)
\* (Written with operator arguments rather than LET: TLC caches an argument's value but
\* re-evaluates a LET definition at every use.)
TXorConst(s, k) == Force([i \in 1..Len(s) |-> s[i] ^^ k])
TPadTo(k0, B) == Force(k0 \o Zeros(B - Len(k0)))
ToyK0(h, key) == IF Len(key) > ToyBlockSize(h) THEN ToyHash(h, key) ELSE key     \* keys longer than B are hashed
\* kp = K0 padded with zeros to B octets; ipad = 0x36, opad = 0x5c
ToyHMACk(h, kp, msg) == ToyHash(h, TXorConst(kp, 92) \o ToyHash(h, TXorConst(kp, 54) \o msg))
ToyHMAC(h, key, msg) == ToyHMACk(h, TPadTo(ToyK0(h, key), ToyBlockSize(h)), msg)

\* ---------------------------------------------------------------- self checks (TLC refuses to run a wrong module)
ASSUME /\ \A j \in 0..15 : \A b \in {0, 1, 127, 128, 200, 255} : TSubInv(j, TSub(j, b)) = b
       /\ LET k == Pat(7, 16)  x == Pat(9, 16) IN
            /\ ToyD(k, ToyE(k, x)) = x
            /\ ToyE(k, ToyD(k, x)) = x
            /\ ToyE(ToyKeyFor(x, Pat(11, 16)), x) = Pat(11, 16)
            /\ ToyE(k, x) # ToyE(k, [x EXCEPT ![5] = (x[5] + 1) % 256])
       /\ Len(ToyHash(4, <<>>)) = 4 /\ Len(ToyHash(3, <<1, 2>>)) = 3
       /\ ToyHash(4, <<>>) # ToyHash(4, <<0>>)
       /\ ToyHash(4, <<0>>) # ToyHash(4, <<0, 0>>)
       /\ ToyHash(4, <<1, 2>>) # ToyHash(4, <<2, 1>>)
       /\ Len(ToyHMAC(4, <<>>, <<>>)) = 4
=============================================================================
