INIT GInit
NEXT GNext
CONSTANTS
  WSet = {0, 1, 2, 3, 14, 15, 16, 17, 18, 31, 32, 33, 47, 48, 49, 64}
  MaxLen = 130
  MaxWrites = 4
INVARIANTS Emit
CHECK_DEADLOCK FALSE
