----------------------------- MODULE PGPPartial -----------------------------
(***************************************************************************)
(* RFC 4880 section 4.2.2.4 partial body lengths as                         *)
(* /repo/openpgp/packet/packet.go writes and reads them: the writer         *)
(* partialLengthWriter (behind serializeStreamHeader: Literal, Compressed,  *)
(* SymmetricallyEncrypted packets of Sign / Encrypt / SymmetricallyEncrypt) *)
(* and the reader readLength + partialLengthReader.             [C44]      *)
(*                                                                         *)
(* Framing rule: a length octet o in 224..254 announces a chunk of         *)
(* 2^(o & 0x1f) octets, exponents 0..30; the body ends with a chunk under  *)
(* a definite length (the writer always closes with the one-octet length   *)
(* 0).  The writer cuts EACH Write call separately into powers of two,     *)
(* largest first, so the chunk exponents depend on how the caller cuts the *)
(* message: a single Write of n octets yields the binary digits of n; only *)
(* the first 512 octets are collected across calls (first chunk >= 512).   *)
(*                                                                         *)
(* One action per call: Write(n) for the next size of the chosen write     *)
(* pattern, Close, then Read (the reader walks the chunk list).  Sizes are *)
(* plain integers: everything here is arithmetic on lengths, the octets    *)
(* themselves are the harness's business.                                  *)
(***************************************************************************)
EXTENDS Integers, Sequences, FiniteSets, TLC

CONSTANTS Patterns        \* set of write patterns: sequences of Write sizes (the first is the packet's own header, e.g. 6 + len(file name))

\* mask applied to a partial length octet by the reader: 31 (0x1f) = the code and the RFC.  A cfg may override it with 15 (0x0f)
\* to document what a reader that forgets bit 4 does (PGPPartial_Mask0f.cfg: RoundTrip refuted).  Never expected of the code.
ExpMask == 31
MinFirst == 512
MaxExp == 30

VARIABLES pat, i,          \* the pattern and the index of the next Write
          buf, sentFirst,  \* partialLengthWriter: octets collected before the first chunk; first chunk sent
          chunks,          \* wire: sequence of [o |-> length octet, n |-> octets that follow]; the closing chunk has o = 0
          phase, readTotal, readOK
vars == <<pat, i, buf, sentFirst, chunks, phase, readTotal, readOK>>

Pow2(k) == 2 ^ k
RECURSIVE Log2(_)
Log2(n) == IF n < 2 THEN 0 ELSE 1 + Log2(n \div 2)          \* bits.Len32(n) - 1
\* the chunks of ONE Write of n > 0 octets once the first chunk is out: largest power of two first, capped at 2^30
RECURSIVE Cut(_)
Cut(n) == IF n = 0 THEN <<>>
          ELSE LET k == IF n >= Pow2(MaxExp) THEN MaxExp ELSE Log2(n) IN <<[o |-> 224 + k, n |-> Pow2(k)]>> \o Cut(n - Pow2(k))

Init == /\ pat \in Patterns /\ i = 1 /\ buf = 0 /\ sentFirst = FALSE /\ chunks = <<>>
        /\ phase = "writing" /\ readTotal = 0 /\ readOK = TRUE

Write == /\ phase = "writing" /\ i <= Len(pat)
         /\ i' = i + 1
         /\ LET n == pat[i] IN
            IF ~sentFirst /\ (buf > 0 \/ n < MinFirst)
            THEN IF buf + n < MinFirst
                 THEN buf' = buf + n /\ UNCHANGED <<sentFirst, chunks>>
                 ELSE buf' = 0 /\ sentFirst' = TRUE /\ chunks' = chunks \o Cut(buf + n)
            ELSE buf' = buf /\ sentFirst' = TRUE /\ chunks' = chunks \o Cut(n)
         /\ UNCHANGED <<pat, phase, readTotal, readOK>>

Close == /\ phase = "writing" /\ i > Len(pat)
         /\ chunks' = chunks \o Cut(buf) \o <<[o |-> 0, n |-> 0]>>           \* "can't send a 512 byte packet: just send what we have", then length 0
         /\ buf' = 0 /\ sentFirst' = TRUE /\ phase' = "written"
         /\ UNCHANGED <<pat, i, readTotal, readOK>>

(* reader: readLength on each length octet; a partial octet announces 2^(o & ExpMask) octets.  If that is not the number of octets
   the writer put there, the reader is out of step with the wire from then on (readOK = FALSE). *)
RECURSIVE Walk(_, _, _)
Walk(cs, k, acc) == IF k > Len(cs) THEN [total |-> acc, ok |-> FALSE]                           \* ran out without a closing chunk
                    ELSE IF cs[k].o < 224 THEN [total |-> acc + cs[k].n, ok |-> cs[k].o = cs[k].n /\ k = Len(cs)]
                    ELSE LET m == Pow2((cs[k].o - 224) % (ExpMask + 1)) IN
                         IF m # cs[k].n THEN [total |-> acc + m, ok |-> FALSE]
                         ELSE Walk(cs, k + 1, acc + m)
Read == /\ phase = "written" /\ phase' = "read"
        /\ LET r == Walk(chunks, 1, 0) IN readTotal' = r.total /\ readOK' = r.ok
        /\ UNCHANGED <<pat, i, buf, sentFirst, chunks>>

Next == Write \/ Close \/ Read
Spec == Init /\ [][Next]_vars

-----------------------------------------------------------------------------
RECURSIVE Sum(_)
Sum(s) == IF Len(s) = 0 THEN 0 ELSE s[1] + Sum(Tail(s))
Done == phase = "read"
\* the framing rule itself: the 31 partial length octets denote exactly the powers 2^0 .. 2^30, one each
FramingRule == \A k \in 0..MaxExp : Pow2((224 + k - 224) % (ExpMask + 1)) = Pow2(k)
\* C44 round trip at the framing level: whatever the write pattern, the reader stays in step and gets every octet back
RoundTrip == Done => readOK /\ readTotal = Sum(pat)
\* what the writer may put on the wire
WireWellFormed == phase # "writing" =>
                    /\ \A k \in 1..Len(chunks) : /\ (k < Len(chunks) => chunks[k].o \in 224..(224 + MaxExp) /\ chunks[k].n = Pow2(chunks[k].o - 224))
                                                /\ (k = Len(chunks) => chunks[k].o = 0)
                    /\ (Len(chunks) > 1 /\ Sum(pat) >= MinFirst => chunks[1].n >= MinFirst)          \* first partial chunk >= 512 whenever possible
\* a single Write (after the small header) of n octets: the chunk exponents are the binary digits of header + n
MaxChunkExp == IF Len(chunks) <= 1 THEN -1 ELSE LET S == {chunks[k].o - 224 : k \in 1..(Len(chunks) - 1)} IN CHOOSE m \in S : \A x \in S : x <= m
=============================================================================
