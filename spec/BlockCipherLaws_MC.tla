------------------------- MODULE BlockCipherLaws_MC -------------------------
(* Bounded instances of BlockCipherLaws and the case generator for binding R (C12): TLC enumerates
   (cipher, key length, aux, in-place) with the predicted acceptance, and evaluates PrimTea for the TEA/XTEA cases. *)
EXTENDS BlockCipherLaws, PrimTea, Json

CONSTANTS Pairs        \* number of (key, block) pattern pairs per accepted TEA/XTEA case evaluated by TLC

KeyLens(c) == CASE c = "blowfish" -> 0..58 \cup {64, 72, 73}
                [] c = "blowfish-salted" -> {0, 1, 2, 16, 55, 56, 57, 72, 73, 100}
                [] c = "twofish" -> 0..34 \cup {48, 64}
                [] c = "cast5" -> 0..18 \cup {32}
                [] c = "tea" -> {0, 8, 15, 16, 17, 32}
                [] c = "xtea" -> 0..18 \cup {32}
                [] c = "rc2" -> {0, 1, 5, 7, 8, 16, 33, 64, 127, 128, 129}
Auxs(c) == CASE c = "blowfish-salted" -> {0, 1, 16, 17}
             [] c = "tea" -> {-3, -2, -1, 0, 1, 2, 3, 8, 16, 31, 32, 63, 64, 65, 128}
             [] c = "rc2" -> {0, 1, 8, 40, 63, 64, 65, 128, 129, 1024, 1025}
             [] OTHER -> {0}

VARIABLES c, kl, aux, inplace
cvars == <<c, kl, aux, inplace>>
CInit == /\ c \in Ciphers /\ kl \in KeyLens(c) /\ aux \in Auxs(c) /\ inplace \in BOOLEAN
         /\ E = <<>> /\ a = 0 /\ b = 0 /\ a0 = 0 /\ trace = <<>>           \* the aliasing model's variables are not used here
CSpec == CInit /\ [][UNCHANGED <<cvars, lvars>>]_<<cvars, lvars>>

\* the constructors reject exactly what the documentation excludes
AcceptIffDocumented == Defined(c, kl, aux) => (CodeAccepts(c, kl, aux) <=> DocAccepts(c, kl, aux))

\* TEA / XTEA expected ciphertexts from the executable definitions; the reference algorithms themselves invert
TeaVec(i) == LET key == Pat(100 + 7 * i + kl, 16)  blk == Pat(300 + 11 * i + (aux % 97), 8)
                 ct == IF c = "tea" THEN TeaEncrypt(key, blk, aux) ELSE XteaEncrypt(key, blk)
             IN [key |-> key, pt |-> blk, ct |-> ct]
Vecs == IF c \in {"tea", "xtea"} /\ CodeAccepts(c, kl, aux) /\ ~inplace THEN [i \in 1..Pairs |-> TeaVec(i)] ELSE <<>>
ReferenceInverts == \A i \in 1..Len(Vecs) :
                      IF c = "tea" THEN TeaDecrypt(Vecs[i].key, Vecs[i].ct, aux) = Vecs[i].pt
                      ELSE XteaDecrypt(Vecs[i].key, Vecs[i].ct) = Vecs[i].pt

EmitC == PrintT("TRACE " \o ToJson([cipher |-> c, keyLen |-> kl, aux |-> aux, inplace |-> inplace,
                                    defined |-> Defined(c, kl, aux), accept |-> DocAccepts(c, kl, aux),
                                    blockSize |-> BlockSize(c), vecs |-> Vecs]))
=============================================================================
