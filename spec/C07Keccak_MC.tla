---------------------------- MODULE C07Keccak_MC ----------------------------
(* Bounded instance of C07Keccak: rate 4 of width 6, corrupted byte values around the valid ranges. *)
EXTENDS C07Keccak
MC_NSet == {0, 1, 4, 5}
MC_KSet == {0, 1, 4, 5}
MC_RateVals == {3, 4, 5}
MC_NVals == 0..6
MC_DirVals == {0, 1, 2}
=============================================================================
