----------------------------- MODULE PrimChaCha -----------------------------
(***************************************************************************)
(* Layer P (binding E): the ChaCha20 block function, keystream and         *)
(* HChaCha20 exactly as RFC 8439 section 2.1-2.4 and                       *)
(* draft-irtf-cfrg-xchacha-01 section 2.2 define them, as executable TLA+  *)
(* definitions evaluated by TLC.  This is the byte oracle against which    *)
(* /repo/chacha20 (Cipher.XORKeyStream, HChaCha20) and                     *)
(* /repo/chacha20poly1305 are compared.  It is deliberately the textbook   *)
(* algorithm (no precomputation of the first round, no buffering).         *)
(*                                                                         *)
(* key: 32 bytes, nonce: 12 bytes, counter: a word <<hi, lo>>.             *)
(* The ASSUMEs at the end are the published vectors: a wrong module        *)
(* refuses to run.                                                         *)
(***************************************************************************)
EXTENDS PrimWords, SequencesExt

\* quarter round on state s (function 0..15 -> word), RFC 8439 section 2.1
QR(s, ia, ib, ic, id) ==
  LET a1 == Add32(s[ia], s[ib])
      d1 == Rotl32(Xor32(s[id], a1), 16)
      c1 == Add32(s[ic], d1)
      b1 == Rotl32(Xor32(s[ib], c1), 12)
      a2 == Add32(a1, b1)
      d2 == Rotl32(Xor32(d1, a2), 8)
      c2 == Add32(c1, d2)
      b2 == Rotl32(Xor32(b1, c2), 7)
  IN [s EXCEPT ![ia] = a2, ![ib] = b2, ![ic] = c2, ![id] = d2]

\* one column round followed by one diagonal round (section 2.3)
DoubleRound(s) ==
  LET s1 == QR(s, 0, 4, 8, 12)   s2 == QR(s1, 1, 5, 9, 13)
      s3 == QR(s2, 2, 6, 10, 14) s4 == QR(s3, 3, 7, 11, 15)
      s5 == QR(s4, 0, 5, 10, 15) s6 == QR(s5, 1, 6, 11, 12)
      s7 == QR(s6, 2, 7, 8, 13)  s8 == QR(s7, 3, 4, 9, 14)
  IN s8

RECURSIVE Rounds(_, _)
Rounds(s, n) == IF n = 0 THEN s ELSE Rounds(DoubleRound(s), n - 1)

Sigma(i) == CASE i = 0 -> <<24944, 30821>>   \* 0x61707865 "expa"
              [] i = 1 -> <<13088, 25710>>   \* 0x3320646e "nd 3"
              [] i = 2 -> <<31074, 11570>>   \* 0x79622d32 "2-by"
              [] i = 3 -> <<27424, 25972>>   \* 0x6b206574 "te k"

\* the 64-byte keystream block for (key, counter word, 12-byte nonce), section 2.3
Block(key, ctr, nonce) ==
  LET init == [i \in 0..15 |->
                 IF i \in 0..3 THEN Sigma(i)
                 ELSE IF i \in 4..11 THEN LE32(key, 4 * (i - 4) + 1)
                 ELSE IF i = 12 THEN ctr
                 ELSE LE32(nonce, 4 * (i - 13) + 1)]
      fin == Rounds(init, 10)
  IN FlattenSeq([i \in 1..16 |-> Bytes32(Add32(fin[i-1], init[i-1]))])

\* HChaCha20(key, 16-byte nonce) -> 32-byte subkey (draft-irtf-cfrg-xchacha-01 section 2.2):
\* 20 rounds, no feed-forward, words 0..3 and 12..15
HChaCha20(key, nonce16) ==
  LET init == [i \in 0..15 |->
                 IF i \in 0..3 THEN Sigma(i)
                 ELSE IF i \in 4..11 THEN LE32(key, 4 * (i - 4) + 1)
                 ELSE LE32(nonce16, 4 * (i - 12) + 1)]
      fin == Rounds(init, 10)
  IN FlattenSeq([i \in 1..8 |-> Bytes32(fin[IF i <= 4 THEN i - 1 ELSE i + 7])])

(***************************************************************************)
(* Keystream slices.  The block counter of block number k (k a small       *)
(* natural) relative to a base counter word `base` is base + k mod 2^32:   *)
(* this lets the near-2^32 region be addressed with small integers.        *)
(* KSBlocks(key, nonce, base, k0, nb): blocks k0 .. k0+nb-1 concatenated.  *)
(* KS(key, nonce, base, from, n): the n keystream bytes at byte offsets    *)
(* from .. from+n-1 of the stream that starts at block `base`.             *)
(***************************************************************************)
KSBlocks(key, nonce, base, k0, nb) ==
  FlattenSeq([j \in 1..nb |-> Block(key, AddInt32(base, k0 + j - 1), nonce)])

KS(key, nonce, base, from, n) ==
  IF n = 0 THEN <<>> ELSE
  LET k0 == from \div 64
      k1 == (from + n - 1) \div 64
      all == KSBlocks(key, nonce, base, k0, k1 - k0 + 1)
      off == from - 64 * k0
  IN SubSeq(all, off + 1, off + n)

\* XChaCha20 (24-byte nonce): subkey and the 12-byte inner nonce 0^4 || nonce[16..23]
XKey(key, nonce24) == HChaCha20(key, SubSeq(nonce24, 1, 16))
XNonce(nonce24) == <<0, 0, 0, 0>> \o SubSeq(nonce24, 17, 24)

\* uniform entry: nonce of 12 or 24 bytes
EffKey(key, nonce) == IF Len(nonce) = 24 THEN XKey(key, nonce) ELSE key
EffNonce(nonce) == IF Len(nonce) = 24 THEN XNonce(nonce) ELSE nonce

Zero32w == <<0, 0>>

(***************************************************************************)
(* Published vectors                                                       *)
(***************************************************************************)
RFCKey == [i \in 1..32 |-> i - 1]
RFCNonce232 == <<0,0,0,9, 0,0,0,74, 0,0,0,0>>
\* RFC 8439 section 2.3.2: block with counter 1
RFCBlock232 ==
  << 16,241,231,228, 209,59,89,21, 80,15,221,31, 163,32,113,196,
     199,209,244,199, 51,192,104,3, 4,34,170,154, 195,212,108,78,
     210,130,100,70, 7,159,170,9, 20,194,215,5, 217,139,2,162,
     181,18,156,209, 222,22,78,185, 203,208,131,232, 162,80,60,78 >>
\* RFC 8439 section 2.1.1: quarter round on a=0x11111111 b=0x01020304 c=0x9b8d6f43 d=0x01234567
QRin == [i \in 0..15 |-> CASE i = 0 -> <<4369, 4369>> [] i = 1 -> <<258, 772>>
                            [] i = 2 -> <<39821, 28483>> [] i = 3 -> <<291, 17767>> [] OTHER -> <<0, 0>>]
\* RFC 8439 section 2.4.2: first 16 keystream bytes used for "Ladies and Gentlemen..." (counter 1,
\* nonce 00 00 00 00 00 00 00 4a 00 00 00 00): 22 4f 51 f3 40 1b d9 e1 2f de 27 6f b8 63 1d ed
RFCNonce242 == <<0,0,0,0, 0,0,0,74, 0,0,0,0>>
\* draft-irtf-cfrg-xchacha-01 section 2.2.1
XDraftNonce == <<0,0,0,9, 0,0,0,74, 0,0,0,0, 49,65,89,39>>
XDraftSubkey == << 130,65,59,66, 39,178,123,254, 211,14,66,80, 138,135,125,115,
                   160,249,228,213, 138,116,168,83, 193,46,196,19, 38,211,236,220 >>

ASSUME LET q == QR(QRin, 0, 1, 2, 3) IN
         /\ q[0] = <<59946, 37620>>      \* 0xea2a92f4
         /\ q[1] = <<51996, 63694>>      \* 0xcb1cf8ce
         /\ q[2] = <<17793, 18222>>      \* 0x4581472e
         /\ q[3] = <<22657, 50363>>      \* 0x5881c4bb
ASSUME Block(RFCKey, <<0, 1>>, RFCNonce232) = RFCBlock232
ASSUME SubSeq(Block(RFCKey, <<0, 1>>, RFCNonce242), 1, 16) =
         <<34,79,81,243, 64,27,217,225, 47,222,39,111, 184,99,29,237>>
ASSUME HChaCha20(RFCKey, XDraftNonce) = XDraftSubkey
ASSUME KS(RFCKey, RFCNonce232, <<0, 0>>, 64, 64) = RFCBlock232
ASSUME KS(RFCKey, RFCNonce232, <<65535, 65535>>, 128 + 3, 5) = SubSeq(RFCBlock232, 4, 8)   \* counter wraps: base 2^32-1, block 2 = counter 1
=============================================================================
