SPECIFICATION Spec
INVARIANTS OnlyAuthorized SignedBytesProtected SignatureProtected EmbeddedCertProtected AcceptExact NilIssuerUnchecked SerialMatch RoundTrip IdentityIrrelevant ImpostorRejected Emit
CHECK_DEADLOCK FALSE
