SPECIFICATION Spec
INVARIANTS OnlyAuthorized SignedBytesProtected SignatureProtected EmbeddedCertProtected AcceptExact NilIssuerUnchecked SerialMatch RoundTrip Emit
CHECK_DEADLOCK FALSE
