SPECIFICATION MCSpec
CONSTANTS
  MinFirst = 512
  MaxPow = 30
  Families = {"writer"}
  Big = FALSE
  SweepSet <- SweepQ
  WSizes <- WMenuQ
  WNames = {0, 7}
  WMaxLen = 3
INVARIANTS WriterOK Emit
CHECK_DEADLOCK FALSE
