SPECIFICATION TraceSpec
CONSTANTS
  MaxLine = 255
  MaxPre = 1024
  MaxPending = 64
  ChanSize = 16
  Roles = {}
  Owns = {}
  StrictOpts = {}
  ExtcOpts = {}
  RkOpts = {}
  StartPh = "ver"
  VerSteps = {}
  MaxVer = 1000000
  Kinds = {}
  MaxPkt = 1000000
  MaxNoise = 1000000
  MaxPing = 1000000
  PingRuns = {}
  Bursts = {}
  AsIs = FALSE
INVARIANTS TypeOK P1_VerRefines P1_Accepted P1_OwnLine P2_NoiseInvisible P2_Disconnect P2_DeadIsFinal P2_UnexpectedEnds NoStall P3_ServerExtInfo P3_FirstKexInitOnly P3_ClientRecords P4_PongOrder P4_PongOnlyWhenEstablished P4_Answered P4_NoPongDuringKex P4_FlushAtNewKeys P5_ServiceOnce P5_ServerRefuses P5_Established
CONSTRAINT HWM
POSTCONDITION TraceAccepted
CHECK_DEADLOCK FALSE
