SPECIFICATION GSpec
CONSTANTS
  L <- GL4
  NSet <- GN4
  CSet <- GC4
  Depth = 5
INVARIANTS Emit
CHECK_DEADLOCK FALSE
