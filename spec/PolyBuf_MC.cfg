SPECIFICATION Spec
CONSTANTS
  WSet = {0, 1, 2, 15, 16, 17, 31, 32, 33, 48}
  MaxLen = 80
INVARIANTS TypeOK BufInv SumIsDefinition
PROPERTIES Refines AbsSumStable
CHECK_DEADLOCK FALSE
