SPECIFICATION Spec
CONSTANTS
  MinFirst = 8
  MaxPow = 3
  Sizes <- SizesT
  MaxWrites = 3
  ReadSizes <- ReadsQ
  EofStyles = {"separate", "with-data"}
  CutAll = TRUE
  FixEof = TRUE
  FixShort = FALSE
  Tag = 11
  Crafted <- CraftedSet
INVARIANTS WriteReturns BufferBound Conservation ChunkShape FirstDuringWrites FirstChunkKept OnePacket RoundTrip NoSilentTruncation PrefixOnly AgreesWithFunction
PROPERTIES Progress
CHECK_DEADLOCK FALSE
