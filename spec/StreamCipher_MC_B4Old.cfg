SPECIFICATION Spec
CONSTANTS
  L <- MC_L8
  NSet <- MC_NSet
  CSet <- MC_CSet8
  Repaired = FALSE
  BPB = 4
INVARIANTS TypeOK BufferHoldsNext OverflowLatch
PROPERTIES Refines AbsMonotone AbsContiguous AbsPanicExact AbsSeek
CHECK_DEADLOCK FALSE
