---------------------------- MODULE C07Keccak_Gen ----------------------------
(***************************************************************************)
(* C07, binding R: history generator for the legacy Keccak sponges at the  *)
(* real rates (Keccak-256: rate 136, output 32; Keccak-512: rate 72,       *)
(* output 64; array width 200), without corruption.  `which` selects the   *)
(* instance; every history of exactly Depth calls is printed as            *)
(*   {"w": which, "h": [[op, k, res, alen, opos], ...]}                    *)
(* op 0 = Write(k), 1 = Sum, 2 = Reset, 3 = MarshalBinary, 4 =             *)
(* UnmarshalBinary into a fresh hash (which replaces the object), 5 =      *)
(* Read(k) through io.Reader; res 0 = returns, 1 = the documented          *)
(* "after Read" panic; alen / opos = bytes absorbed / squeezed after the   *)
(* call according to the model.                                            *)
(***************************************************************************)
EXTENDS Integers, Sequences, TLC, Json
CONSTANTS Depth, Which, Tiny
VARIABLES n, dir, alen, opos, saved, rangePanic, taint, last, hist, which
gvars == <<n, dir, alen, opos, saved, rangePanic, taint, last, hist, which>>

K256 == INSTANCE C07Keccak WITH R <- 136, W <- 200, OutLen <- 32, NSet <- (IF Tiny THEN {1, 136, 137} ELSE {0, 1, 135, 136, 137, 273}), KSet <- (IF Tiny THEN {1, 137} ELSE {1, 136, 137}),
                                MaxLen <- 100000, RateVals <- {}, NVals <- {}, DirVals <- {}, CheckN <- TRUE
K512 == INSTANCE C07Keccak WITH R <- 72, W <- 200, OutLen <- 64, NSet <- (IF Tiny THEN {1, 72, 73} ELSE {0, 1, 71, 72, 73, 145}), KSet <- (IF Tiny THEN {1, 73} ELSE {1, 72, 73}),
                                MaxLen <- 100000, RateVals <- {}, NVals <- {}, DirVals <- {}, CheckN <- TRUE

OpCode(op) == CASE op = "write" -> 0 [] op = "sum" -> 1 [] op = "reset" -> 2 [] op = "marshal" -> 3 [] op = "unmarshal" -> 4 [] op = "read" -> 5
Code == LET e == last' IN << OpCode(e.op), e.k, IF e.res = "ok" THEN 0 ELSE 1, e.alen, e.opos >>

Init == /\ which \in Which /\ hist = <<>>
        /\ CASE which = "k256" -> K256!Init [] which = "k512" -> K512!Init
Next == /\ UNCHANGED which
        /\ Len(hist) < Depth
        /\ CASE which = "k256" -> K256!Next [] which = "k512" -> K512!Next
        /\ hist' = Append(hist, Code)
Spec == Init /\ [][Next]_gvars
Emit == (Len(hist) = Depth) => PrintT("TRACE " \o ToJson([w |-> which, h |-> hist]))
WBoth == {"k256", "k512"}
=============================================================================
