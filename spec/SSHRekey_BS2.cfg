SPECIFICATION SafetySpec
CONSTANTS
  MaxPending = 3
  ChanSize = 1
  Writers = {1}
  NPkts = 3
  MaxRekeys = 1
  Threshold = 1000
  PktLens = {1}
  ExtInfo = FALSE
  NetCap = 2
  ReleaseAfterFlush = FALSE
INVARIANTS TypeOK K1Wire K2State K3 QueueOnlyInKex NetBounded NoDeadlock
PROPERTIES K1 K2
CHECK_DEADLOCK FALSE
