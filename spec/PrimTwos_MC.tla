----------------------------- MODULE PrimTwos_MC -----------------------------
(* Numeric anchoring of PrimTwos: for every integer v in a range covering the 1-, 2- and 3-byte
   boundaries, the byte-string operators agree with integer arithmetic. *)
EXTENDS PrimTwos, TLC
CONSTANTS Lo, Hi
VARIABLE v
Init == v \in Lo..Hi
Next == UNCHANGED v
Spec == Init /\ [][Next]_v
LoV == -33000
NeedLen(i) == IF i = 0 THEN 0 ELSE IF i >= -128 /\ i < 128 THEN 1 ELSE IF i >= -32768 /\ i < 32768 THEN 2 ELSE 3
Agree == LET big == BigOfInt(v)
             e == TwosMin(big) IN
         /\ IsBig(big) /\ IntOf(big) = v
         /\ Len(e) = NeedLen(v)                 \* the shortest possible
         /\ TwosInt(e) = v                      \* and it denotes v
         /\ TwosVal(e) = big
         /\ IsMinimalTwos(e)
\* non-minimal encodings decode to the same value (parseInt is lenient), and are recognised as non-minimal
Padded == LET big == BigOfInt(v)
              e == TwosMin(big)
              p == (IF v < 0 THEN <<255>> ELSE <<0>>) \o e IN
          /\ TwosVal(p) = big
          /\ ~IsMinimalTwos(p)
=============================================================================
