SPECIFICATION Spec
CONSTANTS
  BS = 4
  LF = 1
  WSet = {0, 1, 2, 3, 4, 5, 7, 8, 9}
  MaxLen = 30
INVARIANTS AbsInv BufInv NoPanic
PROPERTIES Refines AbsSumPure
CHECK_DEADLOCK FALSE
