------------------------------ MODULE MDBuf_Tags ------------------------------
(***************************************************************************)
(* C14, binding E: TLC evaluates the executable definitions PrimMD4!MD4    *)
(* and PrimRMD160!RMD160 for the patterned messages Pat(seed, n), every    *)
(* n in 0..TagMax and the lengths in Extra, and prints the digests the Go  *)
(* harness compares the real md4 / ripemd160 packages with:                *)
(*   TRACE {"alg", "seed", "len", "d"}                                     *)
(***************************************************************************)
EXTENDS PrimRMD160, TLC, Json

CONSTANTS Seeds, TagMax, Extra, Groups
VARIABLES c

Init == c = [t |-> "root"]
\* a two-level tree so that TLC's workers share the evaluation
Next == \/ c.t = "root" /\ c' \in {[t |-> "grp", alg |-> a, seed |-> s, j |-> j] : a \in {"md4", "ripemd160"}, s \in Seeds, j \in 0..(Groups - 1)}
        \/ c.t = "grp" /\ c' \in {[t |-> "case", alg |-> c.alg, seed |-> c.seed, len |-> n] : n \in {x \in (0..TagMax) \cup Extra : x % Groups = c.j}}
Emit == c.t = "case" =>
          PrintT("TRACE " \o ToJson([alg |-> c.alg, seed |-> c.seed, len |-> c.len,
                                     d |-> IF c.alg = "md4" THEN MD4(Pat(c.seed, c.len)) ELSE RMD160(Pat(c.seed, c.len))]))
=============================================================================
