SPECIFICATION Spec
CONSTANTS
  BS = 16
  LF = 4
  WSet = {0, 1, 11, 12, 13, 15, 16, 17, 27, 28, 29, 31, 32, 33}
  MaxLen = 70
INVARIANTS AbsInv BufInv NoPanic
PROPERTIES Refines AbsSumPure
CHECK_DEADLOCK FALSE
