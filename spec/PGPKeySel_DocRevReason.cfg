SPECIFICATION SpecAll
CONSTANTS
  FixPrec = TRUE
  FixBase = TRUE
  FixZero = TRUE
  FixRevReason = FALSE
  FixSerRev = TRUE
  Slice = "SelQ"
  BaseMenu <- BaseMenuMC
  SubMenu <- SubMenuMC
  Nows <- AllNows
  MaxT = 4
  MaxSubs = 2
  MaxSubSigs = 3
  MaxIdSigs = 2
  LifeAlgos = {"rsa"}
  LifeFlags <- LifeFlagsMC
  LifeLives <- LifeLivesMC
INVARIANTS InvK3
CHECK_DEADLOCK FALSE
