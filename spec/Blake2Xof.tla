------------------------------ MODULE Blake2Xof ------------------------------
(***************************************************************************)
(* C06 - abstract specification of the BLAKE2X extendable-output objects   *)
(* returned by blake2b.NewXOF / blake2s.NewXOF (/repo/blake2b/blake2x.go,  *)
(* /repo/blake2s/blake2x.go): Write absorbs (panics after the first Read), *)
(* Read squeezes the BLAKE2X stream of the absorbed message - exactly the  *)
(* declared number of bytes L, then io.EOF - however the reads are         *)
(* chunked, Clone forks an independent object, Reset returns to the keyed  *)
(* initial state.  L = -1 stands for OutputLengthUnknown (stream limit     *)
(* Max: 2^32 nodes in the code, scaled here).                              *)
(*                                                                         *)
(* Bytes are abstract.  The message is identified by its length w (the     *)
(* harness writes a fixed pattern stream); output byte p of the stream for *)
(* (w, L) is [w, node p \div N, dlen, idx p % N] where dlen is the digest  *)
(* length of that node: min(N, L - N*node), or N when L is unknown         *)
(* (blake2x.pdf: "the last node is shorter").  spec/PrimBlake2.tla         *)
(* (XofSliceB/XofSliceS) materialises the bytes.                           *)
(***************************************************************************)
EXTENDS Integers, Sequences

CONSTANTS N,            \* node (= inner digest) size: 64 / 32; scaled to 4 for model checking
          LSet,         \* declared lengths explored (-1 = unknown)
          Max,          \* stream limit for unknown length (a multiple of N)
          KSet,         \* read sizes
          WSet,         \* write sizes
          Readers,      \* number of object slots (Clone needs a free one)
          MaxW,         \* bound on message length
          Materialize   \* FALSE: Read events carry no byte sequence (history generation with large reads)

VARIABLES L,            \* the declared length (chosen at NewXOF, then constant)
          xs,           \* slot -> [used, mode, w, pos]
          last          \* the last call and its observable result
avars == <<L, xs, last>>

Min2(a, b) == IF a < b THEN a ELSE b
Limit(l) == IF l = -1 THEN Max ELSE l
NodeLen(l, i) == IF l = -1 THEN N ELSE Min2(N, l - N * i)
Byte(l, w, p) == [w |-> w, node |-> p \div N, dlen |-> NodeLen(l, p \div N), idx |-> p % N]
Stream(l, w, from, n) == [j \in 1..n |-> Byte(l, w, from + j - 1)]

Free == [used |-> FALSE, mode |-> "absorb", w |-> 0, pos |-> 0]
Fresh == [used |-> TRUE, mode |-> "absorb", w |-> 0, pos |-> 0]
Ev(op, r, k, n, res, out) == [op |-> op, r |-> r, k |-> k, n |-> n, res |-> res, out |-> out]

Init == /\ L \in LSet
        /\ xs = [r \in 1..Readers |-> IF r = 1 THEN Fresh ELSE Free]
        /\ last = Ev("new", 1, 0, 0, "ok", <<>>)

Write(r, n) ==
  /\ xs[r].used
  /\ UNCHANGED L
  /\ IF xs[r].mode = "squeeze"
     THEN /\ UNCHANGED xs /\ last' = Ev("write", r, n, 0, "panic", <<>>)       \* "write to XOF after read"
     ELSE /\ xs[r].w + n <= MaxW
          /\ xs' = [xs EXCEPT ![r].w = @ + n]
          /\ last' = Ev("write", r, n, n, "ok", <<>>)

\* Read(p) with len(p) = k: the first Read fixes the message (also a Read of 0 bytes);
\* io.EOF (with 0 bytes) exactly when the declared length has been produced
Read(r, k) ==
  /\ xs[r].used
  /\ UNCHANGED L
  /\ LET x == xs[r]
         n == Min2(k, Limit(L) - x.pos)
     IN IF x.pos = Limit(L)
        THEN /\ xs' = [xs EXCEPT ![r].mode = "squeeze"]
             /\ last' = Ev("read", r, k, 0, "eof", <<>>)
        ELSE /\ xs' = [xs EXCEPT ![r].mode = "squeeze", ![r].pos = @ + n]
             /\ last' = Ev("read", r, k, n, "ok", IF Materialize THEN Stream(L, x.w, x.pos, n) ELSE <<>>)

Clone(r) ==
  /\ xs[r].used
  /\ \E q \in 1..Readers : /\ ~xs[q].used
                           /\ \A q2 \in 1..(q - 1) : xs[q2].used
                           /\ xs' = [xs EXCEPT ![q] = xs[r]]
                           /\ last' = Ev("clone", r, q, 0, "ok", <<>>)
  /\ UNCHANGED L

Reset(r) ==
  /\ xs[r].used
  /\ xs' = [xs EXCEPT ![r] = Fresh]
  /\ last' = Ev("reset", r, 0, 0, "ok", <<>>)
  /\ UNCHANGED L

Next == \E r \in 1..Readers : \/ \E n \in WSet : Write(r, n)
                              \/ \E k \in KSet : Read(r, k)
                              \/ Clone(r) \/ Reset(r)
Spec == Init /\ [][Next]_avars

TypeOK == \A r \in 1..Readers : /\ xs[r].pos \in 0..Limit(L) /\ xs[r].w \in 0..MaxW
                                /\ xs[r].mode \in {"absorb", "squeeze"}
                                /\ (xs[r].mode = "absorb" => xs[r].pos = 0)
\* exactly the declared length before EOF; never more, EOF only there
EofExact == (last.op = "read") => /\ (last.res = "eof") <=> (last.n = 0 /\ xs[last.r].pos = Limit(L))
                                  /\ xs[last.r].pos <= Limit(L)
\* reads are contiguous slices of one stream whatever the chunking
ReadIsStream == (last.op = "read" /\ last.res = "ok" /\ Materialize) =>
                  last.out = Stream(L, xs[last.r].w, xs[last.r].pos - last.n, last.n)
\* Write after the first Read panics and changes nothing; before it never panics
WriteMode == [][(last'.op = "write") => ((last'.res = "panic") <=> (xs[last'.r].mode = "squeeze"))]_avars
\* Clone independence: a call on r leaves every other object untouched
Independent == [][\A q \in 1..Readers : (last'.op \in {"write", "read", "reset"} /\ q # last'.r) => xs'[q] = xs[q]]_avars
CloneCopies == [][(last'.op = "clone") => (xs'[last'.k] = xs[last'.r] /\ \A q \in 1..Readers : q # last'.k => xs'[q] = xs[q])]_avars
=============================================================================
