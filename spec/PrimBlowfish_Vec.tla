--------------------------- MODULE PrimBlowfish_Vec ---------------------------
(***************************************************************************)
(* C19, binding E: TLC evaluates PrimBlowfish on the cases of               *)
(* PrimBlowfish_In and emits the results.  bcrypt_hash is staged: one TLC   *)
(* state per expansion pair (BcStart; BcPair x cost; BcFinish), so that     *)
(* every intermediate cipher state is a fully evaluated value and TLC's     *)
(* workers advance the cases side by side.  At full scale one case is       *)
(* 1 + 2*64 state expansions of 521 block encryptions each plus 256 more    *)
(* encryptions: about 1.07 million Feistel rounds (measured: about 3        *)
(* minutes of one TLC worker on the loaded build machine).                  *)
(* Emitted: the P-array after BcStart and after the first three and the     *)
(* last expansion pair ("stage"), the hash ("bh"), ciphertexts ("ecb").     *)
(***************************************************************************)
EXTENDS PrimBlowfish, PrimBlowfish_In, TLC, Json

VARIABLES id, stage, cs, out
vars == <<id, stage, cs, out>>
Case == BfCases[id]

Init == /\ id \in 1..Len(BfCases)
        /\ stage = 0
        /\ out = <<>>
        /\ cs = IF BfCases[id].k = "bh" THEN BcStart(BfCases[id].sc, BfCases[id].a, BfCases[id].b)
                ELSE IF BfCases[id].b = <<>> THEN BfNewCipher(BfCases[id].sc, BfCases[id].a)
                ELSE BfExpand(BfCases[id].sc, BfInit(BfCases[id].sc), BfCases[id].a, BfCases[id].b)
Pair   == /\ Case.k = "bh" /\ stage < Case.sc.cost
          /\ cs' = BcPair(Case.sc, cs, Case.a, Case.b)
          /\ stage' = stage + 1
          /\ UNCHANGED <<id, out>>
Finish == /\ stage = (IF Case.k = "bh" THEN Case.sc.cost ELSE 0) /\ out = <<>>
          /\ out' = IF Case.k = "bh" THEN BcFinish(Case.sc, cs) ELSE BfEncryptBlock(Case.sc, cs, Case.c)
          /\ stage' = stage + 1
          /\ cs' = <<>>
          /\ UNCHANGED id
Next == Pair \/ Finish

Limbs(P) == FoldLeft(LAMBDA acc, w : acc \o w, <<>>, P)
Emit ==
  /\ out # <<>> => PrintT("TRACE " \o ToJson([k |-> Case.k, id |-> id, sc |-> Case.sc, a |-> Case.a, b |-> Case.b, c |-> Case.c, out |-> out]))
  /\ (out = <<>> /\ Case.k = "bh" /\ (stage <= 3 \/ stage = Case.sc.cost)) =>
        PrintT("TRACE " \o ToJson([k |-> "stage", id |-> id, sc |-> Case.sc, a |-> Case.a, b |-> Case.b, i |-> stage, p |-> Limbs(cs[1])]))
\* shape of the results
TypeOK == /\ out # <<>> => (Len(out) = (IF Case.k = "bh" THEN 32 ELSE 8) /\ \A i \in 1..Len(out) : out[i] \in 0..255)
          /\ cs # <<>> => (Len(cs[1]) = Case.sc.nr + 2 /\ Len(cs[2]) = 4 * Case.sc.sb)
=============================================================================
