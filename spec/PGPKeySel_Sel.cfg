SPECIFICATION SpecAll
CONSTANTS
  FixPrec = TRUE
  FixBase = TRUE
  FixZero = TRUE
  FixRevReason = TRUE
  FixSerRev = TRUE
  Slice = "Sel"
  BaseMenu <- BaseMenuMC
  SubMenu <- SubMenuMC
  Nows <- AllNows
  MaxT = 4
  MaxSubs = 2
  MaxSubSigs = 3
  MaxIdSigs = 2
  LifeAlgos = {"rsa"}
  LifeFlags <- LifeFlagsMC
  LifeLives <- LifeLivesMC
INVARIANTS InvK1 InvK2 InvK3 InvK4 InvK5 InvK5x InvK6 InvK7 InvP1
CHECK_DEADLOCK FALSE
