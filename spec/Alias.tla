-------------------------------- MODULE Alias --------------------------------
(***************************************************************************)
(* C53 - in-place and overlapping buffers.                                 *)
(*                                                                         *)
(* Buffers are intervals [a, a+n) of one address space (the arena).  The   *)
(* module contains                                                         *)
(*  1. internal/alias (AnyOverlap, InexactOverlap) transcribed from        *)
(*     /repo/internal/alias/alias.go, and what they are documented to      *)
(*     mean in terms of shared cells (model-checked equivalent, including  *)
(*     the zero-length exemptions);                                        *)
(*  2. sliceForAppend (chacha20poly1305.go, secretbox.go, sign.go);        *)
(*  3. per API class: the documented contract (Allowed), the alias checks  *)
(*     the code performs (Panics), and the code's dataflow as a program    *)
(*     of steps over intervals (Prog) - which input regions are read and   *)
(*     which regions are written, in program order:                        *)
(*       chacha20.Cipher.XORKeyStream   chacha20/chacha_generic.go         *)
(*       salsa20.XORKeyStream           salsa20/salsa20.go                 *)
(*       salsa.XORKeyStream             salsa20/salsa/salsa20_amd64.go,    *)
(*                                      salsa20_noasm.go (no check at all) *)
(*       xts.Cipher.Encrypt/Decrypt     xts/xts.go                         *)
(*       AEAD Seal/Open, generic+asm    chacha20poly1305_generic.go,       *)
(*                                      chacha20poly1305_amd64.go          *)
(*       secretbox.Seal/Open, box.Seal/Open/...AfterPrecomputation         *)
(*       box.SealAnonymous/OpenAnonymous  nacl/box/box.go                  *)
(*       sign.Sign/Open                 nacl/sign/sign.go                  *)
(*  4. a hazard analysis of such programs (Hazard): a call that does not   *)
(*     panic returns the same result as with separate buffers unless some  *)
(*     step reads an input cell that an earlier step (or the same          *)
(*     element-wise step, at a different index) has overwritten.           *)
(*     AliasExec.tla justifies it against a symbolic-memory execution.     *)
(*                                                                         *)
(* The property, per call:                                                 *)
(*   InPlaceWorks  : Allowed  => ~Panics /\ ~Hazard                        *)
(*   MisuseCaught  : ~Allowed => Panics \/ ~Hazard                         *)
(* Outcome predicted for the conformance replay: "P" (panics), "S" (same   *)
(* result as with separate buffers), "U" (no panic and a hazard: the       *)
(* result is unspecified - a design-level violation of MisuseCaught that   *)
(* the harness must reproduce on the real code before it is believed).     *)
(***************************************************************************)
EXTENDS Integers, Sequences, FiniteSets

CONSTANTS TagLen,     \* Poly1305 tag (real 16)
          EpkLen,     \* ephemeral public key prefix of a sealed box (real 32)
          SigLen,     \* Ed25519 signature (real 64)
          Fixed       \* the deviations (names below, see Deviation) that have been repaired in the code under test:
                      \* {} for the code as found; the check driver adds a name once known_findings.json lists it as fixed

Buf(a, n) == [a |-> a, n |-> n]
None == Buf(0, 0)
Sub(x, i, j) == Buf(x.a + i, j - i)          \* x[i:j]
Cells(x) == x.a .. (x.a + x.n - 1)
Fresh == 1000000      \* where a fresh allocation lives: away from every buffer of a call
Far == 2000000        \* where buffers outside the arena live (a separate additional-data buffer)

(***************************************************************************)
(* 1. internal/alias                                                       *)
(***************************************************************************)
\* len(x) > 0 && len(y) > 0 && &x[0] <= &y[len(y)-1] && &y[0] <= &x[len(x)-1]
AnyOverlap(x, y) == x.n > 0 /\ y.n > 0 /\ x.a <= y.a + y.n - 1 /\ y.a <= x.a + x.n - 1
\* if len(x) == 0 || len(y) == 0 || &x[0] == &y[0] { return false }; return AnyOverlap(x, y)
InexactOverlap(x, y) == IF x.n = 0 \/ y.n = 0 \/ x.a = y.a THEN FALSE ELSE AnyOverlap(x, y)

\* the documentation: "share memory at any (not necessarily corresponding) index" / "at any non-corresponding index"
SharesCell(x, y) == Cells(x) \cap Cells(y) # {}
SharesNonCorresponding(x, y) == \E i \in 0..(x.n - 1), j \in 0..(y.n - 1) : i # j /\ x.a + i = y.a + j
AliasDocOK(x, y) == /\ AnyOverlap(x, y) = SharesCell(x, y)
                    /\ InexactOverlap(x, y) = SharesNonCorresponding(x, y)
                    /\ AnyOverlap(x, y) = AnyOverlap(y, x) /\ InexactOverlap(x, y) = InexactOverlap(y, x)

(***************************************************************************)
(* 2. destination slices and sliceForAppend                                *)
(***************************************************************************)
\* a Go slice used as destination: address a, length p (the prefix that is kept), capacity c
Dst(a, p, c) == [a |-> a, p |-> p, c |-> c]
RemCap(d) == Buf(d.a + d.p, d.c - d.p)       \* dst[len(dst):cap(dst)]
WholeCap(d) == Buf(d.a, d.c)
\* if cap(in) >= len(in)+n { head = in[:total] } else { head = make(total); copy(head, in) }; tail = head[len(in):]
Realloc(d, need) == d.c < d.p + need
TailBuf(d, need) == IF Realloc(d, need) THEN Buf(Fresh, need) ELSE Buf(d.a + d.p, need)

(***************************************************************************)
(* 3. calls.  A call is [cls, in, d, ad]:                                  *)
(*   cls - API class (below), in - the input buffer (src / plaintext /     *)
(*   ciphertext||tag / message / box / signed message), d - the            *)
(*   destination slice (for the stream class: p = 0 and c = len(dst)),     *)
(*   ad - additional data (None-like Far buffer when not in the arena).    *)
(***************************************************************************)
StreamChecked == {"chacha20.XORKeyStream", "salsa20.XORKeyStream", "xts.Encrypt", "xts.Decrypt"}
StreamUnchecked == {"salsa.XORKeyStream"}
Stream == StreamChecked \cup StreamUnchecked
AeadSeal == {"aead.Seal/generic", "aead.Seal/asm"}
AeadOpen == {"aead.Open/generic", "aead.Open/asm"}
SbSeal == {"secretbox.Seal"}        \* also box.Seal, box.SealAfterPrecomputation (thin wrappers)
SbOpen == {"secretbox.Open"}        \* also box.Open, box.OpenAfterPrecomputation
Classes == Stream \cup AeadSeal \cup AeadOpen \cup SbSeal \cup SbOpen
           \cup {"box.SealAnonymous", "box.OpenAnonymous", "sign.Sign", "sign.Open"}

\* bytes the call appends to dst, given the payload length n
Need(cls, n) == CASE cls \in Stream -> n
                  [] cls \in AeadSeal \cup SbSeal -> n + TagLen
                  [] cls = "box.SealAnonymous" -> n + TagLen + EpkLen
                  [] cls = "sign.Sign" -> n + SigLen
                  [] OTHER -> n                                       \* the Open-like calls return the payload
\* length of the input buffer, given the payload length n
InLen(cls, n) == CASE cls \in AeadOpen \cup SbOpen -> n + TagLen
                   [] cls = "box.OpenAnonymous" -> n + TagLen + EpkLen
                   [] cls = "sign.Open" -> n + SigLen
                   [] OTHER -> n
Payload(c) == CASE c.cls \in AeadOpen \cup SbOpen -> c.in.n - TagLen
                [] c.cls = "box.OpenAnonymous" -> c.in.n - TagLen - EpkLen
                [] c.cls = "sign.Open" -> c.in.n - SigLen
                [] OTHER -> c.in.n
NeedOf(c) == Need(c.cls, Payload(c))
TailOf(c) == TailBuf(c.d, NeedOf(c))

DevSalsa == "salsa.XORKeyStream-inexact-overlap-unchecked"
DevAnon == "box.SealAnonymous-message-overlaps-ephemeral-key-slot"
DevAeadTag == "aead.Open-asm-output-overlaps-tag"

\* ---- 3a. what the code checks (transcribed; evaluated in the code's order, any firing check panics)
Panics(c) ==
  LET n == Payload(c)  t == TailOf(c) IN
  CASE c.cls \in StreamChecked ->
         \* chacha20: if len(src) == 0 { return }; dst = dst[:len(src)]; alias.InexactOverlap(dst, src)
         \* salsa20, xts: alias.InexactOverlap(out[:len(in)], in)           (len(dst) >= len(src) in every explored call)
         InexactOverlap(Buf(c.d.a, n), c.in)
    \* salsa.XORKeyStream: no check (repaired: the same check as salsa20.XORKeyStream)
    [] c.cls \in StreamUnchecked -> DevSalsa \in Fixed /\ InexactOverlap(Buf(c.d.a, n), c.in)
    [] c.cls \in AeadSeal -> InexactOverlap(t, c.in) \/ AnyOverlap(t, c.ad)
    \* Open: the check is made against the ciphertext already cut to len-16 (repaired: against ciphertext || tag)
    [] c.cls \in AeadOpen -> InexactOverlap(t, IF DevAeadTag \in Fixed THEN c.in ELSE Sub(c.in, 0, n)) \/ AnyOverlap(t, c.ad)
    [] c.cls \in SbSeal -> AnyOverlap(t, c.in)
    [] c.cls \in SbOpen -> AnyOverlap(t, c.in)
    [] c.cls = "box.SealAnonymous" ->
         \* out = append(out, epk...) (reallocated first if cap(out) < len(out)+48+n); then secretbox.Seal(out, message)
         \* (repaired: the whole appended region is checked before the ephemeral key is written)
         IF Realloc(c.d, NeedOf(c)) THEN FALSE
         ELSE \/ DevAnon \in Fixed /\ AnyOverlap(Buf(c.d.a + c.d.p, NeedOf(c)), c.in)
              \/ AnyOverlap(Buf(c.d.a + c.d.p + EpkLen, n + TagLen), c.in)
    [] c.cls = "box.OpenAnonymous" -> AnyOverlap(t, Sub(c.in, EpkLen, c.in.n))          \* Open(out, box[32:], ...)
    [] c.cls = "sign.Sign" -> AnyOverlap(t, c.in)
    [] c.cls = "sign.Open" -> AnyOverlap(t, c.in)

\* ---- 3b. the documented contract
\* "Dst and src must overlap entirely or not at all" (chacha20, salsa20, salsa, xts)
\* crypto/cipher.AEAD: "To reuse plaintext's storage for the encrypted output, use plaintext[:0] as dst.  Otherwise, the
\*   remaining capacity of dst must not overlap plaintext.  dst and additionalData may not overlap."  (same for Open/ciphertext)
\* nacl: "appends ... to out, which must not overlap message" (box, signed message)
Allowed(c) ==
  LET n == Payload(c) IN
  CASE c.cls \in Stream -> n = 0 \/ c.d.a = c.in.a \/ ~AnyOverlap(Buf(c.d.a, n), c.in)
    [] c.cls \in AeadSeal \cup AeadOpen ->
         /\ (c.d.a + c.d.p = c.in.a) \/ ~AnyOverlap(RemCap(c.d), c.in)
         /\ ~AnyOverlap(WholeCap(c.d), c.ad)
    [] OTHER -> ~AnyOverlap(WholeCap(c.d), c.in)

\* ---- 3c. the dataflow of a call that got past its checks: steps in program order.
\*   [k |-> "xor", w, r] : element-wise, w[i] := f_i(r[i]) for i in 0..n-1, in an order the implementation is free to choose
\*                         (byte loop, 64-byte blocks, 256-byte SIMD chunks, copy())
\*   [k |-> "read", r]   : reads an input region (to authenticate / hash / sign it)
\*   [k |-> "write", w]  : writes data that does not come element-wise from an input (tag, ephemeral key, signature)
Xor(w, r) == [k |-> "xor", w |-> w, r |-> r]
Rd(r) == [k |-> "read", w |-> None, r |-> r]
Wr(w) == [k |-> "write", w |-> w, r |-> None]

SbSealProg(t, msg) == << Xor(Sub(t, TagLen, TagLen + msg.n), msg), Wr(Sub(t, 0, TagLen)) >>      \* encrypt, then poly1305.Sum, copy(tagOut, tag)
SbOpenProg(t, box) == << Rd(box), Xor(t, Sub(box, TagLen, box.n)) >>                              \* poly1305.Verify first

Prog(c) ==
  LET n == Payload(c)  t == TailOf(c) IN
  CASE c.cls \in Stream -> << Xor(Buf(c.d.a, n), c.in) >>
    \* sealGeneric: XORKeyStream(ciphertext, plaintext); poly over AD, ciphertext; p.Sum(tag[:0])
    [] c.cls = "aead.Seal/generic" -> << Xor(Sub(t, 0, n), c.in), Rd(c.ad), Wr(Sub(t, n, n + TagLen)) >>
    \* chacha20Poly1305Seal: hashes AD, then encrypts and hashes block by block, then stores the tag
    [] c.cls = "aead.Seal/asm" -> << Rd(c.ad), Xor(Sub(t, 0, n), c.in), Wr(Sub(t, n, n + TagLen)) >>
    \* openGeneric: poly over AD and ciphertext, p.Verify(tag), only then XORKeyStream(out, ciphertext)
    [] c.cls = "aead.Open/generic" -> << Rd(c.ad), Rd(c.in), Xor(t, Sub(c.in, 0, n)) >>
    \* chacha20Poly1305Open: hashes AD, hashes and decrypts block by block, and compares with the tag stored after the ciphertext at the end
    [] c.cls = "aead.Open/asm" -> << Rd(c.ad), Xor(t, Sub(c.in, 0, n)), Rd(Sub(c.in, n, n + TagLen)) >>
    [] c.cls \in SbSeal -> SbSealProg(t, c.in)
    [] c.cls \in SbOpen -> SbOpenProg(t, c.in)
    [] c.cls = "box.SealAnonymous" ->
         IF Realloc(c.d, NeedOf(c)) THEN SbSealProg(Buf(Fresh + EpkLen, n + TagLen), c.in)
         ELSE << Wr(Buf(c.d.a + c.d.p, EpkLen)) >> \o SbSealProg(Buf(c.d.a + c.d.p + EpkLen, n + TagLen), c.in)
    [] c.cls = "box.OpenAnonymous" -> << Rd(Sub(c.in, 0, EpkLen)) >> \o SbOpenProg(t, Sub(c.in, EpkLen, c.in.n))
    \* sig := ed25519.Sign(message); copy(out, sig); copy(out[64:], message)
    [] c.cls = "sign.Sign" -> << Rd(c.in), Wr(Sub(t, 0, SigLen)), Xor(Sub(t, SigLen, SigLen + n), c.in) >>
    \* ed25519.Verify(signedMessage); copy(out, signedMessage[64:])
    [] c.cls = "sign.Open" -> << Rd(c.in), Xor(t, Sub(c.in, SigLen, c.in.n)) >>

(***************************************************************************)
(* 4. hazard analysis                                                      *)
(***************************************************************************)
\* (stated with the arithmetic predicates, which AliasDocOK shows equal to SharesNonCorresponding / SharesCell)
Hazard(prog) ==
  \/ \E i \in 1..Len(prog) : prog[i].k = "xor" /\ InexactOverlap(prog[i].w, prog[i].r)
  \/ \E i, j \in 1..Len(prog) : i < j /\ AnyOverlap(prog[i].w, prog[j].r)

Outcome(c) == IF Panics(c) THEN "P" ELSE IF Hazard(Prog(c)) THEN "U" ELSE "S"

\* ---- the property
InPlaceWorks(c) == Allowed(c) => (~Panics(c) /\ ~Hazard(Prog(c)))
MisuseCaught(c) == ~Allowed(c) => (Panics(c) \/ ~Hazard(Prog(c)))

(***************************************************************************)
(* Deviations of the code from MisuseCaught that the model exhibits        *)
(* (each reproduced on the real code by the conformance harness and listed *)
(* in known_findings.json).  MisuseCaughtExcept holds for every call.      *)
(***************************************************************************)
Deviation(c) ==
  CASE c.cls \in StreamUnchecked -> DevSalsa
    [] c.cls = "box.SealAnonymous" -> DevAnon
    [] c.cls = "aead.Open/asm" -> DevAeadTag
    [] OTHER -> "none"
\* where a deviation shows (whether or not it has been repaired since): a regression of a repaired deviation is reported
\* by the conformance harness under the finding's original signature
DeviationRegion(c) ==
  LET n == Payload(c) IN
  CASE c.cls \in StreamUnchecked -> TRUE
    [] c.cls = "box.SealAnonymous" -> ~Realloc(c.d, NeedOf(c)) /\ AnyOverlap(Buf(c.d.a + c.d.p, EpkLen), c.in)
    [] c.cls = "aead.Open/asm" -> AnyOverlap(TailOf(c), Sub(c.in, n, n + TagLen))
    [] OTHER -> FALSE
DeviationApplies(c) == Deviation(c) \notin Fixed /\ DeviationRegion(c)
MisuseCaughtExcept(c) == MisuseCaught(c) \/ DeviationApplies(c)
=============================================================================
