---------------------------- MODULE HkdfImpl_MC ----------------------------
(***************************************************************************)
(* C18: HkdfImpl with a state constraint that keeps the stream position    *)
(* near the start or near the 255*H limit, so that the refinement can be   *)
(* checked with the REAL byte modulus (MaxBlocks = 255) and every small    *)
(* read size in a few hundred states (quick tier).  The unconstrained      *)
(* real-modulus configurations are HkdfImpl_MC_R4.cfg / _R32.cfg.          *)
(***************************************************************************)
EXTENDS HkdfImpl
CONSTANTS NearLo, NearHi
NearEnds == LET p == H * Generated - BufLen(buf) IN p <= NearLo \/ p >= NearHi
=============================================================================
