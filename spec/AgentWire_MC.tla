---------------------------- MODULE AgentWire_MC ----------------------------
(* Bounded instances of AgentWire (X06): request menus and connection layouts. *)
EXTENDS AgentWire

R0(op) == AReq(op, "", "", 0, "none")
AddK(k, c) == AReq("add", k, c, 0, "none")
RemK(k) == AReq("remove", k, "", 0, "none")
SignK(k) == AReq("sign", k, "", 0, "none")
LockP(p) == AReq("lock", "", p, 0, "none")
UnlockP(p) == AReq("unlock", "", p, 0, "none")

\* agent operations that interact through the shared state
MenuAgent == {AddK("k1", "a"), RemK("k1"), R0("list"), SignK("k1"), LockP("p"), UnlockP("p"), R0("removeall")}
\* what a peer that does not speak the protocol properly sends
MenuBad == {R0("unknown"), R0("malformed"), R0("zero"), R0("oversize")}
MenuStub == {R0("ext"), R0("v1list"), R0("v1removeall"), AReq("add", "k1", "a", 0, "confirm")}

MenuQ == {AddK("k1", "a"), RemK("k1"), R0("list"), R0("unknown"), R0("oversize")}
MenuMix == {AddK("k1", "a"), R0("list"), SignK("k1"), R0("malformed"), R0("zero"), R0("oversize")}
MenuLock == {AddK("k1", "a"), R0("list"), SignK("k1"), LockP("p"), UnlockP("p")}
MenuTwoKeys == {AddK("k1", "a"), AddK("k2", "b"), RemK("k1"), R0("list"), R0("removeall")}
MenuQ4 == {AddK("k1", "a"), R0("list"), R0("unknown"), R0("oversize")}
MenuLive == {R0("list"), R0("oversize")}
MenuMix4 == {AddK("k1", "a"), SignK("k1"), R0("malformed"), R0("zero")}
MenuLock4 == {AddK("k1", "a"), R0("list"), LockP("p"), UnlockP("p")}
MenuAll == MenuAgent \cup MenuBad \cup MenuStub
MenuMut == {R0("list"), SignK("k1"), R0("unknown"), R0("oversize")}

\* the agent's own record of its last operation (last, hist) is write-only here: hidden from the fingerprint
View == <<list, akeys, locked, pass, wireVars>>

One == {1}
Two == {1, 2}
Three == {1, 2, 3}
None == {}
Only1 == {1}
Only2 == {2}
=============================================================================
