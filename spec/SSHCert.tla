------------------------------- MODULE SSHCert -------------------------------
(* OpenSSH certificate checking as golang.org/x/crypto/ssh does it
   (ssh/certs.go: CertChecker.Authenticate, CertChecker.CheckHostKey, CertChecker.CheckCert,
    parseCert, bytesForSigning; ssh/server.go: skKeyWithoutUP for the CA signature).

   One state = one received key blob + one checker configuration (variable c, a record of
   field classes).  One action, Check, runs the code-shaped decision procedure: a
   transcription of the three public entry points with the checks in the order of the code
   (Decide).  The property C41 states the accept set as a conjunction (Literal); the
   invariants say how the two relate:

     CodeIsConjunction   Decide accepts iff every clause of the code's own conjunction holds
                         (no order dependence, no clause shadowing another),
     LiteralExceptKnown  Decide = Literal on every state outside the exactly delimited region of
                         non-canonical encodings the parser tolerates (open findings C41-F6a-d), where
                         the direction of the difference is fixed (with FixTime = FALSE, the code before
                         fix 35f0e5b, also outside ValidBefore in [2^63, 2^64-2]: SSHCert_DocTime.cfg),
     TimeIsLiteral       the validity window is decided exactly as the property states it,
     NonCertIsFallback   a plain key is accepted iff a fallback is configured and accepts it.

   Times are indices into the symbolic order
        0: 0   1: now-1   2: now   3: now+1   4: 2^63-1   5: 2^63 (.. 2^64-2)   6: 2^64-1
   The uint64 order is the index order; the int64 view (the code casts) is I64. *)
EXTENDS Integers, Sequences, FiniteSets, TLC

CONSTANT FixTime \* TRUE: CheckCert compares the validity window as uint64 (the code since fix 35f0e5b, finding C41-T1);
                 \* FALSE: the earlier int64 casts with sign guards (documentation only, SSHCert_DocTime.cfg)
CONSTANT Menus   \* set of menus; a menu is a record of sets, one per field, and contributes their product:
  \* uses      subset of {"auth", "host", "cert"}: Authenticate, CheckHostKey, CheckCert called directly
  \* kinds     subset of {"cert", "plain-nil", "plain-ok", "plain-err"}: a certificate, or a plain key with fallback nil/accepting/rejecting
  \* types     subset of {1, 2, 3}: UserCert, HostCert, anything else
  \* auths     subset of {"nil", "trusted", "untrusted"}: authority callback unset / SignatureKey is the trusted CA / is another CA
  \* addrs     subset of BOOLEAN: (host use) the address has a port, so net.SplitHostPort succeeds
  \* plists    set of principal lists (sequences of strings);  reqs: set of requested principals
  \* afters, befores   subsets of 0..6 (symbolic time order above)
  \* crits     set of sets of critical option names ("sa" = source-address; several options per certificate, mixing
  \*           supported and unsupported ones: the check is per option);  supps: set of sets (SupportedCriticalOptions)
  \* revs      subset of {"nil", "no", "yes"}: IsRevoked unset / returns false / returns true
  \* sigs      subset of {"valid", "otherdata", "otherkey", "badformat", "flip"}
  \* encs      set of <<encoding class, bytes the CA signed>> pairs, see EncClasses

VARIABLES c, res, phase
vars == <<c, res, phase>>

Now == 2
Inf == 6
I64(t) == IF t >= 5 THEN t - 11 ELSE t       \* int64 cast: 2^63 -> most negative, 2^64-1 -> -1

(* Encoding classes of the received bytes relative to the canonical encoding of the same
   certificate value.  Tolerated = ParsePublicKey returns the same value as for the
   canonical bytes; the others are rejected by the parser. *)
Tolerated  == {"canon", "keyMpint0", "caMpint0", "optNested"}
Intolerant == {"trailCert", "trailSig", "trailSigKey", "trailPrinc", "trailOpt", "optValTrail"}
EncClasses == Tolerated \cup Intolerant
ParseOK(k) == k.enc \in Tolerated

-----------------------------------------------------------------------------
Acc == [acc |-> TRUE, why |-> "ok"]
Rej(w) == [acc |-> FALSE, why |-> w]

(* what Verify(cert.bytesForSigning(), cert.Signature) yields: the signature is checked over
   the canonical re-encoding of the parsed value, whatever bytes arrived *)
SigCode(k) == k.sig = "valid" /\ (k.enc = "canon" \/ k.over = "canon")
(* what the property demands: the signature covers exactly the bytes received *)
SigOverReceived(k) == k.sig = "valid" /\ (k.enc = "canon" \/ k.over = "received")

InList(p, l) == \E i \in 1..Len(l) : l[i] = p

(* CertChecker.CheckCert, statement by statement *)
CheckCertD(k, principal) ==
  IF k.rev = "yes" THEN Rej("revoked")
  ELSE IF \E o \in k.crit : o # "sa" /\ o \notin k.supp THEN Rej("critical")
  ELSE IF Len(k.plist) > 0 /\ ~InList(principal, k.plist) THEN Rej("principal")
  ELSE IF (IF FixTime THEN Now < k.va                       \* unixNow < 0 || uint64(unixNow) < ValidAfter   (the clock is not negative here)
           ELSE I64(k.va) < 0 \/ Now < I64(k.va)) THEN Rej("notyet")
  ELSE IF k.vb # Inf /\ (IF FixTime THEN Now >= k.vb          \* uint64(unixNow) >= ValidBefore
                        ELSE Now >= I64(k.vb) \/ I64(k.vb) < 0) THEN Rej("expired")
  ELSE IF ~SigCode(k) THEN Rej("signature")
  ELSE Acc

Fallback(k) == CASE k.kind = "plain-nil" -> Rej("notcert")
                 [] k.kind = "plain-ok"  -> Acc
                 [] OTHER                -> Rej("fallback")

(* CertChecker.Authenticate *)
AuthenticateD(k) ==
  IF k.kind # "cert" THEN Fallback(k)
  ELSE IF k.ctype # 1 THEN Rej("type")
  ELSE IF k.auth = "nil" THEN Rej("noauthfn")
  ELSE IF k.auth # "trusted" THEN Rej("authority")
  ELSE CheckCertD(k, k.req)

(* CertChecker.CheckHostKey *)
CheckHostKeyD(k) ==
  IF k.kind # "cert" THEN Fallback(k)
  ELSE IF k.ctype # 2 THEN Rej("type")
  ELSE IF k.auth = "nil" THEN Rej("noauthfn")
  ELSE IF k.auth # "trusted" THEN Rej("authority")
  ELSE IF ~k.addrOK THEN Rej("addr")
  ELSE CheckCertD(k, k.req)

Decide(k) ==
  IF ~ParseOK(k) THEN Rej("parse")            \* ParsePublicKey fails: nothing reaches a checker
  ELSE CASE k.use = "auth" -> AuthenticateD(k)
         [] k.use = "host" -> CheckHostKeyD(k)
         [] OTHER          -> CheckCertD(k, k.req)

-----------------------------------------------------------------------------
(* The clauses of the property *)
TypeRight(k)  == CASE k.use = "auth" -> k.ctype = 1 [] k.use = "host" -> k.ctype = 2 [] OTHER -> TRUE
AuthorityOK(k) == k.use = "cert" \/ k.auth = "trusted"
AddrClause(k) == k.use = "host" => k.addrOK
PrincipalOK(k) == Len(k.plist) = 0 \/ InList(k.req, k.plist)
CritOK(k)     == k.crit \subseteq (k.supp \cup {"sa"})
NotRevoked(k) == k.rev # "yes"
TimeLiteral(k) == k.va <= Now /\ Now < k.vb          \* uint64 comparison; 2^64-1 (infinity) exceeds every clock value
TimeGuarded(k) == k.va <= Now /\ k.va < 5 /\ (k.vb = Inf \/ (Now < k.vb /\ k.vb < 5))

Common(k) == ParseOK(k) /\ k.kind = "cert" /\ TypeRight(k) /\ AuthorityOK(k) /\ AddrClause(k)
             /\ PrincipalOK(k) /\ CritOK(k) /\ NotRevoked(k)
CodeConj(k) == Common(k) /\ (IF FixTime THEN TimeLiteral(k) ELSE TimeGuarded(k)) /\ SigCode(k)
Literal(k)  == Common(k) /\ TimeLiteral(k) /\ SigOverReceived(k)

-----------------------------------------------------------------------------
NoRes == [acc |-> FALSE, why |-> "unset"]

Init == \E m \in Menus :
        \E u \in m.uses, kd \in m.kinds, ct \in m.types, au \in m.auths, ao \in m.addrs, pl \in m.plists, rq \in m.reqs,
           a \in m.afters, b \in m.befores, cr \in m.crits, su \in m.supps, rv \in m.revs, sg \in m.sigs, en \in m.encs :
        /\ (u # "host" => ao)                 \* addrOK only matters to CheckHostKey
        /\ (u = "cert" => kd = "cert")        \* CheckCert takes a *Certificate
        /\ (en[1] = "canon" => en[2] = "canon")
        /\ c = [use |-> u, kind |-> kd, ctype |-> ct, auth |-> au, addrOK |-> ao, plist |-> pl, req |-> rq,
                va |-> a, vb |-> b, crit |-> cr, supp |-> su, rev |-> rv, sig |-> sg, enc |-> en[1], over |-> en[2]]
        /\ res = NoRes /\ phase = "init"

Check == /\ phase = "init"
         /\ res' = Decide(c)
         /\ phase' = "done"
         /\ UNCHANGED c

Next == Check
Spec == Init /\ [][Next]_vars

-----------------------------------------------------------------------------
Done == phase = "done"
IsCert == c.kind = "cert"

CodeIsConjunction == (Done /\ IsCert) => (res.acc <=> CodeConj(c))

InTimeGap == ~FixTime /\ c.vb = 5                         \* (old code only) ValidBefore in [2^63, 2^64-2]
InEncGap  == c.enc # "canon" /\ ParseOK(c)
LiteralExceptKnown == (Done /\ IsCert) =>
   /\ (~InTimeGap /\ ~InEncGap) => (res.acc <=> Literal(c))
   \* time gap alone: the code only ever rejects more than the property
   /\ (InTimeGap /\ ~InEncGap) => (res.acc => Literal(c))
   \* encoding gap alone: accepted iff the CA signed the canonical bytes, the property wants the received bytes
   /\ (InEncGap /\ ~InTimeGap /\ c.sig = "valid") =>
        (res.acc <=> (Common(c) /\ TimeLiteral(c) /\ c.over = "canon"))

NonCertIsFallback == (Done /\ ~IsCert /\ ParseOK(c)) => (res.acc <=> c.kind = "plain-ok")

(* the validity window as the property states it (uint64, 2^64-1 = infinity); fails for FixTime = FALSE: the
   expected counterexample of SSHCert_DocTime.cfg documents the repaired defect C41-T1 *)
TimeIsLiteral == (Done /\ IsCert /\ ~InEncGap) => (res.acc <=> Literal(c))

\* the reported reason is the clause that fails (sanity of the transcription; compared informationally in the binding)
ReasonSound == (Done /\ IsCert /\ ~res.acc) =>
   CASE res.why = "parse"     -> ~ParseOK(c)
     [] res.why = "type"      -> ~TypeRight(c)
     [] res.why \in {"noauthfn", "authority"} -> ~AuthorityOK(c)
     [] res.why = "addr"      -> ~AddrClause(c)
     [] res.why = "revoked"   -> ~NotRevoked(c)
     [] res.why = "critical"  -> ~CritOK(c)
     [] res.why = "principal" -> ~PrincipalOK(c)
     [] res.why \in {"notyet", "expired"} -> ~(IF FixTime THEN TimeLiteral(c) ELSE TimeGuarded(c))
     [] res.why = "signature" -> ~SigCode(c)
     [] OTHER -> FALSE
=============================================================================
