---------------------------- MODULE Blake2Buf_MC ----------------------------
(* Bounded instances of Blake2Buf for C05/C07 (block size scaled to 4, digest sizes to 1..3). *)
EXTENDS Blake2Buf
MC_NSet == 0..9
MC_None == {}
MC_CorruptSizes == 0..5          \* 0, 1, MaxSize-1, MaxSize, MaxSize+1, MaxSize+2  (MaxSize = 3)
MC_CorruptOffsets == 0..6        \* 0 .. B+2  (B = 4)
MC_NSetSmall == {0, 1, 4, 5}
MC_NSetM == {0, 1, 3, 4, 5, 8}
\* the one-shot checkSum path issues exactly RFC 7693's F calls for every length 0..3B+1 (constant-level: evaluated once)
ASSUME OneShotIsDefinition
=============================================================================
