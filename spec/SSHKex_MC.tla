------------------------------ MODULE SSHKex_MC ------------------------------
(* Bounded instances of SSHKex and the generators for binding R (property C29). *)
EXTENDS SSHKex, Json

\* ---- attacker substitutions per method
NumVals == {Val("num", k, "a") : k \in {0 - 1, 0, 1, 2, ModExp(TG, XA, TP), TP - 2, TP - 1, TP, TP + 1}}
ClsVals(S) == {Val(c, 0, "a") : c \in S}
EVals(m) == {Keep} \cup
  CASE m \in {"dh", "gex"} -> NumVals
    [] m = "ecdh"   -> ClsVals({"attacker", "infinity", "offcurve", "xbig", "ybig", "badformat"})
    [] m = "c25519" -> ClsVals({"attacker", "len31", "len33", "zero", "loworder"})
    [] m = "mlkem"  -> ClsVals({"attacker", "ektrunc", "ekext", "ekcoeff", "xzero", "xlow"})
FVals(m) == {Keep} \cup
  CASE m \in {"dh", "gex"} -> NumVals
    [] m = "ecdh"   -> ClsVals({"attacker", "infinity", "offcurve", "xbig", "ybig", "badformat"})
    [] m = "c25519" -> ClsVals({"attacker", "len31", "len33", "zero", "loworder"})
    [] m = "mlkem"  -> ClsVals({"attacker", "cttrunc", "ctext", "ctflip", "xzero", "xlow"})
\* altered requests the attacker may forward: another acceptable one, one with another answer, refused ones
ReqVals == {ClientReq, <<2048, 3072, 8192>>, <<1024, 2048, 4096>>, <<3072, 4096, 4096>>, <<4096, 2048, 2048>>, <<2049, 2500, 3071>>, <<1024, 1024, 2047>>}
\* (TLC evaluates every zero-arity constant definition visible from the root module at start-up: the
\*  plan sets themselves live in SSHKex_MCQ (replayed plans), SSHKex_MCGex (requests), SSHKex_MCAll (product))
Base(m) == [m |-> m, req |-> ClientReq, grp |-> "keep", e |-> Keep, f |-> Keep, ks |-> "keep", sig |-> "keep"]
Slots(m) == IF m = "gex" THEN {"req", "grp", "e", "f", "ks", "sig"} ELSE {"e", "f", "ks", "sig"}
\* the alterations of one slot
SlotVals(m, slot) == CASE slot = "req" -> ReqVals \ {ClientReq}
                       [] slot = "grp" -> GrpMods \ {"keep"}
                       [] slot = "e" -> EVals(m) \ {Keep}
                       [] slot = "f" -> FVals(m) \ {Keep}
                       [] slot = "ks" -> {"attacker", "corrupt"}
                       [] OTHER -> {"flip"}
With(p, slot, v) == [p EXCEPT ![slot] = v]
\* plans with exactly one / exactly two altered slots
Singles(m) == UNION {{With(Base(m), s, v) : v \in SlotVals(m, s)} : s \in Slots(m)}
Pairs(m) == UNION {UNION {{With(With(Base(m), s1, v1), s2, v2) : v1 \in SlotVals(m, s1), v2 \in SlotVals(m, s2)}
                           : s2 \in {s \in Slots(m) : s # s1}} : s1 \in Slots(m)}
\* the full product
Plans(m) == {[m |-> m, req |-> r, grp |-> g, e |-> e, f |-> f, ks |-> k, sig |-> sg] :
               r \in (IF m = "gex" THEN ReqVals ELSE {ClientReq}), g \in (IF m = "gex" THEN GrpMods ELSE {"keep"}),
               e \in EVals(m), f \in FVals(m), k \in {"keep", "attacker", "corrupt"}, sg \in {"keep", "flip"}}

\* ---- DH-GEX requests: the boundary values
Boundary == {0, 1023, 1024, 2047, 2048, 2049, 3071, 3072, 3073, 4095, 4096, 4097, 8191, 8192, 8193, 2147483647}

\* ---- validity predicates on the toy structures (evaluated once)
\* exactly the values 2..p-2 pass the DH bounds; the honest and attacker exponents give valid values
ASSUME {e \in (0 - 1)..(TP + 1) : DHValid(e, TP)} = 2..(TP - 2)
ASSUME \A x \in {XC, XS, XA} : DHValid(ModExp(TG, x, TP), TP)
\* the curve check admits exactly the 18 affine points of the toy curve, all with coordinates below p
ASSUME Cardinality({xy \in (0..(2 * EP)) \X (0..(2 * EP)) : ECValid(xy[1], xy[2])}) = 18
ASSUME \A xy \in (0..(2 * EP)) \X (0..(2 * EP)) : ECValid(xy[1], xy[2]) => (xy[1] < EP /\ xy[2] < EP /\ OnCurve(xy[1], xy[2]))
\* representatives: a point with a coordinate shifted by p still satisfies the curve equation (so the explicit
\* range check is what rejects it), the others fail for the named reason
ASSUME OnCurve(ECRep("xbig")[1], ECRep("xbig")[2]) /\ OnCurve(ECRep("ybig")[1], ECRep("ybig")[2])
ASSUME ~OnCurve(ECRep("offcurve")[1], ECRep("offcurve")[2]) /\ ECValid(5, 1) /\ ECValid(6, 3)

\* ---- preimage: synthetic field values, encoded by TLC (validates the harness's encoder and field walk)
StrVals == << <<>>, <<0>>, <<1, 2, 3>>, <<255>>, <<115, 115, 104, 45>> >>
MpVals == << BigZero, BigInt(FALSE, <<1>>), BigInt(FALSE, <<127>>), BigInt(FALSE, <<128>>), BigInt(FALSE, <<255, 255>>),
             BigInt(FALSE, <<1, 0>>), BigInt(FALSE, <<128, 0, 0, 0, 0, 0, 0, 1>>) >>
U32Vals == << <<0, 0>>, <<0, 2048>>, <<65535, 65535>>, <<32767, 65535>>, <<1, 0>> >>
Pick(enc, k) == CASE enc = "string" -> StrVals[(k % Len(StrVals)) + 1]
                  [] enc = "mpint" -> MpVals[(k % Len(MpVals)) + 1]
                  [] OTHER -> U32Vals[(k % Len(U32Vals)) + 1]
FieldNames(m) == {FieldSpec(m)[i].name : i \in 1..Len(FieldSpec(m))}
IndexOf(m, nm) == CHOOSE i \in 1..Len(FieldSpec(m)) : FieldSpec(m)[i].name = nm
Valuation(m, k) == [nm \in FieldNames(m) |-> Pick(FieldSpec(m)[IndexOf(m, nm)].enc, k + 3 * IndexOf(m, nm) + (k \div 5) * IndexOf(m, nm))]
NPre == 15
PreimageRoundTrip == \A m \in Methods, k \in 0..(NPre - 1) :
   LET v == Valuation(m, k)
       d == DecodePreimage(m, Preimage(m, v)) IN d.ok /\ d.vals = v
ASSUME PreimageRoundTrip
\* RFC 8731 3.1: leading zero octets of the X25519 output disappear, a set top bit gets a 00 octet in the mpint
ASSUME EncMpint(KOfX25519(<<0, 0, 5>>)) = <<0, 0, 0, 1, 5>> /\ EncMpint(KOfX25519(<<200, 1>>)) = <<0, 0, 0, 3, 0, 200, 1>>

\* (a zero-arity constant definition: TLC evaluates it once at start-up, which prints the records)
\* ---- K shapes: representatives of every shape (and a few more), their expected encodings per method
KReps == { <<18, 52, 86, 120, 1>>, <<127, 255, 0, 0, 9>>,                                  \* ord
           <<128, 0, 0, 0, 1>>, <<200, 1, 2, 3, 4>>, <<255, 255, 255, 255, 255>>,            \* hi
           <<0, 34, 80, 114, 7>>, <<0, 127, 255, 3, 4>>, <<0, 1, 0, 0, 0>>,                  \* lz
           <<0, 128, 1, 2, 3>>, <<0, 200, 1, 2, 3>>, <<0, 255, 255, 255, 255>>,              \* lzhi
           <<0, 0, 5, 6, 7>>, <<0, 0, 200, 1, 2>>, <<0, 0, 0, 130, 1>>, <<0, 0, 0, 0, 1>> } \* lz2
ASSUME {ShapeOf(r) : r \in KReps} = KShapes
ASSUME \A m \in Methods, r \in KReps : KEncodingOK(m, r)
\* every width-3 secret (except zero, which every method refuses) for one mpint method and the string method
ASSUME \A a \in {0, 1, 127, 128, 255}, b \in {0, 1, 127, 128, 255}, c \in {0, 1, 128} :
         (a + b + c > 0) => (KEncodingOK("c25519", <<a, b, c>>) /\ KEncodingOK("mlkem", <<a, b, c>>))
EmitKShapes == \A m \in Methods, r \in KReps :
   PrintT("TRACE " \o ToJson([kshape |-> ShapeOf(r), m |-> m, kenc |-> KEnc(m), raw |-> r, enc |-> EncK(m, r)]))

EmitPreimages == \A m \in Methods, k \in 0..(NPre - 1) :
   PrintT("TRACE " \o ToJson([pre |-> m, spec |-> FieldSpec(m), vals |-> Valuation(m, k), bytes |-> Preimage(m, Valuation(m, k))]))

\* ---- generator: one record per finished exchange
Emit == End => PrintT("TRACE " \o ToJson([plan |-> plan, cOut |-> cOut, sOut |-> sOut, agree |-> cView = sView,
                                          grp |-> sGrp.bits, untouched |-> Untouched,
                                          choose |-> ChooseDHD(plan.req[1], plan.req[2], plan.req[3])]))
=============================================================================
