----------------------------- MODULE AgentWireSrv -----------------------------
(* X06 (growth), binding E+R, server direction -- ServeAgent as a function from the octets it reads to
   the octets it writes.

   A SESSION is a sequence of raw frames written to one connection of an agent that starts empty and
   unlocked.  A raw frame is  hdr (4 octets) ++ body ++ pad zero octets; the menu holds every request the
   client can produce for the pool keys (built with the encoders of AgentWireCodec), requests only other
   peers produce (protocol 1, smartcard, unknown numbers), malformed bodies, and bad framing (declared
   length 0, MaxMsg + 1, 2^32 - 1, exactly MaxMsg, a frame cut short).  For each session the model
   computes what ServeAgent must have written when it returns:

     * declared length 0 or > MaxMsg: the loop ends, nothing is written for this frame or any later one;
     * fewer octets than declared (end of stream): the loop ends, nothing written;
     * otherwise the body is read by ParseReq (the dispatch table), turned into an abstract request and
       served by the agent of C43 in one step (AgentWireServe!Serve); exactly one reply is appended:
       failure / success / identities answer (entries in keyring order) / sign response / protocol 1 stub.

   The harness feeds the same octets to the real ServeAgent over an in-memory stream with a fresh
   NewKeyring and compares the octets written (identities answers additionally as multisets of entries;
   signatures are verified under the key since TLC does not compute them).  *)
EXTENDS AgentWireServe, AgentWireCodec, Json

CONSTANTS MaxMsg,       \* 16777216 (maxAgentResponseBytes, which ServeAgent also applies to requests)
          GenKeys,      \* pool keys used in the menu
          MaxFrames,    \* session length
          AfterEnd      \* frames fed after the loop has ended (they must stay unanswered)

VARIABLES inp,          \* names of the frames fed so far
          outp,         \* expected replies so far
          dead,         \* "no" | "exit" (bad declared length) | "eof" (stream ended inside a frame)
          extra         \* frames fed after the end
svars == <<agentVars, inp, outp, dead, extra>>

\* ---- the menu of raw frames
Item(name, hdr, body, pad) == [name |-> name, hdr |-> hdr, body |-> body, pad |-> pad]
Good(name, body) == Item(name, EncLen(Len(body)), body, 0)
ForeignBlob == EncString(<<120, 45, 116>>) \o <<1, 2, 3>>
CutAt(bs, n) == SubSeq(bs, 1, n)

KeyItems(k) ==
  { Good("add:" \o k, ReqAdd(k, B("a"), <<>>)),
    Good("readd:" \o k, ReqAdd(k, B("b"), <<>>)),
    Good("add-life:" \o k, ReqAdd(k, B("a"), Constraints(3600, FALSE, <<>>))),
    Good("add-confirm:" \o k, ReqAdd(k, B("a"), Constraints(0, TRUE, <<>>))),
    Good("add-ext:" \o k, ReqAdd(k, B("a"), Constraints(60, FALSE, << <<B("x"), <<1, 2, 3>> >> >>))),
    Good("add-extv00:" \o k, ReqAdd(k, B("a"), <<ConstrainExtensionV00>> \o EncString(B("x")) \o EncString(<<>>))),
    Good("add-badcons:" \o k, ReqAdd(k, B("a"), <<9, 0, 0, 0, 1>>)),
    Good("add-cutlife:" \o k, ReqAdd(k, B("a"), <<ConstrainLifetime, 0, 0>>)),
    Good("add-cut:" \o k, CutAt(ReqAdd(k, B("a"), <<>>), Len(ReqAdd(k, B("a"), <<>>)) - 3)),
    Good("add-as17-life:" \o k, <<MsgAddIdentity>> \o Tail(ReqAdd(k, B("a"), Constraints(3600, FALSE, <<>>)))),
    Good("remove:" \o k, ReqRemove(Blob(k))),
    Good("remove-trail:" \o k, ReqRemove(Blob(k)) \o <<0>>),
    Good("sign:" \o k, ReqSign(Blob(k), B("d"), 0)),
    Good("sign-cut:" \o k, CutAt(ReqSign(Blob(k), B("d"), 0), Len(ReqSign(Blob(k), B("d"), 0)) - 1)),
    Good("sign-flag1:" \o k, ReqSign(Blob(k), B("d"), 1)) }
  \cup (IF KeyMat[k].kind \in {"rsa", "rsa-cert"}
        THEN { Good("sign256:" \o k, ReqSign(Blob(k), B("d"), 2)), Good("sign512:" \o k, ReqSign(Blob(k), B("d"), 4)),
               Good("sign-flag6:" \o k, ReqSign(Blob(k), B("d"), 6)) }
        ELSE {})

PlainItems ==
  { Good("list", ReqList), Good("list-trail", ReqList \o <<1, 2, 3>>),
    Good("removeall", ReqRemoveAll),
    Good("lock:p", ReqLock(B("p"))), Good("unlock:p", ReqUnlock(B("p"))), Good("unlock:q", ReqUnlock(B("q"))),
    Good("lock:e", ReqLock(B("e"))), Good("unlock:e", ReqUnlock(B("e"))),
    Good("lock-cut", <<MsgLock, 0, 0, 0, 5, 112>>), Good("unlock-bare", <<MsgUnlock>>),
    Good("ext", ReqExtension(<<113, 64, 118>>, <<9, 9>>)),
    Good("ext-session-bind", ReqExtension(<<115, 101, 115, 115, 105, 111, 110, 45, 98, 105, 110, 100, 64, 111, 112, 101, 110, 115, 115, 104, 46, 99, 111, 109>>, <<0, 0, 0, 0>>)),
    Good("ext-cut", <<MsgExtension, 0, 0>>),
    Good("v1list", <<MsgV1RequestIdentities>>), Good("v1removeall", <<MsgV1RemoveAll>>),
    Good("remove-foreign", ReqRemove(ForeignBlob)), Good("sign-foreign", ReqSign(ForeignBlob, B("d"), 0)),
    Good("remove-noblob", ReqRemove(<<1, 2>>)),
    Good("add-unknown-type", <<MsgAddIdentity>> \o EncString(<<110, 111, 112, 101>>) \o EncString(<<1>>) \o EncString(<<>>)),
    Good("add-bare", <<MsgAddIdConstrained>>) }
  \cup { Good("type:" \o ToString(t), <<t>>) : t \in {0, 2, 3, 5, 6, 12, 14, 20, 21, 24, 26, 28, 99, 255} }
  \cup { Good("type99-body", <<99, 1, 2, 3, 4>>) }

FrameItems ==
  { Item("zero", <<0, 0, 0, 0>>, <<>>, 0),
    \* (what follows a bad header is a well-formed request: a server that read on would answer it)
    Item("oversize", EncLen(MaxMsg + 1), Frame(ReqList), 0),
    Item("huge", <<255, 255, 255, 255>>, Frame(ReqList), 0),
    Item("oversize-complete", EncLen(MaxMsg + 1), <<99>>, MaxMsg),           \* every declared octet is there
    Item("exactmax", EncLen(MaxMsg), <<99>>, MaxMsg - 1),
    Item("cut-frame", EncLen(10), <<MsgRequestIdentities, 0, 0>>, 0),
    Item("cut-header", <<0, 0>>, <<>>, 0) }

Menu == UNION {KeyItems(k) : k \in GenKeys} \cup PlainItems \cup FrameItems
ItemByName == [n \in {m.name : m \in Menu} |-> CHOOSE m \in Menu : m.name = n]

\* ---- from the parsed body to the abstract request of AgentWireServe
Abs(pr) ==
  CASE pr.op = "remove" -> IF KeyOfBlob(pr.blob) # "" THEN AReq("remove", KeyOfBlob(pr.blob), "", 0, "none")
                           ELSE AReq("foreign", "", "", 0, "none")
    [] pr.op = "sign" -> IF KeyOfBlob(pr.blob) # "" THEN AReq("sign", KeyOfBlob(pr.blob), LabelOf(pr.data), pr.n, "none")
                         ELSE AReq("foreign", "", "", 0, "none")
    [] pr.op \in {"lock", "unlock"} -> AReq(pr.op, "", LabelOf(pr.s), 0, "none")
    [] pr.op = "add" -> IF KeyOfVals(pr.kind, pr.vals) = "" THEN AReq("foreign", "", "", 0, "none")
                        ELSE AReq("add", KeyOfVals(pr.kind, pr.vals), LabelOf(pr.s), pr.n,
                                  IF pr.confirm THEN "confirm" ELSE IF pr.exts > 0 THEN "ext" ELSE "none")
    [] OTHER -> AReq(pr.op, "", "", 0, "none")

\* ---- the expected reply, in a form the harness can compare: literal octets, or an identities answer as
\* the sequence of its entries (keyring order), or a signature to be verified
Lit(bs) == [t |-> "lit", b |-> bs, e |-> <<>>, k |-> "", fmt |-> <<>>, data |-> <<>>]
Expected(r, rep, lst) ==
  CASE rep.t = "failure" -> Lit(RepFailure)
    [] rep.t = "success" -> Lit(RepSuccess)
    [] rep.t = "v1ids" -> Lit(RepV1Identities)
    [] rep.t = "ids" -> [Lit(<<>>) EXCEPT !.t = "ids",
                         !.e = IF rep.ks = {} THEN <<>> ELSE [i \in 1..Len(lst) |-> lst[i].k \o "|" \o lst[i].c]]
    [] rep.t = "sig" -> [Lit(<<>>) EXCEPT !.t = "sig", !.k = r.k, !.data = LabelBytes[r.c],
                         !.fmt = CASE rep.f = "rsa-sha2-256" -> FmtRsa256 [] rep.f = "rsa-sha2-512" -> FmtRsa512
                                   [] OTHER -> KeyMat[r.k].sigfmt]

SInit == A!Init /\ inp = <<>> /\ outp = <<>> /\ dead = "no" /\ extra = 0

\* what ServeAgent makes of each menu frame (evaluated once): "exit" | "eof" | "serve", and the abstract request
MenuNames == {m.name : m \in Menu}
ClassOf == [n \in MenuNames |->
              LET m == ItemByName[n] IN
              IF Len(m.hdr) < 4 THEN "eof"
              ELSE IF HdrHuge(m.hdr) \/ HdrLen(m.hdr) = 0 \/ HdrLen(m.hdr) > MaxMsg THEN "exit"
              ELSE IF Len(m.body) + m.pad < HdrLen(m.hdr) THEN "eof"
              ELSE "serve"]
AbsOf == [n \in MenuNames |-> IF ClassOf[n] = "serve" THEN Abs(ParseReq(ItemByName[n].body)) ELSE AReq("none", "", "", 0, "none")]

Feed(n) ==
  /\ Len(inp) < MaxFrames
  /\ inp' = Append(inp, n)
  /\ IF dead # "no"
     THEN /\ dead = "exit" /\ extra < AfterEnd /\ n = "list"               \* never read, never answered
          /\ extra' = extra + 1
          /\ UNCHANGED <<agentVars, outp, dead>>
     ELSE /\ UNCHANGED extra
          /\ IF ClassOf[n] # "serve"
             THEN dead' = ClassOf[n] /\ UNCHANGED <<agentVars, outp>>
             ELSE /\ Serve(AbsOf[n])
                  /\ outp' = Append(outp, Expected(AbsOf[n], ReplyFor(AbsOf[n], last'), list'))
                  /\ UNCHANGED dead
SNext == \E n \in MenuNames : Feed(n)
SSpec == SInit /\ [][SNext]_svars

\* ---- the menu is what the model can predict: frames carry exactly the declared octets (or fewer: cut),
\* padded frames are decided by their first octet alone, no foreign key material
MenuOK == \A m \in Menu :
            /\ Len(m.hdr) = 4 /\ ~HdrHuge(m.hdr) => Len(m.body) + m.pad <= HdrLen(m.hdr) \/ HdrLen(m.hdr) > MaxMsg
            /\ m.pad > 0 => ParseReq(m.body).op = "unknown"
            /\ (Len(m.hdr) = 4 /\ m.body # <<>> /\ ParseReq(m.body).op = "add") => KeyOfVals(ParseReq(m.body).kind, ParseReq(m.body).vals) # ""
ASSUME MenuOK

\* ---- properties of the function (checked by TLC on every session)
\* exactly one reply per request served, none after the end
OneReplyEach == Len(outp) = Len(inp) - extra - (IF dead = "no" THEN 0 ELSE 1)
\* the client's requests are read back as what they are (codec round trip through the server's parser)
RoundTrip == \A k \in GenKeys :
               /\ Abs(ParseReq(ReqAdd(k, B("a"), Constraints(3600, FALSE, <<>>)))) = AReq("add", k, "a", 3600, "none")
               /\ Abs(ParseReq(ReqAdd(k, B("b"), Constraints(0, TRUE, <<>>)))) = AReq("add", k, "b", 0, "confirm")
               /\ Abs(ParseReq(ReqRemove(Blob(k)))) = AReq("remove", k, "", 0, "none")
               /\ Abs(ParseReq(ReqSign(Blob(k), B("d"), 4))) = AReq("sign", k, "d", 4, "none")
\* a request the dispatch table rejects never changes the agent
RejectKeepsAgent == [][\A n \in MenuNames : (inp' = Append(inp, n) /\ dead = "no" /\ AbsOf[n].op \in {"unknown", "malformed", "foreign"})
                                            => <<list, akeys, locked, pass>>' = <<list, akeys, locked, pass>>]_svars

\* ---- generator
Session == [inp |-> inp, out |-> outp, dead |-> dead]
Emit == PrintT("TRACE " \o ToJson(Session))
EmitTable == (inp = <<>>) =>
  PrintT("TRACE " \o ToJson([table |-> Menu, maxmsg |-> MaxMsg,
                             entries |-> {[name |-> kc[1] \o "|" \o kc[2], b |-> IdEntry(Blob(kc[1]), B(kc[2]))] : kc \in GenKeys \X {"a", "b"}}]))
WitnessView == <<list, akeys, locked, pass, dead, extra, IF inp = <<>> THEN "" ELSE inp[Len(inp)]>>
=============================================================================
