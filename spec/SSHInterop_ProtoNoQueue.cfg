SPECIFICATION Spec
CONSTANTS
  NData = 2
  MaxRekeyS = 1
  MaxRekeyC = 1
  Methods = {"one"}
  ExtInfo = TRUE
  GoQueues = FALSE
INVARIANTS K1Out
CHECK_DEADLOCK FALSE
