------------------------------ MODULE SSHCert_MC ------------------------------
(* Bounded instances of SSHCert and the case generator for binding R. *)
EXTENDS SSHCert, Json

AllUses   == {"auth", "host", "cert"}
AuthHost  == {"auth", "host"}
AllKinds  == {"cert", "plain-nil", "plain-ok", "plain-err"}
CertOnly  == {"cert"}
PlainKinds == {"plain-nil", "plain-ok", "plain-err"}
AllTypes  == {1, 2, 3}
UserHost  == {1, 2}
AllAuths  == {"nil", "trusted", "untrusted"}
AllPLists == {<<>>, <<"p">>, <<"q">>, <<"q", "p">>, <<"">>}
SomePLists == {<<>>, <<"p">>, <<"q">>, <<"q", "p">>}
PL3       == {<<>>, <<"p">>, <<"q">>}
PL2       == {<<>>, <<"q">>}
AllReqs   == {"p", ""}
Times     == 0..6
\* critical option names: "fc", "fd" can be configured as supported, "zz", "zy" never are, "sa" = source-address
AllCrits  == SUBSET {"fc", "fd", "sa", "zz"} \cup {{"zz", "zy"}, {"fc", "zz", "zy"}}
\* none / one option / mixes of supported and unsupported ones (two and three options)
SomeCrits == {{}, {"fc"}, {"sa"}, {"zz"}, {"fc", "zz"}, {"fc", "fd"}, {"fc", "fd", "zz"}, {"sa", "zz"}, {"fc", "sa"}}
MixCrits  == {{}, {"fc"}, {"zz"}, {"fc", "zz"}, {"fc", "fd", "zz"}}
AllSupps  == {{}, {"fc"}, {"fc", "fd"}}
FullCrits == SUBSET {"fc", "sa", "zz"}          \* crossed with every other field in the big products
FullSupps == {{}, {"fc"}}
AllRevs   == {"nil", "no", "yes"}
AllSigs   == {"valid", "otherdata", "otherkey", "badformat", "flip"}
SomeSigs  == {"valid", "otherdata", "otherkey"}
Sig2      == {"valid", "otherdata"}
Canon     == {<<"canon", "canon">>}
AllEncs   == Canon \cup {<<e, o>> : e \in (Tolerated \ {"canon"}), o \in {"canon", "received"}}
                   \cup {<<e, "canon">> : e \in Intolerant}

Menu(u, k, t, au, ad, pl, rq, a, b, cr, su, rv, sg, en) ==
  [uses |-> u, kinds |-> k, types |-> t, auths |-> au, addrs |-> ad, plists |-> pl, reqs |-> rq, afters |-> a, befores |-> b,
   crits |-> cr, supps |-> su, revs |-> rv, sigs |-> sg, encs |-> en]

\* ---- exhaustive model checking
\* every field, canonical encoding: the full product
MFull  == Menu(AllUses, AllKinds, AllTypes, AllAuths, BOOLEAN, AllPLists, {"p"}, Times, Times, FullCrits, FullSupps, AllRevs, AllSigs, Canon)
\* the empty requested principal against every list, on a reduced product of the other fields
MFullE == Menu(AllUses, CertOnly, AllTypes, AllAuths, BOOLEAN, AllPLists, {""}, Times, Times, {{}, {"fc"}, {"sa"}, {"zz"}}, FullSupps, {"nil", "yes"}, SomeSigs, Canon)
\* encoding classes x (almost) everything
MEnc   == Menu(AllUses, CertOnly, AllTypes, AllAuths, BOOLEAN, PL3, {"p"}, Times, Times, {{}, {"fc"}, {"sa"}, {"zz"}}, FullSupps, AllRevs, SomeSigs, AllEncs)
\* quick tier: the time grid x most fields; plain keys; encoding classes on a reduced product
MQuickA == Menu(AllUses, CertOnly, AllTypes, AllAuths, BOOLEAN, PL2, {"p"}, Times, Times, {{}, {"fc", "zz"}}, {{}, {"fc"}}, {"nil", "yes"}, Sig2, Canon)
\* the option-set dimension in full against the supported sets
MQuickD == Menu(AllUses, CertOnly, UserHost, {"trusted"}, {TRUE}, PL2, {"p"}, {1, 3}, {3, 6}, AllCrits, AllSupps, {"nil", "yes"}, Sig2, Canon)
MQuickB == Menu(AuthHost, AllKinds, AllTypes, AllAuths, BOOLEAN, PL2, {"p"}, {1, 3}, {3, 5, 6}, {{}, {"zz"}}, {{}}, {"nil", "yes"}, Sig2, Canon)
MQuickC == Menu(AllUses, CertOnly, UserHost, {"trusted", "untrusted"}, {TRUE}, PL2, {"p"}, {1, 3}, {3, 5, 6}, {{}, {"zz"}}, {{}}, {"nil", "yes"}, Sig2, AllEncs)
MenusFull  == {MFull, MFullE, MQuickD}
MenusEnc   == {MEnc}
MenusQuick == {MQuickA, MQuickB, MQuickC, MQuickD}

\* ---- generators (binding R)
GTime    == Menu(AllUses, CertOnly, UserHost, {"trusted"}, {TRUE}, PL2, {"p"}, Times, Times, {{}}, {{}}, {"nil", "yes"}, Sig2, Canon)
GFieldsQ == Menu(AllUses, CertOnly, AllTypes, AllAuths, BOOLEAN, SomePLists, {"p"}, {1}, {3}, MixCrits, {{}, {"fc"}}, {"nil", "yes"}, SomeSigs, Canon)
GCritQ   == Menu(AllUses, CertOnly, UserHost, {"trusted"}, {TRUE}, {<<>>}, {"p"}, {1}, {3, 6}, AllCrits, AllSupps, {"nil"}, {"valid"}, Canon)
GFieldsT == Menu(AllUses, CertOnly, AllTypes, AllAuths, BOOLEAN, AllPLists, AllReqs, {1}, {3, 5}, FullCrits, FullSupps, AllRevs, AllSigs, Canon)
GNonCert == Menu(AuthHost, PlainKinds, UserHost, {"trusted", "untrusted"}, BOOLEAN, {<<>>}, AllReqs, {1}, {3}, {{}}, {{}}, {"nil"}, {"valid"}, Canon)
GEncQ    == Menu(AllUses, CertOnly, UserHost, {"trusted"}, {TRUE}, PL2, {"p"}, {1, 3}, {3, 5, 6}, {{}}, {{}}, {"nil"}, Sig2, AllEncs)
GEncT    == Menu(AllUses, CertOnly, UserHost, {"trusted", "untrusted"}, {TRUE}, PL2, {"p"}, {1, 3}, {3, 5, 6}, {{}, {"zz"}}, {{}}, {"nil", "yes"}, SomeSigs, AllEncs)
MenusGenQ == {GTime, GFieldsQ, GCritQ, GNonCert, GEncQ}
MenusGenT == {GTime, GFieldsT, GCritQ, GNonCert, GEncT}

Emit == Done => PrintT("TRACE " \o ToJson([c |-> c, acc |-> res.acc, why |-> res.why, lit |-> Literal(c)]))
=============================================================================
