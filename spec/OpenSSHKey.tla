------------------------------ MODULE OpenSSHKey ------------------------------
(* OpenSSH private key files ("OPENSSH PRIVATE KEY", PROTOCOL.key) as golang.org/x/crypto/ssh reads them
   (ssh/keys.go: ParseRawPrivateKey, ParseRawPrivateKeyWithPassphrase, parseOpenSSHPrivateKey,
    unencryptedOpenSSHKey, passphraseProtectedOpenSSHKey, checkOpenSSHKeyPadding; written by
    MarshalPrivateKey(WithPassphrase) / marshalOpenSSHPrivateKey or by ssh-keygen).

   container:  magic, cipher, kdf, kdfopts, nkeys, pub, enc( check1, check2, keytype, <type fields>, comment, pad 1,2,3.. ), [trailing]

   One state = one file (writer, key type, cipher), one corruption class applied to it, and one way of
   calling the parser (no passphrase / right passphrase / wrong passphrase).  Action Parse runs the
   code-shaped decision procedure (Decide, checks in the order of the code).  The property C39 is the
   set of invariants at the end; where the code deliberately or accidentally deviates, the deviation is
   delimited exactly (Gaps; empty since fix 189504f). *)
EXTENDS Integers, Sequences, FiniteSets, TLC

CONSTANT FixConsistency \* TRUE: the envelope's public key and Ed25519's redundant halves are checked (the code since fix 189504f,
                        \* findings C39-K1..K4); FALSE: the earlier parser that looked at neither (documentation only, OpenSSHKey_Doc.cfg)
CONSTANT Menus   \* set of records [src, kt, enc, mode, corr] of sets

KeyTypes == {"rsa", "ecdsa256", "ecdsa384", "ecdsa521", "ed25519", "dsa"}
Handled  == KeyTypes \ {"dsa"}          \* key types parseOpenSSHPrivateKey has a case for
ECDSA    == {"ecdsa256", "ecdsa384", "ecdsa521"}

(* corruption classes *)
Container == {"magic", "truncated", "nkeys0", "nkeys2", "kdfUnknown", "cipherUnknown", "kdfoptsJunk", "roundsHuge",
              "outerPubOther", "outerPubGarbage", "trailing"}
InnerAny  == {"check", "keytypeUnknown", "padWrongByte", "padOrder", "padLong", "commentChanged"}
InnerRSA  == {"nMismatch", "dMismatch", "eMismatch", "iqmpWrong", "pqSwapped"}
InnerEC   == {"pointMismatch", "dOutOfRange",
              "pointNegated",       \* the public point replaced by its negation (X, p-Y) in the envelope AND the private section: same X
              "pointNegatedInner",  \* ... in the private section only
              "pointShareY"}        \* ... by another curve point with the same Y (both copies), where one exists
InnerEd   == {"pubFieldOther", "seedMismatch", "privPubHalfOther", "privShort"}
AllCorr   == {"none"} \cup Container \cup InnerAny \cup InnerRSA \cup InnerEC \cup InnerEd
Applies(corr, kt) == /\ (corr \in InnerRSA => kt = "rsa")
                     /\ (corr \in InnerEC => kt \in ECDSA)
                     /\ (corr \in InnerEd => kt = "ed25519")
(* classes after which the file is still a faithful description of one key pair *)
Consistent == {"none", "commentChanged"}
(* classes that make the file redundant-inconsistent or non-canonical without touching the key that is read
   (Ed25519's separate public field; RSA's iqmp, which is recomputed; p and q exchanged; a longer 1,2,3.. padding;
   bytes after the container): accepting or rejecting are both in line with the property, an accepted key must still
   be consistent *)
Harmless == {"pubFieldOther", "iqmpWrong", "pqSwapped", "padLong", "trailing"}
(* classes the parser before fix 189504f accepted although the accepted key contradicts the file (C39-K1..K4) *)
OldGaps(kt) == {"outerPubOther", "outerPubGarbage"} \cup (IF kt = "ed25519" THEN {"seedMismatch", "privPubHalfOther"} ELSE {})
Gaps(kt) == IF FixConsistency THEN {} ELSE OldGaps(kt)

VARIABLES f, res, phase
vars == <<f, res, phase>>

Encrypted(x) == x.enc # "none"
(* what the file's header says after the corruption *)
KdfName(x)    == IF x.corr = "kdfUnknown" THEN "other" ELSE IF Encrypted(x) THEN "bcrypt" ELSE "none"
CipherName(x) == IF x.corr = "cipherUnknown" THEN "other" ELSE x.enc

(* results: "key" | "badpass" (x509.IncorrectPasswordError) | "needpass" (a PassphraseMissingError) | "err" *)
DecryptD(x) ==      \* "ok" or a result
  IF x.mode = "nopass"
  THEN IF KdfName(x) # "none" \/ CipherName(x) # "none"
       THEN (IF x.corr = "outerPubGarbage" THEN "err" ELSE "needpass")
       ELSE IF x.corr = "kdfoptsJunk" THEN "err" ELSE "ok"
  ELSE IF KdfName(x) = "none" \/ CipherName(x) = "none" THEN "err"         \* "key is not password protected"
       ELSE IF KdfName(x) # "bcrypt" THEN "err"
       ELSE IF x.corr \in {"kdfoptsJunk", "roundsHuge"} THEN "err"
       ELSE IF CipherName(x) \notin {"ctr", "cbc"} THEN "err"
       ELSE "ok"

TypeD(x) ==
  IF x.corr = "keytypeUnknown" \/ x.kt \notin Handled THEN "err"
  ELSE IF x.corr \in {"padWrongByte", "padOrder", "privShort"} THEN "err"
  ELSE IF x.corr \in {"nMismatch", "dMismatch", "eMismatch", "pointMismatch", "dOutOfRange",
                      "pointNegated", "pointNegatedInner", "pointShareY"} THEN "err"     \* the point must equal D*G in both coordinates
  ELSE IF FixConsistency /\ x.corr \in {"pubFieldOther", "seedMismatch", "privPubHalfOther"} THEN "err"   \* Ed25519: seed, public half and public field agree
  ELSE IF FixConsistency /\ x.corr \in {"outerPubOther", "outerPubGarbage"} THEN "err"                   \* the envelope's public key is the key's public key
  ELSE "key"          \* (FixConsistency = FALSE: nothing else was looked at)

Decide(x) ==
  IF x.corr \in {"magic", "truncated"} THEN "err"
  ELSE IF x.corr \in {"nkeys0", "nkeys2"} THEN "err"
  ELSE LET d == DecryptD(x) IN
    IF d # "ok" THEN d
    ELSE IF x.mode = "wrong" \/ x.corr = "check"
         THEN (IF CipherName(x) # "none" THEN "badpass" ELSE "err")
    ELSE TypeD(x)

-----------------------------------------------------------------------------
Init == /\ \E mn \in Menus : \E s \in mn.src, k \in mn.kt, e \in mn.enc, md \in mn.mode, c \in mn.corr :
             /\ Applies(c, k)
             /\ (s = "go" => k # "dsa" /\ e # "cbc")            \* MarshalPrivateKey has no DSA case and always writes aes256-ctr
             /\ (c = "roundsHuge" => e # "none")
             /\ f = [src |-> s, kt |-> k, enc |-> e, mode |-> md, corr |-> c]
        /\ res = "unset" /\ phase = "init"
Parse == /\ phase = "init" /\ res' = Decide(f) /\ phase' = "done" /\ UNCHANGED f
Next == Parse
Spec == Init /\ [][Next]_vars

-----------------------------------------------------------------------------
Done == phase = "done"
RightMode == (f.mode = "nopass" /\ ~Encrypted(f)) \/ (f.mode = "right" /\ Encrypted(f))

(* every file of a handled key type parses when asked the right way *)
PristineParses == (Done /\ f.corr = "none" /\ f.kt \in Handled /\ RightMode) => res = "key"
(* a wrong passphrase yields IncorrectPasswordError *)
WrongPassphrase == (Done /\ f.mode = "wrong" /\ Encrypted(f) /\ f.corr \notin (Container \ {"outerPubOther", "outerPubGarbage", "trailing"})) => res = "badpass"
(* an encrypted file read without a passphrase asks for one (the private section is never looked at) *)
MissingPassphrase == (Done /\ f.mode = "nopass" /\ Encrypted(f) /\ f.corr \notin Container) => res = "needpass"
(* what is accepted is consistent -- except exactly the listed gaps *)
AcceptOnlyConsistentOrGap == (Done /\ res = "key") => (f.corr \in Consistent \cup Harmless \/ f.corr \in Gaps(f.kt))
(* the property as stated; with FixConsistency = FALSE it fails: the expected counterexample of OpenSSHKey_Doc.cfg
   documents the repaired defects C39-K1..K4 *)
AcceptOnlyConsistent == (Done /\ res = "key") => f.corr \in Consistent \cup Harmless
(* the property's expectation for binding R: "key" | "badpass" | "needpass" | "reject" | "any" *)
Want(x) == LET right == (x.mode = "nopass" /\ ~Encrypted(x)) \/ (x.mode = "right" /\ Encrypted(x)) IN
           IF x.corr \in Consistent /\ right THEN "key"
           ELSE IF x.corr \in Harmless /\ right THEN "any"
           ELSE IF Decide(x) \in {"key", "err"} THEN "reject" ELSE Decide(x)
=============================================================================
