SPECIFICATION Spec
CONSTANTS
  Menus <- MenusGenT
  FixTime = TRUE
INVARIANTS Emit
CHECK_DEADLOCK FALSE
