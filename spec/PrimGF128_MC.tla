--------------------------- MODULE PrimGF128_MC ---------------------------
(***************************************************************************)
(* C13: the two definitions of multiplication by alpha in GF(2^128)        *)
(* (PrimGF128!GFMul2, polynomial; GFMul2Carry, the byte carry chain that   *)
(* xts.go mul2 implements) agree on: every monomial x^e (e in 0..127),     *)
(* every x^127 + x^e, byte-boundary patterns, and patterned strings; and   *)
(* GFMul2Carry is additive (xor-linear) on patterned pairs, so agreement   *)
(* on the monomial basis extends to all of GF(2^128).  Also the orbit      *)
(* check alpha^128 = x^7+x^2+x+1 by 128 carry-chain doublings.             *)
(***************************************************************************)
EXTENDS PrimWords, PrimGF128, TLC
CONSTANTS Seeds
VARIABLES c

Mono(e) == Force([i \in 1..16 |-> IF i = (e \div 8) + 1 THEN 2 ^ (e % 8) ELSE 0])
Init == c = [t |-> "root"]
Items == {[t |-> "mono", e |-> e] : e \in 0..127}
               \cup {[t |-> "pair", e |-> e] : e \in 0..126}
               \cup {[t |-> "pat", a |-> a, b |-> b] : a \in Seeds, b \in Seeds}
               \cup {[t |-> "edge", i |-> i, v |-> v] : i \in 1..16, v \in {127, 128, 129, 255}}
               \cup {[t |-> "orbit"]}
\* root -> pre(item) -> item: the extra level lets TLC's workers share the evaluation
Next == \/ c.t = "root" /\ c' \in {[t |-> "pre", x |-> x] : x \in Items}
        \/ c.t = "pre" /\ c' = c.x
Agree(t) == GFMul2Carry(t) = GFMul2(t)
RECURSIVE CarryPow(_, _)
CarryPow(t, j) == IF j = 0 THEN t ELSE CarryPow(GFMul2Carry(t), j - 1)
Check ==
  CASE c.t = "mono" -> Agree(Mono(c.e))
    [] c.t = "pair" -> Agree(XorBytes(Mono(127), Mono(c.e)))
    [] c.t = "pat"  -> LET a == Pat(c.a, 16)  b == Pat(c.b, 16) IN
                       /\ Agree(a)
                       /\ GFMul2Carry(XorBytes(a, b)) = XorBytes(GFMul2Carry(a), GFMul2Carry(b))
                       /\ GFMul2(XorBytes(a, b)) = XorBytes(GFMul2(a), GFMul2(b))
    [] c.t = "edge" -> Agree([i \in 1..16 |-> IF i = c.i THEN c.v ELSE IF i < c.i THEN 255 ELSE 0])
    [] c.t = "orbit" -> CarryPow(GFOne, 128) = <<135, 0, 0, 0, 0, 0, 0, 0, 0, 0, 0, 0, 0, 0, 0, 0>>
    [] OTHER -> TRUE
=============================================================================
