------------------------------ MODULE C07Keccak ------------------------------
(***************************************************************************)
(* C07 - state-shape specification of the legacy Keccak sponge             *)
(* (/repo/sha3/legacy_hash.go: type state behind NewLegacyKeccak256/512):  *)
(*   a [200]byte, n, rate, dsbyte, outputLen, state (spongeDirection);     *)
(*   Write (panics "Write after Read" when squeezing; XORs into            *)
(*   a[n:rate], permutes when n = rate), Read (padAndPermute on the first  *)
(*   call: a[n] ^= dsbyte, a[rate-1] ^= 0x80; permutes lazily when         *)
(*   n = rate; copies a[n:rate]), Sum (panics "Sum after Read" when        *)
(*   squeezing; Read on a clone), Reset, MarshalBinary (magic, rate, a, n, *)
(*   direction) and UnmarshalBinary (length, magic, rate = d.rate,         *)
(*   n <= rate, direction in {absorbing, squeezing}).                      *)
(* The permutation and the bytes are not modelled (another property's      *)
(* subject): the sponge contents are identified by the ghosts alen (bytes  *)
(* absorbed) and opos (bytes squeezed).  What is modelled is exactly what  *)
(* the slice/index expressions depend on: n, rate, the array width, the    *)
(* direction.  TLC checks that every action preserves TypeOK, that         *)
(* Write/Read/Sum/Reset are defined (no out-of-range slice or index)       *)
(* exactly on states with n <= rate, that UnmarshalBinary of arbitrary     *)
(* (rate, n, direction) bytes yields either an error or such a state, and  *)
(* that Marshal/Unmarshal restores (alen, opos, direction, n).             *)
(* A panic of the first kind ("mode") is the documented behaviour of a     *)
(* squeezing sponge - a state that MarshalBinary can legitimately produce  *)
(* after Read - and is distinguished from a range panic.                   *)
(***************************************************************************)
EXTENDS Integers, Sequences

CONSTANTS R,          \* rate in bytes (136 / 72; scaled)
          W,          \* width of a in bytes (200; scaled), R < W
          OutLen,     \* default output size (32 / 64; scaled)
          NSet,       \* Write sizes
          KSet,       \* Read sizes
          MaxLen,     \* bound on bytes absorbed + squeezed
          RateVals, NVals, DirVals,   \* values of corrupted rate / n / direction bytes
          CheckN                      \* UnmarshalBinary tests n <= rate (FALSE: documentation of what the test is for)

VARIABLES n, dir, alen, opos,      \* d.n, d.state (0 absorbing, 1 squeezing); ghosts
          saved,                   \* <<TRUE, [rate, n, dir, alen, opos]>>: bytes of the last MarshalBinary
          rangePanic,              \* an out-of-range slice/index expression was evaluated
          taint,                   \* ghost: 1 = state stems from corrupted bytes, 2 = so do the saved bytes (constraint: <= 1)
          last
vars == <<n, dir, alen, opos, saved, rangePanic, taint, last>>

Ev(op, k, res) == [op |-> op, k |-> k, res |-> res, alen |-> alen', opos |-> opos']
NoSaved == <<FALSE, [rate |-> 0, n |-> 0, dir |-> 0, alen |-> 0, opos |-> 0]>>

Init == /\ n = 0 /\ dir = 0 /\ alen = 0 /\ opos = 0 /\ saved = NoSaved /\ rangePanic = FALSE /\ taint = 0
        /\ last = [op |-> "new", k |-> 0, res |-> "ok", alen |-> 0, opos |-> 0]

\* d.a[d.n:d.rate] is a valid slice expression iff n <= rate <= W; d.a[d.n] a valid index iff n < W
SliceDefined == n <= R /\ R <= W
PadDefined == n < W /\ R - 1 < W
RangePanic(op, k) == /\ rangePanic' = TRUE /\ UNCHANGED <<n, dir, alen, opos, saved, taint>> /\ last' = Ev(op, k, "rangepanic")
ModePanic(op, k) == /\ UNCHANGED <<n, dir, alen, opos, saved, rangePanic, taint>> /\ last' = Ev(op, k, "modepanic")

\* the absorbing loop: x = min(rate - n, len(p)) bytes per turn; permute (n = 0) when n = rate
RECURSIVE Absorb(_, _)
Absorb(nn, k) == IF k = 0 THEN nn
                 ELSE LET x == IF R - nn < k THEN R - nn ELSE k
                          n1 == nn + x
                      IN Absorb(IF n1 = R THEN 0 ELSE n1, k - x)
\* the squeezing loop: permute first if n = rate; copy x = min(rate - n, len(out))
RECURSIVE Squeeze(_, _)
Squeeze(nn, k) == IF k = 0 THEN nn
                  ELSE LET n0 == IF nn = R THEN 0 ELSE nn
                           x == IF R - n0 < k THEN R - n0 ELSE k
                       IN Squeeze(n0 + x, k - x)

Write(k) ==
  /\ ~rangePanic /\ alen + opos + k <= MaxLen
  /\ IF dir # 0 THEN ModePanic("write", k)
     ELSE IF k > 0 /\ ~SliceDefined THEN RangePanic("write", k)
     ELSE /\ n' = Absorb(n, k) /\ alen' = alen + k
          /\ UNCHANGED <<dir, opos, saved, rangePanic, taint>>
          /\ last' = Ev("write", k, "ok")

\* Read through the io.Reader the concrete type implements
Read(k) ==
  /\ ~rangePanic /\ alen + opos + k <= MaxLen
  /\ IF dir = 0 /\ ~PadDefined THEN RangePanic("read", k)
     ELSE LET n0 == IF dir = 0 THEN 0 ELSE n IN            \* padAndPermute: permute sets n = 0
          IF k > 0 /\ ~(n0 <= R /\ R <= W) THEN RangePanic("read", k)
          ELSE /\ n' = Squeeze(n0, k) /\ dir' = 1 /\ opos' = opos + k
               /\ UNCHANGED <<alen, saved, rangePanic, taint>>
               /\ last' = Ev("read", k, "ok")

\* Sum: dup := d.clone(); dup.Read(hash[:outputLen]) - the receiver is unchanged
Sum ==
  /\ ~rangePanic
  /\ IF dir # 0 THEN ModePanic("sum", 0)
     ELSE IF ~PadDefined \/ ~(R <= W) THEN RangePanic("sum", 0)
     ELSE /\ UNCHANGED <<n, dir, alen, opos, saved, rangePanic, taint>>
          /\ last' = Ev("sum", OutLen, "ok")

Reset == /\ ~rangePanic
         /\ n' = 0 /\ dir' = 0 /\ alen' = 0 /\ opos' = 0
         /\ UNCHANGED <<saved, rangePanic, taint>>
         /\ last' = Ev("reset", 0, "ok")

Marshal == /\ ~rangePanic
           /\ saved' = <<TRUE, [rate |-> R, n |-> n, dir |-> dir, alen |-> alen, opos |-> opos]>>
           /\ UNCHANGED <<n, dir, alen, opos, rangePanic>>
           /\ taint' = (IF taint = 0 THEN 0 ELSE 2)
           /\ last' = Ev("marshal", 0, "ok")

\* UnmarshalBinary's acceptance test on the (rate, n, direction) bytes
Accepts(rb, nb, db) == rb = R /\ (CheckN => nb <= R) /\ db \in {0, 1}
Unmarshal ==
  /\ ~rangePanic /\ saved[1]
  /\ n' = saved[2].n /\ dir' = saved[2].dir /\ alen' = saved[2].alen /\ opos' = saved[2].opos
  /\ UNCHANGED <<saved, rangePanic>>
  /\ taint' = (IF taint = 2 THEN 2 ELSE 0)
  /\ last' = Ev("unmarshal", 0, "ok")
UnmarshalCorrupt(rb, nb, db) ==
  /\ ~rangePanic /\ saved[1]
  /\ UNCHANGED <<saved, rangePanic, alen, opos>>
  /\ IF Accepts(rb, nb, db)
     THEN /\ n' = nb /\ dir' = db /\ taint' = (IF taint = 2 THEN 2 ELSE 1) /\ last' = Ev("corrupt", 0, "ok")
     ELSE /\ UNCHANGED <<n, dir, taint>> /\ last' = Ev("corrupt", 0, "error")

Next == \/ \E k \in NSet : Write(k)
        \/ \E k \in KSet : Read(k)
        \/ Sum \/ Reset \/ Marshal \/ Unmarshal
        \/ \E rb \in RateVals, nb \in NVals, db \in DirVals : UnmarshalCorrupt(rb, nb, db)
Spec == Init /\ [][Next]_vars

TypeOK == /\ n \in 0..R /\ dir \in {0, 1}
          /\ saved[1] => (saved[2].n \in 0..R /\ saved[2].dir \in {0, 1} /\ saved[2].rate = R)
DefinedIffShape == (SliceDefined /\ PadDefined) <=> (n <= R)
NoRangePanic == ~rangePanic
OneCorruption == taint <= 1      \* model-checking constraint: corrupted states are not re-marshaled
\* states reached without corruption: the bookkeeping the ghosts obey (absorbing: n < rate)
ReachInv == (taint = 0) => /\ (dir = 0 => (n = alen % R /\ opos = 0))
                            /\ (dir = 1 => n = (IF opos = 0 THEN 0 ELSE ((opos - 1) % R) + 1))
\* C07 transparency: Unmarshal restores exactly what Marshal saw
Transparent == [][(last'.op = "unmarshal") => (<<n', dir', alen', opos'>> = <<saved[2].n, saved[2].dir, saved[2].alen, saved[2].opos>>)]_vars
SumStable == [][(last'.op = "sum") => UNCHANGED <<n, dir, alen, opos>>]_vars
ModePanicExact == [][(last'.op \in {"write", "sum"}) => ((last'.res = "modepanic") <=> (dir = 1))]_vars
=============================================================================
