SPECIFICATION TraceSpec
CONSTANTS
  Callers <- Two
  MaxCalls = 100000000
  Ops <- OpsAll
  Inject <- InjAll
  Exclusive = TRUE
  Mut = "none"
  InitSet <- InitOne
INVARIANTS ServerSane A1_HeaderForm A1_KidBelongs A2_OneLookup A2_CacheSound A3_Results A4_RolloverShape A4_KeyAccepted A4_OneSigner A4_Agreement A5_Deactivate
CONSTRAINT HWM
POSTCONDITION TraceAccepted
CHECK_DEADLOCK FALSE
