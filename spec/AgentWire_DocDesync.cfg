SPECIFICATION Spec
CONSTANTS
  Keys = {"k1", "k2"}
  RSAKeys = {}
  Pass = {"p"}
  Lifetimes = {0}
  Ticks = {}
  Comments = {"a", "b"}
  Flags = {0}
  MaxLen = 0
  Conns <- One
  PipeConns <- None
  Callers <- Two
  MaxCalls = 1
  Budget = 2
  ReqMenu <- MenuMut
  NoMutex = FALSE
  LateEnqueue = FALSE
  ContinueAfterOversize = FALSE
  UnknownKills = FALSE
  Faults = TRUE
  Sticky = FALSE
INVARIANTS OwnReply

VIEW View
CHECK_DEADLOCK FALSE
