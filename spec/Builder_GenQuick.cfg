SPECIFICATION Spec
CONSTANTS
  Profiles <- ProfGenQuick
INVARIANTS ErrIff CapErrOnlyFixed FitsAll ParseBack CapRespected LenIsSum PanicOnlyMisuse Emit
CHECK_DEADLOCK FALSE
