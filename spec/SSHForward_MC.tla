---------------------------- MODULE SSHForward_MC ----------------------------
(* Model-checking instances and the behaviour generator (binding R) for SSHForward. *)
EXTENDS SSHForward, SSHForward_Consts, Json
\* generator: print every settled history of maximal recorded length with the model's observations
Emit == (Len(hist) = MaxHist /\ Quiescent) => PrintT("TRACE " \o ToJson([model |-> "new", laddr |-> LAddr, prereg |-> PreReg, hist |-> hist, final |-> Snapshot]))
\* one witness history per (library state, last event): hide the histories
View == <<libvars, IF hist = <<>> THEN <<>> ELSE hist[Len(hist)].ev>>
EmitAny == (hist # <<>> /\ Quiescent) => PrintT("TRACE " \o ToJson([model |-> "new", laddr |-> LAddr, prereg |-> PreReg, hist |-> hist, final |-> Snapshot]))
=============================================================================
