---------------------------- MODULE SSHForward_MC ----------------------------
(* Model-checking instances and the behaviour generator (binding R) for SSHForward. *)
EXTENDS SSHForward, SSHForward_Consts, Json
\* generator: print every settled history of maximal recorded length with the model's observations
Emit == (Len(hist) = MaxHist /\ Quiescent) => PrintT("TRACE " \o ToJson([model |-> "new", laddr |-> LAddr, prereg |-> PreReg, hist |-> hist, final |-> Snapshot]))
\* one witness history per (library state, last event): hide the histories
View == <<libvars, IF hist = <<>> THEN <<>> ELSE hist[Len(hist)].ev>>
EmitAny == (hist # <<>> /\ Quiescent) => PrintT("TRACE " \o ToJson([model |-> "new", laddr |-> LAddr, prereg |-> PreReg, hist |-> hist, final |-> Snapshot]))
\* Sharpness of R1_Decided (SSHForward_LostReject.cfg overrides DSendClosed with this): forward() returning "delivered"
\* from its <-e.closed branch, so that handleChannels does not reject the open.  TLC must report R1_Decided violated.
DSendClosedLost(d) ==
  /\ dpc[d] = "send" /\ closedCh[dent[d]]
  /\ dpc' = [dpc EXCEPT ![d] = "idle"]
  /\ dcur' = [dcur EXCEPT ![d] = 0]
  /\ dent' = [dent EXCEPT ![d] = "-"]
  /\ UNCHANGED <<reg, buf, closedCh, mu, inbox, nsent, otgt, ost, odel, apc, aAfter, aRes, aIdx, cpc, hist, acalls>>
=============================================================================
