SPECIFICATION Spec
CONSTANTS
  R = 4
  W = 6
  OutLen = 2
  NSet <- MC_NSet
  KSet <- MC_KSet
  MaxLen = 5
  RateVals <- MC_RateVals
  NVals <- MC_NVals
  DirVals <- MC_DirVals
  CheckN = TRUE
INVARIANTS TypeOK DefinedIffShape NoRangePanic ReachInv
PROPERTIES Transparent SumStable ModePanicExact
CONSTRAINT OneCorruption
CHECK_DEADLOCK FALSE
