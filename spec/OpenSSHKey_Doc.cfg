SPECIFICATION Spec
CONSTANTS
  Menus <- MenusAll
INVARIANTS AcceptOnlyConsistent
CHECK_DEADLOCK FALSE
