SPECIFICATION Spec
CONSTANTS
  Menus <- MenusAll
  FixConsistency = FALSE
INVARIANTS AcceptOnlyConsistent
CHECK_DEADLOCK FALSE
