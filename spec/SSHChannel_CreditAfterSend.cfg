SPECIFICATION MCSpec
CONSTANTS
  Windows = {3}
  MaxPayloads = {1, 3}
  Budget <- B222
  MaxCalls = 1
  MaxRead = 2
  Greedy = TRUE
  CreditFirst = FALSE
  RecvPolicy = "impl"
INVARIANTS TypeOK NoError SenderWithinWindow
CHECK_DEADLOCK FALSE
