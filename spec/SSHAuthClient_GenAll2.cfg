SPECIFICATION GenSpec
CONSTANTS
  Configs <- AllConfigs
  Servers <- GridServers
  SrvNames <- SrvScript
  GridCfgNames <- NoNames
  CfgNames <- NamesSmall
  Pre <- PreSmall
  Items <- ItemsAll
  MaxScript = 2
  LongNames <- NoNames
  LongPre <- PreLong
  LongItems <- ItemsLong
  LongMax = 70
  FocusNames <- NoNames
  FocusPre <- PreFocus
  FocusItems <- ItemsFocus
  FocusMax = 4
  FocusDeepNames <- NoNames
  FocusDeepMax = 6
  FocusDeepItems <- ItemsFocusDeep
  FixO1 = TRUE
  FixRetry = TRUE
  FixRetryList = TRUE
  MaxTried = 64
INVARIANTS EmitCase
CHECK_DEADLOCK FALSE
