SPECIFICATION Spec
CONSTANTS
  Lanes = 3
  SegLen = 4
  Passes = 3
  Variant = "rfc"
INVARIANTS TypeOK AreaAgrees BlockAgrees RefWritten NoRace FirstSlice Complete
CHECK_DEADLOCK FALSE
