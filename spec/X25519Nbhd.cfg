SPECIFICATION Spec
INVARIANTS CanonSane BasepointEncodings LowOrderEncodings ClampSane Emit
CHECK_DEADLOCK FALSE
