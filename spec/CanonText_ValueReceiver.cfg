\* DOCUMENTATION ONLY: a wrapper that forgets "previous byte was CR" between Write calls (value receiver) is refuted by TLC.
\* Nothing here is expected of the code.
SPECIFICATION Spec
CONSTANTS
  Alphabet <- Alpha3
  MaxLen = 4
  StateKept <- Never
INVARIANTS ChunkInvariant
CHECK_DEADLOCK FALSE
