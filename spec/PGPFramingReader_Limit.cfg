SPECIFICATION Spec
CONSTANTS
  Residue = FALSE
  Streams <- Tree
  MaxReaders = 2
  MaxUnread = 1
  MaxOps = 16
INVARIANTS DepthBound Order Complete 
PROPERTIES PushRule Lifo EofSticky
CHECK_DEADLOCK FALSE
