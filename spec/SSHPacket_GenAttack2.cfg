SPECIFICATION Spec
CONSTANTS
  Modes <- AttackReps
  MaxPacket = 262144
  SeqMod = 16
  CtrBase = 256
  CtrLimbs = 8
  Sizes <- Sizes12
  StartSeqs <- SeqWrap16
  StartCtrs <- Ctr0Real
  MaxPkts = 3
  MaxFaults = 2
  AttackOps <- AllOps
  Phased = TRUE
  PadRule = "code"
INVARIANTS EmitTable EmitFinished
CHECK_DEADLOCK FALSE
