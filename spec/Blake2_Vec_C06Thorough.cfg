SPECIFICATION Spec
CONSTANTS
  Cases <- C06Thorough
  Groups = 24
INVARIANTS Emit
CHECK_DEADLOCK FALSE
