SPECIFICATION SpecAll
CONSTANTS
  FixPrec = FALSE
  FixBase = FALSE
  FixZero = FALSE
  FixRevReason = FALSE
  FixSerRev = FALSE
  Slice = "Quick"
  BaseMenu <- BaseMenuMC
  SubMenu <- SubMenuMC
  Nows <- AllNows
  MaxT = 4
  MaxSubs = 2
  MaxSubSigs = 3
  MaxIdSigs = 2
  LifeAlgos = {"rsa"}
  LifeFlags <- LifeFlagsMC
  LifeLives <- LifeLivesMC
INVARIANTS EmitAll
CHECK_DEADLOCK FALSE
