------------------------------ MODULE SSHRekey ------------------------------
(* Key re-exchange under concurrent application traffic, as implemented by
   golang.org/x/crypto/ssh handshake.go (handshakeTransport): one action per critical
   section / channel operation of

     writePacket   (application writers; mutex mu, writeCond, pendingPackets queue)
     kexLoop       (select on requestKex / startKex, sendKexInit, enterKeyExchange,
                    completion: reset thresholds, drain requestKex, release readLoop,
                    flush pendingPackets while still holding mu, Broadcast)
     readLoop      (readOnePacket: read thresholds, KEXINIT hand-off to kexLoop over the
                    unbuffered startKex channel, delivery into the buffered incoming chan)
     readPacket    (application reader)

   Two sides "c" and "s" joined by one FIFO per direction (wire[x] = packets written by x and
   not yet read by the peer).  Cipher state is not modelled here (see SSHStrictKex for sequence
   numbers); packets are records [t, w, i, n]: kind, writer, per-writer index, length.

   Deliberate fidelity points (the code's behaviour, not an idealisation):
     * packets flushed from the pending queue after a key exchange are NOT charged to the
       write thresholds;
     * the requestKex token is consumed by kexLoop before sendKexInit takes the mutex, so a
       second token can be deposited in between, and all tokens are drained at completion;
     * readLoop reads a packet first and only then blocks on the bounded incoming channel
       (one packet "held");
     * the first completed key exchange is reported to the application as a NEWKEYS packet
       (waitSession), later ones are hidden;
     * the server sends EXT_INFO after its first NEWKEYS when the client asked for it;
     * the byte stream between the peers has a finite capacity per direction (NetCap packets:
       socket buffers): every transport-level write (a writer's pushPacket, kexLoop's KEXINIT /
       key exchange messages / NEWKEYS / EXT_INFO, each packet of the post-kex flush) is
       enabled only while the pipe has room, i.e. it blocks in conn.Write otherwise.  A writer
       blocked there holds mu with sentInitMsg = nil, which excludes only sendKexInit (which
       would block on the same pipe), so WPush stays one atomic step;
     * at completion kexLoop, holding mu, first releases its own readLoop
       (request.done <- t.writeError: KLRelease, a step of its own) and only then flushes the
       pending queue one packet per step (KLFlush1), still holding mu.  ReleaseAfterFlush = TRUE
       is the documentation variant with the release moved behind the flush: with both queues
       longer than the pipe both flushes block while neither side reads (SSHRekey_DocRAF.cfg
       must produce that counterexample). *)
EXTENDS Integers, Sequences, FiniteSets, TLC

CONSTANTS MaxPending,   \* maxPendingPackets (64)
          ChanSize,     \* chanSize (16)
          Writers,      \* set of application writer ids per side
          NPkts,        \* packets each writer sends
          MaxRekeys,    \* explicit requestKeyExchange calls allowed (bounds the model)
          Threshold,    \* RekeyThreshold in bytes (write and read)
          PktLens,      \* set of application packet lengths writers may choose
          ExtInfo,      \* BOOLEAN: server sends EXT_INFO after first NEWKEYS
          NetCap,       \* packets one direction of the byte stream buffers (conn.Write blocks beyond)
          ReleaseAfterFlush  \* BOOLEAN: FALSE = the code (reader released before the flush)

Sides == {"c", "s"}
Other(x) == IF x = "c" THEN "s" ELSE "c"

VARIABLES sentInit, pending, reqKex, kx, hand, held, incoming, wire, wleft, rleft, first,
          session, wpc, wlen, sent, rekeys, lastDel, nDel
vars == <<sentInit, pending, reqKex, kx, hand, held, incoming, wire, wleft, rleft, first,
          session, wpc, wlen, sent, rekeys, lastDel, nDel>>

Pkt(t, x, w, i, n) == [t |-> t, x |-> x, w |-> w, i |-> i, n |-> n]
Ctl(t, x) == Pkt(t, x, 0, 0, 1)
NoW == 0   \* writer id of control packets

KxStates == {"idle", "tok", "init", "sentOnly", "ready", "cWait", "cGot", "sGot", "sReplied",
             "sExt", "waitNK", "gotNK", "release", "flushing"}

TypeOK ==
  /\ sentInit \in [Sides -> BOOLEAN] /\ reqKex \in [Sides -> BOOLEAN]
  /\ kx \in [Sides -> KxStates]
  /\ hand \in [Sides -> {"none", "offered", "taken", "released"}]
  /\ \A x \in Sides : Len(held[x]) <= 1 /\ Len(incoming[x]) <= ChanSize
  /\ first \in [Sides -> BOOLEAN] /\ session \in [Sides -> BOOLEAN]
  /\ wpc \in [Sides -> [Writers -> {"idle", "calling", "blocked", "done"}]]

Init ==
  /\ sentInit = [x \in Sides |-> FALSE]
  /\ pending = [x \in Sides |-> <<>>]
  /\ reqKex = [x \in Sides |-> TRUE]          \* "We always start with a mandatory key exchange."
  /\ kx = [x \in Sides |-> "idle"]
  /\ hand = [x \in Sides |-> "none"]
  /\ held = [x \in Sides |-> <<>>]
  /\ incoming = [x \in Sides |-> <<>>]
  /\ wire = [x \in Sides |-> <<>>]
  /\ wleft = [x \in Sides |-> Threshold]
  /\ rleft = [x \in Sides |-> Threshold]
  /\ first = [x \in Sides |-> TRUE]
  /\ session = [x \in Sides |-> FALSE]
  /\ wpc = [x \in Sides |-> [w \in Writers |-> "idle"]]
  /\ wlen = [x \in Sides |-> [w \in Writers |-> 0]]
  /\ sent = [x \in Sides |-> [w \in Writers |-> 0]]
  /\ rekeys = 0
  /\ lastDel = [x \in Sides |-> [w \in Writers |-> 0]]
  /\ nDel = [x \in Sides |-> 0]

MuFree(x) == kx[x] \notin {"release", "flushing"}   \* kexLoop holds mu from completion until the flush is over
Room(x) == Len(wire[x]) < NetCap    \* conn.Write of side x does not block

-----------------------------------------------------------------------------
(* writers: handshakeTransport.writePacket *)

WCall(x, w, n) ==
  /\ session[x] /\ wpc[x][w] = "idle" /\ sent[x][w] < NPkts
  /\ wpc' = [wpc EXCEPT ![x][w] = "calling"]
  /\ wlen' = [wlen EXCEPT ![x][w] = n]
  /\ UNCHANGED <<sentInit, pending, reqKex, kx, hand, held, incoming, wire, wleft, rleft, first, session, sent, rekeys, lastDel, nDel>>

\* threshold accounting + pushPacket (under mu)
Push(x, w) ==
  LET p == Pkt("APP", x, w, sent[x][w] + 1, wlen[x][w]) IN
  /\ Room(x)
  /\ wire' = [wire EXCEPT ![x] = Append(@, p)]
  /\ sent' = [sent EXCEPT ![x][w] = @ + 1]
  /\ IF wleft[x] > 0 THEN wleft' = [wleft EXCEPT ![x] = @ - p.n] /\ UNCHANGED reqKex
     ELSE reqKex' = [reqKex EXCEPT ![x] = TRUE] /\ UNCHANGED wleft

WQueue(x, w) ==     \* kex in progress and room in the queue: copy and return
  /\ wpc[x][w] = "calling" /\ MuFree(x) /\ sentInit[x] /\ Len(pending[x]) < MaxPending
  /\ pending' = [pending EXCEPT ![x] = Append(@, Pkt("APP", x, w, sent[x][w] + 1, wlen[x][w]))]
  /\ sent' = [sent EXCEPT ![x][w] = @ + 1]
  /\ wpc' = [wpc EXCEPT ![x][w] = "done"]
  /\ UNCHANGED <<sentInit, reqKex, kx, hand, held, incoming, wire, wleft, rleft, first, session, wlen, rekeys, lastDel, nDel>>

WBlock(x, w) ==     \* queue full: wait on writeCond
  /\ wpc[x][w] = "calling" /\ MuFree(x) /\ sentInit[x] /\ Len(pending[x]) >= MaxPending
  /\ wpc' = [wpc EXCEPT ![x][w] = "blocked"]
  /\ UNCHANGED <<sentInit, pending, reqKex, kx, hand, held, incoming, wire, wleft, rleft, first, session, wlen, sent, rekeys, lastDel, nDel>>

WPush(x, w) ==      \* no kex in progress (directly, or after being woken)
  /\ wpc[x][w] \in {"calling", "blocked"} /\ MuFree(x) /\ ~sentInit[x]
  /\ Push(x, w)
  /\ wpc' = [wpc EXCEPT ![x][w] = "done"]
  /\ UNCHANGED <<sentInit, pending, kx, hand, held, incoming, rleft, first, session, wlen, rekeys, lastDel, nDel>>

WRet(x, w) ==
  /\ wpc[x][w] = "done"
  /\ wpc' = [wpc EXCEPT ![x][w] = "idle"]
  /\ UNCHANGED <<sentInit, pending, reqKex, kx, hand, held, incoming, wire, wleft, rleft, first, session, wlen, sent, rekeys, lastDel, nDel>>

RequestKex(x) ==    \* explicit requestKeyExchange (non-blocking send on the 1-buffered channel)
  /\ session[x] /\ rekeys < MaxRekeys
  /\ reqKex' = [reqKex EXCEPT ![x] = TRUE]
  /\ rekeys' = rekeys + 1
  /\ UNCHANGED <<sentInit, pending, kx, hand, held, incoming, wire, wleft, rleft, first, session, wpc, wlen, sent, lastDel, nDel>>

-----------------------------------------------------------------------------
(* kexLoop *)
KLUnch == <<pending, held, incoming, rleft, first, session, wpc, wlen, sent, rekeys, lastDel, nDel>>

KLTakeTok(x) ==
  /\ kx[x] \in {"idle", "sentOnly"} /\ reqKex[x]
  /\ reqKex' = [reqKex EXCEPT ![x] = FALSE]
  /\ kx' = [kx EXCEPT ![x] = IF @ = "idle" THEN "tok" ELSE "sentOnly"]
  /\ UNCHANGED <<sentInit, hand, wire, wleft>> /\ UNCHANGED KLUnch

KLTakeReq(x) ==
  /\ kx[x] \in {"idle", "sentOnly"} /\ hand[x] = "offered"
  /\ hand' = [hand EXCEPT ![x] = "taken"]
  /\ kx' = [kx EXCEPT ![x] = IF @ = "idle" THEN "init" ELSE "ready"]
  /\ UNCHANGED <<sentInit, reqKex, wire, wleft>> /\ UNCHANGED KLUnch

KLSendInit(x) ==    \* sendKexInit, under mu
  /\ kx[x] \in {"tok", "init"} /\ Room(x)
  /\ wire' = [wire EXCEPT ![x] = Append(@, Ctl("KEXINIT", x))]
  /\ sentInit' = [sentInit EXCEPT ![x] = TRUE]
  /\ kx' = [kx EXCEPT ![x] = IF @ = "tok" THEN "sentOnly" ELSE "ready"]
  /\ UNCHANGED <<reqKex, hand, wleft>> /\ UNCHANGED KLUnch

KLSend(x, from, t, to) ==
  /\ kx[x] = from /\ Room(x)
  /\ wire' = [wire EXCEPT ![x] = Append(@, Ctl(t, x))]
  /\ kx' = [kx EXCEPT ![x] = to]
  /\ UNCHANGED <<sentInit, reqKex, hand, wleft>> /\ UNCHANGED KLUnch

KLRecv(x, from, t, to) ==
  /\ kx[x] = from
  /\ wire[Other(x)] # <<>> /\ Head(wire[Other(x)]).t = t
  /\ wire' = [wire EXCEPT ![Other(x)] = Tail(@)]
  /\ kx' = [kx EXCEPT ![x] = to]
  /\ UNCHANGED <<sentInit, reqKex, hand, wleft>> /\ UNCHANGED KLUnch

KLClientInit  == KLSend("c", "ready", "KEXMSG", "cWait")
KLClientReply == KLRecv("c", "cWait", "KEXMSG", "cGot")
KLServerInit  == KLRecv("s", "ready", "KEXMSG", "sGot")
KLServerReply == KLSend("s", "sGot", "KEXMSG", "sReplied")
KLSendNK(x) == \/ (x = "c" /\ KLSend("c", "cGot", "NEWKEYS", "waitNK"))
               \/ (x = "s" /\ KLSend("s", "sReplied", "NEWKEYS", IF first["s"] /\ ExtInfo THEN "sExt" ELSE "waitNK"))
KLSendExt  == KLSend("s", "sExt", "EXT", "waitNK")
KLRecvNK(x) == KLRecv(x, "waitNK", "NEWKEYS", "gotNK")

KLFinish(x) ==      \* takes mu: clear sentInitMsg, reset thresholds, drain requestKex
  /\ kx[x] = "gotNK"
  /\ sentInit' = [sentInit EXCEPT ![x] = FALSE]
  /\ wleft' = [wleft EXCEPT ![x] = Threshold]
  /\ reqKex' = [reqKex EXCEPT ![x] = FALSE]
  /\ kx' = [kx EXCEPT ![x] = IF ReleaseAfterFlush THEN "flushing" ELSE "release"]
  /\ UNCHANGED <<hand, wire>> /\ UNCHANGED KLUnch

KLRelease(x) ==     \* still under mu: request.done <- t.writeError (buffered: never blocks) releases readLoop
  /\ kx[x] = "release"
  /\ hand' = [hand EXCEPT ![x] = "released"]
  /\ kx' = [kx EXCEPT ![x] = IF ReleaseAfterFlush THEN "idle" ELSE "flushing"]
  /\ UNCHANGED <<sentInit, reqKex, wire, wleft>> /\ UNCHANGED KLUnch

KLFlush1(x) ==      \* still under mu: push queued packets (blocking in conn.Write), no threshold accounting
  /\ kx[x] = "flushing" /\ pending[x] # <<>> /\ Room(x)
  /\ wire' = [wire EXCEPT ![x] = Append(@, Head(pending[x]))]
  /\ pending' = [pending EXCEPT ![x] = Tail(@)]
  /\ UNCHANGED <<sentInit, reqKex, kx, hand, held, incoming, wleft, rleft, first, session, wpc, wlen, sent, rekeys, lastDel, nDel>>

KLFlushDone(x) ==   \* Broadcast, unlock
  /\ kx[x] = "flushing" /\ pending[x] = <<>>
  /\ kx' = [kx EXCEPT ![x] = IF ReleaseAfterFlush THEN "release" ELSE "idle"]
  /\ UNCHANGED <<sentInit, pending, reqKex, hand, held, incoming, wire, wleft, rleft, first, session, wpc, wlen, sent, rekeys, lastDel, nDel>>

-----------------------------------------------------------------------------
(* readLoop / readOnePacket *)
RLRead(x) ==
  LET y == Other(x) IN
  /\ hand[x] = "none" /\ held[x] = <<>> /\ wire[y] # <<>>
  /\ LET p == Head(wire[y]) IN
     /\ p.t \in {"APP", "EXT", "KEXINIT"}     \* anything else here is a protocol error (unreachable)
     /\ wire' = [wire EXCEPT ![y] = Tail(@)]
     /\ IF rleft[x] > 0 THEN rleft' = [rleft EXCEPT ![x] = @ - p.n] /\ UNCHANGED reqKex
        ELSE reqKex' = [reqKex EXCEPT ![x] = TRUE] /\ UNCHANGED rleft
     /\ IF p.t = "KEXINIT" THEN hand' = [hand EXCEPT ![x] = "offered"] /\ UNCHANGED held
        ELSE held' = [held EXCEPT ![x] = <<p>>] /\ UNCHANGED hand
  /\ UNCHANGED <<sentInit, pending, kx, incoming, wleft, first, session, wpc, wlen, sent, rekeys, lastDel, nDel>>

RLDeliver(x) ==
  /\ held[x] # <<>> /\ Len(incoming[x]) < ChanSize
  /\ incoming' = [incoming EXCEPT ![x] = Append(@, held[x][1])]
  /\ held' = [held EXCEPT ![x] = <<>>]
  /\ UNCHANGED <<sentInit, pending, reqKex, kx, hand, wire, wleft, rleft, first, session, wpc, wlen, sent, rekeys, lastDel, nDel>>

RLResume(x) ==      \* kex.done received: reset read thresholds; first kex is reported as NEWKEYS
  /\ hand[x] = "released"
  /\ hand' = [hand EXCEPT ![x] = "none"]
  /\ rleft' = [rleft EXCEPT ![x] = Threshold]
  /\ first' = [first EXCEPT ![x] = FALSE]
  /\ held' = [held EXCEPT ![x] = IF first[x] THEN <<Ctl("NEWKEYS", Other(x))>> ELSE <<>>]
  /\ UNCHANGED <<sentInit, pending, reqKex, kx, incoming, wire, wleft, session, wpc, wlen, sent, rekeys, lastDel, nDel>>

AppRead(x) ==       \* readPacket by the application (waitSession consumes the first NEWKEYS)
  /\ incoming[x] # <<>>
  /\ LET p == Head(incoming[x]) IN
     /\ incoming' = [incoming EXCEPT ![x] = Tail(@)]
     /\ session' = [session EXCEPT ![x] = @ \/ p.t = "NEWKEYS"]
     /\ IF p.t = "APP" THEN /\ lastDel' = [lastDel EXCEPT ![x][p.w] = p.i]
                            /\ nDel' = [nDel EXCEPT ![x] = @ + 1]
        ELSE UNCHANGED <<lastDel, nDel>>
  /\ UNCHANGED <<sentInit, pending, reqKex, kx, hand, held, wire, wleft, rleft, first, wpc, wlen, sent, rekeys>>

-----------------------------------------------------------------------------
KexStep(x) == \/ KLTakeTok(x) \/ KLTakeReq(x) \/ KLSendInit(x) \/ KLSendNK(x) \/ KLRecvNK(x)
              \/ KLFinish(x) \/ KLRelease(x) \/ KLFlush1(x) \/ KLFlushDone(x)
KexStepG == KLClientInit \/ KLClientReply \/ KLServerInit \/ KLServerReply \/ KLSendExt
WriterStep(x, w) == (\E n \in PktLens : WCall(x, w, n)) \/ WQueue(x, w) \/ WBlock(x, w) \/ WPush(x, w) \/ WRet(x, w)

\* every step except the environment's choice to ask for a re-key: exactly the steps Fairness covers
FairNext == \/ \E x \in Sides : KexStep(x) \/ RLRead(x) \/ RLDeliver(x) \/ RLResume(x) \/ AppRead(x)
            \/ KexStepG
            \/ \E x \in Sides, w \in Writers : WriterStep(x, w)
Next == FairNext \/ \E x \in Sides : RequestKex(x)

Fairness ==
  /\ \A x \in Sides : /\ WF_vars(KexStep(x)) /\ WF_vars(RLRead(x)) /\ WF_vars(RLDeliver(x))
                      /\ WF_vars(RLResume(x)) /\ WF_vars(AppRead(x))
  /\ WF_vars(KexStepG)
  /\ \A x \in Sides, w \in Writers : WF_vars(WriterStep(x, w))

Spec == Init /\ [][Next]_vars /\ Fairness
SafetySpec == Init /\ [][Next]_vars

-----------------------------------------------------------------------------
(* Properties *)

\* K1: no application packet goes on x's wire between x's KEXINIT and x's NEWKEYS (indeed not
\* until the exchange is complete).  sentInit[x] is TRUE exactly in that window (plus the tail
\* until the peer's NEWKEYS has been read).
NewOnWire(x) == IF Len(wire'[x]) > Len(wire[x]) THEN {wire'[x][Len(wire'[x])]} ELSE {}
K1 == [][\A x \in Sides : \A p \in NewOnWire(x) : (p.t = "APP") => ~sentInit[x]]_vars

\* wire grammar per direction, as a state predicate on what is in flight: after a KEXINIT of x
\* still in flight, no APP of x follows before a NEWKEYS of x
RECURSIVE NoAppInKex(_, _)
NoAppInKex(s, inKex) ==
  IF s = <<>> THEN TRUE
  ELSE LET p == Head(s) IN
       /\ ~(inKex /\ p.t = "APP")
       /\ NoAppInKex(Tail(s), IF p.t = "KEXINIT" THEN TRUE ELSE IF p.t = "NEWKEYS" THEN FALSE ELSE inKex)
K1Wire == \A x \in Sides : NoAppInKex(wire[x], FALSE)

\* K2: exactly-once, in per-writer order: every delivery is the next index of that writer
K2 == [][\A x \in Sides : \A w \in Writers :
          lastDel'[x][w] # lastDel[x][w] => lastDel'[x][w] = lastDel[x][w] + 1]_vars
\* and nothing is lost or duplicated in flight: per writer, indices in pending/wire/held/incoming are
\* consecutive after lastDel (checked as a state invariant)
InFlight(x) ==  \* packets written by x that the peer's application has not read yet, in order
  LET y == Other(x) IN incoming[y] \o held[y] \o wire[x] \o pending[x]
AppOf(s, w) == SelectSeq(s, LAMBDA p : p.t = "APP" /\ p.w = w)
K2State == \A x \in Sides : \A w \in Writers :
   LET s == AppOf(InFlight(x), w) IN
   /\ Len(s) = sent[x][w] - lastDel[Other(x)][w]
   /\ \A k \in 1..Len(s) : s[k].i = lastDel[Other(x)][w] + k

\* K3: bounded queue
K3 == \A x \in Sides : Len(pending[x]) <= MaxPending

\* a queued packet exists only while a key exchange is in progress (or is being flushed)
QueueOnlyInKex == \A x \in Sides : pending[x] # <<>> => (sentInit[x] \/ kx[x] \in {"release", "flushing"})

\* the byte stream never holds more than its capacity
NetBounded == \A x \in Sides : Len(wire[x]) <= NetCap

\* K4 (liveness): every writer finishes and every packet is delivered, given that the
\* applications keep reading and every goroutine keeps being scheduled
AllDone == \A x \in Sides : /\ \A w \in Writers : sent[x][w] = NPkts /\ wpc[x][w] = "idle"
                            /\ nDel[x] = NPkts * Cardinality(Writers)
K4 == <>[]AllDone
\* no writer stays blocked forever
NoStuckWriter == \A x \in Sides, w \in Writers : (wpc[x][w] = "blocked") ~> (wpc[x][w] = "idle")
\* every writePacket call returns (blocked on the queue, on mu, or in conn.Write on a full pipe)
EveryWriteReturns == \A x \in Sides, w \in Writers : (wpc[x][w] = "calling") ~> (wpc[x][w] = "idle")
\* every queued packet is eventually flushed and delivered to the peer's application
QueueDrains == \A x \in Sides : (pending[x] # <<>>) ~> (pending[x] = <<>>)
\* no global deadlock: some goroutine (writer, kexLoop, readLoop, reading application) can take a
\* step in every state but those where all is done (an invariant in the safety configs; the
\* liveness configs check K4, which implies it)
NoDeadlock == AllDone \/ ENABLED FairNext
\* the dead-lock of the ReleaseAfterFlush variant, spelled out (for the documentation config)
BothFlushesBlocked == \A x \in Sides : kx[x] = "flushing" /\ pending[x] # <<>> /\ ~Room(x) /\ hand[x] = "taken"
=============================================================================
