--------------------------- MODULE TraceDemo_Trace ---------------------------
EXTENDS TraceDemo, TraceLib
TraceInit == Init /\ l = 1 /\ HWMInit
TReset == IsEvent("reset") /\ q' = <<>>
TEnq == IsEvent("enq") /\ Enq(Ev.x)
TDeq == IsEvent("deq") /\ Deq(Ev.x) /\ Len(q') = Ev.len     \* logged scalar state checked too
TraceNext == TReset \/ TEnq \/ TDeq
TraceSpec == TraceInit /\ [][TraceNext]_<<vars, l>>
=============================================================================
