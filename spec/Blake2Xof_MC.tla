---------------------------- MODULE Blake2Xof_MC ----------------------------
(* Bounded instances of Blake2XofImpl for C06: node size scaled to 4, unknown-length limit to 3 nodes. *)
EXTENDS Blake2XofImpl
MC_LSet == {1, 3, 4, 5, 8, 9, -1}
MC_KSet == 0..6
MC_KSetT == 0..9
MC_WSet == {1}
MC_LSetQ == {5, -1}
MC_KSetQ == {0, 1, 3, 6}
=============================================================================
