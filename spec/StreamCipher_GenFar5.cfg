SPECIFICATION GSpec
CONSTANTS
  L <- GLfar
  NSet <- GNfar
  CSet <- GCfar
  Depth = 5
INVARIANTS Emit
CHECK_DEADLOCK FALSE
