---------------------------- MODULE PGPKeySel_MC ----------------------------
(* Bounded instances of PGPKeySel (X08): the menus of "all small entities", the evolution bounds, and the case
   generator for binding R.  Time scale 0..4 (one unit = one second in the harness): keys are created at 0 or 1,
   signatures at 0..2, lifetimes absent / 0 / 1 / 2 / 3, queries at 1..4 -- so that for every lifetime there is a query
   before the expiry, exactly at it (creation + lifetime = now: not yet expired) and after it, and so that key creation
   and signature creation can differ (the expiry base). *)
EXTENDS PGPKeySel, Json

Fl(fv, f) == [fv |-> fv, f |-> f]
FAbsent == Fl(FALSE, {})
FCS == Fl(TRUE, {"C", "S"})
FCSE == Fl(TRUE, {"C", "S", "E", "T"})
FE == Fl(TRUE, {"E", "T"})
FEonly == Fl(TRUE, {"E"})
FT == Fl(TRUE, {"T"})
FS == Fl(TRUE, {"S"})
FSE == Fl(TRUE, {"S", "E"})
FC == Fl(TRUE, {"C"})
FNone == Fl(TRUE, {})

IdSigs(Ys, Ts, Ls, Prs, Fls) == {Sig(y, t, l, pr, fl.fv, fl.f, FALSE) : y \in Ys, t \in Ts, l \in Ls, pr \in Prs, fl \in Fls}
BindSigs(Ts, Ls, Fls) == {Sig("bind", t, l, "absent", fl.fv, fl.f, FALSE) : t \in Ts, l \in Ls, fl \in Fls}
RevSigs(Ts) == {Sig("rev", t, NoLife, "absent", FALSE, {}, rs) : t \in Ts, rs \in BOOLEAN}
URev(t) == Sig("urev", t, NoLife, "absent", FALSE, {}, TRUE)
Casual(t) == Sig("cas", t, NoLife, "absent", TRUE, {"C", "S"}, FALSE)

Prim(a, c, pv) == [algo |-> a, c |-> c, pv |-> pv]
Ident(n, sigs) == [n |-> n, sigs |-> sigs]
Base(p, r, ids) == [prim |-> p, nrev |-> r, ids |-> ids, subs |-> <<>>]
Sub(a, c, pv, sigs) == [algo |-> a, c |-> c, pv |-> pv, sigs |-> sigs]

\* a subkey is buildable: signatures not older than the key; a binding signature with the sign flag needs a subkey that
\* can make the cross-signature
SubOK(s) == \A i \in 1..Len(s.sigs) : s.sigs[i].t >= s.c /\ ("S" \in s.sigs[i].f => CanSign(s.algo))
Subs(As, Cs, Pvs, SigSeqs) == {s \in {Sub(a, c, pv, ss) : a \in As, c \in Cs, pv \in Pvs, ss \in SigSeqs} : SubOK(s)}
One(S) == {<<s>> : s \in S}
Two(S1, S2) == {<<s1, s2>> : s1 \in S1, s2 \in S2}
UpTo2(S) == {<<>>} \cup One(S) \cup Two(S, S)

PrimRE(x) == {Prim("rsa", 0, TRUE), Prim("ecdsa", 0, TRUE)}
SimpleId(x) == One(Ident("a", <<Sig("pos", 0, NoLife, "true", TRUE, {"C", "S"}, FALSE)>>))

\* ---- slice Sel: one user id with every self-signature of the menu, at most one subkey with every signature ----------
SelIdSigs(x) == IdSigs({"pos"}, {0, 1}, {NoLife, 0, 2, 3}, {"absent", "true"}, {FAbsent, FCS, FCSE, FEonly})
SelBases(x) == {Base(p, r, <<Ident("a", <<s>>)>>) : p \in PrimRE(x), r \in {0, 1}, s \in SelIdSigs(x)}
SelSubSigs(x) == One(BindSigs({1, 2}, {NoLife, 0, 1, 2}, {FE, FS, FT, FAbsent, FSE})) \cup One(RevSigs({1}))
SelSubs(x) == {<<>>} \cup One(Subs({"rsa", "ecdsa", "elg"}, {0, 1}, {TRUE}, SelSubSigs(x)))
SelQIdSigs(x) == IdSigs({"pos"}, {0, 1}, {NoLife, 0, 2}, {"absent"}, {FAbsent, FCS, FCSE})
SelQBases(x) == {Base(p, r, <<Ident("a", <<s>>)>>) : p \in PrimRE(x), r \in {0, 1}, s \in SelQIdSigs(x)}
SelQSubSigs(x) == One(BindSigs({1, 2}, {NoLife, 0, 1}, {FE, FS, FAbsent})) \cup One(BindSigs({1}, {NoLife}, {FT, FEonly})) \cup One(RevSigs({1}))
SelQSubs(x) == {<<>>} \cup One(Subs({"rsa", "ecdsa"}, {0, 1}, {TRUE}, SelQSubSigs(x)))

\* ---- slice Sub2: two subkeys (ordering, newest / first, expiry of one of them), plain and flag-less primary -----------
Sub2IdSigs(x) == IdSigs({"pos"}, {0}, {NoLife, 2}, {"absent"}, {FAbsent, FCS})
Sub2Bases(x) == {Base(p, 0, <<Ident("a", <<s>>)>>) : p \in PrimRE(x), s \in {q \in Sub2IdSigs(x) : q.l = NoLife \/ ~q.fv}}
Sub2Sigs(x) == One(BindSigs({1, 2}, {NoLife, 0, 1}, {FE, FS, FT, FAbsent})) \cup One(RevSigs({1}))
Sub2One(x) == Subs({"rsa"}, {0, 1}, {TRUE}, Sub2Sigs(x)) \cup Subs({"ecdsa", "elg"}, {0}, {TRUE}, Sub2Sigs(x))
Sub2Subs(x) == Two(Sub2One(x), Sub2One(x))
Sub2QBases(x) == {Base(Prim("rsa", 0, TRUE), 0, <<Ident("a", <<s>>)>>) : s \in IdSigs({"pos"}, {0}, {NoLife}, {"absent"}, {FAbsent, FCS})}
Sub2QSigs(x) == One(BindSigs({1, 2}, {NoLife, 1}, {FE, FS})) \cup One(RevSigs({1}))
Sub2QOne(x) == Subs({"rsa", "ecdsa"}, {0}, {TRUE}, Sub2QSigs(x)) \cup Subs({"rsa"}, {1}, {FALSE}, One(BindSigs({1}, {NoLife}, {FE, FS})))
Sub2QSubs(x) == Two(Sub2QOne(x), Sub2QOne(x))
\* three subkeys over a small menu (thorough)
Sub3One(x) == Subs({"rsa"}, {0}, {TRUE}, One(BindSigs({1, 2}, {NoLife, 1}, {FE, FS})) \cup One(RevSigs({1})))
Sub3Subs(x) == {<<a, b, c>> : a \in Sub3One(x), b \in Sub3One(x), c \in Sub3One(x)}

\* ---- slice Id2: two user ids (the map iteration order), primary flags, differing flags and lifetimes ------------------
Id2Sigs(x) == IdSigs({"pos"}, {0}, {NoLife, 1}, {"absent", "false", "true"}, {FAbsent, FCS, FCSE})
Id2Bases(x) == {Base(p, r, <<Ident("a", <<s1>>), Ident("b", <<s2>>)>>) : p \in PrimRE(x), r \in {0, 1}, s1 \in Id2Sigs(x), s2 \in Id2Sigs(x)}
Id2SubSigs(x) == One(BindSigs({1}, {NoLife, 1}, {FE, FS})) \cup One(RevSigs({1}))
Id2Subs(x) == {<<>>} \cup One(Subs({"rsa"}, {0}, {TRUE}, Id2SubSigs(x)))
Id2QSigs(x) == IdSigs({"pos"}, {0}, {NoLife, 1}, {"absent", "true"}, {FAbsent, FCS, FCSE})
Id2QBases(x) == {Base(Prim("rsa", 0, TRUE), 0, <<Ident("a", <<s1>>), Ident("b", <<s2>>)>>) : s1 \in Id2QSigs(x), s2 \in Id2QSigs(x)}
Id2QSubs(x) == {<<>>} \cup One(Subs({"rsa"}, {0}, {TRUE}, One(BindSigs({1}, {1}, {FE, FS}))))
\* three user ids (thorough)
Id3Sigs(x) == IdSigs({"pos"}, {0}, {NoLife}, {"absent", "true"}, {FAbsent, FCS, FCSE})
Id3Bases(x) == {Base(Prim("rsa", 0, TRUE), 0, <<Ident("a", <<s1>>), Ident("b", <<s2>>), Ident("c", <<s3>>)>>) :
                s1 \in Id3Sigs(x), s2 \in Id3Sigs(x), s3 \in Id3Sigs(x)}

\* ---- slice Parse: several signatures per component (which one ReadEntity keeps) ----------------------------------------
PIdSigs(x) == IdSigs({"pos", "gen"}, {0, 1}, {NoLife, 2}, {"absent"}, {FCS, FCSE}) \cup {URev(1), Casual(1)}
PIds(x) == One(PIdSigs(x)) \cup Two(PIdSigs(x), PIdSigs(x))
PId2nd(x) == One({Sig("pos", 0, NoLife, "absent", TRUE, {"C", "S"}, FALSE), Sig("pos", 1, 2, "true", TRUE, {"C", "S", "E", "T"}, FALSE), URev(1), Casual(1)})
ParseIdBases(x) == {b \in {Base(Prim("rsa", 0, TRUE), 0, <<Ident("a", s1), Ident("b", s2)>>) : s1 \in PIds(x), s2 \in PId2nd(x)} : ParseOK(b)}
          \cup {b \in {Base(Prim("rsa", 0, TRUE), 0, <<Ident("a", s1)>>) : s1 \in PIds(x)} : ParseOK(b)}
ParseIdSubs(x) == {<<>>} \cup One(Subs({"rsa"}, {0}, {TRUE}, One(BindSigs({1}, {1}, {FE}))))
PSubSigs(x) == BindSigs({0, 1, 2}, {NoLife, 1}, {FE}) \cup RevSigs({1})
PSubSeqs(x) == One(PSubSigs(x)) \cup Two(PSubSigs(x), PSubSigs(x)) \cup {<<s1, s2, s3>> : s1 \in PSubSigs(x), s2 \in PSubSigs(x), s3 \in PSubSigs(x)}
ParseSubBases(x) == {Base(Prim("rsa", 0, TRUE), 0, <<Ident("a", <<s>>)>>) : s \in IdSigs({"pos"}, {0}, {NoLife}, {"absent"}, {FAbsent, FCS})}
ParseSubSubs(x) == One(Subs({"rsa"}, {0}, {TRUE}, PSubSeqs(x)))
PQIdSigs(x) == IdSigs({"pos"}, {0, 1}, {NoLife, 2}, {"absent"}, {FCS}) \cup {Sig("gen", 1, NoLife, "absent", TRUE, {"C", "S"}, FALSE), URev(1), Casual(1)}
PQIds(x) == One(PQIdSigs(x)) \cup Two(PQIdSigs(x), PQIdSigs(x))
ParseQBases(x) == {b \in {Base(Prim("rsa", 0, TRUE), 0, <<Ident("a", s1)>>) : s1 \in PQIds(x)} : ParseOK(b)}
PQSubSigs(x) == BindSigs({1, 2}, {NoLife, 1}, {FE}) \cup RevSigs({1})
ParseQSubs(x) == {<<>>} \cup One(Subs({"rsa"}, {0}, {TRUE}, One(PQSubSigs(x)) \cup Two(PQSubSigs(x), PQSubSigs(x))))

\* ---- public primary key (no private part), subkeys with and without -----------------------------------------------------
PubBases(x) == {Base(Prim(a, 0, FALSE), 0, <<Ident("a", <<s>>)>>) : a \in {"rsa", "ecdsa"}, s \in IdSigs({"pos"}, {0}, {NoLife}, {"absent"}, {FAbsent, FCS})}
PubSubs(x) == {<<>>} \cup One(Subs({"rsa", "ecdsa"}, {0}, {TRUE, FALSE}, One(BindSigs({1}, {NoLife}, {FE, FS}))))

\* ---- evolution ------------------------------------------------------------------------------------------------------------
LifeBasesMC(x) == {Base(Prim("rsa", 0, TRUE), 0, <<Ident("a", <<s>>)>>) : s \in IdSigs({"pos"}, {0}, {NoLife, 2}, {"true"}, {FCS, FAbsent})}
LifeFlagsMC == {{"E", "T"}, {"S"}}
LifeLivesMC == {NoLife, 1}
LifeLivesBig == {NoLife, 0, 1, 2}

AllNows == {1, 2, 3, 4}

\* the slices by name (CONSTANT Slice): operators with a parameter are not evaluated at start-up
BaseMenu1(x) == CASE x = "Sel" -> SelBases(x) [] x = "SelQ" -> SelQBases(x) [] x = "Sub2" -> Sub2Bases(x) [] x = "Sub2Q" -> Sub2QBases(x)
                   [] x = "Sub3" -> Sub2QBases(x) [] x = "Id2" -> Id2Bases(x) [] x = "Id2Q" -> Id2QBases(x) [] x = "Id3" -> Id3Bases(x)
                   [] x = "ParseId" -> ParseIdBases(x) [] x = "ParseSub" -> ParseSubBases(x) [] x = "ParseQ" -> ParseQBases(x) [] x = "Pub" -> PubBases(x) [] x = "Life" -> LifeBasesMC(x)
                   [] x = "Life1" -> {b \in LifeBasesMC(x) : b.ids[1].sigs[1].fv}
SubMenu1(x) == CASE x = "Sel" -> SelSubs(x) [] x = "SelQ" -> SelQSubs(x) [] x = "Sub2" -> Sub2Subs(x) [] x = "Sub2Q" -> Sub2QSubs(x)
                   [] x = "Sub3" -> Sub3Subs(x) [] x = "Id2" -> Id2Subs(x) [] x = "Id2Q" -> Id2QSubs(x) [] x = "Id3" -> Id2QSubs(x)
                   [] x = "ParseId" -> ParseIdSubs(x) [] x = "ParseSub" -> ParseSubSubs(x) [] x = "ParseQ" -> ParseQSubs(x) [] x = "Pub" -> PubSubs(x) [] OTHER -> {<<>>}
\* the quick tier in one run: the union of the small slices (a base gets the subkey menus of every slice it belongs to)
QuickSlices == {"SelQ", "Sub2Q", "Id2Q", "ParseQ", "Pub"}
BaseMenuMC(x) == IF x = "Quick" THEN UNION {BaseMenu1(s) : s \in QuickSlices} ELSE BaseMenu1(x)
SubMenuMC(x, b) == IF x = "Quick" THEN UNION {SubMenu1(s) : s \in {s2 \in QuickSlices : b \in BaseMenu1(s2)}} ELSE SubMenu1(x)

-----------------------------------------------------------------------------
(* Case generator: one line per entity (static part) or per reachable state (evolution). *)
UsageSeq == <<{}, {"C"}, {"S"}, {"E"}, {"E", "T"}>>
Tri(S) == IF S = {TRUE} THEN 1 ELSE IF S = {FALSE} THEN 0 ELSE 2      \* 2: depends on the iteration order
KbuTable(e) == [k \in KeyNames(e) |-> [i \in 1..Len(UsageSeq) |-> Tri(KbuResults(e, k, UsageSeq[i]))]]
PredAt(e, n) == [now |-> n, enc |-> EncKeys(e, n), sign |-> SignKeys(e, n),
                 encrypt |-> EncryptResults(e, n), signres |-> SignResults(e, n)]
Case(w, ns) == LET e == Parse(w) IN
  [w |-> w, parsed |-> e, q |-> {PredAt(e, n) : n \in ns}, kbu |-> KbuTable(e), dec |-> DecKeys(e),
   rtnrev |-> SerRT(e).nrev, rtkbu |-> KbuTable(SerRT(e)),
   primary |-> {e.ids[PrimaryIdx(e, ord)].n : ord \in Orders(e)},
   kbiself |-> {e.ids[KbiSelfIdx(e, ord)].n : ord \in Orders(e)}]
SeqOfSet(S) == CHOOSE f \in [1..Cardinality(S) -> S] : \A i, j \in 1..Cardinality(S) : f[i] = f[j] => i = j
EmitAll == Full => PrintT("TRACE " \o ToJson(Case(ent, Nows)))
EmitLife == Life => PrintT("TRACE " \o ToJson(Case(ent, {now})))
=============================================================================
