---------------------------- MODULE SSHAuthServer ----------------------------
(***************************************************************************)
(* Server-side SSH user authentication (RFC 4252) as implemented by        *)
(* golang.org/x/crypto/ssh, file ssh/server.go:                            *)
(*   (*connection).serverAuthenticate  -- the userAuthLoop, one Step per   *)
(*       SSH_MSG_USERAUTH_REQUEST read (the nested keyboard-interactive    *)
(*       exchange is part of that step),                                   *)
(*   pubKeyCache (maxCachedPubKeys = 1), checkSourceAddress /              *)
(*   checkSourceAddressCriticalOption, isAlgoCompatible,                   *)
(*   PartialSuccessError, BannerError, VerifiedPublicKeyCallback,          *)
(*   NoClientAuthCallback, MaxAuthTries, maxAuthServerAttempts,            *)
(* and, from ssh/common.go and ssh/certs.go, algorithmsForKeyFormat,       *)
(* underlyingAlgo, isRSA and the format check of PublicKey.Verify.         *)
(* NewServerConn's preprocessing (MaxAuthTries 0 -> 6, default             *)
(* PublicKeyAuthAlgorithms) is EffMax / the configuration's pkaa.          *)
(*                                                                         *)
(* Used by properties C32 (soundness) and C33 (limits and bindings).       *)
(* Not modelled: gssapi-with-mic (never configured: such a request is a    *)
(* plain failure), security-key (sk-*) keys and no-touch-required,         *)
(* AuthLogCallback, PreAuthConnCallback, write errors of the transport.    *)
(***************************************************************************)
EXTENDS Integers, Sequences, FiniteSets, TLC

CONSTANTS Configs,       \* set of configuration records, each with a name field (see _MC)
          ReqAt(_, _),   \* ReqAt(a, i): request alphabet named a (a configuration's alpha field) offered as the (i+1)-th
                         \* request: a set of request records (shape: Req below)
          MaxAttempts,   \* maxAuthServerAttempts (128 in the code)
          MaxLen,        \* exploration bound on the number of requests ...
          DeepConfigs,   \* ... for the configurations named here;
          ShallowLen     \* for the others: their own depth field if positive, else this

Users == {"u1", "u2"}

(***************************************************************************)
(* Algorithms, exactly the decision tables of common.go / certs.go for the *)
(* names the harness uses.  Key names are fixed; the harness owns one real *)
(* key per name.                                                           *)
(***************************************************************************)
ED   == "ssh-ed25519"
RSA  == "ssh-rsa"
R256 == "rsa-sha2-256"
R512 == "rsa-sha2-512"
EC   == "ecdsa-sha2-nistp256"
EDC  == "ssh-ed25519-cert-v01@openssh.com"
RSAC == "ssh-rsa-cert-v01@openssh.com"
R256C == "rsa-sha2-256-cert-v01@openssh.com"
R512C == "rsa-sha2-512-cert-v01@openssh.com"
BOGUS == "bogus@verif"
DSA  == "ssh-dss"

Keys == {"ed1", "ed2", "rsa1", "ec1", "edcert1", "rsacert1"}   \* parsable keys; "junk" is an unparsable blob
KeyType(k) == CASE k \in {"ed1", "ed2"} -> ED [] k = "rsa1" -> RSA [] k = "ec1" -> EC
                [] k = "edcert1" -> EDC [] k = "rsacert1" -> RSAC
\* type of the key that actually verifies (Certificate.Verify delegates to the embedded key)
BaseKeyType(k) == CASE k = "edcert1" -> ED [] k = "rsacert1" -> RSA [] OTHER -> KeyType(k)

Underlying(a) == CASE a = EDC -> ED [] a = RSAC -> RSA [] a = R256C -> R256 [] a = R512C -> R512 [] OTHER -> a
RSAFormats == {R256, R512, RSA}
AlgosForKeyFormat(t) == CASE t = RSA -> RSAFormats [] t = RSAC -> {R256C, R512C, RSAC} [] OTHER -> {t}
IsRSA(a) == Underlying(a) \in RSAFormats
IsAlgoCompatible(algo, fmt) == (IsRSA(algo) /\ IsRSA(fmt)) \/ Underlying(algo) = fmt
DefaultPKAA == {ED, EC, R256, R512, RSA, DSA}

(***************************************************************************)
(* Permissions and the source-address critical option over an abstract     *)
(* address space.  Addresses a1, a2 lie in network n1; a3 in n2; b1 (IPv6) *)
(* in m1; "unix" is a non-TCP address, "none" a nil address.  An entry is  *)
(* an exact address, a CIDR block, or unparsable ("bad"; the empty string  *)
(* "empty" is unparsable as well, so an empty option value is <<"empty">>).*)
(***************************************************************************)
NilPerms == [id |-> "nil", has |-> FALSE, src |-> <<>>]
P(id) == [id |-> id, has |-> FALSE, src |-> <<>>]
PS(id, list) == [id |-> id, has |-> TRUE, src |-> list]

Match(addr, e) ==
  CASE e = "ip_a1" -> addr = "a1" [] e = "ip_a2" -> addr = "a2" [] e = "ip_a3" -> addr = "a3" [] e = "ip_b1" -> addr = "b1"
    [] e = "net_n1" -> addr \in {"a1", "a2"} [] e = "net_n2" -> addr = "a3" [] e = "net_m1" -> addr = "b1"
    [] OTHER -> FALSE
Unparsable(e) == e \in {"bad", "empty"}
\* checkSourceAddress: left to right; a match allows; an unparsable entry reached denies; no match denies.
ListAllows(addr, list) ==
  /\ addr \notin {"unix", "none"}
  /\ \E i \in 1..Len(list) : Match(addr, list[i]) /\ \A j \in 1..(i-1) : ~Unparsable(list[j])
SrcOK(addr, p) == p.has => ListAllows(addr, p.src)

(***************************************************************************)
(* Callback outcomes (records of one shape).                               *)
(***************************************************************************)
O(t, next, perms, msg) == [t |-> t, next |-> next, perms |-> perms, msg |-> msg]
AbsentO == O("absent", 0, NilPerms, "")
Accept(p) == O("accept", 0, p, "")
AcceptSame == O("acceptSame", 0, NilPerms, "")   \* VerifiedPublicKeyCallback returning the Permissions it was given
Reject == O("reject", 0, NilPerms, "")
RejectP(p) == O("reject", 0, p, "")              \* error together with non-nil Permissions (ignored)
Partial(n) == O("partial", n, NilPerms, "")
PartialP(n, p) == O("partial", n, p, "")         \* library misuse: Permissions with PartialSuccessError
Banner(msg) == O("banner", 0, NilPerms, msg)     \* *BannerError with a message: a failure plus a banner
SrcFail(o) == O("srcfail", 0, o.perms, "")       \* result replaced by the source-address error

\* Request record shape.
Req(m, u, arg, k, algo, fmt, sig) == [m |-> m, u |-> u, arg |-> arg, k |-> k, algo |-> algo, fmt |-> fmt, sig |-> sig]
NoReq == Req("init", "", "-", "-", "-", "-", "-")

\* Packets written by the server (one shape).
Pkt(t, methods, partial, a, k) == [t |-> t, methods |-> methods, partial |-> partial, a |-> a, k |-> k]
PFailure(ms, partial) == Pkt("FAILURE", ms, partial, "", "")
PSuccess == Pkt("SUCCESS", <<>>, FALSE, "", "")
PPkOk(algo, k) == Pkt("PK_OK", <<>>, FALSE, algo, k)
PBanner(msg) == Pkt("BANNER", <<>>, FALSE, msg, "")
PDisconnect(why) == Pkt("DISCONNECT", <<>>, FALSE, why, "")
PInfoRequest == Pkt("INFO_REQUEST", <<>>, FALSE, "", "")

\* Callback invocation log entries (one shape).  stage 0 = not stage-specific.
Cb(cb, st, u, k) == [cb |-> cb, stage |-> st, u |-> u, k |-> k]

VARIABLES cfg,        \* the configuration record (constant along a behaviour), C below
          stage,      \* index of the current authConfig in C.stages
          partial,    \* partialSuccessReturned
          user,       \* s.user
          cache,      \* pubKeyCache (at most one entry)
          failures,   \* authFailures
          attempts,   \* authAttempts
          noneCount,  \* noneAuthCount
          status,     \* running | success | error | eof | disc_failures | disc_attempts
          perms,      \* Permissions returned on success
          out,        \* packets written while handling the last request
          cbs,        \* callbacks invoked while handling the last request
          \* ghosts (observation only; never read by the transcription)
          last,       \* the last request
          pstage,     \* stage before the last request
          ppartial,   \* partial before the last request
          puser,      \* user name at the first partial success
          lastPk,     \* arguments of the most recent PublicKeyCallback invocation
          path,       \* the requests so far, kept only in configurations explored path by path (allpaths); else <<>>
          gFail       \* number of observable failures so far (FAILURE non-partial, or the disconnect for failures), and whether one was free

vars == <<cfg, stage, partial, user, cache, failures, attempts, noneCount, status, perms, out, cbs,
          last, pstage, ppartial, puser, lastPk, path, gFail>>

C == cfg
St == C.stages[stage]
EffMax == IF C.maxTries = 0 THEN 6 ELSE C.maxTries
Bound == IF C.name \in DeepConfigs THEN MaxLen ELSE IF C.depth > 0 THEN C.depth ELSE ShallowLen

Methods(s) == (IF s.hasPw THEN <<"password">> ELSE <<>>) \o (IF s.hasPk THEN <<"publickey">> ELSE <<>>)
              \o (IF s.hasKbd THEN <<"keyboard-interactive">> ELSE <<>>)

NoCache == [valid |-> FALSE, u |-> "", k |-> "", res |-> AbsentO]
NoPk == [u |-> "", k |-> ""]

Init == /\ cfg \in Configs
        /\ stage = 1 /\ partial = FALSE /\ user = "" /\ cache = NoCache
        /\ failures = 0 /\ attempts = 0 /\ noneCount = 0 /\ status = "running"
        /\ perms = NilPerms /\ out = <<>> /\ cbs = <<>>
        /\ last = NoReq /\ pstage = 1 /\ ppartial = FALSE /\ puser = "" /\ lastPk = NoPk
        /\ gFail = [n |-> 0, free |-> 0] /\ path = <<>>

(***************************************************************************)
(* Handling of one request: a pure function of (state, request) to a       *)
(* result record, then Apply.                                              *)
(*   kind = "term": serverAuthenticate returns an error at once            *)
(*   kind = "pkok": PK_OK is written and the loop continues                *)
(*   kind = "auth": the method produced (perms, authErr) = (p, res) and    *)
(*                  falls through to the common tail of the loop           *)
(***************************************************************************)
R(kind, res, p, cbl, nc, pre, lp) == [kind |-> kind, res |-> res, p |-> p, cbl |-> cbl, cache |-> nc, pre |-> pre, lastPk |-> lp]
Term(cbl, nc, pre, lp) == R("term", Reject, NilPerms, cbl, nc, pre, lp)
Auth(res, p, cbl, nc, pre, lp) == R("auth", res, p, cbl, nc, pre, lp)
Fail0 == Auth(Reject, NilPerms, <<>>, cache, <<>>, lastPk)      \* ErrNoAuth / "not configured" / unknown method

VerifyOK(req) == req.sig = "valid" /\ req.fmt \in AlgosForKeyFormat(BaseKeyType(req.k))

HandleNone(req) ==
  IF C.noClientAuth /\ ~partial
  THEN IF C.hasNoneCb THEN Auth(C.noneCb, C.noneCb.perms, <<Cb("none", 0, req.u, "")>>, cache, <<>>, lastPk)
       ELSE Auth(Accept(NilPerms), NilPerms, <<>>, cache, <<>>, lastPk)
  ELSE Fail0

HandlePassword(req) ==
  IF ~St.hasPw THEN Fail0
  ELSE IF req.arg = "malformed" THEN Term(<<>>, cache, <<>>, lastPk)
  ELSE LET o == IF req.arg = "good" THEN St.pw[req.u] ELSE Reject
       IN Auth(o, o.perms, <<Cb("password", stage, req.u, "")>>, cache, <<>>, lastPk)

\* The harness' callback issues one challenge; "badresp" answers it with a packet of the wrong type.
HandleKbd(req) ==
  IF ~St.hasKbd THEN Fail0
  ELSE LET o == IF req.arg = "good" THEN St.kbd[req.u] ELSE Reject
       IN Auth(o, o.perms, <<Cb("kbdint", stage, req.u, "")>>, cache, <<PInfoRequest>>, lastPk)

HandlePk(req) ==
  IF ~St.hasPk THEN Fail0
  ELSE IF Underlying(req.algo) \notin C.pkaa THEN Fail0
  ELSE IF req.k = "junk" THEN Fail0                       \* ParsePublicKey fails: plain failure
  ELSE
  LET hit == cache.valid /\ cache.u = req.u /\ cache.k = req.k
      raw == St.pk[req.u][req.k]
      misuse == ~hit /\ raw.t = "partial" /\ C.hasVerified
      filled == IF raw.t \in {"accept", "partial"} /\ ~SrcOK(C.remote, raw.perms) THEN SrcFail(raw) ELSE raw
      ent == IF hit THEN cache ELSE [valid |-> TRUE, u |-> req.u, k |-> req.k, res |-> filled]
      cbl == IF hit THEN <<>> ELSE <<Cb("publickey", stage, req.u, req.k)>>
      lp == IF hit THEN lastPk ELSE [u |-> req.u, k |-> req.k]
      asFailure == IF ent.res.t = "banner" THEN ent.res ELSE Reject
  IN
  IF misuse THEN Term(cbl, cache, <<>>, lp)
  ELSE IF req.m = "pkquery" THEN
       IF req.arg = "trailing" THEN Term(cbl, ent, <<>>, lp)
       ELSE IF ent.res.t \in {"accept", "partial"} THEN R("pkok", ent.res, NilPerms, cbl, ent, <<>>, lp)
       ELSE Auth(asFailure, NilPerms, cbl, ent, <<>>, lp)
  ELSE \* signed request
       IF req.sig \in {"malformed", "trailing"} THEN Term(cbl, ent, <<>>, lp)
       ELSE IF req.algo \notin AlgosForKeyFormat(KeyType(req.k)) THEN Auth(Reject, NilPerms, cbl, ent, <<>>, lp)
       ELSE IF req.fmt \notin C.pkaa THEN Auth(Reject, NilPerms, cbl, ent, <<>>, lp)
       ELSE IF ~IsAlgoCompatible(req.algo, req.fmt) THEN Auth(Reject, NilPerms, cbl, ent, <<>>, lp)
       ELSE IF ~VerifyOK(req) THEN Term(cbl, ent, <<>>, lp)
       ELSE IF ent.res.t = "accept" /\ C.hasVerified
            THEN LET v == C.verified[req.k]
                     vp == IF v.t = "acceptSame" THEN ent.res.perms ELSE v.perms
                     vo == IF v.t = "acceptSame" THEN Accept(vp) ELSE v
                 IN Auth(vo, vp, cbl \o <<Cb("verified", 0, req.u, req.k)>>, ent, <<>>, lp)
            ELSE Auth(IF ent.res.t \in {"accept", "partial"} THEN ent.res ELSE asFailure, ent.res.perms, cbl, ent, <<>>, lp)

Handle(req) ==
  CASE req.m = "none" -> HandleNone(req)
    [] req.m = "password" -> HandlePassword(req)
    [] req.m = "kbdint" -> HandleKbd(req)
    [] req.m \in {"pkquery", "pksign"} -> HandlePk(req)
    [] OTHER -> Fail0                                   \* "unknown", "gssapi" (not configured)

\* loop head after a request that did not end the loop
LoopHead(f2, att2, resp) ==
  IF EffMax > 0 /\ f2 >= EffMax THEN [status |-> "disc_failures", out |-> resp \o <<PDisconnect("failures")>>]
  ELSE IF att2 >= MaxAttempts THEN [status |-> "disc_attempts", out |-> resp \o <<PDisconnect("attempts")>>]
  ELSE [status |-> "running", out |-> resp]

\* The post-state of handling req as a record (a pure state function: TLC evaluates it once per request,
\* binding it with \E over a singleton in Step).
Cur == [stage |-> stage, partial |-> partial, user |-> user, cache |-> cache, failures |-> failures,
        noneCount |-> noneCount, status |-> status, perms |-> NilPerms, out |-> <<>>, cbs |-> <<>>,
        puser |-> puser, lastPk |-> lastPk, gFail |-> gFail]

Post(req) ==
  IF req.m = "eof" THEN [Cur EXCEPT !.status = "eof"]                       \* readPacket returns io.EOF
  ELSE IF req.m \in {"badpacket", "wrongService"} \/ (partial /\ user # req.u)
  THEN [Cur EXCEPT !.status = "error"]                                      \* Unmarshal error / unknown service / user change after partial success
  ELSE
  LET first == attempts = 0                           \* calledBannerCallback is still false
      bcb == IF first /\ C.banner # "absent" THEN <<Cb("banner", 0, req.u, "")>> ELSE <<>>
      bpk == IF first /\ C.banner = "text" THEN <<PBanner("motd")>> ELSE <<>>
      h == Handle(req)
      nc2 == IF req.m = "none" THEN noneCount + 1 ELSE noneCount
      \* tail of the loop: the source-address check on the final Permissions
      res == IF h.res.t = "accept" /\ ~SrcOK(C.remote, h.p) THEN SrcFail(h.res) ELSE h.res
      eb == IF res.t = "banner" /\ res.msg # "" THEN <<PBanner(res.msg)>> ELSE <<>>
      pre == bpk \o h.pre
      B == [Cur EXCEPT !.user = req.u, !.noneCount = nc2, !.cbs = bcb \o h.cbl, !.lastPk = h.lastPk, !.cache = h.cache]
  IN
  CASE h.kind = "term" -> [B EXCEPT !.status = "error", !.out = pre]
    [] h.kind = "pkok" ->
         LET lh == LoopHead(failures, attempts + 1, pre \o <<PPkOk(req.algo, req.k)>>) IN
         [B EXCEPT !.status = lh.status, !.out = lh.out]
    [] h.kind = "auth" /\ res.t = "accept" -> [B EXCEPT !.status = "success", !.out = pre \o <<PSuccess>>, !.perms = h.p]
    [] h.kind = "auth" /\ res.t = "partial" ->
         IF h.p # NilPerms THEN [B EXCEPT !.status = "error", !.out = pre]   \* "permissions must be nil when returning PartialSuccessError"
         ELSE
         LET ms == Methods(C.stages[res.next])
             lh == LoopHead(failures, attempts + 1, pre \o <<PFailure(ms, TRUE)>>)
             B2 == [B EXCEPT !.partial = TRUE, !.stage = res.next, !.cache = NoCache, !.puser = IF partial THEN puser ELSE req.u]
         IN IF ms = <<>> THEN [B2 EXCEPT !.status = "error", !.out = pre]     \* "no authentication methods available"
            ELSE [B2 EXCEPT !.status = lh.status, !.out = lh.out]
    [] OTHER ->   \* plain failure (reject, banner, srcfail)
         LET free == failures = 0 /\ req.m = "none" /\ nc2 = 1                \* "Allow initial attempt of 'none' without penalty"
             f2 == IF free THEN failures ELSE failures + 1
             ms == Methods(St)
             hitMax == EffMax > 0 /\ f2 >= EffMax
             lh == LoopHead(f2, attempts + 1, pre \o eb \o (IF hitMax THEN <<>> ELSE <<PFailure(ms, FALSE)>>))
             B2 == [B EXCEPT !.failures = f2, !.gFail = [n |-> gFail.n + 1, free |-> IF free THEN 1 ELSE gFail.free]]
         IN IF ~hitMax /\ ms = <<>> THEN [B2 EXCEPT !.status = "error", !.out = pre \o eb]
            ELSE [B2 EXCEPT !.status = lh.status, !.out = lh.out]

Step(req) ==
  /\ status = "running" /\ attempts < Bound
  /\ \E ns \in {Post(req)} :
       /\ stage' = ns.stage /\ partial' = ns.partial /\ user' = ns.user /\ cache' = ns.cache
       /\ failures' = ns.failures /\ noneCount' = ns.noneCount /\ status' = ns.status /\ perms' = ns.perms
       /\ out' = ns.out /\ cbs' = ns.cbs /\ puser' = ns.puser /\ lastPk' = ns.lastPk /\ gFail' = ns.gFail
  /\ attempts' = attempts + 1 /\ UNCHANGED cfg
  /\ last' = req /\ pstage' = stage /\ ppartial' = partial
  /\ path' = IF C.allpaths THEN Append(path, req) ELSE path

Next == \E r \in ReqAt(C.alpha, attempts) : Step(r)
Spec == Init /\ [][Next]_vars

(***************************************************************************)
(*                              PROPERTIES                                 *)
(***************************************************************************)
Statuses == {"running", "success", "error", "eof", "disc_failures", "disc_attempts"}
TypeOK == /\ status \in Statuses /\ stage \in 1..Len(C.stages) /\ pstage \in 1..Len(C.stages)
          /\ failures \in Nat /\ attempts \in 0..MaxAttempts /\ noneCount \in Nat
          /\ (cache.valid => cache.u \in Users /\ cache.k \in Keys)

PS0 == C.stages[pstage]     \* the callbacks in force when the last request arrived

\* ---------------- C32 ----------------
\* "made with an allowed algorithm compatible with the key", stated without the code's helper isAlgoCompatible
AllowedAndCompatible(k, algo, fmt) ==
  /\ Underlying(algo) \in C.pkaa /\ fmt \in C.pkaa
  /\ algo \in AlgosForKeyFormat(KeyType(k))
  /\ fmt \in AlgosForKeyFormat(BaseKeyType(k))

\* (A1) success only if the final request satisfied its method
SoundSuccess ==
  status = "success" =>
    CASE last.m = "none" -> C.noClientAuth /\ ~ppartial /\ (C.hasNoneCb => C.noneCb.t = "accept")
      [] last.m = "password" -> PS0.hasPw /\ last.arg = "good" /\ PS0.pw[last.u].t = "accept"
      [] last.m = "kbdint" -> PS0.hasKbd /\ last.arg = "good" /\ PS0.kbd[last.u].t = "accept"
      [] last.m = "pksign" -> /\ PS0.hasPk /\ last.k \in Keys /\ last.sig = "valid"
                              /\ AllowedAndCompatible(last.k, last.algo, last.fmt)
                              /\ PS0.pk[last.u][last.k].t = "accept"
                              /\ (C.hasVerified => C.verified[last.k].t \in {"accept", "acceptSame"})
      [] OTHER -> FALSE

\* (A2) the Permissions returned are those of the final successful callback (after VerifiedPublicKeyCallback)
ExpectedPerms ==
  CASE last.m = "none" -> IF C.hasNoneCb THEN C.noneCb.perms ELSE NilPerms
    [] last.m = "password" -> PS0.pw[last.u].perms
    [] last.m = "kbdint" -> PS0.kbd[last.u].perms
    [] last.m = "pksign" -> IF C.hasVerified /\ C.verified[last.k].t = "accept" THEN C.verified[last.k].perms
                            ELSE PS0.pk[last.u][last.k].perms
    [] OTHER -> NilPerms
PermsFromFinalCallback == status = "success" => perms = ExpectedPerms

\* (A3) partial successes switch to the callbacks they name: callbacks consulted while handling a request
\* belong to the stage in force when it arrived; the stage changes only by a partial success naming the new one.
DeclaredOutcome ==   \* what the configured tables say about the last request, independent of the transcription
  CASE last.m = "none" -> IF C.noClientAuth /\ ~ppartial /\ C.hasNoneCb THEN C.noneCb ELSE AbsentO
    [] last.m = "password" -> IF PS0.hasPw /\ last.arg = "good" THEN PS0.pw[last.u] ELSE AbsentO
    [] last.m = "kbdint" -> IF PS0.hasKbd /\ last.arg = "good" THEN PS0.kbd[last.u] ELSE AbsentO
    [] last.m = "pksign" /\ last.k \in Keys -> IF ~PS0.hasPk THEN AbsentO
                            ELSE IF C.hasVerified THEN C.verified[last.k] ELSE PS0.pk[last.u][last.k]
    [] OTHER -> AbsentO
PartialSwitch ==
  /\ \A i \in 1..Len(cbs) : cbs[i].stage \in {0, pstage}
  /\ (stage # pstage \/ partial # ppartial) =>
        /\ partial /\ DeclaredOutcome.t = "partial" /\ DeclaredOutcome.next = stage /\ DeclaredOutcome.perms = NilPerms
        /\ cache = NoCache
  /\ (~partial => stage = 1)
NoneOnlyBeforePartial == (status = "success" /\ last.m = "none") => ~ppartial

\* ---------------- C33 ----------------
\* (L1) disconnect once MaxAuthTries failures occurred; the first none request is free if no failure preceded it
FailureLimit ==
  /\ failures = gFail.n - gFail.free
  /\ EffMax > 0 => /\ failures <= EffMax
                   /\ (failures >= EffMax <=> status = "disc_failures")
  /\ EffMax <= 0 => status # "disc_failures"
  /\ (gFail.free = 1 => noneCount >= 1)
\* (L2) at most MaxAttempts requests are processed
AttemptLimit ==
  /\ attempts <= MaxAttempts
  /\ (status = "running" => attempts < MaxAttempts)
  /\ (status = "disc_attempts" => attempts = MaxAttempts)
\* (L3) no user change after a partial success
UserBound ==
  /\ (partial /\ status \in {"running", "success", "disc_failures", "disc_attempts"}) => user = puser
  /\ (ppartial /\ status = "success") => last.u = puser
\* (L4) source-address of every successful Permissions is enforced (incl. those VerifiedPublicKeyCallback replaced)
SrcEnforced ==
  status = "success" =>
     /\ SrcOK(C.remote, perms)
     /\ (last.m = "pksign" => SrcOK(C.remote, PS0.pk[last.u][last.k].perms))
\* PK_OK is only sent for a key whose PublicKeyCallback Permissions pass the check (queries fail before the client signs)
PkOkSrc ==
  (\E i \in 1..Len(out) : out[i].t = "PK_OK") => (last.m = "pkquery" /\ SrcOK(C.remote, PS0.pk[last.u][last.k].perms)
                                                   /\ PS0.pk[last.u][last.k].t \in {"accept", "partial"})
\* (L5) the last PublicKeyCallback invocation before a publickey success is for the authenticating (user, key)
LastPkIsAuthKey == (status = "success" /\ last.m = "pksign") => lastPk = [u |-> last.u, k |-> last.k]

(***************************************************************************)
(* Exploration aids.  View hides what no step ever reads (the outputs and   *)
(* the last-request ghosts), so TLC expands each distinct loop state once;  *)
(* the properties are then evaluated on the post-state of EVERY transition  *)
(* (state x request) by the action constraint CheckAC, which is evaluated   *)
(* before TLC discards a successor as already seen.  While the 128-request  *)
(* cap is out of reach only "attempts = 0" matters to a step.  For          *)
(* configurations with allpaths the request path is part of the view, so    *)
(* every history is explored (and printed) separately: a defect in the      *)
(* code usually adds state the model does not have, and that is only        *)
(* exposed by reaching the same model state through different pasts.        *)
(***************************************************************************)
ViewAttempts == IF MaxAttempts > Bound + 1 THEN (IF attempts = 0 THEN 0 ELSE 1) ELSE attempts
View == <<cfg.name, stage, partial, user, cache, failures, ViewAttempts, noneCount, status, puser, lastPk, gFail, path>>
CheckAC ==
  /\ Assert(TypeOK', "design: TypeOK") /\ Assert(SoundSuccess', "design: SoundSuccess")
  /\ Assert(PermsFromFinalCallback', "design: PermsFromFinalCallback") /\ Assert(PartialSwitch', "design: PartialSwitch")
  /\ Assert(NoneOnlyBeforePartial', "design: NoneOnlyBeforePartial") /\ Assert(FailureLimit', "design: FailureLimit")
  /\ Assert(AttemptLimit', "design: AttemptLimit") /\ Assert(UserBound', "design: UserBound")
  /\ Assert(SrcEnforced', "design: SrcEnforced") /\ Assert(PkOkSrc', "design: PkOkSrc")
  /\ Assert(LastPkIsAuthKey', "design: LastPkIsAuthKey")
=============================================================================
