SPECIFICATION TraceSpec
CONSTANTS
  Windows = {1}
  MaxPayloads = {1}
  Budget <- TraceBudget
  MaxCalls = 0
  MaxRead = 0
  Greedy = FALSE
  CreditFirst = TRUE
  RecvPolicy = "any"
  CreditRoom <- TraceCreditRoom
  Chunks <- TraceChunks
INVARIANT TraceInv
CONSTRAINT HWM
POSTCONDITION TraceAccepted
CHECK_DEADLOCK FALSE
