-------------------------------- MODULE Armor --------------------------------
(***************************************************************************)
(* OpenPGP ASCII armor (RFC 4880 section 6) as implemented by              *)
(* /repo/openpgp/armor: encode.go (Encode: lineBreaker, encoding.Close)    *)
(* and armor.go (Decode, lineReader.Read, openpgpReader.Read, crc24).      *)
(*                                                              [C46]      *)
(*                                                                         *)
(* Executable definitions (binding E): radix-64 (RFC 4648 section 4) and   *)
(* CRC-24 (RFC 4880 section 6.1: init 0xB704CE, generator 0x1864CFB) are   *)
(* defined here and *evaluated* by TLC; the ASSUMEs at the end are the     *)
(* published vectors, so a wrong definition refuses to run.                *)
(*                                                                         *)
(* A block is  -----BEGIN <type>-----  LF  (key ": " value LF)*  LF        *)
(*             radix-64 of the body in 64-column lines                     *)
(*             LF "=" radix-64(CRC-24(body))  LF  -----END <type>-----     *)
(*                                                                         *)
(* One behaviour = one input: Init picks (type, header list, body),        *)
(* DoEncode produces the block text, Mutate optionally damages it (one bit *)
(* of the body/CRC region, a different CRC, no CRC line), DoDecode applies *)
(* the transcription of armor.Decode + reading Body to EOF.                *)
(* Bytes are integers 0..255, texts are sequences of bytes.                *)
(***************************************************************************)
EXTENDS Integers, Sequences, FiniteSets, Bitwise, SequencesExt, TLC, PrimWords   \* PrimWords: Force, FlipBit, Pat

CONSTANTS Inputs,        \* set of [id, typ, hdrs (sequence of <<key, value>>), body, flip (BOOLEAN: enumerate bit flips for this input)]
          Mutations      \* subset of {"none", "flip", "wrongcrc", "dropcrc"}

VARIABLES inp, text, mut, res, phase
vars == <<inp, text, mut, res, phase>>

LF == 10
CR == 13
SP == 32
EQ == 61
DASH == 45
COLON == 58
Dashes5  == <<45, 45, 45, 45, 45>>
BeginPfx == <<45, 45, 45, 45, 45, 66, 69, 71, 73, 78, 32>>      \* "-----BEGIN "
EndPfx   == <<45, 45, 45, 45, 45, 69, 78, 68, 32>>              \* "-----END "
LineCols == 64           \* newLineBreaker(out, 64)
MaxBodyLine == 96        \* lineReader: longer body lines are ArmorCorrupt
ReadBuf == 100           \* bufio.NewReaderSize(in, 100): lines of >= 100 bytes are split by ReadLine

HasPrefix(s, p) == Len(s) >= Len(p) /\ SubSeq(s, 1, Len(p)) = p

(* Behaviour of the code before two repairs, kept only so that the old counterexamples stay documented: a cfg can override
   these two operators (`PreFixShortCrc <- AlwaysTrue`, see Armor_ShortCrc.cfg / Armor_OldEmptyValue.cfg).  The default is the
   repaired code (/repo 5d307c4: a checksum line that does not decode to 3 octets is ArmorCorrupt; /repo 91fc6da: a trimmed
   header line ending in ':' is a key with an empty value).  The checks never expect the pre-fix behaviour of the code. *)
PreFixShortCrc == FALSE
PreFixEmptyValue == FALSE

-----------------------------------------------------------------------------
(* radix-64, RFC 4648 section 4 *)
B64Char(v) == IF v < 26 THEN 65 + v ELSE IF v < 52 THEN 71 + v ELSE IF v < 62 THEN v - 4
              ELSE IF v = 62 THEN 43 ELSE 47
B64Val(c) == IF c >= 65 /\ c <= 90 THEN c - 65 ELSE IF c >= 97 /\ c <= 122 THEN c - 71
             ELSE IF c >= 48 /\ c <= 57 THEN c + 4 ELSE IF c = 43 THEN 62 ELSE IF c = 47 THEN 63 ELSE -1
IsB64(c) == B64Val(c) >= 0

Enc3(a, b, c) == <<B64Char(a \div 4), B64Char((a % 4) * 16 + (b \div 16)), B64Char((b % 16) * 4 + (c \div 64)), B64Char(c % 64)>>
Enc2(a, b)    == <<B64Char(a \div 4), B64Char((a % 4) * 16 + (b \div 16)), B64Char((b % 16) * 4), EQ>>
Enc1(a)       == <<B64Char(a \div 4), B64Char((a % 4) * 16), EQ, EQ>>

B64Encode(s) ==
  LET n == Len(s)
      q == n \div 3
      full == FlattenSeq([i \in 1..q |-> Enc3(s[3*i - 2], s[3*i - 1], s[3*i])])
  IN full \o (IF n % 3 = 1 THEN Enc1(s[n]) ELSE IF n % 3 = 2 THEN Enc2(s[n - 1], s[n]) ELSE <<>>)

(* CRC-24, RFC 4880 section 6.1 (the C code there, bit by bit) *)
CrcInit == 11994318          \* 0xB704CE
CrcPoly == 25578747          \* 0x1864CFB
CrcStep(c) == LET d == c * 2 IN IF d >= 16777216 THEN d ^^ CrcPoly ELSE d
CrcByte(c, b) == CrcStep(CrcStep(CrcStep(CrcStep(CrcStep(CrcStep(CrcStep(CrcStep(c ^^ (b * 65536)))))))))
\* The same function byte-at-a-time (for speed: TLC evaluates the 256-entry table once).  CrcByteT = CrcByte is ASSUMEd below
\* for every byte value at a set of register values, and the published check value is computed through it.
CrcTable == [i \in 0..255 |-> CrcByte(0, i) % 16777216]
CrcByteT(c, b) == ((c % 65536) * 256) ^^ CrcTable[(c \div 65536) ^^ b]         \* c < 2^24
RECURSIVE CrcFrom(_, _, _)
CrcFrom(c, s, i) == IF i > Len(s) THEN c ELSE CrcFrom(CrcByteT(c, s[i]), s, i + 1)
Crc24(s) == CrcFrom(CrcInit, s, 1)
RECURSIVE CrcFromBitwise(_, _, _)
CrcFromBitwise(c, s, i) == IF i > Len(s) THEN c ELSE CrcFromBitwise(CrcByte(c, s[i]) % 16777216, s, i + 1)
Crc24Bitwise(s) == CrcFromBitwise(CrcInit, s, 1)
CrcBytes(c) == <<c \div 65536, (c \div 256) % 256, c % 256>>

-----------------------------------------------------------------------------
(* Encode: what armor.Encode + Write(body) + Close put on the wire.  The header list is a sequence
   because a Go map is iterated in an unspecified order; the harness compares header lines as a set. *)
Chunks(s, k) == [i \in 1..((Len(s) + k - 1) \div k) |-> SubSeq(s, (i - 1) * k + 1, IF i * k < Len(s) THEN i * k ELSE Len(s))]
RECURSIVE JoinLF(_)
JoinLF(ls) == IF Len(ls) = 0 THEN <<>> ELSE IF Len(ls) = 1 THEN ls[1] ELSE ls[1] \o <<LF>> \o JoinLF(Tail(ls))

HeaderLine(kv) == kv[1] \o <<COLON, SP>> \o kv[2] \o <<LF>>
BodyText(body) == JoinLF(Chunks(B64Encode(body), LineCols))         \* no LF after the last line (lineBreaker.Close)
CrcLine(c) == <<EQ>> \o B64Encode(CrcBytes(c))

Prolog(typ, hdrs) == BeginPfx \o typ \o Dashes5 \o <<LF>> \o FlattenSeq([i \in 1..Len(hdrs) |-> HeaderLine(hdrs[i])]) \o <<LF>>
Epilog(typ) == <<LF>> \o EndPfx \o typ \o Dashes5                   \* no trailing LF
EncodeWith(typ, hdrs, body, c) == Prolog(typ, hdrs) \o BodyText(body) \o <<LF>> \o CrcLine(c) \o Epilog(typ)
Encode(typ, hdrs, body) == EncodeWith(typ, hdrs, body, Crc24(body))
EncodeNoCrc(typ, hdrs, body) == Prolog(typ, hdrs) \o BodyText(body) \o Epilog(typ)

\* the region the property's "CRC does not match" clause speaks about: first body character .. last CRC character
RegionLo(typ, hdrs) == Len(Prolog(typ, hdrs)) + 1
RegionHi(typ, hdrs, body) == Len(Prolog(typ, hdrs)) + Len(BodyText(body)) + 1 + 5

-----------------------------------------------------------------------------
(* Decode, transcribed.  bufio.Reader.ReadLine: lines end at LF, a CR before that LF is dropped, a last
   unterminated line is returned as it is; lines of >= ReadBuf bytes come in pieces (isPrefix). *)
RECURSIVE SplitFrom(_, _, _)
SplitFrom(t, i, start) ==      \* lines of t[start..], scanning at i
  IF i > Len(t) THEN (IF start <= Len(t) THEN <<SubSeq(t, start, Len(t))>> ELSE <<>>)
  ELSE IF t[i] = LF
       THEN LET e == IF i - 1 >= start /\ t[i - 1] = CR THEN i - 2 ELSE i - 1
            IN <<SubSeq(t, start, e)>> \o SplitFrom(t, i + 1, i + 1)
       ELSE SplitFrom(t, i + 1, start)
ReadLines(t) == SplitFrom(t, 1, 1)

IsSpace(c) == c \in {9, 10, 11, 12, 13, 32}          \* bytes.TrimSpace on ASCII
RECURSIVE TrimL(_)
TrimL(s) == IF Len(s) > 0 /\ IsSpace(s[1]) THEN TrimL(Tail(s)) ELSE s
RECURSIVE TrimR(_)
TrimR(s) == IF Len(s) > 0 /\ IsSpace(s[Len(s)]) THEN TrimR(SubSeq(s, 1, Len(s) - 1)) ELSE s
Trim(s) == TrimR(TrimL(s))

\* bytes.Index(line, ": "), 1-based, 0 if absent
RECURSIVE IdxColonSp(_, _)
IdxColonSp(s, i) == IF i + 1 > Len(s) THEN 0 ELSE IF s[i] = COLON /\ s[i + 1] = SP THEN i ELSE IdxColonSp(s, i + 1)

Fail(why) == [ok |-> FALSE, why |-> why, typ |-> <<>>, hdr |-> {}, body |-> <<>>, crcChecked |-> FALSE, afterPad |-> FALSE]

(* encoding/base64 (StdEncoding, not strict) over the filtered character stream: quanta of 4; a character
   outside the alphabet is an error; "xx==" / "xxx=" end a quantum early.  Whether data after a padded
   quantum is an error depends on how the stream happens to be cut into Read chunks (the streaming decoder
   only notices it inside one chunk), so the model continues ("lenient") and raises the flag afterPad. *)
RECURSIVE B64Stream(_, _, _, _)
B64Stream(s, i, acc, padSeen) ==
  LET n == Len(s) - i + 1 IN
  IF n = 0 THEN [ok |-> TRUE, bytes |-> acc, afterPad |-> FALSE]
  ELSE LET ap == padSeen IN
  IF n < 4 THEN [ok |-> FALSE, bytes |-> acc, afterPad |-> ap]                         \* io.ErrUnexpectedEOF
  ELSE LET a == s[i]  b == s[i + 1]  c == s[i + 2]  d == s[i + 3]
           va == B64Val(a)  vb == B64Val(b)  vc == B64Val(c)  vd == B64Val(d)
       IN IF va < 0 \/ vb < 0 THEN [ok |-> FALSE, bytes |-> acc, afterPad |-> ap]       \* also '=' at j = 0, 1
          ELSE IF c = EQ THEN
               IF d = EQ
               THEN LET r == B64Stream(s, i + 4, acc \o <<va * 4 + (vb \div 16)>>, TRUE)
                    IN [r EXCEPT !.afterPad = r.afterPad \/ ap \/ (n > 4)]
               ELSE [ok |-> FALSE, bytes |-> acc, afterPad |-> ap]
          ELSE IF vc < 0 THEN [ok |-> FALSE, bytes |-> acc, afterPad |-> ap]
          ELSE IF d = EQ THEN
               LET r == B64Stream(s, i + 4, acc \o <<va * 4 + (vb \div 16), (vb % 16) * 16 + (vc \div 4)>>, TRUE)
               IN [r EXCEPT !.afterPad = r.afterPad \/ ap \/ (n > 4)]
          ELSE IF vd < 0 THEN [ok |-> FALSE, bytes |-> acc, afterPad |-> ap]
          ELSE LET r == B64Stream(s, i + 4, acc \o <<va * 4 + (vb \div 16), (vb % 16) * 16 + (vc \div 4), (vc % 4) * 64 + vd>>, padSeen)
               IN [r EXCEPT !.afterPad = r.afterPad \/ ap]
NoCRLF(s) == SelectSeq(s, LAMBDA c : c # CR /\ c # LF)            \* newlineFilteringReader
B64DecodeAll(s) == B64Stream(NoCRLF(s), 1, <<>>, FALSE)

(* lineReader.Read over the lines after the blank line: collects the characters handed to the radix-64
   decoder and how the body ends: "end" (END line, no CRC seen), "crc" (CRC line + END line), "eof" (input
   ran out: the reader returns io.EOF and nothing is checked), "corrupt" (ArmorCorrupt / decode error). *)
RECURSIVE BodyLines(_, _, _)
BodyLines(ls, j, acc) ==
  IF j > Len(ls) THEN [term |-> "eof", chars |-> acc, crc |-> 0]
  ELSE LET line == ls[j] IN
    IF Len(line) >= ReadBuf THEN [term |-> "corrupt", chars |-> acc, crc |-> 0]       \* isPrefix
    ELSE IF HasPrefix(line, EndPfx) THEN [term |-> "end", chars |-> acc, crc |-> 0]
    ELSE IF Len(line) = 5 /\ line[1] = EQ THEN
         \* base64.StdEncoding.Decode(expectedBytes, line[1:]) -- one chunk, so trailing garbage is an error
         LET d == B64Stream(NoCRLF(SubSeq(line, 2, 5)), 1, <<>>, FALSE) IN
         IF ~d.ok \/ d.afterPad THEN [term |-> "corrupt", chars |-> acc, crc |-> 0]
         ELSE IF Len(d.bytes) # 3
              THEN IF PreFixShortCrc THEN BodyLines(ls, j + 1, acc)        \* pre-fix: "if m != 3 || err != nil { return }" with err = nil skipped the line
                   ELSE [term |-> "corrupt", chars |-> acc, crc |-> 0]      \* a padded checksum is not a CRC-24: ArmorCorrupt
         ELSE IF j + 1 <= Len(ls) /\ HasPrefix(ls[j + 1], EndPfx)
              THEN [term |-> "crc", chars |-> acc, crc |-> d.bytes[1] * 65536 + d.bytes[2] * 256 + d.bytes[3]]
              ELSE [term |-> "corrupt", chars |-> acc, crc |-> 0]
    ELSE IF Len(line) > MaxBodyLine THEN [term |-> "corrupt", chars |-> acc, crc |-> 0]
    ELSE BodyLines(ls, j + 1, acc \o line)

ReadBody(ls, j, typ, hdr) ==
  LET bl == BodyLines(ls, j, <<>>)
      dec == B64DecodeAll(bl.chars)
  IN IF bl.term = "corrupt" THEN Fail("armor-corrupt")
     ELSE IF ~dec.ok THEN [Fail("base64") EXCEPT !.afterPad = dec.afterPad]
     ELSE IF bl.term = "crc" /\ bl.crc # Crc24(dec.bytes) THEN [Fail("crc") EXCEPT !.afterPad = dec.afterPad]
     ELSE [ok |-> TRUE, why |-> bl.term, typ |-> typ, hdr |-> hdr, body |-> dec.bytes,
           crcChecked |-> (bl.term = "crc"), afterPad |-> dec.afterPad]

\* header lines from j on; hdr = set of <<key, value>> with later lines overriding earlier ones of the same key
Override(hdr, k, v) == {kv \in hdr : kv[1] # k} \cup {<<k, v>>}
RECURSIVE FindBlock(_, _)
RECURSIVE ReadHeaders(_, _, _, _)
ReadHeaders(ls, j, typ, hdr) ==
  IF j > Len(ls) THEN Fail("eof-in-headers")
  ELSE IF Len(ls[j]) >= ReadBuf THEN Fail("long-line-not-modelled")
  ELSE LET line == Trim(ls[j]) IN
    IF Len(line) = 0 THEN ReadBody(ls, j + 1, typ, hdr)
    ELSE LET i == IdxColonSp(line, 1) IN
      IF i = 0 THEN
           IF line[Len(line)] = COLON /\ ~PreFixEmptyValue
           THEN ReadHeaders(ls, j + 1, typ, Override(hdr, SubSeq(line, 1, Len(line) - 1), <<>>))    \* "Key: " written for an empty value, trimmed
           ELSE FindBlock(ls, j + 1)                            \* goto TryNextBlock
      ELSE ReadHeaders(ls, j + 1, typ, Override(hdr, SubSeq(line, 1, i - 1), SubSeq(line, i + 2, Len(line))))
FindBlock(ls, j) ==
  IF j > Len(ls) THEN Fail("no-block")
  ELSE IF Len(ls[j]) >= ReadBuf THEN FindBlock(ls, j + 1)        \* over-long lines are skipped as garbage (approximation, not generated)
  ELSE LET line == Trim(ls[j]) IN
    IF Len(line) > Len(BeginPfx) + 5 /\ HasPrefix(line, BeginPfx)
    THEN ReadHeaders(ls, j + 1, SubSeq(line, Len(BeginPfx) + 1, Len(line) - 5), {})
    ELSE FindBlock(ls, j + 1)

Decode(t) == FindBlock(ReadLines(t), 1)         \* armor.Decode followed by io.ReadAll(block.Body)

-----------------------------------------------------------------------------
(* The property's side: which header maps can round trip at all (declarative). *)
ContainsColonSp(s) == IdxColonSp(s, 1) # 0
HeaderSafe(kv) == /\ ~ContainsColonSp(kv[1])
                  /\ (Len(kv[1]) = 0 \/ ~IsSpace(kv[1][1]))                \* no leading space in the key
                  /\ (Len(kv[2]) = 0 \/ ~IsSpace(kv[2][Len(kv[2])]))       \* no trailing space in the value (an empty value is fine)
\* why an unsafe pair is unsafe (signature classes for the harness)
HeaderClass(kv) == IF ContainsColonSp(kv[1]) THEN "key-contains-colon-space"
                   ELSE IF Len(kv[1]) > 0 /\ IsSpace(kv[1][1]) THEN "key-leading-space"
                   ELSE IF Len(kv[2]) = 0 THEN "safe"                      \* (was the class "empty-value" before /repo 91fc6da)
                   ELSE IF IsSpace(kv[2][Len(kv[2])]) THEN "value-trailing-space"
                   ELSE "safe"
HdrSet(hdrs) == {hdrs[i] : i \in 1..Len(hdrs)}
DistinctKeys(hdrs) == \A i, j \in 1..Len(hdrs) : i # j => hdrs[i][1] # hdrs[j][1]

-----------------------------------------------------------------------------
(* mutations *)
NoMut == [k |-> "none", pos |-> 0, bit |-> 0]

Init == /\ inp \in Inputs
        /\ text = <<>>
        /\ mut = NoMut
        /\ res = Fail("-")
        /\ phase = "start"

DoEncode == /\ phase = "start"
            /\ text' = Encode(inp.typ, inp.hdrs, inp.body)
            /\ phase' = "encoded"
            /\ UNCHANGED <<inp, mut, res>>

Mutate ==
  /\ phase = "encoded"
  /\ phase' = "mutated"
  /\ \/ /\ "none" \in Mutations
        /\ mut' = NoMut /\ text' = text
     \/ /\ "flip" \in Mutations /\ inp.flip
        /\ \E p \in RegionLo(inp.typ, inp.hdrs)..RegionHi(inp.typ, inp.hdrs, inp.body), b \in 0..7 :
             /\ mut' = [k |-> "flip", pos |-> p, bit |-> b]
             /\ text' = FlipBit(text, p, b)
     \/ /\ "wrongcrc" \in Mutations
        /\ \E d \in {1, 8388608, 11994318} :       \* a different 24-bit value in a well-formed CRC line
             /\ mut' = [k |-> "wrongcrc", pos |-> d, bit |-> 0]
             /\ text' = EncodeWith(inp.typ, inp.hdrs, inp.body, (Crc24(inp.body) + d) % 16777216)
     \/ /\ "dropcrc" \in Mutations
        /\ mut' = [k |-> "dropcrc", pos |-> 0, bit |-> 0]
        /\ text' = EncodeNoCrc(inp.typ, inp.hdrs, inp.body)
  /\ UNCHANGED <<inp, res>>

DoDecode == /\ phase = "mutated"
            /\ res' = Decode(text)
            /\ phase' = "decoded"
            /\ UNCHANGED <<inp, text, mut>>

Next == DoEncode \/ Mutate \/ DoDecode
Spec == Init /\ [][Next]_vars

-----------------------------------------------------------------------------
(* properties *)
Decoded == phase = "decoded"
Same == res.ok /\ res.typ = inp.typ /\ res.hdr = HdrSet(inp.hdrs) /\ res.body = inp.body

\* C46 clause 1 wherever the header map is representable: type, headers and body come back, and the CRC was checked
RoundTrip == (Decoded /\ mut.k = "none" /\ DistinctKeys(inp.hdrs) /\ \A i \in 1..Len(inp.hdrs) : HeaderSafe(inp.hdrs[i]))
             => (Same /\ res.crcChecked /\ ~res.afterPad)
\* ... and exactly there (single-header maps): outside HeaderSafe the implementation does NOT round trip.
\* This is a statement about the code as it is; the harness reports the unsafe classes as findings.
HeaderExact == (Decoded /\ mut.k = "none" /\ Len(inp.hdrs) = 1) => (Same <=> HeaderSafe(inp.hdrs[1]))
\* C46 clause 2: a damaged body/CRC is rejected (in the lenient reading of data-after-padding, hence in both).
\* The only damage that is accepted leaves the decoded body AND the checked CRC intact: a flip in the unused low bits of the last
\* radix-64 character before "=" (encoding/base64.StdEncoding is not Strict()) -- the body and CRC that are compared still match.
\* History: before /repo 5d307c4 a checksum line "=xxx=" / "=xx==" (one bit: '5' or '9' -> '=' in the last CRC character) decoded
\* without error to fewer than 3 bytes and was skipped, so NO CRC was checked (finding C46-F1).  With PreFixShortCrc overridden
\* to TRUE TLC still refutes this invariant (Armor_ShortCrc.cfg, documentation only).
ShortCrcLine(t) == \E i \in 1..Len(ReadLines(t)) : LET l == ReadLines(t)[i] IN
                     /\ Len(l) = 5 /\ l[1] = EQ
                     /\ LET d == B64Stream(NoCRLF(SubSeq(l, 2, 5)), 1, <<>>, FALSE) IN d.ok /\ ~d.afterPad /\ Len(d.bytes) < 3
CorruptRejected == (Decoded /\ mut.k \in {"flip", "wrongcrc"}) => (~res.ok \/ (res.body = inp.body /\ res.crcChecked /\ mut.k = "flip"))
CorruptRejectedStrict == CorruptRejected          \* former name, still used by Armor_ShortCrc.cfg
\* a checksum line that is not a 24-bit CRC is never skipped
ShortCrcRejected == (Decoded /\ ShortCrcLine(text)) => ~res.ok
PadBitsOnly == (Decoded /\ mut.k = "flip" /\ res.ok /\ res.crcChecked) =>
                 LET bt == BodyText(inp.body)  q == mut.pos - RegionLo(inp.typ, inp.hdrs) + 1     \* 1-based index into the body text
                     k == IF Len(inp.body) % 3 = 1 THEN 16 ELSE 4                                 \* 4 resp. 2 unused low bits
                 IN /\ Len(inp.body) % 3 # 0 /\ q >= 1 /\ q < Len(bt) /\ bt[q + 1] = EQ /\ bt[q] # EQ
                    /\ IsB64(text[mut.pos]) /\ B64Val(text[mut.pos]) \div k = B64Val(bt[q]) \div k
\* this version accepts a block without a CRC line and then checks nothing (documented by the model, not demanded by C46)
MissingCrcAccepted == (Decoded /\ mut.k = "dropcrc" /\ \A i \in 1..Len(inp.hdrs) : HeaderSafe(inp.hdrs[i]) /\ DistinctKeys(inp.hdrs))
                      => (Same /\ ~res.crcChecked)
\* shape of the encoding: body lines are full 64-column lines except the last, all characters radix-64
BodyLinesOf(t) == LET ls == ReadLines(t) IN SubSeq(ls, Len(inp.hdrs) + 3, Len(ls) - 2)
Shape == phase = "encoded" =>
           LET bl == BodyLinesOf(text)  ls == ReadLines(text) IN
           /\ \A i \in 1..Len(bl) : /\ Len(bl[i]) <= LineCols
                                    /\ (i < Len(bl) => Len(bl[i]) = LineCols)
                                    /\ \A c \in 1..Len(bl[i]) : IsB64(bl[i][c]) \/ bl[i][c] = EQ
           /\ (Len(inp.body) > 0 => Len(bl) = (Len(B64Encode(inp.body)) + LineCols - 1) \div LineCols)
           /\ Len(ls[Len(ls) - 1]) = 5 /\ ls[Len(ls) - 1][1] = EQ
           /\ ls[Len(ls)] = EndPfx \o inp.typ \o Dashes5
           /\ ls[1] = BeginPfx \o inp.typ \o Dashes5
\* radix-64 decode inverts encode
B64Inverse == phase = "encoded" => LET d == B64DecodeAll(B64Encode(inp.body)) IN d.ok /\ d.bytes = inp.body /\ ~d.afterPad

-----------------------------------------------------------------------------
(* published vectors: RFC 4648 section 10; CRC-24/OPENPGP check value (reveng catalogue: 0x21CF02 for
   "123456789") and the CRC of the empty string = init (every empty OpenPGP armor ends "=twTO") *)
Str_f == <<102>>
Str_foobar == <<102, 111, 111, 98, 97, 114>>
ASSUME /\ B64Encode(<<>>) = <<>>
       /\ B64Encode(<<102>>) = <<90, 103, 61, 61>>                                       \* "Zg=="
       /\ B64Encode(<<102, 111>>) = <<90, 109, 56, 61>>                                  \* "Zm8="
       /\ B64Encode(<<102, 111, 111>>) = <<90, 109, 57, 118>>                            \* "Zm9v"
       /\ B64Encode(<<102, 111, 111, 98>>) = <<90, 109, 57, 118, 89, 103, 61, 61>>       \* "Zm9vYg=="
       /\ B64Encode(<<102, 111, 111, 98, 97>>) = <<90, 109, 57, 118, 89, 109, 69, 61>>   \* "Zm9vYmE="
       /\ B64Encode(Str_foobar) = <<90, 109, 57, 118, 89, 109, 70, 121>>                 \* "Zm9vYmFy"
       /\ B64Encode(<<251, 255, 191>>) = <<43, 47, 43, 47>>                              \* "+/+/"
       /\ \A v \in 0..63 : B64Val(B64Char(v)) = v
       /\ Cardinality({c \in 0..255 : IsB64(c)}) = 64
       /\ Crc24(<<>>) = 11994318
       /\ CrcLine(Crc24(<<>>)) = <<61, 116, 119, 84, 79>>                                \* "=twTO"
       /\ Crc24(<<49, 50, 51, 52, 53, 54, 55, 56, 57>>) = 2215682                        \* 0x21CF02
       /\ Crc24Bitwise(<<49, 50, 51, 52, 53, 54, 55, 56, 57>>) = 2215682
       /\ \A b \in 0..255 : \A c \in {0, 1, 11994318, 16777215, 8388608, 2215682, 65535, 65536} : CrcByteT(c, b) = CrcByte(c, b) % 16777216
=============================================================================
