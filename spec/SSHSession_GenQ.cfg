SPECIFICATION GenSpec
CONSTANTS
  MaxSrv = 2
  MaxCli = 2
  ReqBuf = 16
  Cfgs <- AllCfgs
  Lite = "full"
VIEW AbsView
CHECK_DEADLOCK FALSE
