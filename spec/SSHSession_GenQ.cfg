SPECIFICATION GenSpec
CONSTANTS
  MaxSrv = 2
  MaxCli = 2
  Cfgs <- AllCfgs
  Lite = "full"
VIEW AbsView
CHECK_DEADLOCK FALSE
