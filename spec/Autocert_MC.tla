----------------------------- MODULE Autocert_MC -----------------------------
(* Bounded instances of Autocert and the decision-table generator (binding R). *)
EXTENDS Autocert, Json, Sequences
MCView == cvars
AllNames == GoodNames \cup BadNames
AllCache == MissLike \cup {"good", "badkeyder"}
\* one line per completed one-process behaviour: inputs and the model's prediction
Emit == AllDone => PrintT("TRACE " \o ToJson([
            policy |-> policyOK, clock |-> clock, cache |-> cache0, tokenCache |-> tokenCache,
            nc |-> [g \in Procs |-> nc[g]], kt |-> [g \in Procs |-> kt[g]], tok |-> [g \in Procs |-> tok[g]],
            res |-> [g \in Procs |-> [t |-> res[g].t, why |-> res[g].why, src |-> res[g].cert.src]],
            orders |-> orders, finalcache |-> cache, ev |-> ev]))
=============================================================================
