---------------------------- MODULE SpongeBufImpl ----------------------------
(***************************************************************************)
(* C08 - implementation-shaped specification of the sponge bookkeeping of  *)
(* /repo/sha3/legacy_hash.go (type state: a, n, rate, state; permute,      *)
(* padAndPermute, Write, Read, Sum on a clone, Reset) and of the SHAKE     *)
(* wrapper of /repo/sha3/shake.go around the standard library's Digest     *)
(* (crypto/internal/fips140/sha3, which is the same Write/Read/Sum code):  *)
(* shakeWrapper{SHAKE, outputLen, squeezing, newSHAKE}; Read sets the      *)
(* flag, Sum panics on the flag and otherwise reads from a Clone, Clone    *)
(* copies the sponge through MarshalBinary/UnmarshalBinary (a, n, state    *)
(* are carried over) and copies the flag, Reset is the embedded            *)
(* SHAKE.Reset (re-absorbs the cSHAKE prefix; leaves the flag alone).      *)
(*                                                                         *)
(* Bytes are symbolic.  A message byte is its position 0, 1, 2, ...; the   *)
(* domain byte is DS, the final pad bit FIN, the bytes of the cSHAKE       *)
(* prefix bytepad(...) are PFX - j.  A slot of the sponge state holds the  *)
(* *set* of symbols XORed into it since the last permutation (XOR of       *)
(* symbols = symmetric difference); the permutation is an uninterpreted    *)
(* function, so the state is `chain` (the blocks that were permuted in,    *)
(* in order) plus `cur`.  An output byte is the record                     *)
(* [c |-> chain, i |-> slot, x |-> pending xors] it was copied from.       *)
(* The definition (FIPS 202 sponge with pad10*1 and domain suffix, see     *)
(* PrimKeccak!Pad/Absorb/Squeeze) in the same symbolic terms is DefOut.    *)
(* TLC checks, on a scaled rate, that every byte returned by Read and Sum  *)
(* is the definition's byte (OutIsDefinition) and that the bookkeeping     *)
(* refines spec/SpongeBuf.tla (modes, panics, positions, Sum purity,       *)
(* Clone independence).                                                    *)
(***************************************************************************)
EXTENDS Integers, Sequences, FiniteSets

CONSTANTS Kinds, WSet, RSet, MaxLen, MaxOut, MaxObjs, ShakeResetAfterRead,
          Rate,      \* scaled rate in bytes
          OutLen,    \* default output length (Sum), < Rate as for every real function
          Prefixes   \* cSHAKE: numbers of bytes absorbed by the constructor and by Reset (multiples of Rate; 0 = SHAKE)
VARIABLES kind,      \* as in SpongeBuf
          prefix,    \* the prefix length of this behaviour (0 unless kind = "shake")
          impl, last
ivars == <<kind, prefix, impl, last>>

Ids == 1..MaxObjs
HasRead  == kind \in {"shake", "legacy"}
HasClone == kind \in {"shake", "fixed"}
DS == 0 - 1
FIN == 0 - 2
PFX == 0 - 10
Min(a, b) == IF a < b THEN a ELSE b
SymDiff(a, b) == (a \ b) \cup (b \ a)
EmptyBlk == [i \in 1..Rate |-> {}]

(***************************************************************************)
(* The sponge: d.a = (chain, cur), d.n, d.state                            *)
(***************************************************************************)
Zero == [chain |-> <<>>, cur |-> EmptyBlk, n |-> 0, dir |-> "absorbing"]
\* permute(): keccakF1600(a); d.n = 0
Permute(s) == [s EXCEPT !.chain = Append(@, s.cur), !.cur = EmptyBlk, !.n = 0]
\* Write's loop: x := XORBytes(d.a[d.n:d.rate], d.a[d.n:d.rate], p); d.n += x; p = p[x:]; if d.n == d.rate { permute }
RECURSIVE WriteLoop(_, _)
WriteLoop(s, p) ==
  IF Len(p) = 0 THEN s ELSE
  LET x  == Min(Rate - s.n, Len(p))
      s1 == [s EXCEPT !.cur = [i \in 1..Rate |-> IF i > s.n /\ i <= s.n + x THEN SymDiff(s.cur[i], {p[i - s.n]}) ELSE s.cur[i]],
                      !.n = s.n + x]
      s2 == IF s1.n = Rate THEN Permute(s1) ELSE s1
  IN WriteLoop(s2, SubSeq(p, x + 1, Len(p)))
\* padAndPermute(): d.a[d.n] ^= dsbyte; d.a[d.rate-1] ^= 0x80; permute; state = squeezing
PadAndPermute(s) ==
  LET c1 == [s.cur EXCEPT ![s.n + 1] = SymDiff(@, {DS})]
      c2 == [c1 EXCEPT ![Rate] = SymDiff(@, {FIN})]
  IN [Permute([s EXCEPT !.cur = c2]) EXCEPT !.dir = "squeezing"]
\* Read's loop: if d.n == d.rate { permute }; x := copy(out, d.a[d.n:d.rate]); d.n += x; out = out[x:]
RECURSIVE ReadLoop(_, _, _)
ReadLoop(s, rem, out) ==
  IF rem = 0 THEN [s |-> s, out |-> out] ELSE
  LET s1 == IF s.n = Rate THEN Permute(s) ELSE s
      x  == Min(Rate - s1.n, rem)
      bs == [k \in 1..x |-> [c |-> s1.chain, i |-> s1.n + k, x |-> s1.cur[s1.n + k]]]
  IN ReadLoop([s1 EXCEPT !.n = @ + x], rem - x, out \o bs)
DoRead(s, n) == ReadLoop(IF s.dir = "absorbing" THEN PadAndPermute(s) ELSE s, n, <<>>)
\* constructor / Reset: zero state, then (cSHAKE) bytepadWrite of the init block
Fresh == WriteLoop(Zero, [j \in 1..prefix |-> PFX - (j - 1)])

(***************************************************************************)
(* The definition in symbolic terms                                        *)
(***************************************************************************)
DefPadded(m) ==
  LET q   == Rate - ((prefix + m) % Rate)
      pad == IF q = 1 THEN << {DS, FIN} >> ELSE << {DS} >> \o [i \in 1..(q - 2) |-> {}] \o << {FIN} >>
  IN [j \in 1..prefix |-> {PFX - (j - 1)}] \o [k \in 1..m |-> {k - 1}] \o pad
DefBlocks(m) == LET P == DefPadded(m) IN [b \in 1..(Len(P) \div Rate) |-> [i \in 1..Rate |-> P[(b - 1) * Rate + i]]]
\* output byte j (0-based) of the sponge over the message m[0..m)
DefOut(m, j) == [c |-> DefBlocks(m) \o [q \in 1..(j \div Rate) |-> EmptyBlk], i |-> (j % Rate) + 1, x |-> {}]
DefSlice(m, from, n) == [k \in 1..n |-> DefOut(m, from + k - 1)]

(***************************************************************************)
(* Objects and calls                                                       *)
(***************************************************************************)
FreeObj == [st |-> "free", sp |-> Zero, flag |-> FALSE, total |-> 0, outp |-> 0]
NewObj  == [st |-> "live", sp |-> Fresh, flag |-> FALSE, total |-> 0, outp |-> 0]
Ev(op, o, n, pre, res, absorbed, from, o2, bytes) ==
  [op |-> op, o |-> o, n |-> n, pre |-> pre, res |-> res, absorbed |-> absorbed, from |-> from, o2 |-> o2, bytes |-> bytes]

Init == /\ kind \in Kinds
        /\ prefix \in (IF kind = "shake" THEN Prefixes ELSE {0})
        /\ impl = [i \in Ids |-> IF i = 1 THEN NewObj ELSE FreeObj]
        /\ last = Ev("new", 1, 0, "absorbing", "ok", 0, 0, 0, <<>>)

Live(o) == impl[o].st = "live"

Write(o, n) ==
  /\ Live(o) /\ UNCHANGED <<kind, prefix>>
  /\ IF impl[o].sp.dir # "absorbing"                                   \* panic("sha3: Write after Read")
     THEN /\ impl' = [impl EXCEPT ![o].st = "dead"]
          /\ last' = Ev("write", o, n, "squeezing", "panic", impl[o].total, 0, 0, <<>>)
     ELSE /\ impl[o].total + n <= MaxLen
          /\ impl' = [impl EXCEPT ![o].sp = WriteLoop(@, [k \in 1..n |-> impl[o].total + k - 1]), ![o].total = @ + n]
          /\ last' = Ev("write", o, n, "absorbing", "ok", impl[o].total + n, 0, 0, <<>>)

Read(o, n) ==
  /\ HasRead /\ Live(o) /\ UNCHANGED <<kind, prefix>>
  /\ impl[o].outp + n <= MaxOut
  /\ LET r == DoRead(impl[o].sp, n) IN
     /\ impl' = [impl EXCEPT ![o].sp = r.s, ![o].outp = @ + n,
                             ![o].flag = IF kind = "shake" THEN TRUE ELSE @]       \* w.squeezing = true
     /\ last' = Ev("read", o, n, impl[o].sp.dir, "ok", impl[o].total, impl[o].outp, 0, r.out)

\* legacy/stdlib Digest.Sum: panics unless absorbing; dup := clone; dup.Read(hash[:outputLen])
\* shakeWrapper.Sum: panics on the flag; s := w.Clone(); s.Read(out)
Sum(o) ==
  /\ Live(o) /\ UNCHANGED <<kind, prefix>>
  /\ LET refuse == IF kind = "shake" THEN impl[o].flag ELSE impl[o].sp.dir # "absorbing" IN
     IF refuse
     THEN /\ impl' = [impl EXCEPT ![o].st = "dead"]
          /\ last' = Ev("sum", o, 0, "squeezing", "panic", impl[o].total, 0, 0, <<>>)
     ELSE /\ UNCHANGED impl
          /\ last' = Ev("sum", o, 0, "absorbing", "ok", impl[o].total, 0, 0, DoRead(impl[o].sp, OutLen).out)

Clone(o) ==
  /\ HasClone /\ Live(o) /\ UNCHANGED <<kind, prefix>>
  /\ \E f \in Ids :
       /\ impl[f].st = "free"
       /\ \A g \in Ids : impl[g].st = "free" => f <= g
       /\ impl' = [impl EXCEPT ![f] = impl[o]]
       /\ last' = Ev("clone", o, 0, impl[o].sp.dir, "ok", impl[o].total, impl[o].outp, f, <<>>)

\* state.Reset / SHAKE.Reset: clear, absorbing, n = 0 (+ prefix); the wrapper's flag is not touched
Reset(o) ==
  /\ Live(o) /\ UNCHANGED <<kind, prefix>>
  /\ impl[o].sp.dir = "squeezing" => (kind = "legacy" \/ (kind = "shake" /\ ShakeResetAfterRead))
  /\ impl' = [impl EXCEPT ![o] = [NewObj EXCEPT !.flag = impl[o].flag]]
  /\ last' = Ev("reset", o, 0, impl[o].sp.dir, "ok", 0, 0, 0, <<>>)

Next == \E o \in Ids :
          \/ \E n \in WSet : Write(o, n)
          \/ \E n \in RSet : Read(o, n)
          \/ Sum(o) \/ Clone(o) \/ Reset(o)
Spec == Init /\ [][Next]_ivars

(***************************************************************************)
(* Refinement and the byte-level property                                  *)
(***************************************************************************)
AbsObjs == [o \in Ids |-> [st |-> impl[o].st, mode |-> impl[o].sp.dir, absorbed |-> impl[o].total, outPos |-> impl[o].outp]]
AbsLast == [op |-> last.op, o |-> last.o, n |-> last.n, pre |-> last.pre, res |-> last.res,
            absorbed |-> last.absorbed, from |-> last.from, o2 |-> last.o2]
Abs == INSTANCE SpongeBuf WITH objs <- AbsObjs, last <- AbsLast
Refines == Abs!Spec
AbsSumPure == Abs!SumPure
AbsIndependent == Abs!Independent
AbsCloneEqual == Abs!CloneEqual
AbsReadContiguous == Abs!ReadContiguous
AbsSqueezingIsFinal == Abs!SqueezingIsFinal
AbsInv == Abs!TypeOK /\ Abs!ModeInv /\ Abs!PanicIffAfterRead /\ Abs!NoOtherPanics

\* every byte handed out is the byte the definition puts at that position of Z(m[0..absorbed))
OutIsDefinition ==
  /\ (last.op = "read" /\ last.res = "ok") => last.bytes = DefSlice(last.absorbed, last.from, last.n)
  /\ (last.op = "sum" /\ last.res = "ok") => last.bytes = DefSlice(last.absorbed, 0, OutLen)
\* the bookkeeping invariant behind it
BookInv ==
  \A o \in Ids : impl[o].st = "live" =>
    LET s == impl[o].sp IN
    /\ s.dir = "absorbing" => /\ s.n = (prefix + impl[o].total) % Rate /\ s.n < Rate
                              /\ Len(s.chain) = (prefix + impl[o].total) \div Rate
                              /\ impl[o].outp = 0
    /\ s.dir = "squeezing" => /\ s.n \in 0..Rate /\ s.cur = EmptyBlk
                              /\ (Len(s.chain) - Len(DefBlocks(impl[o].total))) * Rate + s.n = impl[o].outp
\* the wrapper's flag says "squeezing" exactly when the sponge underneath is (O2: fails once Reset after Read is allowed)
FlagMatchesDir == \A o \in Ids : (kind = "shake" /\ impl[o].st = "live") => (impl[o].flag <=> impl[o].sp.dir = "squeezing")
\* behavioural form of the same: a Sum that panics finds the sponge squeezing
SumPanicsOnlyAfterRead == (last.op = "sum" /\ last.res = "panic") => impl[last.o].sp.dir = "squeezing"
=============================================================================
