SPECIFICATION Spec
CONSTANTS
  Menu <- MenuCompCS
  AEAD <- MCAEAD
INVARIANTS BothOrNeither Mirror RFCChoice FailIffNoCommon FindCommonIsRFC
CHECK_DEADLOCK FALSE
