--------------------------- MODULE StreamCipher_KS ---------------------------
(***************************************************************************)
(* C03, binding E: TLC evaluates the executable RFC 8439 / XChaCha20       *)
(* definitions (PrimChaCha) and prints the keystream tables and HChaCha20  *)
(* values that the Go harness compares the real chacha20.Cipher with.      *)
(* Keys and nonces are Pat(seed, len) (PrimWords).  base "zero": the       *)
(* stream starts at block counter 0; base "top": at 2^32 - L.              *)
(***************************************************************************)
EXTENDS PrimChaCha, TLC, Json

CONSTANTS KSCases,     \* set of [kseed, nseed, nlen, base, L, nb]
          HCCases      \* set of [kseed, nseed]
VARIABLE c
Init == c \in ({[t |-> "ks", x |-> k] : k \in KSCases} \cup {[t |-> "hc", x |-> k] : k \in HCCases})
Next == FALSE /\ UNCHANGED c
Spec == Init /\ [][Next]_c

BaseWord(k) == IF k.base = "zero" THEN <<0, 0>> ELSE <<65535, 65536 - k.L>>

Emit ==
  IF c.t = "ks" THEN
    LET k == c.x
        key == Pat(k.kseed, 32)
        nonce == Pat(k.nseed, k.nlen)
    IN PrintT("TRACE " \o ToJson([t |-> "ks", kseed |-> k.kseed, nseed |-> k.nseed, nlen |-> k.nlen,
                                  base |-> k.base, L |-> k.L,
                                  bytes |-> KS(EffKey(key, nonce), EffNonce(nonce), BaseWord(k), 0, 64 * k.nb)]))
  ELSE
    LET k == c.x IN
    PrintT("TRACE " \o ToJson([t |-> "hc", kseed |-> k.kseed, nseed |-> k.nseed,
                               bytes |-> HChaCha20(Pat(k.kseed, 32), Pat(k.nseed, 16))]))

KSRec(ks, ns, nl, b, l, nb) == [kseed |-> ks, nseed |-> ns, nlen |-> nl, base |-> b, L |-> l, nb |-> nb]
\* quick: a patterned key with a 12-byte nonce and the all-ones key with a 24-byte nonce; near-limit tables hold all L blocks
KSQuick == { KSRec(7, 47, 12, "top", 4, 4), KSRec(1, 41, 24, "top", 4, 4),
             KSRec(7, 47, 12, "zero", 0, 15), KSRec(1, 41, 24, "zero", 0, 15) }
KSThorough == { KSRec(ks, ks + 40, nl, "top", 6, 6) : ks \in {0, 1, 7, 23}, nl \in {12, 24} }
      \cup { KSRec(ks, ks + 40, nl, "top", 300, 3) : ks \in {7, 23}, nl \in {12, 24} }
      \cup { KSRec(ks, ks + 40, nl, "zero", 0, 24) : ks \in {0, 1, 7, 23}, nl \in {12, 24} }
HCQuick == { [kseed |-> a, nseed |-> b] : a \in {0, 1, 7}, b \in {0, 1, 9} }
HCThorough == { [kseed |-> a, nseed |-> b] : a \in {0, 1, 7, 23, 99}, b \in {0, 1, 9, 77} }
=============================================================================
