------------------------------ MODULE SSHChannel ------------------------------
(* Flow control and data integrity of ONE direction of ONE SSH channel (property C35).

   Models golang.org/x/crypto/ssh:
     channel.WriteExtended  (channel.go)  -- the per-stream write loop: BeginWrite / Reserve / SendData
     window.reserve / add   (common.go)   -- Reserve (blocks while win = 0) / RecvAdjust (wakes all)
     channel.handleData     (channel.go)  -- RecvData: max-payload and window checks, myWindow -= n,
                                             extended code > 1 discarded and credited back at once
     channel.ReadExtended + adjustWindow  -- Read / AdjustCS (threshold rule) / SendAdjust
     channel.CloseWrite / msgChannelEOF   -- SendEOF / RecvEOF
   One action per critical section: reserve (window lock), writePacket (writeMu), handleData
   (windowMu), buffer.Read, adjustWindow's critical section (windowMu), the window-adjust
   writePacket, window.add.  Both directions of a channel and all channels of a connection are
   independent instances of this module (they share only the packet FIFO, whose order per
   direction is kept by netF / netB).

   Streams: 0 = data, 1 = extended code 1 (stderr), 2 = any extended code > 1.  The Go code
   supports one concurrent writer per stream (WriteExtended shares a per-stream packet buffer:
   concurrent writers on the same stream are outside its contract), so the writers of a channel are
   the streams; they share the sender window `win`.

   Receiver policies:  "impl" = the Go receiver (credit is returned by the threshold rule of
   adjustWindow);  "any" = any compliant peer (credits any part of what it consumed, whenever it
   likes).  Sender: Greedy = TRUE takes min(win, maxPayload, remaining) like the Go code,
   FALSE = any non-empty smaller chunk (what the property allows). *)
EXTENDS Integers, Sequences, FiniteSets, TLC

CONSTANTS Windows,      \* candidate values of the window the receiver advertises
          MaxPayloads,  \* candidate values of the receiver's maximum payload per packet
          Budget,       \* [0..2 -> Nat]: bytes each stream's writer may write in total (0: no writer)
          MaxCalls,     \* Write calls per stream
          MaxRead,      \* largest single Read
          Greedy,       \* BOOLEAN
          RecvPolicy,   \* "impl" | "any"
          CreditFirst   \* BOOLEAN: TRUE = adjustWindow adds the credit to myWindow in its critical section, BEFORE the
                        \*   window adjust is written (the code); FALSE = myWindow is credited in a second critical
                        \*   section after the write returned (a design NoError / SenderWithinWindow must reject: the
                        \*   peer may react to the adjust before the local goroutine continues)

Strm == 0 .. 2
RdStrm == {0, 1}                     \* streams the receiving application can read
Procs == {0, 1, 2}                   \* adjustWindow callers: readers of stream 0 / 1, and 2 = the mux loop
                                      \* (discarded extended data)

VARIABLES
  ws, mp,        \* advertised window / max payload of this instance (fixed after Init)
  win,           \* sender: remoteWin.win
  wpc, wrem, whold, woff, wleft, wcalls,   \* per stream writer: pc, bytes left in this Write call,
                                            \* reserved chunk, bytes put on the wire, budget left, calls made
  eofSent,
  netF,          \* FIFO sender -> receiver: [t |-> "data", s, from, n] or [t |-> "eof", ...]
  netB,          \* FIFO receiver -> sender: window adjust amounts
  myWin, myCons, \* receiver: myWindow, myConsumed
  roff, rdoff,   \* per stream: bytes received / bytes read by the application
  apc, aamt,     \* adjustWindow pipeline per caller ("idle" | "adj" | "snd") and its amount  (policy impl)
  consumed, credited,   \* policy "any": bytes consumed so far / bytes credited so far
  eofRecv,
  err            \* "none" | "toobig" | "window": what the receiver reported

wvars == <<win, wpc, wrem, whold, woff, wleft, wcalls, eofSent>>
rvars == <<myWin, myCons, roff, rdoff, apc, aamt, consumed, credited, eofRecv, err>>
vars == <<ws, mp, wvars, netF, netB, rvars>>

Min(a, b) == IF a < b THEN a ELSE b
Data(s, from, n) == [t |-> "data", s |-> s, from |-> from, n |-> n]
EofPkt == [t |-> "eof", s |-> 0, from |-> 0, n |-> 0]

RECURSIVE SumSeqN(_), SumSeqA(_)
SumSeqN(q) == IF q = <<>> THEN 0 ELSE (IF Head(q).t = "data" THEN Head(q).n ELSE 0) + SumSeqN(Tail(q))
SumSeqA(q) == IF q = <<>> THEN 0 ELSE Head(q) + SumSeqA(Tail(q))
Sum3(f) == f[0] + f[1] + f[2]

InitWith(w, m) ==
  /\ ws = w /\ mp = m /\ win = w
  /\ wpc = [s \in Strm |-> "idle"] /\ wrem = [s \in Strm |-> 0] /\ whold = [s \in Strm |-> 0]
  /\ woff = [s \in Strm |-> 0] /\ wleft = Budget /\ wcalls = [s \in Strm |-> 0] /\ eofSent = FALSE
  /\ netF = <<>> /\ netB = <<>>
  /\ myWin = w /\ myCons = 0 /\ roff = [s \in Strm |-> 0] /\ rdoff = [s \in RdStrm |-> 0]
  /\ apc = [p \in Procs |-> "idle"] /\ aamt = [p \in Procs |-> 0]
  /\ consumed = 0 /\ credited = 0 /\ eofRecv = FALSE /\ err = "none"

Init == \E w \in Windows, m \in MaxPayloads : InitWith(w, m)

-----------------------------------------------------------------------------
(* Sender: channel.WriteExtended for stream s *)

\* window.reserve starts with writeWaiters++ and Broadcast(): every sleeping reserver re-checks.
WakeAll(pc) == [x \in Strm |-> IF pc[x] = "wait" THEN "res" ELSE pc[x]]

BeginWrite(s, len) ==                 \* Write(data), len(data) = len; returns at once when len = 0
  /\ wpc[s] = "idle" /\ ~eofSent
  /\ wrem' = [wrem EXCEPT ![s] = len]
  /\ wpc' = IF len > 0 THEN WakeAll([wpc EXCEPT ![s] = "res"]) ELSE wpc
  /\ wcalls' = [wcalls EXCEPT ![s] = @ + 1]
  /\ UNCHANGED <<ws, mp, win, whold, woff, wleft, eofSent, netF, netB, rvars>>

Chunks(k) == IF Greedy THEN {k} ELSE 1 .. k

Reserve(s) ==                          \* window.reserve under the window lock: sleep while win = 0
  /\ wpc[s] = "res"
  /\ IF win = 0
       THEN /\ wpc' = [wpc EXCEPT ![s] = "wait"]            \* Cond.Wait
            /\ UNCHANGED <<win, whold>>
       ELSE /\ \E k \in Chunks(Min(win, Min(mp, wrem[s]))) :
                 /\ win' = win - k
                 /\ whold' = [whold EXCEPT ![s] = k]
            /\ wpc' = [wpc EXCEPT ![s] = "send"]
  /\ UNCHANGED <<ws, mp, wrem, woff, wleft, wcalls, eofSent, netF, netB, rvars>>

SendData(s) ==                         \* ch.writePacket(packet) under writeMu
  /\ wpc[s] = "send"
  /\ netF' = Append(netF, Data(s, woff[s], whold[s]))
  /\ woff' = [woff EXCEPT ![s] = @ + whold[s]]
  /\ wrem' = [wrem EXCEPT ![s] = @ - whold[s]]
  /\ whold' = [whold EXCEPT ![s] = 0]
  /\ wpc' = IF wrem[s] = whold[s] THEN [wpc EXCEPT ![s] = "idle"]
            ELSE WakeAll([wpc EXCEPT ![s] = "res"])           \* next loop iteration re-enters reserve
  /\ UNCHANGED <<ws, mp, win, wleft, wcalls, eofSent, netB, rvars>>

SendEOF ==                             \* CloseWrite, after the writers have returned
  /\ ~eofSent /\ \A s \in Strm : wpc[s] = "idle"
  /\ eofSent' = TRUE
  /\ netF' = Append(netF, EofPkt)
  /\ UNCHANGED <<ws, mp, win, wpc, wrem, whold, woff, wleft, wcalls, netB, rvars>>

RecvAdjust ==                          \* handlePacket(windowAdjustMsg): remoteWin.add + Broadcast
  /\ netB # <<>>
  /\ win' = win + Head(netB)
  /\ netB' = Tail(netB)
  /\ wpc' = IF Head(netB) > 0 THEN WakeAll(wpc) ELSE wpc    \* (add(0) is a no-op without Broadcast)
  /\ UNCHANGED <<ws, mp, wrem, whold, woff, wleft, wcalls, eofSent, netF, rvars>>

-----------------------------------------------------------------------------
(* Receiver *)

Threshold(w) == (ws - w > 3 * mp) \/ (w < ws \div 2)      \* adjustWindow's rule (channelWindowSize = ws,
                                                           \* maxIncomingPayload = mp)

RecvData ==                            \* mux loop: readPacket + channel.handleData
  /\ netF # <<>> /\ Head(netF).t = "data" /\ err = "none"
  /\ apc[2] = "idle"                   \* the loop finished crediting the previous discarded packet
  /\ LET p == Head(netF) IN
       /\ netF' = Tail(netF)
       /\ IF p.n = 0 THEN UNCHANGED rvars
          ELSE IF p.n > mp THEN err' = "toobig" /\ UNCHANGED <<myWin, myCons, roff, rdoff, apc, aamt, consumed, credited, eofRecv>>
          ELSE IF p.n > myWin THEN err' = "window" /\ UNCHANGED <<myWin, myCons, roff, rdoff, apc, aamt, consumed, credited, eofRecv>>
          ELSE /\ myWin' = myWin - p.n
               /\ roff' = [roff EXCEPT ![p.s] = @ + p.n]
               /\ IF p.s = 2
                    THEN IF RecvPolicy = "impl"
                           THEN apc' = [apc EXCEPT ![2] = "adj"] /\ aamt' = [aamt EXCEPT ![2] = p.n] /\ UNCHANGED consumed
                           ELSE consumed' = consumed + p.n /\ UNCHANGED <<apc, aamt>>
                    ELSE UNCHANGED <<apc, aamt, consumed>>
               /\ UNCHANGED <<myCons, rdoff, credited, eofRecv, err>>
  /\ UNCHANGED <<ws, mp, wvars, netB>>

RecvEOF ==
  /\ netF # <<>> /\ Head(netF).t = "eof" /\ err = "none" /\ apc[2] = "idle"
  /\ netF' = Tail(netF) /\ eofRecv' = TRUE
  /\ UNCHANGED <<ws, mp, wvars, netB, myWin, myCons, roff, rdoff, apc, aamt, consumed, credited, err>>

Read(s, r) ==                          \* buffer.Read returned r bytes of stream s
  /\ s \in RdStrm /\ r >= 1 /\ r <= roff[s] - rdoff[s]
  /\ apc[s] = "idle"
  /\ rdoff' = [rdoff EXCEPT ![s] = @ + r]
  /\ IF RecvPolicy = "impl"
       THEN apc' = [apc EXCEPT ![s] = "adj"] /\ aamt' = [aamt EXCEPT ![s] = r] /\ UNCHANGED consumed
       ELSE consumed' = consumed + r /\ UNCHANGED <<apc, aamt>>
  /\ UNCHANGED <<ws, mp, wvars, netF, netB, myWin, myCons, roff, credited, eofRecv, err>>

AdjustCS(p) ==                         \* adjustWindow's critical section (policy impl)
  /\ RecvPolicy = "impl" /\ apc[p] = "adj"
  /\ LET c == myCons + aamt[p] IN
       IF Threshold(myWin)
         THEN /\ myCons' = 0 /\ myWin' = IF CreditFirst THEN myWin + c ELSE myWin
              /\ apc' = [apc EXCEPT ![p] = "snd"] /\ aamt' = [aamt EXCEPT ![p] = c]
         ELSE /\ myCons' = c /\ myWin' = myWin
              /\ apc' = [apc EXCEPT ![p] = "idle"] /\ aamt' = [aamt EXCEPT ![p] = 0]
  /\ UNCHANGED <<ws, mp, wvars, netF, netB, roff, rdoff, consumed, credited, eofRecv, err>>

SendAdjust(p) ==                       \* sendMessage(windowAdjustMsg)
  /\ RecvPolicy = "impl" /\ apc[p] = "snd"
  /\ netB' = Append(netB, aamt[p])                  \* from here on the peer can see (and use) the credit
  /\ IF CreditFirst THEN apc' = [apc EXCEPT ![p] = "idle"] /\ aamt' = [aamt EXCEPT ![p] = 0]
                    ELSE apc' = [apc EXCEPT ![p] = "crd"] /\ UNCHANGED aamt
  /\ UNCHANGED <<ws, mp, wvars, netF, myWin, myCons, roff, rdoff, consumed, credited, eofRecv, err>>

CreditAfter(p) ==                      \* (design variant only) the local goroutine continues after writePacket returned
  /\ RecvPolicy = "impl" /\ ~CreditFirst /\ apc[p] = "crd"
  /\ myWin' = myWin + aamt[p]
  /\ apc' = [apc EXCEPT ![p] = "idle"] /\ aamt' = [aamt EXCEPT ![p] = 0]
  /\ UNCHANGED <<ws, mp, wvars, netF, netB, myCons, roff, rdoff, consumed, credited, eofRecv, err>>

CreditRoom == consumed - credited      \* (overridden in trace validation, where reads are logged late)

Credit(a) ==                           \* policy any: the peer returns part of what it consumed
  /\ RecvPolicy = "any" /\ a >= 1 /\ a <= CreditRoom
  /\ myWin' = myWin + a /\ credited' = credited + a
  /\ netB' = Append(netB, a)
  /\ UNCHANGED <<ws, mp, wvars, netF, myCons, roff, rdoff, apc, aamt, consumed, eofRecv, err>>

-----------------------------------------------------------------------------
WriterBudget(s, len) == wleft' = [wleft EXCEPT ![s] = @ - len]

\* BeginWrite leaves wleft unchanged (trace validation has no budgets); the model-checking
\* next-state relation charges the budget in a wrapper.
MCBegin(s, len) ==
  /\ wcalls[s] < MaxCalls /\ wleft[s] > 0
  /\ (wcalls[s] + 1 = MaxCalls => len = wleft[s])
  /\ wpc[s] = "idle" /\ ~eofSent
  /\ wrem' = [wrem EXCEPT ![s] = len]
  /\ wpc' = IF len > 0 THEN WakeAll([wpc EXCEPT ![s] = "res"]) ELSE wpc
  /\ wcalls' = [wcalls EXCEPT ![s] = @ + 1]
  /\ WriterBudget(s, len)
  /\ UNCHANGED <<ws, mp, win, whold, woff, eofSent, netF, netB, rvars>>

AllWritten == \A s \in Strm : wleft[s] = 0 /\ wpc[s] = "idle"

MCNext ==
  \/ \E s \in Strm : \E len \in 0 .. wleft[s] : MCBegin(s, len)
  \/ \E s \in Strm : Reserve(s) \/ SendData(s)
  \/ (AllWritten /\ SendEOF)
  \/ RecvAdjust \/ RecvData \/ RecvEOF
  \/ \E s \in RdStrm : \E r \in 1 .. MaxRead : Read(s, r)
  \/ \E p \in Procs : AdjustCS(p) \/ SendAdjust(p) \/ CreditAfter(p)
  \/ \E a \in 1 .. (IF CreditRoom > 0 THEN CreditRoom ELSE 0) : Credit(a)

Fairness ==
  /\ \A s \in Strm : WF_vars(\E len \in 0 .. wleft[s] : MCBegin(s, len))     \* the application issues its writes
  /\ \A s \in Strm : WF_vars(Reserve(s)) /\ WF_vars(SendData(s))
  /\ WF_vars(RecvAdjust) /\ WF_vars(RecvData) /\ WF_vars(RecvEOF)
  /\ \A s \in RdStrm : WF_vars(\E r \in 1 .. MaxRead : Read(s, r))       \* the peer keeps reading
  /\ \A p \in Procs : WF_vars(AdjustCS(p)) /\ WF_vars(SendAdjust(p)) /\ WF_vars(CreditAfter(p))

MCSpec == Init /\ [][MCNext]_vars
MCLive == Init /\ [][MCNext]_vars /\ Fairness

-----------------------------------------------------------------------------
(* Properties *)

TypeOK ==
  /\ win \in 0 .. ws /\ myWin \in 0 .. ws /\ myCons \in 0 .. ws
  /\ \A s \in Strm : wpc[s] \in {"idle", "res", "wait", "send"} /\ whold[s] \in 0 .. mp
  /\ \A p \in Procs : apc[p] \in {"idle", "adj", "snd", "crd"}
  /\ err \in {"none", "toobig", "window"}

HeldSum == Sum3(whold)
AdjHeld == LET f == [p \in Procs |-> IF apc[p] = "snd" THEN aamt[p] ELSE 0] IN Sum3(f)
AdjPend == LET f == [p \in Procs |-> IF apc[p] = "adj" THEN aamt[p] ELSE 0] IN Sum3(f)
Unread == (roff[0] - rdoff[0]) + (roff[1] - rdoff[1])

\* F1 conservation: what the sender may still send or has sent and is not yet accounted for by the
\* receiver is exactly what the receiver still allows.
F1 == err = "none" => win + HeldSum + SumSeqN(netF) + SumSeqA(netB) + AdjHeld = myWin
\* F1b (policy impl): nothing is lost on the receiver side: window + uncredited consumption + unread = ws.
F1b == (RecvPolicy = "impl" /\ err = "none") => myWin + myCons + AdjPend + Unread = ws
F1c == (RecvPolicy = "any" /\ err = "none") => myWin + (consumed - credited) + Unread = ws
\* the sender never transmits more than the peer's current window / max packet
F2 == \A i \in 1 .. Len(netF) : netF[i].t = "data" => netF[i].n >= 1 /\ netF[i].n <= mp
SenderWithinWindow == SumSeqN(netF) + HeldSum <= myWin            \* all data in flight fits the receiver's window
\* a compliant receiver never reports a violation
NoError == err = "none"
\* F3 in order and intact: offsets line up at every hop; EOF only after everything
F3 == /\ (netF # <<>> /\ Head(netF).t = "data") => Head(netF).from = roff[Head(netF).s]
      /\ \A s \in RdStrm : rdoff[s] <= roff[s]
      /\ \A s \in Strm : roff[s] <= woff[s] /\ woff[s] + wleft[s] + wrem[s] = Budget[s]
      /\ eofRecv => \A s \in Strm : roff[s] = woff[s]

Quiescent == /\ netF = <<>> /\ netB = <<>>
             /\ \A p \in Procs : apc[p] = "idle"
             /\ \A s \in Strm : wpc[s] # "send"
\* no reachable state where a writer is blocked for good although the peer has read everything
NoStuck == RecvPolicy = "impl" =>
             ~(Quiescent /\ Unread = 0 /\ (\A s \in Strm : wpc[s] # "res") /\ \E s \in Strm : wpc[s] = "wait")
\* nobody sleeps in reserve while window is available (add wakes ALL sleepers)
NoSleepWithWindow == \A s \in Strm : wpc[s] = "wait" => win = 0

\* liveness: every Write call returns (in particular a writer blocked on win = 0 is unblocked)
WritesReturn == \A s \in Strm : (wpc[s] # "idle") ~> (wpc[s] = "idle")
AllDelivered == <>(\A s \in RdStrm : rdoff[s] = Budget[s])
=============================================================================
