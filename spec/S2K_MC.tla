------------------------------- MODULE S2K_MC -------------------------------
(***************************************************************************)
(* C20: S2K.tla instantiated with the toy hash (PrimToy!ToyHash, 4 bytes)  *)
(* so that TLC evaluates exact derived keys, plus hash-independent         *)
(* artefacts for the real hashes: the coded-count table, encodeCount       *)
(* probes, the exact octet strings fed to each hash context ("preimages",  *)
(* written out for small counts, in run-length form for all 256 counts),   *)
(* specifiers and their Parse outcome.                                     *)
(* Model-level laws checked by TLC: the two forms of the count formula     *)
(* agree for all 256 octets and are strictly increasing; EncodeCount is a  *)
(* left inverse of Count and rounds up; a shorter key is a prefix of a     *)
(* longer one; Salted with an empty salt is Simple; Iterated with          *)
(* count <= |salt|+|pass| is Salted; ExpandRL(PreimageRL) = Preimage;      *)
(* Parse(Serialize(...)) returns mode 3 with the same hash, salt and the   *)
(* coded count; Parse(Spec(...)) is the identity on supported specifiers.  *)
(***************************************************************************)
EXTENDS PrimToy, TLC, Json

CONSTANTS PassLens, ToyCounts, KeyMax, PreLens
VARIABLES c

ToyHash4(m) == ToyHash(4, m)
S == INSTANCE S2K WITH Hash <- ToyHash4, HLen <- 4

Salt8 == TPat(91, 8)
Pass(n) == TPat(17 + n, n)

Init == c = [t |-> "root"]
Items ==
       {[t |-> "toy", mode |-> 0, sl |-> 0, pl |-> p, count |-> 0] : p \in PassLens}
  \cup {[t |-> "toy", mode |-> 1, sl |-> s, pl |-> p, count |-> 0] : s \in {0, 3, 8}, p \in PassLens}
  \cup {[t |-> "toy", mode |-> 3, sl |-> s, pl |-> p, count |-> n] : s \in {3, 8}, p \in PassLens, n \in ToyCounts}
  \cup {[t |-> "pre", mode |-> m, pl |-> p, cc |-> 0] : m \in {0, 1}, p \in PreLens}
  \cup {[t |-> "pre", mode |-> 3, pl |-> p, cc |-> x] : p \in {0, 7, 100}, x \in {0, 1, 15, 16}}
  \cup {[t |-> "counts"], [t |-> "specs"], [t |-> "toyvec"]}
Next == \/ c.t = "root" /\ c' \in {[t |-> "go", x |-> x] : x \in Items}
        \/ c.t = "go" /\ c' = c.x

ToyOK(cc) ==
  \E salt \in {TPat(91, cc.sl)} : \E pass \in {Pass(cc.pl)} :
  \E key \in {Force(S!Key(cc.mode, salt, pass, cc.count, KeyMax))} :
     /\ Assert(Len(key) = KeyMax, <<"len", cc>>)
     /\ Assert(\A k \in {1, 4, 5} : S!Key(cc.mode, salt, pass, cc.count, k) = SubSeq(key, 1, k), <<"prefix", cc>>)
     /\ Assert(cc.mode # 1 \/ cc.sl # 0 \/ key = S!Key(0, <<>>, pass, 0, KeyMax), <<"salted, empty salt = simple", cc>>)
     /\ Assert(cc.mode # 3 \/ cc.count > cc.sl + cc.pl \/ key = S!Key(1, salt, pass, 0, KeyMax), <<"small count = salted", cc>>)
     /\ Assert(\A i \in 0..2 : S!ExpandRL(S!PreimageRL(cc.mode, i, salt, pass, cc.count)) = S!Preimage(cc.mode, i, salt, pass, cc.count), <<"rl", cc>>)
     /\ Assert(SubSeq(key, 5, 8) = ToyHash4(<<0>> \o S!Body(cc.mode, salt, pass, cc.count)), <<"second context has one zero", cc>>)
     /\ PrintT("TRACE " \o ToJson([t |-> "toy", mode |-> cc.mode, salt |-> salt, pass |-> pass, count |-> cc.count, key |-> key]))

\* explicit preimages for contexts 0..3 (the harness hashes them with the standard library)
PreOK(cc) ==
  \E pass \in {Pass(cc.pl)} :
  \E pre \in {[i \in 1..4 |-> Force(S!Preimage(cc.mode, i - 1, Salt8, pass, S!Count(cc.cc)))]} :
     /\ Assert(\A i \in 1..4 : Len(pre[i]) = (i - 1) + S!PreimageRL(cc.mode, i - 1, Salt8, pass, S!Count(cc.cc)).total, <<"prelen", cc>>)
     /\ PrintT("TRACE " \o ToJson([t |-> "pre", mode |-> cc.mode, salt |-> Salt8, pass |-> pass, cc |-> cc.cc,
                                   spec |-> [h \in S!HashIds |-> S!Spec(cc.mode, h, Salt8, cc.cc)],
                                   pre |-> pre]))

CountsOK ==
  /\ Assert(\A x \in 0..255 : S!Count(x) = S!CountRFC(x), "count forms")
  /\ Assert(\A x \in 0..254 : S!Count(x) < S!Count(x + 1), "monotone")
  /\ Assert(S!Count(0) = S!MinCount /\ S!Count(255) = S!MaxCount /\ S!Count(96) = 65536, "ends")
  /\ Assert(\A x \in 0..255 : S!EncodeCount(S!Count(x)) = x, "left inverse")
  /\ Assert(\A x \in 0..254 : S!EncodeCount(S!Count(x) + 1) = x + 1, "rounds up")
  /\ Assert(\A x \in 1..255 : S!EncodeCount(S!Count(x) - 1) = x, "rounds up 2")
  /\ Assert(S!ConfigCount(0) = 96 /\ S!ConfigCount(1) = 0 /\ S!ConfigCount(1023) = 0 /\ S!ConfigCount(65011713) = 255, "config")
  /\ PrintT("TRACE " \o ToJson([t |-> "counts", count |-> [x \in 1..256 |-> S!Count(x - 1)],
         probes |-> [k \in 1..12 |-> LET v == <<0, 1, 1023, 1024, 1025, 65535, 65536, 65537, 2000000, 65011711, 65011712, 65011713>>[k]
                                     IN [s2kcount |-> v, c |-> S!ConfigCount(v)]]]))

\* specifiers and their Parse outcome (supported ones must parse back to themselves; the rest is informational)
SpecSamples ==
  {S!Spec(m, h, Salt8, x) : m \in {0, 1, 3}, h \in S!HashIds, x \in {0, 96, 255}}
  \cup {<<m, h>> \o Salt8 \o <<7>> : m \in {2, 4, 100, 101, 255}, h \in {2, 8}}
  \cup {<<m, h>> \o Salt8 \o <<7>> : m \in {0, 1, 3}, h \in {0, 4, 5, 6, 7, 12, 110, 255}}
  \cup {<<3, 2>> \o SubSeq(Salt8, 1, k) : k \in 0..8} \cup {<<1, 2>> \o SubSeq(Salt8, 1, k) : k \in 0..7} \cup {<<3>>, <<>>}
SpecsOK ==
  /\ Assert(\A m \in {0, 1, 3} : \A h \in S!HashIds : \A x \in {0, 17, 255} :
              LET p == S!Parse(S!Spec(m, h, Salt8, x)) IN
              /\ p.t = "ok" /\ p.mode = m /\ p.hash = h /\ p.used = Len(S!Spec(m, h, Salt8, x))
              /\ (m = 0 \/ p.salt = Salt8) /\ (m # 3 \/ p.c = x), "parse(spec) = id")
  /\ Assert(\A h \in S!HashIds : \A v \in {0, 1024, 65536, 65537, 65011712} :
              LET p == S!Parse(S!Serialize(h, Salt8, v)) IN
              p.t = "ok" /\ p.mode = 3 /\ p.hash = h /\ p.salt = Salt8 /\ p.c = S!ConfigCount(v), "parse(serialize)")
  /\ PrintT("TRACE " \o ToJson([t |-> "specs", specs |-> {[b |-> b, out |-> S!Parse(b).t] : b \in SpecSamples}]))

ToyVecOK ==
  PrintT("TRACE " \o ToJson([t |-> "toyvec",
      hash |-> [i \in 1..20 |-> [h |-> 4, m |-> TPat(50 + i, (i - 1) * 3), d |-> ToyHash(4, TPat(50 + i, (i - 1) * 3))]]]))

Check == CASE c.t = "toy" -> ToyOK(c)
           [] c.t = "pre" -> PreOK(c)
           [] c.t = "counts" -> CountsOK
           [] c.t = "specs" -> SpecsOK
           [] c.t = "toyvec" -> ToyVecOK
           [] OTHER -> TRUE
=============================================================================
