\* thorough generator: witness histories with 4 replies, malformed server
SPECIFICATION GenSpec
CONSTANTS
  OpSet <- AllOps
  Bundles = {TRUE, FALSE}
  MaxCalls = 1
  MaxReq = 4
  MaxEnv = 2
  Shapes <- AllShapes
  RetrySet = {0, 3}
  Budget = 1
  Malformed = TRUE
  CertKinds <- AllCerts
  AltSet = {0, 2}
  InitStates <- InitRFC
  CallOK <- FocusCall
  EnvOK <- FocusEnv
  FixNegRA = FALSE
  Mut = "none"
VIEW GenView
INVARIANTS Emit TypeOK P1_NoFalseSuccess P2_TypedFailures P3_FinalizeOnce P4_PollSpacing P5_StopOnCancel P6_CertAfterValid P7_LastObserved P8_ChainLimits P9_PollExactlyWhileNotFinal ServerSane
CHECK_DEADLOCK FALSE
