---------------------- MODULE AutocertRenewTimerCacheAbs ----------------------
(* GROWTH SPECIFICATION X05, part (c), abstract level -- what the autocert.Cache interface
   (acme/autocert/cache.go) documents, as an ATOMIC map with context cancellation:

     Get(ctx, key)        "returns a certificate data for the specified key. If there's no such
                           key, Get returns ErrCacheMiss."
     Put(ctx, key, data)  "stores the data in the cache under the specified key ... as long as the
                           reverse operation, Get, results in the original data."
     Delete(ctx, key)     "removes a certificate data from the cache under the specified key. If
                           there's no such key in the cache, Delete returns nil."

   Every operation takes effect atomically at one instant between its invocation and its response
   (linearizability).  An operation whose context is cancelled may answer with the context's error
   at any time; DirCache then leaves the file-system work to a goroutine it no longer waits for, so
   the effect of a cancelled Put/Delete may still happen LATER, once (an "orphan" effect), or never.
   An operation that answers WITHOUT the context's error has taken effect before it answered:
       Put -> nil      the value is stored      (A1)
       Get -> data     the data is exactly one value that a Put of that key stored, whole (A2)
       Get -> miss     the key was absent at the linearization point                      (A3)
       Delete -> nil   the key was absent right after the linearization point             (A4)
   DirCache.Put does not overwrite when it sees the context cancelled: a Put may only take effect
   if it had not seen the cancellation ("nostore" is the linearization of such a Put).

   This module is used twice: AutocertRenewTimerDirCache (the file-system level model of DirCache)
   is checked to refine it, and AutocertRenewTimerCacheAbs_Trace validates histories recorded from
   the real DirCache with it.

   One deviation of the real DirCache is modelled because the code exhibits it (see PutOkNoStore in
   the FS-level module and the claim's note): a Put whose context is cancelled while its goroutine
   finishes may answer nil although it skipped the rename.  The constant AllowOkNoStore switches
   whether the abstract level tolerates that answer. *)
EXTENDS Integers, FiniteSets, TLC

CONSTANTS AProcs,          \* client processes
          AKeys,           \* cache keys
          AVals,           \* values (each Put writes a value; values are opaque)
          AllowOkNoStore   \* BOOLEAN: tolerate "Put -> nil" for a cancelled Put that did not store

\* values are positive integers; results are values or the codes below (TLC cannot compare strings with integers)
None == 0
RMiss == 0 - 1
ROk   == 0 - 3
RCtx  == 0 - 4
NoOp == [op |-> "none", k |-> "none", v |-> None]

VARIABLES store,     \* store[k] \in AVals \cup {None}
          aop,       \* aop[p]: the operation p is executing (record) or NoOp
          aph,       \* aph[p] \in {"idle", "pending", "lin", "nostore"}: before / after the linearization point
          ares,      \* ares[p]: result fixed at the linearization point ("ok", "miss", or a value)
          acan,      \* acan[p]: the context of p's current operation has been cancelled
          orphans    \* effects of operations that already answered with the context's error: set of [op, k, v]
avars == <<store, aop, aph, ares, acan, orphans>>

AInit == /\ store = [k \in AKeys |-> None]
         /\ aop = [p \in AProcs |-> NoOp] /\ aph = [p \in AProcs |-> "idle"]
         /\ ares = [p \in AProcs |-> None] /\ acan = [p \in AProcs |-> FALSE]
         /\ orphans = {}

Apply(s, o) == CASE o.op = "put" -> [s EXCEPT ![o.k] = o.v]
                 [] o.op = "del" -> [s EXCEPT ![o.k] = None]
                 [] OTHER        -> s
ResultOf(s, o) == CASE o.op = "get" -> (IF s[o.k] = None THEN RMiss ELSE s[o.k])
                    [] OTHER        -> ROk

AInvoke(p, o) == /\ aph[p] = "idle"
                 /\ aop' = [aop EXCEPT ![p] = o] /\ aph' = [aph EXCEPT ![p] = "pending"]
                 /\ acan' = [acan EXCEPT ![p] = FALSE] /\ ares' = [ares EXCEPT ![p] = None]
                 /\ UNCHANGED <<store, orphans>>
ACancel(p) == /\ aph[p] # "idle" /\ ~acan[p]
              /\ acan' = [acan EXCEPT ![p] = TRUE]
              /\ UNCHANGED <<store, aop, aph, ares, orphans>>
\* the linearization point
ALin(p) == /\ aph[p] = "pending"
           /\ store' = Apply(store, aop[p])
           /\ ares' = [ares EXCEPT ![p] = ResultOf(store, aop[p])]
           /\ aph' = [aph EXCEPT ![p] = "lin"]
           /\ UNCHANGED <<aop, acan, orphans>>
\* a Put that saw its context cancelled decides not to store
ANoStore(p) == /\ aph[p] = "pending" /\ aop[p].op = "put" /\ acan[p]
               /\ aph' = [aph EXCEPT ![p] = "nostore"]
               /\ UNCHANGED <<store, aop, ares, acan, orphans>>
\* response.  r = "ctx": the context's error (only if cancelled); the effect, if still to come, becomes an orphan
AReturn(p, r) ==
  /\ aph[p] # "idle"
  /\ \/ /\ r = RCtx /\ acan[p]
        /\ orphans' = IF aph[p] = "pending" /\ aop[p].op # "get" THEN orphans \cup {aop[p]} ELSE orphans
     \/ /\ r # RCtx /\ aph[p] = "lin" /\ r = ares[p] /\ UNCHANGED orphans
     \/ /\ r = ROk /\ aph[p] = "nostore" /\ AllowOkNoStore /\ UNCHANGED orphans
  /\ aph' = [aph EXCEPT ![p] = "idle"] /\ aop' = [aop EXCEPT ![p] = NoOp]
  /\ ares' = [ares EXCEPT ![p] = None]
  /\ UNCHANGED <<store, acan>>
\* an abandoned goroutine completes (or decides not to: a cancelled Put skips the rename)
AOrphan(o) == /\ o \in orphans
              /\ orphans' = orphans \ {o}
              /\ \/ store' = Apply(store, o)
                 \/ o.op = "put" /\ UNCHANGED store
              /\ UNCHANGED <<aop, aph, ares, acan>>

\* v is the value of a Put; for Get/Delete it only identifies the operation (every operation has its own v)
Ops == [op : {"put", "get", "del"}, k : AKeys, v : AVals]
ANext == \/ \E p \in AProcs : \/ \E o \in Ops : AInvoke(p, o)
                              \/ ACancel(p) \/ ALin(p) \/ ANoStore(p)
                              \/ \E r \in AVals \cup {ROk, RMiss, RCtx} : AReturn(p, r)
         \/ \E o \in orphans : AOrphan(o)
ASpec == AInit /\ [][ANext]_avars
=============================================================================
