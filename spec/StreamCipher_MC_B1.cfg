SPECIFICATION Spec
CONSTANTS
  L <- MC_L
  NSet <- MC_NSet
  CSet <- MC_CSet
  Repaired = TRUE
  BPB = 1
INVARIANTS TypeOK BufferHoldsNext OverflowLatch
PROPERTIES Refines AbsMonotone AbsContiguous AbsPanicExact AbsSeek
CHECK_DEADLOCK FALSE
