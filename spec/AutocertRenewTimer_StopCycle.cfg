\* observation (test-only API stopRenew): the three-way wait stopRenew / renew / m.cert -- EXPECTED violation of NoLockCycle
SPECIFICATION Spec
CONSTANTS
  Keys = {"a", "b"}
  Callers = {"g1"}
  MaxCalls = 2
  MaxT = 3
  Life = 4
  Thr = 2
  MaxJit = 1
  RetryLo = 1
  RetryHi = 2
  MaxCerts = 3
  CAOutcomes = {"ok"}
  PutOutcomes = {"ok"}
  Preload = {"a", "b"}
  WithStop = TRUE
INVARIANTS NoLockCycle
CHECK_DEADLOCK FALSE
