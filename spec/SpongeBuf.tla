------------------------------ MODULE SpongeBuf ------------------------------
(***************************************************************************)
(* C08 - abstract specification of the stateful front-ends of /repo/sha3:  *)
(*                                                                         *)
(*   kind = "fixed"   New224/256/384/512 (hashes.go): hash.Hash over the   *)
(*                    standard library's *sha3.SHA3 - Write, Sum, Reset,   *)
(*                    Clone (hash.Cloner); there is no Read.               *)
(*   kind = "shake"   NewShake128/256, NewCShake128/256 (shake.go):        *)
(*                    shakeWrapper = *sha3.SHAKE + the `squeezing` flag -  *)
(*                    Write, Read, Sum, Clone (marshal/unmarshal), Reset.  *)
(*   kind = "legacy"  NewLegacyKeccak256/512 (legacy_hash.go): the         *)
(*                    package's own sponge `state` - Write, Read (the      *)
(*                    object is an io.Reader), Sum, Reset; no Clone.       *)
(*                                                                         *)
(* One object is a record: mode (absorbing/squeezing), absorbed = number   *)
(* of message bytes written, outPos = number of output bytes read.  The    *)
(* output stream of an object is a function of what was absorbed only:     *)
(* Z = PrimKeccak!XOF(fn, N, S, m[0..absorbed), .); the abstract spec       *)
(* predicts *which bytes of Z* every call returns:                         *)
(*   Sum      -> Z[0 .. OutLen) and no state change        (absorbing)     *)
(*   Read(n)  -> Z[outPos .. outPos+n), switches to squeezing              *)
(*   Write, Sum when squeezing -> panic ("Write/Sum after Read")           *)
(*   Clone    -> a new object with an equal state; afterwards the two      *)
(*               evolve independently                                      *)
(* A call that panics ends the history of that object (use after a         *)
(* recovered panic is outside the property).  Reset on the SHAKE wrapper   *)
(* is modelled only while absorbing unless ShakeResetAfterRead (DESIGN     *)
(* section 9, O2: shakeWrapper.Reset leaves `squeezing` set; the property  *)
(* does not speak about Reset, so the verdict path never goes there).      *)
(* The byte oracle (binding E) is spec/PrimKeccak.tla; the bookkeeping     *)
(* (n, rate, state) of the code is spec/SpongeBufImpl.tla, model-checked   *)
(* to refine this module.                                                  *)
(***************************************************************************)
EXTENDS Integers, Sequences, FiniteSets

CONSTANTS Kinds,              \* the kinds explored, a subset of {"fixed", "shake", "legacy"}
          WSet,               \* lengths passed to Write
          RSet,               \* lengths passed to Read
          MaxLen,             \* bound on absorbed
          MaxOut,             \* bound on outPos
          MaxObjs,            \* bound on the number of objects (1 + number of Clone calls)
          ShakeResetAfterRead \* is Reset after Read on the SHAKE wrapper part of the behaviours explored (O2)
VARIABLES kind,               \* which kind of object this behaviour is about (chosen initially, never changes)
          objs, last
vars == <<kind, objs, last>>

Ids == 1..MaxObjs
HasRead  == kind \in {"shake", "legacy"}
HasClone == kind \in {"shake", "fixed"}

FreeObj == [st |-> "free", mode |-> "absorbing", absorbed |-> 0, outPos |-> 0]
NewObj  == [st |-> "live", mode |-> "absorbing", absorbed |-> 0, outPos |-> 0]
\* one event: the call, the object, the argument, the mode before the call, the result and -
\* for calls that return bytes - which slice [from, from+n) of Z(absorbed) they are
Ev(op, o, n, pre, res, absorbed, from, o2) ==
  [op |-> op, o |-> o, n |-> n, pre |-> pre, res |-> res, absorbed |-> absorbed, from |-> from, o2 |-> o2]

Init == /\ kind \in Kinds
        /\ objs = [i \in Ids |-> IF i = 1 THEN NewObj ELSE FreeObj]
        /\ last = Ev("new", 1, 0, "absorbing", "ok", 0, 0, 0)

Live(o) == objs[o].st = "live"

Write(o, n) ==
  /\ Live(o) /\ UNCHANGED kind
  /\ IF objs[o].mode = "squeezing"
     THEN /\ objs' = [objs EXCEPT ![o].st = "dead"]
          /\ last' = Ev("write", o, n, "squeezing", "panic", objs[o].absorbed, 0, 0)
     ELSE /\ objs[o].absorbed + n <= MaxLen
          /\ objs' = [objs EXCEPT ![o].absorbed = @ + n]
          /\ last' = Ev("write", o, n, "absorbing", "ok", objs[o].absorbed + n, 0, 0)

Read(o, n) ==
  /\ HasRead /\ Live(o) /\ UNCHANGED kind
  /\ objs[o].outPos + n <= MaxOut
  /\ objs' = [objs EXCEPT ![o].mode = "squeezing", ![o].outPos = @ + n]
  /\ last' = Ev("read", o, n, objs[o].mode, "ok", objs[o].absorbed, objs[o].outPos, 0)

\* OutLen bytes from the start of Z, whatever was read before is irrelevant: Sum is only
\* defined while absorbing
Sum(o) ==
  /\ Live(o) /\ UNCHANGED kind
  /\ IF objs[o].mode = "squeezing"
     THEN /\ objs' = [objs EXCEPT ![o].st = "dead"]
          /\ last' = Ev("sum", o, 0, "squeezing", "panic", objs[o].absorbed, 0, 0)
     ELSE /\ UNCHANGED objs
          /\ last' = Ev("sum", o, 0, "absorbing", "ok", objs[o].absorbed, 0, 0)

Clone(o) ==
  /\ HasClone /\ Live(o) /\ UNCHANGED kind
  /\ \E f \in Ids :
       /\ objs[f].st = "free"
       /\ \A g \in Ids : objs[g].st = "free" => f <= g
       /\ objs' = [objs EXCEPT ![f] = objs[o]]
       /\ last' = Ev("clone", o, 0, objs[o].mode, "ok", objs[o].absorbed, objs[o].outPos, f)

Reset(o) ==
  /\ Live(o) /\ UNCHANGED kind
  /\ objs[o].mode = "squeezing" => (kind = "legacy" \/ (kind = "shake" /\ ShakeResetAfterRead))
  /\ objs' = [objs EXCEPT ![o] = NewObj]
  /\ last' = Ev("reset", o, 0, objs[o].mode, "ok", 0, 0, 0)

Next == \E o \in Ids :
          \/ \E n \in WSet : Write(o, n)
          \/ \E n \in RSet : Read(o, n)
          \/ Sum(o) \/ Clone(o) \/ Reset(o)
Spec == Init /\ [][Next]_vars

(***************************************************************************)
(* The property (C08) at this level.                                       *)
(***************************************************************************)
TypeOK ==
  /\ \A o \in Ids : /\ objs[o].st \in {"free", "live", "dead"}
                    /\ objs[o].mode \in {"absorbing", "squeezing"}
                    /\ objs[o].absorbed \in 0..MaxLen /\ objs[o].outPos \in 0..MaxOut
  /\ last.res \in {"ok", "panic"}
\* output has been taken only from squeezing objects; a fixed-output hash never squeezes
ModeInv == \A o \in Ids : /\ objs[o].outPos > 0 => objs[o].mode = "squeezing"
                          /\ kind = "fixed" => objs[o].mode = "absorbing"
\* Write or Sum after Read panics, and only then
PanicIffAfterRead == last.op \in {"write", "sum"} => (last.res = "panic" <=> last.pre = "squeezing")
NoOtherPanics == last.op \notin {"write", "sum"} => last.res = "ok"
\* Sum never changes the running state
SumPure == [][last'.op = "sum" /\ last'.res = "ok" => objs' = objs]_vars
\* Clone is independent: a call on one object changes no other object, Clone itself changes
\* nothing but the fresh object, which starts equal to its source
Independent ==
  [][\A o \in Ids : (o # last'.o /\ o # last'.o2) => objs'[o] = objs[o]]_vars
CloneEqual ==
  [][last'.op = "clone" => (objs'[last'.o] = objs[last'.o] /\ objs'[last'.o2] = objs[last'.o] /\ objs[last'.o2].st = "free")]_vars
\* successive Reads return consecutive slices of the same stream: once squeezing, the message
\* is final and the position only advances by what was returned
ReadContiguous ==
  [][last'.op = "read" => /\ last'.from = objs[last'.o].outPos
                          /\ last'.absorbed = objs[last'.o].absorbed
                          /\ objs'[last'.o].outPos = last'.from + last'.n
                          /\ objs'[last'.o].absorbed = objs[last'.o].absorbed
                          /\ objs'[last'.o].mode = "squeezing"]_vars
SqueezingIsFinal ==
  [][\A o \in Ids : (objs[o].st = "live" /\ objs[o].mode = "squeezing" /\ objs'[o].st = "live" /\ ~(last'.op = "reset" /\ last'.o = o))
        => (objs'[o].mode = "squeezing" /\ objs'[o].absorbed = objs[o].absorbed /\ objs'[o].outPos >= objs[o].outPos)]_vars
\* every Write extends the message by exactly its argument
WriteAppends ==
  [][last'.op = "write" /\ last'.res = "ok" => objs'[last'.o].absorbed = objs[last'.o].absorbed + last'.n]_vars
=============================================================================
