SPECIFICATION MCLive
CONSTANTS
  Windows = {3}
  MaxPayloads = {1, 3}
  Budget <- B222
  MaxCalls = 1
  MaxRead = 2
  Greedy = TRUE
  CreditFirst = TRUE
  RecvPolicy = "impl"
INVARIANTS TypeOK NoSleepWithWindow F1 F1b F2 SenderWithinWindow NoError F3 NoStuck
PROPERTIES WritesReturn AllDelivered
CHECK_DEADLOCK FALSE
