---------------------------- MODULE KdfScrypt_MC ----------------------------
(* Bounded instances of KdfScrypt (C16) and the case generator for binding R. *)
EXTENDS KdfScrypt, Json

S(d) == Val([k |-> -1, d |-> d])     \* the small integer d
P(e, d) == Val([k |-> e, d |-> d])   \* 2^e + d

M(e, d) == [neg |-> TRUE, mag |-> P(e, d).mag]   \* -(2^e + d)

\* machine-integer boundary values of a Go int (IntBits = 63), for every int parameter:
\* MinInt, MinInt+1, MinInt/2, -2^32, -2^31, -1, 0, 1, 2, 3, MaxInt32, MaxInt32+1, 2^32, 2^62, MaxInt-1, MaxInt
Bnd16 == {M(63, 0), M(63, -1), M(62, 0), M(32, 0), M(31, 0), S(-1), S(0), S(1), S(2), S(3),
          P(31, -1), P(31, 0), P(32, 0), P(62, 0), P(63, -2), P(63, -1)}
\* quick tier for r and p: both ends, the 32-bit ends, the sign change and the valid values
Bnd8 == {M(63, 0), M(31, 0), S(-1), S(0), S(1), S(2), P(31, 0), P(63, -1)}
BndK == {M(63, 0), S(-1), S(0), S(32), P(63, -1)}
BndKq == {M(63, 0), S(0), S(32), P(63, -1)}
\* the same for a 32-bit int (IntBits = 31): MinInt32, MinInt32+1, MinInt32/2, -2^16, -1 .. 3, 2^16, 2^30, MaxInt32-1, MaxInt32
Bnd32 == {M(31, 0), M(31, -1), M(30, 0), M(16, 0), S(-1), S(0), S(1), S(2), S(3), P(16, 0), P(30, 0), P(31, -2), P(31, -1)}
BndK32 == {M(31, 0), S(-1), S(0), S(32), P(31, -1)}

SmallN == {S(-4), S(0), S(1), S(2), S(3), S(4), S(6), S(16), S(1024)}
SmallRP == {S(i) : i \in -2..8}
CurN == {S(2), S(16)}
CurRP == {S(1), S(2)}
SmallRPq == {S(i) : i \in {-2, -1, 0, 1, 2, 5, 8}}      \* quick tier
KeyLens == {S(-5), S(-1), S(0), S(1), S(31), S(32), S(33), S(64), S(65), S(300)}

\* the 2^30 bound on r*p, the uint64 wrap-around and the int-overflow guards (64-bit int)
BigRP == {S(1), S(2), S(3), S(8), P(15, -1), P(15, 0), P(15, 1), P(24, 0), P(29, 0), P(29, 1), P(30, -1), P(30, 0), P(30, 1),
          P(32, 0), P(33, 0), P(54, 0), P(55, -1), P(55, 0), P(56, -1), P(56, 0), P(62, 0), P(63, -1)}
BigN == {S(2), S(16), S(1024), P(20, 0), P(30, 0), P(30, 1), P(40, 0), P(54, 0), P(55, 0), P(56, 0), P(56, -1), P(62, 0), P(62, 1), P(63, -1)}
BigK == {S(-1), S(0), S(32)}
\* quick tier: the same boundaries, fewer neighbours
BigRPq == {S(1), S(8), P(15, 0), P(30, -1), P(30, 0), P(32, 0), P(55, 0), P(56, -1), P(56, 0)}
BigNq == {S(2), S(1024), P(30, 1), P(55, 0), P(56, 0), P(62, 0)}

\* 32-bit int platforms (GOARCH=386/arm/mips...): model-checked only, not replayed on this machine
RP32 == {S(1), S(2), S(3), S(8), P(15, -1), P(15, 0), P(15, 1), P(16, 0), P(20, 0), P(22, 0), P(23, -1), P(23, 0), P(23, 1), P(24, -1), P(24, 0), P(29, 0), P(30, -1), P(30, 0), P(31, -1)}
N32 == {S(2), S(16), S(1024), P(20, 0), P(23, 0), P(24, -1), P(24, 0), P(24, 1), P(30, 0), P(31, -1)}

Enc(x) == [neg |-> x.neg, l |-> x.mag]
Emit == ph = 1 => PrintT("TRACE " \o ToJson([N |-> Enc(n), r |-> Enc(r), p |-> Enc(p), keyLen |-> Enc(k),
                                   want |-> decl, code |-> code, heavy |-> Heavy(n, r, p), valid |-> ValidParams(n, r, p) /\ SizesFit(n, r, p)]))
=============================================================================
