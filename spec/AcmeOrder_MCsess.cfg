\* thorough: sessions of three calls of the issuance flow from a fresh pending order
SPECIFICATION Spec
CONSTANTS
  OpSet <- FlowOps
  Bundles = {TRUE, FALSE}
  MaxCalls = 3
  MaxReq = 6
  MaxEnv = 3
  Shapes <- CoreShapes
  RetrySet = {0, 3}
  Budget = 1
  Malformed = FALSE
  CertKinds <- FewCerts
  AltSet = {0, 2}
  InitStates <- InitOne
  CallOK <- AnyCall
  EnvOK <- AnyEnv
  FixNegRA = FALSE
  Mut = "none"
VIEW MCView
INVARIANTS TypeOK P1_NoFalseSuccess P2_TypedFailures P3_FinalizeOnce P4_PollSpacing P5_StopOnCancel P6_CertAfterValid P7_LastObserved P8_ChainLimits P9_PollExactlyWhileNotFinal ServerSane
CHECK_DEADLOCK FALSE
