------------------------------- MODULE SSHKex -------------------------------
(* Key exchange methods of golang.org/x/crypto/ssh (kex.go: dhGroup, dhGEXSHA, ecdh,
   curve25519sha256, chooseDH; mlkem.go: mlkem768WithCurve25519sha256; handshake.go:
   handshakeTransport.client/server; client.go: verifyHostKeySignature).   [property C29]

   Four parts.
   (a) The exchange hash: per method the list of hashed fields with their RFC 4251 encodings
       (FieldSpec), and Preimage(method, values) executable over byte sequences through
       PrimSSHEnc; DecodePreimage inverts it (so the preimage determines every field: no two
       transcripts share an exchange hash short of a hash collision).
   (b) Validity of the peer's public value per method (Valid): DH 1 < e < p-1 evaluated on a toy
       safe-prime group, EC points through the curve equation on a toy curve, X25519 and ML-KEM by
       value class.
   (c) The group choice of a DH-GEX server: ChooseDHT is a transcription of chooseDH (the loop over
       the package's groups 2048/3072/4096), ChooseDHD the declarative rule ("smallest known group
       >= preferred within [min, max], else the largest within range, else error"), GexServerT the
       request check of dhGEXSHA.Server followed by chooseDH.
   (d) One exchange between a client half and a server half with an active attacker on the wire:
       one action per packet written or read by kexAlgorithm.Client / Server, and Decide =
       the rest of handshakeTransport.client (ParsePublicKey, verifyHostKeySignature).  The
       attacker's plan replaces the GEX request, the GEX group, e/Q_C/C_INIT, f/Q_S/S_REPLY, K_S
       and the signature.  A signature is [by, over]: only the holder of a key signs with it, and
       it verifies iff it was made by the presented key over the verifier's exchange hash; hashes
       are injective on the hashed fields (the view records).  *)
EXTENDS Integers, Sequences, FiniteSets, TLC, PrimSSHEnc

Methods == {"dh", "gex", "ecdh", "c25519", "mlkem"}

-----------------------------------------------------------------------------
(* ---------- (a) exchange hash field lists and the preimage ---------- *)
F(n, e) == [name |-> n, enc |-> e]
CommonFields == << F("V_C", "string"), F("V_S", "string"), F("I_C", "string"), F("I_S", "string"), F("K_S", "string") >>
FieldSpec(m) == CommonFields \o
  CASE m = "dh"     -> << F("e", "mpint"), F("f", "mpint"), F("K", "mpint") >>                      \* RFC 4253 8
    [] m = "gex"    -> << F("min", "uint32"), F("n", "uint32"), F("max", "uint32"),                    \* RFC 4419 3
                          F("p", "mpint"), F("g", "mpint"), F("e", "mpint"), F("f", "mpint"), F("K", "mpint") >>
    [] m = "ecdh"   -> << F("Q_C", "string"), F("Q_S", "string"), F("K", "mpint") >>                \* RFC 5656 4
    [] m = "c25519" -> << F("Q_C", "string"), F("Q_S", "string"), F("K", "mpint") >>                \* RFC 8731 3.1
    [] m = "mlkem"  -> << F("C_INIT", "string"), F("S_REPLY", "string"), F("K", "string") >>        \* draft-kampanakis 2.5: K = SHA-256(K_PQ || K_CL), a string

Enc(enc, v) == CASE enc = "string" -> EncString(v) [] enc = "mpint" -> EncMpint(v) [] enc = "uint32" -> EncU32(v)
RECURSIVE CatFields(_, _, _)
CatFields(spec, vals, i) == IF i > Len(spec) THEN <<>>
                            ELSE Enc(spec[i].enc, vals[spec[i].name]) \o CatFields(spec, vals, i + 1)
\* vals: a function from the field names of FieldSpec(m) to values (byte strings, PrimTwos big
\* integers, uint32 limb pairs)
Preimage(m, vals) == CatFields(FieldSpec(m), vals, 1)

Dec(enc, b) == CASE enc = "string" -> DecString(b) [] enc = "mpint" -> DecMpint(b) [] enc = "uint32" -> DecU32(b)
RECURSIVE DecFields(_, _, _, _)
DecFields(spec, b, i, acc) ==
  IF i > Len(spec) THEN [ok |-> b = <<>>, vals |-> acc]
  ELSE LET r == Dec(spec[i].enc, b) IN
       IF ~r.ok THEN [ok |-> FALSE, vals |-> acc]
       ELSE DecFields(spec, r.rest, i + 1, acc @@ (spec[i].name :> r.v))
DecodePreimage(m, b) == DecFields(FieldSpec(m), b, 1, <<>>)

(* K.  Every method first has the shared secret as a fixed-width big-endian octet string `raw` (the 32 octets of
   X25519, the field-width x coordinate of ECDH, the modulus-width residue of DH, the 32 octets of SHA-256 for the
   hybrid).  For the mpint methods K is that string read as an unsigned integer (RFC 8731 3.1, RFC 5656 4, RFC 4253
   8) and enters the hash as the *minimal* mpint of PrimSSHEnc; for the hybrid it enters as a string, unchanged.
   The shape of raw decides what minimality means, so it is a dimension of the encoding part:
     "ord"   first octet 01..7f            mpint payload = raw
     "hi"    first octet >= 80             a 00 sign octet is prepended
     "lz"    00, then an octet 01..7f      the leading zero octet is dropped
     "lzhi"  00, then an octet >= 80       the zero octet is dropped and a sign octet added: payload = raw again
     "lz2"   00 00 ...                     every leading zero octet is dropped (then the sign rule applies) *)
KShapes == {"ord", "hi", "lz", "lzhi", "lz2"}
ShapeOf(raw) == IF raw[1] >= 128 THEN "hi" ELSE IF raw[1] > 0 THEN "ord"
                ELSE IF raw[2] = 0 THEN "lz2" ELSE IF raw[2] >= 128 THEN "lzhi" ELSE "lz"
KOfSecret(raw) == BigInt(FALSE, StripZeros(raw))
KOfX25519(secret) == KOfSecret(secret)
KEnc(m) == FieldSpec(m)[Len(FieldSpec(m))].enc            \* K is the last hashed field of every method
KValue(m, raw) == IF KEnc(m) = "mpint" THEN KOfSecret(raw) ELSE raw
EncK(m, raw) == Enc(KEnc(m), KValue(m, raw))
\* what the encoding of K must look like, by shape (raw of width >= 3 and not all zero)
KEncodingOK(m, raw) ==
  LET d == DecString(EncK(m, raw))
      b == d.v
      w == Len(raw) IN
  /\ d.ok /\ d.rest = <<>>
  /\ IF KEnc(m) = "string" THEN b = raw
     ELSE /\ IsMinimalTwos(b) /\ TwosVal(b) = KOfSecret(raw) /\ ~TopBit(b)
          /\ CASE ShapeOf(raw) = "ord"  -> b = raw
               [] ShapeOf(raw) = "hi"   -> b = <<0>> \o raw
               [] ShapeOf(raw) = "lz"   -> b = Tail(raw)
               [] ShapeOf(raw) = "lzhi" -> b = raw
               [] OTHER                 -> Len(b) <= w - 1 /\ StripZeros(b) = StripZeros(raw)

-----------------------------------------------------------------------------
(* ---------- (c) DH-GEX group choice ---------- *)
Groups == <<2048, 3072, 4096>>               \* supportedDHKEXGroups, in the order of the loop
NoGroup == 0
GexFloor == 2048                             \* dhGroupExchangeMinimumBits
GexCeil == 4096                              \* largest group the package has

\* transcription of chooseDH
RECURSIVE ChooseLoop(_, _, _, _, _)
ChooseLoop(i, best, mn, want, mx) ==
  IF i > Len(Groups) THEN best
  ELSE LET size == Groups[i] IN
       IF size < mn \/ size > mx THEN ChooseLoop(i + 1, best, mn, want, mx)
       ELSE IF best = NoGroup THEN ChooseLoop(i + 1, size, mn, want, mx)
       ELSE LET closerFromAbove == size >= want /\ size < best
                closerFromBelow == size > best /\ best < want
            IN ChooseLoop(i + 1, IF closerFromAbove \/ closerFromBelow THEN size ELSE best, mn, want, mx)
ChooseDHT(mn, want, mx) == ChooseLoop(1, NoGroup, mn, want, mx)

\* the rule, declaratively
GroupSet == {Groups[i] : i \in 1..Len(Groups)}
InRange(mn, mx) == {s \in GroupSet : mn <= s /\ s <= mx}
Min(S) == CHOOSE x \in S : \A y \in S : x <= y
Max(S) == CHOOSE x \in S : \A y \in S : x >= y
ChooseDHD(mn, want, mx) ==
  LET R == InRange(mn, mx)
      Above == {s \in R : s >= want}
  IN IF R = {} THEN NoGroup ELSE IF Above # {} THEN Min(Above) ELSE Max(R)

\* dhGEXSHA.Server: request check, then chooseDH
GexRequestOK(mn, want, mx) == ~(mx < mn \/ want < mn \/ mx < want \/ mx < GexFloor \/ mn > GexCeil)
GexServerT(mn, want, mx) == IF GexRequestOK(mn, want, mx) THEN ChooseDHT(mn, want, mx) ELSE NoGroup
\* the property: a well-ordered request gets the choose_dh group (or an error when no known group
\* lies within the bounds), anything else is refused
WellOrdered(mn, want, mx) == mn <= want /\ want <= mx
GexServerD(mn, want, mx) == IF WellOrdered(mn, want, mx) THEN ChooseDHD(mn, want, mx) ELSE NoGroup

-----------------------------------------------------------------------------
(* ---------- (b) validity of peer values ---------- *)
\* toy safe-prime group for the finite-field methods
TP == 23   TG == 5
RECURSIVE ModExp(_, _, _)
ModExp(b, e, p) == IF e = 0 THEN 1 % p ELSE (b * ModExp(b, e - 1, p)) % p
DHValid(e, p) == 1 < e /\ e < p - 1                          \* dhGroup.diffieHellman / dhGEXSHA
\* toy curve y^2 = x^3 + 2x + 2 over GF(17) for the NIST-curve method
EP == 17
OnCurve(x, y) == (y * y) % EP = (x * x * x + 2 * x + 2) % EP  \* as IsOnCurve: arithmetic mod p
ECValid(x, y) == /\ ~(x = 0 /\ y = 0)                        \* validateECPublicKey
                 /\ x < EP /\ y < EP
                 /\ OnCurve(x, y)
\* representative coordinates of the EC value classes
ECRep(cls) == CASE cls = "honest" -> <<5, 1>> [] cls = "attacker" -> <<6, 3>> [] cls = "infinity" -> <<0, 0>>
                [] cls = "offcurve" -> <<5, 2>> [] cls = "xbig" -> <<5 + EP, 1>> [] cls = "ybig" -> <<5, 1 + EP>>
                [] OTHER -> <<EP, EP>>
\* value classes that pass the receiving side's checks, per method
\*   c25519: wrong length (31/33 octets) and all-zero shared secret (zero / low-order points) fail
\*   mlkem:  wrong total length, encapsulation key with a coefficient >= q, X25519 part of low order fail;
\*           a modified ciphertext of the right length decapsulates (implicit rejection) to another secret
ClassValid(m, cls) ==
  CASE m = "ecdh"   -> cls \in {"honest", "attacker", "infinity", "offcurve", "xbig", "ybig"} /\ ECValid(ECRep(cls)[1], ECRep(cls)[2])
    [] m = "c25519" -> cls \in {"honest", "attacker"}
    [] m = "mlkem"  -> cls \in {"honest", "attacker", "ctflip"}
    [] OTHER -> FALSE
\* a public value on the wire: [cls, n, own]; n is the toy group element for dh/gex (cls = "num")
Val(cls, n, own) == [cls |-> cls, n |-> n, own |-> own]
Valid(m, v) == IF m \in {"dh", "gex"} THEN DHValid(v.n, TP) ELSE ClassValid(m, v.cls)

\* private exponents of the honest sides in the toy group; their public values
XC == 6   XS == 15   XA == 3
HonestPub(m, who) == IF m \in {"dh", "gex"} THEN Val("num", ModExp(TG, IF who = "c" THEN XC ELSE XS, TP), who)
                     ELSE Val("honest", 0, who)
AttackerPub(m) == IF m \in {"dh", "gex"} THEN Val("num", ModExp(TG, XA, TP), "a") ELSE Val("attacker", 0, "a")
\* a finite-field value computed in a group of `from` bits as seen by a side working in a group of `to` bits
\* (DH-GEX with the group message altered): the same when the groups are the same; from a larger group it is
\* (with overwhelming probability) not below the smaller modulus, i.e. out of range; from a smaller group it
\* is some in-range value unrelated to the receiver's group
Transfer(v, from, to) == IF from = to \/ v.cls # "num" THEN v
                         ELSE IF from > to THEN Val("num", TP + 1, v.own)
                         ELSE Val("num", ModExp(TG, XA, TP), v.own)
\* shared secret computed by side me (private exponent x) from the received value
Secret(m, me, x, v) ==
  IF m \in {"dh", "gex"} THEN [num |-> ModExp(v.n, x, TP), with |-> {}]
  ELSE [num |-> 0, with |-> {me, IF v.cls = "ctflip" THEN "implicit-rejection" ELSE v.own}]

-----------------------------------------------------------------------------
(* ---------- (d) one exchange with an attacker on the wire ---------- *)
CONSTANTS PlanSet          \* attacker plans to explore (see IsPlan)
Keep == Val("keep", 0, "-")
ClientReq == <<2048, 2048, 8192>>      \* dhGroupExchangeMinimumBits / PreferredBits / MaximumBits: what dhGEXSHA.Client asks for
NoReq == <<0, 0, 0>>
(* plan = [m, req, grp, e, f, ks, sig]
     req  the (min, preferred, max) triple the server receives (= ClientReq when untouched)   gex only
     grp  "keep" | "other" (another known group) | "small" (p below 2048 bits) | "huge" (above 8192)
          | "g0" | "g1" | "gpm1" (generator 0, 1, p-1)                                        gex only
     e, f Keep | a value of the method
     ks   "keep" | "attacker" (the attacker's own public key) | "corrupt" (unparsable blob)
     sig  "keep" | "flip" (the signature blob damaged) *)
GrpMods == {"keep", "other", "small", "huge", "g0", "g1", "gpm1"}
IsPlan(p) == /\ p.m \in Methods /\ p.grp \in GrpMods
             /\ p.ks \in {"keep", "attacker", "corrupt"} /\ p.sig \in {"keep", "flip"}
             /\ (p.m # "gex" => p.req = ClientReq /\ p.grp = "keep")

NoVal == Val("none", 0, "-")
NoSecret == [num |-> 0, with |-> {}]
Grp(bits, g) == [bits |-> bits, g |-> g]
NoGrp == Grp(0, "-")
ApplyGrp(gr, mod) == CASE mod = "keep" -> gr
                       [] mod = "other" -> Grp(IF gr.bits = 2048 THEN 3072 ELSE 2048, gr.g)
                       [] mod = "small" -> Grp(1024, gr.g)
                       [] mod = "huge" -> Grp(8200, gr.g)
                       [] OTHER -> Grp(gr.bits, mod)
\* dhGEXSHA.Client: p within [2048, 8192] bits and 1 < g < p-1
GroupOK(gr) == gr.bits >= 2048 /\ gr.bits <= 8192 /\ gr.g = "g2"
\* what a side hashes (the view); req and grp are NoReq / NoGrp outside gex
View(req, grp, ks, cpub, spub, k) == [req |-> req, grp |-> grp, ks |-> ks, cpub |-> cpub, spub |-> spub, K |-> k]
NoView == View(NoReq, NoGrp, "-", NoVal, NoVal, NoSecret)
NoSig == [by |-> "-", over |-> NoView]

VARIABLES plan, step,
          cReq, cGrp, cPub,            \* client: request sent, group received, public value sent
          sReq, sGrp, sPubC, sPub,     \* server: request received, group sent, value received, value sent
          wire,                        \* what the server put on the wire last: [ks, f, sig]
          cView, sView, cOut, sOut
vars == <<plan, step, cReq, cGrp, cPub, sReq, sGrp, sPubC, sPub, wire, cView, sView, cOut, sOut>>
M == plan.m
Subst(orig, repl) == IF repl = "keep" THEN orig ELSE repl
SubstV(orig, repl) == IF repl.cls = "keep" THEN orig ELSE repl

Init == /\ plan \in PlanSet /\ step = "start"
        /\ cReq = NoReq /\ cGrp = NoGrp /\ cPub = NoVal /\ sReq = NoReq /\ sGrp = NoGrp /\ sPubC = NoVal /\ sPub = NoVal
        /\ wire = [ks |-> "-", f |-> NoVal, sig |-> NoSig]
        /\ cView = NoView /\ sView = NoView /\ cOut = "pending" /\ sOut = "pending"

\* gex: client writes its request; the server reads it (as altered), checks it and chooses the group
GexRequest == /\ step = "start" /\ M = "gex"
              /\ cReq' = ClientReq /\ sReq' = plan.req
              /\ LET bits == GexServerT(plan.req[1], plan.req[2], plan.req[3]) IN
                 IF bits = NoGroup THEN sOut' = "fail:bad-request" /\ sGrp' = NoGrp /\ step' = "abort"
                 ELSE sOut' = sOut /\ sGrp' = Grp(bits, "g2") /\ step' = "group"
              /\ UNCHANGED <<plan, cGrp, cPub, sPubC, sPub, wire, cView, sView, cOut>>
\* gex: client reads the group (as altered) and checks it
GexGroup == /\ step = "group"
            /\ cGrp' = ApplyGrp(sGrp, plan.grp)
            /\ IF GroupOK(cGrp') THEN cOut' = cOut /\ step' = "init" ELSE cOut' = "fail:bad-group" /\ step' = "abort"
            /\ UNCHANGED <<plan, cReq, cPub, sReq, sGrp, sPubC, sPub, wire, cView, sView, sOut>>
\* client writes its public value; server reads it (as altered), validates, computes K and H, signs, replies
ClientInit == /\ (step = "start" /\ M # "gex") \/ step = "init"
              /\ cPub' = HonestPub(M, "c")
              /\ sPubC' = SubstV(Transfer(cPub', cGrp.bits, sGrp.bits), plan.e)
              /\ IF ~Valid(M, sPubC')
                   THEN /\ sOut' = "fail:invalid-peer-value" /\ step' = "abort"
                        /\ UNCHANGED <<sPub, sView, wire>>
                   ELSE /\ sPub' = HonestPub(M, "s")
                        /\ sView' = View(sReq, sGrp, "ks", sPubC', sPub', Secret(M, "s", XS, sPubC'))
                        /\ wire' = [ks |-> "ks", f |-> sPub', sig |-> [by |-> "ks", over |-> sView']]
                        /\ sOut' = "done" /\ step' = "reply"
              /\ UNCHANGED <<plan, cReq, cGrp, sReq, sGrp, cView, cOut>>
\* client reads the reply (as altered): validates f, computes K and H (kexAlgorithm.Client); then
\* handshakeTransport.client parses the host key and verifies the signature over its own H
ClientFinish ==
  /\ step = "reply"
  /\ LET f == SubstV(Transfer(wire.f, sGrp.bits, cGrp.bits), plan.f)
         ks == Subst(wire.ks, plan.ks)
         sig == IF plan.sig = "flip" THEN NoSig ELSE wire.sig
         view == View(cReq, cGrp, ks, cPub, f, Secret(M, "c", XC, f))
     IN IF ~Valid(M, f) THEN cOut' = "fail:invalid-peer-value" /\ cView' = cView
        ELSE /\ cView' = view
             /\ cOut' = IF ks = "corrupt" THEN "fail:bad-hostkey"
                        ELSE IF sig.by = ks /\ sig.over = view THEN "accept"
                        ELSE "fail:bad-signature"
  /\ step' = "end"
  /\ UNCHANGED <<plan, cReq, cGrp, cPub, sReq, sGrp, sPubC, sPub, wire, sView, sOut>>
\* a failing side closes the connection; the other one sees its read fail
Abort == /\ step = "abort" /\ step' = "end"
         /\ cOut' = IF cOut = "pending" THEN "fail:eof" ELSE cOut
         /\ sOut' = IF sOut = "pending" THEN "fail:eof" ELSE sOut
         /\ UNCHANGED <<plan, cReq, cGrp, cPub, sReq, sGrp, sPubC, sPub, wire, cView, sView>>
Next == GexRequest \/ GexGroup \/ ClientInit \/ ClientFinish \/ Abort
Spec == Init /\ [][Next]_vars

-----------------------------------------------------------------------------
(* ---------- properties ---------- *)
End == step = "end"
Untouched == plan.req = ClientReq /\ plan.grp = "keep" /\ plan.e = Keep /\ plan.f = Keep /\ plan.ks = "keep" /\ plan.sig = "keep"

\* both halves agree on H (the hashed fields) and K whenever the client accepts
Agreement == (End /\ cOut = "accept") => (sOut = "done" /\ cView = sView)
\* the client accepts iff the presented host key signed the client's own exchange hash
AcceptIffSigned == End => (cOut = "accept" <=>
   /\ cView # NoView /\ cView.ks # "corrupt"
   /\ plan.sig = "keep" /\ wire.sig.by = cView.ks /\ wire.sig.over = cView)
\* a peer value outside the valid range makes the side that receives it fail
InvalidRejected == End =>
   /\ (sPubC # NoVal /\ ~Valid(M, sPubC)) => (sOut = "fail:invalid-peer-value" /\ cOut # "accept")
   /\ (sOut = "done" /\ plan.f # Keep /\ ~Valid(M, plan.f)) => cOut = "fail:invalid-peer-value"
\* transcript binding: acceptance implies nothing that is hashed was altered in flight
\* (an e, f or group replaced by a different valid one, an altered request, another host key)
Binding == (End /\ cOut = "accept") =>
   /\ plan.req = ClientReq /\ plan.grp = "keep" /\ plan.ks = "keep" /\ plan.sig = "keep"
   /\ sPubC = cPub /\ cView.spub = sPub
\* no false rejection
HonestCompletes == (End /\ Untouched) => (cOut = "accept" /\ sOut = "done")
\* DH-GEX: the server answers a request with the choose_dh group, within the requested bounds, or refuses
GexChoice == (M = "gex" /\ step # "start") =>
   LET want == GexServerD(sReq[1], sReq[2], sReq[3]) IN
   /\ want = NoGroup <=> sOut = "fail:bad-request"
   /\ want # NoGroup => (sGrp.bits = want /\ sReq[1] <= sGrp.bits /\ sGrp.bits <= sReq[3])
\* the transcription of chooseDH is the declarative rule (on the request of this behaviour)
ChooseAgree == LET r == plan.req IN
   /\ ChooseDHT(r[1], r[2], r[3]) = ChooseDHD(r[1], r[2], r[3])
   /\ GexServerT(r[1], r[2], r[3]) = GexServerD(r[1], r[2], r[3])
TypeOK == /\ IsPlan(plan)
          /\ step \in {"start", "group", "init", "reply", "abort", "end"}
          /\ cOut \in {"pending", "accept", "fail:invalid-peer-value", "fail:bad-signature", "fail:bad-hostkey", "fail:bad-group", "fail:eof"}
          /\ sOut \in {"pending", "done", "fail:invalid-peer-value", "fail:bad-request", "fail:eof"}
=============================================================================
