------------------------------- MODULE JWS_MC -------------------------------
EXTENDS JWS, Json
O(n, k, p) == [name |-> n, key |-> k, payload |-> p]
AllOps == { O("Register", "account", "object"), O("GetReg", "account", "object"), O("RevokeCertByCertKey", "certkey", "object"),
            O("UpdateReg", "nil", "object"), O("AuthorizeOrder", "nil", "object"), O("Authorize", "nil", "object"),
            O("Accept", "nil", "object"), O("RevokeCert", "nil", "object"), O("RevokeAuthorization", "nil", "object"),
            O("CreateOrderCert", "nil", "object"),
            O("GetAuthorization", "nil", "empty"), O("GetChallenge", "nil", "empty"), O("GetOrder", "nil", "empty"),
            O("WaitOrder", "nil", "empty"), O("FetchCert", "nil", "empty"), O("ListCertAlternates", "nil", "empty") }
QuickOps == { o \in AllOps : o.name \in {"Register", "GetReg", "RevokeCertByCertKey", "AuthorizeOrder", "RevokeCert", "GetOrder", "FetchCert"} }
AllKeys == {"RSA", "P-256", "P-384", "P-521"}
Emit == (phase = "done") => PrintT("TRACE " \o ToJson([kt |-> kt, zx |-> zx, zy |-> zy, zr |-> zr, zs |-> zs,
                                 op |-> op, ks |-> ks, eab |-> eab, out |-> out, w |-> Width(kt)]))
=============================================================================
