SPECIFICATION Spec
CONSTANTS
  Listeners <- L_One
  Targets <- T_One
  TNet <- CTNet
  LAddr <- A_One
  PreReg <- Reg_L1
  MaxOpens = 3
  Cap = 1
  MaxHist = 0
  DSendClosed <- DSendClosedLost
CHECK_DEADLOCK FALSE
\* EXPECTED to be violated: a design in which the forward parked at a closed listener is not rejected
INVARIANTS R1_Decided
