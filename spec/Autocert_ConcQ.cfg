SPECIFICATION Spec
CONSTANTS
  Procs = {"g1", "g2", "g3"}
  NameClasses = {"plain", "upper"}
  CacheClasses = {"miss", "good"}
  ClockPos = {"mid", "post"}
  Outcomes = {"ok", "cafail", "badcert"}
  KeyTypes = {"E"}
  Tokens = {FALSE}
  Cleanups = 1
VIEW MCView
INVARIANTS S1_OnlyApprovedValid S2_TokenOnlyForToken S3_PolicyFirst E1_OneIssuance E2_OwnersResult E3_LockOwner
CHECK_DEADLOCK FALSE
