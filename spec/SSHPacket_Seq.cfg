SPECIFICATION Spec
CONSTANTS
  Modes <- SeqReps
  MaxPacket = 262144
  SeqMod = 8
  CtrBase = 3
  CtrLimbs = 2
  Sizes <- SizesSmall
  StartSeqs <- SeqNearWrap8
  StartCtrs <- CtrSmall
  MaxPkts = 4
  MaxFaults = 0
  AttackOps <- NoOps
  Phased = FALSE
  PadRule = "code"
INVARIANTS TypeOK DeliveredPrefix SeqCounts SeqAgree FramingRFC RoundTrip NonceUnique NonceCounts OnlyIntactAccepted ErrorHasCause PredictionRight
PROPERTIES NothingAfterError
CHECK_DEADLOCK FALSE
