SPECIFICATION Spec
CONSTANTS
  Cases <- C06Quick
  Groups = 24
INVARIANTS Emit
CHECK_DEADLOCK FALSE
