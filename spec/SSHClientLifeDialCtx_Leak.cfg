SPECIFICATION Spec
CONSTANTS
  CloseLate = FALSE
INVARIANTS TypeOK Once NotBoth NoLeak
CHECK_DEADLOCK FALSE
