SPECIFICATION SpecLife
CONSTANTS
  FixPrec = TRUE
  FixBase = TRUE
  FixZero = TRUE
  FixRevReason = TRUE
  FixSerRev = TRUE
  Slice = "Life1"
  BaseMenu <- BaseMenuMC
  SubMenu <- SubMenuMC
  Nows <- AllNows
  MaxT = 3
  MaxSubs = 1
  MaxSubSigs = 3
  MaxIdSigs = 2
  LifeAlgos = {"rsa"}
  LifeFlags <- LifeFlagsMC
  LifeLives <- LifeLivesMC
INVARIANTS LifeK1 LifeK2 LifeK3 LifeK5 LifeK6 LifeK7
PROPERTIES L1_RevokedForGood L2_SupersedeId L2_SupersedeBind L3_TickMonotone L4_EntityRevocation
CHECK_DEADLOCK FALSE
