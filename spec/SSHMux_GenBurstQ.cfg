SPECIFICATION GenSpec
CONSTANTS
  MaxPeer = 2
  MaxLocal = 2
  MaxObj = 3
  Configs <- BurstConfigs
  Lite = TRUE
  Hold = FALSE
  Burst = TRUE
  DecidedInLoop = TRUE
  DrainAll = TRUE
  RejectChecksSlot = TRUE
VIEW AbsView
CHECK_DEADLOCK FALSE
