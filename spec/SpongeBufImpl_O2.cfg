\* documentation (DESIGN section 9, O2): with Reset after Read in the behaviours, shakeWrapper.Reset leaves
\* the squeezing flag set and the next Sum panics although the sponge is absorbing again: SumPanicsOnlyAfterRead
\* (and the refinement of SpongeBuf) is violated.  Expected counterexample, outside the property.
SPECIFICATION Spec
CONSTANTS
  Kinds = {"shake"}
  WSet = {1}
  RSet = {1}
  MaxLen = 2
  MaxOut = 2
  MaxObjs = 1
  ShakeResetAfterRead = TRUE
  Rate = 4
  OutLen = 2
  Prefixes = {0}
INVARIANTS SumPanicsOnlyAfterRead
CHECK_DEADLOCK FALSE
