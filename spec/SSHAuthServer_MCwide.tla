------------------------ MODULE SSHAuthServer_MCwide ------------------------
(* SSHAuthServer with the full publickey request product (key x algorithm x format x signature kind). *)
EXTENDS SSHAuthServer_MC

\* full product (model checking only): every key x algorithm x format x signature kind
PkFull(u) ==
       { Query(u, k, a, arg) : k \in Keys \cup {"junk"}, a \in AlgoNames, arg \in {"plain", "trailing"} }
  \cup { Sign(u, k, a, f, s) : k \in Keys \cup {"junk"}, a \in AlgoNames, f \in FmtNames, s \in SigKinds }

\* wide alphabet: a priming request (cache fill, partial success), then the full publickey product for u1
ReqPrimers == { Query("u1", "ed1", ED, "plain"), Query("u1", "rsa1", R256, "plain"), Query("u1", "rsacert1", R256C, "plain"),
                Query("u2", "ed1", ED, "plain"), Req("unknown", "u1", "-", "-", "-", "-", "-"),
                Req("password", "u1", "good", "-", "-", "-", "-") }
ReqWide == TLCEval(PkFull("u1"))
AtWide(a, i) == IF i = 0 THEN ReqPrimers ELSE ReqWide

=============================================================================
