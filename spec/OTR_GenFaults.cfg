SPECIFICATION GSpec
CONSTANTS
  Starts <- StartA
  MaxData = 2
  FragChoices <- F12
  MaxFaults = 1
  FaultKinds <- AllFaults
  MaxAuth = 0
  Secrets <- S1
  Questions <- Q0
  AllowEnd = FALSE
  MaxRequery = 0
  FixCommitState = TRUE
  SeqSMP = FALSE
  FixSMPReset = TRUE
INVARIANTS EmitWitness
VIEW View
CHECK_DEADLOCK FALSE
