---------------------------- MODULE SSHClientLife ----------------------------
(* Growth check X04: life cycle of an SSH client connection and client-side forwarding.

   Models golang.org/x/crypto/ssh
     client.go      NewClient, Client.HandleChannelOpen (the channelHandlers registry),
                    handleGlobalRequests, handleChannelOpens, Client.Close / Wait (through Conn),
     connection.go  Conn.SendRequest / OpenChannel / Close / Wait, DiscardRequests, OpenChannelError,
     tcpip.go       Client.Dial / DialContext / DialTCP ("direct-tcpip"), chanConn
                    (Read / Write / Close / CloseWrite, deadlines unsupported),
     streamlocal.go Client.Dial("unix", ...)  ("direct-streamlocal@openssh.com"),
   on top of mux.go / channel.go as far as the client uses them (openChannel, SendRequest with its
   one-request gate, handleChannelOpen, channel.handlePacket for data / EOF / close / window
   adjust, mux.loop's shutdown).  Protocol reference: RFC 4254 section 4 (global requests),
   section 5 (channel open / EOF / close) and section 7.2 (direct-tcpip).

   PROPERTIES (defined here from the package documentation and RFC 4254; all are invariants of
   the big-step state, names L1..L8 below):
     L1  every Dial / DialContext / DialTCP call returns exactly once, with a usable connection
         XOR an error (an OpenChannelError carrying the peer's reason after an open failure, the
         context's error after the context ended first, some error after the connection ended),
         and it is never left waiting once the peer has answered, its context has ended, or the
         connection has ended;
     L2  no channel is leaked: a channel the peer confirmed is either returned to the caller of
         Dial or has had CHANNEL_CLOSE sent for it in the step in which the confirmation arrived
         (the DialContext whose context ended before the confirmation); a channel is never both;
     L3  after Close, a disconnect or a transport error: every pending call has returned an
         error (Read: io.EOF), Wait has returned, every handler channel is closed, every channel
         object is closed, nothing is registered as waiting, and no goroutine of the client is
         left (checked on the real code at the model's idle points);
     L4  at most one handler per channel type: a second HandleChannelOpen for a type returns nil,
         after the connection ended it returns a closed channel; a channel open from the peer is
         delivered to the handler of exactly its type, an open of a type without handler is
         rejected with SSH_OPEN_UNKNOWN_CHANNEL_TYPE (3) and leaves no trace;
     L5  every global request of the peer with want-reply gets exactly one reply
         (REQUEST_FAILURE from the default handler) in the step in which it arrived, requests
         without want-reply get none (RFC 4254 section 4: replies in request order); channel requests of
         the peer on a dialled connection are discarded, the want-reply ones with one CHANNEL_FAILURE;
     L6  SendRequest(wantReply) returns the reply that arrived while it was the pending request
         (class and payload), exactly once; without want-reply it returns at once; replies that
         arrive while no request is pending are dropped and never satisfy a later request;
     L7  chanConn.Read delivers the peer's data in order without loss or duplication, and
         io.EOF only after the peer's EOF / close (or the end of the connection) and only after
         everything received before it has been delivered;
     L8  CloseWrite sends one CHANNEL_EOF per successful call and Write then fails with io.EOF;
         Close sends exactly one CHANNEL_CLOSE per channel (also counting the automatic answer to
         the peer's close); nothing is sent for a channel after its CHANNEL_CLOSE.

   Big-step semantics as in SSHMux.tla: one action = one event (a call the application starts, a
   context that ends, something the peer sends) followed by everything the client does until it
   is quiescent again; the replay harness observes exactly that inside a testing/synctest bubble.
   Each step has a deterministic observable (packets written, calls returned with result class,
   NewChannels delivered to handlers, handler channels closed, connection ended).  The only
   nondeterministic steps are the RACE events: the end of a DialContext's context concurrent with
   the peer's answer (or the end of the connection).  Their outcome set is {cancel first, answer
   first}; SSHClientLifeDialCtx.tla justifies that set on a small-step model of DialContext's two
   goroutines and Go's select.

   Modelled as the code is (observations, not charged as defects):
     * chanConn.Close does not unblock a local Read until the peer's CHANNEL_CLOSE arrives or the
       connection ends (net.Conn's contract says it does);
     * every CloseWrite call sends another CHANNEL_EOF (no "already sent" check);
     * a DialContext whose context has ended leaves its goroutine waiting for the peer's answer;
       it ends (closing a late-confirmed channel) when the answer or the end of the connection
       arrives.

   The application modelled (and played by the harness): one reader and one writer per
   connection at a time, no CloseWrite concurrent with a blocked Write, at most one want-reply
   global request outstanding (a second one waits on a mutex, which the GREQ2 race event covers),
   handler channels are serviced.  The peer keeps to RFC 4254's channel state machine (raw
   protocol violations are the subject of C36 / SSHMux.tla). *)
EXTENDS Integers, Sequences, FiniteSets, TLC

CONSTANTS MaxPeer,      \* peer events per history
          MaxLocal,     \* local events per history
          MaxDial,      \* Dial* calls per history
          MaxGReq,      \* client SendRequest calls per history
          MaxIn,        \* channel opens by the peer per history
          MaxReg,       \* HandleChannelOpen calls per history
          Configs,      \* initial configurations, subset of AllConfigNames
          Alpha,        \* "full" | "lite" | "conn": event alphabets
          Races,        \* BOOLEAN: include the race events
          CloseLate     \* BOOLEAN: TRUE = the code as it is (a late-confirmed channel is closed); FALSE = the leaking design

Slots == 0 .. 3
Types == {"ta", "tb"}                         \* channel types the application may register
CtxKinds == {"ctx", "ctxdl"}                  \* DialContext with a cancellable context / one that ends by deadline
ChanKinds == {"tcp", "unix", "dialtcp"} \cup CtxKinds

VARIABLES S,      \* the whole state as one record
          hist    \* history of observations (kept by the generator actions of SSHClientLife_MC only)

-----------------------------------------------------------------------------
R(c, x, d) == [c |-> c, x |-> x, d |-> d]                 \* result of a call: class, number, chunk ids
Ev(k, o, v, x) == [k |-> k, o |-> o, v |-> v, x |-> x]
Pkt(t, a, b, s) == [t |-> t, a |-> a, b |-> b, s |-> s]

NewObj(lid, dir, kind, rid, opener, ctx) ==
  [lid |-> lid, dir |-> dir, kind |-> kind, rid |-> rid,
   decided |-> FALSE,       \* open confirmation / failure received (out) or Accept / Reject called (in)
   ok |-> FALSE,            \* the channel was confirmed
   held |-> FALSE,          \* the application owns it (Dial returned it / Accept returned it)
   orphan |-> FALSE,        \* DialContext returned ctx.Err() while its goroutine still waits for the answer
   ctx |-> ctx,             \* "none" | "live" | "done"
   closed |-> FALSE,        \* channel.close() ran
   sentClose |-> FALSE, sentEOF |-> FALSE, peerEOF |-> FALSE, peerClosed |-> FALSE,
   rbuf |-> <<>>,           \* chunk ids received and not yet read
   nrecv |-> 0, got |-> <<>>,   \* ghost: chunks received / returned by Read so far
   rwin |-> "none",         \* "none" | "big" | "zero": what we may still send
   opener |-> opener, reader |-> 0, writer |-> 0,   \* calls blocked on this channel
   inq |-> FALSE,           \* delivered to a handler channel, not yet decided
   ncl |-> 0]               \* ghost: CHANNEL_CLOSE packets sent for it

NoAlt == [on |-> FALSE, out |-> <<>>, done |-> {}, dead |-> FALSE]
NoPre == [h |-> {}, dead |-> FALSE, gw |-> 0]

ZeroTab == (0 :> 0) @@ (1 :> 0) @@ (2 :> 0) @@ (3 :> 0)
EmptyS == [tab |-> ZeroTab, obj |-> <<>>, calls |-> <<>>, gwait |-> 0, waiters |-> {},
           handlers |-> {}, dead |-> FALSE,
           out |-> <<>>, done |-> {}, del |-> <<>>, last |-> Ev("init", 0, "empty", 0), alt |-> NoAlt, pre |-> NoPre,
           np |-> 0, nl |-> 0, nd |-> 0, ng |-> 0, nin |-> 0, nreg |-> 0, nrep |-> 0,
           dup |-> FALSE, late |-> FALSE, cfg |-> "empty"]

HasFree(s) == \E i \in Slots : s.tab[i] = 0
FreeSlot(s) == CHOOSE i \in Slots : s.tab[i] = 0 /\ \A j \in Slots : j < i => s.tab[j] # 0
NObj(s) == Len(s.obj)
Objs(s) == 1 .. NObj(s)
Resident(s) == {o \in Objs(s) : \E i \in Slots : s.tab[i] = o}
Me(s) == Len(s.calls)

Begin(s, e) == [s EXCEPT !.out = <<>>, !.done = {}, !.del = <<>>, !.last = e, !.alt = NoAlt,
                         !.pre = [h |-> s.handlers, dead |-> s.dead, gw |-> s.gwait]]
Emit(s, p) == [s EXCEPT !.out = Append(@, p)]
\* a packet addressed to the peer's end of channel o
EmitCh(s, o, p) == [s EXCEPT !.out = Append(@, p), !.late = @ \/ s.obj[o].sentClose]
SetObj(s, o, r) == [s EXCEPT !.obj[o] = r]
Finish(s, c, res) ==                               \* call c returns res
  IF c = 0 THEN s
  ELSE IF s.calls[c].st = "done" THEN [s EXCEPT !.dup = TRUE]
  ELSE [s EXCEPT !.calls[c] = [@ EXCEPT !.st = "done", !.res = res], !.done = @ \cup {<<c, res>>}]

RECURSIVE FinishAll(_, _, _)
FinishAll(s, cs, res) == IF cs = {} THEN s
                         ELSE LET c == CHOOSE x \in cs : TRUE IN FinishAll(Finish(s, c, res), cs \ {c}, res)

\* mux.loop leaves its for-loop: every resident channel is closed, the streams are closed, everybody wakes up;
\* handleChannelOpens closes the handler channels, handleGlobalRequests ends, Wait returns.
Die(s) ==
  IF s.dead THEN s ELSE
  LET res == Resident(s)
      openers == {s.obj[o].opener : o \in res} \ {0}
      rw == ({s.obj[o].reader : o \in res} \cup {s.obj[o].writer : o \in res}) \ {0}
      s1 == [s EXCEPT
               !.obj = [o \in Objs(s) |->
                          IF o \in res THEN [s.obj[o] EXCEPT !.closed = TRUE, !.sentClose = TRUE, !.peerEOF = TRUE,
                                                             !.opener = 0, !.reader = 0, !.writer = 0]
                          ELSE s.obj[o]] \o <<>>,     \* (\o forces TLC to build the sequence now)
               !.tab = ZeroTab, !.dead = TRUE, !.gwait = 0, !.waiters = {}]
  IN FinishAll(FinishAll(s1, openers \cup s.waiters \cup ({s.gwait} \ {0}), R("err", 0, <<>>)), rw, R("eof", 0, <<>>))

-----------------------------------------------------------------------------
(* what the peer does; s is the state after Begin *)

PConfirm(s, o, v) ==
  LET r == s.obj[o]
      r1 == [r EXCEPT !.decided = TRUE, !.ok = TRUE, !.rid = 200 + o, !.opener = 0,
                      !.rwin = IF v = "w0" THEN "zero" ELSE "big"] IN
  IF r.orphan
    THEN \* Dial returns the connection to DialContext's goroutine; nobody receives it and the context has ended: conn.Close()
         IF CloseLate THEN SetObj(EmitCh(s, o, Pkt("close", 200 + o, 0, "")), o, [r1 EXCEPT !.sentClose = TRUE, !.ncl = @ + 1])
         ELSE SetObj(s, o, r1)
    ELSE Finish(SetObj(s, o, [r1 EXCEPT !.held = TRUE]), r.opener, R("conn", 0, <<>>))

PFail(s, o, reason) ==
  LET r == s.obj[o] IN
  Finish([SetObj(s, o, [r EXCEPT !.decided = TRUE, !.opener = 0]) EXCEPT !.tab[r.lid] = 0],
         r.opener, R("rejected", reason, <<>>))                 \* opener = 0 for an orphan: nobody is told

PData(s, o) ==
  LET r == s.obj[o]
      id == r.nrecv + 1 IN
  IF r.reader # 0
    THEN Finish(SetObj(s, o, [r EXCEPT !.nrecv = id, !.got = Append(@, id), !.reader = 0]), r.reader, R("data", 0, <<id>>))
    ELSE SetObj(s, o, [r EXCEPT !.nrecv = id, !.rbuf = Append(@, id)])

PEof(s, o) ==
  LET r == s.obj[o] IN
  Finish(SetObj(s, o, [r EXCEPT !.peerEOF = TRUE, !.reader = 0]), r.reader, R("eof", 0, <<>>))

PClose(s, o) ==
  LET r == s.obj[o]
      s1 == IF r.sentClose THEN s ELSE EmitCh(s, o, Pkt("close", r.rid, 0, ""))
      s2 == [SetObj(s1, o, [r EXCEPT !.closed = TRUE, !.sentClose = TRUE, !.peerEOF = TRUE, !.peerClosed = TRUE,
                                       !.reader = 0, !.writer = 0, !.ncl = IF r.sentClose THEN @ ELSE @ + 1])
               EXCEPT !.tab[r.lid] = 0]
  IN Finish(Finish(s2, r.reader, R("eof", 0, <<>>)), r.writer, R("eof", 0, <<>>))

PAdj(s, o) ==
  LET r == s.obj[o]
      s1 == SetObj(s, o, [r EXCEPT !.rwin = "big", !.writer = 0]) IN
  IF r.writer = 0 THEN s1
  ELSE IF r.sentClose THEN Finish(s1, r.writer, R("eof", 0, <<>>))     \* reserve succeeds, writePacket refuses
  ELSE Finish(EmitCh(s1, o, Pkt("data", r.rid, 0, "w")), r.writer, R("ok", 0, <<>>))

\* a channel request on a dialled connection: dial() runs DiscardRequests on the channel's request stream
PCReq(s, o, v) ==
  LET r == s.obj[o] IN
  IF v = "wr" /\ ~r.sentClose THEN EmitCh(s, o, Pkt("chanfail", r.rid, 0, "")) ELSE s

PPOpen(s, t) ==
  LET o == NObj(s) + 1
      lid == FreeSlot(s) IN
  IF t \in s.handlers
    THEN [s EXCEPT !.obj = Append(@, [NewObj(lid, "in", t, 100 + o, 0, "none") EXCEPT !.inq = TRUE]),
                   !.tab[lid] = o, !.del = Append(@, t), !.nin = @ + 1]
    ELSE \* handleChannelOpens: no handler -> Reject(UnknownChannelType); the slot is free again
         Emit([s EXCEPT !.obj = Append(@, [NewObj(lid, "in", t, 100 + o, 0, "none") EXCEPT !.decided = TRUE]), !.nin = @ + 1],
              Pkt("openfail", 100 + o, 3, ""))

PGReq(s, v) == IF v = "wr" THEN Emit(s, Pkt("gfail", 0, 0, "")) ELSE s
PGReply(s, v) ==
  LET s1 == [s EXCEPT !.nrep = @ + 1] IN
  IF s.gwait = 0 THEN s1                                                  \* gate closed: dropped
  ELSE Finish([s1 EXCEPT !.gwait = 0], s.gwait, R(IF v = "succ" THEN "true" ELSE "false", s1.nrep, <<>>))

OutOpening(s) == {o \in Resident(s) : s.obj[o].dir = "out" /\ ~s.obj[o].decided}
Live(s) == {o \in Resident(s) : s.obj[o].ok /\ ~s.obj[o].peerClosed}
LiveOut(s) == {o \in Live(s) : s.obj[o].dir = "out"}
Reasons == IF Alpha = "full" THEN {1, 2, 4} ELSE {2}

PeerEvents(s) ==
  {Ev("confirm", o, v, 0) : o \in OutOpening(s), v \in IF Alpha = "lite" THEN {"ok"} ELSE {"ok", "w0"}}
  \cup {Ev("fail", o, "", x) : o \in OutOpening(s), x \in Reasons}
  \cup {Ev(k, o, "", 0) : k \in {"data", "eof"}, o \in {x \in LiveOut(s) : ~s.obj[x].peerEOF}}
  \cup {Ev("close", o, "", 0) : o \in Live(s)}
  \cup {Ev("adj", o, "", 0) : o \in {x \in LiveOut(s) : s.obj[x].rwin = "zero"}}
  \cup {Ev("creq", o, v, 0) : o \in LiveOut(s), v \in IF Alpha = "lite" THEN {} ELSE {"wr", "nowr"}}
  \cup (IF Alpha = "conn" THEN {} ELSE
        {Ev("popen", 0, t, 0) : t \in IF s.nin < MaxIn /\ HasFree(s) THEN (IF Alpha = "lite" THEN {"ta", "unk"} ELSE Types \cup {"unk"}) ELSE {}}
        \cup {Ev("pgreq", 0, v, 0) : v \in IF Alpha = "lite" THEN {"wr"} ELSE {"wr", "nowr"}}
        \cup {Ev("greply", 0, v, 0) : v \in IF s.gwait # 0 \/ Alpha = "full" THEN {"succ", "fail"} ELSE {}})
  \cup {Ev(k, 0, "", 0) : k \in IF Alpha = "full" THEN {"peereof", "garbage", "disc"} ELSE {"peereof"}}

PeerApply(s, e) ==
  CASE e.k = "confirm" -> PConfirm(s, e.o, e.v)
    [] e.k = "fail" -> PFail(s, e.o, e.x)
    [] e.k = "data" -> PData(s, e.o)
    [] e.k = "eof" -> PEof(s, e.o)
    [] e.k = "close" -> PClose(s, e.o)
    [] e.k = "adj" -> PAdj(s, e.o)
    [] e.k = "creq" -> PCReq(s, e.o, e.v)
    [] e.k = "popen" -> PPOpen(s, e.v)
    [] e.k = "pgreq" -> PGReq(s, e.v)
    [] e.k = "greply" -> PGReply(s, e.v)
    [] e.k \in {"peereof", "garbage", "disc"} -> Die(s)

PeerStep(s0, e) == PeerApply([Begin(s0, e) EXCEPT !.np = @ + 1], e)

-----------------------------------------------------------------------------
(* what the application does; blocking calls get the next index in s.calls *)

NewCall(s, e) == [s EXCEPT !.calls = Append(@, [k |-> e.k, o |-> e.o, v |-> e.v, st |-> "wait", res |-> R("", 0, <<>>)])]

LDial(s, kind) ==
  LET me == Me(s)
      s0 == [s EXCEPT !.nd = @ + 1] IN
  IF kind \in {"badnet", "badaddr"} THEN Finish(s0, me, R("err", 0, <<>>))          \* refused before anything is sent
  ELSE IF kind = "ctxdone" THEN Finish(s0, me, R("ctxerr", 1, <<>>))               \* ctx.Err() checked first
  ELSE IF s.dead THEN Finish(s0, me, R("err", 0, <<>>))                            \* the channel open cannot be written
  ELSE LET o == NObj(s) + 1
           lid == FreeSlot(s) IN
       Emit([s0 EXCEPT !.obj = Append(@, NewObj(lid, "out", kind, -1, me, IF kind \in CtxKinds THEN "live" ELSE "none")),
                       !.tab[lid] = o, !.calls[me].o = o],
            Pkt("open", lid, 0, kind))

\* the context of DialContext call on object o ends (cancel, or deadline for kind "ctxdl")
Cancel(s, o) ==
  LET r == s.obj[o] IN
  IF r.ctx # "live" THEN s
  ELSE IF r.opener # 0 /\ ~r.decided
         THEN Finish(SetObj(s, o, [r EXCEPT !.ctx = "done", !.orphan = TRUE, !.opener = 0]),
                     r.opener, R("ctxerr", IF r.kind = "ctx" THEN 1 ELSE 2, <<>>))
         ELSE SetObj(s, o, [r EXCEPT !.ctx = "done"])                 \* already connected (or failed): no effect

LGReq(s, v) ==
  LET me == Me(s)
      s0 == [s EXCEPT !.ng = @ + 1] IN
  IF s.dead THEN Finish(s0, me, R("err", 0, <<>>))
  ELSE LET s1 == Emit(s0, Pkt("greq", IF v = "wr" THEN 1 ELSE 0, 0, "ka")) IN
       IF v = "wr" THEN [s1 EXCEPT !.gwait = me] ELSE Finish(s1, me, R("ok", 0, <<>>))

LHReg(s, t) ==
  LET s0 == [s EXCEPT !.nreg = @ + 1] IN
  IF s.dead THEN Finish(s0, Me(s), R("closed", 0, <<>>))
  ELSE IF t \in s.handlers THEN Finish(s0, Me(s), R("nil", 0, <<>>))
  ELSE Finish([s0 EXCEPT !.handlers = @ \cup {t}], Me(s), R("chan", 0, <<>>))

LAccept(s, o) ==
  LET r == s.obj[o] IN
  IF r.sentClose \/ s.dead
    THEN Finish(SetObj(s, o, [r EXCEPT !.decided = TRUE, !.inq = FALSE]), Me(s), R("err", 0, <<>>))
    ELSE Finish(EmitCh(SetObj(s, o, [r EXCEPT !.decided = TRUE, !.inq = FALSE, !.ok = TRUE, !.held = TRUE, !.rwin = "big"]),
                       o, Pkt("confirm", r.rid, r.lid, "")), Me(s), R("ok", 0, <<>>))

LReject(s, o) ==
  LET r == s.obj[o]
      s1 == SetObj(s, o, [r EXCEPT !.decided = TRUE, !.inq = FALSE]) IN
  IF r.sentClose \/ s.dead THEN Finish(s1, Me(s), R("err", 0, <<>>))
  ELSE Finish([EmitCh(s1, o, Pkt("openfail", r.rid, 1, "")) EXCEPT !.tab[r.lid] = 0], Me(s), R("ok", 0, <<>>))

LWrite(s, o) ==
  LET r == s.obj[o] IN
  IF r.sentEOF \/ r.closed THEN Finish(s, Me(s), R("eof", 0, <<>>))                \* after CloseWrite / window closed
  ELSE IF r.rwin = "zero" THEN SetObj(s, o, [r EXCEPT !.writer = Me(s)])            \* waits for a window adjust
  ELSE IF r.sentClose THEN Finish(s, Me(s), R("eof", 0, <<>>))                      \* writePacket refuses after our close
  ELSE Finish(EmitCh(s, o, Pkt("data", r.rid, 0, "w")), Me(s), R("ok", 0, <<>>))

LRead(s, o) ==
  LET r == s.obj[o] IN
  IF r.rbuf # <<>> THEN Finish(SetObj(s, o, [r EXCEPT !.rbuf = <<>>, !.got = @ \o r.rbuf]), Me(s), R("data", 0, r.rbuf))
  ELSE IF r.peerEOF THEN Finish(s, Me(s), R("eof", 0, <<>>))
  ELSE SetObj(s, o, [r EXCEPT !.reader = Me(s)])

LCloseWrite(s, o) ==
  LET r == s.obj[o]
      s1 == SetObj(s, o, [r EXCEPT !.sentEOF = TRUE]) IN
  IF r.sentClose THEN Finish(s1, Me(s), R("eof", 0, <<>>))
  ELSE Finish(EmitCh(s1, o, Pkt("eof", r.rid, 0, "")), Me(s), R("nil", 0, <<>>))

LCloseConn(s, o) ==
  LET r == s.obj[o] IN
  IF r.sentClose THEN Finish(s, Me(s), R("eof", 0, <<>>))
  ELSE Finish(SetObj(EmitCh(s, o, Pkt("close", r.rid, 0, "")), o, [r EXCEPT !.sentClose = TRUE, !.ncl = @ + 1]),
              Me(s), R("nil", 0, <<>>))

LCClose(s) == Die(Finish(s, Me(s), R("returned", 0, <<>>)))
LWait(s) == IF s.dead THEN Finish(s, Me(s), R("err", 0, <<>>)) ELSE [s EXCEPT !.waiters = @ \cup {Me(s)}]

HeldOut(s) == {o \in Objs(s) : s.obj[o].held /\ s.obj[o].dir = "out"}
DialKinds == IF Alpha = "full" THEN ChanKinds \cup {"ctxdone", "badnet", "badaddr"}
             ELSE IF Alpha = "lite" THEN {"tcp", "ctx"} ELSE {"tcp", "unix", "ctx"}

LocalEvents(s) ==
  {Ev("dial", 0, k, 0) : k \in IF s.nd < MaxDial /\ HasFree(s) THEN DialKinds ELSE {}}
  \cup {Ev("cancel", o, "", 0) : o \in {x \in Objs(s) : s.obj[x].ctx = "live"}}
  \cup {Ev("write", o, "", 0) : o \in {x \in HeldOut(s) : s.obj[x].writer = 0}}
  \cup {Ev("read", o, "", 0) : o \in {x \in HeldOut(s) : s.obj[x].reader = 0}}
  \cup {Ev("closewrite", o, "", 0) : o \in {x \in HeldOut(s) : s.obj[x].writer = 0}}
  \cup {Ev("closeconn", o, "", 0) : o \in HeldOut(s)}
  \cup {Ev("cclose", 0, "", 0), Ev("wait", 0, "", 0)}
  \cup (IF Alpha = "conn" THEN {} ELSE
        {Ev("greq", 0, v, 0) : v \in IF s.ng >= MaxGReq THEN {} ELSE IF s.gwait = 0 THEN {"wr", "nowr"} ELSE {"nowr"}}
        \cup {Ev("hreg", 0, t, 0) : t \in IF s.nreg < MaxReg THEN (IF Alpha = "lite" THEN {"ta"} ELSE Types) ELSE {}}
        \cup {Ev(k, o, "", 0) : k \in {"accept", "reject"}, o \in {x \in Objs(s) : s.obj[x].inq}})

IsCall(e) == e.k \in {"dial", "greq", "hreg", "accept", "reject", "write", "read", "closewrite", "closeconn", "cclose", "wait", "greq2"}

LocalApply(s, e) ==
  CASE e.k = "dial" -> LDial(s, e.v)
    [] e.k = "cancel" -> Cancel(s, e.o)
    [] e.k = "greq" -> LGReq(s, e.v)
    [] e.k = "hreg" -> LHReg(s, e.v)
    [] e.k = "accept" -> LAccept(s, e.o)
    [] e.k = "reject" -> LReject(s, e.o)
    [] e.k = "write" -> LWrite(s, e.o)
    [] e.k = "read" -> LRead(s, e.o)
    [] e.k = "closewrite" -> LCloseWrite(s, e.o)
    [] e.k = "closeconn" -> LCloseConn(s, e.o)
    [] e.k = "cclose" -> LCClose(s)
    [] e.k = "wait" -> LWait(s)

LocalStep(s0, e) ==
  LET b == [Begin(s0, e) EXCEPT !.nl = @ + 1] IN
  LocalApply(IF IsCall(e) THEN NewCall(b, e) ELSE b, e)

-----------------------------------------------------------------------------
(* race events: two things happen without the client becoming quiescent in between *)

\* the context of the DialContext on o ends while the peer's answer e.v (or the end of the connection) is on its way
RacePeerEv(e) == CASE e.v = "confirm" -> Ev("confirm", e.o, "ok", 0)
                   [] e.v = "fail" -> Ev("fail", e.o, "", 2)
                   [] e.v = "peereof" -> Ev("peereof", 0, "", 0)
RaceOutcomes(s0, e) ==
  LET b == [Begin(s0, e) EXCEPT !.np = @ + 1, !.nl = @ + 1]
      pe == RacePeerEv(e)
      a1 == PeerApply(Cancel(b, e.o), pe)             \* the context ends first
      a2 == Cancel(PeerApply(b, pe), e.o)             \* the answer is processed first
      alt(x) == [on |-> TRUE, out |-> x.out, done |-> x.done, dead |-> x.dead]
  IN {[a1 EXCEPT !.alt = alt(a2)], [a2 EXCEPT !.alt = alt(a1)]}

\* a second want-reply SendRequest is started while one is pending, and the reply to the first arrives: the second
\* waits on globalSentMu, the reply goes to the first, then the second writes its request
GReq2(s0, e) ==
  LET b == NewCall([Begin(s0, e) EXCEPT !.np = @ + 1, !.nl = @ + 1], e) IN
  LGReq(PGReply(b, e.v), "wr")

RaceEvents(s) ==
  IF ~Races \/ s.dead THEN {} ELSE
  {Ev("race", o, v, 0) : o \in {x \in OutOpening(s) : s.obj[x].ctx = "live" /\ s.obj[x].opener # 0},
                         v \in {"confirm", "fail", "peereof"}}
  \cup {Ev("greq2", 0, v, 0) : v \in IF s.gwait # 0 /\ s.ng < MaxGReq /\ Alpha # "conn" THEN {"succ", "fail"} ELSE {}}

Outcomes(s, e) == IF e.k = "race" THEN RaceOutcomes(s, e)
                  ELSE IF e.k = "greq2" THEN {GReq2(s, e)}
                  ELSE IF e.k \in {"confirm", "fail", "data", "eof", "close", "adj", "creq", "popen", "pgreq", "greply", "peereof", "garbage", "disc"}
                    THEN {PeerStep(s, e)}
                  ELSE {LocalStep(s, e)}

-----------------------------------------------------------------------------
(* initial configurations: reached by ordinary steps (the harness replays the same preamble) *)
AllConfigNames == {"empty", "conn", "pend", "hreg", "two"}
Preamble(c) ==
  CASE c = "empty" -> <<>>
    [] c = "conn" -> <<Ev("dial", 0, "tcp", 0), Ev("confirm", 1, "ok", 0)>>                     \* one open connection
    [] c = "pend" -> <<Ev("dial", 0, "ctx", 0)>>                                                \* one DialContext in flight
    [] c = "hreg" -> <<Ev("hreg", 0, "ta", 0), Ev("popen", 0, "ta", 0)>>                        \* a handler and an undecided NewChannel
    [] c = "two" -> <<Ev("dial", 0, "unix", 0), Ev("confirm", 1, "w0", 0), Ev("dial", 0, "ctx", 0)>>

RECURSIVE Run(_, _)
Run(s, es) == IF es = <<>> THEN s
              ELSE Run(CHOOSE n \in Outcomes(s, Head(es)) : TRUE, Tail(es))

StartOf(c) == [Run(EmptyS, Preamble(c)) EXCEPT !.np = 0, !.nl = 0, !.nd = 0, !.ng = 0, !.nin = 0, !.nreg = 0,
                                               !.out = <<>>, !.done = {}, !.del = <<>>, !.alt = NoAlt,
                                               !.last = Ev("init", 0, c, 0), !.cfg = c]

Init == \E c \in Configs : S = StartOf(c) /\ hist = <<>>

\* the client is at rest: nothing pending, every channel gone (the real client then runs exactly its base goroutines)
Idle(s) == /\ \A c \in 1 .. Len(s.calls) : s.calls[c].st = "done"
           /\ \A o \in Objs(s) : \/ s.obj[o].closed
                                 \/ s.obj[o].decided /\ ~s.obj[o].ok
                                 \/ s.obj[o].inq
HClosed(s) == IF s.dead THEN s.handlers ELSE {}

Obs(s) == [ev |-> s.last, out |-> s.out, done |-> s.done, del |-> s.del, dead |-> s.dead, hc |-> HClosed(s),
           idle |-> Idle(s), alt |-> s.alt]

Peer == /\ ~S.dead /\ S.np < MaxPeer
        /\ \E e \in PeerEvents(S) : S' = PeerStep(S, e) /\ hist' = hist
Local == /\ S.nl < MaxLocal
         /\ \E e \in LocalEvents(S) : S' = LocalStep(S, e) /\ hist' = hist
Race == /\ S.np < MaxPeer /\ S.nl < MaxLocal
        /\ \E e \in RaceEvents(S) : \E n \in Outcomes(S, e) : S' = n /\ hist' = hist
Next == Peer \/ Local \/ Race
Spec == Init /\ [][Next]_<<S, hist>>

View == S

\* what the end of the connection does to a state (the harness ends every replay by ending the connection)
Final(s) == IF s.dead THEN Begin(s, Ev("peereof", 0, "", 0)) ELSE Die(Begin(s, Ev("peereof", 0, "", 0)))

-----------------------------------------------------------------------------
(* Properties *)
CallsOf(s) == 1 .. Len(s.calls)
DoneOf(s, k) == {d \in s.done : s.calls[d[1]].k = k}
ConfirmStep(s, o) == (s.last.k = "confirm" /\ s.last.o = o) \/ (s.last.k = "race" /\ s.last.o = o /\ s.last.v = "confirm")
FailStep(s, o) == (s.last.k = "fail" /\ s.last.o = o) \/ (s.last.k = "race" /\ s.last.o = o /\ s.last.v = "fail")
Dying(s) == s.dead /\ ~s.pre.dead

P_TypeOK(s) ==
          /\ s.np \in 0 .. MaxPeer /\ s.nl \in 0 .. MaxLocal
          /\ \A i \in Slots : s.tab[i] \in 0 .. NObj(s)
          /\ \A i, j \in Slots : (i # j /\ s.tab[i] # 0) => s.tab[i] # s.tab[j]
          /\ \A i \in Slots : s.tab[i] # 0 => s.obj[s.tab[i]].lid = i /\ ~s.obj[s.tab[i]].closed
          /\ s.gwait \in 0 .. Len(s.calls) /\ s.handlers \subseteq Types

\* L1: exactly once; a usable connection XOR an error; never left waiting after the answer / the context's end / the end
P_L1_Once(s) ==
           ~s.dup
P_L1_Result(s) ==
             \A d \in DoneOf(s, "dial") :
               LET o == s.calls[d[1]].o IN
               /\ d[2].c \in {"conn", "rejected", "err", "ctxerr"}
               /\ d[2].c = "conn" => /\ ConfirmStep(s, o)
                                     /\ s.obj[o].held /\ s.obj[o].ok /\ ~s.obj[o].closed /\ ~s.obj[o].sentClose /\ ~s.obj[o].orphan
               /\ d[2].c = "rejected" => FailStep(s, o) /\ d[2].x = (IF s.last.k = "fail" THEN s.last.x ELSE 2)
               /\ d[2].c = "ctxerr" => \/ s.calls[d[1]].v = "ctxdone"
                                       \/ s.last.k \in {"cancel", "race"} /\ s.last.o = o /\ s.obj[o].orphan
                                          /\ d[2].x = (IF s.obj[o].kind = "ctx" THEN 1 ELSE 2)
               /\ d[2].c = "err" /\ s.calls[d[1]].v \notin {"badnet", "badaddr"} => s.dead
P_L1_NotStuck(s) ==
               \A c \in CallsOf(s) : (s.calls[c].k = "dial" /\ s.calls[c].st = "wait") =>
                 LET o == s.calls[c].o IN
                 /\ ~s.dead /\ o \in Resident(s) /\ ~s.obj[o].decided /\ s.obj[o].ctx # "done" /\ s.obj[o].opener = c

\* L2: a confirmed outbound channel is with the application or has been closed towards the peer, never both at the time of return
P_L2_NoLeak(s) ==
             \A o \in Objs(s) : (s.obj[o].dir = "out" /\ s.obj[o].ok) =>
               /\ s.obj[o].held \/ s.obj[o].sentClose
               /\ s.obj[o].orphan => ~s.obj[o].held /\ s.obj[o].sentClose
P_L2_OrphanClose(s) ==
                  \A o \in Objs(s) : (s.obj[o].orphan /\ ConfirmStep(s, o) /\ s.obj[o].ok) =>
                    \E i \in 1 .. Len(s.out) : s.out[i] = Pkt("close", s.obj[o].rid, 0, "")

\* L3: the end of the connection
P_L3_AllReturn(s) ==
                s.dead =>
                  /\ \A c \in CallsOf(s) : s.calls[c].st = "done"
                  /\ s.gwait = 0 /\ s.waiters = {}
                  /\ \A o \in Objs(s) : /\ s.obj[o].opener = 0 /\ s.obj[o].reader = 0 /\ s.obj[o].writer = 0
                                        /\ (s.obj[o].held \/ s.obj[o].inq \/ ~s.obj[o].decided \/ (s.obj[o].orphan /\ s.obj[o].ok)) => s.obj[o].closed
                  /\ HClosed(s) = s.handlers /\ Idle(s)
P_L3_ErrorsOnly(s) ==
                 Dying(s) => \A d \in s.done :
                   \/ d[2].c \in {"err", "eof", "ctxerr"}
                   \/ s.calls[d[1]].k = "cclose" /\ d[2].c = "returned"
P_L3_Silent(s) ==
             Dying(s) => s.out = <<>>            \* nothing is written because the connection ended
P_L3_WaitOnlyAtEnd(s) ==
                    \A d \in DoneOf(s, "wait") : s.dead /\ d[2].c = "err"

\* L4: the handler registry
P_L4_OnePerType(s) ==
                 \A d \in DoneOf(s, "hreg") :
                   LET t == s.calls[d[1]].v IN
                   d[2].c = (IF s.pre.dead THEN "closed" ELSE IF t \in s.pre.h THEN "nil" ELSE "chan")
P_L4_Routing(s) ==
              s.last.k = "popen" =>
                IF s.last.v \in s.pre.h THEN s.del = <<s.last.v>> /\ s.out = <<>> /\ s.obj[NObj(s)].inq /\ s.obj[NObj(s)].kind = s.last.v
                ELSE s.del = <<>> /\ s.out = <<Pkt("openfail", 100 + NObj(s), 3, "")>> /\ NObj(s) \notin Resident(s)
P_L4_OnlyOpens(s) ==
                s.del # <<>> => s.last.k = "popen"

\* L5: the peer's global requests
P_L5_Replies(s) ==
              /\ s.last.k = "pgreq" => s.out = (IF s.last.v = "wr" THEN <<Pkt("gfail", 0, 0, "")>> ELSE <<>>)
              /\ \A i \in 1 .. Len(s.out) : s.out[i].t \in {"gfail", "gsucc"} => s.last.k = "pgreq" /\ s.last.v = "wr" /\ s.out[i].t = "gfail"

P_L5_ChanReplies(s) ==
                    /\ s.last.k = "creq" =>
                         s.out = (IF s.last.v = "wr" /\ ~s.obj[s.last.o].sentClose THEN <<Pkt("chanfail", s.obj[s.last.o].rid, 0, "")>> ELSE <<>>)
                    /\ \A i \in 1 .. Len(s.out) : s.out[i].t \in {"chanfail", "chansucc"} => s.last.k = "creq" /\ s.out[i].t = "chanfail"

\* L6: the client's global requests
P_L6_Reply(s) ==
            \A d \in DoneOf(s, "greq") \cup DoneOf(s, "greq2") :
              /\ d[2].c \in {"true", "false"} =>
                   /\ s.calls[d[1]].v \in {"wr", "succ", "fail"} /\ s.last.k \in {"greply", "greq2"}
                   /\ d[1] = s.pre.gw /\ d[2].x = s.nrep
                   /\ d[2].c = (IF s.last.v = "succ" THEN "true" ELSE "false")
              /\ d[2].c = "ok" => s.calls[d[1]].v = "nowr" /\ s.last.k = "greq" /\ d[1] = Len(s.calls)
              /\ d[2].c \in {"true", "false", "ok", "err"}
P_L6_OneWaiter(s) ==
                s.gwait # 0 => s.calls[s.gwait].st = "wait" /\ s.calls[s.gwait].k \in {"greq", "greq2"} /\ ~s.dead

\* L7: Read
Iota(n) == [i \in 1 .. n |-> i]
P_L7_Order(s) ==
            \A o \in Objs(s) : s.obj[o].got \o s.obj[o].rbuf = Iota(s.obj[o].nrecv)
P_L7_EOF(s) ==
          \A d \in DoneOf(s, "read") :
            LET o == s.calls[d[1]].o IN
            /\ d[2].c \in {"data", "eof"}
            /\ d[2].c = "eof" => s.obj[o].peerEOF /\ s.obj[o].rbuf = <<>> /\ s.obj[o].got = Iota(s.obj[o].nrecv)
            /\ d[2].c = "data" => d[2].d # <<>>
P_L7_NoIdleReader(s) ==
                   \A o \in Objs(s) : s.obj[o].reader # 0 => s.obj[o].rbuf = <<>> /\ ~s.obj[o].peerEOF /\ ~s.dead

\* L8: CloseWrite / Close
P_L8_NothingAfterClose(s) ==
                        ~s.late
P_L8_OneClose(s) ==
               \A o \in Objs(s) : s.obj[o].ncl <= 1 /\ (s.obj[o].ncl = 1 => s.obj[o].sentClose)
P_L8_CloseWrite(s) ==
                 /\ \A d \in DoneOf(s, "closewrite") :
                      LET o == s.calls[d[1]].o IN
                      /\ d[2].c \in {"nil", "eof"}
                      /\ d[2].c = "nil" <=> s.out = <<Pkt("eof", s.obj[o].rid, 0, "")>>
                      /\ s.obj[o].sentEOF
                 /\ \A i \in 1 .. Len(s.out) : s.out[i].t = "eof" => s.last.k = "closewrite"
                 /\ \A d \in DoneOf(s, "write") : s.obj[s.calls[d[1]].o].sentEOF => d[2].c = "eof"


\* the same as state predicates (INVARIANTS of the small configurations and of the trace specification)
TypeOK == P_TypeOK(S)
L1_Once == P_L1_Once(S)
L1_Result == P_L1_Result(S)
L1_NotStuck == P_L1_NotStuck(S)
L2_NoLeak == P_L2_NoLeak(S)
L2_OrphanClose == P_L2_OrphanClose(S)
L3_AllReturn == P_L3_AllReturn(S)
L3_ErrorsOnly == P_L3_ErrorsOnly(S)
L3_Silent == P_L3_Silent(S)
L3_WaitOnlyAtEnd == P_L3_WaitOnlyAtEnd(S)
L4_OnePerType == P_L4_OnePerType(S)
L4_Routing == P_L4_Routing(S)
L4_OnlyOpens == P_L4_OnlyOpens(S)
L5_Replies == P_L5_Replies(S)
L5_ChanReplies == P_L5_ChanReplies(S)
L6_Reply == P_L6_Reply(S)
L6_OneWaiter == P_L6_OneWaiter(S)
L7_Order == P_L7_Order(S)
L7_EOF == P_L7_EOF(S)
L7_NoIdleReader == P_L7_NoIdleReader(S)
L8_NothingAfterClose == P_L8_NothingAfterClose(S)
L8_OneClose == P_L8_OneClose(S)
L8_CloseWrite == P_L8_CloseWrite(S)

\* ... and as one check of the state a step leads to, evaluated on EVERY transition (ACTION_CONSTRAINT of the large
\* configurations, whose VIEW hides the call history): the name of a failing property is in the error message
StepOK ==
  /\ Assert(P_TypeOK(S'), "property TypeOK does not hold after this step")
  /\ Assert(P_L1_Once(S'), "property L1_Once does not hold after this step")
  /\ Assert(P_L1_Result(S'), "property L1_Result does not hold after this step")
  /\ Assert(P_L1_NotStuck(S'), "property L1_NotStuck does not hold after this step")
  /\ Assert(P_L2_NoLeak(S'), "property L2_NoLeak does not hold after this step")
  /\ Assert(P_L2_OrphanClose(S'), "property L2_OrphanClose does not hold after this step")
  /\ Assert(P_L3_AllReturn(S'), "property L3_AllReturn does not hold after this step")
  /\ Assert(P_L3_ErrorsOnly(S'), "property L3_ErrorsOnly does not hold after this step")
  /\ Assert(P_L3_Silent(S'), "property L3_Silent does not hold after this step")
  /\ Assert(P_L3_WaitOnlyAtEnd(S'), "property L3_WaitOnlyAtEnd does not hold after this step")
  /\ Assert(P_L4_OnePerType(S'), "property L4_OnePerType does not hold after this step")
  /\ Assert(P_L4_Routing(S'), "property L4_Routing does not hold after this step")
  /\ Assert(P_L4_OnlyOpens(S'), "property L4_OnlyOpens does not hold after this step")
  /\ Assert(P_L5_Replies(S'), "property L5_Replies does not hold after this step")
  /\ Assert(P_L5_ChanReplies(S'), "property L5_ChanReplies does not hold after this step")
  /\ Assert(P_L6_Reply(S'), "property L6_Reply does not hold after this step")
  /\ Assert(P_L6_OneWaiter(S'), "property L6_OneWaiter does not hold after this step")
  /\ Assert(P_L7_Order(S'), "property L7_Order does not hold after this step")
  /\ Assert(P_L7_EOF(S'), "property L7_EOF does not hold after this step")
  /\ Assert(P_L7_NoIdleReader(S'), "property L7_NoIdleReader does not hold after this step")
  /\ Assert(P_L8_NothingAfterClose(S'), "property L8_NothingAfterClose does not hold after this step")
  /\ Assert(P_L8_OneClose(S'), "property L8_OneClose does not hold after this step")
  /\ Assert(P_L8_CloseWrite(S'), "property L8_CloseWrite does not hold after this step")
=============================================================================
