SPECIFICATION Spec
CONSTANTS
  Menus <- MenusEnc
INVARIANTS CodeIsConjunction LiteralExceptKnown NonCertIsFallback ReasonSound
CHECK_DEADLOCK FALSE
