SPECIFICATION Spec
CONSTANTS
  Menus <- MenusEnc
  FixTime = TRUE
INVARIANTS CodeIsConjunction LiteralExceptKnown TimeIsLiteral NonCertIsFallback ReasonSound
CHECK_DEADLOCK FALSE
