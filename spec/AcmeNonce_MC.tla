---------------------------- MODULE AcmeNonce_MC ----------------------------
(* Bounded exhaustive instances of AcmeNonce (operations sharing one client's nonce pool). *)
EXTENDS AcmeNonce
MCView == cvars            \* hide the last-event variable in exhaustive checking
=============================================================================
