SPECIFICATION Spec
CONSTANTS Scenarios <- ScHonestAll
          ServerStrictRule = "peer"
INVARIANTS Emit
CHECK_DEADLOCK FALSE
