SPECIFICATION Spec
CONSTANTS Scenarios <- ScHonest
INVARIANTS Emit
CHECK_DEADLOCK FALSE
