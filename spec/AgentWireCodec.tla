--------------------------- MODULE AgentWireCodec ---------------------------
(* X06 (growth) -- the ssh-agent wire format as executable definitions (binding E).

   Source of truth: draft-miller-ssh-agent (sections 3 "framing", 4.2 add, 4.3 remove, 4.4 list,
   4.5 sign, 4.6 lock, 4.7 extension, 5.1 message numbers, 5.2 constraint identifiers) and the
   documentation of golang.org/x/crypto/ssh/agent; it describes what client.go writes / accepts and
   what server.go (ServeAgent) accepts / writes.

      message  = uint32 length || byte type || contents            (length counts type + contents)

   Everything is a sequence of octets (0..255); RFC 4251 strings / mpints / uint32 come from
   PrimSSHEnc (property C24, reused unchanged).  Key material comes from AgentWireKeys (the
   deterministic key pool of the harness).  Requests and replies are built by the encoders below so
   that TLC computes the exact expected octets; the parsers give the server's (ParseReq) and the
   client's (ClientOutcome) reading of arbitrary octets. *)
EXTENDS Integers, Sequences, FiniteSets, PrimSSHEnc, AgentWireKeys

\* ---- message numbers -------------------------------------------------------------------------
MsgFailure == 5            MsgSuccess == 6
MsgRequestIdentities == 11 MsgIdentitiesAnswer == 12
MsgSignRequest == 13       MsgSignResponse == 14
MsgAddIdentity == 17       MsgRemoveIdentity == 18    MsgRemoveAll == 19
MsgAddSmartcard == 20      MsgRemoveSmartcard == 21
MsgLock == 22              MsgUnlock == 23
MsgAddIdConstrained == 25  MsgAddSmartcardConstrained == 26
MsgExtension == 27         MsgExtensionFailure == 28
MsgV1RequestIdentities == 1   MsgV1IdentitiesAnswer == 2   MsgV1RemoveAll == 9
ConstrainLifetime == 1     ConstrainConfirm == 2      ConstrainExtension == 255   ConstrainExtensionV00 == 3

\* ---- labels: the byte strings behind the comment / passphrase / data names used by the abstract agent
LabelBytes == [a |-> <<97>>, b |-> <<98, 98>>, p |-> <<112, 119>>, q |-> <<113>>, e |-> <<>>,
               d |-> <<100, 97, 116, 97, 32, 116, 111, 32, 115, 105, 103, 110>>, x |-> <<120, 64, 118>>]
Labels == DOMAIN LabelBytes
LabelOf(bs) == IF \E l \in Labels : LabelBytes[l] = bs THEN CHOOSE l \in Labels : LabelBytes[l] = bs ELSE "?"
B(l) == LabelBytes[l]
Blob(k) == KeyMat[k].blob
FmtRsa256 == <<114, 115, 97, 45, 115, 104, 97, 50, 45, 50, 53, 54>>
FmtRsa512 == <<114, 115, 97, 45, 115, 104, 97, 50, 45, 53, 49, 50>>

\* ---- framing ---------------------------------------------------------------------------------
Frame(body) == EncLen(Len(body)) \o body
\* the declared length of a frame header (4 octets); headers >= 2^31 are "huge" (TLC ints are 32 bit)
HdrHuge(h) == h[1] >= 128
HdrLen(h) == h[1] * 16777216 + h[2] * 65536 + h[3] * 256 + h[4]

RECURSIVE Concat(_)
Concat(ss) == IF ss = <<>> THEN <<>> ELSE ss[1] \o Concat(Tail(ss))

\* ---- requests (what the client writes) ---------------------------------------------------------
ReqList == <<MsgRequestIdentities>>
ReqRemoveAll == <<MsgRemoveAll>>
ReqRemove(blob) == <<MsgRemoveIdentity>> \o EncString(blob)
ReqLock(p) == <<MsgLock>> \o EncString(p)
ReqUnlock(p) == <<MsgUnlock>> \o EncString(p)
ReqSign(blob, data, flags) == <<MsgSignRequest>> \o EncString(blob) \o EncString(data) \o EncLen(flags)
ReqExtension(name, contents) == <<MsgExtension>> \o EncString(name) \o contents

ConLifetime(secs) == <<ConstrainLifetime>> \o EncLen(secs)
ConConfirm == <<ConstrainConfirm>>
ConExtension(name, details) == <<ConstrainExtension>> \o EncString(name) \o EncString(details)
\* the client's order: lifetime (when non-zero), confirm, extensions in the given order
Constraints(life, confirm, exts) ==
  (IF life # 0 THEN ConLifetime(life) ELSE <<>>) \o (IF confirm THEN ConConfirm ELSE <<>>)
  \o Concat([i \in 1..Len(exts) |-> ConExtension(exts[i][1], exts[i][2])])

\* field layout of the private part of add-identity per key kind (draft 4.2.1 - 4.2.4 and the
\* certificate variants of OpenSSH PROTOCOL.agent): <<encoding, field name in KeyMat[k].f>>
AddLayout(kind) ==
  CASE kind = "rsa" -> << <<"mpint", "n">>, <<"mpint", "e">>, <<"mpint", "d">>, <<"mpint", "iqmp">>, <<"mpint", "p">>, <<"mpint", "q">> >>
    [] kind = "dsa" -> << <<"mpint", "p">>, <<"mpint", "q">>, <<"mpint", "g">>, <<"mpint", "y">>, <<"mpint", "x">> >>
    [] kind = "ecdsa" -> << <<"string", "curve">>, <<"string", "q">>, <<"mpint", "d">> >>
    [] kind = "ed25519" -> << <<"string", "pub">>, <<"string", "priv">> >>
    [] kind = "rsa-cert" -> << <<"string", "cert">>, <<"mpint", "d">>, <<"mpint", "iqmp">>, <<"mpint", "p">>, <<"mpint", "q">> >>
    [] kind = "dsa-cert" -> << <<"string", "cert">>, <<"mpint", "x">> >>
    [] kind = "ecdsa-cert" -> << <<"string", "cert">>, <<"mpint", "d">> >>
    [] kind = "ed25519-cert" -> << <<"string", "cert">>, <<"string", "pub">>, <<"string", "priv">> >>
Kinds == {"rsa", "dsa", "ecdsa", "ed25519", "rsa-cert", "dsa-cert", "ecdsa-cert", "ed25519-cert"}

EncKeyField(enc, v) == IF enc = "mpint" THEN EncMpint(BigInt(FALSE, v)) ELSE EncString(v)
EncAddFields(k) == LET lay == AddLayout(KeyMat[k].kind) IN
                   Concat([i \in 1..Len(lay) |-> EncKeyField(lay[i][1], KeyMat[k].f[lay[i][2]])])
ReqAdd(k, comment, cons) ==
  <<IF cons = <<>> THEN MsgAddIdentity ELSE MsgAddIdConstrained>> \o EncString(KeyMat[k].type)
  \o EncAddFields(k) \o EncString(comment) \o cons

\* ---- replies (what the server writes) ----------------------------------------------------------
RepFailure == <<MsgFailure>>
RepSuccess == <<MsgSuccess>>
IdEntry(blob, comment) == EncString(blob) \o EncString(comment)
RepIdentities(entries) == <<MsgIdentitiesAnswer>> \o EncLen(Len(entries)) \o Concat(entries)
SigBlob(fmt, sig) == EncString(fmt) \o EncString(sig)
RepSign(sigblob) == <<MsgSignResponse>> \o EncString(sigblob)
RepV1Identities == <<MsgV1IdentitiesAnswer, 0, 0, 0, 0>>

\* ---- the server's reading of a request body (non-empty) ------------------------------------------
\* result: [op, ...]; op = "malformed" when the body does not parse as its type demands, "unknown" for
\* a type the dispatch table does not have.
PR(op) == [op |-> op, blob |-> <<>>, s |-> <<>>, data |-> <<>>, n |-> 0, kind |-> "", vals |-> <<>>, confirm |-> FALSE, exts |-> 0]
Malformed == PR("malformed")

\* a key blob must at least start with a string (its format name)
BlobOK(blob) == DecString(blob).ok

ConsNone == [ok |-> TRUE, life |-> 0, confirm |-> FALSE, exts |-> 0]
RECURSIVE ParseCons(_, _)
ParseCons(b, acc) ==
  IF b = <<>> THEN acc
  ELSE IF b[1] = ConstrainLifetime
       THEN (IF Len(b) < 5 \/ b[2] >= 128 THEN [acc EXCEPT !.ok = FALSE]
             ELSE ParseCons(Drop(b, 5), [acc EXCEPT !.life = HdrLen(SubSeq(b, 2, 5))]))
  ELSE IF b[1] = ConstrainConfirm THEN ParseCons(Drop(b, 1), [acc EXCEPT !.confirm = TRUE])
  ELSE IF b[1] \in {ConstrainExtension, ConstrainExtensionV00}
       THEN LET nm == DecString(Tail(b)) IN
            IF ~nm.ok THEN [acc EXCEPT !.ok = FALSE]
            ELSE LET dt == DecString(nm.rest) IN
                 IF ~dt.ok THEN [acc EXCEPT !.ok = FALSE]
                 ELSE ParseCons(dt.rest, [acc EXCEPT !.exts = @ + 1])
  ELSE [acc EXCEPT !.ok = FALSE]

KindOfType(ty) == IF \E k \in KeyNames : KeyMat[k].type = ty
                  THEN KeyMat[CHOOSE k \in KeyNames : KeyMat[k].type = ty].kind ELSE "none"

RECURSIVE ParseKeyFields(_, _, _, _)
ParseKeyFields(lay, i, b, acc) ==
  IF i > Len(lay) THEN [ok |-> TRUE, vals |-> acc, rest |-> b]
  ELSE LET r == IF lay[i][1] = "mpint" THEN DecMpint(b) ELSE DecString(b) IN
       IF ~r.ok THEN [ok |-> FALSE, vals |-> <<>>, rest |-> <<>>]
       ELSE ParseKeyFields(lay, i + 1, r.rest,
                           Append(acc, IF lay[i][1] = "mpint" THEN (IF r.v.neg THEN <<"negative">> ELSE r.v.mag) ELSE r.v))

ParseAdd(b) ==
  LET ty == DecString(Tail(b)) IN
  IF ~ty.ok THEN Malformed
  ELSE LET kind == KindOfType(ty.v) IN
       IF kind = "none" THEN Malformed                                     \* "not implemented" key type
       ELSE LET fs == ParseKeyFields(AddLayout(kind), 1, ty.rest, <<>>) IN
            IF ~fs.ok THEN Malformed
            ELSE LET cm == DecString(fs.rest) IN
                 IF ~cm.ok THEN Malformed
                 ELSE LET cs == ParseCons(cm.rest, ConsNone) IN
                      IF ~cs.ok THEN Malformed
                      ELSE [PR("add") EXCEPT !.kind = kind, !.vals = fs.vals, !.s = cm.v, !.n = cs.life,
                                             !.confirm = cs.confirm, !.exts = cs.exts]

\* the pool key whose kind and private fields are exactly these ("" if none: foreign material, whose
\* acceptance depends on the cryptographic validation of the key, outside this specification)
KeyOfVals(kind, vals) ==
  LET lay == AddLayout(kind)
      M == {k \in KeyNames : KeyMat[k].kind = kind /\ vals = [i \in 1..Len(lay) |-> KeyMat[k].f[lay[i][2]]]}
  IN IF M = {} THEN "" ELSE CHOOSE k \in M : TRUE
KeyOfBlob(blob) == IF \E k \in KeyNames : KeyMat[k].blob = blob
                   THEN CHOOSE k \in KeyNames : KeyMat[k].blob = blob ELSE ""

ParseReq(b) ==
  LET t == b[1] IN
  CASE t = MsgRequestIdentities -> PR("list")                   \* contents, if any, are not looked at
    [] t = MsgRemoveAll -> PR("removeall")
    [] t = MsgV1RequestIdentities -> PR("v1list")
    [] t = MsgV1RemoveAll -> PR("v1removeall")
    [] t = MsgRemoveIdentity ->
         LET r == DecString(Tail(b)) IN
         IF r.ok /\ r.rest = <<>> /\ BlobOK(r.v) THEN [PR("remove") EXCEPT !.blob = r.v] ELSE Malformed
    [] t \in {MsgLock, MsgUnlock} ->
         LET r == DecString(Tail(b)) IN
         IF r.ok /\ r.rest = <<>> THEN [PR(IF t = MsgLock THEN "lock" ELSE "unlock") EXCEPT !.s = r.v] ELSE Malformed
    [] t = MsgSignRequest ->
         LET kb == DecString(Tail(b)) IN
         IF ~kb.ok THEN Malformed
         ELSE LET d == DecString(kb.rest) IN
              IF ~d.ok THEN Malformed
              ELSE LET f == DecU32(d.rest) IN
                   IF f.ok /\ f.rest = <<>> /\ BlobOK(kb.v) /\ f.v[1] < 32768
                   THEN [PR("sign") EXCEPT !.blob = kb.v, !.data = d.v, !.n = f.v[1] * 65536 + f.v[2]]
                   ELSE IF f.ok /\ f.rest = <<>> /\ BlobOK(kb.v)
                        THEN [PR("sign") EXCEPT !.blob = kb.v, !.data = d.v, !.n = -1]   \* flags >= 2^31: unsupported
                        ELSE Malformed
    [] t \in {MsgAddIdentity, MsgAddIdConstrained} -> ParseAdd(b)
    [] t = MsgExtension ->
         LET r == DecString(Tail(b)) IN
         IF r.ok THEN [PR("ext") EXCEPT !.s = r.v, !.data = r.rest] ELSE Malformed
    [] OTHER -> PR("unknown")

\* ---- the client's reading of a reply body ---------------------------------------------------------
\* (client.go unmarshal + the per-call handling).  call in {"simple","list","sign","ext"}.
\* outcome: [t, keys, fmt, sig]  with t in {"ok","err","unsupported"}
Out(t) == [t |-> t, keys |-> <<>>, fmt |-> <<>>, sig |-> <<>>, raw |-> <<>>]
MaxKeysInAnswer == 2097152                       \* 16 MiB / 8: "too many keys in agent reply"

RECURSIVE ParseIds(_, _, _)
ParseIds(n, b, acc) ==
  IF n = 0 THEN [Out("ok") EXCEPT !.keys = acc]            \* octets after the n-th key are not looked at
  ELSE LET bl == DecString(b) IN
       IF ~bl.ok THEN Out("err")
       ELSE LET cm == DecString(bl.rest) IN
            IF ~cm.ok THEN Out("err")
            ELSE LET fm == DecString(bl.v) IN
                 IF ~fm.ok THEN Out("err")
                 ELSE ParseIds(n - 1, cm.rest, Append(acc, [fmt |-> fm.v, blob |-> bl.v, comment |-> cm.v]))

\* which message the client recognises: "failure" "success" "ids" "sig" "v1" or "bad" (not unmarshalable)
ClientMsg(b) ==
  IF b = <<>> THEN "bad"
  ELSE CASE b[1] = MsgFailure -> "failure"
         [] b[1] = MsgSuccess -> "success"
         [] b[1] = MsgIdentitiesAnswer -> IF Len(b) >= 5 THEN "ids" ELSE "bad"
         [] b[1] = MsgSignResponse -> LET r == DecString(Tail(b)) IN IF r.ok /\ r.rest = <<>> THEN "sig" ELSE "bad"
         [] b[1] = MsgV1IdentitiesAnswer -> IF Len(b) = 5 THEN "v1" ELSE "bad"
         [] OTHER -> "bad"

ClientOutcome(call, b) ==
  IF call = "ext"
  THEN (IF b = <<>> THEN Out("err")
        ELSE IF b[1] = MsgFailure THEN Out("unsupported")
        ELSE IF b[1] = MsgExtensionFailure THEN Out("err")
        ELSE [Out("ok") EXCEPT !.raw = b])
  ELSE LET m == ClientMsg(b) IN
       CASE call = "simple" -> IF m = "success" THEN Out("ok") ELSE Out("err")
         [] call = "list" ->
              IF m # "ids" THEN Out("err")
              ELSE LET h == SubSeq(b, 2, 5) IN
                   IF HdrHuge(h) \/ HdrLen(h) > MaxKeysInAnswer THEN Out("err")
                   ELSE ParseIds(HdrLen(h), Drop(b, 5), <<>>)
         [] call = "sign" ->
              IF m # "sig" THEN Out("err")
              ELSE LET sb == DecString(Tail(b)).v
                       f == DecString(sb) IN
                   IF ~f.ok THEN Out("err")
                   ELSE LET s == DecString(f.rest) IN
                        IF ~s.ok THEN Out("err")
                        ELSE [Out("ok") EXCEPT !.fmt = f.v, !.sig = s.v]     \* trailing octets: ssh.Signature.Rest

\* ---- self checks (evaluated by TLC at start-up) ------------------------------------------------------
ASSUME Frame(ReqList) = <<0, 0, 0, 1, 11>>
ASSUME Frame(RepFailure) = <<0, 0, 0, 1, 5>> /\ Frame(RepSuccess) = <<0, 0, 0, 1, 6>>
ASSUME ReqLock(<<112, 119>>) = <<22, 0, 0, 0, 2, 112, 119>>
ASSUME ReqSign(<<0, 0, 0, 1, 120>>, <<1, 2>>, 4) = <<13, 0, 0, 0, 5, 0, 0, 0, 1, 120, 0, 0, 0, 2, 1, 2, 0, 0, 0, 4>>
ASSUME ConLifetime(258) = <<1, 0, 0, 1, 2>>
ASSUME RepIdentities(<<>>) = <<12, 0, 0, 0, 0>>
ASSUME ParseReq(ReqLock(<<112, 119>>)).op = "lock" /\ ParseReq(ReqLock(<<112, 119>>) \o <<0>>).op = "malformed"
ASSUME ParseReq(<<99>>).op = "unknown" /\ ParseReq(<<13, 0>>).op = "malformed"
ASSUME \A k \in KeyNames : LET p == ParseReq(ReqAdd(k, <<99>>, ConLifetime(7))) IN
                           p.op = "add" /\ KeyOfVals(p.kind, p.vals) = k /\ p.n = 7 /\ p.s = <<99>>
=============================================================================
