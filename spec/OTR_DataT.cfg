SPECIFICATION Spec
CONSTANTS
  Starts <- AnyStart
  MaxData = 2
  FragChoices <- F123
  MaxFaults = 0
  FaultKinds <- NoFaults
  MaxAuth = 0
  Secrets <- S1
  Questions <- Q0
  AllowEnd = TRUE
  MaxRequery = 0
  FixCommitState = TRUE
  SeqSMP = FALSE
  FixSMPReset = TRUE
INVARIANTS TypeOK QuietMeansEncrypted InOrderNoDup AllDelivered SlotsSuffice SlotBound NoSplice
CHECK_DEADLOCK FALSE
