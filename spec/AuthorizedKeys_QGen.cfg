SPECIFICATION Spec
CONSTANTS
  Menus <- MenusGenQ
INVARIANTS AKMatchesGrammar AKTypeMatches KHok KHaccepts Emit
CHECK_DEADLOCK FALSE
