SPECIFICATION MCSpec
CONSTANTS
  MinFirst = 512
  MaxPow = 30
  Families = {"writer"}
  Big = TRUE
  SweepSet <- SweepQ
  WSizes <- WMenu
  WNames = {0, 1, 7, 255}
  WMaxLen = 3
INVARIANTS WriterOK Emit
CHECK_DEADLOCK FALSE
