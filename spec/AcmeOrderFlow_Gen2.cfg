\* generator: all histories, two authorizations per order
SPECIFICATION GenSpec
CONSTANTS
  HTTP01 = {TRUE, FALSE}
  NAuthz = 2
  OfferSets <- TwoOffers
  MaxOrders = 3
  Faults <- AllFaults
INVARIANTS Emit F1_Bounded F2_ProvisionedBeforeAccept F3_NoTokenLeft F4_NoPendingLeft F5_FinalizeOnlyReady F6_OnlyPendingAccepted
CHECK_DEADLOCK FALSE
