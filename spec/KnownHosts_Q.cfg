SPECIFICATION Spec
CONSTANTS
  CaseSet <- CasesQ
  QueriesOf <- QOf
  StarFix = TRUE
  SubjectFix = TRUE
  CAListsPlain = TRUE
  RevokedSubject = TRUE
INVARIANTS TypeOK Agree AcceptSound RevokedDominates WantExact OrderIndependent WildAgree WildSelf RoundTrip Emit
CHECK_DEADLOCK FALSE
