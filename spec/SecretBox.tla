------------------------------- MODULE SecretBox -------------------------------
(***************************************************************************)
(* C10 - NaCl crypto_secretbox_xsalsa20poly1305 in libsodium's "easy"      *)
(* format (tag || ciphertext) and crypto_box_curve25519xsalsa20poly1305 on *)
(* top of it, composed from the executable definitions PrimSalsa           *)
(* (XSalsa20, HSalsa20) and PrimPoly (Poly1305) and evaluated by TLC.      *)
(* Reference for /repo/nacl/secretbox (Seal, Open) and /repo/nacl/box      *)
(* (Precompute, Seal, SealAfterPrecomputation, Open, ...,                  *)
(* SealAnonymous/OpenAnonymous), following "Cryptography in NaCl"          *)
(* sections 7-10:                                                          *)
(*                                                                         *)
(*   first block = XSalsa20 block 0 under (key, 24-byte nonce)             *)
(*   poly key    = first block [0..31]                                     *)
(*   ciphertext  = message bytes 0..31 xor first block [32..63], the rest  *)
(*                 xor the XSalsa20 stream from block counter 1 on         *)
(*   Seal        = Poly1305(poly key, ciphertext) || ciphertext            *)
(*   Open        recomputes the tag over box[16..] and releases the        *)
(*               plaintext only if it equals box[0..15]                    *)
(*   box key     = HSalsa20(X25519(sk, pk), 0^16)        (Precompute)      *)
(*   Box.Seal    = SecretBox.Seal(box key, nonce, message)                 *)
(*   sealed box  = epk || Box.Seal(nonce = BLAKE2b-192(epk || pk),         *)
(*                                 pk, esk)              (libsodium ext.)  *)
(*   sign        = Ed25519 signature (64 bytes) || message                 *)
(*   auth        = HMAC-SHA-512(key, message) [0..31]                      *)
(*                                                                         *)
(* Trusted primitives.  X25519, BLAKE2b, Ed25519 and HMAC-SHA-512 are not  *)
(* defined here: they are parameters.  Wherever a definition below needs   *)
(* one, it takes the primitive's *output* as an argument (`shared`,        *)
(* `nonce`, `sig`, `mac64`); the conformance harness interprets them with  *)
(* the Go standard library (crypto/ecdh, crypto/ed25519, crypto/hmac +     *)
(* crypto/sha512), Python's hashlib.blake2b and libsodium.  For a          *)
(* low-order peer key X25519 yields 0^32 (RFC 7748 section 6.1 leaves the  *)
(* check to the caller; curve25519.ScalarMult, which box uses, does not    *)
(* reject): the box key is then HSalsa20(0^32, 0^16) - LowOrderBoxKey.     *)
(***************************************************************************)
EXTENDS PrimSalsa, PrimPoly

Min2(a, b) == IF a < b THEN a ELSE b

\* XSalsa20 block 0 for (key, 24-byte nonce)
FirstBlock(key, nonce) == SalsaBlock(SEffKey(key, nonce), SEffBlock(nonce))
SBPolyKey(key, nonce) == SubSeq(FirstBlock(key, nonce), 1, 32)

\* the split of secretbox.go: up to 32 bytes with the second half of block 0, the rest from block counter 1
SBCrypt(key, nonce, data) ==
  LET d    == Force(data)
      k    == SEffKey(key, nonce)
      cb   == SEffBlock(nonce)
      fb   == SalsaBlock(k, cb)
      n1   == Min2(Len(d), 32)
      head == XorBytes(SubSeq(d, 1, n1), SubSeq(fb, 33, 32 + n1))
      rest == SubSeq(d, n1 + 1, Len(d))
      tail == IF Len(rest) = 0 THEN <<>> ELSE XorBytes(rest, SKS(k, CtrAdd(cb, 1), Len(rest)))
  IN head \o tail

\* the same thing said as NaCl says it: the XSalsa20 stream, skipping its first 32 bytes
SBCryptStream(key, nonce, data) ==
  LET d == Force(data) IN
  IF Len(d) = 0 THEN <<>>
  ELSE XorBytes(d, SubSeq(SKS(SEffKey(key, nonce), SEffBlock(nonce), 32 + Len(d)), 33, 32 + Len(d)))

\* secretbox.Seal(nil, msg, nonce, key) = crypto_secretbox_easy: tag || ciphertext
Seal(key, nonce, msg) ==
  LET ct == SBCrypt(key, nonce, msg) IN Poly1305(SBPolyKey(key, nonce), ct) \o ct

Rejected == [ok |-> FALSE, pt |-> <<>>]
\* secretbox.Open(nil, box, nonce, key) = crypto_secretbox_open_easy
Open(key, nonce, box) ==
  IF Len(box) < 16 THEN Rejected
  ELSE LET tag == SubSeq(box, 1, 16)
           ct  == SubSeq(box, 17, Len(box))
       IN IF Poly1305(SBPolyKey(key, nonce), ct) = tag THEN [ok |-> TRUE, pt |-> SBCrypt(key, nonce, ct)]
          ELSE Rejected

(***************************************************************************)
(* box: `shared` stands for X25519(sk, pk) (trusted primitive, see above)  *)
(***************************************************************************)
BoxKeyOfShared(shared) == HSalsa20(shared, Zeros(16))         \* box.Precompute
LowOrderBoxKey == BoxKeyOfShared(Zeros(32))
\* box.Precompute(sharedKey, pk, sk) writes its result into a 32-byte array that the CALLER owns and may have used before
\* (a previous Precompute, a sentinel, anything).  `buf` is that array's content on entry.  The code does two steps in it:
\* curve25519.ScalarMult sets all 32 bytes to X25519(sk, pk) - to 0^32 when the peer key is a low-order point - and
\* HSalsa20 then runs in place (out aliases the key).  Nothing of `buf` survives the first step, so
\*      Precompute's result is a function of (sk, pk) only                      (PrecomputeBufferIndependent)
\* - also for low-order peer keys, where "nothing was computed" must still mean "0^32 was written".
ScalarMultInto(buf, shared) == [i \in 1..32 |-> shared[i]]          \* every byte of the caller's array is overwritten
PrecomputeInto(buf, shared) == HSalsa20(ScalarMultInto(buf, shared), Zeros(16))
PrecomputeBufferIndependent(bufs, shared) == \A b \in bufs : PrecomputeInto(b, shared) = BoxKeyOfShared(shared)
\* The same holds for every other output the caller owns: Seal/Open/Sign append to out[:len(out)] and whatever the spare
\* capacity of `out` held before is overwritten or left outside the returned slice; the returned bytes are
\* out || f(inputs) with f independent of the previous contents (Seal, Open above take no such argument at all).
BoxSeal(shared, nonce, msg) == Seal(BoxKeyOfShared(shared), nonce, msg)
BoxOpen(shared, nonce, box) == Open(BoxKeyOfShared(shared), nonce, box)
\* Precompute is symmetric between the parties exactly because X25519 is: X25519(a, X25519(b, 9)) = X25519(b, X25519(a, 9));
\* both sides then apply the same function to the same 32 bytes.

\* sealed box: `epk` the ephemeral public key, `shared` = X25519(esk, pk), `nonce` = BLAKE2b-192(epk || pk)
AnonSeal(epk, shared, nonce, msg) == epk \o BoxSeal(shared, nonce, msg)
AnonOpen(shared, nonce, sealed) == IF Len(sealed) < 48 THEN Rejected ELSE BoxOpen(shared, nonce, SubSeq(sealed, 33, Len(sealed)))

\* sign: `sig` = Ed25519.Sign(sk, msg) (64 bytes); auth: `mac64` = HMAC-SHA-512(key, msg)
SignedMessage(sig, msg) == sig \o msg
SignOpen(sm, verifies) == IF Len(sm) < 64 \/ ~verifies THEN Rejected ELSE [ok |-> TRUE, pt |-> SubSeq(sm, 65, Len(sm))]
AuthSum(mac64) == SubSeq(mac64, 1, 32)

(***************************************************************************)
(* "Cryptography in NaCl" section 10 (the example of tests/secretbox.c):   *)
(* firstkey, nonce, the 131-byte message be 07 5f c5 ... and the boxed     *)
(* result f3 ff c7 70 3f 94 00 e5 2a 7d fb 4b 3d 33 05 d9 || 8e 99 3b 9f.. *)
(* (reproduced with libsodium 1.0.18 crypto_secretbox_easy)                *)
(***************************************************************************)
NaClMsg ==
  <<
     190,7,95,197,60,129,242,213,207,20,19,22,235,235,12,123,82,40,197,42,76,98,203,212,75,102,132,155,100,36,79,252,
     229,236,186,175,51,189,117,26,26,199,40,212,94,108,97,41,108,220,60,1,35,53,97,244,29,182,108,206,49,74,219,49,
     14,59,232,37,12,70,240,109,206,234,58,127,161,52,128,87,226,246,85,106,214,177,49,138,2,74,131,143,33,175,31,222,
     4,137,119,235,72,245,159,253,73,36,202,28,96,144,46,82,240,160,137,188,118,137,112,64,224,130,249,55,118,56,72,100,
     94,7,5 >>
NaClBox ==
  <<
     243,255,199,112,63,148,0,229,42,125,251,75,61,51,5,217,142,153,59,159,72,104,18,115,194,150,80,186,50,252,118,206,
     72,51,46,167,22,77,150,164,71,111,184,197,49,161,24,106,192,223,193,124,152,220,232,123,77,167,240,17,236,72,201,114,
     113,210,194,15,155,146,143,226,39,13,111,184,99,213,23,56,180,142,238,227,20,167,204,138,185,50,22,69,72,229,38,174,
     144,34,67,104,81,122,207,234,189,107,179,115,43,192,233,218,153,131,43,97,202,1,182,222,86,36,74,158,136,213,249,179,
     121,115,246,34,164,61,20,166,89,155,31,101,76,180,90,116,227,85,165 >>
ASSUME Len(NaClMsg) = 131 /\ Len(NaClBox) = 147
ASSUME LET b == Seal(NaClFirstKey, NaClNonce, NaClMsg) IN
         /\ b = NaClBox
         /\ Open(NaClFirstKey, NaClNonce, b) = [ok |-> TRUE, pt |-> NaClMsg]
         /\ BoxSeal(NaClShared, NaClNonce, NaClMsg) = b          \* crypto_box of section 8 = crypto_secretbox under firstkey
         /\ SBCryptStream(NaClFirstKey, NaClNonce, NaClMsg) = SubSeq(b, 17, 147)
\* /repo/nacl/secretbox/secretbox_test.go TestSecretBox ("generated using the C implementation of NaCl"; reproduced with libsodium 1.0.18):
\* key = 01^32, nonce = 02^24, message = 03^64
GoTestBox ==
  <<
     132,66,188,49,63,70,38,241,53,158,59,80,18,43,108,230,254,102,221,254,125,57,209,78,99,126,180,253,91,69,190,173,
     171,85,25,141,246,171,83,104,67,151,146,162,60,135,219,112,172,182,21,109,197,239,149,122,192,79,98,118,207,96,147,184,
     75,231,127,240,132,156,195,62,52,183,37,77,90,143,101,173 >>
ASSUME Seal([i \in 1..32 |-> 1], [i \in 1..24 |-> 2], [i \in 1..64 |-> 3]) = GoTestBox
=============================================================================
