SPECIFICATION TraceSpec
CONSTANTS
  OpSet <- AllOps
  Bundles = {TRUE, FALSE}
  MaxCalls = 100000000
  MaxReq = 100000000
  MaxEnv = 100000000
  Shapes <- AllShapes
  RetrySet = {0, 2, 3, 5}
  Budget = 1
  Malformed = TRUE
  CertKinds <- AllCerts
  AltSet = {0, 1, 2}
  InitStates <- InitOne
  CallOK <- AnyCall
  EnvOK <- AnyEnv
  FixNegRA = TRUE
  Mut = "none"
INVARIANTS P1_NoFalseSuccess P2_TypedFailures P3_FinalizeOnce P4_PollSpacing P5_StopOnCancel P6_CertAfterValid P7_LastObserved P8_ChainLimits P9_PollExactlyWhileNotFinal
CONSTRAINT HWM
POSTCONDITION TraceAccepted
CHECK_DEADLOCK FALSE
