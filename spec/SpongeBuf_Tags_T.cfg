INIT Init
NEXT Next
CONSTANTS
  Fns <- FnsAll
  Seeds = {7, 29}
  NW = 2
  Extra = {3, 8, 31, 32, 33, 64, 100, 200, 300, 500, 1000}
  OutBlocks = 2
  NSCases = TRUE
  LongFns <- LongT
INVARIANTS Emit
CHECK_DEADLOCK FALSE
