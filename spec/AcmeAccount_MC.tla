---------------------------- MODULE AcmeAccount_MC ----------------------------
(* Bounded instances of AcmeAccount for TLC (X09): initial configurations, operation and injection
   menus, and the behaviour generator for binding R (one witness history per distinct model state
   and last event, emitted at every state in which a call has just returned). *)
EXTENDS AcmeAccount

None2 == [a \in Accts |-> "none"]
Cfg(sk, ss, k, d) == [sk |-> sk, ss |-> ss, kid |-> k, dir |-> d]
\* no account at all
IEmpty == Cfg(None2, None2, NoKid, FALSE)
\* the client's key k1 is registered as a1; the client does not know the URL yet / knows it (Client.KID preset)
IReg   == Cfg([None2 EXCEPT !["a1"] = "k1"], [None2 EXCEPT !["a1"] = "valid"], NoKid, FALSE)
IKnown == Cfg([None2 EXCEPT !["a1"] = "k1"], [None2 EXCEPT !["a1"] = "valid"], "a1", TRUE)
\* both keys are registered (rollover to k2 must answer 409)
IBoth  == Cfg([a \in Accts |-> IF a = "a1" THEN "k1" ELSE "k2"], [a \in Accts |-> "valid"], NoKid, TRUE)
\* the account of k1 was deactivated earlier
IDeact == Cfg([None2 EXCEPT !["a1"] = "k1"], [None2 EXCEPT !["a1"] = "deactivated"], NoKid, TRUE)

InitAll   == {IEmpty, IReg, IKnown, IBoth, IDeact}
InitSmall == {IEmpty, IReg, IBoth}
InitOne   == {IEmpty}

OpsAll   == AllOps
OpsConc  == {"register", "getreg", "update", "rollover", "revokeAcct", "generic", "deactivate"}
OpsCore  == {"register", "update", "rollover", "generic"}
InjAll   == {"e500", "neterr", "malformed", "unauth", "lost", "dirfail"}
InjSmall == {"e500", "lost"}
InjNone  == {}
One == {1}
Two == {1, 2}
Three == {1, 2, 3}

AllIdle == \A c \in Callers : pc[c] = "idle"
=============================================================================
