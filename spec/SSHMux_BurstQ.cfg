SPECIFICATION Spec
CONSTANTS
  MaxPeer = 2
  MaxLocal = 2
  MaxObj = 3
  Configs <- BurstConfigs
  Lite = TRUE
  Hold = FALSE
  Burst = TRUE
  DecidedInLoop = TRUE
  DrainAll = TRUE
  RejectChecksSlot = TRUE
INVARIANTS TypeOK M1 M1d M_dup M1b M1c M3 M4 M4b
VIEW View
CHECK_DEADLOCK FALSE
