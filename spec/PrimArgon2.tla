----------------------------- MODULE PrimArgon2 -----------------------------
(***************************************************************************)
(* Layer P (binding E): Argon2 version 0x13 exactly as RFC 9106 defines it *)
(* (section 3.2 operation, 3.3 variable-length hash H', 3.4 indexing, 3.5  *)
(* compression function G, 3.6 permutation P with the BlaMka mixing GB),   *)
(* as executable TLA+ definitions evaluated by TLC.  This is the byte      *)
(* oracle against which /repo/argon2 (Key = Argon2i, IDKey = Argon2id;     *)
(* initHash, blake2bHash, initBlocks, processBlocks, indexAlpha/phi,       *)
(* extractKey; processBlockGeneric and the SSE2/SSE4 assembly) is compared *)
(* (C15).  It is the textbook algorithm: the whole memory as one sequence  *)
(* of blocks filled pass by pass, slice by slice, lane by lane; address    *)
(* blocks computed per segment; no goroutines, no in-place XOR tricks.     *)
(*                                                                         *)
(* 64-bit words are four 16-bit limbs <<l3, l2, l1, l0>> (most significant *)
(* first) as in PrimBlake2, because TLC integers are 32-bit; a 16x16-bit   *)
(* product (up to 2^32) does not fit either, so Mul16 multiplies by the    *)
(* two bytes of one factor.  A block is a sequence of 128 words; the       *)
(* memory is a sequence of m' blocks, block [lane][col] at index           *)
(* lane * q + col + 1.  Parameters are naturals < 2^31.                    *)
(*                                                                         *)
(* The reference-area arithmetic lives in Argon2Area (checked by           *)
(* Argon2Index.tla).  The one rule that is not RFC 9106 but the property's *)
(* (and the Go package's) is MemBlocks for m < 8p.  The published vectors  *)
(* (RFC 9106 section 5) are ASSUMEd in Argon2_RFC.tla, because each costs  *)
(* minutes of TLC time; the ASSUMEs here are arithmetic identities.        *)
(***************************************************************************)
EXTENDS PrimBlake2, Argon2Area

Version == 19         \* 0x13
TypeD == 0
TypeI == 1
TypeID == 2

(***************************************************************************)
(* Multiplication on limbs                                                 *)
(***************************************************************************)
\* x * y for x, y < 2^16 as <<high 16 bits, low 16 bits>>; every intermediate value is < 2^25
Mul16(x, y) ==
  LET p1 == x * (y \div 256)
      t  == x * (y % 256) + (p1 % 256) * 256
  IN <<(p1 \div 256) + (t \div 65536), t % 65536>>

\* a * b for 32-bit words <<hi, lo>> as a 64-bit word
Mul32(a, b) ==
  LET p22 == Mul16(a[2], b[2])
      p12 == Mul16(a[1], b[2])
      p21 == Mul16(a[2], b[1])
      p11 == Mul16(a[1], b[1])
      s3 == p22[1] + p12[2] + p21[2]
      s2 == p12[1] + p21[1] + p11[2] + (s3 \div 65536)
      s1 == p11[1] + (s2 \div 65536)
  IN <<s1, s2 % 65536, s3 % 65536, p22[2]>>

Lo32(w) == <<w[3], w[4]>>
Hi32(w) == <<w[1], w[2]>>
\* a 32-bit word modulo a natural 0 < n < 2^15
Mod32(w, n) == ((w[1] % n) * (65536 % n) + w[2]) % n

(***************************************************************************)
(* RFC 9106 section 3.6: GB with the multiplication-hardened addition      *)
(*     a + b + 2 * trunc(a) * trunc(b)   mod 2^64,                         *)
(* written out limb by limb (what TLC evaluates; an ASSUME below checks it *)
(* against the definition by Mul32 and Add64).                             *)
(***************************************************************************)
FBlaMkaDef(x, y) == LET pr == Mul32(Lo32(x), Lo32(y)) IN Add64(Add64(x, y), Add64(pr, pr))

FBlaMka(x, y) ==
  LET p44 == Mul16(x[4], y[4])
      p34 == Mul16(x[3], y[4])
      p43 == Mul16(x[4], y[3])
      p33 == Mul16(x[3], y[3])
      s4 == x[4] + y[4] + 2 * p44[2]
      s3 == x[3] + y[3] + 2 * (p44[1] + p34[2] + p43[2]) + (s4 \div 65536)
      s2 == x[2] + y[2] + 2 * (p34[1] + p43[1] + p33[2]) + (s3 \div 65536)
      s1 == x[1] + y[1] + 2 * p33[1] + (s2 \div 65536)
  IN <<s1 % 65536, s2 % 65536, s3 % 65536, s4 % 65536>>

\* v: sequence of 16 words (1-based); rotations 32, 24, 16, 63 as in BLAKE2b
GBm(v, a, b, c, d) ==
  LET a1 == FBlaMka(v[a], v[b])
      d1 == R32b(Xor64(v[d], a1))
      c1 == FBlaMka(v[c], d1)
      b1 == R24b(Xor64(v[b], c1))
      a2 == FBlaMka(a1, b1)
      d2 == R16b(Xor64(d1, a2))
      c2 == FBlaMka(c1, d2)
      b2 == R63b(Xor64(b1, c2))
  IN [v EXCEPT ![a] = a2, ![b] = b2, ![c] = c2, ![d] = d2]

\* permutation P on eight 16-byte registers = 16 words v_0..v_15 (here v[1..16]) seen as a 4x4 matrix:
\* GB on the four columns, then on the four diagonals
PermP(v) ==
  LET v1 == GBm(v,  1, 5,  9, 13)
      v2 == GBm(v1, 2, 6, 10, 14)
      v3 == GBm(v2, 3, 7, 11, 15)
      v4 == GBm(v3, 4, 8, 12, 16)
      v5 == GBm(v4, 1, 6, 11, 16)
      v6 == GBm(v5, 2, 7, 12, 13)
      v7 == GBm(v6, 3, 8,  9, 14)
      v8 == GBm(v7, 4, 5, 10, 15)
  IN v8

(***************************************************************************)
(* RFC 9106 section 3.5: G(X, Y).  R = X xor Y as an 8x8 matrix of 16-byte *)
(* registers (row i = words 16i .. 16i+15); P on every row gives Q, P on   *)
(* every column of Q gives Z; result Z xor R.  Column i of the register    *)
(* matrix is words 2i, 2i+1 of every row.                                  *)
(***************************************************************************)
ZeroBlock == Force([w \in 1..128 |-> Zero64])
XorBlock(X, Y) == Force([w \in 1..128 |-> Xor64(X[w], Y[w])])

G(X, Y) ==
  LET R == XorBlock(X, Y)
      Q == Force([i \in 1..8 |-> PermP(SubSeq(R, 16 * (i - 1) + 1, 16 * i))])
      Z == Force([i \in 1..8 |->
                   PermP(Force([k \in 1..16 |-> Q[((k - 1) \div 2) + 1][2 * (i - 1) + ((k - 1) % 2) + 1]]))])
  IN Force([w \in 1..128 |->
              LET row == (w - 1) \div 16
                  reg == ((w - 1) % 16) \div 2
                  half == (w - 1) % 2
              IN Xor64(Z[reg + 1][2 * row + half + 1], R[w])])

\* 1024 bytes <-> block (little-endian words)
BlockOfBytes(b) == Force([w \in 1..128 |-> LE64w(b, 8 * (w - 1) + 1)])
BytesOfBlock(B) == FlattenSeq([w \in 1..128 |-> Bytes64(B[w])])

(***************************************************************************)
(* RFC 9106 section 3.3: variable-length hash H'^T(A)                      *)
(***************************************************************************)
L4(n) == SubSeq(LE64(n), 1, 4)        \* LE32 of a natural < 2^31
Iota(a, b) == Force([i \in 1..(b - a + 1) |-> a + i - 1])     \* the sequence a, a+1, .., b (empty if b < a)

HPrime(T, A) ==
  IF T <= 64 THEN Blake2b(T, <<>>, L4(T) \o A)
  ELSE LET r == ((T + 31) \div 32) - 2
           V1 == Blake2b(64, <<>>, L4(T) \o A)
           \* acc = <<V_i, W_1 || .. || W_i>>
           ch == FoldLeft(LAMBDA acc, i : LET v == Blake2b(64, <<>>, acc[1]) IN <<v, acc[2] \o SubSeq(v, 1, 32)>>,
                          <<V1, SubSeq(V1, 1, 32)>>, Iota(2, r))
       IN ch[2] \o Blake2b(T - 32 * r, <<>>, ch[1])

(***************************************************************************)
(* RFC 9106 section 3.2 step 1: H_0                                        *)
(***************************************************************************)
H0(y, P, S, K, X, t, m, p, T) ==
  Blake2b(64, <<>>, L4(p) \o L4(T) \o L4(m) \o L4(t) \o L4(Version) \o L4(y)
                     \o L4(Len(P)) \o P \o L4(Len(S)) \o S \o L4(Len(K)) \o K \o L4(Len(X)) \o X)

(***************************************************************************)
(* Memory size.  RFC 9106 (m >= 8p): m' = 4p * floor(m / 4p).  The         *)
(* property (and the package) extend this to m < 8p: 8p blocks are used,   *)
(* while H_0 still hashes the requested m.                                 *)
(***************************************************************************)
MemBlocks(m, p) == IF m < 8 * p THEN 8 * p ELSE 4 * p * (m \div (4 * p))

(***************************************************************************)
(* RFC 9106 section 3.4: indexing                                          *)
(***************************************************************************)
\* data-independent addressing: Argon2i always, Argon2id in the first two slices of the first pass
DataIndep(y, r, sl) == y = TypeI \/ (y = TypeID /\ r = 0 /\ sl < 2)

\* 3.4.1.2: address block number i (1, 2, ..) of segment (pass r, lane l, slice sl):
\* G(ZERO, G(ZERO, Z)), Z = LE64(r) LE64(l) LE64(sl) LE64(m') LE64(t) LE64(y) LE64(i) ZERO(968)
AddrInput(prm, r, l, sl, i) ==
  Force([w \in 1..128 |-> CASE w = 1 -> Nat64(r) [] w = 2 -> Nat64(l) [] w = 3 -> Nat64(sl) [] w = 4 -> Nat64(prm.mp)
                            [] w = 5 -> Nat64(prm.t) [] w = 6 -> Nat64(prm.y) [] w = 7 -> Nat64(i) [] OTHER -> Zero64])
AddrBlock(prm, r, l, sl, i) == G(ZeroBlock, G(ZeroBlock, AddrInput(prm, r, l, sl, i)))

\* 3.4.2: zz = |W| - 1 - ((|W| * (J1^2 / 2^32)) / 2^32)
RelPos(J1, area) ==
  LET x == Hi32(Mul32(J1, J1))
      yy == Hi32(Mul32(Nat32(area), x))
  IN area - 1 - (yy[1] * 65536 + yy[2])

\* 3.4.2: the reference block <<lane, column>> of block (pass r, slice sl, lane l, position idx of the
\* segment) for the 64-bit pseudo-random word w = J2 || J1 (J1 the low half); p lanes, seglen columns per segment
RefBlock(p, seglen, r, sl, l, idx, w) ==
  LET rl == IF r = 0 /\ sl = 0 THEN l ELSE Mod32(Hi32(w), p)
      area == AreaSize(r, sl, idx, seglen, rl = l)
  IN <<rl, AreaCol(r, sl, seglen, RelPos(Lo32(w), area))>>

\* one block: B[l][col] = G(B[l][col-1], B[rl][z]) (xor the old block in later passes, version 0x13);
\* w comes from the address block (3.4.1.2) or is the first word of the previous block (3.4.1.1)
StepBlock(B, prm, r, sl, l, idx, addr) ==
  LET q == prm.q
      col == sl * prm.seglen + idx
      cur == l * q + col + 1
      prev == l * q + ((col + q - 1) % q) + 1
      w == IF DataIndep(prm.y, r, sl) THEN addr[(idx \div 128) + 1][(idx % 128) + 1] ELSE B[prev][1]
      rb == RefBlock(prm.p, prm.seglen, r, sl, l, idx, w)
      g == G(B[prev], B[rb[1] * q + rb[2] + 1])
  IN [B EXCEPT ![cur] = IF r = 0 THEN g ELSE XorBlock(g, B[cur])]

\* one segment; in slice 0 of pass 0 the first two blocks of the lane are already there
ProcessSegment(B, prm, r, sl, l) ==
  LET nAddr == IF DataIndep(prm.y, r, sl) THEN (prm.seglen + 127) \div 128 ELSE 0
      addr == Force([i \in 1..nAddr |-> AddrBlock(prm, r, l, sl, i)])
      first == IF r = 0 /\ sl = 0 THEN 2 ELSE 0
  IN FoldLeft(LAMBDA Bacc, idx : StepBlock(Bacc, prm, r, sl, l, idx, addr), B, Iota(first, prm.seglen - 1))

\* all segments in the order pass, slice, lane (lanes of one slice are independent of each other)
Segments(t, p) == Force([k \in 1..(t * 4 * p) |-> <<(k - 1) \div (4 * p), ((k - 1) \div p) % 4, (k - 1) % p>>])

(***************************************************************************)
(* RFC 9106 section 3.2: the whole function.  y type, P password, S salt,  *)
(* K secret, X associated data, t passes, m requested KiB, p lanes, T tag  *)
(* length.                                                                 *)
(***************************************************************************)
Argon2KX(y, P, S, K, X, t, m, p, T) ==
  LET mp == MemBlocks(m, p)
      q == mp \div p
      prm == [y |-> y, t |-> t, mp |-> mp, p |-> p, q |-> q, seglen |-> q \div 4]
      h0 == H0(y, P, S, K, X, t, m, p, T)
      B0 == Force([k \in 1..mp |->
                    LET lane == (k - 1) \div q
                        col == (k - 1) % q
                    IN IF col < 2 THEN BlockOfBytes(HPrime(1024, h0 \o L4(col) \o L4(lane))) ELSE ZeroBlock])
      B == FoldLeft(LAMBDA Bacc, s : ProcessSegment(Bacc, prm, s[1], s[2], s[3]), B0, Segments(t, p))
      C == FoldLeft(LAMBDA acc, l : XorBlock(acc, B[l * q + q]), ZeroBlock, Iota(0, p - 1))
  IN HPrime(T, BytesOfBlock(C))

\* what the package exposes: no secret, no associated data
Argon2(y, P, S, t, m, p, T) == Argon2KX(y, P, S, <<>>, <<>>, t, m, p, T)

(***************************************************************************)
(* Arithmetic identities (cheap; the published vectors are in Argon2_RFC)  *)
(***************************************************************************)
ASSUME /\ Mul16(65535, 65535) = <<65534, 1>>
       /\ Mul16(4660, 22136) = <<1574, 96>>                                 \* 0x1234 * 0x5678 = 0x06260060
       /\ Mul16(0, 65535) = <<0, 0>> /\ Mul16(65535, 256) = <<255, 65280>>
       /\ Mul32(<<65535, 65535>>, <<65535, 65535>>) = <<65535, 65534, 0, 1>>
       /\ Mul32(<<4660, 22136>>, <<39612, 57072>>) = <<2816, 59982, 9261, 8320>>     \* 0x12345678 * 0x9abcdef0 = 0x0b00ea4e242d2080
       /\ Mod32(<<65535, 65535>>, 255) = 0 /\ Mod32(<<4660, 22136>>, 7) = 5 /\ Mod32(<<39612, 57072>>, 4) = 0
       /\ \A x \in {<<4660, 22136, 39612, 57072>>, Ones64, <<1, 2, 65535, 65535>>, Zero64} :
            \A y \in {<<33153, 65280, 4080, 43690>>, Ones64, <<0, 0, 65535, 65535>>, <<0, 0, 0, 1>>} :
               FBlaMka(x, y) = FBlaMkaDef(x, y)
       /\ FBlaMka(Ones64, Ones64) = <<65535, 65532, 0, 0>>          \* 2(2^64-1) + 2(2^32-1)^2 = 2^65 - 2^34 mod 2^64 = fffffffc00000000
       /\ MemBlocks(8, 1) = 8 /\ MemBlocks(1, 1) = 8 /\ MemBlocks(11, 1) = 8 /\ MemBlocks(12, 1) = 12
       /\ MemBlocks(33, 4) = 32 /\ MemBlocks(47, 4) = 32 /\ MemBlocks(31, 4) = 32 /\ MemBlocks(100, 3) = 96
       /\ RelPos(<<0, 0>>, 10) = 9 /\ RelPos(<<65535, 65535>>, 10) = 0 /\ RelPos(<<32768, 0>>, 8) = 5
=============================================================================
