SPECIFICATION Spec
CONSTANTS
  CloseLate = TRUE
INVARIANTS TypeOK Once NothingSentForDeadCtx NotBoth NoLeak BigStepOutcomes Honest
PROPERTIES MReturns GEnds ClosedOrReturned
CHECK_DEADLOCK FALSE
