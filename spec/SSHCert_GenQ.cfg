SPECIFICATION Spec
CONSTANTS
  Menus <- MenusGenQ
  FixTime = TRUE
INVARIANTS Emit
CHECK_DEADLOCK FALSE
