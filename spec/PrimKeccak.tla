----------------------------- MODULE PrimKeccak -----------------------------
(***************************************************************************)
(* Layer P (binding E): Keccak-f[1600], the sponge construction and the    *)
(* four byte-aligned domain paddings, exactly as FIPS 202 (sections 3.2,   *)
(* 4, 5.1, 6, appendix B.2), NIST SP 800-185 (cSHAKE, section 3) and the   *)
(* original Keccak submission (domain byte 0x01) define them, as           *)
(* executable TLA+ definitions evaluated by TLC.  This is the byte oracle  *)
(* against which /repo/sha3 is compared (C08):                             *)
(*   legacy_keccakf.go keccakF1600, legacy_hash.go (the package's own      *)
(*   sponge: NewLegacyKeccak256/512), and the wiring of hashes.go/shake.go *)
(*   onto the standard library (SHA3-nnn, SHAKEnnn, cSHAKEnnn).             *)
(* It is deliberately the textbook algorithm: the five step mappings       *)
(* theta, rho, pi, chi, iota on a 5x5 array of lanes, rho offsets and      *)
(* round constants *computed* by the FIPS 202 recurrences (Algorithm 2 and *)
(* the rc LFSR of Algorithm 5) and only cross-checked against the usual    *)
(* literal tables; no unrolling, no in-place lane shuffling.               *)
(*                                                                         *)
(* TLC integers are 32-bit, so a 64-bit lane is four 16-bit limbs          *)
(* <<w0, w1, w2, w3>>, w0 least significant.  A state is a sequence of 25  *)
(* lanes, lane (x, y) at index x + 5y + 1.  Bytes are 0..255, byte strings *)
(* are sequences.  The ASSUMEs at the end are published digests: a wrong   *)
(* module refuses to run.                                                  *)
(***************************************************************************)
EXTENDS PrimWords, SequencesExt

(***************************************************************************)
(* 64-bit lanes                                                            *)
(***************************************************************************)
Lane0 == <<0, 0, 0, 0>>
Xor64(a, b) == << a[1] ^^ b[1], a[2] ^^ b[2], a[3] ^^ b[3], a[4] ^^ b[4] >>
\* (NOT a) AND b
AndNot64(a, b) == << (65535 - a[1]) & b[1], (65535 - a[2]) & b[2], (65535 - a[3]) & b[3], (65535 - a[4]) & b[4] >>
\* rotate left by n, 0 <= n < 64: by n div 16 whole limbs, then by n mod 16 bits
Rotl64(a, n) ==
  LET k == n \div 16
      r == n % 16
      l1 == a[((4 - k) % 4) + 1]   l2 == a[((5 - k) % 4) + 1]
      l3 == a[((6 - k) % 4) + 1]   l4 == a[((7 - k) % 4) + 1]
  IN IF r = 0 THEN <<l1, l2, l3, l4>>
     ELSE LET p == 2^r  q == 2^(16 - r) IN
          << ((l1 * p) % 65536) + (l4 \div q), ((l2 * p) % 65536) + (l1 \div q),
             ((l3 * p) % 65536) + (l2 \div q), ((l4 * p) % 65536) + (l3 \div q) >>
\* little-endian: bytes b[p..p+7] (1-based) -> lane, lane -> 8 bytes
LaneLE(b, p) == << b[p] + 256 * b[p+1], b[p+2] + 256 * b[p+3], b[p+4] + 256 * b[p+5], b[p+6] + 256 * b[p+7] >>
LaneBytes(l) == << l[1] % 256, l[1] \div 256, l[2] % 256, l[2] \div 256, l[3] % 256, l[3] \div 256, l[4] % 256, l[4] \div 256 >>
\* lane with only bit `pos` (0..63) set
BitLane(pos) == [i \in 1..4 |-> IF pos \div 16 = i - 1 THEN 2^(pos % 16) ELSE 0] \o <<>>

(***************************************************************************)
(* rho offsets, FIPS 202 Algorithm 2: (x, y) = (1, 0); for t = 0..23:      *)
(* r[x, y] = (t+1)(t+2)/2 mod 64; (x, y) := (y, (2x + 3y) mod 5).          *)
(***************************************************************************)
RECURSIVE RhoWalk(_, _, _, _)
RhoWalk(tab, x, y, t) ==
  IF t = 24 THEN tab
  ELSE RhoWalk([tab EXCEPT ![x + 5 * y + 1] = (((t + 1) * (t + 2)) \div 2) % 64], y, (2 * x + 3 * y) % 5, t + 1)
RhoOff == RhoWalk([i \in 1..25 |-> 0] \o <<>>, 1, 0, 0)

(***************************************************************************)
(* round constants, FIPS 202 Algorithm 5/6: RC[ir] has bit 2^j - 1 equal   *)
(* to rc(j + 7 ir), rc being the output of the LFSR x^8+x^6+x^5+x^4+1.     *)
(* LfsrSeq(n): the first n output bits.                                    *)
(***************************************************************************)
RECURSIVE LfsrRun(_, _, _)
LfsrRun(R, n, acc) ==
  IF n = 0 THEN acc
  ELSE LfsrRun(IF R >= 128 THEN ((2 * R) % 256) ^^ 113 ELSE 2 * R, n - 1, Append(acc, R % 2))
LfsrBits == LfsrRun(1, 7 * 24, <<>>)
RECURSIVE RCBuild(_, _, _)
RCBuild(ir, j, acc) ==
  IF j = 7 THEN acc
  ELSE RCBuild(ir, j + 1, IF LfsrBits[j + 7 * ir + 1] = 1 THEN Xor64(acc, BitLane(2^j - 1)) ELSE acc)
RC == [ir \in 1..24 |-> RCBuild(ir - 1, 0, Lane0)] \o <<>>

(***************************************************************************)
(* The step mappings (FIPS 202 section 3.2) and Keccak-f[1600].            *)
(***************************************************************************)
Theta(A) ==
  LET C == Force([x \in 1..5 |-> Xor64(Xor64(Xor64(Xor64(A[x], A[x + 5]), A[x + 10]), A[x + 15]), A[x + 20])])
      D == Force([x \in 1..5 |-> Xor64(C[((x + 3) % 5) + 1], Rotl64(C[(x % 5) + 1], 1))])
  IN Force([i \in 1..25 |-> Xor64(A[i], D[((i - 1) % 5) + 1])])
\* rho then pi: A'[x, y] = rot(A[x', y'], r[x', y']) with (x', y') = ((x + 3y) mod 5, x)
RhoPi(A) ==
  Force([i \in 1..25 |->
    LET x == (i - 1) % 5  y == (i - 1) \div 5
        s == ((x + 3 * y) % 5) + 5 * x + 1
    IN Rotl64(A[s], RhoOff[s])])
Chi(B) ==
  Force([i \in 1..25 |->
    LET x == (i - 1) % 5  row == 5 * ((i - 1) \div 5)
    IN Xor64(B[i], AndNot64(B[row + ((x + 1) % 5) + 1], B[row + ((x + 2) % 5) + 1]))])
Iota(A, ir) == [A EXCEPT ![1] = Xor64(A[1], RC[ir])]
Round(A, ir) == Iota(Chi(RhoPi(Theta(A))), ir)
RECURSIVE Rounds(_, _)
Rounds(A, ir) == IF ir > 24 THEN A ELSE Rounds(Round(A, ir), ir + 1)
KeccakF(A) == Rounds(A, 1)
ZeroState == [i \in 1..25 |-> Lane0] \o <<>>

(***************************************************************************)
(* Sponge (FIPS 202 section 4) for byte strings; rate in bytes, rate % 8 = *)
(* 0.  Pad: the byte-aligned form of the domain suffix followed by pad10*1 *)
(* (FIPS 202 appendix B.2): q = rate - (len mod rate) bytes, ds || 0.. ||  *)
(* 0x80, a single byte ds + 0x80 when q = 1.  ds = 0x06 SHA-3, 0x1f SHAKE, *)
(* 0x04 cSHAKE, 0x01 original Keccak.                                      *)
(***************************************************************************)
Pad(msg, rate, ds) ==
  LET q == rate - (Len(msg) % rate) IN
  IF q = 1 THEN msg \o <<ds + 128>>
  ELSE msg \o <<ds>> \o Zeros(q - 2) \o <<128>>
XorBlock(A, blk) ==
  Force([i \in 1..25 |-> IF 8 * i <= Len(blk) THEN Xor64(A[i], LaneLE(blk, 8 * (i - 1) + 1)) ELSE A[i]])
RECURSIVE Absorb(_, _, _, _)
Absorb(A, P, rate, k) ==
  IF k * rate >= Len(P) THEN A
  ELSE Absorb(KeccakF(XorBlock(A, SubSeq(P, k * rate + 1, (k + 1) * rate))), P, rate, k + 1)
StateBytes(A, rate) == FlattenSeq([i \in 1..(rate \div 8) |-> LaneBytes(A[i])])
RECURSIVE Squeeze(_, _, _)
Squeeze(A, rate, n) ==
  IF n <= rate THEN SubSeq(StateBytes(A, rate), 1, n)
  ELSE StateBytes(A, rate) \o Squeeze(KeccakF(A), rate, n - rate)
\* the first n output bytes of SPONGE[Keccak-f[1600], pad, rate](msg || suffix)
Sponge(msg, rate, ds, n) == Squeeze(Absorb(ZeroState, Pad(msg, rate, ds), rate, 0), rate, n)

(***************************************************************************)
(* SP 800-185: left_encode, encode_string, bytepad, cSHAKE.                *)
(***************************************************************************)
RECURSIVE BEBytes(_)
BEBytes(x) == IF x < 256 THEN <<x>> ELSE Append(BEBytes(x \div 256), x % 256)
LeftEncode(x) == LET b == BEBytes(x) IN <<Len(b)>> \o b
EncodeString(s) == LeftEncode(8 * Len(s)) \o s
BytePad(X, w) == LET z == LeftEncode(w) \o X IN z \o Zeros((w - (Len(z) % w)) % w)

(***************************************************************************)
(* The functions of the sha3 package.  fn is a name; Rate(fn), OutLen(fn). *)
(* XOF(fn, N, S, msg, n): the first n output bytes (for the fixed-output   *)
(* functions the digest is XOF(..., OutLen(fn)); longer n is what Read on  *)
(* the legacy sponge returns).  N, S are used by cshake128/cshake256 only. *)
(***************************************************************************)
Rate(fn) == CASE fn = "sha3-224" -> 144 [] fn = "sha3-256" -> 136 [] fn = "sha3-384" -> 104 [] fn = "sha3-512" -> 72
              [] fn = "shake128" -> 168 [] fn = "shake256" -> 136 [] fn = "cshake128" -> 168 [] fn = "cshake256" -> 136
              [] fn = "keccak256" -> 136 [] fn = "keccak512" -> 72
OutLen(fn) == CASE fn = "sha3-224" -> 28 [] fn = "sha3-256" -> 32 [] fn = "sha3-384" -> 48 [] fn = "sha3-512" -> 64
              [] fn = "shake128" -> 32 [] fn = "shake256" -> 64 [] fn = "cshake128" -> 32 [] fn = "cshake256" -> 64
              [] fn = "keccak256" -> 32 [] fn = "keccak512" -> 64
XOF(fn, N, S, msg, n) ==
  CASE fn \in {"sha3-224", "sha3-256", "sha3-384", "sha3-512"} -> Sponge(msg, Rate(fn), 6, n)
    [] fn \in {"shake128", "shake256"} -> Sponge(msg, Rate(fn), 31, n)
    [] fn \in {"cshake128", "cshake256"} ->
         IF Len(N) = 0 /\ Len(S) = 0 THEN Sponge(msg, Rate(fn), 31, n)
         ELSE Sponge(BytePad(EncodeString(N) \o EncodeString(S), Rate(fn)) \o msg, Rate(fn), 4, n)
    [] fn \in {"keccak256", "keccak512"} -> Sponge(msg, Rate(fn), 1, n)
Digest(fn, msg) == XOF(fn, <<>>, <<>>, msg, OutLen(fn))

(***************************************************************************)
(* Published values                                                        *)
(***************************************************************************)
RhoOffLit == << 0, 1, 62, 28, 27,   36, 44, 6, 55, 20,   3, 10, 43, 25, 39,   41, 45, 15, 21, 8,   18, 2, 61, 56, 14 >>
RCLit == <<
  <<1,0,0,0>>, <<32898,0,0,0>>, <<32906,0,0,32768>>, <<32768,32768,0,32768>>, <<32907,0,0,0>>, <<1,32768,0,0>>,
  <<32897,32768,0,32768>>, <<32777,0,0,32768>>, <<138,0,0,0>>, <<136,0,0,0>>, <<32777,32768,0,0>>, <<10,32768,0,0>>,
  <<32907,32768,0,0>>, <<139,0,0,32768>>, <<32905,0,0,32768>>, <<32771,0,0,32768>>, <<32770,0,0,32768>>, <<128,0,0,32768>>,
  <<32778,0,0,0>>, <<10,32768,0,32768>>, <<32897,32768,0,32768>>, <<32896,0,0,32768>>, <<1,32768,0,0>>, <<32776,32768,0,32768>> >>
EmailSignature == <<69,109,97,105,108,32,83,105,103,110,97,116,117,114,101>>     \* "Email Signature"

ASSUME /\ Rotl64(<<1, 0, 0, 0>>, 1) = <<2, 0, 0, 0>>
       /\ Rotl64(<<32768, 0, 0, 0>>, 1) = <<0, 1, 0, 0>>
       /\ Rotl64(<<0, 0, 0, 32768>>, 1) = <<1, 0, 0, 0>>
       /\ Rotl64(<<4660, 22136, 39612, 57072>>, 16) = <<57072, 4660, 22136, 39612>>
       /\ Rotl64(<<4660, 22136, 39612, 57072>>, 0) = <<4660, 22136, 39612, 57072>>
       /\ Rotl64(<<1, 0, 0, 0>>, 63) = <<0, 0, 0, 32768>>
       /\ Rotl64(<<3, 0, 0, 0>>, 47) = <<0, 0, 32768, 1>>
       /\ LaneBytes(LaneLE(<<1, 2, 3, 4, 5, 6, 7, 8>>, 1)) = <<1, 2, 3, 4, 5, 6, 7, 8>>
ASSUME RhoOff = RhoOffLit
ASSUME RC = RCLit
ASSUME /\ LeftEncode(0) = <<1, 0>> /\ LeftEncode(168) = <<1, 168>> /\ LeftEncode(4096) = <<2, 16, 0>>
       /\ EncodeString(<<>>) = <<1, 0>>
       /\ Len(BytePad(EncodeString(<<>>) \o EncodeString(EmailSignature), 168)) = 168
       /\ Pad(<<>>, 8, 6) = <<6, 0, 0, 0, 0, 0, 0, 128>> /\ Pad(Zeros(7), 8, 6) = Zeros(7) \o <<134>>
       /\ Len(Pad(Zeros(8), 8, 6)) = 16
\* FIPS 202 / NIST example values: digests of the empty message
ASSUME Digest("sha3-224", <<>>) = <<107,78,3,66,54,103,219,183,59,110,21,69,79,14,177,171,212,89,127,154,27,7,142,63,91,90,107,199>>
ASSUME Digest("sha3-256", <<>>) = <<167,255,198,248,191,30,215,102,81,193,71,86,160,97,214,98,245,128,255,77,228,59,73,250,130,216,10,75,128,248,67,74>>
ASSUME Digest("sha3-384", <<>>) = <<12,99,167,91,132,94,79,125,1,16,125,133,46,76,36,133,197,26,80,170,170,148,252,97,153,94,113,187,238,152,58,42,195,113,56,49,38,74,219,71,251,107,209,224,88,213,240,4>>
ASSUME Digest("sha3-512", <<>>) = <<166,159,115,204,162,58,154,197,200,181,103,220,24,90,117,110,151,201,130,22,79,226,88,89,224,209,220,193,71,92,128,166,21,178,18,58,241,245,249,76,17,227,233,64,44,58,197,88,245,0,25,157,149,182,211,227,1,117,133,134,40,29,205,38>>
ASSUME Digest("shake128", <<>>) = <<127,156,43,164,232,143,130,125,97,96,69,80,118,5,133,62,215,59,128,147,246,239,188,136,235,26,110,172,250,102,239,38>>
ASSUME Digest("shake256", <<>>) = <<70,185,221,43,11,168,141,19,35,59,63,235,116,62,235,36,63,205,82,234,98,184,27,130,181,12,39,100,110,213,118,47,215,93,196,221,216,192,242,0,203,5,1,157,103,181,146,246,252,130,28,73,71,154,180,134,64,41,46,172,179,183,196,190>>
\* SHA3-256("abc")
ASSUME Digest("sha3-256", <<97, 98, 99>>) = <<58,152,93,167,79,226,37,178,4,92,23,45,107,211,144,189,133,95,8,110,62,157,82,91,70,191,226,69,17,67,21,50>>
\* original Keccak-256("") and Keccak-512("")
ASSUME Digest("keccak256", <<>>) = <<197,210,70,1,134,247,35,60,146,126,125,178,220,199,3,192,229,0,182,83,202,130,39,59,123,250,216,4,93,133,164,112>>
ASSUME Digest("keccak512", <<>>) = <<14,171,66,222,76,60,235,146,53,252,145,172,255,231,70,178,156,41,168,195,102,183,198,14,78,103,196,102,243,106,67,4,192,15,169,202,249,216,121,118,186,70,155,203,224,103,19,180,53,240,145,239,39,105,251,22,12,218,179,61,54,112,104,14>>
\* NIST cSHAKE samples #1 (cSHAKE128) and #3 (cSHAKE256): data 00 01 02 03, N = "", S = "Email Signature"
ASSUME XOF("cshake128", <<>>, EmailSignature, <<0, 1, 2, 3>>, 32) = <<193,195,105,37,182,64,154,4,241,181,4,252,188,169,216,43,64,23,39,124,181,237,43,32,101,252,29,56,20,213,170,245>>
ASSUME XOF("cshake256", <<>>, EmailSignature, <<0, 1, 2, 3>>, 64) = <<208,8,130,142,43,128,172,157,34,24,255,238,29,7,12,72,184,228,200,123,255,50,201,105,157,91,104,150,238,224,237,209,100,2,14,43,224,86,8,88,217,192,12,3,126,52,169,105,55,197,97,167,76,65,43,180,199,70,70,149,39,40,28,140>>
\* cSHAKE with N = S = "" is SHAKE
ASSUME XOF("cshake128", <<>>, <<>>, <<7>>, 8) = XOF("shake128", <<>>, <<>>, <<7>>, 8)
=============================================================================
