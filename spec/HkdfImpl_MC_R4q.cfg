SPECIFICATION Spec
CONSTANTS
  H = 4
  NBufs = 2
  Design = "own"
  MaxBlocks = 255
  ReadSizes = {0, 1, 2, 3, 4, 5, 7, 9, 1000, 1003, 1012, 1016, 1017, 1019, 1020, 1021}
  NearLo = 12
  NearHi = 1000
CONSTRAINT NearEnds
INVARIANTS TypeOK ImplInv ReaderOwnsItsState
PROPERTIES Refines AbsErrorConsumesNothing AbsContiguous AbsFailsExactlyBeyondLimit AbsZeroReadIsNoop AbsScribbleIsInvisible ScribbleKeepsReaderState
CHECK_DEADLOCK FALSE
