SPECIFICATION Spec
CONSTANTS
  FileSet <- FilesL3
  QuerySeq <- QueriesL
  StarFix = TRUE
  SubjectFix = TRUE
  CAListsPlain = TRUE
  RevokedSubject = TRUE
INVARIANTS TypeOK Agree AcceptSound RevokedDominates WantExact OrderIndependent
CHECK_DEADLOCK FALSE
