SPECIFICATION Spec
CONSTANTS
  KSCases <- KSQuick
  HCCases <- HCQuick
INVARIANTS Emit
CHECK_DEADLOCK FALSE
