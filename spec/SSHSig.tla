------------------------------- MODULE SSHSig -------------------------------
(* SSH signatures as golang.org/x/crypto/ssh produces and verifies them
   (ssh/keys.go: rsaPublicKey.Verify, dsaPublicKey.Verify, ecdsaPublicKey.Verify,
    ed25519PublicKey.Verify, skECDSAPublicKey.Verify, skEd25519PublicKey.Verify,
    Certificate.Verify, wrappedSigner / dsaPrivateKey.SignWithAlgorithm, NewSignerWithAlgorithms,
    multiAlgorithmSigner; ssh/common.go: algorithmsForKeyFormat, hashFunc;
    ssh/server.go: noTouchAllowed, skKeyWithoutUP).

   Part 1 (variables v, res): one state = one signature presented to one public key.
   A signature is made by a signer of key type ts with algorithm a over some data (for security
   keys: with flags byte fl), possibly relabelled to format f, possibly mutated (class mu), and
   presented with the same or other data to a key of type tv (the signer's key or another key),
   optionally wrapped in a Certificate, optionally with the no-touch-required opt-out.  The action
   Verify runs the code-shaped procedure (format check first, then blob parsing, then the
   user-presence flag, then the primitive); the invariant VerifyIffValid states the property.

   Part 2 (variables m, mres): the package's signers.  NewSignerWithAlgorithms(signer, list),
   optionally restricted a second time, then Sign / SignWithAlgorithm(alg).

   Part 3 (variables o, ores): the no-touch-required opt-out decision of the server
   (noTouchAllowed) for a security-key signature with flags fl. *)
EXTENDS Integers, Sequences, FiniteSets, TLC

CONSTANT FixSign  \* TRUE: multiAlgorithmSigner.Sign goes through SignWithAlgorithm with the key format's algorithm (the code
                  \* since fix bd7db8b, finding C40-M1); FALSE: the promoted Sign of the embedded signer (documentation only, SSHSig_DocSign.cfg)
CONSTANT Menus    \* set of menus; see SSHSig_MC

KeyTypes == {"ssh-rsa", "ssh-dss", "ecdsa-sha2-nistp256", "ecdsa-sha2-nistp384", "ecdsa-sha2-nistp521", "ssh-ed25519",
             "sk-ecdsa-sha2-nistp256@openssh.com", "sk-ssh-ed25519@openssh.com"}
SKTypes  == {"sk-ecdsa-sha2-nistp256@openssh.com", "sk-ssh-ed25519@openssh.com"}
RSAAlgos == {"ssh-rsa", "rsa-sha2-256", "rsa-sha2-512"}
(* algorithmsForKeyFormat *)
Allowed(kt) == IF kt = "ssh-rsa" THEN RSAAlgos ELSE {kt}
(* every format string explored: all signature algorithms, certificate algorithm names (never valid
   in Signature.Format), the empty string and an unknown name *)
CertNames == {"ssh-rsa-cert-v01@openssh.com", "rsa-sha2-512-cert-v01@openssh.com", "ssh-ed25519-cert-v01@openssh.com",
              "sk-ssh-ed25519-cert-v01@openssh.com", "ecdsa-sha2-nistp256-cert-v01@openssh.com"}
Formats == UNION {Allowed(kt) : kt \in KeyTypes} \cup CertNames \cup {"", "unknown@verif"}

(* mutation classes of the presented signature / data.  Real = the signature value or the signed
   content changed; Benign = the same signature value in another encoding (or its algebraic twin) *)
RealMut   == {"otherdata", "flipA", "flipB", "trail", "trunc", "empty",
              "prefix01", "prefixFF", "prefixMany", "prefix00"}      \* bytes prepended to the blob (1 x 0x01, 1 x 0xff, several, 1 x 0x00)
SKMut     == {"flagsAfter", "counterAfter", "restTrunc", "restTrail"}
BenignMut == {"rsaShort", "ecdsaPadR", "ecdsaNegS"}
(* One prepended class is not judged: a single zero byte in front of an RSA signature blob denotes the same integer s
   (RFC 4253 6.6 / RFC 8332 3 define the blob as s in exactly the modulus length, so the code -- crypto/rsa -- rejects it,
   which is what VerifyD says; a verifier that tolerated it would still not accept a different signature value).  For every
   other key type the blob has a fixed length or an inner structure, a prepended byte destroys it. *)
Unjudged(x) == x.mu \in BenignMut \/ (x.mu = "prefix00" /\ x.ts = "ssh-rsa" /\ x.tv = "ssh-rsa")
UP(fl) == fl % 2 = 1

VARIABLES v, res, m, mres, o, ores, part, phase
vars == <<v, res, m, mres, o, ores, part, phase>>

-----------------------------------------------------------------------------
(* Part 1: Verify *)
Acc == [acc |-> TRUE, why |-> "ok"]
Rej(w) == [acc |-> FALSE, why |-> w]

(* the primitive verifies: same key, same data, untouched value, and the hash/primitive selected by
   the presented format is the one the signer used *)
PrimOK(x) == x.same /\ x.tv = x.ts /\ x.f = x.a /\ x.mu \in ({"none"} \cup BenignMut)

(* blob / trailer structure acceptable to the parser of the selected primitive (reached only when the format is allowed) *)
StructOK(x) == x.ts \in SKTypes /\ x.mu \notin {"restTrunc", "restTrail"}   \* the 5-byte flags/counter trailer is there

VerifyD(x) ==
  IF x.f \notin Allowed(x.tv) THEN Rej("format")
  ELSE IF x.tv \in SKTypes /\ ~StructOK(x) THEN Rej("parse")
  ELSE IF x.tv \in SKTypes /\ ~UP(x.flp) /\ ~x.notouch THEN Rej("presence")
  ELSE IF ~PrimOK(x) THEN Rej("primitive")
  ELSE Acc

(* the property *)
Valid(x) == /\ x.f \in Allowed(x.tv)                  \* format allowed for the key type
            /\ x.same /\ x.tv = x.ts                  \* the matching public key
            /\ x.f = x.a                              \* the algorithm it was made with
            /\ x.mu = "none"                          \* same data, unmodified blob
            /\ (x.tv \in SKTypes => (UP(x.flp) \/ x.notouch))

-----------------------------------------------------------------------------
(* Part 2: signers *)
(* wrappedSigner / dsaPrivateKey.SignWithAlgorithm: "" means the key type's own format *)
BaseSign(kt, alg) == LET a == IF alg = "" THEN kt ELSE alg IN
                     IF a \in Allowed(kt) THEN [ok |-> TRUE, fmt |-> a] ELSE [ok |-> FALSE, fmt |-> "-"]
(* NewSignerWithAlgorithms(signer, list) where signer's own algorithms are own *)
Restrict(kt, own, list) == /\ list # <<>>
                           /\ \A i \in 1..Len(list) : list[i] \in Allowed(kt) /\ list[i] \in own
SeqSet(s) == {s[i] : i \in 1..Len(s)}
(* multiAlgorithmSigner.SignWithAlgorithm *)
MultiSign(kt, list, alg) == LET a == IF alg = "" THEN kt ELSE alg IN
                            IF a \in SeqSet(list) THEN BaseSign(kt, alg) ELSE [ok |-> FALSE, fmt |-> "-"]
(* multiAlgorithmSigner.Sign: SignWithAlgorithm(underlyingAlgo(key type)); before fix bd7db8b the method was not
   overridden and the embedded signer's Sign ran, whatever the list *)
MultiSignPlain(kt, list) == IF FixSign THEN MultiSign(kt, list, kt) ELSE BaseSign(kt, "")

SignerD(y) ==
  IF ~Restrict(y.kt, Allowed(y.kt), y.l1) THEN [new |-> FALSE, ok |-> FALSE, fmt |-> "-", algs |-> <<>>]
  ELSE IF y.l2 # <<"-">> /\ ~Restrict(y.kt, SeqSet(y.l1), y.l2) THEN [new |-> FALSE, ok |-> FALSE, fmt |-> "-", algs |-> <<>>]
  ELSE LET list == IF y.l2 = <<"-">> THEN y.l1 ELSE y.l2
           r == IF y.call = "Sign" THEN MultiSignPlain(y.kt, list) ELSE MultiSign(y.kt, list, y.alg)
       IN [new |-> TRUE, ok |-> r.ok, fmt |-> r.fmt, algs |-> list]

-----------------------------------------------------------------------------
(* Part 3: opt-out *)
NoTouchAllowed(z) == z.perms = "ext" \/ z.cert = "ext"
OptOutD(z) == UP(z.fl) \/ NoTouchAllowed(z)

-----------------------------------------------------------------------------
V0 == [ts |-> "-", a |-> "-", tv |-> "-", same |-> FALSE, f |-> "-", mu |-> "-", fl |-> 0, flp |-> 0, notouch |-> FALSE, wrap |-> "-"]
M0 == [kt |-> "-", l1 |-> <<>>, l2 |-> <<>>, call |-> "-", alg |-> "-"]
O0 == [fl |-> 0, perms |-> "-", cert |-> "-"]
ECTypes == {"ecdsa-sha2-nistp256", "ecdsa-sha2-nistp384", "ecdsa-sha2-nistp521", "sk-ecdsa-sha2-nistp256@openssh.com"}

Init ==
  /\ \E mn \in Menus :
    \/ /\ mn.part = 1 /\ part = 1
       /\ \E ts \in mn.ts, tv \in mn.tv, sm \in BOOLEAN, mu \in mn.mu, fl \in mn.fl, nt \in mn.nt, w \in mn.wrap :
          \E a \in Allowed(ts) : \E f \in (mn.f \cup {a}), fa \in (mn.fa \cup {fl}) :
            /\ (tv # ts => ~sm)
            /\ (mu \in SKMut => ts \in SKTypes)
            /\ (mu = "rsaShort" => ts = "ssh-rsa")
            /\ (mu \in {"ecdsaPadR", "ecdsaNegS"} => ts \in ECTypes)
            /\ (ts \notin SKTypes => fl = 1)
            /\ (mu # "flagsAfter" => fa = fl)
            /\ (mu = "flagsAfter" => fa # fl)
            /\ (tv \notin SKTypes => ~nt)
            /\ v = [ts |-> ts, a |-> a, tv |-> tv, same |-> sm, f |-> f, mu |-> mu, fl |-> fl,
                    flp |-> fa,                       \* flags byte presented in the signature trailer
                    notouch |-> nt, wrap |-> w]
       /\ m = M0 /\ o = O0
    \/ /\ mn.part = 2 /\ part = 2
       /\ \E kt \in mn.kt, l1 \in mn.l1, l2 \in mn.l2, call \in {"Sign", "SignWithAlgorithm"}, alg \in mn.alg :
            /\ (call = "Sign" => alg = "")
            /\ m = [kt |-> kt, l1 |-> l1, l2 |-> l2, call |-> call, alg |-> alg]
       /\ v = V0 /\ o = O0
    \/ /\ mn.part = 3 /\ part = 3
       /\ \E fl \in mn.fl, p \in {"none", "ext", "crit"}, c \in {"plain", "none", "ext", "crit"} :
            o = [fl |-> fl, perms |-> p, cert |-> c]
       /\ v = V0 /\ m = M0
  /\ res = Rej("unset") /\ mres = [new |-> FALSE, ok |-> FALSE, fmt |-> "-", algs |-> <<>>] /\ ores = FALSE
  /\ phase = "init"

Verify == /\ phase = "init" /\ part = 1
          /\ res' = VerifyD(v) /\ phase' = "done" /\ UNCHANGED <<v, m, mres, o, ores, part>>
UseSigner == /\ phase = "init" /\ part = 2
             /\ mres' = SignerD(m) /\ phase' = "done" /\ UNCHANGED <<v, res, m, o, ores, part>>
ServerAuth == /\ phase = "init" /\ part = 3
              /\ ores' = OptOutD(o) /\ phase' = "done" /\ UNCHANGED <<v, res, m, mres, o, part>>
Next == Verify \/ UseSigner \/ ServerAuth
Spec == Init /\ [][Next]_vars

-----------------------------------------------------------------------------
Done == phase = "done"

(* C40, verification: accepted exactly when valid; the only accepted non-identical signatures are
   re-encodings / the algebraic twin of a valid one *)
VerifyIffValid == (Done /\ part = 1) =>
   /\ (~Unjudged(v)) => (res.acc <=> Valid(v))
   /\ (v.mu = "prefix00") => ~res.acc                              \* the code as it is rejects every prepended byte
   /\ (v.mu \in BenignMut) => (res.acc <=> Valid([v EXCEPT !.mu = "none"]))
(* a format outside the key type's table is refused whatever else holds *)
FormatTable == (Done /\ part = 1 /\ v.f \notin Allowed(v.tv)) => ~res.acc
(* user presence *)
PresenceRule == (Done /\ part = 1 /\ v.tv \in SKTypes /\ res.acc) => (UP(v.flp) \/ v.notouch)

(* C40, signers: whatever is produced through SignWithAlgorithm lies in the restriction list and in the key's table *)
RefusesOutsideList == (Done /\ part = 2 /\ mres.new /\ m.call = "SignWithAlgorithm" /\ mres.ok) =>
                        (mres.fmt \in SeqSet(mres.algs) /\ mres.fmt \in Allowed(m.kt))
NeverWidens == (Done /\ part = 2 /\ mres.new) => SeqSet(mres.algs) \subseteq (Allowed(m.kt) \cap SeqSet(m.l1))
(* the same for the plain Sign method; with FixSign = FALSE this fails: the expected counterexample of SSHSig_DocSign.cfg
   documents the repaired defect C40-M1 *)
SignAlsoRefuses == (Done /\ part = 2 /\ mres.new /\ m.call = "Sign" /\ mres.ok) => mres.fmt \in SeqSet(mres.algs)

(* C40, opt-out *)
OptOutRule == (Done /\ part = 3) => (ores <=> (UP(o.fl) \/ o.perms = "ext" \/ o.cert = "ext"))
=============================================================================
