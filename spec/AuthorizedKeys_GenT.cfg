SPECIFICATION Spec
CONSTANTS
  Menus <- MenusGenT
INVARIANTS Emit
CHECK_DEADLOCK FALSE
