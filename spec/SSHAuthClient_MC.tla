-------------------------- MODULE SSHAuthClient_MC --------------------------
(* Bounded instances of SSHAuthClient: client configurations, server alphabets, and the
   behaviour generator for binding R (hist = the events, script = the items the server chose). *)
EXTENDS SSHAuthClient, Json

\* ---- signers: [key (name of a key in the harness pool), fmt (key format), algs (signature
\*      algorithms in the signer's preference order), kind]
\*      kind: "multi" MultiAlgorithmSigner; "alg" AlgorithmSigner only; "plain" Signer only
SEd1      == [key |-> "ed1",  fmt |-> ED,  algs |-> <<ED>>, kind |-> "multi"]
SEd2      == [key |-> "ed2",  fmt |-> ED,  algs |-> <<ED>>, kind |-> "plain"]
SRsa1     == [key |-> "rsa1", fmt |-> RSA, algs |-> <<R256, R512, RSA>>, kind |-> "multi"]
SRsa1Alg  == [key |-> "rsa1", fmt |-> RSA, algs |-> <<R256, R512, RSA>>, kind |-> "alg"]
SRsa2Pl   == [key |-> "rsa2", fmt |-> RSA, algs |-> <<RSA>>, kind |-> "plain"]
SRsa1R512 == [key |-> "rsa1", fmt |-> RSA, algs |-> <<R512>>, kind |-> "multi"]
SRsa2R256 == [key |-> "rsa2", fmt |-> RSA, algs |-> <<R256>>, kind |-> "multi"]
SRsa2Pref == [key |-> "rsa2", fmt |-> RSA, algs |-> <<R512, R256>>, kind |-> "multi"]
SRsa2Old  == [key |-> "rsa2", fmt |-> RSA, algs |-> <<RSA, R256>>, kind |-> "multi"]
SCert1    == [key |-> "rsacert1", fmt |-> CRSA, algs |-> <<R256, R512, RSA>>, kind |-> "multi"]
SCert1Alg == [key |-> "rsacert1", fmt |-> CRSA, algs |-> <<R256, R512, RSA>>, kind |-> "alg"]
SCert1New == [key |-> "rsacert1", fmt |-> CRSA, algs |-> <<R512, R256>>, kind |-> "multi"]
SCert2R512 == [key |-> "rsacert2", fmt |-> CRSA, algs |-> <<R512>>, kind |-> "multi"]
SCert2Pl  == [key |-> "rsacert2", fmt |-> CRSA, algs |-> <<RSA>>, kind |-> "plain"]
SEdCert1  == [key |-> "edcert1", fmt |-> CED, algs |-> <<ED>>, kind |-> "multi"]

SEc256    == [key |-> "ec256", fmt |-> EC256, algs |-> <<EC256>>, kind |-> "multi"]
SEc384    == [key |-> "ec384", fmt |-> EC384, algs |-> <<EC384>>, kind |-> "alg"]
SEc521    == [key |-> "ec521", fmt |-> EC521, algs |-> <<EC521>>, kind |-> "plain"]
SEcCert1  == [key |-> "eccert1", fmt |-> CEC256, algs |-> <<EC256>>, kind |-> "multi"]

M(m, retry) == [m |-> m, retry |-> retry, signers |-> <<>>, cred |-> "good"]
MC(m, retry, cred) == [m |-> m, retry |-> retry, signers |-> <<>>, cred |-> cred]
MPk(retry, sgs) == [m |-> PK, retry |-> retry, signers |-> sgs, cred |-> ""]

\* "o1*": publickey entries with two signers that can fail to negotiate (the repaired defect O1).
MCConfigs ==
  [n \in {"pw", "kbd", "pw_kbd", "rpw2_kbd", "rkbd0_pw", "pk_ed", "pk_rsa_pw", "pk_alg_edcert", "pk_cert_ed_pw",
          "kbd_pk3", "rpk2_pw", "pk_pk", "pk_2entries", "pk_certalg_pl", "pk_pref", "o1", "o1cert", "pk_edcert_pw",
          "long_pw", "long_rpw2_kbd", "f_pk_pw", "f_pk2_pw", "f_pk_pk_pw", "f_rpk2_pw", "f_rpw2_pk", "f_kbd_pk2"} |->
     CASE n = "pw" -> <<M(PW, -1)>>
       [] n = "kbd" -> <<M(KBD, -1)>>
       [] n = "f_pk_pw" -> <<MPk(-1, <<SEd1>>), M(PW, -1)>>
       [] n = "f_pk2_pw" -> <<MPk(-1, <<SRsa1, SEd1>>), M(PW, -1)>>
       [] n = "f_pk_pk_pw" -> <<MPk(-1, <<SEd1>>), MPk(-1, <<SRsa1>>), M(PW, -1)>>
       [] n = "f_rpk2_pw" -> <<MPk(2, <<SEd1, SRsa2Old>>), M(PW, -1)>>
       [] n = "f_rpw2_pk" -> <<M(PW, 2), MPk(-1, <<SEd2>>)>>
       [] n = "f_kbd_pk2" -> <<M(KBD, -1), MPk(-1, <<SEd1, SCert1>>)>>
       [] n = "long_pw" -> <<M(PW, -1)>>
       [] n = "long_rpw2_kbd" -> <<M(PW, 2), M(KBD, -1)>>
       [] n = "pw_kbd" -> <<M(PW, -1), M(KBD, -1)>>
       [] n = "rpw2_kbd" -> <<M(PW, 2), M(KBD, -1)>>
       [] n = "rkbd0_pw" -> <<M(KBD, 0), M(PW, 3)>>
       [] n = "pk_ed" -> <<MPk(-1, <<SEd1>>)>>
       [] n = "pk_edcert_pw" -> <<MPk(-1, <<SEdCert1>>), M(PW, -1)>>
       [] n = "pk_rsa_pw" -> <<MPk(-1, <<SRsa1>>), M(PW, -1)>>
       [] n = "pk_alg_edcert" -> <<MPk(-1, <<SRsa1Alg, SEdCert1>>)>>
       [] n = "pk_cert_ed_pw" -> <<MPk(-1, <<SCert1, SEd1>>), M(PW, -1)>>
       [] n = "kbd_pk3" -> <<M(KBD, -1), MPk(-1, <<SRsa1R512, SCert2Pl, SEd2>>)>>
       [] n = "rpk2_pw" -> <<MPk(2, <<SEd1, SRsa2Old>>), M(PW, -1)>>
       [] n = "pk_pk" -> <<MPk(-1, <<SEd1>>), MPk(-1, <<SRsa1>>), M(KBD, 1)>>
       [] n = "pk_2entries" -> <<MPk(-1, <<SEd1>>), M(KBD, -1), MPk(-1, <<SRsa1>>)>>
       [] n = "pk_certalg_pl" -> <<MPk(-1, <<SCert1Alg, SRsa2Pl>>)>>
       [] n = "pk_pref" -> <<MPk(-1, <<SRsa2Pref, SCert1>>), M(PW, -1)>>
       [] n = "o1" -> <<MPk(-1, <<SRsa1R512, SRsa2R256, SEd1>>), M(PW, -1)>>
       [] n = "o1cert" -> <<MPk(-1, <<SCert1New, SRsa2Pref>>)>>]

\* configurations without / with a RetryableAuthMethod
\* ---- the grid: real client against the real Go server (model: srv.name # "")
GridConfigs ==
  [n \in {"g_pw_good", "g_pw_bad", "g_rpw_bad", "g_kbd_good", "g_kbd_bad", "g_pk_ed", "g_pk_rsa", "g_pk_rsacert",
          "g_pk_edcert", "g_pk_ec256", "g_pk_ec384", "g_pk_ec521", "g_pk_eccert", "g_pk_rsa512", "g_pk_rsaplain",
          "g_pk_rsaold", "g_pk_certplain", "g_pk_multi", "g_all", "g_all_rev", "g_pwbad_pk", "g_second_pw",
          "g_rkbd_pk", "g_o1"} |->
     CASE n = "g_pw_good" -> <<MC(PW, -1, "good")>>
       [] n = "g_pw_bad" -> <<MC(PW, -1, "bad")>>
       [] n = "g_rpw_bad" -> <<MC(PW, 3, "bad"), MC(KBD, -1, "good")>>
       [] n = "g_kbd_good" -> <<MC(KBD, -1, "good")>>
       [] n = "g_kbd_bad" -> <<MC(KBD, -1, "bad")>>
       [] n = "g_pk_ed" -> <<MPk(-1, <<SEd1>>)>>
       [] n = "g_pk_rsa" -> <<MPk(-1, <<SRsa1>>)>>
       [] n = "g_pk_rsacert" -> <<MPk(-1, <<SCert1>>)>>
       [] n = "g_pk_edcert" -> <<MPk(-1, <<SEdCert1>>)>>
       [] n = "g_pk_ec256" -> <<MPk(-1, <<SEc256>>)>>
       [] n = "g_pk_ec384" -> <<MPk(-1, <<SEc384>>)>>
       [] n = "g_pk_ec521" -> <<MPk(-1, <<SEc521>>)>>
       [] n = "g_pk_eccert" -> <<MPk(-1, <<SEcCert1>>)>>
       [] n = "g_pk_rsa512" -> <<MPk(-1, <<SRsa1R512>>)>>
       [] n = "g_pk_rsaplain" -> <<MPk(-1, <<SRsa2Pl>>)>>
       [] n = "g_pk_rsaold" -> <<MPk(-1, <<SRsa2Old>>)>>
       [] n = "g_pk_certplain" -> <<MPk(-1, <<SCert2Pl>>)>>
       [] n = "g_pk_multi" -> <<MPk(-1, <<SEd2, SRsa2Pref, SCert1Alg>>)>>
       [] n = "g_all" -> <<MPk(-1, <<SEd1, SRsa1>>), MC(PW, -1, "good"), MC(KBD, -1, "good")>>
       [] n = "g_all_rev" -> <<MC(KBD, -1, "good"), MC(PW, -1, "good"), MPk(-1, <<SRsa1, SEc256, SEd1>>)>>
       [] n = "g_pwbad_pk" -> <<MC(PW, -1, "bad"), MPk(-1, <<SEd1>>)>>
       [] n = "g_second_pw" -> <<MC(PW, -1, "bad"), MC(PW, -1, "good")>>
       [] n = "g_rkbd_pk" -> <<MC(KBD, 2, "good"), MPk(2, <<SEcCert1, SEdCert1>>)>>
       [] n = "g_o1" -> <<MPk(-1, <<SRsa1R512, SRsa2R256, SEd1>>), MC(PW, -1, "good")>>]
AllConfigs == [n \in (DOMAIN MCConfigs) \cup (DOMAIN GridConfigs) |-> IF n \in DOMAIN MCConfigs THEN MCConfigs[n] ELSE GridConfigs[n]]
NamesGrid == DOMAIN GridConfigs

AlgsFull   == <<ED, EC256, EC384, EC521, R256, R512, RSA>>
AlgsNoSha1 == <<ED, EC256, EC384, EC521, R256, R512>>
Algs512    == <<R512, ED>>
AlgsSha1   == <<RSA, EC384>>
AllKeys == {"ed1", "ed2", "rsa1", "rsa2", "rsacert1", "rsacert2", "edcert1", "ec256", "ec384", "ec521", "eccert1"}
St(pw, kbd, pkon, pk, next) == [pw |-> pw, kbd |-> kbd, pkon |-> pkon, pk |-> pk, next |-> next]
Sv(algs, stages) == [algs |-> algs, stages |-> stages]
GridServers ==
  [n \in {"", "s_pw", "s_kbd", "s_kbdrej", "s_pk_all", "s_pk_nosha1", "s_pk_512", "s_pk_sha1", "s_pk_ed1", "s_any",
          "s_pw_pk", "s_pk_kbd", "s_pk_pk", "s_chain3", "s_pwx_pw", "s_chain4"} |->
     CASE n = "s_pw" -> Sv(AlgsFull, <<St("good", "none", FALSE, {}, 0)>>)
       [] n = "s_kbd" -> Sv(AlgsFull, <<St("", "accept", FALSE, {}, 0)>>)
       [] n = "s_kbdrej" -> Sv(AlgsFull, <<St("", "reject", FALSE, {}, 0)>>)
       [] n = "s_pk_all" -> Sv(AlgsFull, <<St("", "none", TRUE, AllKeys, 0)>>)
       [] n = "s_pk_nosha1" -> Sv(AlgsNoSha1, <<St("", "none", TRUE, AllKeys, 0)>>)
       [] n = "s_pk_512" -> Sv(Algs512, <<St("", "none", TRUE, AllKeys, 0)>>)
       [] n = "s_pk_sha1" -> Sv(AlgsSha1, <<St("", "none", TRUE, AllKeys, 0)>>)
       [] n = "s_pk_ed1" -> Sv(AlgsFull, <<St("", "none", TRUE, {"ed1"}, 0)>>)
       [] n = "s_any" -> Sv(AlgsFull, <<St("good", "accept", TRUE, AllKeys, 0)>>)
       [] n = "s_pw_pk" -> Sv(AlgsFull, <<St("good", "none", FALSE, {}, 2), St("", "none", TRUE, AllKeys, 0)>>)
       [] n = "s_pk_kbd" -> Sv(AlgsNoSha1, <<St("", "none", TRUE, AllKeys, 2), St("", "accept", FALSE, {}, 0)>>)
       [] n = "s_pk_pk" -> Sv(AlgsFull, <<St("", "none", TRUE, {"ed1", "rsacert1", "ec256", "eccert1"}, 2),
                                         St("", "none", TRUE, {"rsa1", "ed2", "edcert1", "rsa2"}, 0)>>)
       [] n = "s_chain3" -> Sv(AlgsFull, <<St("good", "none", FALSE, {}, 2), St("", "accept", FALSE, {}, 3),
                                          St("", "none", TRUE, AllKeys, 0)>>)
       [] n = "s_pwx_pw" -> Sv(AlgsFull, <<St("other", "none", TRUE, AllKeys, 2), St("good", "none", FALSE, {}, 0)>>)
       [] n = "s_chain4" -> Sv(Algs512, <<St("", "none", TRUE, AllKeys, 2), St("good", "reject", FALSE, {}, 3),
                                         St("", "accept", TRUE, {}, 4), St("good", "none", TRUE, {"ed1", "ed2"}, 0)>>)
       [] OTHER -> Sv(<<>>, <<>>)]
SrvScript == {""}
SrvBoth == DOMAIN GridServers
SrvGrid == (DOMAIN GridServers) \ {""}

NamesMain  == {"pw", "kbd", "pw_kbd", "pk_ed", "pk_edcert_pw", "pk_rsa_pw", "pk_alg_edcert", "pk_cert_ed_pw",
               "kbd_pk3", "pk_2entries", "pk_certalg_pl", "pk_pref"}
NamesRetry == {"rpw2_kbd", "rkbd0_pw", "rpk2_pw", "pk_pk"}
NamesAll   == NamesMain \cup NamesRetry
NamesSmall == {"pw_kbd", "pk_cert_ed_pw", "kbd_pk3", "pk_pref"}
NamesO1    == {"o1", "o1cert"}
NamesLong  == {"long_pw", "long_rpw2_kbd"}
NamesLong1 == {"long_pw"}
NamesQuick == {"pw_kbd", "rpw2_kbd", "pk_ed", "pk_edcert_pw", "pk_rsa_pw", "pk_cert_ed_pw", "kbd_pk3", "rpk2_pw", "pk_pref", "pk_certalg_pl", "o1", "o1cert"}
NamesFocus == {"f_pk_pw", "f_pk2_pw", "f_pk_pk_pw", "f_rpk2_pw", "f_rpw2_pk", "f_kbd_pk2"}
NamesFocusRetry == {"f_rpk2_pw"}
NamesRetryPk == {"rpk2_pw", "f_rpk2_pw"}
NamesQuickAll == NamesQuick \cup NamesLong1 \cup NamesGrid \cup NamesFocus
NamesThorough == NamesAll \cup NamesO1 \cup NamesLong \cup NamesFocus
NamesNoLong == NamesAll \cup NamesO1
NoNames == {}
NamesBound == {"pw", "pw_kbd", "pk_cert_ed_pw", "pk_2entries"}

It(name, pkts) == [name |-> name, pkts |-> pkts]
RECURSIVE Join(_)
Join(l) == IF l = <<>> THEN "" ELSE IF Len(l) = 1 THEN l[1] ELSE l[1] \o "," \o Join(Tail(l))

\* ---- preambles
ExtValues == {<<>>, <<R256>>, <<R512, ED>>, <<R512, R256, RSA, ED>>, <<RSA>>}
PreGood == {It("accept", <<PAccept>>), It("extother+accept", <<PExtOther, PAccept>>)}
             \cup {It("ext[" \o Join(a) \o "]+accept", <<PExt(a), PAccept>>) : a \in ExtValues}
PreBad  == {It("unexpected", <<PUnexp>>), It("ext+ext", <<PExt(<<R256>>), PExt(<<R512>>), PAccept>>),
            It("disconnect", <<PDisc>>), It("silent", <<>>), It("ext+silent", <<PExt(<<R256>>)>>)}
PreAll  == PreGood \cup PreBad
PreQuick == {It("accept", <<PAccept>>), It("ext[" \o Join(<<R512, ED>>) \o "]+accept", <<PExt(<<R512, ED>>), PAccept>>),
             It("ext[" \o Join(<<R512, R256, RSA, ED>>) \o "]+accept", <<PExt(<<R512, R256, RSA, ED>>), PAccept>>),
             It("ext[" \o Join(<<RSA>>) \o "]+accept", <<PExt(<<RSA>>), PAccept>>),
             It("ext+ext", <<PExt(<<R256>>), PExt(<<R512>>), PAccept>>), It("disconnect", <<PDisc>>)}
PreQuick4 == {It("accept", <<PAccept>>), It("ext[" \o Join(<<R512, ED>>) \o "]+accept", <<PExt(<<R512, ED>>), PAccept>>),
              It("ext[" \o Join(<<R512, R256, RSA, ED>>) \o "]+accept", <<PExt(<<R512, R256, RSA, ED>>), PAccept>>),
              It("ext+ext", <<PExt(<<R256>>), PExt(<<R512>>), PAccept>>)}
PreSmall == {It("accept", <<PAccept>>), It("ext[" \o Join(<<R512, ED>>) \o "]+accept", <<PExt(<<R512, ED>>), PAccept>>),
             It("ext[" \o Join(<<R512, R256, RSA, ED>>) \o "]+accept", <<PExt(<<R512, R256, RSA, ED>>), PAccept>>)}

\* ---- response items
Lists == {<<>>, <<PW>>, <<KBD>>, <<PK>>, <<PW, KBD>>, <<PK, PW>>, <<KBD, PK>>, <<PK, KBD, PW>>, <<"hostbased", PK>>}
PartialLists == {<<PK>>, <<PK, KBD, PW>>, <<PW>>, <<KBD>>}
FailItems == {It("fail[" \o Join(l) \o "]", <<PFail(l, FALSE)>>) : l \in Lists}
               \cup {It("partial[" \o Join(l) \o "]", <<PFail(l, TRUE)>>) : l \in PartialLists}
PkokItems == {It("pkok same/same", <<PPkok("@same", "@same")>>), It("pkok same/fmt", <<PPkok("@same", "@fmt")>>),
              It("pkok same/cross", <<PPkok("@same", "@cross")>>),
              It("pkok same/foreign", <<PPkok("@same", "@foreign")>>), It("pkok other/same", <<PPkok("other", "@same")>>)}
OtherItems == {It("success", <<PSucc>>), It("inforeq1", <<PInfo(1)>>), It("inforeq0", <<PInfo(0)>>),
               It("disconnect", <<PDisc>>), It("unexpected", <<PUnexp>>), It("silent", <<>>)}
PrefixItems == {It("banner+fail[all]", <<PBanner, PFail(<<PK, KBD, PW>>, FALSE)>>),
                It("banner+pkok same/same", <<PBanner, PPkok("@same", "@same")>>),
                It("banner+banner+success", <<PBanner, PBanner, PSucc>>),
                It("banner+inforeq1", <<PBanner, PInfo(1)>>),
                It("ext+fail[all]", <<PExtMid, PFail(<<PK, KBD, PW>>, FALSE)>>),
                It("ext+success", <<PExtMid, PSucc>>),
                It("ext+inforeq1", <<PExtMid, PInfo(1)>>),
                It("ext+pkok same/same", <<PExtMid, PPkok("@same", "@same")>>),
                It("ext+ext+success", <<PExtMid, PExtMid, PSucc>>),
                It("ext+banner+partial[all]", <<PExtMid, PBanner, PFail(<<PK, KBD, PW>>, TRUE)>>)}
ItemsQuick == {It("fail[" \o Join(l) \o "]", <<PFail(l, FALSE)>>) : l \in {<<>>, <<PW, KBD>>, <<PK, PW>>, <<KBD, PK>>, <<PK, KBD, PW>>}}
                \cup {It("partial[" \o Join(l) \o "]", <<PFail(l, TRUE)>>) : l \in {<<PK, KBD, PW>>, <<PW>>}}
                \cup PkokItems
                \cup {It("success", <<PSucc>>), It("inforeq1", <<PInfo(1)>>), It("disconnect", <<PDisc>>), It("unexpected", <<PUnexp>>),
                      It("banner+pkok same/same", <<PBanner, PPkok("@same", "@same")>>),
                      It("ext+fail[all]", <<PExtMid, PFail(<<PK, KBD, PW>>, FALSE)>>),
                      It("ext+ext+success", <<PExtMid, PExtMid, PSucc>>),
                      It("ext+pkok same/same", <<PExtMid, PPkok("@same", "@same")>>)}
ItemsAll == FailItems \cup PkokItems \cup OtherItems \cup PrefixItems
ItemsSmall == {It("fail[" \o Join(l) \o "]", <<PFail(l, FALSE)>>) : l \in {<<PK, KBD, PW>>, <<PK>>, <<PW, KBD>>}}
                \cup {It("partial[" \o Join(l) \o "]", <<PFail(l, TRUE)>>) : l \in {<<PK, KBD, PW>>}}
                \cup {It("pkok same/same", <<PPkok("@same", "@same")>>), It("pkok same/fmt", <<PPkok("@same", "@fmt")>>),
                      It("pkok same/cross", <<PPkok("@same", "@cross")>>),
                      It("pkok other/same", <<PPkok("other", "@same")>>), It("success", <<PSucc>>),
                      It("inforeq1", <<PInfo(1)>>), It("unexpected", <<PUnexp>>),
                      It("ext+fail[all]", <<PExtMid, PFail(<<PK, KBD, PW>>, FALSE)>>)}
\* the 64-attempt bound: a server that keeps answering "partial success, password and
\* keyboard-interactive can continue"
ItemsLong == {It("partial[" \o Join(<<PW, KBD>>) \o "]", <<PFail(<<PW, KBD>>, TRUE)>>), It("inforeq1", <<PInfo(1)>>)}
ItemsLong1 == {It("partial[" \o Join(<<PW>>) \o "]", <<PFail(<<PW>>, TRUE)>>)}
PreLong == {It("accept", <<PAccept>>)}
\* focus group: method lists that change between consecutive failures inside one AuthMethod's run
ItemsFocus == {It("fail[" \o Join(l) \o "]", <<PFail(l, FALSE)>>) : l \in {<<PK, PW>>, <<PK>>, <<KBD, PK>>, <<PW>>}}
                \cup {It("pkok same/same", <<PPkok("@same", "@same")>>), It("success", <<PSucc>>)}
ItemsFocusDeep == {It("fail[" \o Join(l) \o "]", <<PFail(l, FALSE)>>) : l \in {<<PK, PW>>, <<PK>>}}
                    \cup {It("pkok same/same", <<PPkok("@same", "@same")>>)}
PreFocus == {It("accept", <<PAccept>>)}

=============================================================================
