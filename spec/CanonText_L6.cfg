SPECIFICATION Spec
CONSTANTS
  Alphabet <- Alpha3
  MaxLen = 6
INVARIANTS ChunkInvariant PrefixInvariant CRLFUnchanged Emit
CHECK_DEADLOCK FALSE
