SPECIFICATION Spec
CONSTANTS
  MaxSrv = 2
  MaxCli = 1
  ReqBuf = 16
  Cfgs <- AllCfgs
  Lite = "full"
INVARIANTS TypeOK S1_ExitResult S2_Conservation S2_NoDataLoss S3_StartOnce S5_StdinEOF S6_StartFailure S7_ReplyValue S8_NoStuckCall S9_NoStall
VIEW View
CHECK_DEADLOCK FALSE
