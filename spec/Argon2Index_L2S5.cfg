SPECIFICATION Spec
CONSTANTS
  Lanes = 2
  SegLen = 5
  Passes = 3
  Variant = "rfc"
INVARIANTS TypeOK AreaAgrees BlockAgrees RefWritten NoRace FirstSlice Complete
CHECK_DEADLOCK FALSE
