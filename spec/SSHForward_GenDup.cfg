SPECIFICATION GenSpec
CONSTANTS
  Listeners <- L_Dup
  Targets <- T_Dup
  TNet <- CTNet
  LAddr <- A_Dup
  PreReg <- Reg_L1L2
  MaxOpens = 3
  Cap = 1
  MaxHist = 5
CHECK_DEADLOCK FALSE
INVARIANT Emit
