SPECIFICATION Spec
CONSTANTS
  KeyBytes = 72
  Templates <- TemplatesT
  Repl <- ReplT
  Pos2 <- Pos2T
  Repl2 <- Repl2T
INVARIANTS GrammarAccepted NeverAcceptsWrongKey Total CostIgnoresTail OnlyOwnHash EmitB
CHECK_DEADLOCK FALSE
