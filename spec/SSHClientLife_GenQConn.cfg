SPECIFICATION GenSpec
CONSTANTS
  MaxPeer = 2
  MaxLocal = 2
  MaxDial = 0
  MaxGReq = 0
  MaxIn = 0
  MaxReg = 0
  Configs <- CfgConn
  Alpha = "conn"
  Races = TRUE
  CloseLate = TRUE
VIEW AbsView
CHECK_DEADLOCK FALSE
