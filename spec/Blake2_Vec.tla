----------------------------- MODULE Blake2_Vec -----------------------------
(***************************************************************************)
(* C05 / C06, binding E: TLC evaluates the executable RFC 7693 / BLAKE2X   *)
(* definitions (PrimBlake2) on the enumerated cases and prints the         *)
(* expected bytes; the Go harness compares the real blake2b/blake2s        *)
(* packages (every dispatch variant) with them and validates its           *)
(* transcription harness/c05ref against them in the same run.              *)
(* A case is [t, a, k, ks, m, ms, from, n]:                                *)
(*   t = "b"/"s": digest of size a, key Pat(ks, k), message Pat(ms, m);    *)
(*   t = "xb"/"xs": XOF with declared length a (-1 unknown), key           *)
(*       Pat(ks, k), message Pat(ms, m), output bytes [from, from+n).      *)
(* The two-level Next (root -> group -> case) only spreads the evaluation  *)
(* over TLC's workers.                                                     *)
(***************************************************************************)
EXTENDS PrimBlake2, TLC, Json

CONSTANTS Cases, Groups
VARIABLE c
Case(t, a, k, ks, m, ms, from, n) == [t |-> t, a |-> a, k |-> k, ks |-> ks, m |-> m, ms |-> ms, from |-> from, n |-> n]
Root == Case("root", 0, 0, 0, 0, 0, 0, 0)
GroupOf(x) == (x.a + 3 * x.k + 5 * x.m + 7 * x.from + x.ks) % Groups
Init == c = Root
Next == \/ c = Root /\ \E g \in 0..(Groups - 1) : c' = Case("group", g, 0, 0, 0, 0, 0, 0)
        \/ c.t = "group" /\ \E x \in Cases : GroupOf(x) = c.a /\ c' = x
Spec == Init /\ [][Next]_c

Value(x) ==
  LET key == Pat(x.ks, x.k)
      msg == Pat(x.ms, x.m)
  IN CASE x.t = "b"  -> Blake2b(x.a, key, msg)
       [] x.t = "s"  -> Blake2s(x.a, key, msg)
       [] x.t = "xb" -> XofSliceB(x.a, key, msg, x.from, x.n)
       [] x.t = "xs" -> XofSliceS(x.a, key, msg, x.from, x.n)

Emit == (c.t \notin {"root", "group"}) =>
          PrintT("TRACE " \o ToJson([t |-> c.t, a |-> c.a, k |-> c.k, ks |-> c.ks, m |-> c.m, ms |-> c.ms,
                                     from |-> c.from, n |-> c.n, bytes |-> Value(c)]))

KS == 7     \* key pattern seed
MS == 23    \* message pattern seed
H(t, a, k, m) == Case(t, a, k, KS, m, MS, 0, 0)
X(t, L, k, m, from, n) == Case(t, L, k, KS, m, MS, from, n)

\* ---- C05 ---------------------------------------------------------------
BLens == {0, 1, 127, 128, 129, 255, 256, 257}
SLens == {0, 1, 63, 64, 65, 127, 128, 129}
BLensQ == {0, 1, 127, 128, 129, 257}
SLensQ == {0, 1, 63, 64, 65, 129}
C05Quick ==
       { H("b", p[1], p[2], m) : p \in {<<64, 0>>, <<32, 0>>, <<1, 64>>, <<20, 1>>, <<64, 64>>, <<48, 32>>}, m \in BLensQ }
  \cup { H("s", p[1], p[2], m) : p \in {<<32, 0>>, <<32, 32>>, <<16, 16>>, <<16, 1>>}, m \in SLensQ }
  \cup { Case("b", 64, 64, 1, 129, 0, 0, 0), Case("b", 64, 0, 0, 128, 1, 0, 0),       \* all-ones key / all-zero, all-ones messages
         Case("s", 32, 32, 1, 65, 0, 0, 0), Case("s", 32, 0, 0, 64, 1, 0, 0) }
BLensT == BLens \cup {2, 64, 383, 384, 385, 640}
SLensT == SLens \cup {2, 32, 191, 192, 193, 320}
C05Thorough == C05Quick
  \cup { H("b", d, k, m) : d \in {1, 20, 32, 48, 64}, k \in {0, 1, 32, 64}, m \in BLensT }
  \cup { H("b", d, k, m) : d \in 1..64, k \in {0, 17}, m \in {0, 129} }
  \cup { H("b", 64, k, 5) : k \in 0..64 }
  \cup { H("s", 32, k, m) : k \in {0, 1, 16, 32}, m \in SLensT }
  \cup { H("s", 16, k, m) : k \in {1, 16, 32}, m \in SLensT }
  \cup { H("s", d, k, 5) : d \in {16, 32}, k \in 1..32 }

\* ---- C06 ---------------------------------------------------------------
C06Quick ==
       { X("xb", L, k, m, 0, L) : L \in {1, 63, 64, 65, 129}, k \in {0, 64}, m \in {0, 3} }
  \cup { X("xb", 1000, 0, 3, 950, 50), X("xb", 70000, 64, 3, 69950, 50), X("xb", 70000, 0, 130, 0, 70),
         X("xb", -1, 0, 3, 0, 130), X("xb", -1, 64, 0, 6390, 70) }
  \cup { X("xs", L, k, m, 0, L) : L \in {1, 31, 32, 33, 65}, k \in {0, 32}, m \in {0, 3} }
  \cup { X("xs", 1000, 0, 3, 960, 40), X("xs", 65534, 32, 3, 65500, 34), X("xs", 65534, 0, 70, 0, 40),
         X("xs", -1, 0, 3, 0, 70), X("xs", -1, 32, 0, 65530, 40), X("xs", -1, 0, 3, 131060, 40) }
C06Thorough == C06Quick
  \cup { X("xb", L, k, m, 0, L) : L \in {2, 31, 32, 33, 127, 128, 191, 192, 193, 300}, k \in {0, 1, 64}, m \in {0, 1, 128, 129} }
  \cup { X("xb", 1000, 32, 5, 0, 1000), X("xb", -1, 17, 129, 12800, 200), X("xb", 65535, 0, 1, 65400, 135), X("xb", 65536, 0, 1, 65400, 136) }
  \cup { X("xs", L, k, m, 0, L) : L \in {2, 15, 16, 17, 63, 64, 95, 96, 97, 200}, k \in {0, 1, 32}, m \in {0, 1, 64, 65} }
  \cup { X("xs", 1000, 16, 5, 0, 1000), X("xs", -1, 9, 65, 204700, 200), X("xs", 65534, 0, 1, 65400, 134), X("xs", 255, 0, 1, 0, 255), X("xs", 256, 0, 1, 0, 256) }
=============================================================================
