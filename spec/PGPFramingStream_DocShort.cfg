SPECIFICATION Spec
CONSTANTS
  MinFirst = 8
  MaxPow = 3
  Sizes <- SizesQ
  MaxWrites = 2
  ReadSizes <- ReadsQ
  EofStyles = {"separate"}
  CutAll = FALSE
  FixEof = TRUE
  FixShort = FALSE
  Tag = 11
  Crafted <- CraftedSet
INVARIANTS FirstChunkRFC

CHECK_DEADLOCK FALSE
