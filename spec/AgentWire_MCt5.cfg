SPECIFICATION Spec
CONSTANTS
  Keys = {"k1", "k2"}
  RSAKeys = {}
  Pass = {"p"}
  Lifetimes = {0}
  Ticks = {}
  Comments = {"a", "b"}
  Flags = {0}
  MaxLen = 0
  Conns <- One
  PipeConns <- None
  Callers <- Three
  MaxCalls = 1
  Budget = 3
  ReqMenu <- MenuAll
  NoMutex = FALSE
  LateEnqueue = FALSE
  ContinueAfterOversize = FALSE
  UnknownKills = FALSE
  Faults = FALSE
  Sticky = FALSE
INVARIANTS TypeOK OwnReply OneReplyInOrder LinInsideCall RejectGetsFailure ConnErrOnlyIfEnded EndsOnlyByBadFrame NoReplyToBadFrame
PROPERTIES AgentOnlyByServe FailureIsolated EndIsLocal 
VIEW View
CHECK_DEADLOCK FALSE
