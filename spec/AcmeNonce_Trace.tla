--------------------------- MODULE AcmeNonce_Trace ---------------------------
(* Binding T for C50: validates the event log recorded by the scripted fake ACME server
   (harness/acmefake) while the REAL acme.Client ran, against AcmeNonce.

   Logged (observable) events: cfg, call, head, headReply, post, postReply, backoff, ret.
   Unlogged client-internal critical sections (PopPool, AddNonce, Clear) are silent steps that
   TLC interleaves freely between logged events.  Every logged request must be one the model can
   make at that point (in particular: a POST's nonce must have left the pool / come from a HEAD,
   and the properties N1-N4 are checked as invariants on the states the recorded execution
   drives the model through); every return value must be the one the model derives. *)
EXTENDS AcmeNonce, TraceLib

TraceInit == InitCfg(TRUE, 0) /\ l = 1 /\ HWMInit

TReset == /\ IsEvent("reset")
          /\ hasNonceURL' = TRUE /\ pool' = {} /\ nextN' = 1
          /\ used' = {} /\ nrep' = 0 /\ mu' = NoOp
          /\ pc' = [o \in Ops |-> "idle"] /\ nonce' = [o \in Ops |-> 0] /\ tries' = [o \in Ops |-> 0]
          /\ phase' = [o \in Ops |-> 1] /\ posts' = [o \in Ops |-> 0]
          /\ budget' = [o \in Ops |-> 0] /\ phases' = [o \in Ops |-> 1] /\ stopv' = [o \in Ops |-> "zero"]
          /\ lastR' = [o \in Ops |-> NoReply] /\ res' = [o \in Ops |-> NoRes]
          /\ cancelled' = [o \in Ops |-> FALSE]
          /\ bad' = FALSE /\ late' = FALSE
          /\ ev' = E("init", 0, "", 0, 0)

\* configuration of the recorded run: newNonce advertised?  did discovery put a nonce in the pool?
TCfg == /\ IsEvent("cfg")
        /\ hasNonceURL' = Ev.nurl /\ pool' = 1..Ev.ip /\ nextN' = Ev.ip + 1
        /\ UNCHANGED <<used, nrep, mu, pc, nonce, tries, phase, posts, budget, phases, stopv, lastR, res, cancelled, bad, late, ev>>

TCall == IsEvent("call") /\ Ev.o \in Ops /\ Ev.sv \in {"zero", "neg"} /\ Call(Ev.o, Ev.b, Ev.p, Ev.sv)
THead == IsEvent("head") /\ Ev.o \in Ops /\ (HeadStart(Ev.o) \/ HeadStart2(Ev.o))
THeadReply == /\ IsEvent("headReply") /\ Ev.o \in Ops /\ Ev.k \in HeadKinds
              /\ HeadReply(Ev.o, Ev.k)
              /\ nrep' = Ev.s /\ lastR'[Ev.o].m = Ev.n
\* the POST the server received carries exactly the nonce the operation holds
TPost == /\ IsEvent("post") /\ Ev.o \in Ops
         /\ pc[Ev.o] = "send" /\ nonce[Ev.o] = Ev.n
         /\ Send(Ev.o)
TPostReply == /\ IsEvent("postReply") /\ Ev.o \in Ops /\ Ev.k \in PostKinds
              /\ PostReply(Ev.o, Ev.k)
              /\ nrep' = Ev.s /\ lastR'[Ev.o].m = Ev.n
TBackoff == /\ IsEvent("backoff") /\ Ev.o \in Ops
            /\ tries[Ev.o] = Ev.n
            /\ Backoff(Ev.o, Ev.k)
\* the caller got the class of result the model derives, from the reply the model says (N3);
\* the operation id is then free for the next public call of the recorded session
TRet == /\ IsEvent("ret") /\ Ev.o \in Ops
        /\ pc[Ev.o] = "done"
        /\ res[Ev.o].c = Ev.c
        /\ Ev.s >= 0 => res[Ev.o].s = Ev.s
        /\ pc' = [pc EXCEPT ![Ev.o] = "idle"]
        /\ nonce' = [nonce EXCEPT ![Ev.o] = 0] /\ tries' = [tries EXCEPT ![Ev.o] = 0]
        /\ phase' = [phase EXCEPT ![Ev.o] = 1] /\ posts' = [posts EXCEPT ![Ev.o] = 0]
        /\ lastR' = [lastR EXCEPT ![Ev.o] = NoReply] /\ res' = [res EXCEPT ![Ev.o] = NoRes]
        /\ cancelled' = [cancelled EXCEPT ![Ev.o] = FALSE]
        /\ UNCHANGED <<hasNonceURL, nextN, used, nrep, pool, mu, budget, phases, stopv, bad, late, ev>>

TSilent == /\ \E o \in Ops : PopPool(o) \/ AddNonce(o) \/ Clear(o)
           /\ l' = l

TraceNext == TReset \/ TCfg \/ TCall \/ THead \/ THeadReply \/ TPost \/ TPostReply \/ TBackoff \/ TRet \/ TSilent
TraceSpec == TraceInit /\ [][TraceNext]_<<vars, l>>
=============================================================================
