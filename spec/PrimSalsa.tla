----------------------------- MODULE PrimSalsa -----------------------------
(***************************************************************************)
(* Layer P (binding E): the Salsa20 family as executable TLA+ definitions  *)
(* evaluated by TLC (property C09; reused by SecretBox for C10):           *)
(*                                                                         *)
(*   quarterround / rowround / columnround / doubleround and the           *)
(*   Salsa20 hash ("core") of D. J. Bernstein, "Salsa20 specification"     *)
(*   (https://cr.yp.to/snuffle/spec.pdf) sections 3-8, with 20 and with 8  *)
(*   rounds (Salsa20/8 core = salsa.Core208, RFC 7914 section 3);          *)
(*   the 32-byte-key expansion (section 9) and the encryption function     *)
(*   (section 10) whose 16-byte "counter block" is nonce (8 bytes) ||      *)
(*   64-bit little-endian block counter, incremented mod 2^64;             *)
(*   HSalsa20 and XSalsa20 of "Extending the Salsa20 nonce"                *)
(*   (https://cr.yp.to/snuffle/xsalsa-20081128.pdf) section 2.             *)
(*                                                                         *)
(* This is the byte oracle against which /repo/salsa20 (XORKeyStream),     *)
(* /repo/salsa20/salsa (XORKeyStream: salsa20_amd64.s and                  *)
(* genericXORKeyStream of salsa20_ref.go; HSalsa20; Core208) are compared. *)
(* It is deliberately the textbook algorithm (state = 16 words, no         *)
(* unrolling, no SIMD lanes).  Words are pairs of 16-bit limbs             *)
(* (PrimWords); the 64-bit block counter is four 16-bit limbs, so carries  *)
(* at 2^16, 2^32, 2^48 and the wrap at 2^64 are all expressible.           *)
(* The ASSUMEs at the end are published vectors: a wrong module refuses    *)
(* to run.                                                                 *)
(***************************************************************************)
EXTENDS PrimWords, SequencesExt

\* quarterround(y_a, y_b, y_c, y_d) applied in place to the 16-word state s (spec section 3):
\*   z_b = y_b xor ((y_a + y_d) <<< 7),  z_c = y_c xor ((z_b + y_a) <<< 9),
\*   z_d = y_d xor ((z_c + z_b) <<< 13), z_a = y_a xor ((z_d + z_c) <<< 18)
SQR(s, a, b, c, d) ==
  LET zb == Xor32(s[b], Rotl32(Add32(s[a], s[d]), 7))
      zc == Xor32(s[c], Rotl32(Add32(zb, s[a]), 9))
      zd == Xor32(s[d], Rotl32(Add32(zc, zb), 13))
      za == Xor32(s[a], Rotl32(Add32(zd, zc), 18))
  IN [s EXCEPT ![a] = za, ![b] = zb, ![c] = zc, ![d] = zd]

\* section 4 (rowround) and section 5 (columnround); section 6: doubleround = rowround o columnround
RowRound(s) == SQR(SQR(SQR(SQR(s, 0, 1, 2, 3), 5, 6, 7, 4), 10, 11, 8, 9), 15, 12, 13, 14)
ColumnRound(s) == SQR(SQR(SQR(SQR(s, 0, 4, 8, 12), 5, 9, 13, 1), 10, 14, 2, 6), 15, 3, 7, 11)
SDoubleRound(s) == RowRound(ColumnRound(s))

RECURSIVE SRounds(_, _)
SRounds(s, n) == IF n = 0 THEN s ELSE SRounds(SDoubleRound(s), n - 1)

WordsOf(b64) == [i \in 0..15 |-> LE32(b64, 4 * i + 1)]
BytesOfWords(w, idx) == FlattenSeq([i \in 1..Len(idx) |-> Bytes32(w[idx[i]])])
AllIdx == <<0, 1, 2, 3, 4, 5, 6, 7, 8, 9, 10, 11, 12, 13, 14, 15>>

\* section 8: the Salsa20 hash of a 64-byte string with 2*dr rounds: x + doubleround^dr(x)
CoreHash(b64, dr) ==
  LET x == WordsOf(Force(b64))
      z == SRounds(x, dr)
  IN BytesOfWords([i \in 0..15 |-> Add32(x[i], z[i])], AllIdx)

Salsa20Hash(b64) == CoreHash(b64, 10)
\* Salsa20/8 core (RFC 7914 section 3): salsa.Core208
Core208(b64) == CoreHash(b64, 4)

\* "expand 32-byte k"
Sigma == <<101, 120, 112, 97, 110, 100, 32, 51, 50, 45, 98, 121, 116, 101, 32, 107>>

\* section 9 (32-byte key): (c0, k[0..15], c1, in[0..15], c2, k[16..31], c3); c is the 16-byte constant
Layout(key, in16, c) ==
  SubSeq(c, 1, 4) \o SubSeq(key, 1, 16) \o SubSeq(c, 5, 8) \o in16 \o SubSeq(c, 9, 12) \o SubSeq(key, 17, 32) \o SubSeq(c, 13, 16)

\* Salsa20_k(in16): one 64-byte keystream block for the 16-byte counter block in16
SalsaBlock(key, in16) == Salsa20Hash(Layout(Force(key), Force(in16), Sigma))

\* HSalsa20 (xsalsa section 2): 20 rounds, no feed-forward, words z0 z5 z10 z15 z6 z7 z8 z9.
\* salsa.HSalsa20 takes the constant as a parameter, so it is one here too.
HSalsa20C(key, in16, c) ==
  BytesOfWords(SRounds(WordsOf(Layout(Force(key), Force(in16), Force(c))), 10), <<0, 5, 10, 15, 6, 7, 8, 9>>)
HSalsa20(key, in16) == HSalsa20C(key, in16, Sigma)

(***************************************************************************)
(* The 16-byte counter block: bytes 1..8 nonce, bytes 9..16 the block      *)
(* counter, little-endian, 64 bits.  CtrAdd(cb, k) adds the natural        *)
(* k < 2^31 to the counter mod 2^64 (limb ripple carry; the final carry    *)
(* is dropped: the counter wraps, there is no exhaustion error in Salsa20).*)
(***************************************************************************)
CtrLimbs(cb) == [j \in 0..3 |-> cb[9 + 2 * j] + 256 * cb[10 + 2 * j]]
CtrAdd(cb, k) ==
  LET l  == CtrLimbs(cb)
      t0 == l[0] + (k % 65536)
      t1 == l[1] + (k \div 65536) + (t0 \div 65536)
      t2 == l[2] + (t1 \div 65536)
      t3 == l[3] + (t2 \div 65536)
      n  == <<t0 % 65536, t1 % 65536, t2 % 65536, t3 % 65536>>
  IN SubSeq(cb, 1, 8) \o FlattenSeq([j \in 1..4 |-> <<n[j] % 256, n[j] \div 256>>])

\* section 10: keystream blocks j = 0 .. nb-1 of the stream whose first block has counter block cb
SKSBlocks(key, cb, nb) == FlattenSeq([j \in 1..nb |-> SalsaBlock(key, CtrAdd(cb, j - 1))])
\* the first n keystream bytes
SKS(key, cb, n) == IF n = 0 THEN <<>> ELSE SubSeq(SKSBlocks(key, cb, (n + 63) \div 64), 1, n)

\* Salsa20 with an 8-byte nonce: counter starts at 0.  XSalsa20 (24-byte nonce):
\* subkey = HSalsa20(key, nonce[0..15]), counter block = nonce[16..23] || 0^8.
SEffKey(key, nonce) == IF Len(nonce) = 24 THEN HSalsa20(key, SubSeq(nonce, 1, 16)) ELSE key
SEffBlock(nonce) == (IF Len(nonce) = 24 THEN SubSeq(nonce, 17, 24) ELSE nonce) \o Zeros(8)
\* salsa20.XORKeyStream(out, in, nonce, key)
SalsaXOR(key, nonce, in) == IF Len(in) = 0 THEN <<>> ELSE XorBytes(in, SKS(SEffKey(key, nonce), SEffBlock(nonce), Len(in)))

(***************************************************************************)
(* Published vectors                                                       *)
(***************************************************************************)
OneWord(i, w) == [j \in 0..15 |-> IF j = i THEN w ELSE <<0, 0>>]
\* spec section 3: quarterround(1,0,0,0) = (0x08008145, 0x00000080, 0x00010200, 0x20500000)
ASSUME LET q == SQR(OneWord(0, <<0, 1>>), 0, 1, 2, 3) IN
         /\ q[0] = <<2048, 33093>> /\ q[1] = <<0, 128>> /\ q[2] = <<1, 512>> /\ q[3] = <<8272, 0>>
\* spec section 3: quarterround(0xe7e8c006, 0xc4f9417d, 0x6479b4b2, 0x68c67137)
\*               = (0xe876d72b, 0x9361dfd5, 0xf1460244, 0x948541a3)
ASSUME LET s == [j \in 0..15 |-> CASE j = 0 -> <<59368, 49158>> [] j = 1 -> <<50425, 16765>>
                                   [] j = 2 -> <<25721, 46258>> [] j = 3 -> <<26822, 28983>> [] OTHER -> <<0, 0>>]
           q == SQR(s, 0, 1, 2, 3) IN
         /\ q[0] = <<59510, 55083>> /\ q[1] = <<37729, 57301>> /\ q[2] = <<61766, 580>> /\ q[3] = <<38021, 16803>>

\* spec section 8, second example
SpecHashIn ==
  << 211,159,13,115, 76,55,82,183, 3,117,222,37, 191,187,234,136, 49,237,179,48, 1,106,178,219, 175,199,166,48, 86,16,179,207,
     31,240,32,63, 15,83,93,161, 116,147,48,113, 238,55,204,36, 79,201,235,79, 3,81,156,47, 203,26,244,243, 88,118,104,54 >>
SpecHashOut ==
  << 109,42,178,168, 156,240,248,238, 168,196,190,203, 26,110,170,154, 29,29,150,26, 150,30,235,249, 190,163,251,48, 69,144,51,57,
     118,40,152,157, 180,57,27,94, 107,42,236,35, 27,111,114,114, 219,236,232,135, 111,155,110,18, 24,232,95,158, 179,19,48,202 >>
ASSUME Salsa20Hash(Zeros(64)) = Zeros(64)
ASSUME Salsa20Hash(SpecHashIn) = SpecHashOut

\* spec section 9: k0 = 1..16, k1 = 201..216, n = 101..116
SpecExpKey == [i \in 1..32 |-> IF i <= 16 THEN i ELSE 184 + i]
SpecExpIn == [i \in 1..16 |-> 100 + i]
SpecExpOut ==
  << 69,37,68,39, 41,15,107,193, 255,139,122,6, 170,233,217,98, 89,144,182,106, 21,51,200,65, 239,49,222,34, 215,114,40,126,
     104,197,7,225, 197,153,31,2, 102,78,76,176, 84,245,246,184, 177,160,133,130, 6,72,149,119, 192,195,132,236, 234,103,246,74 >>
ASSUME SalsaBlock(SpecExpKey, SpecExpIn) = SpecExpOut

\* RFC 7914 section 8: Salsa20/8 core
Rfc7914In ==
  << 126,135,154,33, 79,62,201,134, 124,169,64,230, 65,113,143,38, 186,238,85,91, 140,97,193,181, 13,248,70,17, 109,205,59,29,
     238,36,243,25, 223,155,61,133, 20,18,30,75, 90,197,170,50, 118,2,29,41, 9,199,72,41, 237,235,198,141, 184,184,194,94 >>
Rfc7914Out ==
  << 164,31,133,156, 102,8,204,153, 59,129,202,203, 2,12,239,5, 4,75,33,129, 162,253,51,125, 253,123,28,99, 150,104,47,41,
     180,57,49,104, 227,201,230,188, 254,107,197,183, 160,109,150,186, 228,36,204,16, 44,145,116,92, 36,173,103,61, 199,97,143,129 >>
ASSUME Core208(Rfc7914In) = Rfc7914Out

\* "Cryptography in NaCl" (D. J. Bernstein), section 8 (testing: box vs. secretbox): shared secret ->
\* firstkey = HSalsa20(shared, 0^16); secondkey = HSalsa20(firstkey, nonce[0..15]);
\* section 9: the XSalsa20 stream under firstkey with the 24-byte nonce starts ee a6 a7 25 1c 1e 72 91 ...
NaClShared == << 74,93,157,91, 164,206,45,225, 114,142,59,244, 128,53,15,37, 224,126,33,201, 71,209,158,51, 118,240,155,60, 30,22,23,66 >>
NaClFirstKey == << 27,39,85,100, 115,233,133,212, 98,205,81,25, 122,154,70,199, 96,9,84,158, 172,100,116,242, 6,196,238,8, 68,246,131,137 >>
NaClNonce == << 105,105,110,233, 85,182,43,115, 205,98,189,168, 117,252,115,214, 130,25,224,3, 107,122,11,55 >>
NaClSecondKey == << 220,144,141,218, 11,147,68,169, 83,98,155,115, 56,32,119,136, 128,243,206,180, 33,187,97,185, 28,189,76,62, 102,37,108,228 >>
NaClStream32 == << 238,166,167,37, 28,30,114,145, 109,17,194,203, 33,77,60,37, 37,57,18,29, 142,35,78,101, 45,101,31,164, 200,207,248,128 >>
ASSUME HSalsa20(NaClShared, Zeros(16)) = NaClFirstKey
ASSUME HSalsa20(NaClFirstKey, SubSeq(NaClNonce, 1, 16)) = NaClSecondKey
ASSUME SKS(SEffKey(NaClFirstKey, NaClNonce), SEffBlock(NaClNonce), 32) = NaClStream32

\* counter arithmetic: 2^32-1 + 1 carries into the high word; 2^64-1 + 2 wraps to 1; the nonce is untouched
ASSUME CtrAdd(<<1,2,3,4,5,6,7,8, 255,255,255,255,0,0,0,0>>, 1) = <<1,2,3,4,5,6,7,8, 0,0,0,0,1,0,0,0>>
ASSUME CtrAdd(<<1,2,3,4,5,6,7,8, 255,255,255,255,255,255,255,255>>, 2) = <<1,2,3,4,5,6,7,8, 1,0,0,0,0,0,0,0>>
ASSUME CtrAdd(<<1,2,3,4,5,6,7,8, 254,255,0,0,0,0,0,0>>, 70000) = <<1,2,3,4,5,6,7,8, 110,17,2,0,0,0,0,0>>   \* 65534 + 70000 = 135534 = 0x2116e
=============================================================================
