SPECIFICATION GenSpec
CONSTANTS
  MaxSrv = 3
  MaxCli = 2
  ReqBuf = 16
  Cfgs <- AllCfgs
  Lite = "full"
VIEW AbsView
CHECK_DEADLOCK FALSE
