SPECIFICATION Spec
CONSTANTS
  Listeners <- LA
  Kind <- KUnix
  Order <- OUnixSwapped
  CapIncoming = 1
  CapHandler = 1
  MaxPer = 9
  Bursts <- NoBursts
  MaxHist = 0
CHECK_DEADLOCK FALSE
INVARIANTS NoCloseStuck
