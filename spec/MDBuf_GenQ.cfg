SPECIFICATION GSpec
CONSTANTS
  BS = 64
  LF = 8
  WSet = {0, 1, 55, 56, 57, 63, 64, 65}
  MaxLen = 130
  Depth = 5
INVARIANTS Emit
CHECK_DEADLOCK FALSE
