SPECIFICATION Spec
CONSTANTS
  SignCapable <- Signers
  Alphabet <- Full
  MaxLen = 7
INVARIANTS Sound Ordered ErrShape Complete Emit
PROPERTIES UnknownInvisible
VIEW StView
CHECK_DEADLOCK FALSE
