SPECIFICATION Spec
INVARIANTS Untouched ModificationDetected NoAlteredClean StripMDCUseless MDCcovers Emit
