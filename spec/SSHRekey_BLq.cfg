SPECIFICATION Spec
CONSTANTS
  MaxPending = 1
  ChanSize = 1
  Writers = {1}
  NPkts = 1
  MaxRekeys = 1
  Threshold = 1000
  PktLens = {1}
  ExtInfo = FALSE
  NetCap = 1
  ReleaseAfterFlush = FALSE
INVARIANTS TypeOK K3 NetBounded
PROPERTIES K4 NoStuckWriter EveryWriteReturns QueueDrains
CHECK_DEADLOCK FALSE
