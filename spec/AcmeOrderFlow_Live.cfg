SPECIFICATION FairSpec
CONSTANTS
  HTTP01 = {TRUE, FALSE}
  NAuthz = 1
  OfferSets <- TwoOffers
  MaxOrders = 3
  Faults <- AllFaults
PROPERTIES Terminates
CHECK_DEADLOCK FALSE
