----------------------------- MODULE PrimPoly -----------------------------
(***************************************************************************)
(* Layer P (binding E): Poly1305 as its mathematical definition            *)
(* (RFC 8439 section 2.5; property C04):                                   *)
(*                                                                         *)
(*   tag = ( ( SUM_{i=1..q} (block_i + 2^(8*len_i)) * r^(q-i+1) )          *)
(*             mod 2^130-5  +  s ) mod 2^128,    r clamped                 *)
(*                                                                         *)
(* evaluated by TLC.  TLC integers are 32-bit, so naturals are sequences   *)
(* of limbs, little-endian in base B = 2^W.  The real instance uses        *)
(* W = 13, NL = 10 limbs (B^NL = 2^130).  Every operator takes the base    *)
(* as a parameter so that the same text can be model-checked on a scaled   *)
(* instance (W = 1, NL = 10, modulus 2^10-5 = 1019) against TLC's native   *)
(* integer arithmetic (PrimPoly_MC): there the limb algorithms are shown   *)
(* to compute exactly  x*y  and  x mod (B^NL - 5).                         *)
(*                                                                         *)
(* Models nothing of the implementation (/repo/internal/poly1305 uses      *)
(* 64-bit saturated limbs and lazy reduction); it is the reference the     *)
(* implementation is compared with.                                        *)
(***************************************************************************)
EXTENDS Integers, Sequences, Bitwise, SequencesExt

\* TLC keeps [i \in 1..n |-> e] as a lazy closure and re-evaluates e on every application;
\* concatenation with <<>> converts it into an explicit tuple once.
ForceP(s) == s \o <<>>

(******************************* naturals as limb sequences ****************)
RECURSIVE CarryR(_, _, _, _)
CarryR(x, i, c, B) == IF i > Len(x) THEN (IF c = 0 THEN <<>> ELSE <<c % B>> \o CarryR(x, i + 1, c \div B, B))
                      ELSE LET t == x[i] + c IN <<t % B>> \o CarryR(x, i + 1, t \div B, B)
\* propagate carries (the result grows by as many limbs as the final carry needs);
\* callers keep every limb plus carry below 2^31
Carry(x, B) == CarryR(x, 1, 0, B)

Limb(x, i) == IF i >= 1 /\ i <= Len(x) THEN x[i] ELSE 0

\* drop high zero limbs down to at least k limbs; pad up to k limbs
RECURSIVE Trim(_, _)
Trim(x, k) == IF Len(x) > k /\ x[Len(x)] = 0 THEN Trim(SubSeq(x, 1, Len(x) - 1), k)
              ELSE IF Len(x) < k THEN Trim(x \o <<0>>, k) ELSE x

AddN(a, b, B) == LET n == IF Len(a) > Len(b) THEN Len(a) ELSE Len(b)
                 IN Carry([i \in 1..n |-> Limb(a, i) + Limb(b, i)], B)

RECURSIVE ColSum(_, _, _, _, _)
\* sum of a[i]*b[k+1-i] for i = i..hi (all indices in range)
ColSum(a, b, k, i, hi) == IF i > hi THEN 0 ELSE a[i] * b[k + 1 - i] + ColSum(a, b, k, i + 1, hi)

\* schoolbook product (column sums, then one carry pass)
MulN(a, b, B) ==
  LET la == Len(a)  lb == Len(b) IN
  Carry([k \in 1..(la + lb - 1) |->
           ColSum(a, b, k, IF k > lb THEN k + 1 - lb ELSE 1, IF k < la THEN k ELSE la)], B)

\* x mod (B^NL - 5).  B^NL = (B^NL - 5) + 5, so hi*B^NL + lo == lo + 5*hi; repeat until
\* x < B^NL; then x is in [0, B^NL) and x >= B^NL - 5 iff x + 5 carries out of NL limbs.
RECURSIVE FoldP(_, _, _)
FoldP(x, B, NL) ==
  LET xt == Trim(x, NL) IN
  IF Len(xt) = NL THEN xt
  ELSE LET lo == SubSeq(xt, 1, NL)
           hi == SubSeq(xt, NL + 1, Len(xt))
           n  == IF Len(hi) > NL THEN Len(hi) ELSE NL
       IN FoldP(Carry([i \in 1..n |-> Limb(lo, i) + 5 * Limb(hi, i)], B), B, NL)

ModP(x, B, NL) ==
  LET y  == FoldP(x, B, NL)                        \* NL limbs, value < B^NL
      y5 == Carry([i \in 1..NL |-> IF i = 1 THEN y[1] + 5 ELSE y[i]], B)
  IN IF Limb(y5, NL + 1) # 0 THEN SubSeq(y5, 1, NL)   \* y >= p: y - p = y + 5 - B^NL
     ELSE y

\* conversions with native integers (only meaningful for small values; scaled instance)
RECURSIVE ToInt(_, _)
ToInt(x, B) == IF Len(x) = 0 THEN 0 ELSE x[1] + B * ToInt(Tail(x), B)
RECURSIVE FromInt(_, _, _)
FromInt(n, B, k) == IF k = 0 THEN <<>> ELSE <<n % B>> \o FromInt(n \div B, B, k - 1)

(******************************* bytes <-> limbs (W <= 16) *****************)
ByteAt(bs, k) == IF k >= 0 /\ k < Len(bs) THEN bs[k + 1] ELSE 0      \* 0-based, zero beyond the end
\* limb j (0-based) of the little-endian integer bs = bits W*j .. W*j+W-1
LimbOfBytes(bs, j, W) ==
  LET bit == W * j  k == bit \div 8  sh == bit % 8
      v == ByteAt(bs, k) + 256 * ByteAt(bs, k + 1) + 65536 * ByteAt(bs, k + 2)
  IN (v \div (2^sh)) % (2^W)
BytesToLimbs(bs, W, k) == LET b == ForceP(bs) IN ForceP([j \in 1..k |-> LimbOfBytes(b, j - 1, W)])
\* byte i (0-based) of the natural x (limbs of width W, 8 <= W <= 15)
ByteOfLimbs(x, i, W) ==
  LET bit == 8 * i  j == bit \div W  sh == bit % W
      v == Limb(x, j + 1) + (2^W) * Limb(x, j + 2)
  IN (v \div (2^sh)) % 256
LimbsToBytes(x, W, n) == ForceP([i \in 1..n |-> ByteOfLimbs(x, i - 1, W)])

(******************************* Poly1305 *********************************)
W13 == 13
B13 == 8192
NL13 == 10

\* RFC 8439 section 2.5.1: r &= 0x0ffffffc0ffffffc0ffffffc0fffffff
ClampR(rb) == ForceP([i \in 1..16 |-> IF i \in {4, 8, 12, 16} THEN rb[i] & 15
                                      ELSE IF i \in {5, 9, 13} THEN rb[i] & 252 ELSE rb[i]])

NumBlocks(msg) == (Len(msg) + 15) \div 16
BlockBytes(msg, i) == SubSeq(msg, 16 * (i - 1) + 1, IF 16 * i < Len(msg) THEN 16 * i ELSE Len(msg))
\* block_i + 2^(8*len_i): append the byte 01 and read as a little-endian number
BlockNum(msg, i) == BytesToLimbs(BlockBytes(msg, i) \o <<1>>, W13, 11)

RLimbs(key) == BytesToLimbs(ClampR(SubSeq(key, 1, 16)), W13, NL13)
SLimbs(key) == BytesToLimbs(SubSeq(key, 17, 32), W13, NL13)

\* Horner evaluation: acc := ((acc + block) * r) mod p
RECURSIVE PolyAcc(_, _, _, _)
PolyAcc(acc, r, msg, i) ==
  IF i > NumBlocks(msg) THEN acc
  ELSE PolyAcc(ModP(MulN(AddN(acc, BlockNum(msg, i), B13), r, B13), B13, NL13), r, msg, i + 1)

Finish(acc, key) == LimbsToBytes(AddN(acc, SLimbs(key), B13), W13, 16)      \* (acc + s) mod 2^128

Poly1305(key, msg) == LET m == ForceP(msg) IN Finish(PolyAcc(Trim(<<>>, NL13), RLimbs(key), m, 1), key)

\* The literal form of the property statement: sum of block_i * r^(q-i+1), reduced once at the end
\* of each product (powers and products are reduced so the numbers stay below 2^261).
RECURSIVE RPow(_, _)
RPow(r, e) == IF e = 0 THEN FromInt(1, B13, NL13) ELSE ModP(MulN(RPow(r, e - 1), r, B13), B13, NL13)
RECURSIVE PolySum(_, _, _)
PolySum(r, msg, i) ==
  IF i > NumBlocks(msg) THEN Trim(<<>>, NL13)
  ELSE AddN(ModP(MulN(BlockNum(msg, i), RPow(r, NumBlocks(msg) - i + 1), B13), B13, NL13),
            PolySum(r, msg, i + 1), B13)
Poly1305Def(key, msg) == LET m == ForceP(msg) IN Finish(ModP(PolySum(RLimbs(key), m, 1), B13, NL13), key)

\* constant-time-irrelevant model of Verify: accepts exactly the tag
PolyVerify(key, msg, tag) == tag = Poly1305(key, msg)

(******************************* published vectors ************************)
\* RFC 8439 section 2.5.2
RFCPolyKey == << 133,214,190,120, 87,85,109,51, 127,68,82,254, 66,213,6,168,
                 1,3,128,138, 251,13,178,253, 74,191,246,175, 65,73,245,27 >>
\* "Cryptographic Forum Research Group"
RFCPolyMsg == << 67,114,121,112,116,111,103,114,97,112,104,105,99,32,70,111,
                 114,117,109,32,82,101,115,101,97,114,99,104,32,71,114,111, 117,112 >>
RFCPolyTag == << 168,6,29,193, 48,81,54,198, 194,43,139,175, 12,1,39,169 >>

R1Key(sbyte) == <<1>> \o [i \in 1..15 |-> 0] \o [i \in 1..16 |-> sbyte]
FF16 == [i \in 1..16 |-> 255]
Z16 == [i \in 1..16 |-> 0]
LowByte(b, rest) == <<b>> \o [i \in 1..15 |-> rest]

ASSUME Poly1305(RFCPolyKey, RFCPolyMsg) = RFCPolyTag
\* further published vectors (RFC 8439 appendix A.3 edge cases) are ASSUMEd in PrimPoly_MC
=============================================================================
