SPECIFICATION Spec
CONSTANTS
  Keys = {"k1", "k2"}
  RSAKeys = {}
  Pass = {"p"}
  Lifetimes = {0}
  Ticks = {}
  Comments = {"a", "b"}
  Flags = {0}
  MaxLen = 0
  Conns <- One
  PipeConns <- None
  Callers <- Two
  MaxCalls = 1
  Budget = 2
  ReqMenu <- MenuMut
  NoMutex = FALSE
  LateEnqueue = FALSE
  ContinueAfterOversize = FALSE
  UnknownKills = TRUE
  Faults = FALSE
  Sticky = FALSE
INVARIANTS EndsOnlyByBadFrame

VIEW View
CHECK_DEADLOCK FALSE
