\* part B: both loop forms, every key length 1..bs*bs, bs in {1,2,3,4,5,8,32}
\* and part A: decision table as the code is (NegFix = FALSE): the guards agree with the documentation for keyLen >= 0; cases emitted
CONSTANTS
  Hash <- MCHash
  BHash <- MCBHash
  BS = 32
  MaxSaltLen = 1048576
  NegFix = FALSE
INIT LoopArgsInitMC
NEXT LoopNext
CHECK_DEADLOCK FALSE
INVARIANTS LoopSafe LoopResult LoopPartial KeyMapInBlock GuardHold ArgsEmit
