----------------------------- MODULE KnownHosts -----------------------------
(* The host key decision of golang.org/x/crypto/ssh/knownhosts (knownhosts.go) and the part of
   ssh.CertChecker.CheckHostKey (certs.go) that knownhosts.New wires to it.     [property C42]

   Public calls = actions:
     New(files)                      -> parse: db = (revoked map, ordered non-revoked lines)
     callback(hostname, remote, key) -> Check: certChecker.CheckHostKey ->
                                          plain key:   hostKeyDB.check -> checkAddr
                                          certificate: IsHostAuthority, then CheckCert/IsRevoked
   plus the pure helpers Normalize, Line and HashHostname.

   The module contains two descriptions of the decision:
     * the DECLARATIVE one (suffix D) -- the property: Wild by "exists a split", a line matches iff
       some positive pattern matches and no negated one does, on host and port; revoked keys give
       RevokedError; accept iff a matching non-revoked line lists the key, or the key is a
       certificate whose signing key is on a matching @cert-authority line; otherwise KeyError
       whose Want is exactly the set of matching lines;
     * a TRANSCRIPTION of the package's algorithm (suffix T): wildcardMatch (byte loop with the
       recursive star case), hostPatterns.match (loop, early "return false" on a negated hit),
       hashedHost.match (HMAC of Normalize(addr.String()) -> equality of the normalised text),
       checkAddr (loop with early return, Want accumulated in file order), check (revoked map
       first, hostname preferred to the remote address), IsHostAuthority, IsRevoked.
   TLC checks that they agree on every enumerated file and query (Agree), and Wild/wildcardMatch
   on every pattern/host pair (KnownHosts_MC!WildAgree).

   Text level.  A host name or pattern is a sequence of one-character strings over
   {"a","b",".","*","?"}; a port is one token ("22", "2222").  Norm/ParseAddr model Normalize and
   the pattern parser of newHostnameMatcher at that level ("[h]:p" for non-default ports).

   Deliberate switches.  StarFix = SubjectFix = TRUE describes the code as it is (repairs f023288 and
   ff86183 in /repo); FALSE describes the code before them and is kept as documentation only: TLC
   still finds the counterexamples (KnownHosts_WOld / L2Old / SubjectOld.cfg), the code no longer
   exhibits them.
     StarFix        TRUE: wildcardMatch handles '*' before the end-of-host test and skips runs of
                    stars (= OpenSSH match_pattern); FALSE: the former loop (a '*' that ends the
                    pattern, or a run of stars, facing the exhausted host fails: "a*" does not
                    match "a").
     CAListsPlain   TRUE (code): checkAddr also walks @cert-authority lines, so a plain host key
                    equal to a CA key on a matching @cert-authority line is accepted and such lines
                    appear in KeyError.Want.  The property text ("a non-revoked line ... lists that
                    key", "exactly the matching lines") reads the same way; OpenSSH only consults
                    unmarked lines for plain keys.  FALSE documents the OpenSSH reading.
     RevokedSubject TRUE: a certificate is revoked when its signing key or its subject public key is
                    @revoked (OpenSSH's check_key_not_revoked compares the certificate's public key with
                    sshkey_equal_public, which ignores the certificate part; confirmed with ssh 9.2: "REVOKED
                    HOST KEY DETECTED").  FALSE: only via its signing key (the former reading).
     SubjectFix     TRUE: IsRevoked also looks the certificate's subject key up;
                    FALSE: the former IsRevoked (whole certificate blob or signing key only). *)
EXTENDS Integers, Sequences, FiniteSets, TLC

CONSTANTS CaseSet,        \* cases to explore: records [fam, f] -- a family tag and a file (a sequence of line records, see IsLine)
          QueriesOf(_),   \* the sequence of query records (see below) put to the files of a family
          StarFix, SubjectFix,            \* which transcription of the package the state machine runs
          CAListsPlain, RevokedSubject    \* readings of the property

P22 == "22"
NoKey == "-"
Markers == {"none", "ca", "revoked"}

(* pattern  = [neg, h, port]                      "!h", "h", "[h]:port", "![h]:port"
   line     = [m, hashed, pats, key]              hashed lines carry exactly one positive "pattern"
                                                  whose h/port is the literal name that was hashed
   key      = [cert, k, ca]                       plain key k (ca = NoKey) or certificate for
                                                  subject key k signed by ca
   query    = [hasHost, h, port, rh, rport, key]  callback(hostname "h:port" or "", remote rh:rport, key) *)
IsPattern(p) == p.neg \in BOOLEAN /\ p.h # <<>>
IsLine(l) == /\ l.m \in Markers /\ l.hashed \in BOOLEAN /\ l.pats # <<>>
             /\ \A i \in 1..Len(l.pats) : IsPattern(l.pats[i])
             /\ l.hashed => (Len(l.pats) = 1 /\ ~l.pats[1].neg)

-----------------------------------------------------------------------------
(* ---------- text level: Normalize, the pattern parser, Line, HashHostname ---------- *)

\* Normalize(host:port) -- the form used in known_hosts
Norm(h, port) == IF port = P22 THEN h ELSE <<"[">> \o h \o <<"]", ":", port>>

\* newHostnameMatcher on one comma-separated element (after the optional '!'):
\* "[h]:p" -> (h, p); anything without a port -> (text, 22)
ParseAddr(t) ==
  IF Len(t) >= 5 /\ t[1] = "[" /\ t[Len(t) - 2] = "]" /\ t[Len(t) - 1] = ":"
  THEN [h |-> SubSeq(t, 2, Len(t) - 3), port |-> t[Len(t)]]
  ELSE [h |-> t, port |-> P22]
ParsePattern(t) == IF t[1] = "!" THEN LET a == ParseAddr(Tail(t)) IN [neg |-> TRUE, h |-> a.h, port |-> a.port]
                   ELSE LET a == ParseAddr(t) IN [neg |-> FALSE, h |-> a.h, port |-> a.port]
PatternText(p) == (IF p.neg THEN <<"!">> ELSE <<>>) \o Norm(p.h, p.port)

\* knownhosts.Line(addresses, key): the Normalize'd addresses, comma separated, then the key
LineOf(addrs, key) == [m |-> "none", hashed |-> FALSE,
                       pats |-> [i \in 1..Len(addrs) |-> ParsePattern(Norm(addrs[i].h, addrs[i].port))],
                       key |-> key]
\* knownhosts.Line([HashHostname(Normalize(address))], key)
HashedLineOf(addr, key) == [m |-> "none", hashed |-> TRUE,
                            pats |-> << [neg |-> FALSE, h |-> addr.h, port |-> addr.port] >>, key |-> key]

-----------------------------------------------------------------------------
(* ---------- declarative matching ---------- *)

\* p matches s iff s can be cut into Len(p) consecutive pieces, piece i arbitrary (possibly empty)
\* when p[i] = "*" and otherwise exactly one character, equal to p[i] unless p[i] = "?".
\* (Only the star pieces have a free length: "exists a length for every star".)
Wild(p, s) ==
  LET SP == {i \in 1..Len(p) : p[i] = "*"} IN
  \E sl \in [SP -> 0..Len(s)] :
     LET end[i \in 0..Len(p)] == IF i = 0 THEN 0 ELSE end[i - 1] + (IF i \in SP THEN sl[i] ELSE 1) IN
     /\ end[Len(p)] = Len(s)
     /\ \A i \in (1..Len(p)) \ SP : p[i] = "?" \/ p[i] = s[end[i]]

PatMatchD(p, h, port) == Wild(p.h, h) /\ p.port = port
LineMatchD(l, h, port) ==
  IF l.hashed THEN Norm(l.pats[1].h, l.pats[1].port) = Norm(h, port)
  ELSE LET Hit == {i \in 1..Len(l.pats) : PatMatchD(l.pats[i], h, port)} IN
       /\ \E i \in Hit : ~l.pats[i].neg              \* some positive pattern matches
       /\ ~\E i \in Hit : l.pats[i].neg              \* and no negated pattern does

(* ---------- declarative decision ---------- *)
RevokedKeysD(f) == {f[i].key : i \in {j \in 1..Len(f) : f[j].m = "revoked"}}
\* the address the decision is about: the hostname when there is one, else the remote address
TargetH(q) == IF q.hasHost THEN q.h ELSE q.rh
TargetP(q) == IF q.hasHost THEN q.port ELSE q.rport
MatchingD(f, h, port) == {i \in 1..Len(f) : f[i].m # "revoked" /\ LineMatchD(f[i], h, port)}
ListsPlain(l) == l.m = "none" \/ (CAListsPlain /\ l.m = "ca")

Res(t, want, why) == [t |-> t, want |-> want, why |-> why]

DecideD(f, q) ==
  LET M == MatchingD(f, TargetH(q), TargetP(q)) IN
  IF ~q.key.cert THEN
     IF q.key.k \in RevokedKeysD(f) THEN Res("revoked", {}, "revoked")
     ELSE IF \E i \in M : ListsPlain(f[i]) /\ f[i].key = q.key.k THEN Res("ok", {}, "listed")
     ELSE Res("keyerr", {i \in M : ListsPlain(f[i])}, IF M = {} THEN "unknown" ELSE "mismatch")
  ELSE
     \* certificates are judged against the hostname only (CheckHostKey passes addr to IsHostAuthority)
     IF ~(q.hasHost /\ \E i \in MatchingD(f, q.h, q.port) : f[i].m = "ca" /\ f[i].key = q.key.ca)
       THEN Res("reject", {}, "noauthority")
     ELSE IF q.key.ca \in RevokedKeysD(f) \/ (RevokedSubject /\ q.key.k \in RevokedKeysD(f))
       THEN Res("reject", {}, "revoked")
     ELSE Res("ok", {}, "authority")

-----------------------------------------------------------------------------
(* ---------- transcription of the package ---------- *)

RECURSIVE SkipStars(_)
SkipStars(pat) == IF pat # <<>> /\ Head(pat) = "*" THEN SkipStars(Tail(pat)) ELSE pat

\* wildcardMatch(pat, str); fix = TRUE is the loop as it is, fix = FALSE the former one (documentation)
RECURSIVE WildT(_, _, _)
WildT(fix, pat, str) ==
  IF pat = <<>> THEN str = <<>>
  ELSE IF ~fix /\ str = <<>> THEN FALSE                              \* former loop: tested before the star
  ELSE IF Head(pat) = "*" THEN
         IF ~fix THEN IF Len(pat) = 1 THEN TRUE
                      ELSE \E j \in 1..Len(str) : WildT(fix, Tail(pat), SubSeq(str, j, Len(str)))
         ELSE LET rest == SkipStars(pat) IN
              IF rest = <<>> THEN TRUE
              ELSE \E j \in 1..Len(str) : WildT(fix, rest, SubSeq(str, j, Len(str)))
  ELSE IF str = <<>> THEN FALSE
  ELSE IF Head(pat) = "?" \/ Head(pat) = Head(str) THEN WildT(fix, Tail(pat), Tail(str))
  ELSE FALSE

\* hostPattern.match
PatMatchT(fix, p, a) == WildT(fix, p.h, a.h) /\ p.port = a.port
\* hostPatterns.match: loop; a negated hit returns false at once, a positive hit sets matched
RECURSIVE PatsLoop(_, _, _, _, _)
PatsLoop(fix, ps, i, a, matched) ==
  IF i > Len(ps) THEN matched
  ELSE IF ~PatMatchT(fix, ps[i], a) THEN PatsLoop(fix, ps, i + 1, a, matched)
  ELSE IF ps[i].neg THEN FALSE
  ELSE PatsLoop(fix, ps, i + 1, a, TRUE)
\* keyDBLine.match: hashedHost.match compares HMAC(salt, Normalize(a.String())) with the stored
\* hash = HMAC(salt, name): equality of the texts (HMAC-SHA1 collisions excluded)
LineMatchT(fix, l, a) ==
  IF l.hashed THEN Norm(a.h, a.port) = Norm(l.pats[1].h, l.pats[1].port)
  ELSE PatsLoop(fix, l.pats, 1, a, FALSE)

\* hostKeyDB.Read / parseLine: @revoked lines go to a map keyed by key blob (a later line for the same
\* key overwrites the earlier entry; their host patterns are not even parsed); all other lines are
\* appended to db.lines with their line number
Parse(f) ==
  LET RevIdx(k) == {i \in 1..Len(f) : f[i].m = "revoked" /\ f[i].key = k}
      Keep == {i \in 1..Len(f) : f[i].m # "revoked"}
      Nth(n) == CHOOSE i \in Keep : Cardinality({j \in Keep : j < i}) = n - 1
  IN [revoked |-> [k \in RevokedKeysD(f) |-> CHOOSE i \in RevIdx(k) : \A j \in RevIdx(k) : j <= i],
      lines |-> [n \in 1..Cardinality(Keep) |-> [ln |-> Nth(n), l |-> f[Nth(n)]]]]

\* checkAddr
RECURSIVE CheckAddrLoop(_, _, _, _, _, _)
CheckAddrLoop(fix, lines, i, a, k, want) ==
  IF i > Len(lines) THEN Res("keyerr", want, IF want = <<>> THEN "unknown" ELSE "mismatch")
  ELSE IF ~LineMatchT(fix, lines[i].l, a) THEN CheckAddrLoop(fix, lines, i + 1, a, k, want)
  ELSE IF lines[i].l.key = k THEN Res("ok", <<>>, "listed")
  ELSE CheckAddrLoop(fix, lines, i + 1, a, k, Append(want, lines[i].ln))
\* hostKeyDB.check
CheckT(fix, db, q) ==
  IF q.key.k \in DOMAIN db.revoked THEN Res("revoked", <<>>, "revoked")
  ELSE CheckAddrLoop(fix, db.lines, 1,
                     IF q.hasHost THEN [h |-> q.h, port |-> q.port] ELSE [h |-> q.rh, port |-> q.rport],
                     q.key.k, <<>>)
\* IsHostAuthority(cert.SignatureKey, hostname)
IsHostAuthorityT(fix, db, q) ==
  /\ q.hasHost                                                       \* SplitHostPort("") fails
  /\ \E i \in 1..Len(db.lines) : /\ db.lines[i].l.m = "ca" /\ db.lines[i].l.key = q.key.ca
                                  /\ LineMatchT(fix, db.lines[i].l, [h |-> q.h, port |-> q.port])
\* IsRevoked(cert): the whole certificate blob or its signing key (line keys here are plain keys,
\* so the first lookup never hits); sfix = TRUE: the repaired version also looks up the subject key
IsRevokedT(sfix, db, q) == q.key.ca \in DOMAIN db.revoked \/ (sfix /\ q.key.k \in DOMAIN db.revoked)
\* CertChecker.CheckHostKey as configured by New
DecideT(fix, sfix, db, q) ==
  IF ~q.key.cert THEN CheckT(fix, db, q)
  ELSE IF ~IsHostAuthorityT(fix, db, q) THEN Res("reject", <<>>, "noauthority")
  ELSE IF IsRevokedT(sfix, db, q) THEN Res("reject", <<>>, "revoked")
  ELSE Res("ok", <<>>, "authority")

SeqSet(s) == {s[i] : i \in 1..Len(s)}
\* comparison at the level of the property: decision class and Want as a set of lines
Same(rt, rd) == rt.t = rd.t /\ SeqSet(rt.want) = rd.want

-----------------------------------------------------------------------------
(* ---------- state machine ---------- *)
VARIABLES file, fam, db, qi, res, phase
vars == <<file, fam, db, qi, res, phase>>
QuerySeq == QueriesOf(fam)
NoDB == [revoked |-> <<>>, lines |-> <<>>]
NoRes == Res("none", <<>>, "")

Init == /\ \E c \in CaseSet : file = c.f /\ fam = c.fam
        /\ db = NoDB /\ qi = 0 /\ res = NoRes /\ phase = "file"
New == /\ phase = "file" /\ db' = Parse(file) /\ phase' = "ready" /\ UNCHANGED <<file, fam, qi, res>>
Check(i) == /\ phase = "ready" /\ qi' = i /\ res' = DecideT(StarFix, SubjectFix, db, QuerySeq[i]) /\ phase' = "checked"
            /\ UNCHANGED <<file, fam, db>>
Back == /\ phase = "checked" /\ phase' = "ready" /\ qi' = 0 /\ res' = NoRes /\ UNCHANGED <<file, fam, db>>
Next == New \/ (\E i \in 1..Len(QuerySeq) : Check(i)) \/ Back
Spec == Init /\ [][Next]_vars

-----------------------------------------------------------------------------
(* ---------- properties ---------- *)
TypeOK == /\ \A i \in 1..Len(file) : IsLine(file[i])
          /\ phase \in {"file", "ready", "checked"}
          /\ res.t \in {"none", "ok", "revoked", "keyerr", "reject"}

\* the package's algorithm decides as the declarative definition does
Agree == phase = "checked" => Same(res, DecideD(file, QuerySeq[qi]))

\* accept only with a reason the property names
AcceptSound == (phase = "checked" /\ res.t = "ok") =>
  LET q == QuerySeq[qi] IN
  IF q.key.cert
    THEN q.hasHost /\ q.key.ca \notin RevokedKeysD(file) /\ (RevokedSubject => q.key.k \notin RevokedKeysD(file))
         /\ \E i \in 1..Len(file) : file[i].m = "ca" /\ file[i].key = q.key.ca /\ LineMatchD(file[i], q.h, q.port)
    ELSE q.key.k \notin RevokedKeysD(file)
         /\ \E i \in 1..Len(file) : file[i].m # "revoked" /\ file[i].key = q.key.k
                                     /\ LineMatchD(file[i], TargetH(q), TargetP(q))
\* a revoked plain key is never anything but RevokedError, wherever the @revoked line stands
RevokedDominates == phase = "checked" =>
  LET q == QuerySeq[qi] IN (~q.key.cert /\ q.key.k \in RevokedKeysD(file)) <=> res.t = "revoked"
\* KeyError.Want: every listed line matches, is not @revoked, does not list the key; none is missing
WantExact == (phase = "checked" /\ res.t = "keyerr") =>
  LET q == QuerySeq[qi] IN
  SeqSet(res.want) = {i \in 1..Len(file) : /\ file[i].m # "revoked" /\ ListsPlain(file[i])
                                            /\ LineMatchD(file[i], TargetH(q), TargetP(q))}
\* with a hostname the remote address has no influence
RemoteIrrelevant == phase = "checked" =>
  LET QS == QuerySeq             \* (bound once: a cfg-substituted constant is re-evaluated at each use)
      q == QS[qi] IN
  q.hasHost => \A j \in 1..Len(QS) :
     (QS[j].hasHost /\ QS[j].h = q.h /\ QS[j].port = q.port /\ QS[j].key = q.key)
        => Same(DecideT(StarFix, SubjectFix, db, QS[j]), DecideD(file, q))
\* the decision class does not depend on the order of the lines
Reverse(s) == [i \in 1..Len(s) |-> s[Len(s) + 1 - i]]
OrderIndependent == phase = "checked" =>
  LET r2 == DecideT(StarFix, SubjectFix, Parse(Reverse(file)), QuerySeq[qi]) IN
  r2.t = res.t /\ {Len(file) + 1 - x : x \in SeqSet(r2.want)} = SeqSet(res.want)
=============================================================================
