SPECIFICATION MCSpec
CONSTANTS
  MinFirst = 512
  MaxPow = 30
  Families = {"enc", "sweep", "read", "partial", "sub"}
  Big = TRUE
  SweepSet <- SweepT
  WSizes <- WMenuQ
  WNames = {0}
  WMaxLen = 0
INVARIANTS Shortest EncRoundTrip EncPrefix Liberal ReadRule OddRule SubRule Emit
CHECK_DEADLOCK FALSE
