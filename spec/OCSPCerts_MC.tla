---------------------------- MODULE OCSPCerts_MC ----------------------------
(* Exhaustive instance of OCSPCerts (C48) and the generator for binding R: every sequence of up to MaxCerts certificates
   x signing key x issuer given/nil x {unmodified, tbs modified}. *)
EXTENDS OCSPCerts, Json
Emit == Parsed => PrintT("TRACE " \o ToJson([multi |-> TRUE, certs |-> [i \in 1..Len(cfg.certs) |-> cfg.certs[i].name], sigKey |-> cfg.sigKey,
                                            issuerGiven |-> cfg.issuerGiven, region |-> cfg.region, d |-> res.d, returned |-> res.returned,
                                            authorized |-> Authorized]))
=============================================================================
