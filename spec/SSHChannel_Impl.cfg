SPECIFICATION MCSpec
CONSTANTS
  Windows = {4, 6}
  MaxPayloads = {1, 2, 3}
  Budget <- B444
  MaxCalls = 1
  MaxRead = 3
  Greedy = TRUE
  CreditFirst = TRUE
  RecvPolicy = "impl"
INVARIANTS TypeOK NoSleepWithWindow F1 F1b F2 SenderWithinWindow NoError F3 NoStuck
CHECK_DEADLOCK FALSE
