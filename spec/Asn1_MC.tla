------------------------------ MODULE Asn1_MC ------------------------------
(* Bounded instances of Asn1 (C23): exhaustive byte strings over an alphabet of interesting octets,
   grammar-generated near-valid encodings, boundary values for the encoders; generator for binding R. *)
EXTENDS Asn1, Json

Alphabet17 == {0, 1, 2, 3, 5, 6, 10, 31, 48, 127, 128, 129, 130, 132, 133, 160, 255}
Alphabet13 == {0, 1, 2, 3, 6, 10, 48, 127, 128, 129, 130, 160, 255}

\* ---- grammar: TLV headers with every length form around the boundaries, content = zero fill
Lens == {0, 1, 2, 126, 127, 128, 129, 255, 256, 257, 65535, 65536}
Hi(n) == n \div 256
Lo(n) == n % 256
LenForms(n) == {LenOctets(n), <<128>>, <<133, 0, 0, 0, Hi(n) % 256, Lo(n)>>}
               \cup (IF n < 128 THEN {<<129, n>>, <<130, 0, n>>} ELSE {})
               \cup (IF n >= 128 /\ n < 256 THEN {<<130, 0, n>>, <<131, 0, 0, n>>, <<n>>} ELSE {})
               \cup (IF n >= 256 /\ n < 65536 THEN {<<131, 0, Hi(n), Lo(n)>>, <<132, 0, 0, Hi(n), Lo(n)>>} ELSE {})
               \cup (IF n = 65536 THEN {<<132, 0, 1, 0, 0>>, <<130, 0, 0>>} ELSE {})
LenCasesN(tags, lens) == UNION {{In(<<t>> \o f, IF n + d >= 0 THEN n + d ELSE 0) : f \in LenForms(n), d \in {-1, 0, 1}, t \in tags} : n \in lens}
HugeCases == {In(<<4, 131, 255, 255, 255>>, 16777215), In(<<4, 131, 255, 255, 255>>, 16777214),
              In(<<4, 132, 1, 0, 0, 0>>, 16777216), In(<<4, 132, 1, 0, 0, 0>>, 16777215), In(<<4, 132, 0, 255, 255, 255>>, 16777215),
              In(<<3, 132, 1, 0, 0, 0>>, 16777216), In(<<48, 132, 1, 0, 0, 1>>, 16777217)}

\* ---- INTEGER-shaped contents of 1..10 octets
IntContents(k) == {Zeros(k), <<127>> \o Rep(255, k - 1), <<128>> \o Zeros(k - 1), Rep(255, k), <<1>> \o Zeros(k - 1)}
                  \cup (IF k >= 2 THEN {<<0, 128>> \o Zeros(k - 2), <<0, 127>> \o Rep(255, k - 2), <<255, 128>> \o Zeros(k - 2),
                                        <<255, 127>> \o Rep(255, k - 2), <<0, 255>> \o Rep(255, k - 2)} ELSE {})
AllIntContents == UNION {IntContents(k) : k \in 1..10} \cup {<<>>}
Wrap(tag, c) == In(EncTLV(tag, c), 0)
IntCases == {Wrap(t, c) : t \in {INTEGER, ENUM}, c \in AllIntContents}
            \cup {Wrap(CTX0, EncTLV(INTEGER, c)) : c \in IntContents(1) \cup IntContents(2) \cup IntContents(9)}
            \cup {Wrap(CTX0, EncTLV(INTEGER, <<5>>) \o j) : j \in {<<0>>, <<5, 0>>}}          \* junk after the wrapped value
            \cup {In(EncTLV(INTEGER, <<5>>) \o j, 0) : j \in {<<0>>, <<2, 1, 1>>}}             \* trailing data after the element
OidContents == {<<>>, <<42>>, <<42, 134, 72>>, <<128, 1>>, <<42, 128, 1>>, <<42, 134>>, <<255, 255, 255, 255, 127>>, <<135, 255, 255, 255, 127>>,
                <<136, 128, 128, 128, 0>>, <<79>>, <<80>>, <<129, 72>>, <<120>>, <<0>>, <<39>>, <<40>>, <<42, 0, 0>>, <<42, 129, 128, 128, 128, 128, 0>>,
                <<143, 255, 255, 255, 127>>, <<42, 255>>}
BitContents == {<<>>, <<0>>, <<1>>, <<7>>, <<0, 255>>, <<7, 128>>, <<7, 129>>, <<7, 64>>, <<8, 0>>, <<1, 254>>, <<1, 255>>, <<0, 0, 1>>, <<3, 255, 248>>, <<3, 255, 244>>, <<255, 0>>}
BoolContents == {<<>>, <<0>>, <<255>>, <<1>>, <<254>>, <<0, 0>>, <<255, 255>>}
OptCases == {Wrap(CTX0, EncTLV(OCTETSTRING, c)) : c \in {<<>>, <<1, 2>>}}
            \cup {Wrap(CTX0, EncTLV(OCTETSTRING, <<1>>) \o <<5, 0>>), Wrap(CTX0, <<>>), Wrap(CTX0, <<4>>), In(<<160, 3, 4, 1>>, 0), In(<<160>>, 0), In(<<161, 0>>, 0)}
            \cup {Wrap(CTX0, EncTLV(BOOLEAN_, c)) : c \in BoolContents}
            \cup {Wrap(CTX0, EncTLV(BOOLEAN_, <<255>>) \o j) : j \in {<<0>>, <<5, 0>>, <<1, 1, 0>>}}
TypedCases == {Wrap(OID, c) : c \in OidContents} \cup {Wrap(BITSTRING, c) : c \in BitContents} \cup {Wrap(BOOLEAN_, c) : c \in BoolContents}
              \cup {Wrap(NULL_, <<>>), Wrap(NULL_, <<0>>), Wrap(OCTETSTRING, <<>>), Wrap(SEQUENCE, EncTLV(INTEGER, <<1>>))}
              \cup {Wrap(t, <<1>>) : t \in {31, 63, 95, 127, 159, 191, 223, 255, 30, 62, 0, 64, 128, 192}}

\* ---- time strings
F2(n) == <<48 + ((n \div 10) % 10), 48 + (n % 10)>>
Zones == {<<90>>, <<43, 48, 49, 48, 48>>, <<45, 48, 56, 51, 48>>, <<43, 48, 48, 48, 48>>, <<45, 48, 48, 48, 48>>, <<43, 50, 51, 53, 57>>,
          <<43, 50, 53, 48, 48>>, <<43, 48, 48, 54, 48>>, <<122>>, <<>>, <<43, 48, 49>>, <<90, 90>>, <<43, 48, 49, 48, 48, 48>>}
\* <<yy, mo, d, h, mi, s>>
UTCFields == {<<50, 1, 1, 0, 0, 0>>, <<49, 12, 31, 23, 59, 59>>, <<99, 6, 15, 12, 30, 1>>, <<0, 2, 29, 0, 0, 0>>, <<69, 1, 1, 0, 0, 0>>, <<68, 2, 29, 1, 2, 3>>,
              <<1, 2, 29, 0, 0, 0>>, <<0, 2, 30, 0, 0, 0>>, <<50, 0, 1, 0, 0, 0>>, <<50, 13, 1, 0, 0, 0>>, <<50, 1, 0, 0, 0, 0>>, <<50, 1, 32, 0, 0, 0>>,
              <<50, 4, 31, 0, 0, 0>>, <<50, 1, 1, 24, 0, 0>>, <<50, 1, 1, 0, 60, 0>>, <<50, 1, 1, 0, 0, 60>>, <<24, 2, 29, 10, 20, 30>>}
UTCStr(f, withSec) == F2(f[1]) \o F2(f[2]) \o F2(f[3]) \o F2(f[4]) \o F2(f[5]) \o (IF withSec THEN F2(f[6]) ELSE <<>>)
UTCCases == {Wrap(UTCTIME, UTCStr(f, ws) \o z) : f \in UTCFields, ws \in BOOLEAN, z \in Zones}
            \cup {Wrap(UTCTIME, <<53, 48, 48, 49, 48, 49, 48, 48, 48, 48, 48, 48, 46, 53, 90>>),          \* fractional seconds
                  Wrap(UTCTIME, <<53, 48, 48, 49, 48, 49, 48, 48, 48, 48, 48, 97, 90>>), Wrap(UTCTIME, <<>>), Wrap(UTCTIME, <<90>>)}
\* <<cc, yy, mo, d, h, mi, s>>
GenFields == {<<20, 24, 2, 29, 10, 20, 30>>, <<19, 0, 2, 29, 0, 0, 0>>, <<20, 0, 2, 29, 0, 0, 0>>, <<0, 0, 1, 1, 0, 0, 0>>, <<99, 99, 12, 31, 23, 59, 59>>,
              <<19, 50, 1, 1, 0, 0, 0>>, <<20, 50, 13, 1, 0, 0, 0>>, <<20, 50, 6, 31, 0, 0, 0>>, <<20, 50, 1, 1, 24, 0, 0>>, <<20, 50, 1, 1, 0, 0, 60>>, <<21, 0, 2, 29, 0, 0, 0>>}
GenStr(f) == F2(f[1]) \o F2(f[2]) \o F2(f[3]) \o F2(f[4]) \o F2(f[5]) \o F2(f[6]) \o F2(f[7])
GenCases == {Wrap(GENTIME, GenStr(f) \o z) : f \in GenFields, z \in Zones}
            \cup {Wrap(GENTIME, SubSeq(GenStr(<<20, 24, 2, 29, 10, 20, 30>>), 1, 12) \o <<90>>),                 \* no seconds
                  Wrap(GENTIME, GenStr(<<20, 24, 2, 29, 10, 20, 30>>) \o <<46, 53, 90>>), Wrap(GENTIME, <<>>)}

Grammar(lens) == LenCasesN({OCTETSTRING, BITSTRING, SEQUENCE, 31}, lens) \cup IntCases \cup OptCases \cup TypedCases \cup UTCCases \cup GenCases
InputsQuick == Grammar(Lens)
InputsThorough == Grammar(Lens) \cup HugeCases

\* ---- boundary values whose DER encoding the builders must emit and the readers must accept
V(k, big, arcs, tm, bytes, flag) == [k |-> k, big |-> big, arcs |-> arcs, tm |-> tm, bytes |-> bytes, flag |-> flag]
KsV == {7, 8, 15, 16, 31, 32, 63, 64, 127}
MagsV == UNION {{Pow2m1(k), Pow2(k), Pow2p1(k)} : k \in KsV} \cup {<<1>>, <<2>>}
BigsV == {BigZero} \cup {BigInt(FALSE, m) : m \in MagsV} \cup {BigInt(TRUE, m) : m \in MagsV}
Tm(y, mo, d, h, mi, s, off) == [ok |-> TRUE, y |-> y, mo |-> mo, d |-> d, h |-> h, mi |-> mi, s |-> s, off |-> off]
Bin(n) == [i \in 1..n |-> (i * 37 + 200) % 256]
ValuesAll ==
  {V("int", b, <<>>, NoTime, <<>>, FALSE) : b \in BigsV}
  \cup {V("enum", b, <<>>, NoTime, <<>>, FALSE) : b \in {v \in BigsV : FitsSigned(v, 8)}}
  \cup {V("bool", BigZero, <<>>, NoTime, <<>>, f) : f \in BOOLEAN}
  \cup {V("oid", BigZero, a, NoTime, <<>>, FALSE) : a \in {<<0, 0>>, <<1, 39>>, <<2, 40>>, <<2, 100, 3>>, <<1, 2, 840, 113549, 1, 1, 11>>, <<2, 999, 2147483647>>,
                                                        <<2, 2147483567>>, <<0, 39, 127, 128, 16383, 16384>>, <<2, 47, 0>>}}
  \cup {V("octet", BigZero, <<>>, NoTime, b, FALSE) : b \in {<<>>, <<1, 2, 3>>, Bin(127), Bin(128), Bin(256)}}
  \cup {V("bits", BigZero, <<>>, NoTime, b, FALSE) : b \in {<<>>, <<255>>, Bin(126), Bin(127), Bin(255)}}
  \cup {V("utc", BigZero, <<>>, t, <<>>, FALSE) : t \in {Tm(1950, 1, 1, 0, 0, 0, 0), Tm(2049, 12, 31, 23, 59, 59, 0), Tm(2000, 2, 29, 12, 0, 1, 60), Tm(1999, 6, 15, 1, 2, 3, -510)}}
  \cup {V("gen", BigZero, <<>>, t, <<>>, FALSE) : t \in {Tm(0, 1, 1, 0, 0, 0, 0), Tm(9999, 12, 31, 23, 59, 59, 0), Tm(2024, 2, 29, 10, 20, 30, 0), Tm(2050, 7, 4, 0, 0, 0, 330), Tm(1900, 3, 1, 0, 0, 0, -60)}}
  \cup {V("null", BigZero, <<>>, NoTime, <<>>, FALSE)}
NoValues == {}
NoInputs == {}

\* ---- generator
Small == [b |-> x.b, f |-> x.fill, ok |-> FALSE, present |-> res.present, opt |-> res.opt]
Full == [b |-> x.b, f |-> x.fill, ok |-> TRUE, src |-> src, r |-> res]
Emit == Done => PrintT("TRACE " \o ToJson(IF res.any.ok THEN Full ELSE Small))
=============================================================================
