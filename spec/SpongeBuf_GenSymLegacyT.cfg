SPECIFICATION GSpec
CONSTANTS
  Kinds = {"legacy"}
  WSet = {0, 1, 9999, 10000, 10001}
  RSet = {0, 1, 9999, 10001}
  MaxLen = 1000000
  MaxOut = 1000000
  MaxObjs = 1
  ShakeResetAfterRead = FALSE
  Depth = 5
INVARIANTS Emit
CHECK_DEADLOCK FALSE
