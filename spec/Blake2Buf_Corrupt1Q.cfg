SPECIFICATION Spec
CONSTANTS
  B = 4
  Size = 2
  KeyLen = 0
  NSet <- MC_NSetSmall
  MaxBytes = 4
  MaxSize = 3
  RangeCheck = TRUE
  CorruptSizes <- MC_CorruptSizes
  WithMarshal = TRUE
  CorruptOffsets <- MC_CorruptOffsets
INVARIANTS TypeOK ShapeOK DefinedIffShape NoPanic
CONSTRAINT OneCorruption
CHECK_DEADLOCK FALSE
