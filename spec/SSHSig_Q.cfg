SPECIFICATION Spec
CONSTANTS
  Menus <- MenusQ
INVARIANTS VerifyIffValid FormatTable PresenceRule RefusesOutsideList NeverWidens OptOutRule
CHECK_DEADLOCK FALSE
