SPECIFICATION Spec
CONSTANTS
  Menus <- MenusQ
  FixSign = TRUE
INVARIANTS VerifyIffValid FormatTable PresenceRule RefusesOutsideList SignAlsoRefuses NeverWidens OptOutRule
CHECK_DEADLOCK FALSE
