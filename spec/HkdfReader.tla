----------------------------- MODULE HkdfReader -----------------------------
(***************************************************************************)
(* C18 - the HKDF-Expand output stream as an io.Reader                     *)
(* (/repo/hkdf/hkdf.go: hkdf.New / hkdf.Expand return a reader; RFC 5869   *)
(* section 2.3).  Abstract specification:                                  *)
(*                                                                         *)
(*   T = T(1) || T(2) || ... || T(MaxBlocks),                              *)
(*   T(i) = HMAC(PRK, T(i-1) || info || i),  T(0) = empty,  MaxBlocks=255  *)
(*                                                                         *)
(* The reader state is `produced`, the number of bytes handed out.         *)
(* Read(n): if n > MaxBlocks*H - produced the call fails AND the state is  *)
(* unchanged (a Read that would exceed the limit fails without consuming   *)
(* output); otherwise it returns T[produced, produced+n) and advances.     *)
(* A zero-length read is a successful no-op, also at the limit.            *)
(* Scribble: the CALLER overwrites a buffer it passed to an earlier Read    *)
(* (wipes a key, reuses the array).  The buffers belong to the caller, the *)
(* reader must not retain them (io.Reader), so this is a stuttering step   *)
(* of the reader: the stream position and every future output depend only *)
(* on (PRK, info, bytes delivered so far).                                 *)
(*                                                                         *)
(* Stream bytes are symbolic here: an output is the interval <<lo, hi>> of *)
(* 0-based positions of T it consists of (byte p is offset p % H of block  *)
(* T(p \div H + 1)); the executable T(i) over the toy hash is spec/Kdf.tla. *)
(* HkdfImpl.tla transcribes the real reader's bookkeeping (counter byte,   *)
(* prev, buf) and TLC checks HkdfImpl => HkdfReader.                       *)
(***************************************************************************)
EXTENDS Integers, Sequences

CONSTANTS H,          \* hash output size in bytes
          MaxBlocks,  \* 255 in RFC 5869 (the block index is one octet)
          ReadSizes   \* set of Read lengths explored
VARIABLES produced, last
vars == <<produced, last>>

Limit == MaxBlocks * H
\* an output = sequence of maximal intervals of stream positions; a correct one has at most one
Slice(from, n) == IF n = 0 THEN <<>> ELSE << <<from, from + n - 1>> >>

Init == /\ produced = 0
        /\ last = [op |-> "new", n |-> 0, err |-> FALSE, out |-> <<>>]

Read(n) ==
  IF n > Limit - produced
  THEN /\ last' = [op |-> "read", n |-> n, err |-> TRUE, out |-> <<>>]
       /\ UNCHANGED produced
  ELSE /\ last' = [op |-> "read", n |-> n, err |-> FALSE, out |-> Slice(produced, n)]
       /\ produced' = produced + n

\* the caller overwrites one of its own buffers: invisible to the reader
Scribble == /\ UNCHANGED produced
            /\ last' = [op |-> "scribble", n |-> 0, err |-> FALSE, out |-> <<>>]

Next == (\E n \in ReadSizes : Read(n)) \/ Scribble
Spec == Init /\ [][Next]_vars

TypeOK == produced \in 0..Limit
\* the property's clauses, as action properties (checked on this spec and, through the refinement
\* mapping, on HkdfImpl)
ErrorConsumesNothing == [][last'.err => produced' = produced]_vars
Contiguous == [][(~last'.err) => /\ last'.out = Slice(produced, last'.n)
                                  /\ produced' = produced + last'.n]_vars
FailsExactlyBeyondLimit == [][last'.err <=> last'.n > Limit - produced]_vars
ZeroReadIsNoop == [][last'.n = 0 => (~last'.err /\ produced' = produced)]_vars
ScribbleIsInvisible == [][last'.op = "scribble" => produced' = produced]_vars
=============================================================================
