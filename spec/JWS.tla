--------------------------------- MODULE JWS ---------------------------------
(* Decision model of ACME request signing in golang.org/x/crypto/acme
   (jws.go: jwsEncodeJSON / jwsSign / jwkEncode / jwsHasher / JWKThumbprint / jwsWithMAC;
    http.go: postNoRetry chooses jwk or kid; rfc8555.go: encodeExternalAccountBinding),
   stated against RFC 7515 (JWS), RFC 7518 (ES256/384/512 = fixed-width R||S, EC coordinates as
   fixed-width octet strings, RSA n/e minimal), RFC 7638 (thumbprint: required members only, in
   lexicographic order, no whitespace) and RFC 8555 6.2/6.3/7.3.4.

   A case is: account key type, shape of the key's coordinates and of the signature halves
   (number of leading zero bytes the integers happen to have), the client operation (which key
   argument it passes to post and which payload it sends), what the client knows about its
   account URL, and whether external account binding is requested.  One action, Encode, computes
   what the client must put on the wire.  The model is more than a table only in that the widths
   are DEFINED from the curve size and the properties say they do not depend on the value shape. *)
EXTENDS Integers, Sequences, FiniteSets, TLC

CONSTANTS KeyTypes,     \* subset of {"RSA", "P-256", "P-384", "P-521"}
          Ops,          \* set of [name, key, payload]: key in {"account", "certkey", "nil"}, payload in {"object", "empty"}
          KidStates,    \* {"preset", "lookupOK", "lookupFail"}: Client.KID set / accountKID finds the account / does not
          Shapes,       \* leading-zero-byte counts explored for coordinates and signature halves
          EABs          \* subset of BOOLEAN

Bits(kt) == CASE kt = "P-256" -> 256 [] kt = "P-384" -> 384 [] kt = "P-521" -> 521 [] kt = "RSA" -> 2048
IsEC(kt) == kt # "RSA"
Width(kt) == (Bits(kt) + 7) \div 8                                \* 32 / 48 / 66 / 256 octets
Alg(kt) == CASE kt = "RSA" -> "RS256" [] kt = "P-256" -> "ES256" [] kt = "P-384" -> "ES384" [] kt = "P-521" -> "ES512"
Hash(kt) == CASE kt = "RSA" -> "SHA-256" [] kt = "P-256" -> "SHA-256" [] kt = "P-384" -> "SHA-384" [] kt = "P-521" -> "SHA-512"

\* octet length of an unsigned integer with z leading zero octets below the field width
MinimalLen(kt, z) == Width(kt) - z
\* RFC 7518 3.4 / 6.2.1.2: fixed width, left-padded with zeros -- independent of z
FixedLen(kt, z) == MinimalLen(kt, z) + z

\* RFC 7638 3.2: the members used for the thumbprint, in lexicographic order
ThumbMembers(kt) == IF IsEC(kt) THEN <<"crv", "kty", "x", "y">> ELSE <<"e", "kty", "n">>

\* which requests are authenticated by key id (RFC 8555 6.2: newAccount and revocation by
\* certificate key carry the jwk; everything else the kid -- when the client has one)
UsesKid(op, ks) == op.key = "nil" /\ ks \in {"preset", "lookupOK"}
SigningKey(op) == IF op.key = "certkey" THEN "certkey" ELSE "account"

VARIABLES kt, zx, zy, zr, zs, op, ks, eab, out, phase
vars == <<kt, zx, zy, zr, zs, op, ks, eab, out, phase>>

None == [form |-> "none", alg |-> "", xlen |-> 0, ylen |-> 0, siglen |-> 0, payload |-> "", nonce |-> FALSE,
         url |-> FALSE, members |-> <<>>, signer |-> "", hash |-> "", eab |-> "none", lookup |-> FALSE]

Init == /\ kt \in KeyTypes /\ op \in Ops /\ ks \in KidStates /\ eab \in EABs
        /\ zx \in Shapes /\ zy \in Shapes /\ zr \in Shapes /\ zs \in Shapes
        \* prune: shapes only exist for EC keys (RSA: only the signature integer, zr); the kid
        \* state only matters when no key is passed; EAB only exists on registration
        /\ (~IsEC(kt) => zx = 0 /\ zy = 0 /\ zs = 0)
        /\ (op.key # "nil" => ks = "preset")
        /\ (eab => op.name = "Register")
        \* operations addressed to the account URL itself (updateRegRFC, DeactivateReg) return
        \* ErrNoAccount without sending anything when the lookup fails: no request to judge
        /\ (op.name \in {"UpdateReg", "DeactivateReg"} => ks # "lookupFail")
        \* shapes are realised by search: at most one coordinate and one signature half is special per
        \* case; two leading zero octets are explored for P-521 only (top octet carries a single bit)
        /\ (zx = 0 \/ zy = 0) /\ (zr = 0 \/ zs = 0)
        /\ \A z \in {zx, zy, zr, zs} : z >= 2 => kt = "P-521"
        \* the shape of a signature is independent of the operation: explored on one POST-as-GET
        /\ ((zr # 0 \/ zs # 0) => (op.name = "GetOrder" /\ ks = "preset" /\ zx = 0 /\ zy = 0))
        /\ out = None /\ phase = "case"

Encode ==
  /\ phase = "case"
  /\ out' = [form    |-> IF UsesKid(op, ks) THEN "kid" ELSE "jwk",
             alg     |-> Alg(kt),
             hash    |-> Hash(kt),
             xlen    |-> IF IsEC(kt) THEN FixedLen(kt, zx) ELSE 0,
             ylen    |-> IF IsEC(kt) THEN FixedLen(kt, zy) ELSE 0,
             siglen  |-> IF IsEC(kt) THEN FixedLen(kt, zr) + FixedLen(kt, zs) ELSE FixedLen(kt, zr),
             payload |-> op.payload,
             nonce   |-> TRUE,
             url     |-> TRUE,
             members |-> ThumbMembers(kt),
             signer  |-> SigningKey(op),
             eab     |-> IF eab THEN "HS256-over-account-jwk" ELSE "none",
             \* an unset KID costs one newAccount(onlyReturnExisting) request in jwk form first
             lookup  |-> (op.key = "nil" /\ ks # "preset")]
  /\ phase' = "done"
  /\ UNCHANGED <<kt, zx, zy, zr, zs, op, ks, eab>>

Next == Encode
Spec == Init /\ [][Next]_vars

-----------------------------------------------------------------------------
Done == phase = "done"
\* J1: jwk or kid, never both, never neither; kid exactly when no key is passed and the account URL is known
J1_JwkXorKid == Done => /\ out.form \in {"jwk", "kid"}
                        /\ (out.form = "kid") <=> UsesKid(op, ks)
                        /\ (op.name \in {"Register", "GetReg", "RevokeCertByCertKey"}) => out.form = "jwk"
\* J2: alg and hash follow the key type / curve
J2_Alg == Done => out.alg = Alg(kt) /\ out.hash = Hash(kt)
\* J3: fixed widths: 32/48/66 octets per coordinate and per signature half, whatever the values' shape
J3_FixedWidth == Done => /\ IsEC(kt) => /\ out.xlen = Width(kt) /\ out.ylen = Width(kt)
                                       /\ out.siglen = 2 * Width(kt)
                                       /\ Width(kt) \in {32, 48, 66}
                         /\ ~IsEC(kt) => out.siglen = Width(kt)
\* J4: POST-as-GET has an empty payload and is always a kid request of an account-key operation
J4_PostAsGet == Done => (op.payload = "empty" => (out.payload = "empty" /\ op.key = "nil"))
\* J5: thumbprint members are the required ones in lexicographic order
Sorted(s) == \A i \in 1..(Len(s) - 1) : \A j \in (i + 1)..Len(s) :
                \* lexicographic order on the member names used here, by first letter (all distinct)
                LET ord(c) == CASE c = "crv" -> 1 [] c = "e" -> 2 [] c = "kty" -> 3 [] c = "n" -> 4 [] c = "x" -> 5 [] c = "y" -> 6
                IN ord(s[i]) < ord(s[j])
J5_Thumbprint == Done => Sorted(out.members) /\ Len(out.members) = (IF IsEC(kt) THEN 4 ELSE 3)
\* J6: every signed request carries nonce and url; the EAB object exists only on registration
J6_Protected == Done => out.nonce /\ out.url /\ ((out.eab # "none") => (op.name = "Register" /\ out.form = "jwk"))
=============================================================================
