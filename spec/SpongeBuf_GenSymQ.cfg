SPECIFICATION GSpec
CONSTANTS
  Kinds = {"shake", "fixed", "legacy"}
  WSet = {0, 1, 9999, 10000, 10001}
  RSet = {0, 1, 9999, 10001, 20001}
  MaxLen = 1000000
  MaxOut = 1000000
  MaxObjs = 2
  ShakeResetAfterRead = FALSE
  Depth = 3
INVARIANTS Emit
CHECK_DEADLOCK FALSE
