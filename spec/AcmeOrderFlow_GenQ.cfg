\* quick generator: all histories, one authorization per order, three offer sets
SPECIFICATION GenSpec
CONSTANTS
  HTTP01 = {TRUE, FALSE}
  NAuthz = 1
  OfferSets <- QuickOffers
  MaxOrders = 3
  Faults <- AllFaults
INVARIANTS Emit F1_Bounded F2_ProvisionedBeforeAccept F3_NoTokenLeft F4_NoPendingLeft F5_FinalizeOnlyReady F6_OnlyPendingAccepted
CHECK_DEADLOCK FALSE
