SPECIFICATION TraceSpec
CONSTANT Cap = 3
INVARIANT Bounded
CONSTRAINT HWM
POSTCONDITION TraceAccepted
CHECK_DEADLOCK FALSE
