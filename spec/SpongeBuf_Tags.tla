---------------------------- MODULE SpongeBuf_Tags ----------------------------
(***************************************************************************)
(* C08, binding E: TLC evaluates the executable definitions of             *)
(* spec/PrimKeccak.tla and prints the expected output streams the Go       *)
(* harness compares the real sha3 package with:                            *)
(*   TRACE {"fn", "seed", "len", "nseed", "nlen", "sseed", "slen", "z"}    *)
(* z = the first Out(fn) bytes of XOF(fn, N, S, Pat(seed, len)) with       *)
(* N = Pat(nseed, nlen), S = Pat(sseed, slen) (cSHAKE only).               *)
(* Message lengths are the sums of at most NW lengths from                 *)
(* {0, 1, rate-1, rate, rate+1} (the totals the generated histories can    *)
(* absorb), plus the lengths in Extra; the output covers OutBlocks rates   *)
(* (+2) for the functions that can be read from, and the digest size for   *)
(* the fixed-output ones.  LongFns: one long squeeze (1000 bytes) for      *)
(* each of these (readable) functions.                                     *)
(***************************************************************************)
EXTENDS PrimKeccak, TLC, Json

CONSTANTS Fns, Seeds, NW, Extra, OutBlocks, NSCases, LongFns
VARIABLES c

Readable(fn) == fn \notin {"sha3-224", "sha3-256", "sha3-384", "sha3-512"}
IsCShake(fn) == fn \in {"cshake128", "cshake256"}
RECURSIVE Sums(_, _)
Sums(W, k) == IF k = 0 THEN {0} ELSE LET S == Sums(W, k - 1) IN S \cup {s + w : s \in S, w \in W}
Lens(fn) == LET r == Rate(fn) IN Sums({0, 1, r - 1, r, r + 1}, NW) \cup Extra
Out(fn) == IF Readable(fn) THEN OutBlocks * Rate(fn) + 2 ELSE OutLen(fn)
\* cSHAKE customisations <<nseed, nlen, sseed, slen>>; the first one is used for every length, the others for a few
NSFirst == <<0, 0, 11, 15>>
NSAll == {NSFirst, <<0, 0, 0, 0>>, <<13, 4, 0, 0>>, <<13, 7, 11, 200>>, <<17, 170, 3, 1>>}
NSFor(fn, n) == IF ~IsCShake(fn) THEN {<<0, 0, 0, 0>>}
                ELSE IF NSCases /\ n \in {0, Rate(fn) - 1} THEN NSAll ELSE {NSFirst}

NSDefault(fn) == IF IsCShake(fn) THEN NSFirst ELSE <<0, 0, 0, 0>>
Case(fn, seed, n, ns, out) == [t |-> "case", fn |-> fn, seed |-> seed, len |-> n, ns |-> ns, out |-> out]
Init == c = [t |-> "root"]
\* a two-level tree so that TLC's workers share the evaluation
Next == \/ c.t = "root" /\ c' \in {[t |-> "grp", fn |-> f, j |-> j] : f \in Fns, j \in 0..3}
        \/ c.t = "grp" /\ c' \in (UNION {{Case(c.fn, s, n, ns, Out(c.fn)) : s \in Seeds, ns \in NSFor(c.fn, n)} : n \in {x \in Lens(c.fn) : x % 4 = c.j}}
                                  \cup (IF c.fn \in LongFns /\ c.j = 3
                                        THEN {Case(c.fn, s, Rate(c.fn) - 1, NSDefault(c.fn), 1000) : s \in Seeds} ELSE {}))

Emit ==
  c.t = "case" =>
    PrintT("TRACE " \o ToJson([fn |-> c.fn, seed |-> c.seed, len |-> c.len, nseed |-> c.ns[1], nlen |-> c.ns[2],
                               sseed |-> c.ns[3], slen |-> c.ns[4],
                               z |-> XOF(c.fn, Pat(c.ns[1], c.ns[2]), Pat(c.ns[3], c.ns[4]), Pat(c.seed, c.len), c.out)]))
LongQ == {"shake128", "keccak512"}
LongT == {"shake128", "shake256", "cshake128", "cshake256", "keccak256", "keccak512"}
FnsAll == {"sha3-224", "sha3-256", "sha3-384", "sha3-512", "shake128", "shake256", "cshake128", "cshake256", "keccak256", "keccak512"}
=============================================================================
