SPECIFICATION Spec
CONSTANTS
  Alphabet = {0, 7}
  MaxL = 3
  PrefixSet = {0}
INVARIANTS InjectiveNoLen
CHECK_DEADLOCK FALSE
