\* documents finding X02-F1: with a Retry-After date in the past the poll timer fires at once (expected: P4_PollSpacing violated)
SPECIFICATION Spec
CONSTANTS
  OpSet <- WaitOps
  Bundles = {TRUE, FALSE}
  MaxCalls = 1
  MaxReq = 3
  MaxEnv = 1
  Shapes <- CoreShapes
  RetrySet <- NegRetry
  Budget = 1
  Malformed = TRUE
  CertKinds <- FewCerts
  AltSet = {0, 2}
  InitStates <- InitRFC
  CallOK <- AnyCall
  EnvOK <- AnyEnv
  FixNegRA = FALSE
  Mut = "none"
VIEW MCView
INVARIANTS P4_PollSpacing
CHECK_DEADLOCK FALSE
