SPECIFICATION Spec
CONSTANTS
  Menu <- MenuKex
  AEAD <- MCAEAD
INVARIANTS BothOrNeither Mirror RFCChoice FailIffNoCommon FindCommonIsRFC
CHECK_DEADLOCK FALSE
