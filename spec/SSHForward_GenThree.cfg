SPECIFICATION GenSpec
CONSTANTS
  Listeners <- L_Three
  Targets <- T_Three
  TNet <- CTNet
  LAddr <- A_Three
  PreReg <- Reg_All
  MaxOpens = 3
  Cap = 1
  MaxHist = 4
CHECK_DEADLOCK FALSE
INVARIANT Emit
