--------------------------- MODULE SSHForward_Old ---------------------------
(* C37 -- remote forward listeners, FAITHFUL TO THE CURRENT CODE of golang.org/x/crypto/ssh
   (tcpip.go, streamlocal.go) before /verif/fixes/C37-forward-deadlock.diff.  Same variables,
   constants and property names as SSHForward.tla (the repaired design).  Differences, exactly as
   in the code:

     * forwardList.forward sends on the 1-buffered entry channel WHILE HOLDING the list mutex
       (DLookup keeps mu; DSend releases it);
     * forwardList.remove(network, addr) removes the FIRST entry with that address (not the
       caller's own entry) and closes its data channel; nothing is drained;
     * Accept is a plain receive: it returns forwards still buffered in a closed channel before
       reporting io.EOF.

   TLC finds (SSHForward_Old_*.cfg):
     R2_CloseReturns violated      -- two opens for one listener, no Accept: the dispatcher is blocked
                                      in the send holding mu, Close waits for mu forever;
     R3_AcceptAfterCloseErr violated -- one open buffered, Close, Accept: returns the buffered forward;
     R3_AcceptAfterCloseReturns / NoSpuriousEOF violated with two listeners for one address
                                      (Close of the second removes the entry of the first).
   Each of these is reproduced on the real code by harness/c37 before it is reported. *)
EXTENDS Integers, Sequences, FiniteSets, TLC

CONSTANTS Listeners,    \* listener ids
          Targets,      \* abstract (network,address) pairs
          TNet,         \* [Targets -> {"tcp","unix"}]
          LAddr,        \* [Listeners -> Targets]
          PreReg,       \* sequence of listeners already registered initially
          MaxOpens,     \* number of channel opens the peer sends
          Cap,          \* capacity of an entry channel (1 in the code)
          MaxHist       \* bound on recorded external events (generator configs); 0 = do not record

Disp == {"tcp", "unix"}
OpenIds == 1..MaxOpens

VARIABLES
  reg,       \* forwardList.entries: sequence of listener ids
  buf,       \* [Listeners -> Seq(OpenIds)]   entry.c (buffered channel)
  closedCh,  \* [Listeners -> BOOLEAN]        entry.closed is closed
  mu,        \* "free" or the process holding forwardList.Mutex
  inbox,     \* [Disp -> Seq(OpenIds)]        opens on their way to handleChannels
  dpc,       \* [Disp -> pc]  "idle" | "lookup" | "send"
  dcur,      \* [Disp -> OpenIds \cup {0}]    the open being forwarded
  dent,      \* [Disp -> Listeners \cup {"-"}] the entry found by the lookup
  nsent,     \* number of opens sent by the peer
  otgt,      \* [OpenIds -> Targets \cup {"-"}]
  ost,       \* [OpenIds -> "unsent" | "inflight" | "buffered" | "delivered" | "rejected"]
  odel,      \* [OpenIds -> Listeners \cup {"-"}]  listener holding / having accepted the open
  apc,       \* [Listeners -> "idle" | "check" | "wait"]   the application's current Accept call
  aAfter,    \* [Listeners -> BOOLEAN]  the current/last Accept call began after Close returned
  aRes,      \* [Listeners -> "none" | "conn" | "err"]  result of the last completed Accept call
  aIdx,      \* [Listeners -> Nat] index into acalls of the current call (generator only)
  cpc,       \* [Listeners -> "unreg" | "idle" | "wantLock" | "locked" | "cancel" | "done"]
  hist,      \* recorded external events (generator only)
  acalls     \* recorded Accept calls and results (generator only)

vars == <<reg, buf, closedCh, mu, inbox, dpc, dcur, dent, nsent, otgt, ost, odel, apc, aAfter, aRes, aIdx, cpc, hist, acalls>>
libvars == <<reg, buf, closedCh, mu, inbox, dpc, dcur, dent, nsent, otgt, ost, odel, apc, aAfter, aRes, cpc>>

Rec == MaxHist > 0
\* what the harness can observe of a settled state: the fate of every open, every Accept call, every Close
Snapshot == [ost |-> ost, odel |-> odel, acalls |-> acalls, cpc |-> cpc]
\* each recorded external event carries the observation of the (settled) state it was issued in
Log(e) == IF Rec THEN hist' = Append(hist, [ev |-> e, pre |-> Snapshot]) ELSE hist' = hist
CanLog == (~Rec) \/ Len(hist) < MaxHist

SeqToSet(s) == {s[i] : i \in 1..Len(s)}
RemoveFirst(s, x) == LET i == CHOOSE j \in 1..Len(s) : s[j] = x /\ \A k \in 1..(j-1) : s[k] # x
                     IN SubSeq(s, 1, i-1) \o SubSeq(s, i+1, Len(s))

Init ==
  /\ reg = PreReg
  /\ buf = [l \in Listeners |-> <<>>]
  /\ closedCh = [l \in Listeners |-> FALSE]
  /\ mu = "free"
  /\ inbox = [d \in Disp |-> <<>>]
  /\ dpc = [d \in Disp |-> "idle"]
  /\ dcur = [d \in Disp |-> 0]
  /\ dent = [d \in Disp |-> "-"]
  /\ nsent = 0
  /\ otgt = [o \in OpenIds |-> "-"]
  /\ ost = [o \in OpenIds |-> "unsent"]
  /\ odel = [o \in OpenIds |-> "-"]
  /\ apc = [l \in Listeners |-> "idle"]
  /\ aAfter = [l \in Listeners |-> FALSE]
  /\ aRes = [l \in Listeners |-> "none"]
  /\ aIdx = [l \in Listeners |-> 0]
  /\ cpc = [l \in Listeners |-> IF l \in SeqToSet(PreReg) THEN "idle" ELSE "unreg"]
  /\ hist = <<>>
  /\ acalls = <<>>

-----------------------------------------------------------------------------
(* environment: the peer and the application *)

\* the peer sends the next channel open, for target t
PeerSend(t) ==
  /\ nsent < MaxOpens /\ CanLog
  /\ nsent' = nsent + 1
  /\ otgt' = [otgt EXCEPT ![nsent + 1] = t]
  /\ ost' = [ost EXCEPT ![nsent + 1] = "inflight"]
  /\ inbox' = [inbox EXCEPT ![TNet[t]] = Append(@, nsent + 1)]
  /\ Log([e |-> "open", l |-> "-", t |-> t, o |-> nsent + 1])
  /\ UNCHANGED <<reg, buf, closedCh, mu, dpc, dcur, dent, odel, apc, aAfter, aRes, aIdx, cpc, acalls>>

\* Client.Listen*: the peer granted the request; forwardList.add (one critical section)
Listen(l) ==
  /\ cpc[l] = "unreg" /\ mu = "free" /\ CanLog
  /\ reg' = Append(reg, l)
  /\ cpc' = [cpc EXCEPT ![l] = "idle"]
  /\ Log([e |-> "listen", l |-> l, t |-> LAddr[l], o |-> 0])
  /\ UNCHANGED <<buf, closedCh, mu, inbox, dpc, dcur, dent, nsent, otgt, ost, odel, apc, aAfter, aRes, aIdx, acalls>>

\* the application calls Accept on a listener it obtained
ACall(l) ==
  /\ cpc[l] # "unreg" /\ apc[l] = "idle" /\ CanLog
  /\ apc' = [apc EXCEPT ![l] = "check"]
  /\ aAfter' = [aAfter EXCEPT ![l] = (cpc[l] = "done")]
  /\ Log([e |-> "accept", l |-> l, t |-> LAddr[l], o |-> 0])
  /\ IF Rec THEN /\ acalls' = Append(acalls, [l |-> l, after |-> (cpc[l] = "done"), res |-> "waiting", o |-> 0])
                 /\ aIdx' = [aIdx EXCEPT ![l] = Len(acalls) + 1]
            ELSE UNCHANGED <<acalls, aIdx>>
  /\ UNCHANGED <<reg, buf, closedCh, mu, inbox, dpc, dcur, dent, nsent, otgt, ost, odel, aRes, cpc>>

\* the application calls Close
CStart(l) ==
  /\ cpc[l] = "idle" /\ CanLog
  /\ cpc' = [cpc EXCEPT ![l] = "wantLock"]
  /\ Log([e |-> "close", l |-> l, t |-> LAddr[l], o |-> 0])
  /\ UNCHANGED <<reg, buf, closedCh, mu, inbox, dpc, dcur, dent, nsent, otgt, ost, odel, apc, aAfter, aRes, aIdx, acalls>>

External == \/ \E t \in Targets : PeerSend(t)
            \/ \E l \in Listeners : Listen(l) \/ ACall(l) \/ CStart(l)

-----------------------------------------------------------------------------
(* forwardList.handleChannels / forward, goroutine d *)

AResult(l, r, o) == IF Rec /\ aIdx[l] > 0
                    THEN acalls' = [acalls EXCEPT ![aIdx[l]].res = r, ![aIdx[l]].o = o]
                    ELSE acalls' = acalls

DTake(d) ==                       \* receive the next open, l.Lock()
  /\ dpc[d] = "idle" /\ inbox[d] # <<>> /\ mu = "free"
  /\ mu' = d
  /\ dcur' = [dcur EXCEPT ![d] = Head(inbox[d])]
  /\ inbox' = [inbox EXCEPT ![d] = Tail(@)]
  /\ dpc' = [dpc EXCEPT ![d] = "lookup"]
  /\ UNCHANGED <<reg, buf, closedCh, dent, nsent, otgt, ost, odel, apc, aAfter, aRes, aIdx, cpc, hist, acalls>>

Match(o) == {i \in 1..Len(reg) : LAddr[reg[i]] = otgt[o]}

DLookup(d) ==                     \* first entry with the open's network and address; the lock is KEPT if found
  /\ dpc[d] = "lookup"
  /\ mu' = IF Match(dcur[d]) = {} THEN "free" ELSE mu
  /\ IF Match(dcur[d]) = {}
     THEN /\ ost' = [ost EXCEPT ![dcur[d]] = "rejected"]      \* ch.Reject(Prohibited, "no forward for address")
          /\ dpc' = [dpc EXCEPT ![d] = "idle"]
          /\ dcur' = [dcur EXCEPT ![d] = 0]
          /\ dent' = dent
     ELSE /\ dent' = [dent EXCEPT ![d] = reg[CHOOSE i \in Match(dcur[d]) : \A j \in Match(dcur[d]) : i <= j]]
          /\ dpc' = [dpc EXCEPT ![d] = "send"]
          /\ UNCHANGED <<ost, dcur>>
  /\ UNCHANGED <<reg, buf, closedCh, inbox, nsent, otgt, odel, apc, aAfter, aRes, aIdx, cpc, hist, acalls>>

DSend(d) ==                       \* f.c <- forward{...} under the lock; then the deferred l.Unlock()
  /\ dpc[d] = "send" /\ Len(buf[dent[d]]) < Cap
  /\ buf' = [buf EXCEPT ![dent[d]] = Append(@, dcur[d])]
  /\ ost' = [ost EXCEPT ![dcur[d]] = "buffered"]
  /\ odel' = [odel EXCEPT ![dcur[d]] = dent[d]]
  /\ mu' = "free"
  /\ dpc' = [dpc EXCEPT ![d] = "idle"]
  /\ dcur' = [dcur EXCEPT ![d] = 0]
  /\ dent' = [dent EXCEPT ![d] = "-"]
  /\ UNCHANGED <<reg, closedCh, inbox, nsent, otgt, apc, aAfter, aRes, aIdx, cpc, hist, acalls>>

Dispatcher(d) == DTake(d) \/ DLookup(d) \/ DSend(d)

-----------------------------------------------------------------------------
(* Accept: s, ok := <-l.in *)

ACheck(l) ==                      \* (no separate check in the current code)
  /\ apc[l] = "check"
  /\ apc' = [apc EXCEPT ![l] = "wait"]
  /\ UNCHANGED <<reg, buf, closedCh, mu, inbox, dpc, dcur, dent, nsent, otgt, ost, odel, aAfter, aRes, aIdx, cpc, hist, acalls>>

ARecv(l) ==                       \* a buffered forward is received even from a closed channel
  /\ apc[l] = "wait" /\ buf[l] # <<>>
  /\ buf' = [buf EXCEPT ![l] = Tail(@)]
  /\ ost' = [ost EXCEPT ![Head(buf[l])] = "delivered"]
  /\ apc' = [apc EXCEPT ![l] = "idle"]
  /\ aRes' = [aRes EXCEPT ![l] = "conn"]
  /\ AResult(l, "conn", Head(buf[l]))
  /\ UNCHANGED <<reg, closedCh, mu, inbox, dpc, dcur, dent, nsent, otgt, odel, aAfter, aIdx, cpc, hist>>

AEof(l) ==                        \* closed and empty: io.EOF
  /\ apc[l] = "wait" /\ closedCh[l] /\ buf[l] = <<>>
  /\ apc' = [apc EXCEPT ![l] = "idle"]
  /\ aRes' = [aRes EXCEPT ![l] = "err"]
  /\ AResult(l, "err", 0)
  /\ UNCHANGED <<reg, buf, closedCh, mu, inbox, dpc, dcur, dent, nsent, otgt, ost, odel, aAfter, aIdx, cpc, hist>>

Acceptor(l) == ACheck(l) \/ ARecv(l) \/ AEof(l)

-----------------------------------------------------------------------------
(* Close: forwardList.remove(entry), rejectPending, cancel request *)

CLock(l) ==
  /\ cpc[l] = "wantLock" /\ mu = "free"
  /\ mu' = l
  /\ cpc' = [cpc EXCEPT ![l] = "locked"]
  /\ UNCHANGED <<reg, buf, closedCh, inbox, dpc, dcur, dent, nsent, otgt, ost, odel, apc, aAfter, aRes, aIdx, hist, acalls>>

Victims(l) == {i \in 1..Len(reg) : LAddr[reg[i]] = LAddr[l]}
Victim(l) == reg[CHOOSE i \in Victims(l) : \A j \in Victims(l) : i <= j]
CRemove(l) ==                     \* remove(network, addr): the FIRST entry with this address; close(f.c); Unlock
  /\ cpc[l] = "locked"
  /\ IF Victims(l) = {} THEN UNCHANGED <<reg, closedCh>>
     ELSE /\ reg' = RemoveFirst(reg, Victim(l))
          /\ closedCh' = [closedCh EXCEPT ![Victim(l)] = TRUE]
  /\ mu' = "free"
  /\ cpc' = [cpc EXCEPT ![l] = "cancel"]
  /\ UNCHANGED <<buf, inbox, dpc, dcur, dent, nsent, otgt, ost, odel, apc, aAfter, aRes, aIdx, hist, acalls>>

CCancel(l) ==                     \* cancel-tcpip-forward / cancel-streamlocal-forward round trip
  /\ cpc[l] = "cancel"
  /\ cpc' = [cpc EXCEPT ![l] = "done"]
  /\ UNCHANGED <<reg, buf, closedCh, mu, inbox, dpc, dcur, dent, nsent, otgt, ost, odel, apc, aAfter, aRes, aIdx, hist, acalls>>

Closer(l) == CLock(l) \/ CRemove(l) \/ CCancel(l)

-----------------------------------------------------------------------------
Internal == (\E d \in Disp : Dispatcher(d)) \/ (\E l \in Listeners : Acceptor(l) \/ Closer(l))
Next == External \/ Internal

Fairness == /\ \A d \in Disp : WF_vars(Dispatcher(d))
            /\ \A l \in Listeners : WF_vars(Closer(l)) /\ WF_vars(Acceptor(l))
\* no fairness on External: the peer need not send, the application need not call Accept or Close
Spec == Init /\ [][Next]_vars /\ Fairness

\* generator: the harness lets the library settle between two external events
Quiescent == ~ENABLED Internal
GenNext == Internal \/ (Quiescent /\ External)
GenSpec == Init /\ [][GenNext]_vars

-----------------------------------------------------------------------------
(* properties *)

TypeOK ==
  /\ SeqToSet(reg) \subseteq Listeners
  /\ \A l \in Listeners : Len(buf[l]) <= Cap
  /\ mu \in {"free"} \cup Disp \cup Listeners
  /\ nsent \in 0..MaxOpens

\* R1: an open sits in / was accepted from the queue of listener l only if l registered exactly its target
R1_OnlyExact == \A o \in OpenIds : ost[o] \in {"buffered", "delivered"} => (odel[o] \in Listeners /\ LAddr[odel[o]] = otgt[o])
\* R1: opens for a target no listener ever registers are never queued or delivered ...
Registrable == {LAddr[l] : l \in Listeners}
R1_Spurious == \A o \in OpenIds : (otgt[o] # "-" /\ otgt[o] \notin Registrable) => ost[o] \in {"inflight", "rejected"}
\* ... and are eventually rejected
R1_SpuriousRejected == \A o \in OpenIds : [](ost[o] = "inflight" /\ otgt[o] \notin Registrable => <>(ost[o] = "rejected"))
\* buffer contents and status agree
BufConsistent == \A l \in Listeners : \A i \in 1..Len(buf[l]) : ost[buf[l][i]] = "buffered" /\ odel[buf[l][i]] = l

\* R2: Close returns
R2_CloseReturns == \A l \in Listeners : (cpc[l] = "wantLock") ~> (cpc[l] = "done")
\* R3: an Accept call that began after Close returned does not yield a connection, and returns
R3_AcceptAfterCloseErr == \A l \in Listeners : (aAfter[l] /\ apc[l] = "idle") => aRes[l] # "conn"
R3_AcceptAfterCloseReturns == \A l \in Listeners : (aAfter[l] /\ apc[l] # "idle") ~> (apc[l] = "idle")
\* R1, decidedness: every forwarded open is either delivered to an Accept call or rejected.  When the library is
\* quiescent, an open without an answer is waiting for the APPLICATION: it sits in the queue of a listener that is
\* still open, or it is (behind) the forward that a dispatcher has parked in the send/closed select of a listener that
\* is still open.  In particular the forward that was parked in forward() when its listener was closed (queue
\* capacity 1, >= 2 opens, no Accept) must have been rejected (DSendClosed), as must the one that was queued (CDrain).
Undecided(o) == ost[o] \in {"inflight", "buffered"}
WaitingForApp(o) == \/ \E l \in Listeners : ~closedCh[l] /\ \E i \in 1..Len(buf[l]) : buf[l][i] = o
                    \/ \E d \in Disp : /\ dpc[d] = "send" /\ ~closedCh[dent[d]]
                                        /\ (dcur[d] = o \/ \E i \in 1..Len(inbox[d]) : inbox[d][i] = o)
R1_Decided == (~ENABLED Internal) => \A o \in OpenIds : Undecided(o) => WaitingForApp(o)
\* ... and once every listener is closed, every open that was sent gets its answer
AllClosed == \A l \in Listeners : cpc[l] = "done"
R1_DecidedOnceClosed == \A o \in OpenIds : (Undecided(o) /\ AllClosed) ~> (ost[o] \in {"delivered", "rejected"})
\* safety forms of R2/R3-liveness: the library is never quiescent (no step of the dispatchers, of Close or of a
\* started Accept enabled) with a Close waiting for the list mutex / an after-Close Accept call still pending.
\* In such a state only the application's decision to Accept more could help, which the property does not allow to rely on.
NoCloseStuck == ~((~ENABLED Internal) /\ \E l \in Listeners : cpc[l] \notin {"unreg", "idle", "done"})
NoAcceptAfterCloseStuck == ~((~ENABLED Internal) /\ \E l \in Listeners : aAfter[l] /\ apc[l] # "idle")
\* a listener that was not closed does not report end-of-file (not part of C37's wording; informational)
NoSpuriousEOF == \A l \in Listeners : (aRes[l] = "err") => cpc[l] \in {"drain", "cancel", "done"}
\* the list mutex is never held across a blocking channel operation
NoBlockingUnderLock == \A d \in Disp : dpc[d] = "send" => mu # d
\* nothing is left queued for a closed listener once the library is quiescent
NothingLeftBehind == (~ENABLED Internal) => \A l \in Listeners : cpc[l] = "done" => buf[l] = <<>>
=============================================================================
