---------------------------- MODULE AcmeOrder_MC ----------------------------
(* Bounded instances of AcmeOrder (X02): initial server states, operation menus. *)
EXTENDS AcmeOrder
MCView == <<svars, cvars>>          \* hide the last-event variable in exhaustive checking

\* RFC 8555-consistent snapshots of (order, authorization, challenge)
InitRFC == { <<"pending", "pending", "pending">>,    <<"pending", "pending", "processing">>,
             <<"pending", "valid", "valid">>,        <<"ready", "valid", "valid">>,
             <<"processing", "valid", "valid">>,     <<"valid", "valid", "valid">>,
             <<"invalid", "invalid", "invalid">>,    <<"pending", "deactivated", "pending">>,
             <<"valid", "expired", "valid">>,        <<"valid", "revoked", "valid">> }
InitAll == OrdSt \X AzSt \X ChSt
InitOne == { <<"pending", "pending", "pending">> }
InitReady == { <<"ready", "valid", "valid">>, <<"processing", "valid", "valid">> }

\* first-call filters
AnyCall(n, o, a, c) == TRUE
\* one initial state per distinct status of the resources the operation can see
FocusCall(n, o, a, c) ==
  CASE n \in {"AuthorizeOrder", "GetOrder", "WaitOrder", "CreateOrderCert"} -> TRUE
    [] n \in {"GetAuthorization", "WaitAuthorization", "RevokeAuthorization"} ->
         <<o, a, c>> \in { <<"pending", "pending", "pending">>, <<"pending", "pending", "processing">>, <<"pending", "valid", "valid">>,
                          <<"invalid", "invalid", "invalid">>, <<"pending", "deactivated", "pending">>, <<"valid", "expired", "valid">>,
                          <<"valid", "revoked", "valid">> }
    [] n \in {"GetChallenge", "Accept"} ->
         <<o, a, c>> \in { <<"pending", "pending", "pending">>, <<"pending", "pending", "processing">>, <<"pending", "valid", "valid">>,
                          <<"invalid", "invalid", "invalid">> }
    [] OTHER -> <<o, a, c>> = <<"pending", "pending", "pending">>

\* environment filters
AnyEnv(r) == TRUE
\* only the resource the pending request shows (used with the malformed server, whose resources are not coupled)
FocusEnv(r) == r = (CASE cur \in OrderReqs -> "ord" [] cur \in {"authz", "deact"} -> "az" [] cur \in {"chal", "accept"} -> "ch" [] OTHER -> "none")

QuickShapes == {"ok", "noloc", "nocert", "garbage", "e4xx", "e5xx", "neterr", "cancel"}
AllShapes  == {"ok", "ctype", "noloc", "nocert", "garbage", "e4xx", "e5xx", "neterr", "cancel"}
CoreShapes == {"ok", "noloc", "garbage", "e4xx", "e5xx", "cancel"}
AllCerts   == {"c1", "c2", "c5", "c6", "c1key", "empty", "junk", "keyfirst", "big"}
FewCerts   == {"c2", "c6", "junk"}
NegRetry   == {0, 0 - 1}            \* a cfg file cannot spell a negative number
WaitOps    == {"WaitOrder", "WaitAuthorization", "CreateOrderCert"}
FlowOps    == {"AuthorizeOrder", "GetAuthorization", "Accept", "WaitAuthorization", "WaitOrder", "CreateOrderCert",
               "RevokeAuthorization", "DeactivateReg"}
=============================================================================
