---------------------------- MODULE AcmeOrder_MC ----------------------------
(* Bounded instances of AcmeOrder (X02): initial server states, operation menus. *)
EXTENDS AcmeOrder
MCView == <<svars, cvars>>          \* hide the last-event variable in exhaustive checking

\* RFC 8555-consistent snapshots of (order, authorization, challenge)
InitRFC == { <<"pending", "pending", "pending">>,    <<"pending", "pending", "processing">>,
             <<"pending", "valid", "valid">>,        <<"ready", "valid", "valid">>,
             <<"processing", "valid", "valid">>,     <<"valid", "valid", "valid">>,
             <<"invalid", "invalid", "invalid">>,    <<"pending", "deactivated", "pending">>,
             <<"valid", "expired", "valid">>,        <<"valid", "revoked", "valid">> }
InitAll == OrdSt \X AzSt \X ChSt
InitOne == { <<"pending", "pending", "pending">> }
InitReady == { <<"ready", "valid", "valid">>, <<"processing", "valid", "valid">> }

AllShapes  == {"ok", "ctype", "noloc", "nocert", "garbage", "e4xx", "e5xx", "neterr", "cancel"}
CoreShapes == {"ok", "noloc", "garbage", "e4xx", "e5xx", "cancel"}
AllCerts   == {"c1", "c2", "c5", "c6", "c1key", "empty", "junk", "keyfirst", "big"}
FewCerts   == {"c2", "c6", "junk"}
WaitOps    == {"WaitOrder", "WaitAuthorization", "CreateOrderCert"}
FlowOps    == {"AuthorizeOrder", "GetAuthorization", "Accept", "WaitAuthorization", "WaitOrder", "CreateOrderCert",
               "RevokeAuthorization", "DeactivateReg"}
=============================================================================
