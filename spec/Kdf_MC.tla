------------------------------- MODULE Kdf_MC -------------------------------
(***************************************************************************)
(* C18, binding E: TLC evaluates Kdf.tla on enumerated inputs and prints   *)
(* the values the Go harness compares the real hkdf / pbkdf2 packages      *)
(* (run with the toy hash) with.  Inputs are patterns: secret = TPat(11,n) *)
(* salt = TPat(23, n), info = TPat(37, n), password = TPat(41, n).         *)
(* Model-level laws checked on every case: stream prefix-consistency (the  *)
(* stream of n blocks is a prefix of the stream of 255), Extract with an   *)
(* absent salt = Extract with HashLen zero octets, PBKDF2 with c = 1 is    *)
(* PRF(P, S | INT(i)), shorter keys are prefixes of longer ones, and an    *)
(* HMAC key longer than the block is replaced by its hash.                 *)
(***************************************************************************)
EXTENDS Kdf, TLC, Json

CONSTANTS HkdfCases,   \* set of <<h, secretLen, saltLen, infoLen>>
          PbCases,     \* set of <<h, pwLen, saltLen, iter, dkLen>>
          PbBig        \* set of <<h, pwLen, saltLen, iter, dkLen>> with dkLen beyond 255 blocks
VARIABLES c

Init == c = [t |-> "root"]
Next == \/ /\ c.t = "root"
           /\ c' \in {[t |-> "pre", x |-> [t |-> "hkdf", h |-> k[1], sl |-> k[2], tl |-> k[3], il |-> k[4]]] : k \in HkdfCases}
                 \cup {[t |-> "pre", x |-> [t |-> "pbkdf2", h |-> k[1], pl |-> k[2], tl |-> k[3], it |-> k[4], dk |-> k[5]]] : k \in PbCases \cup PbBig}
                 \cup {[t |-> "pre", x |-> [t |-> "toyvec"]]}
        \/ c.t = "pre" /\ c' = c.x

HkdfOK(cc) ==
  \E secret \in {TPat(11, cc.sl)} : \E salt \in {TPat(23, cc.tl)} : \E info \in {TPat(37, cc.il)} :
  \E prk \in {HkdfExtract(cc.h, salt, secret)} :
  \E okm \in {HkdfStream(cc.h, prk, info, 255)} :
     /\ Assert(Len(prk) = cc.h /\ Len(okm) = 255 * cc.h, <<"lengths", cc>>)
     /\ Assert(HkdfStream(cc.h, prk, info, 3) = SubSeq(okm, 1, 3 * cc.h), <<"prefix", cc>>)
     /\ Assert(cc.tl # 0 \/ prk = HkdfExtract(cc.h, Zeros(cc.h), secret), <<"nil salt", cc>>)
     /\ Assert(SubSeq(okm, 1, cc.h) = ToyHMAC(cc.h, prk, info \o <<1>>), <<"T1", cc>>)
     /\ PrintT("TRACE " \o ToJson([t |-> "hkdf", h |-> cc.h, secret |-> secret, salt |-> salt, info |-> info,
                                prk |-> prk, okm |-> okm]))

PbOK(cc) ==
  \E pw \in {TPat(41, cc.pl)} : \E salt \in {TPat(23, cc.tl)} :
  \E dk \in {Force(Pbkdf2(cc.h, pw, salt, cc.it, cc.dk))} :
     /\ Assert(Len(dk) = cc.dk, <<"length", cc>>)
     /\ Assert(cc.dk > 40 \/ \A n \in {x \in {1, cc.h + 1} : x <= cc.dk} : Pbkdf2(cc.h, pw, salt, cc.it, n) = SubSeq(dk, 1, n), <<"prefix", cc>>)
     /\ Assert(cc.it # 1 \/ LET m == IF cc.dk < cc.h THEN cc.dk ELSE cc.h IN
                              SubSeq(dk, 1, m) = SubSeq(ToyHMAC(cc.h, pw, salt \o <<0, 0, 0, 1>>), 1, m), <<"c=1", cc>>)
     /\ Assert(cc.pl <= 2 * cc.h \/ cc.dk > 40 \/ dk = Pbkdf2(cc.h, ToyHash(cc.h, pw), salt, cc.it, cc.dk), <<"long key", cc>>)
     /\ PrintT("TRACE " \o ToJson([t |-> "pbkdf2", h |-> cc.h, pw |-> pw, salt |-> salt, iter |-> cc.it, dklen |-> cc.dk, dk |-> dk]))

\* vectors for validating the Go twin of the toy hash / HMAC in the same run
ToyVecOK ==
  PrintT("TRACE " \o ToJson([t |-> "toyvec",
      hash |-> [i \in 1..24 |-> [h |-> 3 + (i % 2), m |-> TPat(50 + i, i - 1), d |-> ToyHash(3 + (i % 2), TPat(50 + i, i - 1))]],
      hmac |-> [i \in 1..14 |-> [h |-> 3 + (i % 2), k |-> TPat(60 + i, (i * 3) % 13), m |-> TPat(70 + i, i),
                                 d |-> ToyHMAC(3 + (i % 2), TPat(60 + i, (i * 3) % 13), TPat(70 + i, i))]]]))

Check == CASE c.t = "hkdf" -> HkdfOK(c)
           [] c.t = "pbkdf2" -> PbOK(c)
           [] c.t = "toyvec" -> ToyVecOK
           [] OTHER -> TRUE

\* ---- case sets
HkdfCasesQ == {<<4, 5, 0, 0>>, <<4, 10, 9, 7>>, <<4, 1, 8, 20>>, <<3, 4, 0, 2>>, <<3, 7, 7, 0>>}
HkdfCasesT == {<<h, sl, tl, il>> : h \in {3, 4}, sl \in {0, 1, 10}, tl \in {0, 1, 8, 9}, il \in {0, 1, 7, 20}}
PbCasesQ == {<<4, pl, tl, it, 13>> : pl \in {0, 9}, tl \in {0, 8}, it \in {1, 2}}
            \cup {<<4, 3, 8, it, 13>> : it \in 1..5}
            \cup {<<4, 5, 4, it, dk>> : it \in {1, 3}, dk \in {1, 3, 4, 5, 7, 8, 9, 12}}
            \cup {<<3, 7, 2, it, 10>> : it \in {1, 4}}
PbCasesT == {<<h, pl, tl, it, 3 * h + 1>> : h \in {3, 4}, pl \in {0, 1, 8, 9, 10}, tl \in {0, 1, 8}, it \in 1..5}
            \cup {<<h, 5, 4, it, dk>> : h \in {3, 4}, it \in {1, 2, 5}, dk \in 1..13}
PbBigQ == {<<4, 5, 4, 1, 1030>>}
PbBigT == {<<4, 5, 4, 1, 1030>>, <<4, 9, 8, 2, 1029>>, <<3, 2, 3, 1, 775>>}
=============================================================================
