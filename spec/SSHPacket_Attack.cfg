SPECIFICATION Spec
CONSTANTS
  Modes <- AttackReps
  MaxPacket = 262144
  SeqMod = 8
  CtrBase = 3
  CtrLimbs = 2
  Sizes <- SizesAttack
  StartSeqs <- SeqNearWrap8
  StartCtrs <- Ctr0Small
  MaxPkts = 3
  MaxFaults = 2
  AttackOps <- AllOps
  Phased = FALSE
  PadRule = "code"
INVARIANTS TypeOK DeliveredPrefix SeqCounts OnlyIntactAccepted ErrorHasCause PredictionRight
PROPERTIES NothingAfterError
CHECK_DEADLOCK FALSE
