\* non-vacuity: the deliberately wrong client certEarly must violate P6_CertAfterValid
SPECIFICATION Spec
CONSTANTS
  OpSet <- WaitOps
  Bundles = {TRUE, FALSE}
  MaxCalls = 1
  MaxReq = 3
  MaxEnv = 1
  Shapes <- CoreShapes
  RetrySet = {0, 3}
  Budget = 1
  Malformed = TRUE
  CertKinds <- FewCerts
  AltSet = {0, 2}
  InitStates <- InitRFC
  CallOK <- AnyCall
  EnvOK <- AnyEnv
  FixNegRA = FALSE
  Mut = "certEarly"
VIEW MCView
INVARIANTS P6_CertAfterValid
CHECK_DEADLOCK FALSE
