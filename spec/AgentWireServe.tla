--------------------------- MODULE AgentWireServe ---------------------------
(* X06 (growth) -- what ServeAgent does with ONE request, at the level of the agent: the per-message
   dispatch table of server.go (processRequest) onto the operations of the agent of C43
   (spec/Agent.tla, reused by INSTANCE: the abstract agent akeys/locked/pass stepping together with
   the implementation-shaped keyring list), and the reply that goes back.

   An (abstract) request is a record  [op, k, c, n, bad]:
       op   add remove removeall list sign lock unlock ext        -- dispatched to the agent
            signers                                              -- (direct calls of the Agent interface only)
            v1list v1removeall                                   -- protocol 1 stubs, answered without the agent
            unknown malformed foreign                            -- failure reply, the agent is not touched
       k    key name ("" when the op has none)        c   comment / passphrase label
       n    lifetime (add) or signature flags (sign)   bad unsupported constraint of an add: none|confirm|ext
   An (abstract) reply is  [t, ks, f]:  t in failure success ids sig v1ids;  ks = set of <<key, comment>>
   for ids;  f = signature format label for sig.

   Serve(r) is one atomic step -- the critical section under keyring.mu; it is the linearization
   point of the request. *)
EXTENDS Integers, Sequences, FiniteSets, TLC

CONSTANTS Keys, RSAKeys, Pass, Lifetimes, Ticks, Comments, Flags, MaxLen
VARIABLES list, akeys, locked, pass, last, hist

A == INSTANCE Agent
agentVars == <<list, akeys, locked, pass, last, hist>>

AReq(op, k, c, n, bad) == [op |-> op, k |-> k, c |-> c, n |-> n, bad |-> bad]
AgentOps == {"add", "remove", "removeall", "list", "sign", "lock", "unlock", "ext", "signers"}
StubOps == {"v1list", "v1removeall"}
RejectOps == {"unknown", "malformed", "foreign"}

Serve(r) ==
  CASE r.op = "add" -> A!Add(r.k, r.n, r.c, r.bad)
    [] r.op = "remove" -> A!Remove(r.k)
    [] r.op = "removeall" -> A!RemoveAll
    [] r.op = "list" -> A!List
    [] r.op = "sign" -> A!Sign(r.k, r.n)
    [] r.op = "lock" -> A!Lock(r.c)
    [] r.op = "unlock" -> A!Unlock(r.c)
    [] r.op = "ext" -> A!Extension
    [] r.op = "signers" -> A!Signers                 \* not a wire request: a direct call of Agent.Signers
    [] OTHER -> UNCHANGED agentVars

Rp(t) == [t |-> t, ks |-> {}, f |-> ""]
\* the reply to r when  lo  is the agent's record of the operation just performed (last')
ReplyFor(r, lo) ==
  CASE r.op \in RejectOps -> Rp("failure")
    [] r.op = "v1list" -> Rp("v1ids")
    [] r.op = "v1removeall" -> Rp("success")
    [] OTHER -> CASE lo.res.t = "ok" -> Rp("success")
                  [] lo.res.t = "list" -> [t |-> "ids", ks |-> lo.res.ks, f |-> ""]
                  [] lo.res.t = "sig" -> [t |-> "sig", ks |-> {}, f |-> lo.res.f]
                  [] lo.res.t = "signers" -> [t |-> "signers", ks |-> lo.res.ks, f |-> ""]
                  [] OTHER -> Rp("failure")              \* err, unsupported (extension)
=============================================================================
