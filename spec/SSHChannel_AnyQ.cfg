SPECIFICATION MCSpec
CONSTANTS
  Windows = {3}
  MaxPayloads = {1, 2}
  Budget <- B330
  MaxCalls = 2
  MaxRead = 2
  Greedy = FALSE
  CreditFirst = TRUE
  RecvPolicy = "any"
INVARIANTS TypeOK NoSleepWithWindow F1 F1c F2 SenderWithinWindow NoError F3
CHECK_DEADLOCK FALSE
