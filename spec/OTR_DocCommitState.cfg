SPECIFICATION Spec
CONSTANTS
  Starts <- AnyStart
  MaxData = 0
  FragChoices <- F1
  MaxFaults = 1
  FaultKinds <- TamperOnly
  MaxAuth = 0
  Secrets <- S1
  Questions <- Q0
  AllowEnd = FALSE
  MaxRequery = 0
  FixCommitState = FALSE
  SeqSMP = FALSE
  FixSMPReset = TRUE
INVARIANTS NoNilKey
CHECK_DEADLOCK FALSE
