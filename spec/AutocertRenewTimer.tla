--------------------------- MODULE AutocertRenewTimer ---------------------------
(* GROWTH SPECIFICATION X05, parts (a) and (b) -- the renewal timer discipline of
   golang.org/x/crypto/acme/autocert, which C51 (Autocert.tla / AutocertRenew.tla) left out:

     renewal.go   domainRenewal.start / stop / renew / updateState / do   (next: AutocertRenew.tla)
     autocert.go  Manager.startRenew / stopRenew / renewal map, the two call sites of startRenew
                  (m.cert after a cache hit, under stateMu; m.createCert after an issuance), the
                  delayed removal of a failed state, GetCertificate serving from Manager.state

   One action per critical section.  The mutexes that are held ACROSS blocking operations are
   explicit: timerMu[k] (held by renew for the whole renewal, and by stop), renewalMu (held by
   stopRenew while it stops every timer), stateMu (held by m.cert while it calls startRenew).
   Time is a counter `now`; a timer is armed with the window [lo, hi] in which it fires (the
   jitter of domainRenewal.next is the environment's choice, AutocertRenew.tla gives the window):
        renewal of certificate c:  lo = max(now, c.na - Thr),  hi = max(now, c.na - Thr + MaxJit)
        retry after a failure:     lo = now + RetryLo,         hi = now + RetryHi   (30..60 min)
   Fire is enabled from lo on (a timer goroutine may be late; that it is not EARLY, and in
   virtual time exactly on time, is what the trace specification checks against the real code).

   What the documentation promises (renewal.go comments, Manager docs) and TLC checks:

     T1 OneTimer        per certKey at most one domainRenewal is registered and at most one timer
                        is live (armed, or fired and not yet handled); renewals of one key never
                        overlap                                          ("one per domain")
     T2 StartNoop       "If the timer is already started, calling start is a noop": a startRenew
                        for a registered key changes nothing
     T3 StopFinal       "stop stops the cert renewal timer and waits for any in-flight calls to
                        renew to complete": when stopRenew has returned, no renewal of a key it
                        stopped is running, pending or armed, and none starts later ("The timers
                        are not restarted during the lifetime of the Manager")
     T4 RenewReplaces   "upon success, replaces dr.m.state item with a new one and updates cache":
                        after a successful iteration the new certificate is in Manager.state AND
                        in the cache, and the timer is armed for the NEW certificate
     T5 FailKeeps       a failed iteration (CA refusal, unusable certificate, Cache.Put error)
                        leaves state and cache as they were and re-arms the timer 30..60 min ahead
     T6 Independent     a step concerning one certKey leaves state, cache, timer and renewal of every
                        other certKey untouched
     T7 Monotone        the certificate in Manager.state is never replaced by one that expires
                        earlier (assumption A below), so a caller is never served an older
                        certificate than an earlier caller
     T8 NonBlocking     GetCertificate for a name whose certificate is in Manager.state is never
                        blocked by a renewal in flight (it needs stateMu only, which a renewal holds
                        for the pointer swap of updateState alone); what it is served is one whole
                        certState (the swap is atomic under stateMu)
     T9 LoopAlive       while a certificate is in Manager.state and stopRenew was not called, the
                        renewal loop of its key is alive (armed, fired or running): every iteration,
                        successful or not, re-arms
     T10 ExpiredOnlyWhileDueOrFailing  (part b) GetCertificate serves what Manager.state holds
                        WITHOUT re-validating it (the documentation does not promise otherwise:
                        only cacheGet "always returns a valid certificate"); an expired certificate
                        can therefore be served, but only while its renewal is due/in flight or the
                        last attempt failed and a retry is armed -- never while a renewal is
                        scheduled for later

   Assumption A (stated, used by T4 and T7): a GetCertificate call on the first-issuance path
   (createCert as owner or as waiter, then cachePut) is short compared with the renewal delay of
   the certificate it obtains: no clock tick passes during it, and Thr < Life (a fresh certificate
   is not due at once).  GetCertificate bounds itself to 5 minutes; renewal delays are two thirds of
   the lifetime.  Without A, TLC shows that the late cachePut of such a call (owner and waiters
   all store the certificate they were handed) can overwrite what a renewal has just stored, after
   which the cache holds the OLDER certificate.  The cache is written by this Manager only.

   Observation kept out of the verdicts (stopRenew is test-only API): stopRenew holds renewalMu
   while waiting for timerMu; renew holds timerMu while waiting for stateMu (updateState); m.cert
   holds stateMu while waiting for renewalMu (startRenew).  The three can wait for each other
   (NoLockCycle, expected to FAIL when a stopper runs concurrently with callers). *)
EXTENDS Integers, FiniteSets, TLC

CONSTANTS Keys,         \* certKeys (name x key type), strings
          Callers,      \* goroutines calling GetCertificate
          MaxCalls,     \* calls per caller
          MaxT,         \* the clock stops here
          Life,         \* lifetime of a certificate the CA issues
          Thr,          \* renewal threshold (Manager.RenewBefore / a third of the lifetime)
          MaxJit,       \* largest jitter
          RetryLo, RetryHi,
          MaxCerts,     \* the CA issues at most this many certificates
          CAOutcomes,   \* subset of {"ok", "fail"}: what the CA does with an issuance
          PutOutcomes,  \* subset of {"ok", "fail"}: what Cache.Put does during a renewal
          Preload,      \* keys whose cache entry may hold a valid certificate at the start
          WithStop      \* BOOLEAN: is there a goroutine calling stopRenew

NoKey == "none"
NoCert == [k |-> NoKey, id |-> 0, nb |-> 0, na |-> 0 - 1]
Valid(c, t) == c.id # 0 /\ c.nb <= t /\ t <= c.na           \* validCert's time check
Max(a, b) == IF a > b THEN a ELSE b
\* at: when it was armed; for: the certificate whose renewal it schedules (0: a retry after a failure)
NoTimer == [s |-> "nil", lo |-> 0, hi |-> 0, at |-> 0, for |-> 0]
ArmFor(c, t)  == [s |-> "armed", lo |-> Max(t, c.na - Thr), hi |-> Max(t, c.na - Thr + MaxJit), at |-> t, for |-> c.id]
ArmRetry(t)   == [s |-> "armed", lo |-> t + RetryLo, hi |-> t + RetryHi, at |-> t, for |-> 0]
\* domainRenewal.next(c) > 0 / = 0 is possible for some jitter
NextPos(c, t)  == c.na - Thr + MaxJit > t
NextZero(c, t) == c.na - Thr <= t

VARIABLES now,
          cache,      \* cache[k]: certificate stored under k (NoCert: none)
          st,         \* st[k] = [has, locked, cert]: Manager.state[k]
          ren,        \* ren[k] = [inmap, timer, close]: Manager.renewal[k] / the domainRenewal and its timer
          tmu,        \* tmu[k] \in {"free", "renew", "stop"}: dr.timerMu
          stateMu,    \* "free" or the caller holding it while waiting in startRenew
          renewalMu,  \* "free" or "stop"
          rpc, rnew,  \* the renew goroutine of k: pc, certificate in hand
          pc, ck, got, calls, res,     \* callers
          spc, todo, scur, stopped,    \* the stopRenew goroutine
          cnt,        \* certificates issued so far
          live,       \* ghost: live[k] = timers created and neither stopped nor handled
          hiNA,       \* ghost: largest NotAfter Manager.state[k] ever held
          iter,       \* ghost: iter[k] = [o, old, oldc]: outcome of the renewal iteration in progress / just finished
          failing,    \* ghost: the last finished iteration of k failed
          ev          \* last step: [t, k]
vars == <<now, cache, st, ren, tmu, stateMu, renewalMu, rpc, rnew, pc, ck, got, calls, res,
          spc, todo, scur, stopped, cnt, live, hiNA, iter, failing, ev>>

Absent == [has |-> FALSE, locked |-> FALSE, cert |-> NoCert]
NoRen  == [inmap |-> FALSE, timer |-> NoTimer, close |-> FALSE]
NoIter == [o |-> "none", old |-> NoCert, oldc |-> NoCert]
E(t, k) == [t |-> t, k |-> k]

Init == /\ now = 0
        /\ cache \in [Keys -> {NoCert} \cup {[k |-> kk, id |-> 1, nb |-> 0, na |-> Life] : kk \in Preload}]
        /\ \A k \in Keys : cache[k].id # 0 => cache[k].k = k
        /\ st = [k \in Keys |-> Absent] /\ ren = [k \in Keys |-> NoRen] /\ tmu = [k \in Keys |-> "free"]
        /\ stateMu = "free" /\ renewalMu = "free"
        /\ rpc = [k \in Keys |-> "idle"] /\ rnew = [k \in Keys |-> NoCert]
        /\ pc = [g \in Callers |-> "idle"] /\ ck = [g \in Callers |-> NoKey] /\ got = [g \in Callers |-> NoCert]
        /\ calls = [g \in Callers |-> 0] /\ res = [g \in Callers |-> [t |-> "none", cert |-> NoCert, k |-> NoKey]]
        /\ spc = "idle" /\ todo = {} /\ scur = NoKey /\ stopped = {}
        /\ cnt = Cardinality({k \in Keys : cache[k].id # 0})
        /\ live = [k \in Keys |-> 0] /\ hiNA = [k \in Keys |-> 0 - 1]
        /\ iter = [k \in Keys |-> NoIter] /\ failing = [k \in Keys |-> FALSE]
        /\ ev = E("init", NoKey)

-----------------------------------------------------------------------------
(* Manager.startRenew(k, ..) for certificate c, performed atomically under renewalMu (callers
   make sure renewalMu is free): registers a domainRenewal and arms its timer unless k is
   registered already. *)
StartRenew(k, c) ==
  IF ren[k].inmap
  THEN UNCHANGED <<ren, live>>
  ELSE /\ ren' = [ren EXCEPT ![k] = [inmap |-> TRUE, timer |-> ArmFor(c, now), close |-> FALSE]]
       /\ live' = [live EXCEPT ![k] = @ + 1]

SetState(k, c) == /\ st' = [st EXCEPT ![k] = [has |-> TRUE, locked |-> FALSE, cert |-> c]]
                  /\ hiNA' = [hiNA EXCEPT ![k] = Max(@, c.na)]

Serve(g, c) == /\ res' = [res EXCEPT ![g] = [t |-> IF c.id = 0 THEN "err" ELSE "cert", cert |-> c, k |-> ck[g]]]
               /\ pc' = [pc EXCEPT ![g] = "idle"]

\* ---- GetCertificate (name checks, policy, token path: C51)
Call(g, k) ==
  /\ pc[g] = "idle" /\ calls[g] < MaxCalls
  /\ calls' = [calls EXCEPT ![g] = @ + 1]
  /\ ck' = [ck EXCEPT ![g] = k] /\ pc' = [pc EXCEPT ![g] = "lookup"]
  /\ ev' = E("call", k)
  /\ UNCHANGED <<now, cache, st, ren, tmu, stateMu, renewalMu, rpc, rnew, got, res, spc, todo, scur, stopped, cnt, live, hiNA, iter, failing>>

\* m.cert under stateMu
Lookup(g) ==
  /\ pc[g] = "lookup" /\ stateMu = "free"
  /\ LET k == ck[g] IN
     /\ ev' = E("lookup", k)
     /\ IF st[k].has
        THEN /\ IF st[k].locked THEN pc' = [pc EXCEPT ![g] = "rwait"] /\ UNCHANGED res
                ELSE Serve(g, st[k].cert)
             /\ UNCHANGED <<st, ren, live, hiNA, stateMu, got>>
        ELSE IF Valid(cache[k], now)
        THEN /\ SetState(k, cache[k])
             /\ IF renewalMu = "free"
                THEN StartRenew(k, cache[k]) /\ Serve(g, cache[k]) /\ UNCHANGED <<stateMu, got>>
                ELSE \* startRenew blocks on renewalMu while m.cert still holds stateMu
                     /\ stateMu' = g /\ got' = [got EXCEPT ![g] = cache[k]] /\ pc' = [pc EXCEPT ![g] = "lkwait"]
                     /\ UNCHANGED <<ren, live, res>>
        ELSE /\ pc' = [pc EXCEPT ![g] = "cstate"]
             /\ UNCHANGED <<st, ren, live, hiNA, stateMu, got, res>>
  /\ UNCHANGED <<now, cache, tmu, renewalMu, rpc, rnew, ck, calls, spc, todo, scur, stopped, cnt, iter, failing>>

LookupFinish(g) ==
  /\ pc[g] = "lkwait" /\ renewalMu = "free"
  /\ StartRenew(ck[g], got[g]) /\ Serve(g, got[g]) /\ stateMu' = "free"
  /\ ev' = E("lookupfinish", ck[g])
  /\ UNCHANGED <<now, cache, st, tmu, renewalMu, rpc, rnew, ck, got, calls, spc, todo, scur, stopped, cnt, hiNA, iter, failing>>

\* reader / createCert waiter: the state's read lock is free once the owner is done
Wait(g) ==
  /\ pc[g] \in {"rwait", "cwait"} /\ ~st[ck[g]].locked
  /\ IF pc[g] = "cwait" /\ st[ck[g]].cert.id # 0
     THEN got' = [got EXCEPT ![g] = st[ck[g]].cert] /\ pc' = [pc EXCEPT ![g] = "put"] /\ UNCHANGED res
     ELSE Serve(g, st[ck[g]].cert) /\ UNCHANGED got
  /\ ev' = E("wait", ck[g])
  /\ UNCHANGED <<now, cache, st, ren, tmu, stateMu, renewalMu, rpc, rnew, ck, calls, spc, todo, scur, stopped, cnt, live, hiNA, iter, failing>>

\* m.certState under stateMu
CState(g) ==
  /\ pc[g] = "cstate" /\ stateMu = "free"
  /\ LET k == ck[g] IN
     IF st[k].has
     THEN pc' = [pc EXCEPT ![g] = "cwait"] /\ UNCHANGED st
     ELSE /\ st' = [st EXCEPT ![k] = [has |-> TRUE, locked |-> TRUE, cert |-> NoCert]]
          /\ pc' = [pc EXCEPT ![g] = "issue"]
  /\ ev' = E("cstate", ck[g])
  /\ UNCHANGED <<now, cache, ren, tmu, stateMu, renewalMu, rpc, rnew, ck, got, calls, res, spc, todo, scur, stopped, cnt, live, hiNA, iter, failing>>

\* the owner's issuance ends; on success the state is filled and startRenew called before the write lock is released
\* (c: the certificate the CA issues -- Fresh(k) in the model, the recorded one in trace validation)
Fresh(k) == [k |-> k, id |-> cnt + 1, nb |-> now, na |-> now + Life]
Issue(g, o, c) ==
  /\ pc[g] = "issue"
  /\ o = "ok" => (cnt < MaxCerts /\ renewalMu = "free")
  /\ LET k == ck[g] IN
     /\ ev' = E("issue", k)
     /\ IF o = "ok"
        THEN /\ cnt' = cnt + 1 /\ SetState(k, c) /\ StartRenew(k, c)
             /\ got' = [got EXCEPT ![g] = c] /\ pc' = [pc EXCEPT ![g] = "put"] /\ UNCHANGED res
        ELSE /\ st' = [st EXCEPT ![k] = [has |-> TRUE, locked |-> FALSE, cert |-> NoCert]]
             /\ Serve(g, NoCert) /\ UNCHANGED <<cnt, ren, live, hiNA, got>>
  /\ UNCHANGED <<now, cache, tmu, stateMu, renewalMu, rpc, rnew, ck, calls, spc, todo, scur, stopped, iter, failing>>

\* GetCertificate: m.cachePut(ctx, ck, cert) with the certificate this call obtained
Put(g) ==
  /\ pc[g] = "put"
  /\ cache' = [cache EXCEPT ![ck[g]] = got[g]]
  /\ Serve(g, got[g])
  /\ ev' = E("put", ck[g])
  /\ UNCHANGED <<now, st, ren, tmu, stateMu, renewalMu, rpc, rnew, ck, got, calls, spc, todo, scur, stopped, cnt, live, hiNA, iter, failing>>

\* a further startRenew for a key that is registered ("another goroutine is already on it"): the call sites
\* reach startRenew only when the key had no state, so in the Manager this is defensive; it is exercised
\* through the hook VerifStartRenew.  It must be a no-op (T2).
ExtraStart(g) ==
  /\ pc[g] = "idle" /\ calls[g] < MaxCalls /\ renewalMu = "free"
  /\ \E k \in Keys : /\ ren[k].inmap /\ st[k].cert.id # 0
                      /\ StartRenew(k, st[k].cert)
                      /\ ev' = E("extrastart", k)
  /\ calls' = [calls EXCEPT ![g] = @ + 1]
  /\ UNCHANGED <<now, cache, st, tmu, stateMu, renewalMu, rpc, rnew, pc, ck, got, res, spc, todo, scur, stopped, cnt, hiNA, iter, failing>>

\* time.AfterFunc(createCertRetryAfter): a failed (certificate-less) state is removed
Cleanup(k) ==
  /\ stateMu = "free" /\ st[k].has /\ ~st[k].locked /\ st[k].cert.id = 0
  /\ st' = [st EXCEPT ![k] = Absent]
  /\ ev' = E("cleanup", k)
  /\ UNCHANGED <<now, cache, ren, tmu, stateMu, renewalMu, rpc, rnew, pc, ck, got, calls, res, spc, todo, scur, stopped, cnt, live, hiNA, iter, failing>>

-----------------------------------------------------------------------------
\* ---- the timer and the renew goroutine of key k
Fire(k) ==
  /\ ren[k].timer.s = "armed" /\ ren[k].timer.lo <= now /\ rpc[k] = "idle"
  /\ ren' = [ren EXCEPT ![k].timer.s = "fired"]
  /\ rpc' = [rpc EXCEPT ![k] = "pending"]
  /\ ev' = E("fire", k)
  /\ UNCHANGED <<now, cache, st, tmu, stateMu, renewalMu, rnew, pc, ck, got, calls, res, spc, todo, scur, stopped, cnt, live, hiNA, iter, failing>>

\* renew: timerMu acquired; a pending stop is acknowledged instead of renewing
RStart(k) ==
  /\ rpc[k] = "pending" /\ tmu[k] = "free"
  /\ IF ren[k].close
     THEN /\ ren' = [ren EXCEPT ![k].close = FALSE, ![k].timer = NoTimer]
          /\ rpc' = [rpc EXCEPT ![k] = "idle"] /\ live' = [live EXCEPT ![k] = @ - 1]
          /\ UNCHANGED <<tmu, iter>>
     ELSE /\ tmu' = [tmu EXCEPT ![k] = "renew"] /\ rpc' = [rpc EXCEPT ![k] = "cget"]
          /\ iter' = [iter EXCEPT ![k] = [o |-> "run", old |-> st[k].cert, oldc |-> cache[k]]]
          /\ UNCHANGED <<ren, live>>
  /\ ev' = E("rstart", k)
  /\ UNCHANGED <<now, cache, st, stateMu, renewalMu, rnew, pc, ck, got, calls, res, spc, todo, scur, stopped, cnt, hiNA, failing>>

\* do: the cache may already hold a certificate that is not due ("a race is likely unavoidable in a distributed environment")
RCacheGet(k, fromCache) ==
  /\ rpc[k] = "cget"
  /\ IF fromCache
     THEN /\ Valid(cache[k], now) /\ NextPos(cache[k], now)
          /\ rnew' = [rnew EXCEPT ![k] = cache[k]] /\ rpc' = [rpc EXCEPT ![k] = "upd"]
          /\ iter' = [iter EXCEPT ![k].o = "cache"]
     ELSE /\ ~Valid(cache[k], now) \/ NextZero(cache[k], now)
          /\ rpc' = [rpc EXCEPT ![k] = "ca"] /\ UNCHANGED <<rnew, iter>>
  /\ ev' = E("rcget", k)
  /\ UNCHANGED <<now, cache, st, ren, tmu, stateMu, renewalMu, pc, ck, got, calls, res, spc, todo, scur, stopped, cnt, live, hiNA, failing>>

\* authorizedCert
RIssue(k, o, c) ==
  /\ rpc[k] = "ca"
  /\ o = "ok" => cnt < MaxCerts
  /\ IF o = "ok"
     THEN /\ cnt' = cnt + 1
          /\ rnew' = [rnew EXCEPT ![k] = c]
          /\ rpc' = [rpc EXCEPT ![k] = "cput"] /\ UNCHANGED iter
     ELSE /\ rpc' = [rpc EXCEPT ![k] = "rearm"]
          /\ iter' = [iter EXCEPT ![k].o = "fail"] /\ UNCHANGED <<cnt, rnew>>
  /\ ev' = E("rissue", k)
  /\ UNCHANGED <<now, cache, st, ren, tmu, stateMu, renewalMu, pc, ck, got, calls, res, spc, todo, scur, stopped, live, hiNA, failing>>

RCachePut(k, o) ==
  /\ rpc[k] = "cput"
  /\ IF o = "ok"
     THEN cache' = [cache EXCEPT ![k] = rnew[k]] /\ rpc' = [rpc EXCEPT ![k] = "upd"] /\ UNCHANGED iter
     ELSE /\ rpc' = [rpc EXCEPT ![k] = "rearm"]
          /\ iter' = [iter EXCEPT ![k].o = "fail"] /\ UNCHANGED cache
  /\ ev' = E("rcput", k)
  /\ UNCHANGED <<now, st, ren, tmu, stateMu, renewalMu, rnew, pc, ck, got, calls, res, spc, todo, scur, stopped, cnt, live, hiNA, failing>>

\* the CA issued, but the reply (or the certificate download) never reached the Manager: the 10-minute
\* context of the iteration expired, or the transport failed
RLost(k) ==
  /\ rpc[k] = "cput"
  /\ rpc' = [rpc EXCEPT ![k] = "rearm"] /\ iter' = [iter EXCEPT ![k].o = "fail"]
  /\ ev' = E("rlost", k)
  /\ UNCHANGED <<now, cache, st, ren, tmu, stateMu, renewalMu, rnew, pc, ck, got, calls, res, spc, todo, scur, stopped, cnt, live, hiNA, failing>>

\* updateState: the pointer swap under stateMu; then next() for the certificate now in the state
RUpdate(k) ==
  /\ rpc[k] = "upd" /\ stateMu = "free"
  /\ SetState(k, rnew[k])
  /\ iter' = [iter EXCEPT ![k].o = IF @ = "cache" THEN "cache" ELSE "ok"]
  /\ rpc' = [rpc EXCEPT ![k] = "rearm"]
  /\ ev' = E("rupdate", k)
  /\ UNCHANGED <<now, cache, ren, tmu, stateMu, renewalMu, rnew, pc, ck, got, calls, res, spc, todo, scur, stopped, cnt, live, failing>>

\* dr.timer = time.AfterFunc(next, dr.renew); timerMu released (one step: nobody can tell them apart)
RRearm(k) ==
  /\ rpc[k] = "rearm"
  /\ ren' = [ren EXCEPT ![k].timer = IF iter[k].o = "fail" THEN ArmRetry(now) ELSE ArmFor(rnew[k], now)]
  /\ tmu' = [tmu EXCEPT ![k] = "free"] /\ rpc' = [rpc EXCEPT ![k] = "idle"]
  /\ failing' = [failing EXCEPT ![k] = (iter[k].o = "fail")]
  /\ iter' = [iter EXCEPT ![k].o = IF @ = "fail" THEN "failed" ELSE IF @ = "ok" THEN "renewed" ELSE "deferred"]
  /\ ev' = E("rrearm", k)
  /\ UNCHANGED <<now, cache, st, stateMu, renewalMu, rnew, pc, ck, got, calls, res, spc, todo, scur, stopped, cnt, live, hiNA>>

-----------------------------------------------------------------------------
\* ---- Manager.stopRenew
SBegin ==
  /\ WithStop /\ spc = "idle" /\ renewalMu = "free"
  /\ renewalMu' = "stop" /\ todo' = {k \in Keys : ren[k].inmap} /\ spc' = "next"
  /\ ev' = E("sbegin", NoKey)
  /\ UNCHANGED <<now, cache, st, ren, tmu, stateMu, rpc, rnew, pc, ck, got, calls, res, scur, stopped, cnt, live, hiNA, iter, failing>>

SNext ==
  /\ spc = "next"
  /\ IF todo = {}
     THEN /\ renewalMu' = "free" /\ spc' = "done" /\ ev' = E("send", NoKey)
          /\ UNCHANGED <<ren, todo, scur, stopped>>
     ELSE \E k \in todo :
            /\ ren' = [ren EXCEPT ![k].inmap = FALSE] /\ todo' = todo \ {k} /\ scur' = k
            /\ stopped' = stopped \cup {k} /\ spc' = "lockdr" /\ ev' = E("snext", k)
            /\ UNCHANGED renewalMu
  /\ UNCHANGED <<now, cache, st, tmu, stateMu, rpc, rnew, pc, ck, got, calls, res, cnt, live, hiNA, iter, failing>>

\* dr.stop: timerMu, then the loop
SLock ==
  /\ spc = "lockdr" /\ tmu[scur] = "free"
  /\ tmu' = [tmu EXCEPT ![scur] = "stop"] /\ spc' = "loop"
  /\ ev' = E("slock", scur)
  /\ UNCHANGED <<now, cache, st, ren, stateMu, renewalMu, rpc, rnew, pc, ck, got, calls, res, todo, scur, stopped, cnt, live, hiNA, iter, failing>>

SLoop ==
  /\ spc = "loop"
  /\ LET k == scur IN
     /\ ev' = E("sloop", k)
     /\ CASE ren[k].timer.s = "nil" ->
               /\ tmu' = [tmu EXCEPT ![k] = "free"] /\ spc' = "next" /\ UNCHANGED <<ren, live>>
          [] ren[k].timer.s = "armed" ->          \* Timer.Stop() = true
               /\ ren' = [ren EXCEPT ![k].timer = NoTimer] /\ live' = [live EXCEPT ![k] = @ - 1]
               /\ tmu' = [tmu EXCEPT ![k] = "free"] /\ spc' = "next"
          [] OTHER ->                             \* fired, the callback has not got timerMu yet
               /\ ren' = [ren EXCEPT ![k].close = TRUE]
               /\ tmu' = [tmu EXCEPT ![k] = "free"] /\ spc' = "waitclose" /\ UNCHANGED live
  /\ UNCHANGED <<now, cache, st, stateMu, renewalMu, rpc, rnew, pc, ck, got, calls, res, todo, scur, stopped, cnt, hiNA, iter, failing>>

SWait ==
  /\ spc = "waitclose" /\ ~ren[scur].close /\ tmu[scur] = "free"
  /\ tmu' = [tmu EXCEPT ![scur] = "stop"] /\ spc' = "loop"
  /\ ev' = E("swait", scur)
  /\ UNCHANGED <<now, cache, st, ren, stateMu, renewalMu, rpc, rnew, pc, ck, got, calls, res, todo, scur, stopped, cnt, live, hiNA, iter, failing>>

-----------------------------------------------------------------------------
\* assumption A: no tick while a call is on its first-issuance path (createCert as owner or waiter, cachePut)
Tick ==
  /\ now < MaxT
  /\ \A g \in Callers : pc[g] \in {"idle", "lookup", "lkwait"}
  /\ now' = now + 1
  /\ ev' = E("tick", NoKey)
  /\ UNCHANGED <<cache, st, ren, tmu, stateMu, renewalMu, rpc, rnew, pc, ck, got, calls, res, spc, todo, scur, stopped, cnt, live, hiNA, iter, failing>>

Next == \/ \E g \in Callers : \/ \E k \in Keys : Call(g, k)
                              \/ Lookup(g) \/ LookupFinish(g) \/ Wait(g) \/ CState(g) \/ Put(g)
                              \/ \E o \in CAOutcomes : Issue(g, o, Fresh(ck[g]))
                              \/ ExtraStart(g)
        \/ \E k \in Keys : \/ Cleanup(k) \/ Fire(k) \/ RStart(k) \/ RUpdate(k) \/ RRearm(k) \/ RLost(k)
                           \/ \E b \in BOOLEAN : RCacheGet(k, b)
                           \/ \E o \in CAOutcomes : RIssue(k, o, Fresh(k))
                           \/ \E o \in PutOutcomes : RCachePut(k, o)
        \/ SBegin \/ SNext \/ SLock \/ SLoop \/ SWait
        \/ Tick
Spec == Init /\ [][Next]_vars

-----------------------------------------------------------------------------
Running(k) == rpc[k] \notin {"idle", "pending"}
StopDone == spc = "done"

T1_OneTimer == \A k \in Keys :
                 /\ live[k] \in {0, 1}
                 /\ live[k] = (IF ren[k].timer.s = "nil" THEN 0 ELSE 1)
                 /\ (rpc[k] = "pending") => ren[k].timer.s = "fired"
                 /\ Running(k) => (tmu[k] = "renew" /\ ren[k].timer.s = "fired")
                 /\ (tmu[k] = "renew") => Running(k)
\* T2 is an action property: a call that finds the key registered leaves the renewal alone
T2_StartNoop == [][\A k \in Keys : (ren[k].inmap /\ ev'.t \in {"lookup", "lookupfinish", "issue", "extrastart"}) => (ren'[k] = ren[k] /\ live'[k] = live[k])]_vars
T3_StopFinal == StopDone => \A k \in stopped : /\ rpc[k] = "idle" /\ ren[k].timer.s = "nil" /\ live[k] = 0
                                              /\ ~ren[k].inmap /\ tmu[k] = "free" /\ ~ren[k].close
\* nothing is restarted for a stopped key, no renewal step of it after stopRenew returned
T3b_NoRestart == [][(StopDone /\ ev'.k \in stopped) => ev'.t \notin {"fire", "rstart", "rcget", "rissue", "rcput", "rlost", "rupdate", "rrearm"}]_vars
\* T4/T5 look at the moment the iteration ends (rpc = "rearm": everything but the timer is done)
T4_RenewReplaces == \A k \in Keys : (rpc[k] = "rearm" /\ iter[k].o = "ok") =>
                        /\ st[k].cert = rnew[k] /\ cache[k] = rnew[k] /\ rnew[k].id # iter[k].old.id
T5_FailKeeps == \A k \in Keys : (rpc[k] = "rearm" /\ iter[k].o = "fail") =>
                        /\ st[k].cert = iter[k].old /\ cache[k] = iter[k].oldc
T4b_Deferred == \A k \in Keys : (rpc[k] = "rearm" /\ iter[k].o = "cache") =>
                        /\ st[k].cert = cache[k] /\ cache[k].id # 0
\* ... and at the timer the finished iteration left behind (until the next iteration starts or stop removes it)
T45_Rearmed == \A k \in Keys : (rpc[k] \in {"idle", "pending"} /\ ren[k].timer.s # "nil") =>
                  LET tm == ren[k].timer IN
                  CASE iter[k].o \in {"renewed", "deferred"} ->
                         /\ tm.for = st[k].cert.id /\ tm.lo = Max(tm.at, st[k].cert.na - Thr) /\ tm.hi = Max(tm.at, st[k].cert.na - Thr + MaxJit)
                    [] iter[k].o = "failed" -> tm.for = 0 /\ tm.lo = tm.at + RetryLo /\ tm.hi = tm.at + RetryHi
                    [] OTHER -> tm.for = st[k].cert.id
T6_Independent == [][\A k \in Keys : (ev'.k # k) =>
                        (st'[k] = st[k] /\ cache'[k] = cache[k] /\ ren'[k] = ren[k] /\ tmu'[k] = tmu[k] /\ rpc'[k] = rpc[k] /\ live'[k] = live[k])]_vars
T7_Monotone == \A k \in Keys : st[k].cert.id # 0 => st[k].cert.na = hiNA[k]
T7b_ServedMonotone == [][\A g \in Callers : (res'[g] # res[g] /\ res'[g].t = "cert") => res'[g].cert.na = hiNA'[res'[g].cert.k]]_vars
StopActive == spc \notin {"idle", "done"}
T8_NonBlocking == /\ (~StopActive) => stateMu = "free"
                  /\ \A g \in Callers : (pc[g] = "lookup" /\ st[ck[g]].has /\ ~st[ck[g]].locked /\ stateMu = "free") => ENABLED Lookup(g)
T9_LoopAlive == \A k \in Keys : (st[k].cert.id # 0 /\ k \notin stopped) =>
                   (ren[k].inmap /\ live[k] = 1) \/ (\E g \in Callers : pc[g] = "lkwait" /\ ck[g] = k)
T10_ExpiredOnlyWhileDueOrFailing ==
   \A k \in Keys : (st[k].cert.id # 0 /\ st[k].cert.na < now /\ k \notin stopped) =>
        \/ rpc[k] # "idle"
        \/ ren[k].timer.s = "armed" /\ (ren[k].timer.lo <= now \/ failing[k])
        \/ \E g \in Callers : pc[g] = "lkwait" /\ ck[g] = k
\* certificates in the state and in the cache belong to their key (no cross-talk)
T11_KeyMatch == \A k \in Keys : /\ st[k].cert.id # 0 => st[k].cert.k = k
                                /\ cache[k].id # 0 => cache[k].k = k
                                /\ \A g \in Callers : res[g].t = "cert" => res[g].cert.k = res[g].k

\* observation (test-only API): the three-way wait stopRenew / renew / m.cert
NoLockCycle == ~ \E k \in Keys, g \in Callers :
                    /\ spc \in {"lockdr", "waitclose"} /\ scur = k /\ tmu[k] = "renew"
                    /\ rpc[k] = "upd" /\ stateMu = g
                    /\ pc[g] = "lkwait" /\ renewalMu = "stop"
=============================================================================
