SPECIFICATION Spec
CONSTANTS
  H = 4
  NBufs = 1
  Design = "own"
  MaxBlocks = 255
  ReadSizes = {0, 1, 3, 4, 5, 9, 500, 509, 1012, 1016, 1019, 1020, 1021}
INVARIANTS TypeOK ImplInv ReaderOwnsItsState
PROPERTIES Refines AbsErrorConsumesNothing AbsContiguous AbsFailsExactlyBeyondLimit AbsZeroReadIsNoop AbsScribbleIsInvisible ScribbleKeepsReaderState
CHECK_DEADLOCK FALSE
