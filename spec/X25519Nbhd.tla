----------------------------- MODULE X25519Nbhd -----------------------------
(***************************************************************************)
(* C11, input side: RFC 7748 section 5 decodeUCoordinate and               *)
(* decodeScalar25519 as executable definitions on 32-byte strings, and the *)
(* NEIGHBOURHOODS of every encoding an implementation could plausibly      *)
(* special-case (base point, 0, 1, p-1, p, p+1, p+9, all of p..2^255-1,    *)
(* the order-8 values, their top-bit forms, all-0xff, 2^255-1; scalars 0,  *)
(* 1, 8, 2^254, 2^255-1, all-0xff).  /repo/curve25519 has no special case  *)
(* of its own (crypto/ecdh does the decoding); the property says none may  *)
(* be observable: the result depends only on Clamp(scalar) and Canon(u).   *)
(*                                                                         *)
(* TLC evaluates Canon / Clamp / "low order" for every neighbour and       *)
(* checks that the base point has exactly the encodings 9, 9|top, p+9,     *)
(* p+9|top inside these neighbourhoods, that exactly the known encodings   *)
(* decode to a low-order u, and that clamping forgets exactly the three    *)
(* low and two high bits.  Every neighbour is emitted with these           *)
(* predictions and replayed on the real package (harness/c11 TestNbhd).    *)
(* A byte string is a function 1..32 -> 0..255, little-endian.             *)
(***************************************************************************)
EXTENDS Integers, Sequences, FiniteSets, Bitwise, TLC, Json

Bytes(f(_)) == [i \in 1..32 |-> f(i)]
Small(k) == [i \in 1..32 |-> IF i = 1 THEN k ELSE 0]                      \* the integer k < 256
PPlus(k) == [i \in 1..32 |-> IF i = 1 THEN 237 + k ELSE IF i = 32 THEN 127 ELSE 255]   \* p + k, k in 0..18 (p = 2^255 - 19)
PM1 == [i \in 1..32 |-> IF i = 1 THEN 236 ELSE IF i = 32 THEN 127 ELSE 255]           \* p - 1
Nine == Small(9)
AllFF == [i \in 1..32 |-> 255]
Max255 == [i \in 1..32 |-> IF i = 32 THEN 127 ELSE 255]                   \* 2^255 - 1
Pow254 == [i \in 1..32 |-> IF i = 32 THEN 64 ELSE 0]
U8A == <<224, 235, 122, 124, 59, 65, 184, 174, 22, 86, 227, 250, 241, 159, 196, 106, 218, 9, 141, 235, 156, 50, 177, 253, 134, 98, 5, 22, 95, 73, 184, 0>>
U8B == <<95, 156, 149, 188, 163, 80, 140, 36, 177, 208, 177, 85, 156, 131, 239, 91, 4, 68, 92, 196, 88, 28, 142, 134, 216, 34, 78, 221, 208, 159, 17, 87>>
Top(x) == [x EXCEPT ![32] = (x[32] % 128) + 128]
PatU == [i \in 1..32 |-> IF i = 32 THEN 58 ELSE (i * 37 + 11) % 256]    \* an ordinary u
PatS == [i \in 1..32 |-> (i * 101 + 7) % 256]                             \* an ordinary scalar

(******************************* RFC 7748 decoding **************************)
Mask(u) == [u EXCEPT ![32] = u[32] % 128]                                 \* "mask the most significant bit in the final byte"
\* m < 2^255 is >= p = 2^255 - 19 iff its top 247 bits are ones and its low byte is >= 0xed; then m - p = m[1] - 237
GeP(m) == m[32] = 127 /\ (\A i \in 2..31 : m[i] = 255) /\ m[1] >= 237
Canon(u) == LET m == Mask(u) IN IF GeP(m) THEN Small(m[1] - 237) ELSE m   \* the field element, canonically encoded
Clamp(s) == [s EXCEPT ![1] = s[1] - (s[1] % 8), ![32] = (s[32] % 64) + 64]   \* k[0] &= 248; k[31] &= 127; k[31] |= 64
LowCanon == {Small(0), Small(1), PM1, U8A, U8B}
IsLow(u) == Canon(u) \in LowCanon

(******************************* neighbourhoods *****************************)
Dev(x, pos, v, mode) == [x EXCEPT ![pos] = IF mode = "xor" THEN x[pos] ^^ v ELSE v]
Positions == {1, 2, 16, 17, 31, 32}                                       \* bytes 0, 1, 15, 16, 30, 31
Values == {1, 127, 128, 255}
Nbhd(x) == {x} \cup {Dev(x, pos, v, m) : pos \in Positions, v \in Values, m \in {"xor", "set"}}
               \cup {Dev(x, 32, 2 ^ b, "xor") : b \in 0..7}

USpecials == { <<"9", Nine>>, <<"0", Small(0)>>, <<"1", Small(1)>>, <<"p-1", PM1>>, <<"u8a", U8A>>, <<"u8b", U8B>>,
               <<"9|top", Top(Nine)>>, <<"0|top", Top(Small(0))>>, <<"1|top", Top(Small(1))>>, <<"p-1|top", Top(PM1)>>,
               <<"u8a|top", Top(U8A)>>, <<"u8b|top", Top(U8B)>>, <<"all-ff", AllFF>>, <<"2^255-1", Max255>>, <<"ordinary", PatU>> }
             \cup { <<"p+k", PPlus(k)>> : k \in 0..18 } \cup { <<"p+k|top", Top(PPlus(k))>> : k \in {0, 1, 9, 18} }
SSpecials == { <<"0", Small(0)>>, <<"1", Small(1)>>, <<"8", Small(8)>>, <<"2^254", Pow254>>, <<"2^255-1", Max255>>,
               <<"all-ff", AllFF>>, <<"ordinary", PatS>> }
SNbhd(x) == Nbhd(x) \cup {Dev(x, 1, v, "xor") : v \in 1..7} \cup {Dev(x, 32, v, "xor") : v \in {64, 128, 192}}
SUs == { <<"9", Nine>>, <<"9+2^248", [Nine EXCEPT ![32] = 1]>>, <<"ordinary", PatU>> }

None == <<>>
UCase(cls, u) == [kind |-> "u", cls |-> cls, u |-> u, s |-> None]
Cases == UNION { { UCase("nbhd:" \o sp[1], d) : d \in Nbhd(sp[2]) } : sp \in USpecials }
           \cup { UCase("basepoint-lastbyte", [Nine EXCEPT ![32] = v]) : v \in 0..255 }      \* 9 + v * 2^248
           \cup { UCase("basepoint-byte0", Small(v)) : v \in 0..255 }
           \cup UNION { { [kind |-> "s", cls |-> "snbhd:" \o sp[1] \o "@" \o uu[1], u |-> uu[2], s |-> d] : d \in SNbhd(sp[2]), uu \in SUs } : sp \in SSpecials }

VARIABLE c
Init == c \in Cases
Spec == Init /\ [][UNCHANGED c]_c

(******************************* what TLC checks ****************************)
CanonSane == LET k == Canon(c.u) IN /\ Canon(k) = k /\ ~GeP(k) /\ k[32] < 128
                                    /\ Canon([c.u EXCEPT ![32] = c.u[32] ^^ 128]) = k          \* the top bit is ignored
\* within all these neighbourhoods the base point is encoded by 9, p+9 and their top-bit forms, and by nothing else
BasepointEncodings == Canon(c.u) = Nine <=> Mask(c.u) \in {Nine, PPlus(9)}
\* exactly the known encodings decode to a low-order u
LowOrderEncodings == IsLow(c.u) <=> Mask(c.u) \in {Small(0), Small(1), PM1, U8A, U8B, PPlus(0), PPlus(1)}
\* clamping forgets exactly bits 0..2 and 254..255 (and fixes them)
ClampSane == c.kind = "s" =>
               LET k == Clamp(c.s) IN /\ Clamp(k) = k /\ k[1] % 8 = 0 /\ k[32] \in 64..127
                                      /\ \A v \in 1..7 : Clamp(Dev(c.s, 1, v, "xor")) = k
                                      /\ \A v \in {64, 128, 192} : Clamp(Dev(c.s, 32, v, "xor")) = k
                                      /\ \A i \in 2..31 : k[i] = c.s[i]
                                      /\ k[1] \div 8 = c.s[1] \div 8 /\ k[32] % 64 = c.s[32] % 64

Emit == PrintT("TRACE " \o ToJson([kind |-> c.kind, cls |-> c.cls, u |-> c.u, s |-> c.s, canon |-> Canon(c.u),
                                   clamp |-> IF c.kind = "s" THEN Clamp(c.s) ELSE None, err |-> IsLow(c.u)]))
=============================================================================
