\* quick: 1 certKey, 1 caller x 2 calls, stopRenew goroutine, clock 0..6: the certificate expires in memory; CA and Cache.Put may fail
SPECIFICATION Spec
CONSTANTS
  Keys = {"a"}
  Callers = {"g1"}
  MaxCalls = 2
  MaxT = 6
  Life = 4
  Thr = 2
  MaxJit = 1
  RetryLo = 1
  RetryHi = 2
  MaxCerts = 2
  CAOutcomes = {"ok", "fail"}
  PutOutcomes = {"ok", "fail"}
  Preload = {"a"}
  WithStop = TRUE
INVARIANTS T1_OneTimer T3_StopFinal T4_RenewReplaces T4b_Deferred T45_Rearmed T5_FailKeeps T7_Monotone T9_LoopAlive T10_ExpiredOnlyWhileDueOrFailing T11_KeyMatch
PROPERTIES T2_StartNoop T3b_NoRestart T6_Independent T7b_ServedMonotone
CHECK_DEADLOCK FALSE
