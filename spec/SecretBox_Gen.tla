---------------------------- MODULE SecretBox_Gen ----------------------------
(***************************************************************************)
(* C10, binding E: TLC evaluates SecretBox!Seal (XSalsa20 + Poly1305 from  *)
(* the executable definitions) for message lengths around the 32-byte      *)
(* first-block boundary and the 64-byte Salsa20 block boundaries, with     *)
(* key, nonce and message produced by Pat(seed, len), and prints           *)
(*   TRACE {"t":"sb", kseed, nseed, mseed, len, out}        out = tag||ct  *)
(*   TRACE {"t":"box", sseed, nseed, mseed, len, key, out}                 *)
(* For "box", Pat(sseed, 32) stands for the X25519 output (sseed = 0 is    *)
(* 0^32: what a low-order peer key yields); key = HSalsa20(shared, 0^16)   *)
(* is what box.Precompute must return and out what box.Seal must return.   *)
(* On every case TLC also checks the model-level laws (EmitAndLaws).       *)
(***************************************************************************)
EXTENDS SecretBox, TLC, Json

CONSTANTS SBCases,    \* set of <<kseed, nseed, mseed, len>>
          BoxCases,   \* set of <<sseed, nseed, mseed, len>>
          OpenMax     \* Open(Seal(x)) = x and tamper rejection are evaluated for len <= OpenMax
VARIABLE c

Init == c = [t |-> "root"]
Next == \/ c.t = "root" /\ c' \in {[t |-> "grp", j |-> j] : j \in 0..15}
        \/ c.t = "grp"  /\ c' \in {[t |-> "sb", x |-> x] : x \in {y \in SBCases : (y[4] + y[1]) % 16 = c.j}}
                                   \cup {[t |-> "box", x |-> x] : x \in {y \in BoxCases : (y[4] + y[1] + 5) % 16 = c.j}}

\* contents of the caller's sharedKey array on entry to Precompute: Pat(seed, 32) (0 = fresh zero array, 1 = all 0xff, 9/200 = patterns)
DirtyBufSeeds == {0, 1, 9, 200}

KeyOf(cc) == IF cc.t = "sb" THEN Pat(cc.x[1], 32) ELSE BoxKeyOfShared(Pat(cc.x[1], 32))

\* one invariant prints the case and checks the model-level laws on it (sharing the evaluation of Seal)
EmitAndLaws ==
  (c.t \in {"sb", "box"}) =>
    LET key   == KeyOf(c)
        nonce == Pat(c.x[2], 24)
        n     == c.x[4]
        msg   == Pat(c.x[3], n)
        out   == Seal(key, nonce, msg)
    IN /\ IF c.t = "sb"
          THEN PrintT("TRACE " \o ToJson([t |-> "sb", kseed |-> c.x[1], nseed |-> c.x[2], mseed |-> c.x[3], len |-> n, out |-> out]))
          ELSE PrintT("TRACE " \o ToJson([t |-> "box", sseed |-> c.x[1], nseed |-> c.x[2], mseed |-> c.x[3], len |-> n, key |-> key, out |-> out,
                                          bufseeds |-> DirtyBufSeeds]))
       /\ Len(out) = n + 16                                                   \* Overhead
       /\ SubSeq(out, 17, n + 16) = SBCryptStream(key, nonce, msg)            \* secretbox.go's first-block split = the stream from byte 32
       /\ (n <= OpenMax) =>
            /\ Open(key, nonce, out) = [ok |-> TRUE, pt |-> msg]
            /\ Open(key, nonce, FlipBit(out, 1 + (n % 16), n % 8)) = Rejected          \* a tag bit
            /\ (n > 0) => Open(key, nonce, FlipBit(out, 16 + n, 7)) = Rejected          \* the last ciphertext bit
            /\ Open(key, nonce, SubSeq(out, 1, n + 15)) = Rejected                     \* truncated
       /\ (c.t = "box" /\ c.x[1] = 0) => key = LowOrderBoxKey
       \* Precompute into a used array: zero, all-ones, a pattern, and "the result of the previous Precompute" (the key itself)
       /\ (c.t = "box") => PrecomputeBufferIndependent({Pat(b, 32) : b \in DirtyBufSeeds} \cup {key}, Pat(c.x[1], 32))

LensQuick == {0, 1, 15, 16, 17, 31, 32, 33, 47, 48, 49, 63, 64, 65, 95, 96, 97, 100}
LensAll == LensQuick \cup {2, 30, 34, 79, 80, 81}
SBQuick == {<<7, 11, 5, n>> : n \in LensQuick} \cup {<<1, 1, 1, n>> : n \in {0, 33}} \cup {<<0, 0, 0, n>> : n \in {32}}
BoxQuick == {<<9, 4, 6, n>> : n \in {0, 33, 100}} \cup {<<0, 4, 6, n>> : n \in {0, 40}} \cup {<<1, 2, 3, 32>>}
SBThorough == {<<s[1], s[2], s[3], n>> : s \in {<<7, 11, 5>>, <<23, 3, 42>>}, n \in 0..100}
              \cup {<<1, 1, 1, n>> : n \in LensAll} \cup {<<0, 0, 0, n>> : n \in {0, 16, 32, 33, 97}}
              \cup {<<7, 11, 5, n>> : n \in {127, 128, 129, 159, 160, 161, 191, 192, 193, 255, 256, 257, 300}}
BoxThorough == {<<s, 4, 6, n>> : s \in {0, 1, 9, 77}, n \in {0, 1, 31, 32, 33, 64, 100}}
=============================================================================
