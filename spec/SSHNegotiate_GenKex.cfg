SPECIFICATION Spec
CONSTANTS
  Menu <- MenuKex
  AEAD <- MCAEAD
INVARIANTS Emit
CHECK_DEADLOCK FALSE
