\* part A, documentation of finding C19-F1: with the guards as they are, a negative keyLen reaches make / key[:keyLen]
\* (expected counterexample of ArgsHold)
CONSTANTS
  Hash <- MCHash
  BHash <- MCBHash
  BS = 32
  MaxSaltLen = 1048576
  NegFix = FALSE
INIT ArgsInit
NEXT Stutter
CHECK_DEADLOCK FALSE
INVARIANTS ArgsHold
