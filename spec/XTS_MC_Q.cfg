INIT Init
NEXT Next
CONSTANTS
  Groups <- GroupsQ
  CheckImpl = TRUE
INVARIANTS Check ToyVec
CHECK_DEADLOCK FALSE
