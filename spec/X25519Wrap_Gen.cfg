SPECIFICATION GSpec
CONSTANTS
  Q = 3
  UClasses <- MCU
  LowClasses <- MCLow
  SmallClasses <- MCSmall
  ScalarClasses <- MCScalars
  SameAsS1 <- MCSame
INVARIANTS EmitG TableSane
CHECK_DEADLOCK FALSE
