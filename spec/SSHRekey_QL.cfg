SPECIFICATION Spec
CONSTANTS
  MaxPending = 1
  ChanSize = 1
  Writers = {1}
  NPkts = 1
  MaxRekeys = 1
  Threshold = 1
  PktLens = {1}
  ExtInfo = FALSE
  NetCap = 1000000
  ReleaseAfterFlush = FALSE
INVARIANTS TypeOK K3
PROPERTIES K4 NoStuckWriter
CHECK_DEADLOCK FALSE
