---------------------- MODULE AutocertRenewTimerDirCache ----------------------
(* GROWTH SPECIFICATION X05, part (c) -- autocert.DirCache (acme/autocert/cache.go) at the
   granularity of file-system operations.

     Put     MkdirAll; then IN A GOROUTINE: writeTempFile (os.CreateTemp(dir, name) -> a fresh,
             uniquely named file; Write; Close), `defer os.Remove(tmp)`, a non-blocking look at
             ctx.Done(): cancelled -> skip, otherwise os.Rename(tmp, dir/name) (atomic replace).
             The caller waits for the goroutine OR the context, whichever comes first.
     Get     os.ReadFile(dir/name) in a goroutine (open, then read what the opened file holds);
             not-exist -> ErrCacheMiss.  The caller waits for the goroutine or the context.
     Delete  os.Remove(dir/name) in a goroutine; not-exist -> nil.  Same wait.

   File system: a directory `dir` mapping names to inodes, inodes holding (value, chunks written).
   A value is complete when all NChunks chunks are written.  rename replaces a directory entry
   atomically; an open file keeps its inode whatever happens to the directory afterwards.
   Every Put writes a fresh value (identified with its temp file / inode id), so "which Put did a
   reader see" is decidable.

   A caller whose context is cancelled returns ctx.Err() at once and ABANDONS its goroutine, which
   goes on (an "orphan"): it may still rename (if it had looked at the context before the
   cancellation) and it always removes its temp file in the end.

   The constant InPlace = TRUE replaces temp+rename by "open dir/name with O_TRUNC and write"; it
   exists to show that the properties are not vacuous (TLC must then find a partial read).

   PROPERTIES
     D1 VisibleComplete   a file visible under a key name is always complete
     D2 NoPartialRead     Get returns ErrCacheMiss, the context's error, or the complete value of
                          one Put of that key -- never a prefix, never a mixture
     D3 NoTempLeft        once every goroutine (also the abandoned ones) has finished, the
                          directory holds nothing but key files
     D4 Refinement        DirCache implements the atomic map of AutocertRenewTimerCacheAbs:
                          Get sees the latest linearized Put/Delete, Delete then Get misses,
                          a Put that returned nil is visible to every later Get until overwritten
                          or deleted, the context's error is returned only for a cancelled context
     D5 PutOkImpliesStored  (EXPECTED TO FAIL in the model: a Put whose goroutine saw the
                          cancellation skips the rename, leaves err = nil and closes `done`; if the
                          caller's select then takes the `done` branch, Put returns nil although
                          nothing was stored.  Kept as a documented deviation; the harness looks
                          for it on the real code and reports it under its own signature.)        *)
EXTENDS Integers, FiniteSets, TLC

CONSTANTS Procs, Keys, MaxOps, NChunks, InPlace, Cancels   \* Cancels: BOOLEAN, may contexts be cancelled

\* a Put is identified by (process, operation number) = its temp file = its value.  Procs are integers
\* 1..9 and ids integers (TLC cannot compare strings with tuples/integers); result codes are negative.
ASSUME Procs \subseteq 1..9 /\ MaxOps \in 1..9
IdOf(p, n) == p * 10 + n
Ids == {IdOf(p, n) : p \in Procs, n \in 1..MaxOps}
None == 0
RMiss == 0 - 1
RPartial == 0 - 2
ROk == 0 - 3
RCtx == 0 - 4
NoKey == "none"
NoG == [kind |-> "none", pc |-> "done", k |-> NoKey, id |-> None, fd |-> None, stored |-> FALSE, res |-> None]

VARIABLES dir,      \* dir[k] \in Ids \cup {None}: the inode visible under key name k
          tmp,      \* tmp[id]: the temp file of Put id exists in the directory (its inode is id)
          ino,      \* ino[id] = [n |-> chunks written, live |-> created?]
          fg,       \* fg[p] \in {"idle", "wait"}
          g,        \* g[p]: the goroutine of p's current operation
          can,      \* can[p]: context of the current operation cancelled
          nops,     \* nops[p]: operations started
          orph,     \* abandoned goroutines (set of goroutine records)
          last      \* last[p] = [kind, res, stored, can]: what the last operation of p returned
vars == <<dir, tmp, ino, fg, g, can, nops, orph, last>>

Complete(id) == ino[id].n = NChunks

Init == /\ dir = [k \in Keys |-> None] /\ tmp = [i \in Ids |-> FALSE]
        /\ ino = [i \in Ids |-> [n |-> 0, live |-> FALSE]]
        /\ fg = [p \in Procs |-> "idle"] /\ g = [p \in Procs |-> NoG]
        /\ can = [p \in Procs |-> FALSE] /\ nops = [p \in Procs |-> 0]
        /\ orph = {}
        /\ last = [p \in Procs |-> [kind |-> "none", res |-> None, stored |-> FALSE, can |-> FALSE]]

-----------------------------------------------------------------------------
(* One step of a goroutine gr whose context's cancellation status is c: the set of possible
   outcomes [g, dir, tmp, ino]. *)
Out(gr, d, t, i) == [g |-> gr, dir |-> d, tmp |-> t, ino |-> i]

PutStep(gr, c) ==
  CASE gr.pc = "create" ->
         IF ~InPlace
         THEN {Out([gr EXCEPT !.pc = "write"], dir, [tmp EXCEPT ![gr.id] = TRUE], [ino EXCEPT ![gr.id] = [n |-> 0, live |-> TRUE]])}
         ELSE \* open(dir/name, O_CREATE|O_TRUNC): the file under the key name itself is (re)written
              IF dir[gr.k] = None
              THEN {Out([gr EXCEPT !.pc = "write", !.fd = gr.id], [dir EXCEPT ![gr.k] = gr.id], tmp, [ino EXCEPT ![gr.id] = [n |-> 0, live |-> TRUE]])}
              ELSE {Out([gr EXCEPT !.pc = "write", !.fd = dir[gr.k]], dir, tmp, [ino EXCEPT ![dir[gr.k]].n = 0])}
    [] gr.pc = "write" ->
         LET t == IF InPlace THEN gr.fd ELSE gr.id IN
         {Out([gr EXCEPT !.pc = IF ino[t].n + 1 >= NChunks THEN (IF InPlace THEN "done" ELSE "check") ELSE "write",
                         !.stored = InPlace /\ ino[t].n + 1 >= NChunks],
              dir, tmp, [ino EXCEPT ![t].n = IF @ < NChunks THEN @ + 1 ELSE @])}
    [] gr.pc = "check" ->    \* select { case <-ctx.Done(): default: rename }
         {Out([gr EXCEPT !.pc = IF c THEN "rmtmp" ELSE "rename"], dir, tmp, ino)}
    [] gr.pc = "rename" ->
         {Out([gr EXCEPT !.pc = "rmtmp", !.stored = TRUE], [dir EXCEPT ![gr.k] = gr.id], [tmp EXCEPT ![gr.id] = FALSE], ino)}
    [] gr.pc = "rmtmp" ->    \* deferred os.Remove(tmp): a no-op after a rename
         {Out([gr EXCEPT !.pc = "done"], dir, [tmp EXCEPT ![gr.id] = FALSE], ino)}
    [] OTHER -> {}

GetStep(gr) ==
  CASE gr.pc = "open" ->
         IF dir[gr.k] = None THEN {Out([gr EXCEPT !.pc = "done", !.res = RMiss], dir, tmp, ino)}
         ELSE {Out([gr EXCEPT !.pc = "read", !.fd = dir[gr.k]], dir, tmp, ino)}
    [] gr.pc = "read" ->
         {Out([gr EXCEPT !.pc = "done", !.res = IF Complete(gr.fd) THEN gr.fd ELSE RPartial], dir, tmp, ino)}
    [] OTHER -> {}

DelStep(gr) ==
  CASE gr.pc = "remove" -> {Out([gr EXCEPT !.pc = "done", !.stored = TRUE], [dir EXCEPT ![gr.k] = None], tmp, ino)}
    [] OTHER -> {}

GStep(gr, c) == CASE gr.kind = "put" -> PutStep(gr, c)
                  [] gr.kind = "get" -> GetStep(gr)
                  [] gr.kind = "del" -> DelStep(gr)
                  [] OTHER -> {}

-----------------------------------------------------------------------------
Invoke(p, kind, k) ==
  /\ fg[p] = "idle" /\ nops[p] < MaxOps
  /\ nops' = [nops EXCEPT ![p] = @ + 1]
  /\ fg' = [fg EXCEPT ![p] = "wait"] /\ can' = [can EXCEPT ![p] = FALSE]
  /\ g' = [g EXCEPT ![p] = [kind |-> kind, k |-> k, id |-> IdOf(p, nops[p] + 1), fd |-> None, stored |-> FALSE, res |-> None,
                            pc |-> CASE kind = "put" -> "create" [] kind = "get" -> "open" [] OTHER -> "remove"]]
  /\ UNCHANGED <<dir, tmp, ino, orph, last>>

Cancel(p) == /\ Cancels /\ fg[p] = "wait" /\ ~can[p]
             /\ can' = [can EXCEPT ![p] = TRUE]
             /\ UNCHANGED <<dir, tmp, ino, fg, g, nops, orph, last>>

Work(p) == /\ fg[p] = "wait"
           /\ \E o \in GStep(g[p], can[p]) : g' = [g EXCEPT ![p] = o.g] /\ dir' = o.dir /\ tmp' = o.tmp /\ ino' = o.ino
           /\ UNCHANGED <<fg, can, nops, orph, last>>

OrphanWork(x) == /\ x \in orph
                 /\ \E o \in GStep(x, TRUE) :
                      /\ orph' = (orph \ {x}) \cup (IF o.g.pc = "done" THEN {} ELSE {o.g})
                      /\ dir' = o.dir /\ tmp' = o.tmp /\ ino' = o.ino
                 /\ UNCHANGED <<fg, g, can, nops, last>>

ResOf(gr) == IF gr.kind = "get" THEN gr.res ELSE ROk
\* the caller's select: the goroutine is done, or the context is cancelled (either, when both)
Return(p, viaCtx) ==
  /\ fg[p] = "wait"
  /\ IF viaCtx THEN can[p] ELSE g[p].pc = "done"
  /\ last' = [last EXCEPT ![p] = [kind |-> g[p].kind, res |-> IF viaCtx THEN RCtx ELSE ResOf(g[p]), stored |-> g[p].stored, can |-> can[p]]]
  /\ orph' = IF viaCtx /\ g[p].pc # "done" THEN orph \cup {g[p]} ELSE orph
  /\ fg' = [fg EXCEPT ![p] = "idle"] /\ g' = [g EXCEPT ![p] = NoG]
  /\ UNCHANGED <<dir, tmp, ino, can, nops>>

Next == \/ \E p \in Procs : \/ \E kind \in {"put", "get", "del"}, k \in Keys : Invoke(p, kind, k)
                            \/ Cancel(p) \/ Work(p) \/ \E c \in BOOLEAN : Return(p, c)
        \/ \E x \in orph : OrphanWork(x)
Spec == Init /\ [][Next]_vars

-----------------------------------------------------------------------------
D1_VisibleComplete == \A k \in Keys : dir[k] # None => Complete(dir[k])
D2_NoPartialRead   == /\ \A p \in Procs : last[p].res # RPartial /\ g[p].res # RPartial
                      /\ \A p \in Procs : (last[p].kind = "get" /\ last[p].res \in Ids) => Complete(last[p].res)
Quiet == orph = {} /\ \A p \in Procs : fg[p] = "idle"
D3_NoTempLeft      == Quiet => \A i \in Ids : ~tmp[i]
D5_PutOkImpliesStored == \A p \in Procs : (last[p].kind = "put" /\ last[p].res = ROk) => last[p].stored
\* without cancellation D5 holds; with it, only cancelled Puts deviate
D5c_DeviationOnlyWhenCancelled == \A p \in Procs : (last[p].kind = "put" /\ last[p].res = ROk /\ ~last[p].stored) => last[p].can
D6_CtxErrOnlyIfCancelled == \A p \in Procs : last[p].res = RCtx => last[p].can

-----------------------------------------------------------------------------
(* Refinement mapping to the atomic map. *)
absStore == [k \in Keys |-> IF dir[k] = None THEN None ELSE dir[k]]
OpRec(gr) == [op |-> gr.kind, k |-> gr.k, v |-> gr.id]
Phase(gr) == CASE gr.kind = "put" -> (IF gr.stored THEN "lin" ELSE IF gr.pc \in {"rmtmp", "done"} THEN "nostore" ELSE "pending")
               [] gr.kind = "get" -> (IF gr.pc = "open" THEN "pending" ELSE "lin")
               [] gr.kind = "del" -> (IF gr.pc = "done" THEN "lin" ELSE "pending")
               [] OTHER -> "idle"
AResOf(gr) == CASE Phase(gr) # "lin" -> None
                [] gr.kind = "get" -> (IF gr.pc = "done" /\ gr.res = RMiss THEN RMiss ELSE gr.fd)
                [] OTHER -> ROk
absOp   == [p \in Procs |-> IF fg[p] = "wait" THEN OpRec(g[p]) ELSE [op |-> "none", k |-> "none", v |-> None]]
absPh   == [p \in Procs |-> IF fg[p] = "wait" THEN Phase(g[p]) ELSE "idle"]
absRes  == [p \in Procs |-> IF fg[p] = "wait" THEN AResOf(g[p]) ELSE None]
absOrph == {OpRec(x) : x \in {y \in orph : y.kind # "get" /\ Phase(y) = "pending"}}

Abs == INSTANCE AutocertRenewTimerCacheAbs WITH
          AProcs <- Procs, AKeys <- Keys, AVals <- Ids, AllowOkNoStore <- TRUE,
          store <- absStore, aop <- absOp, aph <- absPh, ares <- absRes, acan <- can, orphans <- absOrph
D4_Refinement == Abs!ASpec
=============================================================================
