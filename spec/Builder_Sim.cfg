SPECIFICATION Spec
CONSTANTS
  Profiles <- ProfSim
INVARIANTS ErrIff CapErrOnlyFixed FitsAll ParseBack CapRespected LenIsSum PanicOnlyMisuse EmitEnd
CHECK_DEADLOCK FALSE
