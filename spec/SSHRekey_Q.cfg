SPECIFICATION Spec
CONSTANTS
  MaxPending = 1
  ChanSize = 1
  Writers = {1}
  NPkts = 2
  MaxRekeys = 1
  Threshold = 1
  PktLens = {1}
  ExtInfo = TRUE
  NetCap = 1000000
  ReleaseAfterFlush = FALSE
INVARIANTS TypeOK K1Wire K2State K3 QueueOnlyInKex
PROPERTIES K1 K2 K4 NoStuckWriter
CHECK_DEADLOCK FALSE
