SPECIFICATION Spec
CONSTANTS
  IntBits = 63
  KeyLenGuard = TRUE
  MemLog2 = 27
  WorkLog2 = 20
  NSet <- Bnd16
  RSet <- Bnd8
  PSet <- Bnd8
  KSet <- BndKq
INVARIANTS NeverPanics Conforms DivisionFormIsProductForm WrapCovered Emit
CHECK_DEADLOCK FALSE
