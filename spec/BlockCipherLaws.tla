--------------------------- MODULE BlockCipherLaws ---------------------------
(***************************************************************************)
(* C12 - legacy block ciphers: which keys the constructors accept, and the *)
(* laws of the crypto/cipher.Block interface they implement.               *)
(*                                                                         *)
(* Models the constructors                                                 *)
(*   /repo/blowfish/cipher.go   NewCipher, NewSaltedCipher                 *)
(*   /repo/twofish/twofish.go   NewCipher                                  *)
(*   /repo/cast5/cast5.go       NewCipher                                  *)
(*   /repo/tea/cipher.go        NewCipher, NewCipherWithRounds             *)
(*   /repo/xtea/cipher.go       NewCipher                                  *)
(*   /repo/pkcs12/internal/rc2  New (no checks: "TODO error checking")     *)
(* as guard transcriptions (CodeAccepts) against the documented key        *)
(* lengths (DocAccepts), and Encrypt/Decrypt(dst, src) as an abstract      *)
(* keyed permutation with the aliasing modes the interface allows          *)
(* (dst and src the same slice, or disjoint).  The Feistel networks and    *)
(* key schedules are not modelled, except TEA and XTEA, whose reference    *)
(* algorithms are executable definitions (PrimTea) evaluated by TLC.       *)
(***************************************************************************)
EXTENDS Integers, Sequences, FiniteSets, TLC

Ciphers == {"blowfish", "blowfish-salted", "twofish", "cast5", "tea", "xtea", "rc2"}

\* aux: blowfish-salted = salt length; tea = rounds; rc2 = effective key bits t1; otherwise 0
\* ---- the documentation
DocAccepts(c, keyLen, aux) ==
  CASE c = "blowfish"        -> keyLen \in 1..56                              \* "from 1 to 56 bytes"
    [] c = "blowfish-salted" -> IF aux = 0 THEN keyLen \in 1..56 ELSE keyLen >= 1   \* "the key can be over 56 bytes"; no salt = NewCipher
    [] c = "twofish"         -> keyLen \in {16, 24, 32}                       \* "16, 24 or 32 bytes"
    [] c = "cast5"           -> keyLen = 16                                   \* KeySize = 16; "keys must be 16 bytes" (RFC 2144's 5..15-byte keys are not offered)
    [] c = "tea"             -> keyLen = 16 /\ aux % 2 = 0                    \* "must be 16 bytes long", "rounds, which must be even"
    [] c = "xtea"            -> keyLen = 16                                   \* "XTEA only supports 128 bit (16 byte) keys"
    [] c = "rc2"             -> keyLen \in 1..128 /\ aux \in 1..1024          \* RFC 2268: T in 1..128 bytes, T1 in 1..1024 bits
\* RC2's internal constructor documents nothing and checks nothing: outside RFC 2268's domain its behaviour is
\* undefined (index panics); such arguments are not cases of the property (pkcs12 passes 5 or 16 bytes, t1 = 8*len)
Defined(c, keyLen, aux) == c = "rc2" => (keyLen \in 1..128 /\ aux \in 1..1024)

\* ---- the code's guards
CodeAccepts(c, keyLen, aux) ==
  CASE c = "blowfish"        -> ~(keyLen < 1 \/ keyLen > 56)
    [] c = "blowfish-salted" -> IF aux = 0 THEN ~(keyLen < 1 \/ keyLen > 56) ELSE ~(keyLen < 1)
    [] c = "twofish"         -> ~(keyLen # 16 /\ keyLen # 24 /\ keyLen # 32)
    [] c = "cast5"           -> ~(keyLen # 16)
    [] c = "tea"             -> ~(keyLen # 16) /\ ~(aux % 2 # 0)              \* rounds&1 != 0 (two's complement: also for negative rounds)
    [] c = "xtea"            -> keyLen = 16                                   \* switch k { default: error; case 16: }
    [] c = "rc2"             -> TRUE

BlockSize(c) == IF c = "twofish" THEN 16 ELSE 8

\* ---- Encrypt / Decrypt as operations on caller buffers
\* A block is an element of Blocks; E is a permutation of Blocks (the keyed cipher), D its inverse.  The caller has two
\* buffers a and b; an operation reads the whole source block and then writes the whole destination block (every
\* implementation loads src into words before it stores to dst), with dst = src allowed.
CONSTANT Blocks
Perms == {f \in [Blocks -> Blocks] : \A y \in Blocks : \E x \in Blocks : f[x] = y}
Inverse(f) == [y \in Blocks |-> CHOOSE x \in Blocks : f[x] = y]

VARIABLES E, a, b, a0, trace
lvars == <<E, a, b, a0, trace>>
LInit == E \in Perms /\ a \in Blocks /\ b \in Blocks /\ a0 = a /\ trace = <<>>
Op(name, dst, src) ==        \* name in {"enc", "dec"}, dst/src in {"a", "b"}
  LET in  == IF src = "a" THEN a ELSE b
      out == IF name = "enc" THEN E[in] ELSE Inverse(E)[in]
  IN /\ a' = IF dst = "a" THEN out ELSE a
     /\ b' = IF dst = "b" THEN out ELSE b
     /\ trace' = Append(trace, <<name, dst, src>>)
     /\ UNCHANGED <<E, a0>>
LNext == Len(trace) < 2 /\ \E n \in {"enc", "dec"}, d \in {"a", "b"}, s \in {"a", "b"} : Op(n, d, s)
LSpec == LInit /\ [][LNext]_lvars

\* Decrypt(Encrypt(x)) = x and Encrypt(Decrypt(x)) = x, through any aliasing: a -> X -> Y with the inverse operation
RoundTripLaw ==
  Len(trace) = 2 /\ trace[1][3] = "a" /\ trace[2][3] = trace[1][2] /\ trace[1][1] # trace[2][1]
     => (IF trace[2][2] = "a" THEN a ELSE b) = a0
\* an operation with dst # src leaves src as it was
SrcUntouched == Len(trace) = 1 /\ trace[1][2] = "b" /\ trace[1][3] = "a" => a = a0
\* in place equals out of place
InPlaceSame == Len(trace) = 1 /\ trace[1][3] = "a" => (IF trace[1][2] = "a" THEN a ELSE b) = (IF trace[1][1] = "enc" THEN E[a0] ELSE Inverse(E)[a0])
=============================================================================
