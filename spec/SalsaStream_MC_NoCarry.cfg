SPECIFICATION Spec
CONSTANTS
  BS = 2
  Wide = 4
  DB = 2
  ND = 4
  MaxLen = 20
  Impls = {"asm"}
  NoCarry = TRUE
INVARIANTS TypeOK PrefixOK CounterOK DoneOK
CHECK_DEADLOCK FALSE
