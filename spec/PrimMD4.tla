------------------------------ MODULE PrimMD4 ------------------------------
(***************************************************************************)
(* Layer P (binding E): MD4 exactly as RFC 1320 section 3 defines it       *)
(* (padding 3.1, length 3.2, initial buffer 3.3, the three rounds of 3.4,  *)
(* output 3.5), as an executable TLA+ definition evaluated by TLC.  This   *)
(* is the byte oracle against which /repo/md4 (md4.go: Write/Sum padding   *)
(* and buffering; md4block.go: _Block) is compared (C14).  Words are       *)
(* PrimWords 32-bit words <<hi, lo>>; the module also holds what MD4 and   *)
(* RIPEMD-160 share: And/Or/Not on words, the Merkle-Damgard padding with  *)
(* a 64-bit little-endian bit count, little-endian block words.            *)
(* The ASSUMEs are the RFC 1320 appendix A.5 test suite: a wrong module    *)
(* refuses to run.                                                         *)
(***************************************************************************)
EXTENDS PrimWords, SequencesExt

And32(a, b) == <<a[1] & b[1], a[2] & b[2]>>
Or32(a, b)  == <<a[1] | b[1], a[2] | b[2]>>
Not32(a)    == <<65535 - a[1], 65535 - a[2]>>
Add3(a, b, c) == Add32(Add32(a, b), c)
Add4(a, b, c, d) == Add32(Add32(a, b), Add32(c, d))

\* RFC 1320 3.1/3.2 (the same in RIPEMD-160): a single 1 bit, 0 bits up to 448 mod 512, then the
\* bit length as a 64-bit little-endian integer (low word first)
MDPad(msg) == LET n == Len(msg) IN msg \o <<128>> \o Zeros((119 - (n % 64)) % 64) \o LE64(8 * n)
\* the 16 little-endian words of block k (0-based) of a padded message, indexed 0..15
BlockWords(P, k) == [i \in 0..15 |-> LE32(P, 64 * k + 4 * i + 1)]

F4(x, y, z) == Or32(And32(x, y), And32(Not32(x), z))
G4(x, y, z) == Or32(Or32(And32(x, y), And32(x, z)), And32(y, z))
H4(x, y, z) == Xor32(Xor32(x, y), z)
\* RFC 1320 3.4: [abcd k s] denotes a = (a + f(b,c,d) + X[k] + K) <<< s; successive operations
\* rotate the roles ABCD, DABC, CDAB, BCDA: q = <<a, b, c, d>> in the current roles
Op4(q, f, xk, K, s) == << q[4], Rotl32(Add4(q[1], f, xk, K), s), q[2], q[3] >>
K2 == <<23170, 31129>>     \* 0x5A827999
K3 == <<28377, 60321>>     \* 0x6ED9EBA1
Ord2 == <<0, 4, 8, 12, 1, 5, 9, 13, 2, 6, 10, 14, 3, 7, 11, 15>>
Ord3 == <<0, 8, 4, 12, 2, 10, 6, 14, 1, 9, 5, 13, 3, 11, 7, 15>>
Sh1 == <<3, 7, 11, 19>>
Sh2 == <<3, 5, 9, 13>>
Sh3 == <<3, 9, 11, 15>>
RECURSIVE Steps4(_, _, _)
Steps4(q, X, j) ==
  IF j = 48 THEN q
  ELSE LET i == j % 16  s4 == (j % 4) + 1 IN
       Steps4(IF j < 16 THEN Op4(q, F4(q[2], q[3], q[4]), X[i], <<0, 0>>, Sh1[s4])
              ELSE IF j < 32 THEN Op4(q, G4(q[2], q[3], q[4]), X[Ord2[i + 1]], K2, Sh2[s4])
              ELSE Op4(q, H4(q[2], q[3], q[4]), X[Ord3[i + 1]], K3, Sh3[s4]), X, j + 1)
Compress4(h, X) == LET q == Steps4(h, X, 0) IN
  << Add32(h[1], q[1]), Add32(h[2], q[2]), Add32(h[3], q[3]), Add32(h[4], q[4]) >>
Init4 == << <<26437, 8961>>, <<61389, 43913>>, <<39098, 56574>>, <<4146, 21622>> >>   \* 67452301 efcdab89 98badcfe 10325476
RECURSIVE Chain4(_, _, _)
Chain4(h, P, k) == IF 64 * k >= Len(P) THEN h ELSE Chain4(Compress4(h, BlockWords(P, k)), P, k + 1)
MD4(msg) == LET h == Chain4(Init4, MDPad(msg), 0) IN Bytes32(h[1]) \o Bytes32(h[2]) \o Bytes32(h[3]) \o Bytes32(h[4])

Str62 == <<65,66,67,68,69,70,71,72,73,74,75,76,77,78,79,80,81,82,83,84,85,86,87,88,89,90,97,98,99,100,101,102,103,104,105,106,107,108,109,110,111,112,113,114,115,116,117,118,119,120,121,122,48,49,50,51,52,53,54,55,56,57>>
Str80 == [i \in 1..80 |-> IF i % 10 = 0 THEN 48 ELSE 48 + (i % 10)] \o <<>>      \* "1234567890" x 8
AtoZ == [i \in 1..26 |-> 96 + i] \o <<>>

ASSUME /\ Len(MDPad(<<>>)) = 64 /\ Len(MDPad(Zeros(55))) = 64 /\ Len(MDPad(Zeros(56))) = 128 /\ Len(MDPad(Zeros(64))) = 128
       /\ SubSeq(MDPad(Zeros(3)), 57, 64) = <<24, 0, 0, 0, 0, 0, 0, 0>>
       /\ And32(<<65280, 255>>, <<4080, 4080>>) = <<3840, 240>> /\ Not32(<<0, 65535>>) = <<65535, 0>>
ASSUME MD4(<<>>) = <<49,214,207,224,209,106,233,49,183,60,89,215,224,192,137,192>>
ASSUME MD4(<<97>>) = <<189,229,44,179,29,227,62,70,36,94,5,251,219,214,251,36>>
ASSUME MD4(<<97,98,99>>) = <<164,72,1,122,175,33,216,82,95,193,10,232,122,166,114,157>>
ASSUME MD4(<<109,101,115,115,97,103,101,32,100,105,103,101,115,116>>) = <<217,19,10,129,100,84,159,232,24,135,72,6,225,199,1,75>>
ASSUME MD4(AtoZ) = <<215,158,28,48,138,165,187,205,238,168,237,99,223,65,45,169>>
ASSUME MD4(Str62) = <<4,63,133,130,242,65,219,53,28,230,39,225,83,231,240,228>>
ASSUME MD4(Str80) = <<227,59,77,220,156,56,242,25,156,62,123,22,79,204,5,54>>
=============================================================================
