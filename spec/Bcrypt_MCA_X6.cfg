SPECIFICATION SpecX
CONSTANTS
  KeyBytes = 4
  Alphabet = {0, 97, 98}
  MaxLen = 6
  Seeds = {}
  Lens = {}
  Costs = {}
INVARIANTS T1 T2 T3 T4 T5 T6 T7 T8 T9 CompareIffSameKey
CHECK_DEADLOCK FALSE
