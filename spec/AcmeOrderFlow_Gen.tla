-------------------------- MODULE AcmeOrderFlow_Gen --------------------------
(* Behaviour generator of AcmeOrderFlow (binding R of X02, autocert issuance flow). *)
EXTENDS AcmeOrderFlow_MC, Json
VARIABLE hist
\* every entry carries the event and what the fake CA needs to play it: statuses of all authorizations and
\* the offers of the current order after the step
H(e, a, o) == [e |-> e, az |-> a, of |-> o]
GenInit == Init /\ hist = <<H(ev, azSt, offer)>>
GenNext == Next /\ hist' = Append(hist, H(ev', azSt', offer'))
GenSpec == GenInit /\ [][GenNext]_<<vars, hist>>
Emit == Done => PrintT("TRACE " \o ToJson([http |-> http, nauthz |-> NAuthz, h |-> hist, result |-> result, orders |-> k, az |-> azSt]))
=============================================================================
