SPECIFICATION Spec
CONSTANTS
  Shapes <- MC_Shapes
  ASet <- MC_ASetQ
  RSet <- MC_RSetQ
INVARIANTS MulOK AddOK ModOK StepOK
CHECK_DEADLOCK FALSE
