\* DOCUMENTATION ONLY (finding C46-H1, fixed in /repo 91fc6da): with the pre-fix header parsing switched on, TLC refutes RoundTrip
\* on a header with an empty value ("Key: " is trimmed to "Key:" and the block is abandoned).  Nothing here is expected of the code.
SPECIFICATION Spec
CONSTANTS
  Inputs <- EmptyValueOnly
  Mutations = {"none"}
  PreFixEmptyValue <- AlwaysTrue
INVARIANTS RoundTrip
CHECK_DEADLOCK FALSE
