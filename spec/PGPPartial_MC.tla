--------------------------- MODULE PGPPartial_MC ---------------------------
(* Instances of PGPPartial (C44): write patterns around every chunk-size boundary, and the generator for binding R
   (the predicted partial length octets of a literal packet for a given write pattern). *)
EXTENDS PGPPartial, Json

Hdr == 13         \* literal header written first by SerializeLiteral: format, name length, "c44.bin", date = 6 + 7 octets
\* message sizes: around 512, and such that header + size crosses 2^k for k = 9, 13, 15, 16, 17 (and beyond in the big set)
Around(k) == {Pow2(k) - Hdr - 1, Pow2(k) - Hdr, Pow2(k) - Hdr + 1, Pow2(k), Pow2(k) + 1}
SizesQ == {0, 1, 40, 498, 499, 500, 1000, 100000} \cup Around(9) \cup Around(13) \cup Around(15) \cup Around(16) \cup Around(17)
SizesT == SizesQ \cup Around(20) \cup Around(22) \cup {1048576 + 7, 3000000, 1073741824 - Hdr, 1073741824, 1073741824 + 12345, 2000000000}
RECURSIVE Pieces(_, _)
Pieces(n, p) == IF n = 0 THEN <<>> ELSE IF n <= p THEN <<n>> ELSE <<p>> \o Pieces(n - p, p)
One(n) == IF n = 0 THEN <<Hdr>> ELSE <<Hdr, n>>                           \* the whole message in ONE Write
In(n, p) == <<Hdr>> \o Pieces(n, p)
PatternsOf(S, big) == {One(n) : n \in S} \cup {In(n, 32768) : n \in {m \in S : m <= big}} \cup {In(n, 4096) : n \in {m \in S : m <= 200000}}
                      \cup {In(n, 1) : n \in {m \in S : m <= 1000}} \cup {In(n, 100) : n \in {m \in S : m <= 10000}}
PatternsQ == PatternsOf(SizesQ, 200000)
PatternsT == PatternsOf(SizesT, 5000000)
Mask0f == 15

Emit == Done => PrintT("TRACE " \o ToJson([pat |-> pat, total |-> Sum(pat), octets |-> [k \in 1..Len(chunks) |-> chunks[k].o], maxExp |-> MaxChunkExp]))
=============================================================================
