SPECIFICATION Spec
CONSTANTS
  B = 4
  Size = 2
  KeyLen = 0
  NSet <- MC_NSet
  MaxBytes = 13
  MaxSize = 3
  RangeCheck = TRUE
  CorruptSizes <- MC_None
  WithMarshal = FALSE
  CorruptOffsets <- MC_None
INVARIANTS TypeOK ShapeOK DefinedIffShape NoPanic BufInv SumIsDefinition
PROPERTIES Refines AbsSumStable AbsResetRestores
CHECK_DEADLOCK FALSE
