SPECIFICATION GenSpec
CONSTANTS
  MaxLine = 255
  MaxPre = 1024
  MaxPending = 64
  ChanSize = 16
  Roles <- BothRoles
  Owns <- OwnsTwo
  StrictOpts <- OnlyT
  ExtcOpts <- OnlyF
  RkOpts <- OnlyF
  StartPh = "ver"
  VerSteps <- VerRealQ
  MaxVer = 6
  Kinds <- KindsVerGen
  MaxPkt = 3
  MaxNoise = 0
  MaxPing = 0
  PingRuns <- NoRuns
  Bursts <- NoRuns
  AsIs = FALSE
VIEW AbsView
CHECK_DEADLOCK FALSE
