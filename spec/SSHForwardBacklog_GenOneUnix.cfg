SPECIFICATION GenSpec
CONSTANTS
  Listeners <- LA
  Kind <- KUnix
  Order <- OCode
  CapIncoming = 16
  CapHandler = 16
  MaxPer = 0
  Bursts <- B40
  MaxHist = 3
CHECK_DEADLOCK FALSE
INVARIANT Emit
