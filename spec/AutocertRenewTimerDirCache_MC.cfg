\* exhaustive: 3 processes, 1 key, 1 operation each, 2 chunks, cancellation allowed
SPECIFICATION Spec
CONSTANTS
  Procs = {1, 2, 3}
  Keys = {"k1"}
  MaxOps = 1
  NChunks = 2
  InPlace = FALSE
  Cancels = TRUE
INVARIANTS D1_VisibleComplete D2_NoPartialRead D3_NoTempLeft D5c_DeviationOnlyWhenCancelled D6_CtxErrOnlyIfCancelled
PROPERTIES D4_Refinement
CHECK_DEADLOCK FALSE
