\* part C at toy crypto scale, real block size: GoKey = KeySpec, vectors emitted
CONSTANTS
  Hash <- MCHash
  BHash <- MCBHash
  BS = 32
  MaxSaltLen = 1048576
  VecCases <- VecThorough
INIT VecInit
NEXT VecGo
CHECK_DEADLOCK FALSE
INVARIANTS VecHold VecPrimEmit
