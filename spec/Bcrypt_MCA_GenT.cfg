SPECIFICATION SpecG
CONSTANTS
  KeyBytes = 72
  Alphabet = {}
  MaxLen = 0
  Seeds = {2, 3, 4, 5, 6, 7, 8, 9}
  Lens = {0, 1, 2, 3, 5, 8, 17, 23, 35, 36, 37, 47, 69, 70, 71, 72, 73, 74, 80}
  Costs = {}
INVARIANTS EmitA FamilyTheorems
CHECK_DEADLOCK FALSE
