--------------------------- MODULE SSHInterop_Trace ---------------------------
(* Binding T for C27: the packet trace recorded on the Go server while a real OpenSSH client
   talked to it (hook ssh.VerifNewServerConnRecorded: every packet at the boundary between
   handshakeTransport and transport, plus the 'queued' / 'kexdone' linearization points of
   handshake.go, appended to one log under one lock by harness/c27) must be explained by
   the server-side projection SSHInterop without any rule being flagged.

   Logged events (uniform records {ev, ty, c, n, ok, min}; consecutive packets of one
   direction and one message number are run-length encoded by the harness, c = run length,
   n = payload bytes in the run):
     wire     transport.writePacket entry            Observe("out", ty, c)
     recv     transport.readPacket returned          Observe("in", ty, c)
     queued   packet appended to pendingPackets      ObserveQueued
     kexdone  kexLoop left enterKeyExchange          ObserveKexDone
     end      connection over; ok = OpenSSH exit status 0 and echoed bytes equal,
              min = re-keys the peer's RekeyLimit forces for the payload      ObserveEnd *)
EXTENDS SSHInterop, TraceLib

TraceInit == MInit /\ l = 1 /\ HWMInit

TReset == /\ IsEvent("reset")
          /\ ph' = [d \in Dirs |-> "init"] /\ ninit' = [d \in Dirs |-> 0] /\ nkex' = [d \in Dirs |-> 0]
          /\ nk' = [d \in Dirs |-> 0] /\ done' = 0 /\ authed' = FALSE /\ failed' = FALSE /\ bad' = ""

TWire    == IsEvent("wire")    /\ Ev.c >= 1 /\ Observe("out", Ev.ty, Ev.c)
TRecv    == IsEvent("recv")    /\ Ev.c >= 1 /\ Observe("in", Ev.ty, Ev.c)
TQueued  == IsEvent("queued")  /\ ObserveQueued
TKexDone == IsEvent("kexdone") /\ ObserveKexDone
TEnd     == IsEvent("end")     /\ ObserveEnd(Ev.ok, Ev.min)

TraceNext == TReset \/ TWire \/ TRecv \/ TQueued \/ TKexDone \/ TEnd
TraceSpec == TraceInit /\ [][TraceNext]_<<mvars, l>>
=============================================================================
