\* quick: 2 processes x 2 operations on 1 key, 2 chunks, cancellation allowed
SPECIFICATION Spec
CONSTANTS
  Procs = {1, 2}
  Keys = {"k1"}
  MaxOps = 2
  NChunks = 2
  InPlace = FALSE
  Cancels = TRUE
INVARIANTS D1_VisibleComplete D2_NoPartialRead D3_NoTempLeft D5c_DeviationOnlyWhenCancelled D6_CtxErrOnlyIfCancelled
PROPERTIES D4_Refinement
CHECK_DEADLOCK FALSE
