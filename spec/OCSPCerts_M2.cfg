SPECIFICATION Spec
CONSTANTS
  MaxCerts = 2
INVARIANTS OnlyAuthorized ReturnedIsTheSigner NothingReturnedMeansIssuer NoBorrowedTrust SignedBytesProtected FirstOnly Emit
CHECK_DEADLOCK FALSE
