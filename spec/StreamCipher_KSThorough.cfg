SPECIFICATION Spec
CONSTANTS
  KSCases <- KSThorough
  HCCases <- HCThorough
INVARIANTS Emit
CHECK_DEADLOCK FALSE
