---------------------------- MODULE KnownHosts_MC ----------------------------
(* Bounded instances of KnownHosts and the case generator for binding R (property C42).
   TLC evaluates every zero-arity constant definition visible from the root module at start-up, so
   this module holds the shared operators and the small instance W (+ round trip); the file menus of
   the instances L and F live in KnownHosts_MCL / KnownHosts_MCF; KnownHosts_MCQ is the root module of
   the quick tier (all three families in one TLC run, each family with its own query list) and
   KnownHosts_MCBig the one of the thorough tier. *)
EXTENDS KnownHosts, Json

A == <<"a">>      B == <<"b">>      AB == <<"a", "b">>
Star == <<"*">>   AStar == <<"a", "*">>   QB == <<"?", "b">>   StarB == <<"*", "b">>
P2 == "2222"
Ports == {P22, P2}
Pat(n, h, pt) == [neg |-> n, h |-> h, port |-> pt]
Pos(h) == Pat(FALSE, h, P22)
Range(s) == {s[i] : i \in 1..Len(s)}

RECURSIVE Strs(_, _)
Strs(Al, n) == IF n = 0 THEN {<<>>} ELSE LET L == Strs(Al, n - 1) IN L \cup {Append(l, c) : l \in L, c \in Al}
PatAlphabet == {"a", "b", ".", "*", "?"}
HostAlphabet == {"a", "b", "."}

Plain(k) == [cert |-> FALSE, k |-> k, ca |-> NoKey]
Cert(k, ca) == [cert |-> TRUE, k |-> k, ca |-> ca]
Q(hh, h, pt, rh, rpt, key) == [hasHost |-> hh, h |-> h, port |-> pt, rh |-> rh, rport |-> rpt, key |-> key]

\* deterministic ordering of a product as a sequence: Prod3(X, Y, Z, F)[..] = F(x, y, z)
Prod3(X, Y, Z, F(_, _, _)) ==
  [n \in 1..(Len(X) * Len(Y) * Len(Z)) |->
     F(X[((n - 1) \div (Len(Y) * Len(Z))) + 1], Y[(((n - 1) \div Len(Z)) % Len(Y)) + 1], Z[((n - 1) % Len(Z)) + 1])]

-----------------------------------------------------------------------------
(* ---- instance W: one line, one pattern -- wildcardMatch against the declarative Wild ---- *)
WPatLen == 3
WStrLen == 4
WFiles(n) == { << [m |-> "none", hashed |-> FALSE, pats |-> <<Pos(p)>>, key |-> "k1"] >> : p \in Strs(PatAlphabet, n) \ {<<>>} }
FilesW == WFiles(WPatLen) \cup {<<>>}       \* the empty file carries the round-trip check (instance R)
QueriesW == << Q(TRUE, A, P22, B, P22, Plain("k1")) >>
\* generator queries: every host up to the bound with a key no line lists (KeyError.Want = matching lines)
\* (cheap to evaluate: TLC re-evaluates the definition a cfg constant is replaced with at each use)
HostAlphaSeq == <<"a", "b", ".">>
RECURSIVE Pow(_, _)
Pow(a, b) == IF b = 0 THEN 1 ELSE a * Pow(a, b - 1)
StrsExact(AS, k) == [n \in 1..Pow(Len(AS), k) |-> [j \in 1..k |-> AS[(((n - 1) \div Pow(Len(AS), k - j)) % Len(AS)) + 1]]]
RECURSIVE HostSeq(_)
HostSeq(n) == IF n = 0 THEN <<>> ELSE HostSeq(n - 1) \o StrsExact(HostAlphaSeq, n)
HostQueries(n) == LET hs == HostSeq(n) IN [k \in 1..Len(hs) |-> Q(TRUE, hs[k], P22, B, P22, Plain("k2"))]
QueriesWG == HostQueries(3)
\* checked once per pattern (in the state after New)
WildAgreeN(n) == (phase = "ready" /\ fam \in {"W", "WB"} /\ file # <<>>) =>
   \A s \in Strs(HostAlphabet, n) \cup Strs({"a", "*", "?"}, n - 1) :
       WildT(StarFix, file[1].pats[1].h, s) = Wild(file[1].pats[1].h, s)
WildAgree == WildAgreeN(WStrLen)
\* every string matches itself as a pattern; "*" matches everything; text round trip of patterns
WildSelf == (phase = "ready" /\ fam \in {"W", "WB"} /\ file # <<>>) =>
   LET p == file[1].pats[1].h IN
   /\ Wild(p, p) /\ WildT(StarFix, p, p)
   /\ \A pt \in Ports, n \in BOOLEAN : ParsePattern(PatternText(Pat(n, p, pt))) = Pat(n, p, pt)

-----------------------------------------------------------------------------
(* ---- instance R: Normalize / Line / HashHostname round trip ---- *)
\* (evaluated on the empty file of instance W)
RTAddrs == {[h |-> h, port |-> pt] : h \in Strs({"a", ".", "*", "?"}, 2) \ {<<>>}, pt \in Ports}
Accepts(l, a) == DecideT(StarFix, SubjectFix, Parse(<<l>>), Q(TRUE, a.h, a.port, B, P2, Plain("k1"))).t = "ok"
RoundTrip == (phase = "ready" /\ fam = "W" /\ file = <<>>) =>
  /\ \A a \in RTAddrs :
       /\ LineMatchD(LineOf(<<a>>, "k1"), a.h, a.port) /\ Accepts(LineOf(<<a>>, "k1"), a)
       /\ LineMatchD(HashedLineOf(a, "k1"), a.h, a.port) /\ Accepts(HashedLineOf(a, "k1"), a)
       \* a hashed line matches nothing but its own name
       /\ \A b \in RTAddrs : Accepts(HashedLineOf(a, "k1"), b) <=> a = b
  /\ \A a, b \in RTAddrs : Accepts(LineOf(<<a, b>>, "k1"), a) /\ Accepts(LineOf(<<a, b>>, "k1"), b)
  \* Normalize is injective on (host, port)
  /\ \A a, b \in RTAddrs : Norm(a.h, a.port) = Norm(b.h, b.port) => a = b

-----------------------------------------------------------------------------
(* ---- generator: one record per file with the predictions for every query of QuerySeq:
        d = the declarative decision (the property), o = where the former algorithm (StarFix = SubjectFix
        = FALSE) decides differently, how, and which of the two former pieces explains it ---- *)
Cmp(r) == [t |-> r.t, w |-> r.want, y |-> r.why]
CmpT(r) == [t |-> r.t, w |-> SeqSet(r.want), y |-> r.why]
Emit == phase = "ready" =>
  LET QS == QuerySeq              \* (a cfg-substituted constant is re-evaluated at each use: bind it once)
      NQ == Len(QS)
      D == [i \in 1..NQ |-> Cmp(DecideD(file, QS[i]))]
      O == [i \in 1..NQ |-> CmpT(DecideT(FALSE, FALSE, db, QS[i]))]
      \* which former piece explains the difference
      Cause(i) == IF CmpT(DecideT(FALSE, TRUE, db, QS[i])) = O[i] THEN "star"
                  ELSE IF CmpT(DecideT(TRUE, FALSE, db, QS[i])) = O[i] THEN "subject" ELSE "both"
  IN PrintT("TRACE " \o ToJson([fam |-> fam, f |-> file, d |-> D,
        o |-> {[i |-> i, r |-> O[i], c |-> Cause(i)] : i \in {j \in 1..NQ : O[j].t # D[j].t \/ O[j].w # D[j].w}}]))
Cases(tag, files) == {[fam |-> tag, f |-> x] : x \in files}
\* the query list of a family, printed once per run by the root module
EmitQueries(tag, qs) == PrintT("TRACE " \o ToJson([fam |-> tag, queries |-> qs]))
=============================================================================
