SPECIFICATION Spec
CONSTANTS
  Menus <- MenusGenQ
INVARIANTS Emit
CHECK_DEADLOCK FALSE
