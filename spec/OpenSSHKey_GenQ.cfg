SPECIFICATION Spec
CONSTANTS
  Menus <- MenusGenQ
  FixConsistency = TRUE
INVARIANTS Emit
CHECK_DEADLOCK FALSE
