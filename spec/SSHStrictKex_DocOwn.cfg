\* documentation: a server that consults its OWN KEXINIT's marker goes strict against a legacy client; S5 and S6 fail
SPECIFICATION Spec
CONSTANTS Scenarios <- ScOneSided
          ServerStrictRule = "own"
INVARIANTS S5orS6
CHECK_DEADLOCK FALSE
