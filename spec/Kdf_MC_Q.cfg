INIT Init
NEXT Next
CONSTANTS
  HkdfCases <- HkdfCasesQ
  PbCases <- PbCasesQ
  PbBig <- PbBigQ
INVARIANTS Check
CHECK_DEADLOCK FALSE
