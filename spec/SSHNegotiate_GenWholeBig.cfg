SPECIFICATION Spec
CONSTANTS
  Menu <- MenuWholeBig
  AEAD <- MCAEAD
INVARIANTS Emit
CHECK_DEADLOCK FALSE
