------------------------------ MODULE SSHInterop ------------------------------
(* C27 — interoperability with a foreign SSH implementation (OpenSSH).

   This module is the SERVER-SIDE PROJECTION of the SSH transport protocol (RFC 4253 7,
   RFC 8308) as a small state machine over the packets that cross the boundary between
   golang.org/x/crypto/ssh's handshakeTransport (handshake.go: readLoop, kexLoop,
   writePacket, enterKeyExchange) and its transport (transport.go) in ONE connection:

       dir "out"   packets the Go server hands to transport.writePacket   (hook event "wire")
       dir "in"    packets transport.readPacket returned to the server    (hook event "recv")

   The peer is a foreign program (the OpenSSH client); nothing of it is modelled except
   what RFC 4253 obliges it to do, so the machine is one-sided and deliberately permissive:
   it tracks, per direction, only where the stream is relative to the key exchanges

       ph[d] = "init"   nothing sent yet in that direction
               "kex"    that side's KEXINIT seen, its NEWKEYS not yet  (RFC 4253 7.1 window)
               "open"   that side's NEWKEYS seen, no new KEXINIT since

   and flags a rule the first time an observed packet breaks it (variable `bad`; the
   invariants at the end are "rule R was never broken").  The rules are exactly what C27
   asks of the packet trace of an interoperating connection:

     FirstIsKexInit      the first packet of each direction is SSH_MSG_KEXINIT
     KexShape            every key exchange has the shape KEXINIT kexmsg+ NEWKEYS in each
                         direction (no second KEXINIT, no NEWKEYS or kex message outside)
     KexCausal           a side sends NEWKEYS (and the server any kex message) only after the
                         other side's KEXINIT of the same exchange
     BeforeFirstNewKeys  service / user-auth / connection packets only after the first NEWKEYS
     K1Out, K1In         no service / user-auth / connection packet between a side's KEXINIT
                         and its NEWKEYS (K1 of C31 for the server; RFC 4253 7.1 for the peer)
     ConnBeforeAuth      connection-protocol packets only after SSH_MSG_USERAUTH_SUCCESS
     SessionIncomplete   a connection reported as successful completed the initial key
                         exchange and authenticated
     RekeysEnough        it completed at least the number of key re-exchanges that the peer's
                         RekeyLimit forces for the payload that was echoed

   Anything else (EXT_INFO placement, IGNORE/DEBUG, ping, window adjusts, how many kex
   messages a method needs, who starts a re-key, interleaving of the two directions) is
   accepted.  Why the cross-direction rules are sound for a log with one lock: "recv" is
   logged after readPacket returns and before the packet is acted on, "wire" before the
   packet is written, so whenever the server's sending of Y depends on its having read X, X
   precedes Y in the log; and a packet of the peer that depends on one of ours can only be
   read after ours was logged.

   SSHInterop_Trace.tla binds this machine to recorded connections; SSHInterop_Proto.tla
   composes it with a two-party abstraction of the handshake to show (TLC, exhaustively)
   that no rule is ever flagged on a correct execution, including simultaneous and
   back-to-back re-keys, and that it is flagged when the server stops queueing application
   packets during a key exchange. *)
EXTENDS Integers, Sequences, TLC

Dirs == {"out", "in"}
Other(d) == IF d = "out" THEN "in" ELSE "out"

VARIABLES ph,       \* [Dirs -> {"init","kex","open"}]
          ninit,    \* [Dirs -> Nat]   KEXINITs seen
          nkex,     \* [Dirs -> Nat]   kex-method messages seen since the last KEXINIT
          nk,       \* [Dirs -> Nat]   NEWKEYS seen
          done,     \* key exchanges completed on the server (hook 'kexdone' with both NEWKEYS through)
          authed,   \* SSH_MSG_USERAUTH_SUCCESS sent by the server
          failed,   \* a 'kexdone' was reported for an exchange that did not complete
          bad       \* "" or the name of the first rule broken
mvars == <<ph, ninit, nkex, nk, done, authed, failed, bad>>

\* message number classes, RFC 4250 4.1 / RFC 4253 12
IsKexInit(ty) == ty = 20
IsNewKeys(ty) == ty = 21
IsKexMsg(ty)  == ty >= 30 /\ ty <= 49
IsService(ty) == ty = 5 \/ ty = 6
IsAuth(ty)    == ty >= 50 /\ ty <= 79
IsConn(ty)    == ty >= 80 /\ ty <= 127
IsUpper(ty)   == IsService(ty) \/ IsAuth(ty) \/ IsConn(ty)   \* what RFC 4253 7.1 forbids during a key exchange
AuthSuccess   == 52

MInit ==
  /\ ph = [d \in Dirs |-> "init"] /\ ninit = [d \in Dirs |-> 0] /\ nkex = [d \in Dirs |-> 0]
  /\ nk = [d \in Dirs |-> 0] /\ done = 0 /\ authed = FALSE /\ failed = FALSE /\ bad = ""

MTypeOK ==
  /\ ph \in [Dirs -> {"init", "kex", "open"}]
  /\ \A d \in Dirs : ninit[d] \in Nat /\ nkex[d] \in Nat /\ nk[d] \in Nat /\ nk[d] <= ninit[d]
  /\ done \in Nat /\ authed \in BOOLEAN /\ failed \in BOOLEAN /\ bad \in STRING

\* the rule (if any) broken by c consecutive packets of type ty in direction d
Rule(d, ty, c) ==
  LET o == Other(d) IN
  CASE IsKexInit(ty) ->
         IF c # 1 \/ ph[d] = "kex" THEN "KexShape" ELSE ""
    [] IsNewKeys(ty) ->
         IF ph[d] = "init" THEN "FirstIsKexInit"
         ELSE IF c # 1 \/ ph[d] # "kex" \/ nkex[d] < 1 THEN "KexShape"
         ELSE IF ninit[o] < ninit[d] THEN "KexCausal"
         ELSE ""
    [] IsKexMsg(ty) ->
         IF ph[d] = "init" THEN "FirstIsKexInit"
         ELSE IF ph[d] # "kex" THEN "KexShape"
         ELSE IF d = "out" /\ ninit["in"] < ninit["out"] THEN "KexCausal"
         ELSE ""
    [] IsUpper(ty) ->
         IF ph[d] = "init" THEN "FirstIsKexInit"
         ELSE IF nk[d] = 0 THEN "BeforeFirstNewKeys"
         ELSE IF ph[d] = "kex" THEN (IF d = "out" THEN "K1Out" ELSE "K1In")
         ELSE IF IsConn(ty) /\ ~authed THEN "ConnBeforeAuth"
         ELSE ""
    [] OTHER ->          \* transport-generic (DISCONNECT, IGNORE, DEBUG, UNIMPLEMENTED, EXT_INFO, ...), local extensions
         IF ph[d] = "init" THEN "FirstIsKexInit" ELSE ""

Flag(r) == bad' = IF bad = "" THEN r ELSE bad

\* c consecutive packets of type ty observed in direction d
Observe(d, ty, c) ==
  /\ Flag(Rule(d, ty, c))
  /\ ph' = IF IsKexInit(ty) THEN [ph EXCEPT ![d] = "kex"]
           ELSE IF IsNewKeys(ty) THEN [ph EXCEPT ![d] = "open"]
           ELSE ph
  /\ ninit' = IF IsKexInit(ty) THEN [ninit EXCEPT ![d] = @ + c] ELSE ninit
  /\ nkex' = IF IsKexInit(ty) THEN [nkex EXCEPT ![d] = 0]
             ELSE IF IsKexMsg(ty) THEN [nkex EXCEPT ![d] = @ + c]
             ELSE nkex
  /\ nk' = IF IsNewKeys(ty) /\ ph[d] = "kex" THEN [nk EXCEPT ![d] = @ + 1] ELSE nk
  /\ authed' = (authed \/ (d = "out" /\ ty = AuthSuccess))
  /\ UNCHANGED <<done, failed>>

\* handshakeTransport.kexLoop left enterKeyExchange (hook under t.mu, after sentInitMsg = nil).
\* The hook fires for failed exchanges too (connection torn down in the middle of a re-key).
ObserveKexDone ==
  /\ IF nk["out"] = done + 1 /\ nk["in"] = done + 1 /\ ph["out"] = "open" /\ ph["in"] = "open"
     THEN done' = done + 1 /\ UNCHANGED failed
     ELSE failed' = TRUE /\ UNCHANGED done
  /\ UNCHANGED <<ph, ninit, nkex, nk, authed, bad>>

\* a packet was appended to pendingPackets (hook under t.mu): no rule of C27 speaks about it
ObserveQueued == UNCHANGED mvars

\* end of the connection.  ok = 1: the peer exited with status 0 and the echoed bytes were equal;
\* min: lower bound on completed re-keys for the echoed payload (0 when nothing forces one)
ObserveEnd(ok, min) ==
  /\ Flag(IF ok # 1 THEN ""
          ELSE IF done < 1 \/ ~authed THEN "SessionIncomplete"
          ELSE IF done - 1 < min THEN "RekeysEnough"
          ELSE "")
  /\ UNCHANGED <<ph, ninit, nkex, nk, done, authed, failed>>

-----------------------------------------------------------------------------
(* The properties: one invariant per rule, so that a rejection names the rule. *)
FirstIsKexInit     == bad # "FirstIsKexInit"
KexShape           == bad # "KexShape"
KexCausal          == bad # "KexCausal"
BeforeFirstNewKeys == bad # "BeforeFirstNewKeys"
K1Out              == bad # "K1Out"
K1In               == bad # "K1In"
ConnBeforeAuth     == bad # "ConnBeforeAuth"
SessionIncomplete  == bad # "SessionIncomplete"
RekeysEnough       == bad # "RekeysEnough"
NoRuleBroken       == bad = ""

\* structural facts about the monitor itself (checked by TLC on SSHInterop_Proto)
Counts == /\ \A d \in Dirs : nk[d] <= ninit[d] /\ ninit[d] <= nk[d] + 1
          /\ \A d \in Dirs : (ph[d] = "kex") <=> (ninit[d] = nk[d] + 1)
          /\ done <= nk["out"] /\ done <= nk["in"]
=============================================================================
